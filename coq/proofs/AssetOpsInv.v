(* C22 proofs, part 2: the invariant of every world reachable through [step], and its
   preservation by every transaction (successful or failing). *)
From Coq Require Import NArith PeanoNat List Bool Lia ZifyN ZifyNat ZifyBool.
From Verif.model Require Import Overflow AssocList AssetOps.
From Verif.proofs Require Import OverflowProofs AssocListProofs AssetOpsProofs.
Import ListNotations.
Open Scope N_scope.

Notation cget := (aget (V:=N) N.eqb).

Record Inv (w : world) : Prop := {
  i_ndh : NoDup (map fst (w_hold w));
  i_ndp : NoDup (map fst (w_par w));
  i_ndc : NoDup (map fst (w_creator w));
  (* parameters live exactly in the creator's account *)
  i_pc : forall c a p, pget (c, a) (w_par w) = Some p -> creator_of w a = Some c;
  i_cp : forall a c, creator_of w a = Some c ->
         exists p, pget (c, a) (w_par w) = Some p /\ p_total p < 2 ^ 64 /\
                   supply w a = p_total p /\ hget (c, a) (w_hold w) <> None;
  (* holdings left behind by a destroyed asset are all empty *)
  i_ns : forall a, creator_of w a = None -> supply w a = 0;
  (* asset ids come from the transaction counter *)
  i_id : forall a c, creator_of w a = Some c -> a <= w_counter w;
  i_hid : forall x a h, hget (x, a) (w_hold w) = Some h -> a <= w_counter w
}.

Lemma Inv_winit c : Inv (winit c).
Proof.
  split; cbn; try constructor; try discriminate; auto.
Qed.

Lemma Inv_hb w : Inv w -> hb (w_hold w).
Proof.
  intros I [x a] h E. pose proof (amt_in_le_sup (w_hold w) x a) as L.
  unfold amt_in in L. rewrite E in L. rewrite <- supply_sup in L.
  destruct (creator_of w a) as [c|] eqn:Ec.
  - destruct (i_cp w I a c Ec) as (p & _ & Hp & Hs & _). lia.
  - rewrite (i_ns w I a Ec) in L. lia.
Qed.

Lemma creator_of_frame w w' : frame w w' -> forall a, creator_of w' a = creator_of w a.
Proof. intros (_ & H & _) a. unfold creator_of. rewrite H. reflexivity. Qed.

(* a transaction that only touches holdings *)
Lemma Inv_hold_change w w' :
  Inv w -> frame w w' ->
  NoDup (map fst (w_hold w')) ->
  (forall a, sup (w_hold w') a = sup (w_hold w) a) ->
  (forall a c, creator_of w a = Some c -> hget (c, a) (w_hold w') <> None) ->
  (forall x a h, hget (x, a) (w_hold w') = Some h -> a <= w_counter w) ->
  Inv w'.
Proof.
  intros I F Hnd Hs Hc Hid. pose proof (creator_of_frame w w' F) as Cr.
  destruct F as (Fp & Fc & Fn). split.
  - exact Hnd.
  - rewrite Fp. apply I.
  - rewrite Fc. apply I.
  - intros c a p. rewrite Fp, Cr. apply I.
  - intros a c. rewrite Cr. intros E. destruct (i_cp w I a c E) as (p & Hp & Ht & Hsup & _).
    exists p. rewrite Fp. repeat split; auto. rewrite supply_sup, Hs, <- supply_sup. exact Hsup.
  - intros a. rewrite Cr. intros E. rewrite supply_sup, Hs, <- supply_sup. apply I. exact E.
  - intros a c. rewrite Cr, Fn. apply I.
  - intros x a h E. rewrite Fn. eapply Hid; eauto.
Qed.

Lemma Inv_bump w : Inv w -> Inv (bump w).
Proof.
  intros I. split; cbn; try apply I.
  - intros a c E. pose proof (i_id w I a c E). lia.
  - intros x a h E. pose proof (i_hid w I x a h E). lia.
Qed.

(* ------------------------------------------------------------------ AssetTransfer *)
Lemma some_neq_none {A} (o : option A) (x : A) : o = Some x -> o <> None.
Proof. intros ->. discriminate. Qed.

Lemma neq_none_some {A} (o : option A) : o <> None -> exists x, o = Some x.
Proof. destruct o; [eauto|contradiction]. Qed.

Lemma close_summary source asset closeto claw w w' v :
  NoDup (map fst (w_hold w)) ->
  close_rel source asset closeto claw w w' v ->
  frame w w' /\ NoDup (map fst (w_hold w')) /\
  (forall a, sup (w_hold w') a = sup (w_hold w) a) /\
  (forall k, hget k (w_hold w) <> None ->
             k <> (source, asset) \/ pget (source, asset) (w_par w) <> None -> hget k (w_hold w') <> None) /\
  (forall k, hget k (w_hold w') <> None -> hget k (w_hold w) <> None).
Proof.
  intros Hnd [(-> & -> & ->)|(Hct & -> & Hnc & sh & w5 & w6 & Esh & -> & Htk & Hpi & Hz & F & Hw')].
  - repeat split; auto.
  - cbn zeta in *.
    pose proof (tk_hstep _ _ _ _ _ _ Htk) as S5. pose proof (pi_hstep _ _ _ _ _ _ Hpi) as S6.
    pose proof (hstep_trans _ _ _ S5 S6) as S. destruct S as [F6 N6 K6 K6'].
    specialize (N6 Hnd). split; [eapply frame_trans; eauto|]. rewrite Hw'.
    split; [apply NoDup_adel; try exact pair_eqb_eq; exact N6|]. split; [|split].
    + intros a. pose proof (sup_hdel (w_hold w6) source asset a) as D. rewrite Hz in D.
      pose proof (tk_sup _ _ _ _ _ _ Htk a). pose proof (pi_sup _ _ _ _ _ _ Hpi a).
      destruct (asset =? a); lia.
    + intros k Hk [Hne|Hp]; [|contradiction].
      rewrite hget_hdel by exact N6. apply pair_eqb_false in Hne. rewrite Hne. auto.
    + intros k. rewrite hget_hdel by exact N6. destruct (pair_eqb k (source, asset)); [contradiction|auto].
Qed.

Lemma xfer_summary sender asset amount receiver asender closeto w w' v :
  Inv w -> xfer_rel sender asset amount receiver asender closeto w w' v ->
  frame w w' /\ NoDup (map fst (w_hold w')) /\
  (forall a, sup (w_hold w') a = sup (w_hold w) a) /\
  (forall a c, creator_of w a = Some c -> hget (c, a) (w_hold w') <> None) /\
  (forall x a h, hget (x, a) (w_hold w') = Some h -> a <= w_counter w).
Proof.
  intros I [source claw w1 w2 w3 Hsrc Hop Htk Hpi Hcl].
  destruct (optin_hstep_weak _ _ _ _ _ _ _ Hop) as (F1 & N1 & K1 & _ & S1 & _ & _).
  pose proof (tk_hstep _ _ _ _ _ _ Htk) as [F2 N2 K2 K2'].
  pose proof (pi_hstep _ _ _ _ _ _ Hpi) as [F3 N3 K3 K3'].
  pose proof (i_ndh w I) as N0.
  destruct (close_summary _ _ _ _ _ _ _ (N3 (N2 (N1 N0))) Hcl) as (F4 & N4 & S4 & K4 & K4').
  pose proof (frame_trans _ _ _ F1 (frame_trans _ _ _ F2 F3)) as F13.
  split; [eapply frame_trans; eauto|]. split; [exact N4|]. split; [|split].
  - intros a. rewrite S4, (pi_sup _ _ _ _ _ _ Hpi a).
    pose proof (tk_sup _ _ _ _ _ _ Htk a) as T. rewrite <- S1. lia.
  - intros a c Ec. destruct (i_cp w I a c Ec) as (p & Hp & _ & _ & Hh).
    apply K4; [auto|]. destruct F13 as (Fp & _ & _). rewrite Fp.
    destruct (pair_eqb (c, a) (source, asset)) eqn:E.
    + apply pair_eqb_eq in E. inversion E; subst. right. rewrite Hp. discriminate.
    + left. apply pair_eqb_false. exact E.
  - intros x a h E. apply some_neq_none in E. apply K4', K3', K2' in E.
    destruct Hop as [_ [H|(_ & _ & _ & _ & p & c & Hc & _ & H)]]; rewrite H in E.
    + apply neq_none_some in E. destruct E as [h0 E]. eapply i_hid; eauto.
    + rewrite hget_hset in E. destruct (pair_eqb (x, a) (source, asset)) eqn:Ek.
      * apply pair_eqb_eq in Ek. inversion Ek; subst. eapply i_id; eauto.
      * apply neq_none_some in E. destruct E as [h0 E]. eapply i_hid; eauto.
Qed.

Lemma Inv_xfer maxassets sender asset amount receiver asender closeto w w' v :
  Inv w -> amount < 2 ^ 64 ->
  assetTransfer maxassets sender asset amount receiver asender closeto w = (w', Ok v) -> Inv w'.
Proof.
  intros I Ha H. apply assetTransfer_ok in H; auto; [|apply Inv_hb; exact I].
  destruct (xfer_summary _ _ _ _ _ _ _ _ _ I H) as (F & Nd & S & C & Hid).
  eapply Inv_hold_change; eauto.
Qed.

(* ------------------------------------------------------------------ AssetFreeze *)
Definition freeze_rel (sender asset account : N) (frozen : bool) (w w' : world) : Prop :=
  frame w w' /\
  exists p c h, creator_of w asset = Some c /\ pget (c, asset) (w_par w) = Some p /\
    p_freeze p = sender /\ sender <> 0 /\ hget (account, asset) (w_hold w) = Some h /\
    w_hold w' = hset (account, asset) (mkH (h_amt h) frozen) (w_hold w).

Lemma assetFreeze_ok sender asset account frozen w w' v :
  assetFreeze sender asset account frozen w = (w', Ok v) ->
  freeze_rel sender asset account frozen w w' /\ v = 0.
Proof.
  unfold assetFreeze. unfold bind at 1.
  destruct (getParams asset w) as [w1 [[p c]|e]] eqn:Eg; [|discriminate].
  apply getParams_ok in Eg. destruct Eg as (-> & Hc & Hp). cbn [fst snd].
  destruct ((p_freeze p =? 0) || negb (sender =? p_freeze p)) eqn:Ec; [discriminate|].
  apply orb_false_iff in Ec. destruct Ec as [Ec1 Ec2].
  apply N.eqb_neq in Ec1. apply negb_false_iff, N.eqb_eq in Ec2.
  unfold bind at 1. unfold getAssetHolding at 1. cbn beta iota.
  destruct (hget (account, asset) (w_hold w)) as [h|] eqn:Eh; [|discriminate].
  unfold bind, putAssetHolding, ret. cbn beta iota. intros H. inversion H; subst; clear H.
  split; auto. split; [repeat split|]. exists p, c, h. repeat split; auto; congruence.
Qed.

Lemma Inv_freeze sender asset account frozen w w' :
  Inv w -> freeze_rel sender asset account frozen w w' -> Inv w'.
Proof.
  intros I [F (p & c & h & Hc & Hp & _ & _ & Hh & Hw)].
  pose proof (hset_existing_hstep w w' _ _ _ F Hh Hw) as [_ Nd K K'].
  eapply Inv_hold_change; eauto.
  - apply Nd. apply I.
  - intros a. rewrite Hw. pose proof (sup_hset (w_hold w) account asset (mkH (h_amt h) frozen) a) as S.
    unfold amt_in in S. rewrite Hh in S. cbn [h_amt] in S. destruct (asset =? a); lia.
  - intros a c0 Ec. apply K. destruct (i_cp w I a c0 Ec) as (_ & _ & _ & _ & H). exact H.
  - intros x a h0 E. apply some_neq_none, K', neq_none_some in E. destruct E as [h1 E].
    eapply i_hid; eauto.
Qed.

(* ------------------------------------------------------------------ AssetConfig *)
Definition create_rel (sender : N) (cp : aparams) (w w' : world) (v : N) : Prop :=
  v = w_counter w + 1 /\ w_counter w' = w_counter w /\
  w_hold w' = hset (sender, v) (mkH (p_total cp) false) (w_hold w) /\
  w_par w' = aset pair_eqb (sender, v) cp (w_par w) /\
  w_creator w' = aset N.eqb v sender (w_creator w).

Definition destroy_rel (sender asset : N) (w w' : world) : Prop :=
  exists p c, creator_of w asset = Some c /\ pget (c, asset) (w_par w) = Some p /\
    p_manager p = sender /\ sender <> 0 /\
    amt_in (w_hold w) (c, asset) = p_total p /\
    w_counter w' = w_counter w /\
    w_hold w' = hdel (c, asset) (w_hold w) /\
    w_par w' = adel pair_eqb (c, asset) (w_par w) /\
    w_creator w' = adel N.eqb asset (w_creator w).

Definition reconf_rel (sender asset : N) (cp : aparams) (w w' : world) : Prop :=
  exists p c, creator_of w asset = Some c /\ pget (c, asset) (w_par w) = Some p /\
    p_manager p = sender /\ sender <> 0 /\
    w_hold w' = w_hold w /\ w_creator w' = w_creator w /\ w_counter w' = w_counter w /\
    w_par w' = aset pair_eqb (c, asset) (reconfigure p cp) (w_par w).

Lemma assetConfig_ok maxassets sender casset cp w w' v :
  assetConfig maxassets sender casset cp w = (w', Ok v) ->
  (casset = 0 /\ create_rel sender cp w w' v) \/
  (casset <> 0 /\ params_is_zero cp = true /\ destroy_rel sender casset w w' /\ v = 0) \/
  (casset <> 0 /\ params_is_zero cp = false /\ reconf_rel sender casset cp w w' /\ v = 0).
Proof.
  intros H. unfold assetConfig in H. destruct (casset =? 0) eqn:E0.
  - apply N.eqb_eq in E0. left. split; [exact E0|].
    unfold bind, getAcct, getCounter, hasAssetParams in H. cbn beta iota in H.
    destruct (ahas pair_eqb (sender, w_counter w + 1) (w_par w)); [discriminate|].
    destruct ((0 <? maxassets) && (maxassets <=? _)); [discriminate|].
    unfold putAcct, putAssetParams, putAssetHolding, allocateAsset, ret in H.
    inversion H; subst; clear H. cbn. repeat split.
  - apply N.eqb_neq in E0. right. unfold bind at 1 in H.
    destruct (getParams casset w) as [w1 [[p c]|e]] eqn:Eg; [|discriminate].
    apply getParams_ok in Eg. destruct Eg as (-> & Hc & Hp). cbn [fst snd] in H.
    destruct ((p_manager p =? 0) || negb (sender =? p_manager p)) eqn:Ec; [discriminate|].
    apply orb_false_iff in Ec. destruct Ec as [Ec1 Ec2].
    apply N.eqb_neq in Ec1. apply negb_false_iff, N.eqb_eq in Ec2.
    destruct (params_is_zero cp) eqn:Ez.
    + left. split; [exact E0|]. split; [reflexivity|].
      unfold bind, getAcct, getAssetHolding in H. cbn beta iota in H.
      destruct (fst _ =? 0); [discriminate|]. destruct (snd _ =? 0); [discriminate|].
      destruct (negb (_ =? p_total p)) eqn:Ea; [discriminate|].
      apply negb_false_iff, N.eqb_eq in Ea.
      unfold putAcct, deallocateAsset, deleteAssetHolding, deleteAssetParams, ret in H.
      inversion H; subst; clear H. split; [|reflexivity].
      exists p, c. cbn. repeat split; auto; congruence.
    + right. split; [exact E0|]. split; [reflexivity|].
      unfold bind, putAssetParams, ret in H. cbn beta iota in H.
      inversion H; subst; clear H. split; [|reflexivity].
      exists p, c. cbn [w_hold w_par w_creator w_counter]. repeat split; auto; congruence.
Qed.

Definition cget_cset := aget_aset (V:=N) N.eqb Neqb_eq.
Definition cget_cdel := aget_adel (V:=N) N.eqb Neqb_eq.
Definition pget_pset := aget_aset (V:=aparams) pair_eqb pair_eqb_eq.
Definition pget_pdel := aget_adel (V:=aparams) pair_eqb pair_eqb_eq.

Lemma pair_eqb_snd_ne x a y b : a <> b -> pair_eqb (x, a) (y, b) = false.
Proof. intros H. apply pair_eqb_false. intros [= _ E]. contradiction. Qed.

(* creation: the result still has the counter of w; [bump] follows in [step] *)
Lemma Inv_create sender cp w w' v :
  Inv w -> p_total cp < 2 ^ 64 -> create_rel sender cp w w' v -> Inv (bump w').
Proof.
  intros I Ht (-> & Hn & Hh & Hp & Hc). set (v := w_counter w + 1) in *.
  assert (creator_of w v = None) as Cn.
  { destruct (creator_of w v) as [c|] eqn:E; auto. pose proof (i_id w I v c E). lia. }
  assert (forall x, amt_in (w_hold w) (x, v) = 0) as Hz.
  { intros x. pose proof (amt_in_le_sup (w_hold w) x v) as L. rewrite <- supply_sup in L.
    rewrite (i_ns w I v Cn) in L. lia. }
  assert (forall a, creator_of w' a = if a =? v then Some sender else creator_of w a) as Cr.
  { intros a. unfold creator_of. rewrite Hc, cget_cset. reflexivity. }
  assert (forall a, sup (w_hold w') a = if a =? v then p_total cp else sup (w_hold w) a) as Su.
  { intros a. rewrite Hh. pose proof (sup_hset (w_hold w) sender v (mkH (p_total cp) false) a) as S.
    rewrite Hz in S. cbn [h_amt] in S. rewrite (N.eqb_sym a v). destruct (v =? a) eqn:E; [|lia].
    apply N.eqb_eq in E. subst a. rewrite <- supply_sup, (i_ns w I v Cn) in S. lia. }
  split; cbn [bump w_hold w_par w_creator w_counter].
  - rewrite Hh. apply NoDup_aset; [exact pair_eqb_eq|apply I].
  - rewrite Hp. apply NoDup_aset; [exact pair_eqb_eq|apply I].
  - rewrite Hc. apply NoDup_aset; [exact Neqb_eq|apply I].
  - intros c a p. change (creator_of (bump w') a) with (creator_of w' a). rewrite Cr, Hp, pget_pset.
    destruct (pair_eqb (c, a) (sender, v)) eqn:E.
    + apply pair_eqb_eq in E. inversion E; subst. rewrite N.eqb_refl. reflexivity.
    + intros E2. pose proof (i_pc w I c a p E2) as E3. pose proof (i_id w I a c E3).
      destruct (a =? v) eqn:Ea; [apply N.eqb_eq in Ea; lia|exact E3].
  - intros a c. change (creator_of (bump w') a) with (creator_of w' a).
    change (supply (bump w') a) with (sup (w_hold w') a). rewrite Cr, Su, Hp, Hh.
    destruct (a =? v) eqn:Ea.
    + apply N.eqb_eq in Ea. subst a. intros [= <-]. exists cp.
      rewrite pget_pset, hget_hset, !pair_eqb_refl. repeat split; auto. discriminate.
    + intros E. destruct (i_cp w I a c E) as (p & Hpp & Htt & Hs & Hhh). exists p.
      apply N.eqb_neq in Ea. rewrite pget_pset, hget_hset, !(pair_eqb_snd_ne _ _ _ _ Ea).
      repeat split; auto.
  - intros a. change (creator_of (bump w') a) with (creator_of w' a).
    change (supply (bump w') a) with (sup (w_hold w') a). rewrite Cr, Su.
    destruct (a =? v); [discriminate|]. apply I.
  - intros a c. change (creator_of (bump w') a) with (creator_of w' a). rewrite Cr, Hn.
    destruct (a =? v) eqn:Ea.
    + apply N.eqb_eq in Ea. subst. intros _. unfold v. lia.
    + intros E. pose proof (i_id w I a c E). lia.
  - intros x a h. rewrite Hh, hget_hset, Hn. destruct (pair_eqb (x, a) (sender, v)) eqn:E.
    + apply pair_eqb_eq in E. inversion E; subst. intros _. unfold v. lia.
    + intros E2. pose proof (i_hid w I x a h E2). lia.
Qed.

Lemma Inv_destroy sender asset w w' :
  Inv w -> destroy_rel sender asset w w' -> Inv w'.
Proof.
  intros I (p & c & Hc & Hp & _ & _ & Ha & Hn & Hh & Hpp & Hcc).
  destruct (i_cp w I asset c Hc) as (p0 & Hp0 & Ht & Hs & Hx). rewrite Hp in Hp0. inversion Hp0; subst p0.
  assert (forall a, creator_of w' a = if a =? asset then None else creator_of w a) as Cr.
  { intros a. unfold creator_of. rewrite Hcc, cget_cdel; [reflexivity|apply I]. }
  assert (forall a, sup (w_hold w') a = if a =? asset then 0 else sup (w_hold w) a) as Su.
  { intros a. rewrite Hh. pose proof (sup_hdel (w_hold w) c asset a) as S.
    rewrite (N.eqb_sym a asset). destruct (asset =? a) eqn:E; [|lia].
    apply N.eqb_eq in E. subst a. rewrite <- supply_sup in S. lia. }
  split.
  - rewrite Hh. apply NoDup_adel; try exact pair_eqb_eq; apply I.
  - rewrite Hpp. apply NoDup_adel; try exact pair_eqb_eq; apply I.
  - rewrite Hcc. apply NoDup_adel; try exact Neqb_eq; apply I.
  - intros c' a p'. rewrite Cr, Hpp, pget_pdel by apply I.
    destruct (pair_eqb (c', a) (c, asset)) eqn:E; [discriminate|].
    intros E2. pose proof (i_pc w I c' a p' E2) as E3.
    destruct (a =? asset) eqn:Ea; [|exact E3]. apply N.eqb_eq in Ea. subst a.
    rewrite Hc in E3. inversion E3; subst. rewrite pair_eqb_refl in E. discriminate.
  - intros a c'. rewrite Cr. destruct (a =? asset) eqn:Ea; [discriminate|].
    intros E. destruct (i_cp w I a c' E) as (p' & Hp' & Ht' & Hs' & Hx'). exists p'.
    apply N.eqb_neq in Ea. rewrite Hpp, Hh, pget_pdel, hget_hdel by apply I.
    rewrite !(pair_eqb_snd_ne _ _ _ _ Ea). repeat split; auto.
    rewrite supply_sup, Su. apply N.eqb_neq in Ea. rewrite Ea. exact Hs'.
  - intros a. rewrite Cr, supply_sup, Su. destruct (a =? asset); [reflexivity|]. apply I.
  - intros a c'. rewrite Cr, Hn. destruct (a =? asset); [discriminate|]. apply I.
  - intros x a h. rewrite Hh, Hn, hget_hdel by apply I.
    destruct (pair_eqb (x, a) (c, asset)); [discriminate|]. apply I.
Qed.

Lemma Inv_reconf sender asset cp w w' :
  Inv w -> reconf_rel sender asset cp w w' -> Inv w'.
Proof.
  intros I (p & c & Hc & Hp & _ & _ & Hh & Hcc & Hn & Hpp).
  assert (forall a, creator_of w' a = creator_of w a) as Cr.
  { intros a. unfold creator_of. rewrite Hcc. reflexivity. }
  split.
  - rewrite Hh. apply I.
  - rewrite Hpp. apply NoDup_aset; [exact pair_eqb_eq|apply I].
  - rewrite Hcc. apply I.
  - intros c' a p'. rewrite Cr, Hpp, pget_pset. destruct (pair_eqb (c', a) (c, asset)) eqn:E.
    + apply pair_eqb_eq in E. inversion E; subst. intros _. exact Hc.
    + apply I.
  - intros a c'. rewrite Cr. intros E. destruct (i_cp w I a c' E) as (p' & Hp' & Ht' & Hs' & Hx').
    unfold supply. rewrite Hpp, Hh, pget_pset. destruct (pair_eqb (c', a) (c, asset)) eqn:E2.
    + apply pair_eqb_eq in E2. inversion E2; subst. rewrite Hp in Hp'. inversion Hp'; subst.
      exists (reconfigure p' cp). repeat split; auto.
    + exists p'. repeat split; auto.
  - intros a. rewrite Cr. unfold supply. rewrite Hh. apply I.
  - intros a c'. rewrite Cr, Hn. apply I.
  - intros x a h. rewrite Hh, Hn. apply I.
Qed.

(* ------------------------------------------------------------------ every transaction *)
Lemma Inv_step maxassets w o : Inv w -> op_wf o -> Inv (fst (step maxassets w o)).
Proof.
  intros I Hwf. unfold step. destruct (apply_op maxassets o w) as [w' [v|e]] eqn:E; cbn [fst]; [|exact I].
  destruct o as [s a cp|s a amt r asnd ct|s a x f|]; cbn [apply_op op_wf] in *.
  - apply assetConfig_ok in E. destruct E as [[_ H]|[(_ & _ & H & _)|(_ & _ & H & _)]].
    + eapply Inv_create; eauto.
    + apply Inv_bump. eapply Inv_destroy; eauto.
    + apply Inv_bump. eapply Inv_reconf; eauto.
  - apply Inv_bump. eapply Inv_xfer; eauto.
  - apply Inv_bump. apply assetFreeze_ok in E. destruct E as [E _]. eapply Inv_freeze; eauto.
  - apply Inv_bump. inversion E; subst. exact I.
Qed.

Lemma Inv_run maxassets ops : forall w, Inv w -> Forall op_wf ops -> Inv (run maxassets w ops).
Proof.
  induction ops as [|o ops IH]; intros w I F; cbn [run]; auto.
  inversion F; subst. apply IH; auto. apply Inv_step; auto.
Qed.

Lemma Inv_reachable maxassets c ops : Forall op_wf ops -> Inv (run maxassets (winit c) ops).
Proof. apply Inv_run. apply Inv_winit. Qed.

(* ------------------------------------------------------------------ transaction groups *)
Lemma Inv_run_group maxassets g : forall w k, Inv w -> Forall op_wf g ->
  Inv (fst (fst (run_group maxassets w g k))).
Proof.
  induction g as [|o g IH]; intros w k I F; cbn [run_group]; [exact I|].
  inversion F as [|o' g' Fo Fg]; subst.
  pose proof (Inv_step maxassets w o I Fo) as I1.
  destruct (step maxassets w o) as [w1 [v|e]] eqn:E; cbn [fst] in I1.
  - specialize (IH w1 (k + 1) I1 Fg).
    destruct (run_group maxassets w1 g (k + 1)) as [[w2 r] k2]. exact IH.
  - exact I.
Qed.

Lemma Inv_gstep maxassets w g : Inv w -> Forall op_wf g -> Inv (fst (fst (gstep maxassets w g))).
Proof.
  intros I F. unfold gstep. pose proof (Inv_run_group maxassets g w 0 I F) as H.
  destruct (run_group maxassets w g 0) as [[w' r] k]. destruct r; cbn [fst] in *; auto.
Qed.

Lemma Inv_grun maxassets gs : forall w, Inv w -> Forall (Forall op_wf) gs -> Inv (grun maxassets w gs).
Proof.
  induction gs as [|g gs IH]; intros w I F; cbn [grun]; auto.
  inversion F; subst. apply IH; auto. apply Inv_gstep; auto.
Qed.
