(* C34: static check (check, checkStep, checkBranch, checkSwitch) vs dynamic pc (step) agreement, for every
   dispatch table, program, version, mode and every op-function family whose control-flow
   ops conform to [ctl_allowed]. *)
From Coq Require Import List NArith ZArith Bool Arith Lia.
From Verif.model Require Import AvmTypes AvmFrame.
Import ListNotations.

(* which (op function, check function, Size) combinations the agreement proof relies on; a
   finite obligation over the regenerated table *)
Definition kinds_ok (s : opspec) : bool :=
  match os_ok s, os_ck s with
  | OpPlain, CkNone => true
  | OpRetsub, CkNone => true
  | OpReturn, CkNone => true
  | OpBnz2B, CkBranch2B | OpBz2B, CkBranch2B | OpB2B, CkBranch2B | OpCallsub2B, CkBranch2B =>
      N.eqb (os_size s) 3
  | OpBnzV, CkBranchVarint | OpBzV, CkBranchVarint | OpBV, CkBranchVarint | OpCallsubV, CkBranchVarint =>
      N.eqb (os_size s) 0
  | OpSwitch, CkSwitch | OpMatch, CkSwitch => N.eqb (os_size s) 0
  | OpIntcBlock, CkIntImm | OpPushInts, CkIntImm => true
  | OpBytecBlock, CkByteImm | OpPushBytess, CkByteImm => true
  | OpPushInt, CkPushInt => true
  | OpPushBytes, CkPushBytes => true
  | _, _ => false
  end.

Section Agree.
  Variable tbl : N -> N -> opspec * list opspec.
  Variable lsv : N.
  Variable max_bytes : N.
  Variable v mode : N.
  Variable prog : list N.

  Notation len := (length prog).
  Notation spec_at := (get_op_spec tbl v prog).
  Notation runck := (run_check lsv max_bytes v).

  (* an instruction boundary accepted by the static check, or the end of the program *)
  Definition aligned (starts : list nat) (p : nat) : Prop := In p starts \/ len <= p.

  Definition next_of (s : opspec) (pc nx : nat) : nat :=
    if Nat.eqb nx 0 then pc + N.to_nat (os_size s) else nx.

  (* what checkStep established about the instruction at [s] *)
  Definition decoded (s next : nat) (ts : list (option nat)) : Prop :=
    os_hasop (spec_at s) = true /\
    N.land mode (os_modes (spec_at s)) <> 0%N /\
    exists nx thr, runck (spec_at s) prog s = Ok (nx, ts, thr) /\
                   next = next_of (spec_at s) s nx /\ s < next.

  Definition good (starts : list nat) (s : nat) : Prop :=
    exists next ts, decoded s next ts /\ aligned starts next /\
                    Forall (fun o => exists t, o = Some t /\ aligned starts t) ts.

  (* ---- walk_targets *)
  Lemma walk_targets_spec : forall ts thr starts targets targets',
      walk_targets ts thr starts targets = Ok targets' ->
      (forall t, In t targets -> In t targets') /\
      (forall t, In (Some t) ts -> In t targets') /\
      Forall (fun o => o <> None) ts /\
      (forall t, In t targets' -> In t targets \/ (In (Some t) ts /\ (t < thr -> In t starts))).
  Proof.
    induction ts as [|o r IH]; intros thr starts targets targets' H; simpl in H.
    - inversion H; subst. repeat split; auto. intros t [].
    - destruct o as [t0|]; [|discriminate].
      destruct (Nat.ltb t0 thr && negb (mem_nat t0 starts)) eqn:E; [discriminate|].
      apply IH in H. destruct H as (H1 & H2 & H3 & H4).
      repeat split.
      + intros t Ht. apply H1. now right.
      + intros t [Ht|Ht]; [inversion Ht; subst; apply H1; now left | now apply H2].
      + constructor; [discriminate | exact H3].
      + intros t Ht. destruct (H4 t Ht) as [[Hh|Hh]|[Hh Hk]].
        * subst t0. right. split; [now left|]. intro Hlt.
          apply andb_false_iff in E. destruct E as [E|E].
          -- apply Nat.ltb_ge in E. lia.
          -- apply negb_false_iff in E. unfold mem_nat in E. apply existsb_exists in E.
             destruct E as (x & Hx & Hxe). apply Nat.eqb_eq in Hxe. now subst x.
        * now left.
        * right. split; [now right | exact Hk].
  Qed.

  Lemma inside_hit_false : forall pc next targets,
      inside_hit pc next targets = false -> forall t, In t targets -> ~ (pc < t /\ t < next).
  Proof.
    intros pc next targets H t Ht [H1 H2].
    unfold inside_hit in H.
    assert (existsb (fun t0 => Nat.ltb pc t0 && Nat.ltb t0 next) targets = true) as C.
    { apply existsb_exists. exists t. split; [exact Ht|].
      apply andb_true_iff. split; apply Nat.ltb_lt; lia. }
    congruence.
  Qed.

  (* thresholds of check functions that validate targets are never below pc *)
  Lemma run_check_thr : forall s pc nx ts thr,
      runck s prog pc = Ok (nx, ts, thr) -> ts = [] \/ pc <= thr.
  Proof.
    intros s pc nx ts thr H. unfold run_check in H.
    destruct (os_ck s).
    - inversion H; auto.
    - inversion H; subst. right. lia.
    - destruct (branch_target_varint prog pc) as [[t isz]|]; [|discriminate].
      inversion H; subst. right. lia.
    - destruct (Nat.leb len (S pc)); [discriminate|]. inversion H; subst. right. lia.
    - destruct (parse_int_imm prog (S pc)); [|discriminate]. inversion H; auto.
    - destruct (byte_imm_args lsv max_bytes prog pc); [|discriminate]. inversion H; auto.
    - destruct (push_bytes_next prog pc); [|discriminate]. inversion H; auto.
    - destruct (push_int_next prog pc); [|discriminate]. inversion H; auto.
    - discriminate.
  Qed.

  (* ---- the invariant of check()'s loop *)
  Definition cinv (pc : nat) (starts targets : list nat) : Prop :=
    (forall s, In s starts -> s < pc) /\
    (forall t, In t targets -> In t starts \/ pc <= t) /\
    (forall s, In s starts ->
       exists next ts, decoded s next ts /\ (In next starts \/ next = pc) /\
                       (forall t, In (Some t) ts -> In t targets) /\
                       Forall (fun o => o <> None) ts).

  Lemma check_step_inv : forall pc starts targets cost next targets',
      cinv pc starts targets ->
      check_step tbl lsv max_bytes v mode prog pc (pc :: starts) targets = Ok (cost, next, targets') ->
      pc < next ->
      cinv next (pc :: starts) targets'.
  Proof.
    intros pc starts targets cost next targets' (I1 & I2 & I3) H Hadv.
    unfold check_step in H.
    destruct (negb (os_hasop (spec_at pc))) eqn:Hop; [discriminate|].
    destruct (N.eqb (N.land mode (os_modes (spec_at pc))) 0) eqn:Hmode; [discriminate|].
    destruct (negb (Nat.eqb (N.to_nat (os_size (spec_at pc))) 0) &&
              Nat.ltb len (pc + N.to_nat (os_size (spec_at pc)))) eqn:Hsz; [discriminate|].
    destruct (details_cost (spec_at pc) prog pc blank_len) as [c|]; [|discriminate].
    destruct (c <=? 0)%Z; [discriminate|].
    destruct (runck (spec_at pc) prog pc) as [[[nx ts] thr]|e] eqn:Hrc; [|discriminate].
    destruct (walk_targets ts thr (pc :: starts) targets) as [tg|e] eqn:Hw; [|discriminate].
    destruct (inside_hit pc (if Nat.eqb nx 0 then pc + N.to_nat (os_size (spec_at pc)) else nx) tg) eqn:Hin;
      [discriminate|].
    inversion H; subst cost next targets'. clear H.
    set (next := if Nat.eqb nx 0 then pc + N.to_nat (os_size (spec_at pc)) else nx) in *.
    apply walk_targets_spec in Hw. destruct Hw as (W1 & W2 & W3 & W4).
    pose proof (inside_hit_false _ _ _ Hin) as Hscan.
    pose proof (run_check_thr _ _ _ _ _ Hrc) as Hthr.
    apply negb_false_iff in Hop. apply N.eqb_neq in Hmode.
    repeat split.
    - intros s [Hs|Hs]; [subst; exact Hadv | specialize (I1 s Hs); lia].
    - intros t Ht. destruct (W4 t Ht) as [Hold|[Hnew Hback]].
      + destruct (I2 t Hold) as [Hs|Hge]; [left; now right|].
        destruct (Nat.eq_dec t pc) as [->|Hne]; [left; now left|].
        right. specialize (Hscan t Ht). lia.
      + destruct Hthr as [->|Hthr]; [destruct Hnew|].
        destruct (Nat.lt_ge_cases t thr) as [Hlt|Hge]; [left; now apply Hback|].
        destruct (Nat.eq_dec t pc) as [->|Hne]; [left; now left|].
        right. specialize (Hscan t Ht). lia.
    - intros s [Hs|Hs].
      + subst s. exists next, ts. split; [|split; [|split]].
        * split; [exact Hop|]. split; [exact Hmode|].
          exists nx, thr. split; [exact Hrc|]. split; [reflexivity | exact Hadv].
        * now right.
        * exact W2.
        * exact W3.
      + destruct (I3 s Hs) as (nxt & ts0 & Hd & Hn & Ht & Hf).
        exists nxt, ts0. split; [exact Hd|]. split; [|split].
        * destruct Hn as [Hn|Hn]; [left; now right | left; left; now symmetry].
        * intros t Hin0. apply W1. now apply Ht.
        * exact Hf.
  Qed.

  Lemma check_loop_inv : forall fuel maxcost pc starts targets sc result,
      cinv pc starts targets ->
      check_loop tbl lsv max_bytes fuel v mode maxcost prog pc starts targets sc = Some (Ok result) ->
      exists pc' targets', len <= pc' /\ cinv pc' result targets'.
  Proof.
    induction fuel as [|fuel IH]; intros maxcost pc starts targets sc result Hinv H; simpl in H.
    - destruct (Nat.leb len pc) eqn:E; [|discriminate].
      inversion H; subst. apply Nat.leb_le in E. eauto.
    - destruct (Nat.leb len pc) eqn:E.
      + inversion H; subst. apply Nat.leb_le in E. eauto.
      + destruct (check_step tbl lsv max_bytes v mode prog pc (pc :: starts) targets)
          as [[[cost next] tg]|e] eqn:Hs; [|discriminate].
        destruct (N.ltb v 4 && (maxcost <? sc + cost)%Z); [discriminate|].
        destruct (Nat.leb next pc) eqn:Hadv; [discriminate|].
        apply Nat.leb_gt in Hadv.
        eapply IH; [|exact H]. eapply check_step_inv; eauto.
  Qed.

  Lemma cinv_nil : forall pc, cinv pc [] [].
  Proof. intro pc. repeat split; intros ? []. Qed.

  (* every instruction start recorded by a successful check is well decoded, its successor and
     all its branch targets are again instruction starts (or the end of the program) *)
  Theorem check_ok_all_good : forall fuel maxcost pc0 starts,
      check_loop tbl lsv max_bytes fuel v mode maxcost prog pc0 [] [] 0%Z = Some (Ok starts) ->
      forall s, In s starts -> good starts s.
  Proof.
    intros fuel maxcost pc0 starts H s Hs.
    destruct (check_loop_inv _ _ _ _ _ _ _ (cinv_nil pc0) H) as (pc' & tg & Hlen & I1 & I2 & I3).
    destruct (I3 s Hs) as (next & ts & Hd & Hn & Ht & Hf).
    exists next, ts. split; [exact Hd|]. split.
    - destruct Hn as [Hn|Hn]; [now left | right; lia].
    - apply Forall_forall. intros o Ho. rewrite Forall_forall in Hf.
      destruct o as [t|]; [|exfalso; now apply (Hf None Ho)].
      exists t. split; [reflexivity|].
      destruct (I2 t (Ht t Ho)) as [Hi|Hge]; [now left | right; lia].
  Qed.

  (* the first instruction start is the pc after the version varint *)
  Lemma check_loop_first : forall fuel maxcost pc0 starts,
      check_loop tbl lsv max_bytes fuel v mode maxcost prog pc0 [] [] 0%Z = Some (Ok starts) ->
      aligned starts pc0.
  Proof.
    intros fuel maxcost pc0 starts H.
    destruct fuel as [|fuel]; simpl in H.
    - destruct (Nat.leb len pc0) eqn:E; [|discriminate]. right. now apply Nat.leb_le.
    - destruct (Nat.leb len pc0) eqn:E; [right; now apply Nat.leb_le|].
      destruct (check_step tbl lsv max_bytes v mode prog pc0 [pc0] []) as [[[cost next] tg]|e] eqn:Hs; [|discriminate].
      match type of H with context [if ?b then _ else _] => destruct b; [discriminate|] end.
      destruct (Nat.leb next pc0) eqn:Hadv; [discriminate|].
      (* starts only grows *)
      assert (forall fuel pc st tg sc res,
                 check_loop tbl lsv max_bytes fuel v mode maxcost prog pc st tg sc = Some (Ok res) ->
                 forall x, In x st -> In x res) as Hmono.
      { clear. induction fuel as [|fuel IH]; intros pc st tg sc res H x Hx; simpl in H.
        - destruct (Nat.leb len pc); [inversion H; subst; exact Hx | discriminate].
        - destruct (Nat.leb len pc); [inversion H; subst; exact Hx|].
          destruct (check_step tbl lsv max_bytes v mode prog pc (pc :: st) tg) as [[[c n] t]|e]; [|discriminate].
          destruct (N.ltb v 4 && (maxcost <? sc + c)%Z); [discriminate|].
          destruct (Nat.leb n pc); [discriminate|].
          eapply IH; [exact H | now right]. }
      left. eapply Hmono; [exact H | now left].
  Qed.

  (* ---- the dynamic side *)
  Lemma calls_eqb_eq : forall a b, calls_eqb a b = true -> a = b.
  Proof.
    induction a as [|x a IH]; destruct b as [|y b]; simpl; intro H; try discriminate; auto.
    apply andb_true_iff in H. destruct H as [H1 H2]. apply Nat.eqb_eq in H1. subst. f_equal. auto.
  Qed.

  Lemma switch_target_last : forall pc t,
      switch_target prog pc (N.of_nat (N.to_nat (byte_at prog (S pc)))) = Some t ->
      t = S (S pc) + 2 * N.to_nat (byte_at prog (S pc)).
  Proof.
    intros pc t H. unfold switch_target in H.
    set (n := N.to_nat (byte_at prog (S pc))) in *.
    destruct (Nat.ltb len (S (S pc) + 2 * n)); [discriminate|].
    rewrite N.ltb_irrefl in H. unfold target_in in H.
    destruct (Z.of_nat (S (S pc) + 2 * n) + 0 <? 0)%Z; [discriminate|].
    destruct (Z.of_nat len <? Z.of_nat (S (S pc) + 2 * n) + 0)%Z; [discriminate|].
    inversion H. lia.
  Qed.

  (* one step of a conforming op at an aligned pc lands on an aligned pc and keeps the
     callstack's return addresses aligned *)
  Lemma ctl_step_aligned : forall starts pc calls nextpc calls',
      In pc starts -> good starts pc ->
      kinds_ok (spec_at pc) = true ->
      Forall (aligned starts) calls ->
      ctl_allowed lsv max_bytes v (spec_at pc) prog pc calls nextpc calls' = true ->
      aligned starts (if Nat.eqb nextpc 0 then pc + N.to_nat (os_size (spec_at pc)) else nextpc) /\
      Forall (aligned starts) calls'.
  Proof.
    intros starts pc calls nextpc calls' Hpc (next & ts & (Hop & Hmode & nx & thr & Hrc & Hnext & Hadv) & Hnal & Hts)
           Hk Hcalls Hctl.
    unfold kinds_ok in Hk. unfold ctl_allowed in Hctl. unfold run_check in Hrc. unfold next_of in Hnext.
    set (sp := spec_at pc) in *.
    destruct (os_ok sp) eqn:Eok; destruct (os_ck sp) eqn:Eck; try discriminate.
    - (* plain *)
      apply andb_true_iff in Hctl. destruct Hctl as [Hn Hc]. apply calls_eqb_eq in Hc. subst calls'.
      rewrite Hn. inversion Hrc; subst nx ts thr. simpl in Hnext. subst next. split; assumption.
    - (* bnz2b *)
      apply N.eqb_eq in Hk. inversion Hrc; subst nx ts thr. simpl in Hnext. rewrite Hk in *.
      apply andb_true_iff in Hctl. destruct Hctl as [Hn Hc]. apply calls_eqb_eq in Hc. subst calls'.
      split; [|assumption].
      apply orb_true_iff in Hn. destruct Hn as [Hn|Hn].
      + apply Nat.eqb_eq in Hn. subst nextpc. replace (Nat.eqb (pc + 3) 0) with false by (symmetry; apply Nat.eqb_neq; lia).
        now subst next.
      + destruct (branch_target_2b v prog pc) as [t|] eqn:Et; [|discriminate].
        apply Nat.eqb_eq in Hn. subst nextpc.
        destruct (Nat.eqb t 0) eqn:E0; [now subst next|].
        inversion Hts as [|o l Ho _]; subst. destruct Ho as (t' & Ht' & Hal). now inversion Ht'; subst.
    - (* bz2b *)
      apply N.eqb_eq in Hk. inversion Hrc; subst nx ts thr. simpl in Hnext. rewrite Hk in *.
      apply andb_true_iff in Hctl. destruct Hctl as [Hn Hc]. apply calls_eqb_eq in Hc. subst calls'.
      split; [|assumption].
      apply orb_true_iff in Hn. destruct Hn as [Hn|Hn].
      + apply Nat.eqb_eq in Hn. subst nextpc. replace (Nat.eqb (pc + 3) 0) with false by (symmetry; apply Nat.eqb_neq; lia).
        now subst next.
      + destruct (branch_target_2b v prog pc) as [t|] eqn:Et; [|discriminate].
        apply Nat.eqb_eq in Hn. subst nextpc.
        destruct (Nat.eqb t 0) eqn:E0; [now subst next|].
        inversion Hts as [|o l Ho _]; subst. destruct Ho as (t' & Ht' & Hal). now inversion Ht'; subst.
    - (* b2b *)
      apply N.eqb_eq in Hk. inversion Hrc; subst nx ts thr. simpl in Hnext. rewrite Hk in *.
      apply andb_true_iff in Hctl. destruct Hctl as [Hn Hc]. apply calls_eqb_eq in Hc. subst calls'.
      split; [|assumption].
      destruct (branch_target_2b v prog pc) as [t|] eqn:Et; [|discriminate].
      apply Nat.eqb_eq in Hn. subst nextpc.
      destruct (Nat.eqb t 0) eqn:E0; [now subst next|].
      inversion Hts as [|o l Ho _]; subst. destruct Ho as (t' & Ht' & Hal). now inversion Ht'; subst.
    - (* callsub2b *)
      apply N.eqb_eq in Hk. inversion Hrc; subst nx ts thr. simpl in Hnext. rewrite Hk in *.
      apply andb_true_iff in Hctl. destruct Hctl as [Hn Hc]. apply calls_eqb_eq in Hc. subst calls'.
      split.
      + destruct (branch_target_2b v prog pc) as [t|] eqn:Et; [|discriminate].
        apply Nat.eqb_eq in Hn. subst nextpc.
        destruct (Nat.eqb t 0) eqn:E0; [now subst next|].
        inversion Hts as [|o l Ho _]; subst. destruct Ho as (t' & Ht' & Hal). now inversion Ht'; subst.
      + constructor; [now subst next | assumption].
    - (* bnzV *)
      apply N.eqb_eq in Hk. rewrite Hk in *. simpl.
      destruct (branch_target_varint prog pc) as [[ot isz]|] eqn:Et; [|discriminate].
      inversion Hrc; subst nx ts thr. destruct ot as [t|]; [|discriminate].
      apply andb_true_iff in Hctl. destruct Hctl as [Hn Hc]. apply calls_eqb_eq in Hc. subst calls'.
      split; [|assumption].
      inversion Hts as [|o l Ho _]; subst. destruct Ho as (t' & Ht' & Hal). inversion Ht'; subst t'.
      apply orb_true_iff in Hn. destruct Hn as [Hn|Hn]; apply Nat.eqb_eq in Hn; subst nextpc.
      + destruct (Nat.eqb t 0) eqn:E0; [rewrite Nat.add_0_r; now left | exact Hal].
      + destruct (Nat.eqb (pc + isz) 0) eqn:E0; [rewrite Nat.add_0_r; now left | exact Hnal].
    - (* bzV *)
      apply N.eqb_eq in Hk. rewrite Hk in *. simpl.
      destruct (branch_target_varint prog pc) as [[ot isz]|] eqn:Et; [|discriminate].
      inversion Hrc; subst nx ts thr. destruct ot as [t|]; [|discriminate].
      apply andb_true_iff in Hctl. destruct Hctl as [Hn Hc]. apply calls_eqb_eq in Hc. subst calls'.
      split; [|assumption].
      inversion Hts as [|o l Ho _]; subst. destruct Ho as (t' & Ht' & Hal). inversion Ht'; subst t'.
      apply orb_true_iff in Hn. destruct Hn as [Hn|Hn]; apply Nat.eqb_eq in Hn; subst nextpc.
      + destruct (Nat.eqb t 0) eqn:E0; [rewrite Nat.add_0_r; now left | exact Hal].
      + destruct (Nat.eqb (pc + isz) 0) eqn:E0; [rewrite Nat.add_0_r; now left | exact Hnal].
    - (* bV *)
      apply N.eqb_eq in Hk. rewrite Hk in *. simpl.
      destruct (branch_target_varint prog pc) as [[ot isz]|] eqn:Et; [|discriminate].
      inversion Hrc; subst nx ts thr. destruct ot as [t|]; [|discriminate].
      apply andb_true_iff in Hctl. destruct Hctl as [Hn Hc]. apply calls_eqb_eq in Hc. subst calls'.
      split; [|assumption].
      inversion Hts as [|o l Ho _]; subst. destruct Ho as (t' & Ht' & Hal). inversion Ht'; subst t'.
      apply Nat.eqb_eq in Hn; subst nextpc.
      destruct (Nat.eqb t 0) eqn:E0; [rewrite Nat.add_0_r; now left | exact Hal].
    - (* callsubV *)
      apply N.eqb_eq in Hk. rewrite Hk in *. simpl.
      destruct (branch_target_varint prog pc) as [[ot isz]|] eqn:Et; [|discriminate].
      inversion Hrc; subst nx ts thr. destruct ot as [t|]; [|discriminate].
      apply andb_true_iff in Hctl. destruct Hctl as [Hn Hc]. apply calls_eqb_eq in Hc. subst calls'.
      inversion Hts as [|o l Ho _]; subst. destruct Ho as (t' & Ht' & Hal). inversion Ht'; subst t'.
      apply Nat.eqb_eq in Hn; subst nextpc.
      split.
      + destruct (Nat.eqb t 0) eqn:E0; [rewrite Nat.add_0_r; now left | exact Hal].
      + constructor; [|assumption].
        assert (Nat.eqb (pc + isz) 0 = false) as E1 by (apply Nat.eqb_neq; unfold branch_target_varint in Et;
          destruct (varint (skipn (S pc) prog)) as [off n]; destruct (n <=? 0)%Z; [discriminate|]; inversion Et; lia).
        rewrite E1 in Hnal. exact Hnal.
    - (* switch *)
      apply N.eqb_eq in Hk. rewrite Hk in *. simpl.
      destruct (Nat.leb len (S pc)) eqn:El; [discriminate|].
      inversion Hrc; subst nx ts thr. clear Hrc.
      set (n := N.to_nat (byte_at prog (S pc))) in *.
      apply andb_true_iff in Hctl. destruct Hctl as [Hn Hc]. apply calls_eqb_eq in Hc. subst calls'.
      split; [|assumption].
      apply existsb_exists in Hn. destruct Hn as (i & Hi & Hm).
      destruct (switch_target prog pc (N.of_nat i)) as [t|] eqn:Et; [|discriminate].
      apply Nat.eqb_eq in Hm. subst nextpc.
      destruct (Nat.eqb t 0) eqn:E0; [rewrite Nat.add_0_r; now left|].
      apply in_seq in Hi.
      destruct (Nat.eq_dec i n) as [->|Hne].
      + apply switch_target_last in Et. subst t.
        replace (Nat.eqb (S (S pc) + 2 * n) 0) with false in Hnext by (symmetry; apply Nat.eqb_neq; lia).
        now subst next.
      + rewrite Forall_forall in Hts.
        destruct (Hts (Some t)) as (t' & Ht' & Hal).
        { rewrite <- Et. apply in_map_iff. exists i. split; [reflexivity|]. apply in_seq. lia. }
        now inversion Ht'; subst.
    - (* match *)
      apply N.eqb_eq in Hk. rewrite Hk in *. simpl.
      destruct (Nat.leb len (S pc)) eqn:El; [discriminate|].
      inversion Hrc; subst nx ts thr. clear Hrc.
      set (n := N.to_nat (byte_at prog (S pc))) in *.
      apply andb_true_iff in Hctl. destruct Hctl as [Hn Hc]. apply calls_eqb_eq in Hc. subst calls'.
      split; [|assumption].
      apply existsb_exists in Hn. destruct Hn as (i & Hi & Hm).
      destruct (switch_target prog pc (N.of_nat i)) as [t|] eqn:Et; [|discriminate].
      apply Nat.eqb_eq in Hm. subst nextpc.
      destruct (Nat.eqb t 0) eqn:E0; [rewrite Nat.add_0_r; now left|].
      apply in_seq in Hi.
      destruct (Nat.eq_dec i n) as [->|Hne].
      + apply switch_target_last in Et. subst t.
        replace (Nat.eqb (S (S pc) + 2 * n) 0) with false in Hnext by (symmetry; apply Nat.eqb_neq; lia).
        now subst next.
      + rewrite Forall_forall in Hts.
        destruct (Hts (Some t)) as (t' & Ht' & Hal).
        { rewrite <- Et. apply in_map_iff. exists i. split; [reflexivity|]. apply in_seq. lia. }
        now inversion Ht'; subst.
    - (* retsub *)
      inversion Hrc; subst nx ts thr. simpl in Hnext.
      destruct calls as [|r rest]; [discriminate|].
      apply andb_true_iff in Hctl. destruct Hctl as [Hn Hc]. apply calls_eqb_eq in Hc. subst calls'.
      apply Nat.eqb_eq in Hn. subst nextpc.
      apply Forall_cons_iff in Hcalls. destruct Hcalls as [Hr Hrest]. split; [|assumption].
      destruct (Nat.eqb r 0); [now subst next | assumption].
    - (* return *)
      inversion Hrc; subst nx ts thr. simpl in Hnext.
      apply andb_true_iff in Hctl. destruct Hctl as [Hn Hc]. apply calls_eqb_eq in Hc. subst calls'.
      apply Nat.eqb_eq in Hn. subst nextpc. split; [|assumption].
      destruct (Nat.eqb (length prog) 0); [now subst next | right; lia].
    - (* intcblock *)
      destruct (parse_int_imm prog (S pc)) as [nx0|]; [|discriminate].
      inversion Hrc; subst nx ts thr.
      apply andb_true_iff in Hctl. destruct Hctl as [Hn Hc]. apply calls_eqb_eq in Hc. subst calls'.
      apply Nat.eqb_eq in Hn. subst nextpc. subst next. split; assumption.
    - (* bytecblock *)
      destruct (byte_imm_args lsv max_bytes prog pc) as [nx0|]; [|discriminate].
      inversion Hrc; subst nx ts thr.
      apply andb_true_iff in Hctl. destruct Hctl as [Hn Hc]. apply calls_eqb_eq in Hc. subst calls'.
      apply Nat.eqb_eq in Hn. subst nextpc. subst next. split; assumption.
    - (* pushints *)
      destruct (parse_int_imm prog (S pc)) as [nx0|]; [|discriminate].
      inversion Hrc; subst nx ts thr.
      apply andb_true_iff in Hctl. destruct Hctl as [Hn Hc]. apply calls_eqb_eq in Hc. subst calls'.
      apply Nat.eqb_eq in Hn. subst nextpc. subst next. split; assumption.
    - (* pushbytess *)
      destruct (byte_imm_args lsv max_bytes prog pc) as [nx0|]; [|discriminate].
      inversion Hrc; subst nx ts thr.
      apply andb_true_iff in Hctl. destruct Hctl as [Hn Hc]. apply calls_eqb_eq in Hc. subst calls'.
      apply Nat.eqb_eq in Hn. subst nextpc. subst next. split; assumption.
    - (* pushint *)
      destruct (push_int_next prog pc) as [nx0|]; [|discriminate].
      inversion Hrc; subst nx ts thr.
      apply andb_true_iff in Hctl. destruct Hctl as [Hn Hc]. apply calls_eqb_eq in Hc. subst calls'.
      apply Nat.eqb_eq in Hn. subst nextpc. subst next. split; assumption.
    - (* pushbytes *)
      destruct (push_bytes_next prog pc) as [nx0|]; [|discriminate].
      inversion Hrc; subst nx ts thr.
      apply andb_true_iff in Hctl. destruct Hctl as [Hn Hc]. apply calls_eqb_eq in Hc. subst calls'.
      apply Nat.eqb_eq in Hn. subst nextpc. subst next. split; assumption.
  Qed.

End Agree.

From Verif.proofs Require Import AvmFrameProofs.

(* ---- every pc the evaluation loop ever reaches was recognised by the static check *)
Section AgreeEval.
  Variable tbl : N -> N -> opspec * list opspec.
  Variable lsv : N.
  Variable max_depth : nat.
  Variable max_bytes : N.
  Variable W : Type.
  Variable bmax : Z.
  Variable isolate : bool.
  Variable opf : opspec -> list N -> state W -> outcome W.
  Variable v mode : N.
  Variable prog : list N.

  (* the table pairs every op function with its own check function (finite obligation,
     discharged for the regenerated table by vm_compute) *)
  Hypothesis Hkinds : forall pc, os_hasop (get_op_spec tbl v prog pc) = true ->
                                 kinds_ok (get_op_spec tbl v prog pc) = true.
  (* the control-flow ops compute nextpc / callstack with the decoders of the static check *)
  Hypothesis Hopf : forall s st stack' n calls' pool' w',
      opf s prog st = OOk W stack' n calls' pool' w' ->
      ctl_allowed lsv max_bytes v s prog (st_pc W st) (st_calls W st) n calls' = true.

  Definition pinv (starts : list nat) (st : state W) : Prop :=
    aligned prog starts (st_pc W st) /\ Forall (aligned prog starts) (st_calls W st).

  Lemma step_pinv : forall starts st st',
      (forall s, In s starts -> good tbl lsv max_bytes v mode prog starts s) ->
      pinv starts st -> st_pc W st < length prog ->
      step tbl max_depth max_bytes W bmax isolate opf v mode prog st = Ok st' ->
      pinv starts st'.
  Proof.
    intros starts st st' Hgood [Hpc Hcalls] Hlt Hs.
    destruct (step_ok_inv tbl max_depth max_bytes W bmax isolate opf v mode prog st st' Hs) as (Hop & _ & _ & c & stack' & n & calls' & pool' & w' & _ & _ & _ & Hopf' & _ & Hst & _).
    destruct Hpc as [Hin|Hge]; [|lia].
    pose proof (Hopf _ _ _ _ _ _ _ Hopf') as Hctl. simpl in Hctl.
    destruct (ctl_step_aligned tbl lsv max_bytes v mode prog starts (st_pc W st) (st_calls W st) n calls'
                               Hin (Hgood _ Hin) (Hkinds _ Hop) Hcalls Hctl) as [H1 H2].
    subst st'. split; simpl; assumption.
  Qed.

  Theorem check_eval_agree : forall fuel maxcost vlen starts st0 st,
      check_loop tbl lsv max_bytes fuel v mode maxcost prog vlen [] [] 0%Z = Some (Ok starts) ->
      st_pc W st0 = vlen -> st_calls W st0 = [] ->
      reach tbl max_depth max_bytes W bmax isolate opf v mode prog st0 st ->
      (st_pc W st < length prog -> In (st_pc W st) starts) /\
      Forall (fun r => r < length prog -> In r starts) (st_calls W st).
  Proof.
    intros fuel maxcost vlen starts st0 st Hck Hpc0 Hc0 Hr.
    pose proof (check_ok_all_good _ _ _ _ _ _ _ _ _ _ Hck) as Hgood.
    pose proof (check_loop_first _ _ _ _ _ _ _ _ _ _ Hck) as Hfirst.
    assert (pinv starts st0) as H0 by (split; [rewrite Hpc0; exact Hfirst | rewrite Hc0; constructor]).
    assert (pinv starts st) as [H1 H2].
    { clear Hpc0 Hc0. induction Hr as [st|st st1 st2 Hlt Hs Hr IH]; [exact H0|].
      apply IH. eapply step_pinv; eauto. }
    split.
    - intro Hlt. destruct H1 as [H1|H1]; [exact H1 | lia].
    - eapply Forall_impl; [|exact H2]. intros r [Hr'|Hr'] Hlt; [exact Hr' | lia].
  Qed.

End AgreeEval.

(* the reference op family conforms: the hypothesis [Hopf] of check_eval_agree is satisfiable *)
Lemma calls_eqb_refl : forall a, calls_eqb a a = true.
Proof. induction a as [|x a IH]; simpl; [reflexivity | now rewrite Nat.eqb_refl, IH]. Qed.

Lemma ref_opf_conforms : forall lsv max_bytes v s prog st stack' n calls' pool' w',
    ref_opf lsv max_bytes v s prog st = OOk unit stack' n calls' pool' w' ->
    ctl_allowed lsv max_bytes v s prog (st_pc unit st) (st_calls unit st) n calls' = true.
Proof.
  intros lsv max_bytes v s prog st stack' n calls' pool' w' H.
  unfold ref_opf in H. unfold ctl_allowed.
  destruct (os_ok s).
  - inversion H; subst. now rewrite Nat.eqb_refl, calls_eqb_refl.
  - inversion H; subst. now rewrite Nat.eqb_refl, calls_eqb_refl.
  - inversion H; subst. now rewrite Nat.eqb_refl, calls_eqb_refl.
  - destruct (branch_target_2b v prog (st_pc unit st)); [|discriminate]. inversion H; subst.
    now rewrite Nat.eqb_refl, calls_eqb_refl.
  - destruct (branch_target_2b v prog (st_pc unit st)); [|discriminate]. inversion H; subst.
    now rewrite Nat.eqb_refl, calls_eqb_refl.
  - destruct (branch_target_varint prog (st_pc unit st)) as [[[t|] isz]|]; try discriminate. inversion H; subst.
    now rewrite Nat.eqb_refl, calls_eqb_refl, orb_true_r.
  - destruct (branch_target_varint prog (st_pc unit st)) as [[[t|] isz]|]; try discriminate. inversion H; subst.
    now rewrite Nat.eqb_refl, calls_eqb_refl, orb_true_r.
  - destruct (branch_target_varint prog (st_pc unit st)) as [[[t|] isz]|]; try discriminate. inversion H; subst.
    now rewrite Nat.eqb_refl, calls_eqb_refl.
  - destruct (branch_target_varint prog (st_pc unit st)) as [[[t|] isz]|]; try discriminate. inversion H; subst.
    now rewrite Nat.eqb_refl, calls_eqb_refl.
  - destruct (Nat.leb (length prog) (S (st_pc unit st))); [discriminate|].
    destruct (switch_target prog (st_pc unit st) _) as [t|] eqn:Et; [|discriminate]. inversion H; subst.
    rewrite calls_eqb_refl, andb_true_r. apply existsb_exists.
    exists (N.to_nat (byte_at prog (S (st_pc unit st)))). split; [apply in_seq; lia|].
    rewrite Et. apply Nat.eqb_refl.
  - destruct (Nat.leb (length prog) (S (st_pc unit st))); [discriminate|].
    destruct (switch_target prog (st_pc unit st) _) as [t|] eqn:Et; [|discriminate]. inversion H; subst.
    rewrite calls_eqb_refl, andb_true_r. apply existsb_exists.
    exists (N.to_nat (byte_at prog (S (st_pc unit st)))). split; [apply in_seq; lia|].
    rewrite Et. apply Nat.eqb_refl.
  - destruct (st_calls unit st) as [|r rest]; [discriminate|]. inversion H; subst.
    now rewrite Nat.eqb_refl, calls_eqb_refl.
  - inversion H; subst. now rewrite Nat.eqb_refl, calls_eqb_refl.
  - destruct (parse_int_imm prog (S (st_pc unit st))); [|discriminate]. inversion H; subst.
    now rewrite Nat.eqb_refl, calls_eqb_refl.
  - destruct (byte_imm_args lsv max_bytes prog (st_pc unit st)); [|discriminate]. inversion H; subst.
    now rewrite Nat.eqb_refl, calls_eqb_refl.
  - destruct (parse_int_imm prog (S (st_pc unit st))); [|discriminate]. inversion H; subst.
    now rewrite Nat.eqb_refl, calls_eqb_refl.
  - destruct (byte_imm_args lsv max_bytes prog (st_pc unit st)); [|discriminate]. inversion H; subst.
    now rewrite Nat.eqb_refl, calls_eqb_refl.
  - destruct (push_int_next prog (st_pc unit st)); [|discriminate]. inversion H; subst.
    now rewrite Nat.eqb_refl, calls_eqb_refl.
  - destruct (push_bytes_next prog (st_pc unit st)); [|discriminate]. inversion H; subst.
    now rewrite Nat.eqb_refl, calls_eqb_refl.
Qed.

(* ---- every branch target the model accepts lies inside the program (0 <= t <= len), also for
   offsets whose int addition wraps *)
Lemma target_in_le : forall strict len t n, target_in strict len t = Some n -> n <= len.
Proof.
  intros strict len t n H. unfold target_in in H.
  destruct (t <? 0)%Z eqn:E0; [discriminate|].
  destruct strict.
  - destruct (Z.of_nat len <=? t)%Z eqn:E1; [discriminate|]. inversion H. lia.
  - destruct (Z.of_nat len <? t)%Z eqn:E1; [discriminate|]. inversion H. lia.
Qed.

Lemma branch_target_2b_le : forall v prog pc t, branch_target_2b v prog pc = Some t -> t <= length prog.
Proof.
  intros v prog pc t H. unfold branch_target_2b in H.
  destruct ((branch_offset prog (S pc) <? 0)%Z && N.ltb v 4); [discriminate|].
  eapply target_in_le; eauto.
Qed.

Lemma branch_target_varint_le : forall prog pc t isz,
    branch_target_varint prog pc = Some (Some t, isz) -> t <= length prog.
Proof.
  intros prog pc t isz H. unfold branch_target_varint in H.
  destruct (varint (skipn (S pc) prog)) as [off n]. destruct (n <=? 0)%Z; [discriminate|].
  inversion H as [[H1 H2]]. eapply target_in_le; eauto.
Qed.

Lemma switch_target_le : forall prog pc idx t, switch_target prog pc idx = Some t -> t <= length prog.
Proof.
  intros prog pc idx t H. unfold switch_target in H.
  destruct (Nat.ltb (length prog) (S (S pc) + 2 * N.to_nat (byte_at prog (S pc)))); [discriminate|].
  eapply target_in_le; eauto.
Qed.

Theorem accepted_targets_in_program : forall lsv max_bytes v s prog pc nx ts thr,
    run_check lsv max_bytes v s prog pc = Ok (nx, ts, thr) ->
    Forall (fun o => forall t, o = Some t -> t <= length prog) ts.
Proof.
  intros lsv max_bytes v s prog pc nx ts thr H. unfold run_check in H.
  destruct (os_ck s).
  - inversion H; constructor.
  - inversion H; subst. constructor; [|constructor]. intros t Ht. eapply branch_target_2b_le; eauto.
  - destruct (branch_target_varint prog pc) as [[ot isz]|] eqn:E; [|discriminate].
    inversion H; subst. constructor; [|constructor]. intros t Ht. subst ot. eapply branch_target_varint_le; eauto.
  - destruct (Nat.leb (length prog) (S pc)); [discriminate|]. inversion H; subst.
    apply Forall_forall. intros o Ho t Ht. subst o. apply in_map_iff in Ho. destruct Ho as (i & Hi & _).
    eapply switch_target_le; eauto.
  - destruct (parse_int_imm prog (S pc)); [|discriminate]. inversion H; constructor.
  - destruct (byte_imm_args lsv max_bytes prog pc); [|discriminate]. inversion H; constructor.
  - destruct (push_bytes_next prog pc); [|discriminate]. inversion H; constructor.
  - destruct (push_int_next prog pc); [|discriminate]. inversion H; constructor.
  - discriminate.
Qed.
