(* C23 proofs, part 2: the invariant of the application's storage and its preservation by every
   committed program, transaction and block boundary. *)
From Coq Require Import NArith PeanoNat List Bool Lia ZifyN ZifyNat ZifyBool.
From Verif.lib Require Import Term.
From Verif.model Require Import Overflow AssocList AppStorage.
From Verif.proofs Require Import OverflowProofs AssocListProofs AppStorageProofs.
Import ListNotations.
Open Scope N_scope.

Notation lget := (aget (V:=storage * (N * N)) N.eqb).
Notation lset := (aset (V:=storage * (N * N)) N.eqb).
Notation ldel := (adel (V:=storage * (N * N)) N.eqb).

Definition lget_lset := aget_aset (V:=storage * (N * N)) N.eqb Neqb_eq.
Definition lget_ldel := aget_adel (V:=storage * (N * N)) N.eqb Neqb_eq.

Definition app_exists (w : world) : Prop := w_global w <> None.

Record Inv (w : world) (V : N) : Prop := {
  i_box : BInv w V;
  i_glob : forall s, w_global w = Some s -> KInv s (w_gschema w) /\ st_max s = w_gschema w;
  i_lnd : NoDup (map fst (w_local w));
  i_loc : forall a s sch, lget a (w_local w) = Some (s, sch) ->
            KInv s sch /\ sch = w_lschema w /\ (app_exists w -> st_max s = sch);
  i_lwf : schema_wf (w_lschema w)
}.

Lemma KInv_empty sch : schema_wf sch -> KInv (mkSt [] (0, 0) sch) sch.
Proof. intros H. split; cbn; auto; try lia. constructor. Qed.

Lemma Inv_winit c gs ls : schema_wf gs -> schema_wf ls -> Inv (winit c gs ls) 0.
Proof.
  intros Hg Hl. split; cbn; auto.
  - split; cbn; try reflexivity; try lia. constructor.
  - intros s [= <-]. split; [apply KInv_empty; exact Hg|reflexivity].
  - constructor.
  - discriminate.
Qed.

Lemma Inv_mono w V V' : Inv w V -> V <= V' -> Inv w V'.
Proof. intros [A B C D E] H. split; auto. eapply BInv_mono; eauto. Qed.

Lemma Inv_set_cow w V c : Inv w V -> Inv (set_cow w c) V.
Proof.
  intros [A B C D E]. split; cbn [set_cow w_global w_gschema w_lschema w_local]; auto.
  eapply BInv_same_boxes; eauto.
Qed.

(* a step that only touches boxes *)
Lemma Inv_boxes w w' V V' : Inv w V -> BInv w' V' -> same_kv w w' -> Inv w' V'.
Proof.
  intros [A B C D E] I (K1 & K2 & K3 & K4). split.
  - exact I.
  - rewrite K1, K2. exact B.
  - rewrite K4. exact C.
  - rewrite K4, K3. intros a s sch H. destruct (D a s sch H) as (X & Y & Z).
    split; [exact X|split; [exact Y|]]. intros Ex. apply Z. unfold app_exists in *. rewrite <- K1. exact Ex.
  - rewrite K3. exact E.
Qed.

(* ------------------------------------------------------------------ key/value opcodes *)
Lemma globalPut_ok P k v w w' u V :
  Inv w V -> globalPut P k v w = (w', Ok u) -> Inv w' V /\ app_exists w' /\
  w_gschema w' = w_gschema w /\ w_lschema w' = w_lschema w.
Proof.
  intros I H. unfold globalPut in H. destruct (negb (put_lengths_ok P k v)); [discriminate|].
  destruct (w_global w) as [s|] eqn:Eg; [|discriminate].
  destruct (st_set s k v) as [s' ok] eqn:Es. destruct ok; [|discriminate]. inversion H; subst; clear H.
  destruct (i_glob w V I s Eg) as [Ks Km].
  destruct (st_set_ok s (w_gschema w) k v s' Ks Km Es) as [Ks' Km'].
  split; [|split; [unfold app_exists; cbn; discriminate|split; reflexivity]].
  destruct I as [A B C D E]. split; cbn [set_global w_global w_gschema w_lschema w_local]; auto.
  - eapply BInv_same_boxes; eauto.
  - intros s0 [= <-]. auto.
  - intros a s0 sch H. destruct (D a s0 sch H) as (X & Y & Z).
    split; [exact X|split; [exact Y|]]. intros _. apply Z. unfold app_exists. rewrite Eg. discriminate.
Qed.

Lemma globalDel_ok k w w' u V :
  Inv w V -> globalDel k w = (w', Ok u) -> Inv w' V /\ app_exists w' /\
  w_gschema w' = w_gschema w /\ w_lschema w' = w_lschema w.
Proof.
  intros I H. unfold globalDel in H.
  destruct (w_global w) as [s|] eqn:Eg; [|discriminate]. inversion H; subst; clear H.
  destruct (i_glob w V I s Eg) as [Ks Km].
  destruct (st_del_ok s (w_gschema w) k Ks) as [Ks' Km'].
  split; [|split; [unfold app_exists; cbn; discriminate|split; reflexivity]].
  destruct I as [A B C D E]. split; cbn [set_global w_global w_gschema w_lschema w_local]; auto.
  - eapply BInv_same_boxes; eauto.
  - intros s0 [= <-]. split; [exact Ks'|congruence].
  - intros a s0 sch H. destruct (D a s0 sch H) as (X & Y & Z).
    split; [exact X|split; [exact Y|]]. intros _. apply Z. unfold app_exists. rewrite Eg. discriminate.
Qed.

Lemma Inv_set_local w V a s' sch :
  Inv w V -> KInv s' sch -> sch = w_lschema w -> (app_exists w -> st_max s' = sch) ->
  Inv (set_local w (lset a (s', sch) (w_local w))) V.
Proof.
  intros [A B C D E] Ks Hs Hm. split; cbn [set_local w_global w_gschema w_lschema w_local]; auto.
  - eapply BInv_same_boxes; eauto.
  - apply NoDup_aset; [exact Neqb_eq|exact C].
  - intros a0 s0 sch0. rewrite lget_lset. destruct (a0 =? a).
    + intros [= <- <-]. auto.
    + apply D.
Qed.

Lemma localPut_ok P sender accts i k v w w' u V :
  Inv w V -> app_exists w -> localPut P sender accts i k v w = (w', Ok u) -> Inv w' V /\ app_exists w' /\
  w_gschema w' = w_gschema w /\ w_lschema w' = w_lschema w.
Proof.
  intros I Ex H. unfold localPut in H. destruct (maxkey P <? blen k); [discriminate|].
  destruct (resolve_acct sender accts i) as [addr|]; [|discriminate].
  destruct (lget addr (w_local w)) as [[s sch]|] eqn:El; [|discriminate].
  destruct (negb (put_lengths_ok P k v)); [discriminate|].
  destruct (st_set s k v) as [s' ok] eqn:Es. destruct ok; [|discriminate]. inversion H; subst; clear H.
  destruct (i_loc w V I addr s sch El) as (Ks & Hs & Hm).
  destruct (st_set_ok s sch k v s' Ks (Hm Ex) Es) as [Ks' Km'].
  split; [apply Inv_set_local; auto|]. split; [exact Ex|split; reflexivity].
Qed.

Lemma localDel_ok sender accts i k w w' u V :
  Inv w V -> app_exists w -> localDel sender accts i k w = (w', Ok u) -> Inv w' V /\ app_exists w' /\
  w_gschema w' = w_gschema w /\ w_lschema w' = w_lschema w.
Proof.
  intros I Ex H. unfold localDel in H.
  destruct (resolve_acct sender accts i) as [addr|]; [|discriminate].
  destruct (lget addr (w_local w)) as [[s sch]|] eqn:El; [|discriminate]. inversion H; subst; clear H.
  destruct (i_loc w V I addr s sch El) as (Ks & Hs & Hm).
  destruct (st_del_ok s sch k Ks) as [Ks' Km'].
  split; [apply Inv_set_local; auto; intros X; rewrite Km'; auto|]. split; [exact Ex|split; reflexivity].
Qed.

(* ------------------------------------------------------------------ programs *)
Record keeps (w w' : world) : Prop := {
  kp_ex : app_exists w -> app_exists w';
  kp_gs : w_gschema w' = w_gschema w;
  kp_ls : w_lschema w' = w_lschema w
}.

Lemma keeps_refl w : keeps w w.
Proof. split; auto. Qed.
Lemma keeps_trans a b c : keeps a b -> keeps b c -> keeps a c.
Proof. intros [A B C] [D E F]. split; auto; congruence. Qed.
Lemma same_kv_keeps w w' : same_kv w w' -> keeps w w'.
Proof. intros (A & B & C & D). split; auto. unfold app_exists. rewrite A. auto. Qed.

Lemma run_sop_ok P clear sender accts o w w' r V :
  Inv w V -> app_exists w -> V + sop_volume o < 2 ^ 64 ->
  run_sop P clear sender accts o w = (w', Ok r) ->
  Inv w' (V + sop_volume o) /\ keeps w w'.
Proof.
  intros I Ex HV H. unfold run_sop in H.
  destruct (clear && is_box_op o); [discriminate|].
  pose proof (i_box w V I) as Ib.
  destruct o; cbn [sop_volume] in *; unfold bind in H.
  - destruct (boxCreate P name size w) as [w1 [b|e]] eqn:E; [|discriminate]. inversion H; subst; clear H.
    destruct (boxCreate_ok _ _ _ _ _ _ _ Ib HV E) as [I1 K1].
    split; [eapply Inv_boxes; eauto|apply same_kv_keeps; exact K1].
  - destruct (boxResize P name size w) as [w1 [b|e]] eqn:E; [|discriminate]. inversion H; subst; clear H.
    destruct (boxResize_ok _ _ _ _ _ _ _ Ib HV E) as [I1 K1].
    split; [eapply Inv_boxes; eauto|apply same_kv_keeps; exact K1].
  - destruct (boxReplace P name start data w) as [w1 [b|e]] eqn:E; [|discriminate]. inversion H; subst; clear H.
    destruct (boxReplace_ok _ _ _ _ _ _ _ _ Ib E) as [I1 K1]. rewrite N.add_0_r.
    split; [eapply Inv_boxes; eauto|apply same_kv_keeps; exact K1].
  - destruct (boxPut P name data w) as [w1 [b|e]] eqn:E; [|discriminate]. inversion H; subst; clear H.
    destruct (boxPut_ok _ _ _ _ _ _ _ Ib HV E) as [I1 K1].
    split; [eapply Inv_boxes; eauto|apply same_kv_keeps; exact K1].
  - destruct (boxDel P name w) as [w1 [b|e]] eqn:E; [|discriminate]. inversion H; subst; clear H.
    assert (V < 2 ^ 64) as HV0 by lia.
    destruct (boxDel_ok _ _ _ _ _ _ Ib HV0 E) as [I1 K1]. rewrite N.add_0_r.
    split; [eapply Inv_boxes; eauto|apply same_kv_keeps; exact K1].
  - destruct (globalPut P key v w) as [w1 [b|e]] eqn:E; [|discriminate]. inversion H; subst; clear H.
    destruct (globalPut_ok _ _ _ _ _ _ _ I E) as (I1 & X & Y & Z). rewrite N.add_0_r. split; [exact I1|split; auto].
  - destruct (globalDel key w) as [w1 [b|e]] eqn:E; [|discriminate]. inversion H; subst; clear H.
    destruct (globalDel_ok _ _ _ _ _ I E) as (I1 & X & Y & Z). rewrite N.add_0_r. split; [exact I1|split; auto].
  - destruct (localPut P sender accts acct key v w) as [w1 [b|e]] eqn:E; [|discriminate]. inversion H; subst; clear H.
    destruct (localPut_ok _ _ _ _ _ _ _ _ _ _ I Ex E) as (I1 & X & Y & Z). rewrite N.add_0_r. split; [exact I1|split; auto].
  - destruct (localDel sender accts acct key w) as [w1 [b|e]] eqn:E; [|discriminate]. inversion H; subst; clear H.
    destruct (localDel_ok _ _ _ _ _ _ _ _ I Ex E) as (I1 & X & Y & Z). rewrite N.add_0_r. split; [exact I1|split; auto].
  - discriminate.
  - discriminate.
Qed.

Definition script_volume (sc : list sop) : N := fold_right (fun o acc => sop_volume o + acc) 0 sc.

Lemma run_script_ok P clear sender accts sc : forall w w' l V,
  Inv w V -> app_exists w -> V + script_volume sc < 2 ^ 64 ->
  run_script P clear sender accts sc w = (w', Ok l) ->
  Inv w' (V + script_volume sc) /\ keeps w w'.
Proof.
  induction sc as [|o sc IH]; intros w w' l V I Ex HV H; cbn [run_script script_volume fold_right] in *.
  - inversion H; subst. rewrite N.add_0_r. split; [exact I|apply keeps_refl].
  - fold (script_volume sc) in *. unfold bind at 1 in H.
    destruct (run_sop P clear sender accts o w) as [w1 [r|e]] eqn:E1; [|discriminate].
    assert (V + sop_volume o < 2 ^ 64) as HV1 by lia.
    destruct (run_sop_ok _ _ _ _ _ _ _ _ _ I Ex HV1 E1) as [I1 K1].
    unfold bind at 1 in H.
    destruct (run_script P clear sender accts sc w1) as [w2 [l2|e]] eqn:E2; [|discriminate].
    inversion H; subst; clear H.
    assert (V + sop_volume o + script_volume sc < 2 ^ 64) as HV2 by lia.
    destruct (IH _ _ _ _ I1 (kp_ex _ _ K1 Ex) HV2 E2) as [I2 K2].
    rewrite N.add_assoc. split; [exact I2|eapply keeps_trans; eauto].
Qed.

Lemma statefulEval_ok P clear sender accts sc w w' l V :
  Inv w V -> app_exists w -> V + script_volume sc < 2 ^ 64 ->
  statefulEval P clear sender accts sc w = (w', Ok l) ->
  Inv w' (V + script_volume sc) /\ keeps w w'.
Proof.
  intros I Ex HV H. unfold statefulEval in H.
  destruct (run_script P clear sender accts sc w) as [w1 [l1|e]] eqn:E; [|discriminate].
  inversion H; subst. eapply run_script_ok; eauto.
Qed.

Lemma statefulEval_err P clear sender accts sc w w' e :
  statefulEval P clear sender accts sc w = (w', Err e) -> w' = w.
Proof.
  unfold statefulEval. destruct (run_script P clear sender accts sc w) as [w1 [l1|e1]]; intros H; inversion H; auto.
Qed.

(* ------------------------------------------------------------------ opt-in, close-out, update, delete *)
Lemma optIn_ok sender w w' u V :
  Inv w V -> optIn sender w = (w', Ok u) -> Inv w' V /\ keeps w w'.
Proof.
  intros I H. unfold optIn in H. destruct (ahas N.eqb sender (w_local w)); [discriminate|].
  assert (Inv (set_local w (lset sender (mkSt [] (0, 0) (w_lschema w), w_lschema w) (w_local w))) V) as I1.
  { apply Inv_set_local; auto. apply KInv_empty. apply I. }
  inversion H; subst; clear H. destruct (sender =? ci_creator (w_cow w)).
  - split; [apply Inv_set_cow; exact I1|split; auto].
  - split; [exact I1|split; auto].
Qed.

Lemma closeOut_ok sender w w' u V :
  Inv w V -> closeOut sender w = (w', Ok u) -> Inv w' V /\ keeps w w'.
Proof.
  intros I H. unfold closeOut in H. destruct (negb (ahas N.eqb sender (w_local w))); [discriminate|].
  assert (Inv (set_local w (ldel sender (w_local w))) V) as I1.
  { destruct I as [A B C D E]. split; cbn [set_local w_global w_gschema w_lschema w_local]; auto.
    - eapply BInv_same_boxes; eauto.
    - apply NoDup_adel; try exact Neqb_eq; exact C.
    - intros a s sch. rewrite lget_ldel by exact C. destruct (a =? sender); [discriminate|apply D]. }
  inversion H; subst; clear H. destruct (sender =? ci_creator (w_cow w)).
  - split; [apply Inv_set_cow; exact I1|split; auto].
  - split; [exact I1|split; auto].
Qed.

Lemma deleteApp_ok w w' u V :
  Inv w V -> deleteApp w = (w', Ok u) -> Inv w' V /\ w_lschema w' = w_lschema w.
Proof.
  intros I H. inversion H; subst; clear H. split; [|reflexivity].
  destruct I as [A B C D E]. split; cbn [set_global w_global w_gschema w_lschema w_local]; auto.
  - eapply BInv_same_boxes; eauto.
  - discriminate.
  - intros a s sch H. destruct (D a s sch H) as (X & Y & Z).
    split; [exact X|split; [exact Y|]]. intros Ex. exfalso. apply Ex. reflexivity.
Qed.

Lemma updateApp_ok sender gs w w' u V :
  Inv w V -> schema_wf gs -> updateApp sender gs w = (w', Ok u) -> Inv w' V /\ (app_exists w -> app_exists w') /\
  w_lschema w' = w_lschema w.
Proof.
  intros I Hwf H. unfold updateApp in H. cbv zeta in H.
  destruct (negb (negb (schema_empty gs))).
  - destruct (ci_cclosed (w_cow w) && _); inversion H; subst. auto.
  - destruct (w_global w) as [s|] eqn:Eg; [|discriminate].
    destruct (negb (checkCounts _)) eqn:Ec; [discriminate|].
    destruct (ci_cclosed (w_cow w) && _); [discriminate|]. inversion H; subst; clear H.
    apply negb_false_iff in Ec. unfold checkCounts in Ec. cbn [st_counts st_max] in Ec.
    apply andb_true_iff in Ec. destruct Ec as [C1 C2]. apply negb_true_iff, N.ltb_ge in C1, C2.
    destruct (i_glob w V I s Eg) as [[Nd Hc Hu Hb W] Km]. rewrite Hc in C1, C2.
    split; [|split; [intros _; unfold app_exists; cbn; discriminate|reflexivity]].
    destruct I as [A B C D E]. split; cbn [w_global w_gschema w_lschema w_local w_box w_tb w_tbb]; auto.
    + eapply BInv_same_boxes; eauto.
    + intros s0 [= <-]. split; [split; cbn [st_kv st_counts]; auto|reflexivity].
    + intros a s0 sch H. destruct (D a s0 sch H) as (X & Y & Z).
      split; [exact X|split; [exact Y|]]. intros _. apply Z. unfold app_exists. rewrite Eg. discriminate.
Qed.

(* ------------------------------------------------------------------ ApplicationCall *)
Lemma applicationCall_ok P sender accts oc sc w w' l V :
  Inv w V -> op_wf (OCall sender accts oc sc) -> V + script_volume sc < 2 ^ 64 ->
  applicationCall P sender accts oc sc w = (w', Ok l) ->
  Inv w' (V + script_volume sc) /\ w_lschema w' = w_lschema w.
Proof.
  intros I Hwf HV H. unfold applicationCall in H.
  assert (V <= V + script_volume sc) as Hle by lia.
  destruct oc; cbn [op_wf] in Hwf.
  (* NoOp, OptIn, CloseOut, [ClearState], UpdateApp, DeleteApp *)
  all: try (destruct (w_global w) as [g|] eqn:Eg; cbn [negb] in H; [|discriminate];
            assert (app_exists w) as Ex by (unfold app_exists; rewrite Eg; discriminate)).
  - (* NoOp *)
    unfold bind in H. cbn [ret] in H.
    destruct (statefulEval P false sender accts sc w) as [w1 [l1|e]] eqn:E1; [|discriminate].
    inversion H; subst; clear H.
    destruct (statefulEval_ok _ _ _ _ _ _ _ _ _ I Ex HV E1) as [I1 K1]. split; [exact I1|apply K1].
  - (* OptIn *)
    unfold bind at 1 in H. destruct (optIn sender w) as [w0 [u0|e]] eqn:E0; [|discriminate].
    destruct (optIn_ok _ _ _ _ _ I E0) as [I0 K0].
    unfold bind in H. cbn [ret] in H.
    destruct (statefulEval P false sender accts sc w0) as [w1 [l1|e]] eqn:E1; [|discriminate].
    inversion H; subst; clear H.
    destruct (statefulEval_ok _ _ _ _ _ _ _ _ _ I0 (kp_ex _ _ K0 Ex) HV E1) as [I1 K1].
    split; [exact I1|]. rewrite (kp_ls _ _ K1). apply K0.
  - (* CloseOut *)
    unfold bind in H. cbn [ret] in H.
    destruct (statefulEval P false sender accts sc w) as [w1 [l1|e]] eqn:E1; [|discriminate].
    destruct (closeOut sender w1) as [w2 [u2|e]] eqn:E2; [|discriminate].
    inversion H; subst; clear H.
    destruct (statefulEval_ok _ _ _ _ _ _ _ _ _ I Ex HV E1) as [I1 K1].
    destruct (closeOut_ok _ _ _ _ _ I1 E2) as [I2 K2]. split; [exact I2|].
    rewrite (kp_ls _ _ K2). apply K1.
  - (* ClearState *)
    destruct (negb (ahas N.eqb sender (w_local w))); [discriminate|].
    destruct (w_global w) as [g|] eqn:Eg.
    + assert (app_exists w) as Ex by (unfold app_exists; rewrite Eg; discriminate).
      destruct (statefulEval P true sender accts sc w) as [w1 [l1|e]] eqn:E1.
      * destruct (statefulEval_ok _ _ _ _ _ _ _ _ _ I Ex HV E1) as [I1 K1].
        unfold bind in H. destruct (closeOut sender w1) as [w2 [u2|e]] eqn:E2; [|discriminate].
        inversion H; subst; clear H. destruct (closeOut_ok _ _ _ _ _ I1 E2) as [I2 K2].
        split; [exact I2|]. rewrite (kp_ls _ _ K2). apply K1.
      * apply statefulEval_err in E1. subst w1.
        unfold bind in H. destruct (closeOut sender w) as [w2 [u2|e']] eqn:E2; [|discriminate].
        inversion H; subst; clear H. destruct (closeOut_ok _ _ _ _ _ I E2) as [I2 K2].
        split; [eapply Inv_mono; eauto|apply K2].
    + unfold bind in H. destruct (closeOut sender w) as [w2 [u2|e']] eqn:E2; [|discriminate].
      inversion H; subst; clear H. destruct (closeOut_ok _ _ _ _ _ I E2) as [I2 K2].
      split; [eapply Inv_mono; eauto|apply K2].
  - (* UpdateApp *)
    unfold bind in H. cbn [ret] in H.
    destruct (statefulEval P false sender accts sc w) as [w1 [l1|e]] eqn:E1; [|discriminate].
    destruct (updateApp sender gs w1) as [w2 [u2|e]] eqn:E2; [|discriminate].
    inversion H; subst; clear H.
    destruct (statefulEval_ok _ _ _ _ _ _ _ _ _ I Ex HV E1) as [I1 K1].
    destruct (updateApp_ok _ _ _ _ _ _ I1 Hwf E2) as (I2 & _ & L2). split; [exact I2|].
    rewrite L2. apply K1.
  - (* DeleteApp *)
    unfold bind in H. cbn [ret] in H.
    destruct (statefulEval P false sender accts sc w) as [w1 [l1|e]] eqn:E1; [|discriminate].
    destruct (deleteApp w1) as [w2 [u2|e]] eqn:E2; [|discriminate].
    inversion H; subst; clear H.
    destruct (statefulEval_ok _ _ _ _ _ _ _ _ _ I Ex HV E1) as [I1 K1].
    destruct (deleteApp_ok _ _ _ _ I1 E2) as [I2 L2]. split; [exact I2|]. rewrite L2. apply K1.
Qed.

(* ------------------------------------------------------------------ block boundary *)
Lemma aget_map_val {A B} (f : A -> B) (l : list (N * A)) a :
  aget N.eqb a (map (fun e => (fst e, f (snd e))) l) = option_map f (aget N.eqb a l).
Proof.
  induction l as [|[k v] l IH]; cbn; [reflexivity|]. destruct (a =? k); [reflexivity|exact IH].
Qed.

Lemma end_block_ok w V : Inv w V -> Inv (end_block w) V /\ w_lschema (end_block w) = w_lschema w.
Proof.
  intros [A B C D E]. split; [|reflexivity]. unfold end_block.
  split; cbn [w_global w_gschema w_lschema w_local w_box w_tb w_tbb]; auto.
  - eapply BInv_same_boxes; eauto.
  - destruct (w_global w) as [s|] eqn:Eg; [|discriminate]. intros s0 [= <-].
    destruct (B s eq_refl) as [[Nd Hc Hu Hb W] Km]. split; [split; cbn [st_kv st_counts]; auto|reflexivity].
  - rewrite map_map. cbn [fst]. exact C.
  - intros a s sch.
    set (f := fun x : storage * (N * N) =>
                (mkSt (st_kv (fst x)) (count_kv (st_kv (fst x)))
                      (if match w_global w with Some _ => true | None => false end then w_lschema w else (0, 0)),
                 snd x)).
    change (map _ (w_local w)) with (map (fun e => (fst e, f (snd e))) (w_local w)).
    rewrite aget_map_val. destruct (lget a (w_local w)) as [[s0 sch0]|] eqn:El; cbn; [|discriminate].
    intros [= <- <-]. destruct (D a s0 sch0 El) as ([Nd Hc Hu Hb W] & Y & Z).
    split; [split; cbn [st_kv st_counts]; auto|]. split; [exact Y|].
    intros Ex. cbn [st_max]. unfold app_exists in Ex. cbn in Ex.
    destruct (w_global w); [congruence|contradiction].
Qed.

(* ------------------------------------------------------------------ histories *)
Lemma step_ok P w o V : Inv w V -> op_wf o -> V + op_volume o < 2 ^ 64 ->
  Inv (fst (step P w o)) (V + op_volume o) /\ w_lschema (fst (step P w o)) = w_lschema w.
Proof.
  intros I Hwf HV. destruct o as [s accts oc sc|]; cbn [step op_volume].
  - fold (script_volume sc) in *.
    destruct (applicationCall P s accts oc sc w) as [w' [l|e]] eqn:E; cbn [fst].
    + eapply applicationCall_ok; eauto.
    + split; [eapply Inv_mono; eauto; lia|reflexivity].
  - cbn [fst]. rewrite N.add_0_r. apply end_block_ok. exact I.
Qed.

Lemma run_ok P ops : forall w V, Inv w V -> Forall op_wf ops -> V + volume ops < 2 ^ 64 ->
  Inv (run P w ops) (V + volume ops).
Proof.
  induction ops as [|o ops IH]; intros w V I F HV; cbn [run volume fold_right] in *.
  - rewrite N.add_0_r. exact I.
  - fold (volume ops) in *. inversion F as [|o' ops' Fo Fops]; subst.
    assert (V + op_volume o < 2 ^ 64) as Hv1 by lia.
    destruct (step_ok P w o V I Fo Hv1) as [I1 _].
    rewrite N.add_assoc. apply IH; auto. lia.
Qed.

Lemma reach_inv P c gs ls ops :
  schema_wf gs -> schema_wf ls -> Forall op_wf ops -> volume ops < 2 ^ 64 ->
  Inv (run P (winit c gs ls) ops) (volume ops).
Proof.
  intros Hg Hl F HV. pose proof (run_ok P ops (winit c gs ls) 0 (Inv_winit c gs ls Hg Hl) F) as H.
  rewrite N.add_0_l in H. apply H. exact HV.
Qed.
