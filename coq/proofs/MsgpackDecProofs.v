(* C41: properties of EVERY successful run of the decoder model (model/Msgpack.v [dec]) on ARBITRARY
   bytes, for every schema environment: each collection of the decoded value is within its declared
   allocbound, and the nesting of called types is bounded by the AllowableDepth. *)
From Coq Require Import List NArith ZArith Bool Lia ZifyN ZifyNat ZifyBool.
From Verif.model Require Import Msgpack.
From Verif.proofs Require Import MsgpackPrim MsgpackProofs.
Import ListNotations.
Open Scope N_scope.

Section SchemaInd.
  Variable P : schema -> Prop.
  Hypothesis HU : forall mx, P (SUint mx).
  Hypothesis HI : forall bits, P (SInt bits).
  Hypothesis HB : P SBool.
  Hypothesis HY : forall bd, P (SBytes bd).
  Hypothesis HG : forall bd, P (SString bd).
  Hypothesis HF : forall n, P (SFixBytes n).
  Hypothesis HA : forall n e, P e -> P (SArray n e).
  Hypothesis HL : forall bd e, P e -> P (SSlice bd e).
  Hypothesis HM : forall bd k v, P k -> P v -> P (SMap bd k v).
  Hypothesis HS : forall fs, Forall (fun g : fhdr * schema => P (snd g)) fs -> P (SStruct fs).
  Hypothesis HP : forall e, P e -> P (SPtr e).
  Hypothesis HR : forall id, P (SRef id).

  Fixpoint schema_ind2 (s : schema) : P s :=
    match s with
    | SUint mx => HU mx
    | SInt bits => HI bits
    | SBool => HB
    | SBytes bd => HY bd
    | SString bd => HG bd
    | SFixBytes n => HF n
    | SArray n e => HA n e (schema_ind2 e)
    | SSlice bd e => HL bd e (schema_ind2 e)
    | SMap bd k v => HM bd k v (schema_ind2 k) (schema_ind2 v)
    | SStruct fs => HS fs ((fix go (fs : list (fhdr * schema)) : Forall (fun g : fhdr * schema => P (snd g)) fs :=
                              match fs with
                              | [] => Forall_nil _
                              | g :: t => Forall_cons g (schema_ind2 (snd g)) (go t)
                              end) fs)
    | SPtr e => HP e (schema_ind2 e)
    | SRef id => HR id
    end.
End SchemaInd.

Section DecProofs.
Variable env : list schema.
Variable deep : bool.

Notation BO := (bounds_okb env).

Fixpoint bounds_fields (fs : list (fhdr * schema)) (vs : list value) {struct vs} : bool :=
  match fs, vs with
  | (_, fsch) :: fs', v :: vs' => BO fsch v && bounds_fields fs' vs'
  | _, _ => true
  end.

Lemma bounds_struct_eq fs vs : BO (SStruct fs) (VStruct vs) = bounds_fields fs vs.
Proof. reflexivity. Qed.

(* the invariant of decoded values at remaining call depth d *)
Definition good (d : nat) (s : schema) (v : value) : Prop := BO s v = true /\ (need v <= d)%nat.

(* ---------- zero values ---------- *)
Fixpoint zero_fields_of (fs : list (fhdr * schema)) : list value :=
  match fs with
  | [] => []
  | (h, fsch) :: fs' => (if f_oe h then VDefault else zero_val fsch) :: zero_fields_of fs'
  end.

Lemma zero_struct fs : zero_val (SStruct fs) = VStruct (zero_fields_of fs).
Proof. reflexivity. Qed.

Lemma need_repeat v k : need v = O -> fold_right (fun x m => Nat.max (need x) m) O (repeat v k) = O.
Proof. intros H. induction k; simpl; auto. rewrite H, IHk. reflexivity. Qed.

Lemma zero_good : forall s0, BO s0 (zero_val s0) = true /\ need (zero_val s0) = O.
Proof.
  induction s0 as [mx|bits| |bd|bd|n|n s IHs|bd s IHs|bd s1 s2 IHs1 IHs2|fs H|s IHs|id] using schema_ind2; try (split; reflexivity).
  - (* string *) split; [|reflexivity]. unfold bounds_okb. cbn [zero_val bounds_gen]. destruct bd; simpl; auto.
    apply N.leb_le. unfold len. simpl. lia.
  - (* array *) destruct IHs as [Hb Hn]. split.
    + cbn [zero_val]. unfold bounds_okb. cbn [bounds_gen]. apply forallb_forall. intros x Hx.
      apply repeat_spec in Hx. subst. exact Hb.
    + cbn [zero_val need]. now apply need_repeat.
  - (* struct *) rewrite zero_struct. split.
    + rewrite bounds_struct_eq. induction H as [|[h fsch] fs Hg Hfs IH]; simpl; auto.
      rewrite IH, andb_true_r. destruct (f_oe h); [reflexivity|apply Hg].
    + cbn [need]. induction H as [|[h fsch] fs Hg Hfs IH]; simpl; auto.
      rewrite IH. destruct (f_oe h); simpl; [reflexivity|]. destruct Hg as [_ Hg]. simpl in Hg. now rewrite Hg.
Qed.

(* ---------- loops ---------- *)
Lemma dec_list_good (D : decoder) (Q : value -> Prop) :
  (forall b v r, D b = Ok (v, r) -> Q v) ->
  forall k b l r, dec_list D k b = Ok (l, r) -> Forall Q l /\ length l = k.
Proof.
  intros HD. induction k; intros b l r H; cbn [dec_list] in H.
  - inversion H; subst. split; [constructor|reflexivity].
  - destruct (D b) as [[v r1]| |] eqn:E1; cbn [bind fst snd] in H; try discriminate.
    destruct (dec_list D k r1) as [[l' r2]| |] eqn:E2; cbn [bind fst snd] in H; try discriminate.
    inversion H; subst. destruct (IHk _ _ _ E2) as [Hf Hl]. split.
    + constructor; eauto.
    + simpl. now rewrite Hl.
Qed.

Lemma minsert_length k v : forall acc, (length (minsert k v acc) <= S (length acc))%nat.
Proof.
  induction acc as [|[k' v'] acc IH]; simpl; [lia|].
  destruct (vlt k k'); simpl; [lia|]. destruct (vlt k' k); simpl; lia.
Qed.

Lemma minsert_Forall (Q : value * value -> Prop) k v : forall acc,
  Q (k, v) -> Forall Q acc -> Forall Q (minsert k v acc).
Proof.
  induction acc as [|[k' v'] acc IH]; intros Hq Ha; simpl.
  - constructor; auto.
  - inversion Ha; subst. destruct (vlt k k'); [constructor; auto|].
    destruct (vlt k' k); constructor; auto.
Qed.

Lemma dec_map_good (DK DV : decoder) (QK QV : value -> Prop) :
  (forall b v r, DK b = Ok (v, r) -> QK v) ->
  (forall b v r, DV b = Ok (v, r) -> QV v) ->
  forall k b acc m r, dec_map DK DV k b acc = Ok (m, r) ->
  Forall (fun kv : value * value => QK (fst kv) /\ QV (snd kv)) acc ->
  Forall (fun kv : value * value => QK (fst kv) /\ QV (snd kv)) m /\ (length m <= length acc + k)%nat.
Proof.
  intros HK HV. induction k; intros b acc m r H Ha; cbn [dec_map] in H.
  - inversion H; subst. split; [assumption|lia].
  - destruct (DK b) as [[kk r1]| |] eqn:E1; cbn [bind fst snd] in H; try discriminate.
    destruct (DV r1) as [[vv r2]| |] eqn:E2; cbn [bind fst snd] in H; try discriminate.
    apply IHk in H.
    + destruct H as [Hf Hl]. split; [assumption|]. pose proof (minsert_length kk vv acc). lia.
    + apply minsert_Forall; auto. simpl. eauto.
Qed.

(* ---------- struct slots ---------- *)
Section Slots.
Variable Q : schema -> value -> Prop.

Fixpoint slots_ok (fs : list (fhdr * schema)) (sl : list (option value)) : Prop :=
  match fs, sl with
  | (_, fsch) :: fs', o :: sl' => (match o with Some v => Q fsch v | None => True end) /\ slots_ok fs' sl'
  | _, _ => True
  end.

Lemma slots_ok_none fs k : slots_ok fs (repeat None k).
Proof. revert k. induction fs as [|[h fsch] fs IH]; intros [|k]; simpl; auto. Qed.

Lemma slots_ok_set : forall fs i sl h fsch v,
  slots_ok fs sl -> nth_error fs i = Some (h, fsch) -> Q fsch v -> slots_ok fs (set_nth i (Some v) sl).
Proof.
  induction fs as [|[h0 s0] fs IH]; intros i sl h fsch v Hs Hn Hq.
  - destruct sl, i; simpl; auto.
  - destruct sl as [|o sl]; [destruct i; simpl; auto|]. cbn [slots_ok] in Hs. destruct Hs as [H1 H2].
    destruct i as [|i]; cbn [set_nth slots_ok nth_error] in *.
    + inversion Hn; subst. split; auto.
    + split; auto. eapply IH; eauto.
Qed.
End Slots.

Section Body.
Variable call : N -> bytes -> res (value * bytes).
Variable d : nat.
Hypothesis Hcall : forall id b v r, call id b = Ok (v, r) ->
  (S (need v) <= d)%nat /\ exists s', lookup env id = Some s' /\ BO s' v = true.

Notation DS := (dec_s env deep call zero_val).
Notation FDS := (mkfds env deep call zero_val).

Lemma find_name_nth key : forall fs i j D,
  find_name key (FDS fs) i = Some (j, D) ->
  exists h fsch, nth_error fs (j - i) = Some (h, fsch) /\ D = DS fsch /\ (i <= j)%nat.
Proof.
  induction fs as [|[h fsch] fs IH]; intros i j D H; simpl in H; [discriminate|].
  destruct (bytes_eqb (f_name h) key).
  - inversion H; subst. exists h, fsch. rewrite Nat.sub_diag. simpl. auto.
  - apply IH in H. destruct H as (h' & s' & Hn & HD & Hle). exists h', s'.
    replace (j - i)%nat with (S (j - S i)) by lia. simpl. repeat split; auto. lia.
Qed.

Lemma find_decl_nth dd : forall fs i j D,
  find_decl dd (FDS fs) i = Some (j, D) ->
  exists h fsch, nth_error fs (j - i) = Some (h, fsch) /\ D = DS fsch /\ (i <= j)%nat.
Proof.
  induction fs as [|[h fsch] fs IH]; intros i j D H; simpl in H; [discriminate|].
  destruct (f_decl h =? dd).
  - inversion H; subst. exists h, fsch. rewrite Nat.sub_diag. simpl. auto.
  - apply IH in H. destruct H as (h' & s' & Hn & HD & Hle). exists h', s'.
    replace (j - i)%nat with (S (j - S i)) by lia. simpl. repeat split; auto. lia.
Qed.

Section Fields.
Variable fs : list (fhdr * schema).
Hypothesis HF : Forall (fun g : fhdr * schema => forall b v r, DS (snd g) b = Ok (v, r) -> good d (snd g) v) fs.

Lemma field_dec_good i h fsch b v r :
  nth_error fs i = Some (h, fsch) -> DS fsch b = Ok (v, r) -> good d fsch v.
Proof.
  intros Hn Hd. apply nth_error_In in Hn. rewrite Forall_forall in HF. exact (HF _ Hn _ _ _ Hd).
Qed.

Lemma sloop_map_good : forall k b sl sl' r,
  slots_ok (good d) fs sl -> sloop_map (FDS fs) k b sl = Ok (sl', r) -> slots_ok (good d) fs sl'.
Proof.
  induction k; intros b sl sl' r Hs H; cbn [sloop_map] in H.
  - inversion H; now subst.
  - destruct (rd_str b) as [[key r1]| |]; cbn [bind fst snd] in H; try discriminate.
    destruct (find_name key (FDS fs) 0) as [[i D]|] eqn:Ef; [|discriminate].
    destruct (nth i sl None); [discriminate|].
    destruct (D r1) as [[v r2]| |] eqn:Ed; cbn [bind fst snd] in H; try discriminate.
    apply find_name_nth in Ef. destruct Ef as (h & fsch & Hn & HD & _). rewrite Nat.sub_0_r in Hn. subst D.
    eapply IHk; [|exact H]. eapply slots_ok_set; eauto. eapply field_dec_good; eauto.
Qed.

Lemma sloop_arr_good : forall k dd b sl sl' r,
  slots_ok (good d) fs sl -> sloop_arr (FDS fs) k dd b sl = Ok (sl', r) -> slots_ok (good d) fs sl'.
Proof.
  induction k; intros dd b sl sl' r Hs H; cbn [sloop_arr] in H.
  - inversion H; now subst.
  - destruct (find_decl dd (FDS fs) 0) as [[i D]|] eqn:Ef; [|discriminate].
    destruct (D b) as [[v r2]| |] eqn:Ed; cbn [bind fst snd] in H; try discriminate.
    apply find_decl_nth in Ef. destruct Ef as (h & fsch & Hn & HD & _). rewrite Nat.sub_0_r in Hn. subst D.
    eapply IHk; [|exact H]. eapply slots_ok_set; eauto. eapply field_dec_good; eauto.
Qed.
End Fields.

Lemma fin_slots_good : forall fs sl,
  slots_ok (good d) fs sl ->
  bounds_fields fs (fin_slots zero_val (FDS fs) sl) = true /\
  (fold_right (fun x m => Nat.max (need x) m) O (fin_slots zero_val (FDS fs) sl) <= d)%nat.
Proof.
  induction fs as [|[h fsch] fs IH]; intros sl Hs; [split; [reflexivity|simpl; lia]|].
  destruct sl as [|o sl]; [split; [reflexivity|simpl; lia]|].
  destruct Hs as [Ho Hs]. cbn [mkfds map fin_slots]. fold (FDS fs).
  destruct (IH sl Hs) as [Hb Hn]. cbn [bounds_fields fold_right]. rewrite Hb, andb_true_r.
  destruct o as [v|].
  - destruct Ho as [H1 H2]. split; [exact H1|lia].
  - destruct (f_oe h).
    + split; [reflexivity|simpl; lia].
    + destruct (zero_good fsch) as [H1 H2]. split; [exact H1|rewrite H2; lia].
Qed.

Lemma within_le bd a b : a <= b -> within bd b = true -> within bd a = true.
Proof. destruct bd; simpl; auto. intros H1 H2. apply N.leb_le in H2. apply N.leb_le. lia. Qed.

(* one generated method body: all values it builds are good *)
Lemma dec_s_good : forall s0 b v r, DS s0 b = Ok (v, r) -> good d s0 v.
Proof.
  induction s0 as [mx|bits| |bd|bd|n|n s IHs|bd s IHs|bd s1 s2 IHs1 IHs2|fs H0|s IHs|id] using schema_ind2; intros b v r H; cbn [dec_s] in H.
  - destruct (rd_uint64 b) as [[n r1]| |]; cbn [bind fst snd] in H; try discriminate.
    destruct (n <=? mx); inversion H; subst. split; [reflexivity|simpl; lia].
  - destruct (rd_int64 b) as [[n r1]| |]; cbn [bind fst snd] in H; try discriminate.
    destruct (int_ok bits n); inversion H; subst. split; [reflexivity|simpl; lia].
  - destruct (rd_bool b) as [[n r1]| |]; cbn [bind fst snd] in H; try discriminate.
    inversion H; subst. split; [reflexivity|simpl; lia].
  - destruct (rd_bin true b) as [[[x|] r1]| |]; cbn [bind fst snd] in H; try discriminate.
    + destruct (within bd (len x)) eqn:Ew; inversion H; subst. split; [exact Ew|simpl; lia].
    + inversion H; subst. split; [reflexivity|simpl; lia].
  - destruct (rd_str b) as [[x r1]| |]; cbn [bind fst snd] in H; try discriminate.
    destruct (within bd (len x)) eqn:Ew; inversion H; subst. split; [exact Ew|simpl; lia].
  - destruct (rd_exact n b) as [[x r1]| |]; cbn [bind fst snd] in H; try discriminate.
    inversion H; subst. split; [reflexivity|simpl; lia].
  - (* array *)
    destruct (rd_arrhdr b) as [[[sz isnil] r1]| |]; cbn [bind] in H; try discriminate.
    destruct (n <? sz); [discriminate|]. destruct (lacks r1 sz); [discriminate|].
    destruct (dec_list (DS s) (N.to_nat sz) r1) as [[l r2]| |] eqn:El; cbn [bind fst snd] in H; try discriminate.
    inversion H; subst.
    destruct (dec_list_good (DS s) (good d s) (fun b v r => IHs b v r) _ _ _ _ El) as [Hf _].
    destruct (zero_good s) as [Hz1 Hz2].
    assert (Hall : Forall (good d s) (l ++ repeat (zero_val s) (N.to_nat (n - sz)))).
    { apply Forall_app. split; [exact Hf|]. apply Forall_forall. intros x Hx. apply repeat_spec in Hx. subst.
      split; [exact Hz1|lia]. }
    split.
    + unfold bounds_okb. cbn [bounds_gen]. apply forallb_forall. intros x Hx.
      rewrite Forall_forall in Hall. apply (Hall x Hx).
    + cbn [need]. induction Hall as [|x t [_ Hx] _ IH]; simpl; lia.
  - (* slice *)
    destruct (rd_arrhdr b) as [[[sz isnil] r1]| |]; cbn [bind] in H; try discriminate.
    destruct (within bd sz) eqn:Ew; cbn [negb] in H; [|discriminate].
    destruct isnil; [inversion H; subst; split; [reflexivity|simpl; lia]|].
    destruct (lacks r1 sz); [discriminate|].
    destruct (dec_list (DS s) (N.to_nat sz) r1) as [[l r2]| |] eqn:El; cbn [bind fst snd] in H; try discriminate.
    inversion H; subst.
    destruct (dec_list_good (DS s) (good d s) (fun b v r => IHs b v r) _ _ _ _ El) as [Hf Hl].
    split.
    + unfold bounds_okb. cbn [bounds_gen]. apply andb_true_iff. split.
      * unfold len. rewrite Hl, N2Nat.id. exact Ew.
      * apply forallb_forall. intros x Hx. rewrite Forall_forall in Hf. apply (Hf x Hx).
    + cbn [need]. clear Hl El H. induction Hf as [|x t [_ Hx] _ IH]; simpl; lia.
  - (* map *)
    destruct (rd_maphdr b) as [[[sz isnil] r1]| |]; cbn [bind] in H; try discriminate.
    destruct (within bd sz) eqn:Ew; cbn [negb] in H; [|discriminate].
    destruct isnil; [inversion H; subst; split; [reflexivity|simpl; lia]|].
    destruct (lacks r1 sz); [discriminate|].
    destruct (dec_map (DS s1) (DS s2) (N.to_nat sz) r1 []) as [[m r2]| |] eqn:Em; cbn [bind fst snd] in H; try discriminate.
    inversion H; subst.
    destruct (dec_map_good (DS s1) (DS s2) (good d s1) (good d s2)
                (fun b v r => IHs1 b v r) (fun b v r => IHs2 b v r) _ _ _ _ _ Em (Forall_nil _)) as [Hf Hl].
    simpl in Hl. split.
    + unfold bounds_okb. cbn [bounds_gen negb orb]. apply andb_true_iff. split.
      * eapply within_le; [|exact Ew]. unfold len. lia.
      * apply forallb_forall. intros [k x] Hx. rewrite Forall_forall in Hf. destruct (Hf _ Hx) as [[Hk _] [Hv _]].
        simpl in Hk, Hv. unfold bounds_okb in Hk, Hv. now rewrite Hk, Hv.
    + cbn [need]. clear Hl Em H. induction Hf as [|[k x] t [[_ Hk] [_ Hx]] _ IH]; simpl in *; lia.
  - (* struct *)
    change (struct_dec env deep zero_val (FDS fs) b = Ok (v, r)) in H. unfold struct_dec in H.
    assert (Hfin : forall sl r', slots_ok (good d) fs sl ->
              (let vs := fin_slots zero_val (FDS fs) sl in
               if req_ok env deep (FDS fs) vs then Ok (VStruct vs, r') else Err ERequired) = Ok (v, r) ->
              good d (SStruct fs) v).
    { intros sl r' Hs Hq. cbn zeta in Hq. destruct (req_ok env deep (FDS fs) (fin_slots zero_val (FDS fs) sl)); [|discriminate].
      inversion Hq; subst. destruct (fin_slots_good fs sl Hs) as [Hb Hn].
      split; [rewrite bounds_struct_eq; exact Hb|cbn [need]; exact Hn]. }
    destruct (rd_maphdr b) as [[[sz isnil] r1]|e|]; try discriminate.
    + destruct (lacks r1 sz); [discriminate|].
      destruct (sloop_map (FDS fs) (N.to_nat sz) r1 (repeat None (length (FDS fs)))) as [[sl r2]| |] eqn:El;
        cbn [bind fst snd] in H; try discriminate.
      eapply Hfin; [|exact H]. eapply sloop_map_good; [exact H0| |exact El]. apply slots_ok_none.
    + destruct e; try discriminate.
      destruct (rd_arrhdr b) as [[[sz isnil] r1]| |]; cbn [bind] in H; try discriminate.
      destruct (lacks r1 sz); [discriminate|].
      destruct (sloop_arr (FDS fs) (N.to_nat sz) 0 r1 (repeat None (length (FDS fs)))) as [[sl r2]| |] eqn:El;
        cbn [bind fst snd] in H; try discriminate.
      eapply Hfin; [|exact H]. eapply sloop_arr_good; [exact H0| |exact El]. apply slots_ok_none.
  - (* ptr *)
    assert (Hgen : (DS s b >>= fun p => Ok (VSome (fst p), snd p)) = Ok (v, r) -> good d (SPtr s) v).
    { intros Hq. destruct (DS s b) as [[x r1]| |] eqn:Ex; cbn [bind fst snd] in Hq; try discriminate.
      inversion Hq; subst. destruct (IHs _ _ _ Ex) as [H1 H2]. split; [exact H1|exact H2]. }
    destruct b as [|x t]; [exact (Hgen H)|].
    destruct (N.eq_dec x 192) as [->|Hne].
    + inversion H; subst. split; [reflexivity|simpl; lia].
    + apply Hgen. destruct x as [|p]; [exact H|].
      repeat (destruct p as [p|p|]; try exact H). contradiction.
  - (* ref *)
    destruct (call id b) as [[x r1]| |] eqn:Ec; cbn [bind fst snd] in H; try discriminate.
    inversion H; subst. destruct (Hcall _ _ _ _ Ec) as [Hn (s' & Hl & Hb)]. split.
    + unfold bounds_okb in *. cbn [bounds_gen]. now rewrite Hl.
    + cbn [need]. exact Hn.
Qed.

End Body.

(* ---------- the generated methods, by induction on the AllowableDepth ---------- *)
Lemma dec_good : forall d id b v r, dec env deep d id b = Ok (v, r) ->
  (S (need v) <= d)%nat /\ exists s', lookup env id = Some s' /\ BO s' v = true.
Proof.
  induction d; intros id b v r H; cbn [dec] in H; [discriminate|].
  destruct (lookup env id) as [s|] eqn:El; [|discriminate].
  destruct (dec_s_good (dec env deep d) d IHd s b v r H) as [Hb Hn].
  split; [lia|]. exists s. auto.
Qed.

(* protocol.Decode on arbitrary bytes: whenever it succeeds, every collection of the result respects
   the declared allocbound of its type ... *)
Theorem decode_bounds : forall d id b v r,
  decode env deep d id b = Ok (v, r) -> bounds_okb env (SRef id) v = true.
Proof.
  intros d id b v r H. unfold decode in H.
  destruct (dec env deep d id b) as [[x r1]| |] eqn:Ed; cbn [bind fst snd] in H; try discriminate.
  inversion H; subst. destruct (dec_good _ _ _ _ _ Ed) as [_ (s' & Hl & Hb)].
  unfold bounds_okb in *. cbn [bounds_gen]. now rewrite Hl.
Qed.

(* ... and the nesting of called types in the result is at most the AllowableDepth *)
Theorem decode_depth : forall d id b v r,
  decode env deep d id b = Ok (v, r) -> (need v <= d)%nat.
Proof.
  intros d id b v r H. unfold decode in H.
  destruct (dec env deep d id b) as [[x r1]| |] eqn:Ed; cbn [bind fst snd] in H; try discriminate.
  inversion H; subst. destruct (dec_good _ _ _ _ _ Ed) as [Hn _]. cbn [need]. exact Hn.
Qed.

(* with no depth budget nothing is decoded at all *)
Theorem decode_depth_zero : forall id b, decode env deep 0 id b = Err EDepth.
Proof. reflexivity. Qed.

End DecProofs.

(* ---------- the duplicate-key merge of the real code (outside [dec], which answers [Unm 1]) ----------
   gen/spec.go resizeMap: "if a map already exists (e.g., because we are decoding the same key twice),
   then keep the map as-is": the second occurrence inserts into the existing map and only the second
   header is compared with the allocbound.  [merge_dup] is that branch; it breaks the bound. *)
Definition merge_dup (old new : list (value * value)) : list (value * value) :=
  fold_left (fun a (kv : value * value) => minsert (fst kv) (snd kv) a) new old.

Theorem dup_key_merge_refuted :
  exists (bd : N) (old new : list (value * value)),
    within (Some bd) (len old) = true /\ within (Some bd) (len new) = true /\
    sorted_keys old = true /\ sorted_keys new = true /\
    within (Some bd) (len (merge_dup old new)) = false.
Proof.
  exists 1, [(VUint 0, VUint 7)], [(VUint 1, VUint 9)]. repeat split; vm_compute; reflexivity.
Qed.
