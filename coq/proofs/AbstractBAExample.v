(* Anti-vacuity instance for C01: 3 nodes (0,1 honest, 2 Byzantine); a quorum is any set that
   contains nodes 0 and 1.  Reachability of the example trace is decided by the executable
   rule checker (ConcreteBA.reachable_b) and lifted by its soundness theorem. *)
From Coq Require Import List Arith NArith Bool Lia.
From Verif.model Require Import AbstractBA ConcreteBA.
From Verif.proofs Require Import ConcreteBAProofs.
Import ListNotations.
Local Open Scope N_scope.

Definition ex_honest_b (n : N) : bool := (n =? 0) || (n =? 1).
Definition ex_honest (n : N) : Prop := ex_honest_b n = true.
Definition ex_quorum (_ _ : nat) (Q : N -> Prop) : Prop := Q 0 /\ Q 1.
Definition ex_qdec (_ _ : nat) (l : list N) : bool := existsb (N.eqb 0) l && existsb (N.eqb 1) l.

Local Notation V := (AbstractBA.Vote N N).
Local Notation mk := (AbstractBA.mkVote N N).
Local Notation E := (AbstractBA.Enter N N).

(* newest event first *)
Definition ex_trace : list (AbstractBA.event N N) :=
  [ V (mk 1 1%nat 2%nat (Some 7)); V (mk 0 1%nat 2%nat (Some 7));     (* cert votes, period 1 *)
    V (mk 2 1%nat 2%nat (Some 9));                                     (* Byzantine *)
    V (mk 1 1%nat 1%nat (Some 7)); V (mk 0 1%nat 1%nat (Some 7));     (* soft votes, period 1: starting value *)
    E 1 1%nat (ViaNext N (Some 7)); E 0 1%nat (ViaNext N (Some 7));
    V (mk 1 0%nat 3%nat (Some 7)); V (mk 0 0%nat 3%nat (Some 7));     (* next votes, period 0: cert-voters vote 7 *)
    V (mk 2 0%nat 3%nat None);                                         (* Byzantine next-votes bottom *)
    V (mk 1 0%nat 2%nat (Some 7)); V (mk 0 0%nat 2%nat (Some 7));     (* cert votes, period 0 *)
    V (mk 2 0%nat 2%nat (Some 9)); V (mk 2 0%nat 1%nat (Some 9));     (* Byzantine *)
    V (mk 1 0%nat 1%nat (Some 7)); V (mk 0 0%nat 1%nat (Some 7)) ].   (* soft votes, period 0 *)

Lemma ex_qdec_sound p s l : ex_qdec p s l = true -> ex_quorum p s (fun n => In n l).
Proof.
  unfold ex_qdec, ex_quorum. intros H. apply andb_true_iff in H. destruct H as [H0 H1].
  apply existsb_exists in H0, H1. destruct H0 as [a [Ha Ea]], H1 as [b [Hb Eb]].
  apply N.eqb_eq in Ea, Eb. subst. split; assumption.
Qed.

Lemma ex_QI_same p s Q1 Q2 : ex_quorum p s Q1 -> ex_quorum p s Q2 -> exists n, ex_honest n /\ Q1 n /\ Q2 n.
Proof. intros [H1 _] [H2 _]. exists 0. split; [reflexivity|split; assumption]. Qed.

Lemma ex_QI_cross (p p' s : nat) Qc Qn : (p <= p')%nat -> (3 <= s)%nat -> ex_quorum p 2 Qc -> ex_quorum p' s Qn ->
  exists n, ex_honest n /\ Qc n /\ Qn n.
Proof. intros _ _ [H1 _] [H2 _]. exists 0. split; [reflexivity|split; assumption]. Qed.

Lemma ex_nonvacuous :
  (forall p s Q1 Q2, ex_quorum p s Q1 -> ex_quorum p s Q2 -> exists n, ex_honest n /\ Q1 n /\ Q2 n) /\
  (forall (p p' s : nat) Qc Qn, (p <= p')%nat -> (3 <= s)%nat -> ex_quorum p 2 Qc -> ex_quorum p' s Qn ->
                        exists n, ex_honest n /\ Qc n /\ Qn n) /\
  reachable N N N.eq_dec N.eq_dec ex_honest ex_quorum ex_trace /\
  has_q N N ex_quorum ex_trace 0 2 (Some 7) /\ has_q N N ex_quorum ex_trace 1 2 (Some 7).
Proof.
  split; [exact ex_QI_same|]. split; [exact ex_QI_cross|]. split; [|split].
  - apply (reachable_b_sound ex_honest_b ex_qdec ex_quorum ex_qdec_sound). vm_compute. reflexivity.
  - apply (has_q_b_sound ex_honest_b ex_qdec ex_quorum ex_qdec_sound). vm_compute. reflexivity.
  - apply (has_q_b_sound ex_honest_b ex_qdec ex_quorum ex_qdec_sound). vm_compute. reflexivity.
Qed.

(* the checker is not trivially true: an honest node that cert-voted 7 and then next-votes
   bottom in the same period breaks R_next, and is flagged at exactly that event *)
Definition ex_bad_trace : list (AbstractBA.event N N) :=
  [ V (mk 0 0%nat 3%nat None);
    V (mk 1 0%nat 2%nat (Some 7)); V (mk 0 0%nat 2%nat (Some 7));
    V (mk 1 0%nat 1%nat (Some 7)); V (mk 0 0%nat 1%nat (Some 7)) ].

Lemma ex_bad_flagged : first_bad ex_honest_b ex_qdec ex_bad_trace = Some 4%nat.
Proof. vm_compute. reflexivity. Qed.
