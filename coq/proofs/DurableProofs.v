(* C02: non-equivocation across crashes for the persist-before-release wrapper, for EVERY
   interleaving of events, persist completions / failures and crashes, over any deterministic
   machine whose single runs do not equivocate. *)
From Coq Require Import List Bool Arith Lia.
From Verif.model Require Import Durable.
Import ListNotations.

Section Proofs.

Variables S E V : Type.
Variable init : S.
Variable step : S -> E -> S * list V.

Local Notation state_of := (Durable.state_of S E V step).
Local Notation run_votes := (Durable.run_votes S E V step).
Local Notation dstate := (Durable.dstate E V).
Local Notation snapshot := (Durable.snapshot E V).

Definition prefix (p q : list E) : Prop := exists r, q = p ++ r.

Lemma prefix_refl p : prefix p p. Proof. exists []. rewrite app_nil_r. reflexivity. Qed.
Lemma prefix_nil p : prefix [] p. Proof. exists p. reflexivity. Qed.
Lemma prefix_trans a b c : prefix a b -> prefix b c -> prefix a c.
Proof. intros [r ->] [r' ->]. exists (r ++ r'). rewrite app_assoc. reflexivity. Qed.
Lemma prefix_app p r : prefix p (p ++ r). Proof. exists r. reflexivity. Qed.

Lemma state_of_app s a b : state_of s (a ++ b) = state_of (state_of s a) b.
Proof. revert s. induction a as [|e a IH]; intros s; cbn; [reflexivity|apply IH]. Qed.

Lemma run_votes_app s a b : run_votes s (a ++ b) = run_votes s a ++ run_votes (state_of s a) b.
Proof.
  revert s. induction a as [|e a IH]; intros s; cbn; [reflexivity|].
  rewrite IH, app_assoc. reflexivity.
Qed.

Lemma run_votes_prefix s p q v : prefix p q -> In v (run_votes s p) -> In v (run_votes s q).
Proof. intros [r ->] H. rewrite run_votes_app. apply in_or_app. left. exact H. Qed.

(* queue entries form a chain of snapshots lo <= p1 <= p2 <= ... <= hi, each carrying only
   votes attested along its own path *)
Fixpoint chain (lo : list E) (q : list (snapshot * list V)) (hi : list E) : Prop :=
  match q with
  | [] => True
  | (Snap _ _ p vs, vs') :: q' =>
      prefix lo p /\ prefix p hi /\
      (forall v, In v vs -> In v (run_votes init p)) /\
      (forall v, In v vs' -> In v (run_votes init p)) /\
      chain p q' hi
  | (SnapZero _ _, _) :: _ => False
  end.

Lemma chain_hi lo q hi hi' : prefix hi hi' -> chain lo q hi -> chain lo q hi'.
Proof.
  revert lo. induction q as [|[[|p vs] vs'] q IH]; intros lo Hp; cbn; auto.
  intros [H1 [H2 [H3 [H4 H5]]]]. repeat split; auto. eapply prefix_trans; eassumption.
Qed.

Lemma chain_lo lo lo' q hi : prefix lo lo' -> chain lo' q hi -> chain lo q hi.
Proof.
  destruct q as [|[[|p vs] vs'] q]; cbn; auto.
  intros Hp [H1 [H2 [H3 [H4 H5]]]]. repeat split; auto. eapply prefix_trans; eassumption.
Qed.

Lemma chain_snoc lo q hi vs :
  chain lo q hi -> prefix lo hi -> (forall v, In v vs -> In v (run_votes init hi)) ->
  chain lo (q ++ [(Snap E V hi vs, vs)]) hi.
Proof.
  revert lo. induction q as [|[[|p vs0] vs'] q IH]; intros lo Hc Hp Hv; cbn in *.
  - repeat split; auto. apply prefix_refl.
  - destruct Hc.
  - destruct Hc as [H1 [H2 [H3 [H4 H5]]]]. repeat split; auto.
Qed.

(* invariant of the repaired wrapper *)
Definition Inv (d : dstate) : Prop :=
  match disk E V d with
  | None => released E V d = [] /\ chain [] (queue E V d) (path E V d)
  | Some (SnapZero _ _) => False
  | Some (Snap _ _ dp dvs) =>
      prefix dp (path E V d) /\
      (forall v, In v (released E V d) -> In v (run_votes init dp)) /\
      (forall v, In v dvs -> In v (run_votes init dp)) /\
      chain dp (queue E V d) (path E V d)
  end.

Local Notation dstep := (Durable.dstep S E V init step true).
Local Notation drun := (Durable.drun S E V init step true).

Lemma inv_step d o : Inv d -> Inv (dstep d o).
Proof.
  unfold Inv. intros H. destruct o as [e| | |]; cbn [Durable.dstep].
  - (* Ev *)
    destruct (step (state_of init (path E V d)) e) as [s' vs] eqn:Es. cbn.
    assert (Hvs : forall v, In v vs -> In v (run_votes init (path E V d ++ [e]))).
    { intros v Hv. rewrite run_votes_app. apply in_or_app. right. cbn. rewrite Es. cbn.
      rewrite app_nil_r. exact Hv. }
    destruct (disk E V d) as [[|dp dvs]|].
    + exact H.
    + destruct H as [H1 [H2 [H3 H4]]].
      assert (Hp : prefix dp (path E V d ++ [e])) by (eapply prefix_trans; [exact H1|apply prefix_app]).
      repeat split; auto.
      apply (chain_hi _ _ _ (path E V d ++ [e]) (prefix_app _ _)) in H4.
      destruct vs as [|v0 vs]; [exact H4|]. apply chain_snoc; auto.
    + destruct H as [H1 H4]. split; [exact H1|].
      apply (chain_hi _ _ _ (path E V d ++ [e]) (prefix_app _ _)) in H4.
      destruct vs as [|v0 vs]; [exact H4|]. apply chain_snoc; auto. apply prefix_nil.
  - (* PersistOk *)
    destruct (queue E V d) as [|[snap vs'] q] eqn:Eq; [rewrite Eq; exact H|]. cbn.
    destruct (disk E V d) as [[|dp dvs]|].
    + destruct H.
    + destruct H as [H1 [H2 [H3 H4]]]. destruct snap as [|p vs]; cbn in H4; [destruct H4|].
      destruct H4 as [G1 [G2 [G3 [G4 G5]]]]. repeat split; auto.
      intros v Hv. apply in_app_or in Hv. destruct Hv as [Hv|Hv]; [|auto].
      eapply run_votes_prefix; [exact G1|]. auto.
    + destruct H as [H1 H4]. destruct snap as [|p vs]; cbn in H4; [destruct H4|].
      destruct H4 as [G1 [G2 [G3 [G4 G5]]]]. repeat split; auto.
      intros v Hv. rewrite H1 in Hv. cbn in Hv. auto.
  - (* PersistFail *)
    destruct (queue E V d) as [|[snap vs'] q] eqn:Eq; [rewrite Eq; exact H|]. cbn.
    destruct (disk E V d) as [[|dp dvs]|].
    + destruct H.
    + destruct H as [H1 [H2 [H3 H4]]]. destruct snap as [|p vs]; cbn in H4; [destruct H4|].
      destruct H4 as [G1 [G2 [G3 [G4 G5]]]]. repeat split; auto. eapply chain_lo; eassumption.
    + destruct H as [H1 H4]. destruct snap as [|p vs]; cbn in H4; [destruct H4|].
      destruct H4 as [G1 [G2 [G3 [G4 G5]]]]. split; auto. eapply chain_lo; eassumption.
  - (* Crash *)
    destruct (disk E V d) as [[|dp dvs]|] eqn:Ed; cbn; rewrite ?Ed.
    + destruct H.
    + destruct H as [H1 [H2 [H3 H4]]]. repeat split; auto; apply prefix_refl.
    + destruct H as [H1 H4]. split; [exact H1|exact I].
Qed.

Lemma inv_run ops : forall d, Inv d -> Inv (fold_left dstep ops d).
Proof. induction ops as [|o ops IH]; intros d H; cbn; [exact H|]. apply IH. apply inv_step. exact H. Qed.

Lemma inv_init : Inv (Durable.d_init E V).
Proof. cbn. split; [reflexivity|exact I]. Qed.

(* every released vote was attested along the run that is on disk *)
Theorem released_after_persist ops v :
  In v (released E V (drun ops)) ->
  exists dp dvs, disk E V (drun ops) = Some (Snap E V dp dvs) /\ In v (run_votes init dp).
Proof.
  intros Hv. pose proof (inv_run ops _ inv_init) as H. unfold Inv in H.
  fold (drun ops) in H.
  destruct (disk E V (drun ops)) as [[|dp dvs]|].
  - destruct H.
  - destruct H as [_ [H2 _]]. eauto.
  - destruct H as [H1 _]. rewrite H1 in Hv. destruct Hv.
Qed.

(* the property: if no single run of the machine attests two conflicting votes, then no
   interleaving of events, persist completions, persist failures and crashes makes the node
   release two conflicting votes *)
Theorem crash_nonequiv (conflict : V -> V -> Prop) :
  (forall evs v1 v2, In v1 (run_votes init evs) -> In v2 (run_votes init evs) -> ~ conflict v1 v2) ->
  forall ops v1 v2, In v1 (released E V (drun ops)) -> In v2 (released E V (drun ops)) -> ~ conflict v1 v2.
Proof.
  intros Honce ops v1 v2 H1 H2.
  destruct (released_after_persist ops v1 H1) as [dp [dvs [Ed G1]]].
  destruct (released_after_persist ops v2 H2) as [dp' [dvs' [Ed' G2]]].
  rewrite Ed in Ed'. injection Ed' as <- <-. eapply Honce; eassumption.
Qed.

End Proofs.

(* ---- the unrepaired wrapper equivocates after two crashes ---- *)
Definition toy_step (voted : bool) (e : nat) : bool * list nat :=
  if voted then (true, []) else (true, [e]).    (* votes once, for the first value it sees *)

Lemma toy_once evs : forall v1 v2,
  In v1 (Durable.run_votes bool nat nat toy_step false evs) ->
  In v2 (Durable.run_votes bool nat nat toy_step false evs) -> ~ (v1 <> v2).
Proof.
  assert (Ht : forall evs, Durable.run_votes bool nat nat toy_step true evs = []).
  { induction evs0 as [|e evs0 IH]; cbn; [reflexivity|exact IH]. }
  destruct evs as [|e evs]; cbn; [tauto|]. rewrite Ht. cbn.
  intros v1 v2 [<-|[]] [<-|[]] H. apply H. reflexivity.
Qed.

Definition toy_ops : list (Durable.dop nat) :=
  [Ev nat 5; PersistOk nat; Crash nat; PersistOk nat; Crash nat; Ev nat 6; PersistOk nat].

Lemma unfixed_refuted :
  In 5 (released nat nat (Durable.drun bool nat nat false toy_step false toy_ops)) /\
  In 6 (released nat nat (Durable.drun bool nat nat false toy_step false toy_ops)).
Proof. vm_compute. split; auto. Qed.

Lemma fixed_toy_ok :
  released nat nat (Durable.drun bool nat nat false toy_step true toy_ops) = [5; 5; 5].
Proof. vm_compute. reflexivity. Qed.
