(* Soundness of the executable rule checker: reachable_b = true -> reachable. *)
From Coq Require Import List Arith NArith Bool Lia.
From Verif.model Require Import AbstractBA ConcreteBA.
Import ListNotations.

Section Sound.

Variable honest_b : N -> bool.
Variable qdec : nat -> nat -> list N -> bool.
Variable quorum : nat -> nat -> (N -> Prop) -> Prop.
Hypothesis qdec_sound : forall p s l, qdec p s l = true -> quorum p s (fun n => In n l).

Definition honestP (n : N) : Prop := honest_b n = true.

Local Notation voted := (AbstractBA.voted N N).
Local Notation has_q := (AbstractBA.has_q N N quorum).
Local Notation nextq := (AbstractBA.nextq N N quorum).
Local Notation mkVote := (AbstractBA.mkVote N N).
Local Notation ok := (AbstractBA.ok N N N.eq_dec N.eq_dec honestP quorum).
Local Notation reachable := (AbstractBA.reachable N N N.eq_dec N.eq_dec honestP quorum).

Lemma opt_eqb_eq a b : opt_eqb a b = true -> a = b.
Proof.
  destruct a, b; cbn; try discriminate; try reflexivity.
  intros H. apply N.eqb_eq in H. congruence.
Qed.

Lemma voters_sound t p s x n : In n (voters t p s x) -> voted t (mkVote n p s x).
Proof.
  induction t as [|e t IH]; cbn; [tauto|].
  destruct e as [v|h q w].
  - destruct (Nat.eqb (per N N v) p && Nat.eqb (stp N N v) s && opt_eqb (val N N v) x) eqn:E.
    + apply andb_true_iff in E. destruct E as [E E3]. apply andb_true_iff in E. destruct E as [E1 E2].
      apply Nat.eqb_eq in E1, E2. apply opt_eqb_eq in E3.
      intros [H|H].
      * left. destruct v as [sn pe st va]. cbn in *. subst. reflexivity.
      * right. apply IH. exact H.
    + intros H. right. apply IH. exact H.
  - intros H. right. apply IH. exact H.
Qed.

Lemma has_q_b_sound t p s x : has_q_b qdec t p s x = true -> has_q t p s x.
Proof.
  intros H. exists (fun n => In n (voters t p s x)). split.
  - apply qdec_sound. exact H.
  - intros n Hn. apply voters_sound. exact Hn.
Qed.

Lemma nextq_b_sound t p x : nextq_b qdec t p x = true -> nextq t p x.
Proof.
  unfold nextq_b. intros H. apply existsb_exists in H. destruct H as [s [_ H]].
  apply andb_true_iff in H. destruct H as [H1 H2]. apply Nat.leb_le in H1.
  exists s. split; [exact H1|]. apply has_q_b_sound. exact H2.
Qed.

Lemma once_b_sound t v : once_b t v = true ->
  forall v', voted t v' -> sender N N v' = sender N N v -> per N N v' = per N N v ->
             stp N N v' = stp N N v -> val N N v' = val N N v.
Proof.
  unfold once_b. intros H v' Hv' Hs Hp Hst.
  rewrite forallb_forall in H. specialize (H _ Hv'). cbn in H.
  rewrite Hs, Hp, Hst, N.eqb_refl, !Nat.eqb_refl in H. cbn in H.
  apply opt_eqb_eq. exact H.
Qed.

Lemma soft_rule_b_sound t v : soft_rule_b qdec t v = true -> soft_rule N N quorum t v.
Proof.
  unfold soft_rule_b, soft_rule. destruct (val N N v) as [x|]; [|discriminate].
  intros H. exists x. split; [reflexivity|].
  repeat (apply orb_true_iff in H; destruct H as [H|H]).
  - left. apply Nat.eqb_eq. exact H.
  - right; left. apply nextq_b_sound. exact H.
  - right; right; left. apply nextq_b_sound. exact H.
  - right; right; right; left. apply existsb_exists in H. destruct H as [y [_ H]].
    exists y. apply has_q_b_sound. exact H.
  - right; right; right; right. apply existsb_exists in H. destruct H as [y [_ H]].
    exists y. apply has_q_b_sound. exact H.
Qed.

Lemma cert_rule_b_sound t v : cert_rule_b qdec t v = true -> cert_rule N N quorum t v.
Proof.
  unfold cert_rule_b, cert_rule. destruct (val N N v) as [x|]; [|discriminate].
  intros H. apply andb_true_iff in H. destruct H as [H1 H2].
  exists x. split; [reflexivity|]. split; [apply has_q_b_sound; exact H1|].
  intros v' Hv' Hs Hp. rewrite forallb_forall in H2. specialize (H2 _ Hv'). cbn in H2.
  rewrite Hs, Hp, N.eqb_refl, Nat.eqb_refl in H2. cbn in H2. apply Nat.ltb_lt. exact H2.
Qed.

Lemma next_rule_b_sound t v : next_rule_b qdec t v = true ->
  next_rule N N N.eq_dec N.eq_dec quorum t v.
Proof.
  unfold next_rule_b, next_rule. intros H. apply andb_true_iff in H. destruct H as [H1 H2].
  split.
  - intros y Hy. rewrite forallb_forall in H1. specialize (H1 _ Hy). cbn in H1.
    rewrite N.eqb_refl, !Nat.eqb_refl in H1. cbn in H1. apply opt_eqb_eq. exact H1.
  - repeat (apply orb_true_iff in H2; destruct H2 as [H2|H2]).
    + left. destruct (val N N v) as [y|]; [|discriminate]. exists y. split; [reflexivity|].
      apply orb_true_iff in H2. destruct H2 as [H2|H2]; [left|right]; apply has_q_b_sound; exact H2.
    + right; left. apply andb_true_iff in H2. destruct H2 as [Ha Hb].
      split; [apply Nat.ltb_lt; exact Ha|apply nextq_b_sound; exact Hb].
    + right; right; left. apply andb_true_iff in H2. destruct H2 as [Ha Hb].
      split; [apply opt_eqb_eq; exact Ha|apply Nat.eqb_eq; exact Hb].
    + right; right; right. apply andb_true_iff in H2. destruct H2 as [Ha Hb].
      split; [apply opt_eqb_eq; exact Ha|].
      unfold last_via_b, lock_b in Hb.
      destruct (last_via N N N.eq_dec (sender N N v) t) as [[x|y|y]|]; try discriminate.
      * exists y. split; [left; reflexivity|]. intros E. rewrite E in Hb. cbn in Hb.
        rewrite N.eqb_refl in Hb. discriminate.
      * exists y. split; [right; reflexivity|]. intros E. rewrite E in Hb. cbn in Hb.
        rewrite N.eqb_refl in Hb. discriminate.
Qed.

Lemma step_rule_b_sound t v : step_rule_b qdec t v = true ->
  step_rule N N N.eq_dec N.eq_dec quorum t v.
Proof.
  unfold step_rule_b, step_rule. destruct (stp N N v) as [|[|[|s]]].
  - intros _. exact I.
  - apply soft_rule_b_sound.
  - apply cert_rule_b_sound.
  - apply next_rule_b_sound.
Qed.

Lemma enter_rule_b_sound t h q w : enter_rule_b qdec t h q w = true ->
  enter_rule N N N.eq_dec quorum t h q w.
Proof.
  unfold enter_rule_b, enter_rule. intros H. apply andb_true_iff in H. destruct H as [H1 H2].
  split; [apply Nat.ltb_lt; exact H1|].
  destruct w as [x|y|y].
  - apply andb_true_iff in H2. destruct H2 as [Ha Hb].
    split; [apply Nat.ltb_lt; exact Ha|apply nextq_b_sound; exact Hb].
  - apply has_q_b_sound. exact H2.
  - apply has_q_b_sound. exact H2.
Qed.

Lemma ok_b_sound t e : ok_b honest_b qdec t e = true -> ok t e.
Proof.
  destruct e as [v|h q w]; cbn.
  - intros H Hh. unfold honestP in Hh. rewrite Hh in H.
    apply andb_true_iff in H. destruct H as [H H3]. apply andb_true_iff in H. destruct H as [H1 H2].
    split; [apply Nat.eqb_eq; exact H1|]. split; [apply once_b_sound; exact H2|].
    apply step_rule_b_sound. exact H3.
  - intros H Hh. unfold honestP in Hh. rewrite Hh in H. apply enter_rule_b_sound. exact H.
Qed.

Theorem reachable_b_sound t : reachable_b honest_b qdec t = true -> reachable t.
Proof.
  induction t as [|e t IH]; cbn; intros H; [constructor|].
  apply andb_true_iff in H. destruct H as [H1 H2].
  constructor; [apply IH; exact H2|apply ok_b_sound; exact H1].
Qed.

Lemma first_bad_none t : first_bad honest_b qdec t = None -> reachable_b honest_b qdec t = true.
Proof.
  induction t as [|e t IH]; cbn; [reflexivity|].
  destruct (first_bad honest_b qdec t); [discriminate|].
  destruct (ok_b honest_b qdec t e) eqn:E; [|discriminate].
  intros _. cbn. apply IH. reflexivity.
Qed.

End Sound.

(* the weights instance of the quorum decision is sound *)
Lemma qdec_weights_sound weight threshold p s l :
  qdec_weights weight threshold p s l = true ->
  quorum_weights weight threshold p s (fun n => In n l).
Proof.
  unfold qdec_weights, quorum_weights. intros H. apply N.leb_le in H.
  exists (nodup N.eq_dec l). split; [apply NoDup_nodup|]. split; [|exact H].
  intros n Hn. apply nodup_In in Hn. exact Hn.
Qed.
