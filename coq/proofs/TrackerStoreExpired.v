(* C47 lemmas, part 10: ExpiredOnlineAccountsForRound.  The key-value code walks the balance index
   (rounds <= rnd) newest first and keeps, per address, the first row it meets when that row's
   voting data has expired; the abstract store groups by address with max(updround) <= rnd and
   filters.  The two results, ordered by address, are the same list. *)
From Coq Require Import NArith List Bool Lia ZifyN ZifyNat ZifyBool Sorted.
From Verif.lib Require Import Term.
From Verif.model Require Import TrackerStore TrackerStoreCheck.
From Verif.proofs Require Import TrackerStoreKeys TrackerStoreMap TrackerStoreRefine TrackerStoreRanges
  TrackerStoreWrites TrackerStoreQueries TrackerStoreOnlineDelete.
Import ListNotations.
Open Scope N_scope.

(* ---------- sorting by address ---------- *)
Lemma In_ains {V} (x e : bytes * V) l : In x (ains e l) <-> x = e \/ In x l.
Proof.
  induction l as [|y l IH]; cbn; [intuition|]. destruct (bltb (fst e) (fst y)); cbn; rewrite ?IH; intuition.
Qed.
Lemma In_asort {V} (x : bytes * V) l : In x (asort l) <-> In x l.
Proof. induction l as [|y l IH]; cbn; [reflexivity|]. rewrite In_ains, IH. intuition. Qed.

Lemma ksorted_ains {V} (e : bytes * V) l : (forall x, In x l -> fst x <> fst e) -> ksorted l -> ksorted (ains e l).
Proof.
  induction l as [|y l IH]; intros NE S; cbn [ains].
  - constructor; constructor.
  - pose proof S as S0. apply ksorted_inv in S as [S F].
    destruct (bltb (fst e) (fst y)) eqn:Lt.
    + apply bltb_lt in Lt. constructor; [exact S0|]. constructor; [exact Lt|].
      rewrite Forall_forall in F |- *. intros z Iz. exact (klt_trans e y z Lt (F _ Iz)).
    + constructor; [apply IH; [intros x Ix; apply NE; right; exact Ix|exact S]|].
      assert (klt y e) as Lye.
      { unfold klt. unfold bltb in Lt. destruct (bcmp (fst e) (fst y)) eqn:C; try discriminate.
        - apply bcmp_eq in C. exfalso. apply (NE y); [left; reflexivity|]. symmetry. exact C.
        - apply bcmp_gt_lt. exact C. }
      rewrite Forall_forall in F |- *. intros z Iz. apply In_ains in Iz as [->|Iz]; [exact Lye|exact (F _ Iz)].
Qed.
Lemma ksorted_asort {V} (l : list (bytes * V)) : NoDup (map fst l) -> ksorted (asort l).
Proof.
  induction l as [|e l IH]; intros ND; [constructor|]. change (asort (e :: l)) with (ains e (asort l)).
  inversion ND as [|? ? NI ND']; subst.
  apply ksorted_ains; [|apply IH, ND']. intros x Ix E. apply (proj1 (In_asort _ _)) in Ix. apply NI. rewrite <- E. apply in_map. exact Ix.
Qed.
Lemma asort_sorted {V} (l : list (bytes * V)) : ksorted l -> asort l = l.
Proof.
  induction l as [|e l IH]; intros S; [reflexivity|]. apply ksorted_inv in S as [S F].
  change (asort (e :: l)) with (ains e (asort l)). rewrite IH by exact S.
  destruct l as [|y l]; [reflexivity|]. cbn [ains]. rewrite Forall_forall in F.
  assert (klt e y) as Lt by (apply F; left; reflexivity). apply bltb_lt in Lt. rewrite Lt. reflexivity.
Qed.

Lemma NoDup_snoc {A} (l : list A) a : NoDup l -> ~ In a l -> NoDup (l ++ [a]).
Proof.
  induction l as [|x l IH]; intros ND NI; cbn; [constructor; [intros []|constructor]|].
  inversion ND as [|? ? NX ND']; subst. constructor.
  - intros I. apply in_app_or in I as [I|[<-|[]]]; [exact (NX I)|]. apply NI. left. reflexivity.
  - apply IH; [exact ND'|]. intros I. apply NI. right. exact I.
Qed.

(* ---------- the loop ---------- *)
Definition econd (vr : N) (e : bytes * value) : bool := (evl e <? vr) && (0 <? evl e).

Lemma existsb_fst_true {V} (data : list (bytes * V)) a :
  existsb (fun e => beqb (fst e) a) data = true <-> exists d, In d data /\ fst d = a.
Proof.
  rewrite existsb_exists. split; intros (d & I & H); exists d; (split; [exact I|]); apply beqb_eq; exact H.
Qed.
Lemma existsb_fst_false {V} (data : list (bytes * V)) a :
  existsb (fun e => beqb (fst e) a) data = false <-> forall d, In d data -> fst d <> a.
Proof.
  split.
  - intros H d I E. assert (existsb (fun e => beqb (fst e) a) data = true) by (apply existsb_fst_true; eauto). congruence.
  - intros H. destruct (existsb (fun e => beqb (fst e) a) data) eqn:E; [|reflexivity].
    apply existsb_fst_true in E as (d & I & E). elim (H d I E).
Qed.
Lemma existsb_beqb_true a l : existsb (beqb a) l = true <-> In a l.
Proof.
  rewrite existsb_exists. split.
  - intros (x & I & H). apply beqb_eq in H. subst. exact I.
  - intros I. exists a. split; [exact I|]. apply beqb_eq. reflexivity.
Qed.

Lemma exp_loop_spec vr L : forall data expired x,
  In x (kv_expired_loop L vr data expired) <->
  In x data \/ exists L1 e L2, L = L1 ++ e :: L2 /\ x = (eaddr e, snd e) /\ econd vr e = true /\
     (forall e', In e' L1 -> eaddr e' <> eaddr e) /\ (forall d, In d data -> fst d <> eaddr e) /\ ~ In (eaddr e) expired.
Proof.
  induction L as [|[k v] t IH]; intros data expired x; cbn [kv_expired_loop].
  - split; [auto|]. intros [H|(L1 & e & L2 & E & _)]; [exact H|]. destruct L1; discriminate.
  - set (a := extractOnlineAccountBalanceAddress k).
    assert (forall L1 e L2, (k, v) :: t = L1 ++ e :: L2 ->
              (L1 = [] /\ e = (k, v) /\ L2 = t) \/ exists L1', L1 = (k, v) :: L1' /\ t = L1' ++ e :: L2) as Split.
    { intros [|e1 L1] e L2 E; cbn [app] in E; injection E as E1 E2; [left; auto|right; subst; eauto]. }
    destruct (existsb (fun e => beqb (fst e) a) data) eqn:Hd.
    { (* already kept *)
      apply existsb_fst_true in Hd as (d0 & Id0 & Ed0). rewrite IH. split.
      - intros [H|(L1 & e & L2 & E & Ex & C & N1 & N2 & N3)]; [left; exact H|]. right.
        exists ((k, v) :: L1), e, L2. split; [rewrite E; reflexivity|]. repeat split; try assumption.
        intros e' [<-|I]; [|exact (N1 e' I)]. intros Ea. apply (N2 d0 Id0). rewrite Ed0. exact Ea.
      - intros [H|(L1 & e & L2 & E & Ex & C & N1 & N2 & N3)]; [left; exact H|].
        destruct (Split _ _ _ E) as [(-> & -> & ->)|(L1' & -> & ->)].
        + exfalso. exact (N2 d0 Id0 Ed0).
        + right. exists L1', e, L2. repeat split; try assumption. intros e' I. apply N1. right. exact I. }
    destruct (existsb (beqb a) expired) eqn:He.
    { (* already found not expired *)
      apply existsb_beqb_true in He. rewrite IH. split.
      - intros [H|(L1 & e & L2 & E & Ex & C & N1 & N2 & N3)]; [left; exact H|]. right.
        exists ((k, v) :: L1), e, L2. split; [rewrite E; reflexivity|]. repeat split; try assumption.
        intros e' [<-|I]; [|exact (N1 e' I)]. intros Ea. apply N3. rewrite <- Ea. exact He.
      - intros [H|(L1 & e & L2 & E & Ex & C & N1 & N2 & N3)]; [left; exact H|].
        destruct (Split _ _ _ E) as [(-> & -> & ->)|(L1' & -> & ->)].
        + exfalso. exact (N3 He).
        + right. exists L1', e, L2. repeat split; try assumption. intros e' I. apply N1. right. exact I. }
    pose proof (proj1 (existsb_fst_false data a) Hd) as Hd'. clear Hd. rename Hd' into Hd.
    assert (~ In a expired) as He' by (intros I; apply (proj2 (existsb_beqb_true a expired)) in I; congruence).
    change ((nth 0 v 0 <? vr) && (0 <? nth 0 v 0)) with (econd vr (k, v)).
    destruct (econd vr (k, v)) eqn:Hc; cbn [negb].
    { (* expired: kept *)
      rewrite IH. split.
      - intros [H|(L1 & e & L2 & E & Ex & C & N1 & N2 & N3)].
        + apply in_app_or in H as [H|[<-|[]]]; [left; exact H|]. right. exists [], (k, v), t.
          repeat split; try assumption. intros e' [].
        + right. exists ((k, v) :: L1), e, L2. split; [rewrite E; reflexivity|]. repeat split; try assumption.
          * intros e' [<-|I]; [|exact (N1 e' I)]. intros Ea. apply (N2 (a, v)); [apply in_or_app; right; left; reflexivity|exact Ea].
          * intros d I. apply N2. apply in_or_app. left. exact I.
      - intros [H|(L1 & e & L2 & E & Ex & C & N1 & N2 & N3)]; [left; apply in_or_app; left; exact H|].
        destruct (Split _ _ _ E) as [(-> & -> & ->)|(L1' & -> & ->)].
        + left. apply in_or_app. right. left. symmetry. exact Ex.
        + right. exists L1', e, L2. repeat split; try assumption.
          * intros e' I. apply N1. right. exact I.
          * intros d I. apply in_app_or in I as [I|[<-|[]]]; [exact (N2 d I)|]. apply (N1 (k, v)). left. reflexivity. }
    { (* not expired: the address is closed *)
      rewrite IH. split.
      - intros [H|(L1 & e & L2 & E & Ex & C & N1 & N2 & N3)]; [left; exact H|]. right.
        exists ((k, v) :: L1), e, L2. split; [rewrite E; reflexivity|]. repeat split; try assumption.
        + intros e' [<-|I]; [|exact (N1 e' I)]. intros Ea. apply N3. left. exact Ea.
        + intros I. apply N3. right. exact I.
      - intros [H|(L1 & e & L2 & E & Ex & C & N1 & N2 & N3)]; [left; exact H|].
        destruct (Split _ _ _ E) as [(-> & -> & ->)|(L1' & -> & ->)].
        + congruence.
        + right. exists L1', e, L2. repeat split; try assumption.
          * intros e' I. apply N1. right. exact I.
          * intros [Ea|I]; [|exact (N3 I)]. apply (N1 (k, v)); [left; reflexivity|exact Ea]. }
Qed.

Lemma exp_loop_nodup vr L : forall data expired, NoDup (map fst data) ->
  NoDup (map fst (kv_expired_loop L vr data expired)).
Proof.
  induction L as [|[k v] t IH]; intros data expired ND; cbn [kv_expired_loop]; [exact ND|].
  destruct (existsb (fun e => beqb (fst e) (extractOnlineAccountBalanceAddress k)) data) eqn:Hd; [apply IH, ND|].
  destruct (existsb (beqb (extractOnlineAccountBalanceAddress k)) expired); [apply IH, ND|].
  destruct (negb ((nth 0 v 0 <? vr) && (0 <? nth 0 v 0))); apply IH; [exact ND|].
  rewrite map_app. cbn [map fst]. apply NoDup_snoc; [exact ND|].
  intros I. apply in_map_iff in I as (d & E & I). exact (proj1 (existsb_fst_false data _) Hd d I E).
Qed.

(* ---------- generic list facts ---------- *)
Lemma SSorted_map_inv {A B} (R : B -> B -> Prop) (g : A -> B) l :
  StronglySorted R (map g l) -> StronglySorted (fun x y => R (g x) (g y)) l.
Proof.
  induction l as [|x l IH]; intros S; [constructor|]. cbn [map] in S. inversion S as [|? ? S' F]; subst.
  constructor; [apply IH, S'|]. rewrite Forall_forall in *. intros y I. apply F, in_map, I.
Qed.
Lemma SSorted_filter {A} (R : A -> A -> Prop) f l : StronglySorted R l -> StronglySorted R (filter f l).
Proof.
  induction l as [|x l IH]; intros S; cbn; [constructor|]. inversion S as [|? ? S' F]; subst.
  destruct (f x); [|apply IH, S']. constructor; [apply IH, S'|]. rewrite Forall_forall in *. intros y I.
  apply filter_In in I as [I _]. exact (F _ I).
Qed.
Lemma SSorted_map_In {A B} (R1 : A -> A -> Prop) (R2 : B -> B -> Prop) (g : A -> B) l :
  (forall x y, In x l -> In y l -> R1 x y -> R2 (g x) (g y)) -> StronglySorted R1 l -> StronglySorted R2 (map g l).
Proof.
  induction l as [|x l IH]; intros H S; cbn; [constructor|]. inversion S as [|? ? S' F]; subst.
  constructor.
  - apply IH; [|exact S']. intros a b Ia Ib. apply H; right; assumption.
  - rewrite Forall_forall in *. intros y I. apply in_map_iff in I as (z & <- & I). apply H; [left; reflexivity|right; exact I|exact (F _ I)].
Qed.

Section Expired.
Variables (s : spec) (kv : kvs) (rnd vr : N).
Hypothesis HR : R s kv.
Hypothesis Vrnd : u64 rnd = true.

Let lo := fst (onlineAccountBalanceForRoundRangePrefix rnd).
Let hi := snd (onlineAccountBalanceForRoundRangePrefix rnd).
Let L := rev (kv_range kv lo (Some hi)).

Lemma XL_In e : In e L <-> exists a r v0, e = bal_entry a r v0 /\ In (KOnl a r, v0) s /\ r <= rnd.
Proof.
  assert (forall k, valid_key k = true -> in_range lo (Some hi) (enc k) = is_bal k && (bal_round k <=? rnd)) as Hrg
    by (intros k Vk; apply range_bal_upto; assumption).
  unfold L. rewrite <- in_rev, kv_range_In. destruct HR as ((ND & W) & S & M). destruct e as [kb d]. cbn [fst]. split.
  - intros [J Rg]. apply M in J as (k & J & ->).
    pose proof (sview_valid s k d W J) as Vk. rewrite Hrg in Rg by assumption.
    destruct k; try discriminate. cbn [is_bal bal_round andb] in Rg. apply N.leb_le in Rg.
    apply sview_In_bal in J as (v0 & J & -> & ->); [|exact W]. exists a, r, v0. auto.
  - intros (a & r & v0 & E & J & Le). unfold bal_entry in E. injection E as -> ->. split.
    + apply M. exists (KBal r (nth 0 v0 0) a). split; [|reflexivity]. apply sview_In_bal; [exact W|]. exists v0. auto.
    + change (onlineAccountBalanceKey r (nth 0 v0 0) a) with (enc (KBal r (nth 0 v0 0) a)).
      rewrite Hrg by exact (proj2 (row_valid s kv HR a r v0 J)).
      cbn [is_bal bal_round andb]. apply N.leb_le. exact Le.
Qed.

Lemma XL_sorted : ksorted (rev L).
Proof. unfold L. rewrite rev_involutive. apply kv_range_sorted. exact (proj1 (proj2 HR)). Qed.

Lemma XL_before L1 e L2 e' : L = L1 ++ e :: L2 -> (In e' L1 <-> In e' L /\ klt e e').
Proof.
  intros E. pose proof XL_sorted as S. rewrite E in S. rewrite rev_app_distr in S. cbn [rev] in S. rewrite <- app_assoc in S.
  apply ksorted_app_inv in S as (S2 & S1 & C). cbn [app] in S1. apply ksorted_inv in S1 as [S1 F]. rewrite Forall_forall in F.
  split.
  - intros J. split; [rewrite E; apply in_or_app; left; exact J|]. apply F. apply -> in_rev. exact J.
  - intros [J Lt]. rewrite E in J. apply in_app_or in J as [J|[<-|J]]; [exact J| |].
    + elim (klt_irrefl _ Lt).
    + exfalso. apply (klt_asym _ _ Lt). apply C; [apply -> in_rev; exact J|left; reflexivity].
Qed.

(* "newest row of its address among rounds <= rnd" *)
Lemma is_latest_spec a r v0 : In (KOnl a r, v0) s ->
  (is_latest_upto s rnd (KOnl a r, v0) = true <->
   r <= rnd /\ forall r' v', In (KOnl a r', v') s -> r' <= rnd -> r' <= r).
Proof.
  intros J. unfold is_latest_upto. cbn [fst]. rewrite andb_true_iff, negb_true_iff, N.leb_le. split.
  - intros [Le H]. split; [exact Le|]. intros r' v' J' Le'.
    destruct (N.lt_ge_cases r r') as [Lt|Ge]; [|exact Ge]. exfalso.
    assert (existsb (fun e' => match fst e' with KOnl a' r'0 => beqb a a' && (r <? r'0) && (r'0 <=? rnd) | _ => false end) s = true) as X.
    { apply existsb_exists. exists (KOnl a r', v'). split; [exact J'|]. cbn [fst]. unfold beqb. rewrite bcmp_refl. cbn [andb].
      apply andb_true_iff. split; [apply N.ltb_lt; exact Lt|apply N.leb_le; exact Le']. }
    congruence.
  - intros [Le H]. split; [exact Le|].
    destruct (existsb _ s) eqn:X; [|reflexivity]. exfalso.
    apply existsb_exists in X as ([k' v'] & J' & X). cbn [fst] in X. destruct k'; try discriminate.
    apply andb_true_iff in X as [X Le']. apply andb_true_iff in X as [Ea Lt]. apply beqb_eq in Ea. subst a0.
    apply N.ltb_lt in Lt. apply N.leb_le in Le'. specialize (H r0 v' J' Le'). lia.
Qed.

Definition kvres : list (bytes * value) := kv_expired_loop L vr [] [].
Definition specres : list (bytes * value) := spec_expired_online_accounts s rnd vr.

Lemma kvres_In a d : In (a, d) kvres <->
  exists r v0, In (KOnl a r, v0) s /\ is_latest_upto s rnd (KOnl a r, v0) = true /\ d = tl v0 /\
               (onl_votelast v0 <? vr) && (0 <? onl_votelast v0) = true.
Proof.
  unfold kvres. rewrite exp_loop_spec. split.
  - intros [[]|(L1 & e & L2 & E & Ex & C & N1 & _ & _)].
    assert (In e L) as Je by (rewrite E; apply in_or_app; right; left; reflexivity).
    apply XL_In in Je as (a1 & r1 & v1 & -> & J1 & Le1).
    destruct (bal_entry_fields s kv HR a1 r1 v1 J1) as (Fa1 & Fr1 & Fv1).
    rewrite Fa1 in Ex. cbn [bal_entry snd] in Ex. injection Ex as -> ->.
    exists r1, v1. split; [exact J1|]. split; [|split; [reflexivity|]].
    + apply (is_latest_spec a1 r1 v1 J1). split; [exact Le1|]. intros r' v' J' Le'.
      destruct (N.lt_ge_cases r1 r') as [Lt|Ge]; [|exact Ge]. exfalso.
      apply (N1 (bal_entry a1 r' v')).
      * apply (XL_before L1 _ L2 _ E). split; [apply XL_In; exists a1, r', v'; auto|].
        apply (klt_bal s kv rnd HR Vrnd a1 r1 v1 r' v' J1 J'). exact Lt.
      * destruct (bal_entry_fields s kv HR a1 r' v' J') as (Fa' & _). rewrite Fa', Fa1. reflexivity.
    + unfold econd in C. rewrite Fv1 in C. exact C.
  - intros (r & v0 & J & Lat & -> & C). right.
    apply (is_latest_spec a r v0 J) in Lat as [Le Max].
    assert (In (bal_entry a r v0) L) as Je by (apply XL_In; exists a, r, v0; auto).
    destruct (in_split _ _ Je) as (L1 & L2 & E). exists L1, (bal_entry a r v0), L2.
    destruct (bal_entry_fields s kv HR a r v0 J) as (Fa & Fr & Fv).
    split; [exact E|]. split; [rewrite Fa; reflexivity|]. split; [unfold econd; rewrite Fv; exact C|].
    split; [|split; [intros d []|intros []]].
    intros e' Je' Ea. apply (XL_before L1 _ L2 e' E) in Je' as [Je' Lt].
    apply XL_In in Je' as (a2 & r2 & v2 & -> & J2 & Le2).
    destruct (bal_entry_fields s kv HR a2 r2 v2 J2) as (Fa2 & _). rewrite Fa2, Fa in Ea. subst a2.
    apply (klt_bal s kv rnd HR Vrnd a r v0 r2 v2 J J2) in Lt. specialize (Max r2 v2 J2 Le2). lia.
Qed.

Lemma specres_In a d : In (a, d) specres <->
  exists r v0, In (KOnl a r, v0) s /\ is_latest_upto s rnd (KOnl a r, v0) = true /\ d = tl v0 /\
               (onl_votelast v0 <? vr) && (0 <? onl_votelast v0) = true.
Proof.
  unfold specres, spec_expired_online_accounts, spec_latest_rows. rewrite in_map_iff. split.
  - intros ([k v0] & E & J). apply filter_In in J as [J C]. apply (proj1 (In_ssort _ _)) in J. apply filter_In in J as [J Lat].
    cbn [fst snd] in *. destruct k; try discriminate. cbn [onl_addr] in E. injection E as <- <-.
    exists r, v0. auto.
  - intros (r & v0 & J & Lat & -> & C). exists (KOnl a r, v0). split; [reflexivity|].
    apply filter_In. split; [|exact C]. apply In_ssort, filter_In. split; assumption.
Qed.

Lemma specres_sorted : ksorted specres.
Proof.
  unfold specres, spec_expired_online_accounts, spec_latest_rows.
  set (rows := filter (is_latest_upto s rnd) s).
  assert (ksorted (map encV (ssort rows))) as S.
  { apply ksorted_ssort.
    - pose proof (wf_valid s (proj1 HR)) as V. rewrite Forall_forall in V |- *. intros x I. apply filter_In in I as [I _]. exact (V _ I).
    - apply map_fst_filter. exact (proj1 (proj1 HR)). }
  apply SSorted_map_inv in S. apply (SSorted_filter _ (fun e => (onl_votelast (snd e) <? vr) && (0 <? onl_votelast (snd e)))) in S.
  eapply SSorted_map_In; [|exact S]. intros [k1 v1] [k2 v2] I1 I2 HLt.
  apply filter_In in I1 as [I1 _]. apply filter_In in I2 as [I2 _].
  apply (proj1 (In_ssort _ _)) in I1. apply filter_In in I1 as [J1 L1]. apply (proj1 (In_ssort _ _)) in I2. apply filter_In in I2 as [J2 L2].
  pose proof (wf_valid s (proj1 HR)) as V. rewrite Forall_forall in V.
  pose proof (V _ J1) as V1. pose proof (V _ J2) as V2. cbn [fst] in V1, V2.
  unfold klt, encV in HLt. cbn [fst] in HLt. rewrite enc_order in HLt by assumption.
  destruct k1; try discriminate. destruct k2; try discriminate. cbn [skey_cmp] in HLt.
  unfold klt. cbn [fst onl_addr]. destruct (bcmp a a0) eqn:C; cbn [lexc] in HLt; [|reflexivity|discriminate].
  exfalso. apply bcmp_eq in C. subst a0. rewrite N.compare_lt_iff in HLt.
  apply (is_latest_spec a r v1 J1) in L1 as [_ Max1]. apply (is_latest_spec a r0 v2 J2) in L2 as [Le2 _].
  specialize (Max1 r0 v2 J2 Le2). lia.
Qed.

Theorem expired_refines :
  o_exp (kv_expired_online_accounts kv rnd vr) = o_exp (spec_expired_online_accounts s rnd vr).
Proof.
  unfold o_exp.
  change (kv_expired_online_accounts kv rnd vr) with kvres. change (spec_expired_online_accounts s rnd vr) with specres.
  rewrite (asort_sorted specres specres_sorted).
  assert (asort kvres = specres) as ->; [|reflexivity].
  apply ksorted_unique.
  - apply ksorted_asort. apply exp_loop_nodup. constructor.
  - exact specres_sorted.
  - intros [a d]. rewrite In_asort, kvres_In, specres_In. reflexivity.
Qed.
End Expired.
