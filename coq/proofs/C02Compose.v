(* C02: composition of attest-once (AgreementAttestOnce) with crash_nonequiv (DurableFineProofs) for
   the agreement model: the model wrapped in the fine-grained persist-before-release wrapper never
   releases two different values for one (sender, round, period, step) with step = soft or next_k,
   for EVERY interleaving of events, writes, failed writes, checkpoint deliveries and crashes.
   The machine is C02Check.mstep guarded by the (decidable) trace premises of attest-once: an event
   that violates them (uint64 wrap-around, backward round interruption, payload of another round) or
   on which the model panics stops the machine. *)
From Coq Require Import NArith List Bool Lia.
Import ListNotations.
From Verif.model Require Import AgreementTypes AgreementVotes AgreementProposals AgreementPlayer
     Durable DurableFine C02Check.
From Verif.proofs Require Import AgreementLemmas AgreementC03Proofs AgreementAttestOnce DurableProofs DurableFineProofs.
Open Scope N_scope.

Definition gstep (pm : params) (own : list N) (ms : mstate) (e : ext_event) : mstate * list cvote :=
  match ms with
  | None => (None, [])
  | Some st => if ev_ok2_b st e then mstep pm own (Some st) e else (None, [])
  end.

(* the prefix of an event list that the guarded machine accepts *)
Fixpoint gaccept (pm : params) (st : state) (evs : list ext_event) : list ext_event :=
  match evs with
  | [] => []
  | e :: t =>
      if ev_ok2_b st e then
        match step pm st e with
        | Ok (st', _) => e :: gaccept pm st' t
        | _ => []
        end
      else []
  end.

Lemma gaccept_ok pm : forall evs st, trace_ok2_b pm st (gaccept pm st evs) = true.
Proof.
  induction evs as [|e t IH]; intros st; cbn [gaccept]; [reflexivity|].
  destruct (ev_ok2_b st e) eqn:E; [|reflexivity].
  destruct (step pm st e) as [[st' acts]| |] eqn:ES; try reflexivity.
  cbn [trace_ok2_b]. rewrite E, ES. cbn. apply IH.
Qed.

Lemma all_acts_cons pm st e es st' acts :
  step pm st e = Ok (st', acts) -> all_acts pm st (e :: es) = acts ++ all_acts pm st' es.
Proof.
  intros ES. unfold all_acts. cbn [run]. rewrite ES. destruct (run pm st' es) as [l o]. reflexivity.
Qed.

Lemma attest_votes_app own a b : attest_votes own (a ++ b) = attest_votes own a ++ attest_votes own b.
Proof. unfold attest_votes. apply flat_map_app. Qed.

Lemma run_votes_dead pm own evs :
  Durable.run_votes mstate ext_event cvote (gstep pm own) None evs = [].
Proof. induction evs as [|e t IH]; cbn; [reflexivity|exact IH]. Qed.

Lemma run_votes_gstep pm own : forall evs st,
  Durable.run_votes mstate ext_event cvote (gstep pm own) (Some st) evs
  = attest_votes own (all_acts pm st (gaccept pm st evs)).
Proof.
  induction evs as [|e t IH]; intros st; cbn [Durable.run_votes gaccept]; [reflexivity|].
  cbn [gstep]. destruct (ev_ok2_b st e) eqn:E; [|cbn; apply run_votes_dead].
  cbn [mstep]. destruct (step pm st e) as [[st' acts]| |] eqn:ES; cbn [fst snd];
    try (cbn; apply run_votes_dead).
  rewrite (all_acts_cons pm st e _ st' acts ES), attest_votes_app, IH. reflexivity.
Qed.

Lemma in_attest_votes own acts v :
  In v (attest_votes own acts) -> In (AAttest (cv_rnd v) (cv_per v) (cv_step v) (cv_val v)) acts.
Proof.
  unfold attest_votes. intros H. apply in_flat_map in H. destruct H as [a [Ha Hv]].
  destruct a; try contradiction. apply in_map_iff in Hv. destruct Hv as [snd [<- _]]. exact Ha.
Qed.

Definition cv_conflict_tracked (a b : cvote) : Prop :=
  cv_snd a = cv_snd b /\ cv_rnd a = cv_rnd b /\ cv_per a = cv_per b /\ cv_step a = cv_step b /\
  tracked (cv_step a) = true /\ cv_val a <> cv_val b.

(* single runs of the guarded agreement machine never attest two conflicting soft / next_k votes *)
Lemma gstep_attest_once pm own r0 : params_pos pm ->
  forall evs v1 v2,
    In v1 (Durable.run_votes mstate ext_event cvote (gstep pm own) (Some (init pm r0)) evs) ->
    In v2 (Durable.run_votes mstate ext_event cvote (gstep pm own) (Some (init pm r0)) evs) ->
    ~ cv_conflict_tracked v1 v2.
Proof.
  intros Hpp evs v1 v2 H1 H2 (_ & ER & EP & ES & T & NE).
  rewrite run_votes_gstep in H1, H2. apply in_attest_votes in H1. apply in_attest_votes in H2.
  rewrite <- ER, <- EP, <- ES in H2.
  apply NE. eapply (attest_once_soft_next_proof pm r0 (gaccept pm (init pm r0) evs) Hpp); [|exact T|exact H1|exact H2].
  apply trace_ok2_b_sound. apply gaccept_ok.
Qed.

(* the composed statement *)
Theorem model_nonequiv_soft_next pm own r0 (restore : mstate -> mstate) (eqv : mstate -> mstate -> Prop) :
  params_pos pm ->
  (forall s, eqv s s) -> (forall a b c, eqv a b -> eqv b c -> eqv a c) ->
  (forall s s' e, eqv s s' -> snd (gstep pm own s e) = snd (gstep pm own s' e) /\
                              eqv (fst (gstep pm own s e)) (fst (gstep pm own s' e))) ->
  (forall s, eqv (restore s) s) ->
  forall ops v1 v2,
    In v1 (f_released mstate ext_event cvote (frun mstate ext_event cvote (Some (init pm r0)) (gstep pm own) restore ops)) ->
    In v2 (f_released mstate ext_event cvote (frun mstate ext_event cvote (Some (init pm r0)) (gstep pm own) restore ops)) ->
    ~ cv_conflict_tracked v1 v2.
Proof.
  intros Hpp R T S Re ops v1 v2 H1 H2.
  eapply (fine_crash_nonequiv mstate ext_event cvote (Some (init pm r0)) (gstep pm own) restore eqv R T S Re
            cv_conflict_tracked); [|exact H1|exact H2].
  apply gstep_attest_once. exact Hpp.
Qed.
