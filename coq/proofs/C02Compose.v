(* C02: composition of attest-once (AgreementAttestOnce) with crash_nonequiv (DurableFineProofs) for
   the agreement model: the model wrapped in the fine-grained persist-before-release wrapper never
   releases two different values for one (sender, round, period, step) with step = soft or next_k,
   for EVERY interleaving of events, writes, failed writes, checkpoint deliveries and crashes.
   The machine is C02Check.mstep guarded by the (decidable) trace premises of attest-once: an event
   that violates them (uint64 wrap-around, backward round interruption, payload of another round) or
   on which the model panics stops the machine. *)
From Coq Require Import NArith List Bool Lia.
Import ListNotations.
From Verif.model Require Import AgreementTypes AgreementVotes AgreementProposals AgreementPlayer
     Durable DurableFine C02Check.
From Verif.proofs Require Import AgreementLemmas AgreementC03Proofs AgreementAttestOnce AgreementStaging DurableProofs DurableFineProofs.
Open Scope N_scope.

Definition gstep (pm : params) (own : list N) (ms : mstate) (e : ext_event) : mstate * list cvote :=
  match ms with
  | None => (None, [])
  | Some st => if ev_ok2_b st e then mstep pm own (Some st) e else (None, [])
  end.

(* the prefix of an event list that the guarded machine accepts *)
Fixpoint gaccept (pm : params) (st : state) (evs : list ext_event) : list ext_event :=
  match evs with
  | [] => []
  | e :: t =>
      if ev_ok2_b st e then
        match step pm st e with
        | Ok (st', _) => e :: gaccept pm st' t
        | _ => []
        end
      else []
  end.

Lemma gaccept_ok pm : forall evs st, trace_ok2_b pm st (gaccept pm st evs) = true.
Proof.
  induction evs as [|e t IH]; intros st; cbn [gaccept]; [reflexivity|].
  destruct (ev_ok2_b st e) eqn:E; [|reflexivity].
  destruct (step pm st e) as [[st' acts]| |] eqn:ES; try reflexivity.
  cbn [trace_ok2_b]. rewrite E, ES. cbn. apply IH.
Qed.

Lemma all_acts_cons pm st e es st' acts :
  step pm st e = Ok (st', acts) -> all_acts pm st (e :: es) = acts ++ all_acts pm st' es.
Proof.
  intros ES. unfold all_acts. cbn [run]. rewrite ES. destruct (run pm st' es) as [l o]. reflexivity.
Qed.

Lemma attest_votes_app own a b : attest_votes own (a ++ b) = attest_votes own a ++ attest_votes own b.
Proof. unfold attest_votes. apply flat_map_app. Qed.

Lemma run_votes_dead pm own evs :
  Durable.run_votes mstate ext_event cvote (gstep pm own) None evs = [].
Proof. induction evs as [|e t IH]; cbn; [reflexivity|exact IH]. Qed.

Lemma run_votes_gstep pm own : forall evs st,
  Durable.run_votes mstate ext_event cvote (gstep pm own) (Some st) evs
  = attest_votes own (all_acts pm st (gaccept pm st evs)).
Proof.
  induction evs as [|e t IH]; intros st; cbn [Durable.run_votes gaccept]; [reflexivity|].
  cbn [gstep]. destruct (ev_ok2_b st e) eqn:E; [|cbn; apply run_votes_dead].
  cbn [mstep]. destruct (step pm st e) as [[st' acts]| |] eqn:ES; cbn [fst snd];
    try (cbn; apply run_votes_dead).
  rewrite (all_acts_cons pm st e _ st' acts ES), attest_votes_app, IH. reflexivity.
Qed.

Lemma in_attest_votes own acts v :
  In v (attest_votes own acts) -> In (AAttest (cv_rnd v) (cv_per v) (cv_step v) (cv_val v)) acts.
Proof.
  unfold attest_votes. intros H. apply in_flat_map in H. destruct H as [a [Ha Hv]].
  destruct a; try contradiction. apply in_map_iff in Hv. destruct Hv as [snd [<- _]]. exact Ha.
Qed.

Definition cv_conflict_tracked (a b : cvote) : Prop :=
  cv_snd a = cv_snd b /\ cv_rnd a = cv_rnd b /\ cv_per a = cv_per b /\ cv_step a = cv_step b /\
  tracked (cv_step a) = true /\ cv_val a <> cv_val b.

(* single runs of the guarded agreement machine never attest two conflicting soft / next_k votes *)
Lemma gstep_attest_once pm own r0 : params_pos pm ->
  forall evs v1 v2,
    In v1 (Durable.run_votes mstate ext_event cvote (gstep pm own) (Some (init pm r0)) evs) ->
    In v2 (Durable.run_votes mstate ext_event cvote (gstep pm own) (Some (init pm r0)) evs) ->
    ~ cv_conflict_tracked v1 v2.
Proof.
  intros Hpp evs v1 v2 H1 H2 (_ & ER & EP & ES & T & NE).
  rewrite run_votes_gstep in H1, H2. apply in_attest_votes in H1. apply in_attest_votes in H2.
  rewrite <- ER, <- EP, <- ES in H2.
  apply NE. eapply (attest_once_soft_next_proof pm r0 (gaccept pm (init pm r0) evs) Hpp); [|exact T|exact H1|exact H2].
  apply trace_ok2_b_sound. apply gaccept_ok.
Qed.

(* the composed statement *)
Theorem model_nonequiv_soft_next pm own r0 (restore : mstate -> mstate) (eqv : mstate -> mstate -> Prop) :
  params_pos pm ->
  (forall s, eqv s s) -> (forall a b c, eqv a b -> eqv b c -> eqv a c) ->
  (forall s s' e, eqv s s' -> snd (gstep pm own s e) = snd (gstep pm own s' e) /\
                              eqv (fst (gstep pm own s e)) (fst (gstep pm own s' e))) ->
  (forall s, eqv (restore s) s) ->
  forall ops v1 v2,
    In v1 (f_released mstate ext_event cvote (frun mstate ext_event cvote (Some (init pm r0)) (gstep pm own) restore ops)) ->
    In v2 (f_released mstate ext_event cvote (frun mstate ext_event cvote (Some (init pm r0)) (gstep pm own) restore ops)) ->
    ~ cv_conflict_tracked v1 v2.
Proof.
  intros Hpp R T S Re ops v1 v2 H1 H2.
  eapply (fine_crash_nonequiv mstate ext_event cvote (Some (init pm r0)) (gstep pm own) restore eqv R T S Re
            cv_conflict_tracked); [|exact H1|exact H2].
  apply gstep_attest_once. exact Hpp.
Qed.

(* ---------- all step kinds ---------- *)
(* The guard additionally checks the step bound (no next vote at steps 253..255) and value-consistency
   of the thresholds backed by the votes delivered so far, through ANY sound decidable checker
   [cons_b] (e.g. "all delivered votes carry one value": [single_value_b]). *)
Definition g3state : Type := option (state * list vote).

Definition gstep3 (pm : params) (own : list N) (cons_b : list vote -> bool) (ms : g3state) (e : ext_event)
  : g3state * list cvote :=
  match ms with
  | None => (None, [])
  | Some (st, D) =>
      let D' := D ++ ev_delivered e in
      if ev_ok3_b st e && cons_b D' then
        match step pm st e with
        | Ok (st', acts) => (Some (st', D'), attest_votes own acts)
        | _ => (None, [])
        end
      else (None, [])
  end.

Fixpoint gaccept3 (pm : params) (cons_b : list vote -> bool) (st : state) (D : list vote) (evs : list ext_event)
  : list ext_event :=
  match evs with
  | [] => []
  | e :: t =>
      let D' := D ++ ev_delivered e in
      if ev_ok3_b st e && cons_b D' then
        match step pm st e with
        | Ok (st', _) => e :: gaccept3 pm cons_b st' D' t
        | _ => []
        end
      else []
  end.

Lemma gaccept3_ok pm cons_b : forall evs st D, trace_ok3_b pm st (gaccept3 pm cons_b st D evs) = true.
Proof.
  induction evs as [|e t IH]; intros st D; cbn [gaccept3]; [reflexivity|].
  destruct (ev_ok3_b st e) eqn:E; [|reflexivity]. destruct (cons_b (D ++ ev_delivered e)); [|reflexivity]. cbn [andb].
  destruct (step pm st e) as [[st' acts]| |] eqn:ES; try reflexivity.
  cbn [trace_ok3_b]. rewrite E, ES. cbn. apply IH.
Qed.

Lemma gaccept3_cons pm cons_b : forall evs st D,
  gaccept3 pm cons_b st D evs <> [] -> cons_b (D ++ delivered (gaccept3 pm cons_b st D evs)) = true.
Proof.
  induction evs as [|e t IH]; intros st D NE; cbn [gaccept3] in *; [contradiction|].
  destruct (ev_ok3_b st e); [|contradiction]. destruct (cons_b (D ++ ev_delivered e)) eqn:EC; [|contradiction].
  cbn [andb] in *. destruct (step pm st e) as [[st' acts]| |]; try contradiction.
  unfold delivered. cbn [flat_map]. rewrite app_assoc.
  destruct (gaccept3 pm cons_b st' (D ++ ev_delivered e) t) as [|e' t'] eqn:EG.
  - cbn. rewrite app_nil_r. exact EC.
  - rewrite <- EG. apply (IH st' (D ++ ev_delivered e)). rewrite EG. discriminate.
Qed.

Lemma run_votes_dead3 pm own cons_b evs :
  Durable.run_votes g3state ext_event cvote (gstep3 pm own cons_b) None evs = [].
Proof. induction evs as [|e t IH]; cbn; [reflexivity|exact IH]. Qed.

Lemma run_votes_gstep3 pm own cons_b : forall evs st D,
  Durable.run_votes g3state ext_event cvote (gstep3 pm own cons_b) (Some (st, D)) evs
  = attest_votes own (all_acts pm st (gaccept3 pm cons_b st D evs)).
Proof.
  induction evs as [|e t IH]; intros st D; cbn [Durable.run_votes gaccept3]; [reflexivity|].
  cbn [gstep3]. destruct (ev_ok3_b st e && cons_b (D ++ ev_delivered e)) eqn:E; [|cbn; apply run_votes_dead3].
  destruct (step pm st e) as [[st' acts]| |] eqn:ES; cbn [fst snd];
    try (cbn; apply run_votes_dead3).
  rewrite (all_acts_cons pm st e _ st' acts ES), attest_votes_app, IH. reflexivity.
Qed.

Definition cv_conflict_any (a b : cvote) : Prop :=
  cv_snd a = cv_snd b /\ cv_rnd a = cv_rnd b /\ cv_per a = cv_per b /\ cv_step a = cv_step b /\ cv_val a <> cv_val b.

Lemma gstep3_attest_once pm own cons_b r0 :
  params_pos pm -> 0 < r0 -> (forall D, cons_b D = true -> cons_sc pm D /\ cons_next pm D) ->
  forall evs v1 v2,
    In v1 (Durable.run_votes g3state ext_event cvote (gstep3 pm own cons_b) (Some (init pm r0, [])) evs) ->
    In v2 (Durable.run_votes g3state ext_event cvote (gstep3 pm own cons_b) (Some (init pm r0, [])) evs) ->
    ~ cv_conflict_any v1 v2.
Proof.
  intros Hpp R0 CB evs v1 v2 H1 H2 (_ & ER & EP & ES & NE).
  rewrite run_votes_gstep3 in H1, H2. apply in_attest_votes in H1. apply in_attest_votes in H2.
  rewrite <- ER, <- EP, <- ES in H2.
  set (es := gaccept3 pm cons_b (init pm r0) [] evs) in *.
  assert (NN : es <> []).
  { intros E. rewrite E in H1. cbn in H1. exact H1. }
  destruct (CB _ (gaccept3_cons pm cons_b evs (init pm r0) [] NN)) as [CS CN]. cbn [app] in CS, CN. fold es in CS, CN.
  apply NE. eapply (attest_once_all_proof pm r0 es Hpp R0); [|exact CS|exact CN|exact H1|exact H2].
  apply trace_ok3_b_sound. apply gaccept3_ok.
Qed.

Theorem model_nonequiv_all pm own cons_b r0 (restore : g3state -> g3state) (eqv : g3state -> g3state -> Prop) :
  params_pos pm -> 0 < r0 -> (forall D, cons_b D = true -> cons_sc pm D /\ cons_next pm D) ->
  (forall s, eqv s s) -> (forall a b c, eqv a b -> eqv b c -> eqv a c) ->
  (forall s s' e, eqv s s' -> snd (gstep3 pm own cons_b s e) = snd (gstep3 pm own cons_b s' e) /\
                              eqv (fst (gstep3 pm own cons_b s e)) (fst (gstep3 pm own cons_b s' e))) ->
  (forall s, eqv (restore s) s) ->
  forall ops v1 v2,
    In v1 (f_released g3state ext_event cvote (frun g3state ext_event cvote (Some (init pm r0, [])) (gstep3 pm own cons_b) restore ops)) ->
    In v2 (f_released g3state ext_event cvote (frun g3state ext_event cvote (Some (init pm r0, [])) (gstep3 pm own cons_b) restore ops)) ->
    ~ cv_conflict_any v1 v2.
Proof.
  intros Hpp R0 CB R T S Re ops v1 v2 H1 H2.
  eapply (fine_crash_nonequiv g3state ext_event cvote (Some (init pm r0, [])) (gstep3 pm own cons_b) restore eqv R T S Re
            cv_conflict_any); [|exact H1|exact H2].
  apply gstep3_attest_once; assumption.
Qed.

(* a sound checker exists: all delivered votes carry one value *)
Definition single_value_b (v0 : value) (D : list vote) : bool := forallb (fun x => value_eqb (vt_val x) v0) D.
Lemma single_value_b_sound pm v0 : params_pos pm ->
  forall D, single_value_b v0 D = true -> cons_sc pm D /\ cons_next pm D.
Proof.
  intros Hpp D H. apply (cons_single_value pm D v0 Hpp). intros x Hx.
  unfold single_value_b in H. rewrite forallb_forall in H. apply value_eqb_eq. apply H. exact Hx.
Qed.
