(* Agreement proofs -- C07, part 2: relational infrastructure.  Two runs of the same code from states
   that agree on everything the persistence round trip keeps (same player; for rounds >= the player's
   round the same stores, freshest bundles, vote trackers, next-threshold caches and proposal trackers
   up to the late-credential fields; arbitrary older rounds). *)
From Coq Require Import NArith List Bool Lia ZifyN ZifyNat ZifyBool String.
Import ListNotations.
From Verif.model Require Import AgreementTypes AgreementVotes AgreementProposals AgreementPlayer AgreementPersist.
From Verif.proofs Require Import AgreementLemmas.
Open Scope N_scope.

(* ---------- related results ---------- *)
(* strict = true: both runs succeed with related values or fail in the same way;
   strict = false: nothing is claimed when either run panics / runs out of fuel *)
Definition rq {A B} (strict : bool) (R : A -> B -> Prop) (x : res A) (y : res B) : Prop :=
  match x, y with
  | Ok a, Ok b => R a b
  | Panic _, Panic _ => True
  | OutOfFuel, OutOfFuel => True
  | _, _ => strict = false
  end.

Lemma rq_bind : forall k A B A' B' (R : A -> A' -> Prop) (S : B -> B' -> Prop)
  (x : res A) (y : res A') (f : A -> res B) (g : A' -> res B'),
  rq k R x y -> (forall a b, R a b -> rq k S (f a) (g b)) -> rq k S (bind x f) (bind y g).
Proof.
  intros k A B A' B' R S [a|t|] [b|t'|] f g H HF; simpl in *; auto; subst;
    try (destruct (g b); simpl; auto); try (destruct (f a); simpl; auto).
Qed.
Lemma rq_ok : forall k A B (R : A -> B -> Prop) a b, R a b -> rq k R (Ok a) (Ok b).
Proof. intros; exact H. Qed.
Lemma rq_panic : forall k A B (R : A -> B -> Prop) t t', rq k R (Panic t) (Panic t').
Proof. intros; exact I. Qed.
Lemma rq_mono : forall k A B (R S : A -> B -> Prop) x y, rq k R x y -> (forall a b, R a b -> S a b) -> rq k S x y.
Proof. intros k A B R S [a|t|] [b|t'|] H HI; simpl in *; auto. Qed.
Lemma rq_weaken : forall k A B (R : A -> B -> Prop) x y, rq k R x y -> rq false R x y.
Proof. intros k A B R [a|t|] [b|t'|] H; simpl in *; auto. Qed.
Lemma rq_refl : forall k A (R : A -> A -> Prop) (x : res A), (forall a, R a a) -> rq k R x x.
Proof. intros k A R [a|t|] H; simpl; auto. Qed.
Lemma rq_wp_l : forall k A B (R : A -> B -> Prop) (P : A -> Prop) x y,
  wp x P -> rq k R x y -> rq k (fun a b => P a /\ R a b) x y.
Proof. intros k A B R P [a|t|] [b|t'|] W H; simpl in *; auto. Qed.
Lemma rq_wp_r : forall k A B (R : A -> B -> Prop) (P : B -> Prop) x y,
  wp y P -> rq k R x y -> rq k (fun a b => P b /\ R a b) x y.
Proof. intros k A B R P [a|t|] [b|t'|] W H; simpl in *; auto. Qed.
Lemma rq_if : forall k A B (R : A -> B -> Prop) (c : bool) x1 x2 y1 y2,
  (c = true -> rq k R x1 y1) -> (c = false -> rq k R x2 y2) ->
  rq k R (if c then x1 else x2) (if c then y1 else y2).
Proof. intros k A B R [] x1 x2 y1 y2 H1 H2; auto. Qed.

(* ---------- the relations ---------- *)
Definition sk_rel (a b : seeker) : Prop :=
  sk_lowest a = sk_lowest b /\ sk_filled a = sk_filled b /\ sk_frozen a = sk_frozen b.
Definition pt_rel (a b : ptracker) : Prop :=
  pt_dup a = pt_dup b /\ sk_rel (pt_freezer a) (pt_freezer b) /\ pt_staging a = pt_staging b /\
  pc_one a = pc_one b /\ pc_froze a = pc_froze b /\ pc_soft a = pc_soft b /\ pc_cert a = pc_cert b.
Definition pn_rel (a b : periodNode) : Prop :=
  pt_rel (pn_pt a) (pn_pt b) /\ pn_vp a = pn_vp b /\ pn_steps a = pn_steps b.
Definition orel {A} (R : A -> A -> Prop) (x y : option A) : Prop :=
  match x, y with Some a, Some b => R a b | None, None => True | _, _ => False end.
Definition pmap_rel (l l' : list (N * periodNode)) : Prop :=
  forall p, orel pn_rel (aget N.eqb p l) (aget N.eqb p l').
Definition rn_rel (a b : roundNode) : Prop :=
  rn_store a = rn_store b /\ rn_fresh a = rn_fresh b /\ pmap_rel (rn_periods a) (rn_periods b).
Definition rt_rel (cur : N) (rt rt' : router) : Prop :=
  forall r, cur <= r -> orel rn_rel (aget N.eqb r rt) (aget N.eqb r rt').

Lemma sk_rel_refl : forall a, sk_rel a a. Proof. intros; repeat split. Qed.
Lemma pt_rel_refl : forall a, pt_rel a a. Proof. intros; repeat split. Qed.
Lemma pn_rel_refl : forall a, pn_rel a a. Proof. intros; repeat split. Qed.
Lemma pmap_rel_refl : forall l, pmap_rel l l.
Proof. intros l p. destruct (aget N.eqb p l); simpl; auto. apply pn_rel_refl. Qed.
Lemma rn_rel_refl : forall a, rn_rel a a.
Proof. intros; repeat split. apply pmap_rel_refl. Qed.
Lemma rt_rel_mono : forall c c' rt rt', c <= c' -> rt_rel c rt rt' -> rt_rel c' rt rt'.
Proof. intros c c' rt rt' L H r Hr. apply H. lia. Qed.

(* ---------- aget through aset / filter ---------- *)
Lemma aget_aset_N : forall (V : Type) k p (v : V) l,
  aget N.eqb k (aset N.eqb p v l) = if k =? p then Some v else aget N.eqb k l.
Proof.
  intros V k p v l. destruct (k =? p) eqn:E.
  - apply N.eqb_eq in E; subst. apply (aget_aset_same N.eqb N.eqb_eq).
  - apply (aget_aset_other N.eqb N.eqb_eq). intro; subst. rewrite N.eqb_refl in E; discriminate.
Qed.
Lemma aget_filter_N : forall (V : Type) (g : N -> bool) k (l : list (N * V)),
  aget N.eqb k (filter (fun kv => g (fst kv)) l) = if g k then aget N.eqb k l else None.
Proof.
  intros V g k l. destruct (g k) eqn:G.
  - apply (aget_filter_key N.eqb N.eqb_eq); auto.
  - apply aget_filter_key_false'; auto.
Qed.

Definition keep_period (pl : player) (p : N) : bool := (p_per pl <=? add1 p) || (p <=? 1).
Definition keep_round (pm : params) (pl : player) (r : N) : bool := p_rnd pl <=? w64 (r + pm_crlag pm).

Lemma rn_update_aget_any : forall pl p rn k,
  aget N.eqb k (rn_periods (rn_update pl p rn)) =
  if keep_period pl k then
    (if k =? p then Some (match aget N.eqb p (rn_periods rn) with Some pn => pn | None => pn_zero end)
     else aget N.eqb k (rn_periods rn))
  else None.
Proof.
  intros pl p rn k. unfold rn_update; simpl.
  rewrite (aget_filter_N _ (fun q => (p_per pl <=? add1 q) || (q <=? 1))). fold (keep_period pl k).
  destruct (keep_period pl k); auto. unfold ahas.
  destruct (aget N.eqb p (rn_periods rn)) as [pn|] eqn:A.
  - destruct (k =? p) eqn:E; auto. apply N.eqb_eq in E; subst; auto.
  - rewrite aget_aset_N. destruct (k =? p); auto.
Qed.

Lemma root_update_aget_any : forall pm pl r rt k,
  aget N.eqb k (root_update pm pl r rt) =
  if keep_round pm pl k then
    (if k =? r then Some (match aget N.eqb r rt with Some rn => rn | None => rn_zero end)
     else aget N.eqb k rt)
  else None.
Proof.
  intros pm pl r rt k. unfold root_update.
  rewrite (aget_filter_N _ (fun q => p_rnd pl <=? w64 (q + pm_crlag pm))). fold (keep_round pm pl k).
  destruct (keep_round pm pl k); auto. unfold ahas.
  destruct (aget N.eqb r rt) as [rn|] eqn:A.
  - destruct (k =? r) eqn:E; auto. apply N.eqb_eq in E; subst; auto.
  - rewrite aget_aset_N. destruct (k =? r); auto.
Qed.

(* ---------- period / round level ---------- *)
Lemma pn_update_rel : forall s a b, pn_rel a b -> pn_rel (pn_update s a) (pn_update s b).
Proof.
  intros s a b (A & B & C). unfold pn_update. rewrite C.
  destruct (ahas N.eqb s (pn_steps b)); unfold pn_rel; simpl; auto.
Qed.

Lemma rn_update_rel : forall pl p a b, rn_rel a b -> rn_rel (rn_update pl p a) (rn_update pl p b).
Proof.
  intros pl p a b (A & B & C). split; [|split]; auto.
  intros k. rewrite !rn_update_aget_any. destruct (keep_period pl k); simpl; auto.
  destruct (k =? p); [|apply C].
  specialize (C p). destruct (aget N.eqb p (rn_periods a)), (aget N.eqb p (rn_periods b)); simpl in *; auto; try contradiction.
  apply pn_rel_refl.
Qed.

Lemma rn_set_period_rel : forall p pa pb a b, rn_rel a b -> pn_rel pa pb -> rn_rel (rn_set_period p pa a) (rn_set_period p pb b).
Proof.
  intros p pa pb a b (A & B & C) P. split; [|split]; auto.
  intros k; simpl. rewrite !aget_aset_N. destruct (k =? p); simpl; auto.
Qed.

Lemma with_period_rel : forall k A (RA : A -> A -> Prop) pl p s a b (f g : periodNode -> res (periodNode * A)),
  rn_rel a b ->
  (forall pa pb, pn_rel pa pb -> rq k (fun x y => pn_rel (fst x) (fst y) /\ RA (snd x) (snd y)) (f pa) (g pb)) ->
  rq k (fun x y => rn_rel (fst x) (fst y) /\ RA (snd x) (snd y)) (with_period pl p s a f) (with_period pl p s b g).
Proof.
  intros k A RA pl p s a b f g R HF. unfold with_period.
  pose proof (rn_update_rel pl p a b R) as R1. destruct R1 as (S1 & F1 & P1).
  pose proof (P1 p) as Pp.
  destruct (aget N.eqb p (rn_periods (rn_update pl p a))) as [pa|], (aget N.eqb p (rn_periods (rn_update pl p b))) as [pb|];
    simpl in Pp; try contradiction; [|apply rq_panic].
  eapply rq_bind; [apply HF; apply pn_update_rel; exact Pp|].
  intros [pa' xa] [pb' xb] [H1 H2]; simpl in *. split; auto.
  apply rn_set_period_rel; auto. split; [|split]; auto.
Qed.

(* ---------- root level ---------- *)
Lemma with_round_rel : forall k A (RA : A -> A -> Prop) pm pl cur r p rt rt' (f g : roundNode -> res (roundNode * A)),
  rt_rel cur rt rt' -> cur <= r ->
  (forall a b, rn_rel a b -> rq k (fun x y => rn_rel (fst x) (fst y) /\ RA (snd x) (snd y)) (f a) (g b)) ->
  rq k (fun x y => rt_rel cur (fst x) (fst y) /\ RA (snd x) (snd y)) (with_round pm pl r p rt f) (with_round pm pl r p rt' g).
Proof.
  intros k A RA pm pl cur r p rt rt' f g R L HF. unfold with_round.
  rewrite !root_update_aget_any, N.eqb_refl.
  destruct (keep_round pm pl r); [|apply rq_panic].
  assert (R0 : rn_rel (match aget N.eqb r rt with Some rn => rn | None => rn_zero end)
                      (match aget N.eqb r rt' with Some rn => rn | None => rn_zero end)).
  { specialize (R r L). destruct (aget N.eqb r rt), (aget N.eqb r rt'); simpl in R; try contradiction; auto. apply rn_rel_refl. }
  eapply rq_bind; [apply HF; apply rn_update_rel; exact R0|].
  intros [a' xa] [b' xb] [H1 H2]; simpl in *. split; auto.
  intros q Lq. rewrite !aget_aset_N. destruct (q =? r) eqn:E; simpl; auto.
  rewrite !root_update_aget_any, E. destruct (keep_round pm pl q); simpl; auto.
Qed.

Lemma rq_false_l : forall A B (R : A -> B -> Prop) (x : res A) (y : res B),
  (forall a, x <> Ok a) -> rq false R x y.
Proof. intros A B R [a|t|] [b|t'|] H; simpl; auto. exfalso; eapply H; eauto. Qed.
Lemma rq_false_r : forall A B (R : A -> B -> Prop) (x : res A) (y : res B),
  (forall b, y <> Ok b) -> rq false R x y.
Proof. intros A B R [a|t|] [b|t'|] H; simpl; auto. exfalso; eapply H; eauto. Qed.

(* a dispatch to a round below [cur] leaves the relation on the rounds >= cur intact, whatever it does *)
Lemma with_round_old : forall A B pm pl cur r p rt rt' (f : roundNode -> res (roundNode * A)) (g : roundNode -> res (roundNode * B)),
  rt_rel cur rt rt' -> r < cur ->
  rq false (fun x y => rt_rel cur (fst x) (fst y)) (with_round pm pl r p rt f) (with_round pm pl r p rt' g).
Proof.
  intros A B pm pl cur r p rt rt' f g R L. unfold with_round.
  destruct (aget N.eqb r (root_update pm pl r rt)) as [a|]; [|apply rq_false_l; intros; discriminate].
  destruct (aget N.eqb r (root_update pm pl r rt')) as [b|]; [|apply rq_false_r; intros; discriminate].
  destruct (f (rn_update pl p a)) as [[a' xa]| |]; [|apply rq_false_l; intros; discriminate|apply rq_false_l; intros; discriminate].
  destruct (g (rn_update pl p b)) as [[b' xb]| |]; [|apply rq_false_r; intros; discriminate|apply rq_false_r; intros; discriminate].
  simpl. intros q Lq. rewrite !aget_aset_N. assert (E : (q =? r) = false) by (apply N.eqb_neq; lia). rewrite E.
  rewrite !root_update_aget_any, E. destruct (keep_round pm pl q); simpl; auto.
Qed.

(* ---------- vote machines: they never look at the proposal tracker ---------- *)
Definition prel {A B C D} (R : A -> B -> Prop) (S : C -> D -> Prop) (x : A * C) (y : B * D) : Prop :=
  R (fst x) (fst y) /\ S (snd x) (snd y).

Ltac psplit := unfold prel; simpl; split.

Lemma pn_vote_accepted_rel : forall k pm a b x,
  pn_rel a b -> rq k (prel pn_rel eq) (pn_vote_accepted pm a x) (pn_vote_accepted pm b x).
Proof.
  intros k pm a b x R. pose proof (pn_update_rel (vt_step x) a b R) as (P1 & V1 & S1).
  unfold pn_vote_accepted. unfold pn_step. rewrite S1.
  destruct (vt_checked_accept pm (ngetd vt_zero (vt_step x) (pn_steps (pn_update (vt_step x) b))) x) as [[t' oth]| |]; simpl; auto.
  assert (R2 : pn_rel (pn_set_step (vt_step x) t' (pn_update (vt_step x) a)) (pn_set_step (vt_step x) t' (pn_update (vt_step x) b))).
  { split; [|split]; simpl; auto. rewrite S1; auto. }
  destruct oth as [th|]; simpl; [|split; auto].
  destruct (s_next <=? th_step th); simpl; [|split; auto].
  pose proof (pn_update_rel 0 _ _ R2) as (P3 & V3 & S3).
  split; simpl; auto. split; [|split]; simpl; auto. rewrite V3; auto.
Qed.

Lemma rn_vote_accepted_rel : forall k pm pl a b x,
  rn_rel a b -> rq k (prel rn_rel eq) (rn_vote_accepted pm pl a x) (rn_vote_accepted pm pl b x).
Proof.
  intros k pm pl a b x R. unfold rn_vote_accepted.
  eapply rq_bind.
  - apply (with_period_rel k _ eq pl (vt_per x) 0 a b); auto. intros pa pb P. apply pn_vote_accepted_rel; auto.
  - intros [a2 oa] [b2 ob] [R2 E]; simpl in *. subst ob.
    destruct oa as [th|]; [|simpl; psplit; auto].
    pose proof (rn_update_rel pl 0 a2 b2 R2) as R3. destruct R3 as (S3 & F3 & P3).
    cbv zeta. cbn [rn_fresh rn_update] in F3 |- *.
    eapply rq_bind.
    + rewrite F3. apply rq_refl. intros; reflexivity.
    + intros f1 f2 E; subst f2. destruct f1; simpl; psplit; simpl; auto.
      * split; [|split]; simpl; auto.
      * split; [|split]; auto.
Qed.

(* reading from a period node something that does not depend on the proposal tracker's late fields *)
Lemma with_period_read_rel : forall k A pl p s a b (g : periodNode -> A),
  rn_rel a b -> (forall pa pb, pn_rel pa pb -> g pa = g pb) ->
  rq k (prel rn_rel eq) (with_period pl p s a (fun pn => Ok (pn, g pn))) (with_period pl p s b (fun pn => Ok (pn, g pn))).
Proof.
  intros k A pl p s a b g R HG. apply (with_period_rel k _ eq); auto.
  intros pa pb P. simpl; psplit; simpl; auto.
Qed.

(* ---------- proposal tracker ---------- *)
Definition pv_rel (a b : pvres) : Prop :=
  match a, b with
  | PVFiltered _, PVFiltered _ => True
  | _, _ => a = b
  end.
Lemma pv_rel_refl : forall a, pv_rel a a. Proof. destruct a; simpl; auto. Qed.

Lemma sk_accept_rel : forall a b v,
  sk_rel a b ->
  let '(na, ea, erra) := sk_accept a v in
  let '(nb, eb, errb) := sk_accept b v in
  sk_rel na nb /\ erra = errb.
Proof.
  intros [al af az alt ah] [bl bf bz blt bh] v (L & F & Z). simpl in L, F, Z. subst bl bf bz.
  unfold sk_accept, sk_rel; simpl.
  destruct az.
  - destruct (negb ah || cred_less v alt); destruct (negb bh || cred_less v blt); simpl; repeat split; auto.
  - destruct (af && negb (cred_less v al)); simpl; repeat split; auto.
Qed.

Lemma pt_vote_rel : forall a b v, pt_rel a b -> pt_rel (fst (pt_vote a v)) (fst (pt_vote b v)) /\ pv_rel (snd (pt_vote a v)) (snd (pt_vote b v)).
Proof.
  intros a b v (D & S & G & C1 & C2 & C3 & C4). unfold pt_vote. rewrite <- D, <- G.
  destruct (existsb (N.eqb (vt_snd v)) (pt_dup a)); simpl; [split; [unfold pt_rel; simpl; intuition|exact I]|].
  pose proof (sk_accept_rel (pt_freezer a) (pt_freezer b) v S) as H.
  destruct (sk_accept (pt_freezer a) v) as [[na ea] erra]. destruct (sk_accept (pt_freezer b) v) as [[nb eb] errb].
  destruct H as [(L1 & F1 & Z1) E]. subst errb. destruct S as (L & F & Z).
  destruct (negb (is_bottom (pt_staging a))); simpl; [split; [unfold pt_rel, sk_rel; simpl; intuition|exact I]|].
  destruct erra; simpl; (split; [unfold pt_rel, sk_rel; simpl; intuition | simpl; auto]).
Qed.

Lemma pt_checked_vote_rel : forall k a b v,
  pt_rel a b -> rq k (prel pt_rel pv_rel) (pt_checked_vote a v) (pt_checked_vote b v).
Proof.
  intros k a b v R. pose proof (pt_vote_rel a b v R) as [R1 P1].
  destruct R as (D & S & G & C1 & C2 & C3 & C4). unfold pt_checked_vote.
  destruct (pt_vote a v) as [ta oa]; destruct (pt_vote b v) as [tb ob]; simpl in *.
  rewrite <- C1, <- C2, <- C3, <- C4.
  assert (EA : match oa with PVAccepted _ _ => true | _ => false end = match ob with PVAccepted _ _ => true | _ => false end).
  { destruct oa, ob; simpl in P1; try discriminate; auto. }
  rewrite <- EA.
  destruct (negb (pc_one a) && negb (pc_froze a) && negb (pc_soft a) && negb (pc_cert a) && negb _); [apply rq_panic|].
  destruct ((pc_froze a || pc_soft a || pc_cert a) && _); [apply rq_panic|].
  simpl; psplit; simpl; auto.
  destruct R1 as (D1 & S1 & G1 & K1 & K2 & K3 & K4). repeat split; simpl; auto; apply S1.
Qed.

Lemma pt_checked_freeze_rel : forall k a b,
  pt_rel a b -> rq k (prel pt_rel eq) (pt_checked_freeze a) (pt_checked_freeze b).
Proof.
  intros k a b (D & (L & F & Z) & G & C1 & C2 & C3 & C4). unfold pt_checked_freeze.
  rewrite <- C2, <- C1, <- L. destruct (pc_froze a); [apply rq_panic|].
  destruct (negb (pc_one a) && negb (is_bottom (vt_val (sk_lowest (pt_freezer a))))); [apply rq_panic|].
  simpl; psplit; simpl; auto. repeat split; simpl; auto.
Qed.

Lemma pt_checked_threshold_rel : forall k a b th,
  pt_rel a b -> rq k (prel pt_rel eq) (pt_checked_threshold a th) (pt_checked_threshold b th).
Proof.
  intros k a b th (D & S & G & C1 & C2 & C3 & C4). unfold pt_checked_threshold.
  destruct (th_t th).
  - rewrite <- C3. destruct (pc_soft a); [apply rq_panic|]. destruct (is_bottom (th_val th)); [apply rq_panic|].
    simpl; psplit; simpl; auto. repeat split; simpl; auto; apply S.
  - simpl; psplit; simpl; auto. repeat split; simpl; auto; apply S.
  - apply rq_panic.
Qed.

Lemma pn_pt_op_rel : forall k A (RA : A -> A -> Prop) a b (f : ptracker -> res (ptracker * A)),
  pn_rel a b ->
  (forall ta tb, pt_rel ta tb -> rq k (prel pt_rel RA) (f ta) (f tb)) ->
  rq k (prel pn_rel RA) (pn_pt_op f a) (pn_pt_op f b).
Proof.
  intros k A RA a b f (P & V & S) HF. unfold pn_pt_op.
  eapply rq_bind; [apply HF; exact P|].
  intros [ta xa] [tb xb] [H1 H2]; simpl in *. simpl; psplit; [unfold pn_rel; simpl; auto | auto].
Qed.

(* ---------- proposal store ---------- *)
Lemma rn_set_store_rel : forall st a b, rn_rel a b -> rn_rel (rn_set_store st a) (rn_set_store st b).
Proof. intros st a b (S & F & P). split; [|split]; simpl; auto. Qed.

Lemma pt_staging_rel : forall pa pb, pn_rel pa pb -> pt_staging (pn_pt pa) = pt_staging (pn_pt pb).
Proof. intros pa pb ((D & S & G & _) & _); auto. Qed.

Lemma rn_read_staging_rel : forall k pl p a b,
  rn_rel a b -> rq k (prel rn_rel eq) (rn_read_staging pl p a) (rn_read_staging pl p b).
Proof.
  intros k pl p a b R. unfold rn_read_staging.
  eapply rq_bind; [apply (with_period_read_rel k _ pl p 0 a b (fun pn => pt_staging (pn_pt pn))); auto; apply pt_staging_rel|].
  intros [a1 va] [b1 vb] [R1 E]; simpl in *. subst vb. simpl; psplit; simpl; auto.
  destruct R1 as (S1 & _). rewrite S1. reflexivity.
Qed.

Lemma rn_staged_value_rel : forall k pl p a b,
  rn_rel a b -> rq k (prel rn_rel eq) (rn_staged_value pl p a) (rn_staged_value pl p b).
Proof. intros. unfold rn_staged_value. apply rn_read_staging_rel. apply rn_update_rel; auto. Qed.

Lemma rn_store_vote_rel : forall k pl a b v,
  rn_rel a b -> rq k (prel rn_rel pv_rel) (rn_store_vote pl a v) (rn_store_vote pl b v).
Proof.
  intros k pl a b v R. unfold rn_store_vote.
  eapply rq_bind.
  - apply (with_period_rel k _ pv_rel pl (vt_per v) 0 a b); auto. intros pa pb P.
    apply pn_pt_op_rel; auto. intros ta tb T. apply pt_checked_vote_rel; auto.
  - intros [a1 ea] [b1 eb] [R1 E]; simpl in *.
    destruct ea as [|na| |prop ok]; destruct eb as [|nb| |prop' ok']; simpl in E; try discriminate;
      try (simpl; psplit; simpl; auto; fail).
    inversion E; subst prop' ok'. destruct R1 as (S1 & F1 & P1). rewrite S1.
    simpl; psplit; simpl; auto. split; [|split]; simpl; auto.
Qed.

Lemma rn_store_payload_present_rel : forall pl a b pv,
  rn_rel a b ->
  rn_rel (fst (rn_store_payload_present pl a pv)) (fst (rn_store_payload_present pl b pv)) /\
  snd (rn_store_payload_present pl a pv) = snd (rn_store_payload_present pl b pv).
Proof.
  intros pl a b pv R. pose proof R as (S & F & P). unfold rn_store_payload_present. rewrite S.
  destruct (aget value_eqb pv (ps_asm (rn_store b))) as [ea|]; simpl; auto.
  destruct (as_assembled ea); simpl; auto. destruct (as_filled ea); simpl; auto.
  destruct (ps_last_relevant _ pv); simpl. split; auto. apply rn_set_store_rel; auto.
Qed.

Lemma rn_store_payload_verified_rel : forall k pl a b pv,
  rn_rel a b -> rq k (prel rn_rel eq) (rn_store_payload_verified pl a pv) (rn_store_payload_verified pl b pv).
Proof.
  intros k pl a b pv R. pose proof R as (S & F & P). unfold rn_store_payload_verified. rewrite S.
  destruct (aget value_eqb pv (ps_asm (rn_store b))) as [ea|]; [|simpl; psplit; auto].
  destruct (as_assembled ea); [simpl; psplit; auto|].
  eapply rq_bind; [apply rn_staged_value_rel; apply rn_set_store_rel; exact R|].
  intros [a2 [sv c]] [b2 [sv' c']] [R2 E]; simpl in *. inversion E; subst.
  destruct (value_eqb sv' pv); simpl; psplit; auto.
Qed.

Lemma rn_store_new_period_rel : forall k pl a b target starting,
  rn_rel a b -> rq k rn_rel (rn_store_new_period pl a target starting) (rn_store_new_period pl b target starting).
Proof.
  intros k pl a b target starting R. unfold rn_store_new_period.
  eapply rq_bind; [apply rn_staged_value_rel; exact R|].
  intros [a1 [sa ca]] [b1 [sb cb]] [R1 E]; simpl in *. inversion E; subst.
  pose proof R1 as (S1 & _). rewrite S1. simpl. apply rn_set_store_rel; auto.
Qed.

Lemma rn_store_threshold_rel : forall k pl a b th,
  rn_rel a b -> rq k (prel rn_rel eq) (rn_store_threshold pl a th) (rn_store_threshold pl b th).
Proof.
  intros k pl a b th R. unfold rn_store_threshold.
  eapply rq_bind.
  - apply (with_period_rel k _ eq pl (th_per th) 0 a b); auto. intros pa pb P.
    apply pn_pt_op_rel; auto. intros ta tb T. apply pt_checked_threshold_rel; auto.
  - intros [a1 pa] [b1 pb] [R1 E]; simpl in *. subst pb. pose proof R1 as (S1 & _). rewrite S1.
    destruct (as_assembled (ps_asm_get (rn_store b1) pa)); simpl; psplit; simpl; auto.
    apply rn_set_store_rel; auto.
Qed.

Lemma rn_store_read_lowest_rel : forall k pl a b per,
  rn_rel a b -> rq k rn_rel (rn_store_read_lowest pl a per) (rn_store_read_lowest pl b per).
Proof.
  intros k pl a b per R. unfold rn_store_read_lowest.
  eapply rq_bind; [apply (with_period_read_rel k _ pl per 0 a b (fun _ => tt)); auto|].
  intros [a1 ua] [b1 ub] [R1 _]; simpl in *. simpl; auto.
Qed.
