(* Agreement proofs -- C07, part 2: relational infrastructure.  Two runs of the same code from states
   that agree on everything the persistence round trip keeps (same player; for rounds >= the player's
   round the same stores, freshest bundles, vote trackers, next-threshold caches and proposal trackers
   up to the late-credential fields; arbitrary older rounds). *)
From Coq Require Import NArith List Bool Lia ZifyN ZifyNat ZifyBool String.
Import ListNotations.
From Verif.model Require Import AgreementTypes AgreementVotes AgreementProposals AgreementPlayer AgreementPersist.
From Verif.proofs Require Import AgreementLemmas.
Open Scope N_scope.

(* ---------- related results ---------- *)
(* strict = true: both runs succeed with related values or fail in the same way;
   strict = false: nothing is claimed when either run panics / runs out of fuel *)
Definition rq {A B} (strict : bool) (R : A -> B -> Prop) (x : res A) (y : res B) : Prop :=
  match x, y with
  | Ok a, Ok b => R a b
  | Panic _, Panic _ => True
  | OutOfFuel, OutOfFuel => True
  | _, _ => strict = false
  end.

Lemma rq_bind : forall k A B A' B' (R : A -> A' -> Prop) (S : B -> B' -> Prop)
  (x : res A) (y : res A') (f : A -> res B) (g : A' -> res B'),
  rq k R x y -> (forall a b, R a b -> rq k S (f a) (g b)) -> rq k S (bind x f) (bind y g).
Proof.
  intros k A B A' B' R S [a|t|] [b|t'|] f g H HF; simpl in *; auto; subst;
    try (destruct (g b); simpl; auto); try (destruct (f a); simpl; auto).
Qed.
Lemma rq_ok : forall k A B (R : A -> B -> Prop) a b, R a b -> rq k R (Ok a) (Ok b).
Proof. intros; exact H. Qed.
Lemma rq_panic : forall k A B (R : A -> B -> Prop) t t', rq k R (Panic t) (Panic t').
Proof. intros; exact I. Qed.
Lemma rq_mono : forall k A B (R S : A -> B -> Prop) x y, rq k R x y -> (forall a b, R a b -> S a b) -> rq k S x y.
Proof. intros k A B R S [a|t|] [b|t'|] H HI; simpl in *; auto. Qed.
Lemma rq_weaken : forall k A B (R : A -> B -> Prop) x y, rq k R x y -> rq false R x y.
Proof. intros k A B R [a|t|] [b|t'|] H; simpl in *; auto. Qed.
Lemma rq_refl : forall k A (R : A -> A -> Prop) (x : res A), (forall a, R a a) -> rq k R x x.
Proof. intros k A R [a|t|] H; simpl; auto. Qed.
Lemma rq_wp_l : forall k A B (R : A -> B -> Prop) (P : A -> Prop) x y,
  wp x P -> rq k R x y -> rq k (fun a b => P a /\ R a b) x y.
Proof. intros k A B R P [a|t|] [b|t'|] W H; simpl in *; auto. Qed.
Lemma rq_wp_r : forall k A B (R : A -> B -> Prop) (P : B -> Prop) x y,
  wp y P -> rq k R x y -> rq k (fun a b => P b /\ R a b) x y.
Proof. intros k A B R P [a|t|] [b|t'|] W H; simpl in *; auto. Qed.
Lemma rq_if : forall k A B (R : A -> B -> Prop) (c : bool) x1 x2 y1 y2,
  (c = true -> rq k R x1 y1) -> (c = false -> rq k R x2 y2) ->
  rq k R (if c then x1 else x2) (if c then y1 else y2).
Proof. intros k A B R [] x1 x2 y1 y2 H1 H2; auto. Qed.

(* ---------- the relations ---------- *)
Definition sk_rel (a b : seeker) : Prop :=
  sk_lowest a = sk_lowest b /\ sk_filled a = sk_filled b /\ sk_frozen a = sk_frozen b.
Definition pt_rel (a b : ptracker) : Prop :=
  pt_dup a = pt_dup b /\ sk_rel (pt_freezer a) (pt_freezer b) /\ pt_staging a = pt_staging b /\
  pc_one a = pc_one b /\ pc_froze a = pc_froze b /\ pc_soft a = pc_soft b /\ pc_cert a = pc_cert b.
Definition pn_rel (a b : periodNode) : Prop :=
  pt_rel (pn_pt a) (pn_pt b) /\ pn_vp a = pn_vp b /\ pn_steps a = pn_steps b.
Definition orel {A} (R : A -> A -> Prop) (x y : option A) : Prop :=
  match x, y with Some a, Some b => R a b | None, None => True | _, _ => False end.
Definition pmap_rel (l l' : list (N * periodNode)) : Prop :=
  forall p, orel pn_rel (aget N.eqb p l) (aget N.eqb p l').
Definition rn_rel (a b : roundNode) : Prop :=
  rn_store a = rn_store b /\ rn_fresh a = rn_fresh b /\ pmap_rel (rn_periods a) (rn_periods b).
Definition rt_rel (cur : N) (rt rt' : router) : Prop :=
  forall r, cur <= r -> orel rn_rel (aget N.eqb r rt) (aget N.eqb r rt').

Lemma sk_rel_refl : forall a, sk_rel a a. Proof. intros; repeat split. Qed.
Lemma pt_rel_refl : forall a, pt_rel a a. Proof. intros; repeat split. Qed.
Lemma pn_rel_refl : forall a, pn_rel a a. Proof. intros; repeat split. Qed.
Lemma pmap_rel_refl : forall l, pmap_rel l l.
Proof. intros l p. destruct (aget N.eqb p l); simpl; auto. apply pn_rel_refl. Qed.
Lemma rn_rel_refl : forall a, rn_rel a a.
Proof. intros; repeat split. apply pmap_rel_refl. Qed.
Lemma rt_rel_mono : forall c c' rt rt', c <= c' -> rt_rel c rt rt' -> rt_rel c' rt rt'.
Proof. intros c c' rt rt' L H r Hr. apply H. lia. Qed.

(* ---------- aget through aset / filter ---------- *)
Lemma aget_aset_N : forall (V : Type) k p (v : V) l,
  aget N.eqb k (aset N.eqb p v l) = if k =? p then Some v else aget N.eqb k l.
Proof.
  intros V k p v l. destruct (k =? p) eqn:E.
  - apply N.eqb_eq in E; subst. apply (aget_aset_same N.eqb N.eqb_eq).
  - apply (aget_aset_other N.eqb N.eqb_eq). intro; subst. rewrite N.eqb_refl in E; discriminate.
Qed.
Lemma aget_filter_N : forall (V : Type) (g : N -> bool) k (l : list (N * V)),
  aget N.eqb k (filter (fun kv => g (fst kv)) l) = if g k then aget N.eqb k l else None.
Proof.
  intros V g k l. destruct (g k) eqn:G.
  - apply (aget_filter_key N.eqb N.eqb_eq); auto.
  - apply aget_filter_key_false'; auto.
Qed.

Definition keep_period (pl : player) (p : N) : bool := (p_per pl <=? add1 p) || (p <=? 1).
Definition keep_round (pm : params) (pl : player) (r : N) : bool := p_rnd pl <=? w64 (r + pm_crlag pm).

Lemma rn_update_aget_any : forall pl p rn k,
  aget N.eqb k (rn_periods (rn_update pl p rn)) =
  if keep_period pl k then
    (if k =? p then Some (match aget N.eqb p (rn_periods rn) with Some pn => pn | None => pn_zero end)
     else aget N.eqb k (rn_periods rn))
  else None.
Proof.
  intros pl p rn k. unfold rn_update; simpl.
  rewrite (aget_filter_N _ (fun q => (p_per pl <=? add1 q) || (q <=? 1))). fold (keep_period pl k).
  destruct (keep_period pl k); auto. unfold ahas.
  destruct (aget N.eqb p (rn_periods rn)) as [pn|] eqn:A.
  - destruct (k =? p) eqn:E; auto. apply N.eqb_eq in E; subst; auto.
  - rewrite aget_aset_N. destruct (k =? p); auto.
Qed.

Lemma root_update_aget_any : forall pm pl r rt k,
  aget N.eqb k (root_update pm pl r rt) =
  if keep_round pm pl k then
    (if k =? r then Some (match aget N.eqb r rt with Some rn => rn | None => rn_zero end)
     else aget N.eqb k rt)
  else None.
Proof.
  intros pm pl r rt k. unfold root_update.
  rewrite (aget_filter_N _ (fun q => p_rnd pl <=? w64 (q + pm_crlag pm))). fold (keep_round pm pl k).
  destruct (keep_round pm pl k); auto. unfold ahas.
  destruct (aget N.eqb r rt) as [rn|] eqn:A.
  - destruct (k =? r) eqn:E; auto. apply N.eqb_eq in E; subst; auto.
  - rewrite aget_aset_N. destruct (k =? r); auto.
Qed.

(* ---------- period / round level ---------- *)
Lemma pn_update_rel : forall s a b, pn_rel a b -> pn_rel (pn_update s a) (pn_update s b).
Proof.
  intros s a b (A & B & C). unfold pn_update. rewrite C.
  destruct (ahas N.eqb s (pn_steps b)); unfold pn_rel; simpl; auto.
Qed.

Lemma rn_update_rel : forall pl p a b, rn_rel a b -> rn_rel (rn_update pl p a) (rn_update pl p b).
Proof.
  intros pl p a b (A & B & C). split; [|split]; auto.
  intros k. rewrite !rn_update_aget_any. destruct (keep_period pl k); simpl; auto.
  destruct (k =? p); [|apply C].
  specialize (C p). destruct (aget N.eqb p (rn_periods a)), (aget N.eqb p (rn_periods b)); simpl in *; auto; try contradiction.
  apply pn_rel_refl.
Qed.

Lemma rn_set_period_rel : forall p pa pb a b, rn_rel a b -> pn_rel pa pb -> rn_rel (rn_set_period p pa a) (rn_set_period p pb b).
Proof.
  intros p pa pb a b (A & B & C) P. split; [|split]; auto.
  intros k; simpl. rewrite !aget_aset_N. destruct (k =? p); simpl; auto.
Qed.

Lemma with_period_rel : forall k A (RA : A -> A -> Prop) pl p s a b (f g : periodNode -> res (periodNode * A)),
  rn_rel a b ->
  (forall pa pb, pn_rel pa pb -> rq k (fun x y => pn_rel (fst x) (fst y) /\ RA (snd x) (snd y)) (f pa) (g pb)) ->
  rq k (fun x y => rn_rel (fst x) (fst y) /\ RA (snd x) (snd y)) (with_period pl p s a f) (with_period pl p s b g).
Proof.
  intros k A RA pl p s a b f g R HF. unfold with_period.
  pose proof (rn_update_rel pl p a b R) as R1. destruct R1 as (S1 & F1 & P1).
  pose proof (P1 p) as Pp.
  destruct (aget N.eqb p (rn_periods (rn_update pl p a))) as [pa|], (aget N.eqb p (rn_periods (rn_update pl p b))) as [pb|];
    simpl in Pp; try contradiction; [|apply rq_panic].
  eapply rq_bind; [apply HF; apply pn_update_rel; exact Pp|].
  intros [pa' xa] [pb' xb] [H1 H2]; simpl in *. split; auto.
  apply rn_set_period_rel; auto. split; [|split]; auto.
Qed.

(* ---------- root level ---------- *)
Lemma with_round_rel : forall k A (RA : A -> A -> Prop) pm pl cur r p rt rt' (f g : roundNode -> res (roundNode * A)),
  rt_rel cur rt rt' -> cur <= r ->
  (forall a b, rn_rel a b -> rq k (fun x y => rn_rel (fst x) (fst y) /\ RA (snd x) (snd y)) (f a) (g b)) ->
  rq k (fun x y => rt_rel cur (fst x) (fst y) /\ RA (snd x) (snd y)) (with_round pm pl r p rt f) (with_round pm pl r p rt' g).
Proof.
  intros k A RA pm pl cur r p rt rt' f g R L HF. unfold with_round.
  rewrite !root_update_aget_any, N.eqb_refl.
  destruct (keep_round pm pl r); [|apply rq_panic].
  assert (R0 : rn_rel (match aget N.eqb r rt with Some rn => rn | None => rn_zero end)
                      (match aget N.eqb r rt' with Some rn => rn | None => rn_zero end)).
  { specialize (R r L). destruct (aget N.eqb r rt), (aget N.eqb r rt'); simpl in R; try contradiction; auto. apply rn_rel_refl. }
  eapply rq_bind; [apply HF; apply rn_update_rel; exact R0|].
  intros [a' xa] [b' xb] [H1 H2]; simpl in *. split; auto.
  intros q Lq. rewrite !aget_aset_N. destruct (q =? r); simpl; auto.
  rewrite !root_update_aget_any. destruct (keep_round pm pl q); simpl; auto.
  destruct (q =? r) eqn:E; [discriminate|]. apply R; auto.
Qed.

(* a dispatch to a round below [cur] leaves the relation on the rounds >= cur intact, whatever it does *)
Lemma with_round_old : forall A B pm pl cur r p rt rt' (f : roundNode -> res (roundNode * A)) (g : roundNode -> res (roundNode * B)),
  rt_rel cur rt rt' -> r < cur ->
  rq false (fun x y => rt_rel cur (fst x) (fst y)) (with_round pm pl r p rt f) (with_round pm pl r p rt' g).
Proof.
  intros A B pm pl cur r p rt rt' f g R L. unfold with_round.
  destruct (aget N.eqb r (root_update pm pl r rt)) as [a|]; [|destruct (aget N.eqb r (root_update pm pl r rt')); simpl; auto;
     destruct (bind _ _); simpl; auto].
  destruct (aget N.eqb r (root_update pm pl r rt')) as [b|]; [|simpl; destruct (bind _ _); simpl; auto].
  destruct (f (rn_update pl p a)) as [[a' xa]| |]; simpl; auto;
    destruct (g (rn_update pl p b)) as [[b' xb]| |]; simpl; auto.
  intros q Lq. rewrite !aget_aset_N. assert (E : (q =? r) = false) by (apply N.eqb_neq; lia). rewrite E.
  rewrite !root_update_aget_any, E. destruct (keep_round pm pl q); simpl; auto. apply R; auto.
Qed.
