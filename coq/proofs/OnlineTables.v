(* C13 lemmas, part B: association lists keyed by address (the two tables, the accounts map),
   the per-address updates of a commit range, onlineAccountsNewRound over all addresses. *)
From Coq Require Import NArith List Bool Lia ZifyN ZifyNat ZifyBool.
From Verif.model Require Import Overflow OnlineAccts.
From Verif.proofs Require Import OnlineEntries.
Import ListNotations.
Open Scope N_scope.

Definition keys {V} (l : list (N * V)) : list N := map fst l.

(* ---------- tables ---------- *)
Lemma tget_tset_same k v (t : table) : tget k (tset k v t) = v.
Proof.
  induction t as [|[k' v'] t IH]; cbn [tset tget]; [rewrite N.eqb_refl; reflexivity|].
  destruct (N.eqb_spec k' k); cbn [tget]; [rewrite N.eqb_refl; reflexivity|].
  destruct (N.eqb_spec k' k); [contradiction|exact IH].
Qed.

Lemma tget_tset_other k k' v (t : table) : k <> k' -> tget k (tset k' v t) = tget k t.
Proof.
  intros Hn. induction t as [|[k2 v2] t IH]; cbn [tset tget].
  - destruct (N.eqb_spec k' k); [congruence|reflexivity].
  - destruct (N.eqb_spec k2 k'); cbn [tget].
    + subst. destruct (N.eqb_spec k' k); [congruence|]. reflexivity.
    + destruct (N.eqb_spec k2 k); [reflexivity|exact IH].
Qed.

Lemma keys_tset k v (t : table) : forall x, In x (keys (tset k v t)) <-> x = k \/ In x (keys t).
Proof.
  induction t as [|[k2 v2] t IH]; intros x; cbn [tset keys map fst].
  - cbn. intuition.
  - destruct (N.eqb_spec k2 k); cbn [map fst In].
    + subst. intuition.
    + fold (keys (tset k v t)). rewrite IH. fold (keys t). intuition.
Qed.

Lemma NoDup_tset k v (t : table) : NoDup (keys t) -> NoDup (keys (tset k v t)).
Proof.
  induction t as [|[k2 v2] t IH]; intros H; cbn [tset keys map fst].
  - constructor; [intros []|constructor].
  - inversion H as [|? ? Hnin Hnd]; subst. destruct (N.eqb_spec k2 k); cbn [map fst].
    + subst. constructor; assumption.
    + constructor; [|exact (IH Hnd)]. fold (keys (tset k v t)). rewrite keys_tset.
      intros [E|Hin]; [congruence|exact (Hnin Hin)].
Qed.

Lemma tget_not_in k (t : table) : ~ In k (keys t) -> tget k t = [].
Proof.
  induction t as [|[k2 v2] t IH]; intros H; [reflexivity|]. cbn [tget].
  destruct (N.eqb_spec k2 k); [exfalso; apply H; left; exact e|].
  apply IH. intros Hin. apply H. right; exact Hin.
Qed.

Lemma tget_tdel_same k (t : table) : NoDup (keys t) -> tget k (tdel k t) = [].
Proof.
  induction t as [|[k2 v2] t IH]; intros H; [reflexivity|]. inversion H as [|? ? Hnin Hnd]; subst.
  cbn [tdel]. destruct (N.eqb_spec k2 k).
  - subst. apply tget_not_in. exact Hnin.
  - cbn [tget]. destruct (N.eqb_spec k2 k); [contradiction|exact (IH Hnd)].
Qed.

Lemma tget_tdel_other k k' (t : table) : k <> k' -> tget k (tdel k' t) = tget k t.
Proof.
  intros Hn. induction t as [|[k2 v2] t IH]; [reflexivity|]. cbn [tdel tget].
  destruct (N.eqb_spec k2 k').
  - subst. destruct (N.eqb_spec k' k); [congruence|reflexivity].
  - cbn [tget]. destruct (N.eqb_spec k2 k); [reflexivity|exact IH].
Qed.

Lemma keys_tdel_incl k (t : table) x : In x (keys (tdel k t)) -> In x (keys t).
Proof.
  induction t as [|[k2 v2] t IH]; [intros []|]. cbn [tdel].
  destruct (k2 =? k); cbn [keys map fst In]; [right; assumption|].
  intros [E|H]; [left; exact E|right; exact (IH H)].
Qed.

Lemma NoDup_tdel k (t : table) : NoDup (keys t) -> NoDup (keys (tdel k t)).
Proof.
  induction t as [|[k2 v2] t IH]; intros H; [constructor|]. inversion H as [|? ? Hnin Hnd]; subst.
  cbn [tdel]. destruct (k2 =? k); [exact Hnd|]. cbn [keys map fst]. constructor; [|exact (IH Hnd)].
  intros Hin. apply Hnin. exact (keys_tdel_incl _ _ _ Hin).
Qed.

(* applying a per-address function to every address and dropping the emptied ones *)
Definition tmap (f : list entry -> list entry) (t : table) : table :=
  filter (fun kv => match snd kv with [] => false | _ => true end)
         (map (fun kv => (fst kv, f (snd kv))) t).

Lemma tget_tmap f k (t : table) : f [] = [] -> NoDup (keys t) -> tget k (tmap f t) = f (tget k t).
Proof.
  intros Hf. unfold tmap. induction t as [|[k2 v2] t IH]; intros H; [symmetry; exact Hf|].
  inversion H as [|? ? Hnin Hnd]; subst. cbn [map filter fst snd tget].
  destruct (N.eqb_spec k2 k).
  - subst. destruct (f v2) as [|e r] eqn:Ef.
    + (* emptied: filtered out, and k occurs nowhere else *)
      apply tget_not_in. intros Hin. apply Hnin.
      unfold keys in Hin. rewrite in_map_iff in Hin. destruct Hin as ([k3 v3] & E & Hin). cbn in E. subst k3.
      apply filter_In in Hin as [Hin _]. rewrite in_map_iff in Hin. destruct Hin as ([k4 v4] & E & Hin).
      inversion E; subst. unfold keys. rewrite in_map_iff. exists (k, v4). split; [reflexivity|exact Hin].
    + cbn [tget fst]. rewrite N.eqb_refl. reflexivity.
  - destruct (f v2); cbn [tget fst]; [exact (IH Hnd)|].
    destruct (N.eqb_spec k2 k); [contradiction|exact (IH Hnd)].
Qed.

Lemma keys_tmap_incl f (t : table) x : In x (keys (tmap f t)) -> In x (keys t).
Proof.
  unfold tmap, keys. rewrite !in_map_iff. intros ([k v] & E & Hin). cbn in E. subst.
  apply filter_In in Hin as [Hin _]. rewrite in_map_iff in Hin. destruct Hin as ([k2 v2] & E & Hin).
  inversion E; subst. exists (x, v2). split; [reflexivity|exact Hin].
Qed.

Lemma NoDup_tmap f (t : table) : NoDup (keys t) -> NoDup (keys (tmap f t)).
Proof.
  unfold tmap. induction t as [|[k2 v2] t IH]; intros H; [constructor|].
  inversion H as [|? ? Hnin Hnd]; subst. cbn [map filter fst snd].
  destruct (f v2); [exact (IH Hnd)|]. cbn [keys map fst]. constructor; [|exact (IH Hnd)].
  intros Hin. apply Hnin. exact (keys_tmap_incl f t _ Hin).
Qed.

Lemma trim_table_tmap fb t : trim_table fb t = tmap (trim_entries fb) t.
Proof. reflexivity. Qed.
Lemma prune_cache_tmap target c : prune_cache target c = tmap (prune_addr target) c.
Proof. reflexivity. Qed.

Lemma prune_addr_nil target : prune_addr target [] = [].
Proof. reflexivity. Qed.

Lemma tget_nonempty_in k (t : table) : tget k t <> [] -> In k (keys t).
Proof.
  intros H. destruct (in_dec N.eq_dec k (keys t)) as [Hin|Hnin]; [exact Hin|].
  exfalso. apply H. apply tget_not_in. exact Hnin.
Qed.

(* ---------- the account of an address along a list of deltas ---------- *)
Definition fold_acct (k : N) (a0 : oacct) (ds : list (list (N * oacct))) : oacct :=
  fold_left (fun a d => match aget k d with Some x => x | None => a end) ds a0.

Lemma fold_acct_app k a0 d1 d2 : fold_acct k a0 (d1 ++ d2) = fold_acct k (fold_acct k a0 d1) d2.
Proof. unfold fold_acct. apply fold_left_app. Qed.

Lemma upds_rounds k : forall ds base, rounds_inc (upds k base ds) base.
Proof.
  induction ds as [|d ds IH]; intros base; cbn [upds]; [exact I|].
  destruct (aget k d).
  - cbn [rounds_inc]. split; [lia|apply IH].
  - specialize (IH (base + 1)). revert IH. generalize (upds k (base + 1) ds).
    intros l. destruct l as [|[a r] l]; cbn [rounds_inc]; [intros _; exact I|]. intros [H1 H2]. split; [lia|exact H2].
Qed.

Lemma upds_in k : forall ds base a r, In (a, r) (upds k base ds) -> base < r /\ r <= base + N.of_nat (length ds).
Proof.
  induction ds as [|d ds IH]; intros base a r; cbn [upds]; [intros []|].
  cbn [length]. destruct (aget k d).
  - intros [[= -> <-]|H]; [lia|]. specialize (IH _ _ _ H). lia.
  - intros H. specialize (IH _ _ _ H). lia.
Qed.

(* the updates of an address, read at round base + j, give the fold over the first j deltas *)
Lemma acct_of_upds k : forall ds base a0 (j : nat), (j <= length ds)%nat ->
  acct_of (upds k base ds) a0 (base + N.of_nat j) = fold_acct k a0 (firstn j ds).
Proof.
  induction ds as [|d ds IH]; intros base a0 j Hj.
  - destruct j; [reflexivity|cbn in Hj; lia].
  - destruct j as [|j].
    + cbn [firstn upds]. unfold fold_acct. cbn [fold_left]. destruct (aget k d).
      * cbn [acct_of]. destruct (N.leb_spec (base + 1) (base + N.of_nat 0)); [lia|reflexivity].
      * (* no update in d; later ones are after base + 1 *)
        pose proof (upds_in k ds (base + 1)) as Hin.
        destruct (upds k (base + 1) ds) as [|[a r] l]; [reflexivity|]. cbn [acct_of].
        specialize (Hin a r (or_introl eq_refl)).
        destruct (N.leb_spec r (base + N.of_nat 0)); [lia|reflexivity].
    + cbn [length] in Hj. cbn [firstn upds]. unfold fold_acct. cbn [fold_left]. fold (fold_acct k).
      replace (base + N.of_nat (Datatypes.S j)) with ((base + 1) + N.of_nat j) by lia.
      destruct (aget k d) as [x|].
      * cbn [acct_of]. destruct (N.leb_spec (base + 1) (base + 1 + N.of_nat j)); [|lia].
        apply IH. lia.
      * apply IH. lia.
Qed.

Lemma upds_nil k ds base : (forall d, In d ds -> aget k d = None) -> upds k base ds = [].
Proof.
  revert base. induction ds as [|d ds IH]; intros base H; [reflexivity|]. cbn [upds].
  rewrite (H d (or_introl eq_refl)). apply IH. intros d' Hd. apply H. right; exact Hd.
Qed.

(* walking the deltas backwards finds the fold *)
Lemma walk_back_fold k a0 : forall ds,
  fold_acct k a0 ds = match walk_back k (rev ds) with Some a => a | None => a0 end.
Proof.
  intros ds. rewrite <- (rev_involutive ds) at 1. generalize (rev ds) as l. clear ds.
  induction l as [|d l IH]; [reflexivity|]. cbn [rev walk_back]. rewrite fold_acct_app.
  unfold fold_acct at 1. cbn [fold_left]. destruct (aget k d); [reflexivity|exact IH].
Qed.

(* ---------- touched addresses ---------- *)
Lemma add_new_in k l x : In x (add_new k l) <-> x = k \/ In x l.
Proof.
  induction l as [|y l IH]; cbn [add_new]; [cbn; intuition|].
  destruct (N.eqb_spec y k); cbn [In]; [subst; intuition|]. rewrite IH. intuition.
Qed.

Lemma NoDup_add_new k l : NoDup l -> NoDup (add_new k l).
Proof.
  induction l as [|y l IH]; intros H; cbn [add_new]; [constructor; [intros []|constructor]|].
  destruct (N.eqb_spec y k); [exact H|]. inversion H as [|? ? Hnin Hnd]; subst.
  constructor; [|exact (IH Hnd)]. rewrite add_new_in. intros [E|Hin]; [congruence|exact (Hnin Hin)].
Qed.

Lemma aget_some_in {V} k (l : list (N * V)) v : aget k l = Some v -> In k (keys l).
Proof.
  induction l as [|[k2 v2] l IH]; [discriminate|]. cbn [aget keys map fst].
  destruct (N.eqb_spec k2 k); [intros _; left; exact e|intros H; right; exact (IH H)].
Qed.

Lemma aget_none_notin {V} k (l : list (N * V)) : aget k l = None -> ~ In k (keys l).
Proof.
  induction l as [|[k2 v2] l IH]; [intros _ []|]. cbn [aget keys map fst].
  destruct (N.eqb_spec k2 k); [discriminate|]. intros H [E|Hin]; [contradiction|exact (IH H Hin)].
Qed.

Lemma touched_spec ds : NoDup (touched ds) /\
  forall k, In k (touched ds) <-> exists d, In d ds /\ In k (keys d).
Proof.
  unfold touched.
  assert (G : forall ds acc, NoDup acc ->
    NoDup (fold_left (fun acc d => fold_left (fun acc m => add_new (fst m) acc) d acc) ds acc) /\
    forall k, In k (fold_left (fun acc d => fold_left (fun acc (m : N * oacct) => add_new (fst m) acc) d acc) ds acc)
              <-> In k acc \/ exists d, In d ds /\ In k (keys d)).
  { induction ds0 as [|d ds0 IH]; intros acc Hnd; cbn [fold_left].
    - split; [exact Hnd|]. intros k. split; [auto|]. intros [H|(d & [] & _)]. exact H.
    - assert (G1 : forall (d : list (N * oacct)) acc, NoDup acc ->
                NoDup (fold_left (fun acc m => add_new (fst m) acc) d acc) /\
                forall k, In k (fold_left (fun acc (m : N * oacct) => add_new (fst m) acc) d acc) <-> In k acc \/ In k (keys d)).
      { clear. induction d as [|m d IHd]; intros acc Hnd; cbn [fold_left].
        - split; [exact Hnd|]. intros k. cbn. intuition.
        - destruct (IHd (add_new (fst m) acc) (NoDup_add_new _ _ Hnd)) as [H1 H2]. split; [exact H1|].
          intros k. rewrite H2, add_new_in. cbn [keys map In]. intuition. }
      destruct (G1 d acc Hnd) as [Hnd1 Hin1].
      destruct (IH _ Hnd1) as [Hnd2 Hin2]. split; [exact Hnd2|].
      intros k. rewrite Hin2, Hin1. split.
      + intros [[H|H]|(d' & Hd' & Hk)]; [left; exact H|right; exists d; split; [left; reflexivity|exact H]|].
        right. exists d'. split; [right; exact Hd'|exact Hk].
      + intros [H|(d' & [<-|Hd'] & Hk)]; [left; left; exact H|left; right; exact Hk|].
        right. exists d'. split; assumption. }
  destruct (G ds [] (NoDup_nil _)) as [H1 H2]. split; [exact H1|].
  intros k. rewrite H2. split; [intros [[]|H]; exact H|intros H; right; exact H].
Qed.

Lemma upds_untouched k base ds : ~ In k (touched ds) -> upds k base ds = [].
Proof.
  intros H. apply upds_nil. intros d Hd. destruct (aget k d) eqn:E; [|reflexivity].
  exfalso. apply H. apply (proj2 (touched_spec ds)). exists d. split; [exact Hd|exact (aget_some_in _ _ _ E)].
Qed.

(* ---------- onlineAccountsNewRound over the touched addresses ---------- *)
Lemma new_round_spec unit base ds : forall addrs rows rows' upd,
  NoDup addrs -> NoDup (keys rows) ->
  new_round unit base ds addrs rows = Some (rows', upd) ->
  NoDup (keys rows') /\
  (forall k, ~ In k addrs -> tget k rows' = tget k rows) /\
  (forall k, In k addrs -> exists w,
      process unit (old_acct k rows) (upds k base ds) [] = Some w /\
      tget k rows' = w ++ tget k rows /\ In (k, rev w) upd) /\
  (forall k l, In (k, l) upd -> In k addrs) /\
  NoDup (keys upd).
Proof.
  induction addrs as [|k addrs IH]; intros rows rows' upd Hnd Hnr H; cbn [new_round] in H.
  - inversion H; subst. split; [exact Hnr|]. split; [reflexivity|]. split; [intros ? []|].
    split; [intros ? ? []|constructor].
  - inversion Hnd as [|? ? Hnin Hnd']; subst.
    destruct (process unit (old_acct k rows) (upds k base ds) []) as [w|] eqn:Ep; [|discriminate].
    match type of H with match new_round _ _ _ _ ?R with _ => _ end = _ => set (rows1 := R) in * end.
    destruct (new_round unit base ds addrs rows1) as [[rows2 upd2]|] eqn:En; [|discriminate].
    inversion H; subst rows' upd. clear H.
    assert (Hnr1 : NoDup (keys rows1)) by (unfold rows1; destruct w; [exact Hnr|apply NoDup_tset; exact Hnr]).
    assert (Hk1 : tget k rows1 = w ++ tget k rows).
    { unfold rows1. destruct w; [reflexivity|apply tget_tset_same]. }
    assert (Ho1 : forall k', k' <> k -> tget k' rows1 = tget k' rows).
    { intros k' Hne. unfold rows1. destruct w; [reflexivity|apply tget_tset_other; exact Hne]. }
    destruct (IH _ _ _ Hnd' Hnr1 En) as (Hnr2 & Hout & Hin & Hupd & Hndu).
    split; [exact Hnr2|]. split.
    { intros k' Hk'. rewrite Hout by (intros Hc; apply Hk'; right; exact Hc).
      apply Ho1. intros ->. apply Hk'. left; reflexivity. }
    split.
    { intros k' [<-|Hk'].
      - exists w. split; [exact Ep|]. split; [rewrite (Hout k Hnin); exact Hk1|left; reflexivity].
      - destruct (Hin k' Hk') as (w' & Hp & Ht & Hu).
        assert (Hne : k' <> k) by (intros ->; exact (Hnin Hk')).
        exists w'. split.
        + unfold old_acct in *. rewrite (Ho1 k' Hne) in Hp. exact Hp.
        + split; [rewrite Ht, (Ho1 k' Hne); reflexivity|right; exact Hu]. }
    split.
    { intros k' l [[= <- <-]|Hl]; [left; reflexivity|right; exact (Hupd _ _ Hl)]. }
    cbn [keys map fst]. constructor; [|exact Hndu].
    intros Hc. unfold keys in Hc. rewrite in_map_iff in Hc. destruct Hc as ([k2 l2] & E & Hl). cbn in E. subst k2.
    exact (Hnin (Hupd _ _ Hl)).
Qed.

Lemma trim_table_get fb k (t : table) : NoDup (keys t) -> tget k (trim_table fb t) = trim_entries fb (tget k t).
Proof. intros H. rewrite trim_table_tmap. apply tget_tmap; [reflexivity|exact H]. Qed.
