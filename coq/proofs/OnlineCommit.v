(* C13 lemmas, part C3: commit (prepareCommit + commitRound + postCommit), reload and genesis
   preserve / establish the invariant. *)
From Coq Require Import Arith PeanoNat NArith List Bool Lia ZifyN ZifyNat ZifyBool.
From Verif.model Require Import Overflow OnlineAccts OnlineAcctsSpec.
From Verif.proofs Require Import OverflowProofs OnlineEntries OnlineTables OnlineSpecLemmas OnlineInv.
Import ListNotations.
Open Scope N_scope.

(* ---------- lists of consecutive rounds ---------- *)
Lemma skipn_seq m : forall lo n, skipn m (seq lo n) = seq (lo + m) (n - m).
Proof.
  induction m as [|m IH]; intros lo n.
  - rewrite Nat.add_0_r, Nat.sub_0_r. reflexivity.
  - destruct n as [|n]; [reflexivity|]. cbn [seq skipn]. rewrite IH. f_equal. lia.
Qed.

Lemma firstn_seq' m : forall lo n, (m <= n)%nat -> firstn m (seq lo n) = seq lo m.
Proof.
  induction m as [|m IH]; intros lo n H; [reflexivity|].
  destruct n as [|n]; [lia|]. cbn [seq firstn]. f_equal. apply IH. lia.
Qed.

Lemma lastn_map_seq {A} (f : nat -> A) lo n keep : (keep <= n)%nat ->
  lastn keep (map f (seq lo n)) = map f (seq (lo + (n - keep)) keep).
Proof.
  intros H. unfold lastn. rewrite map_length, seq_length, skipn_map, skipn_seq. f_equal. f_equal. lia.
Qed.

Lemma seqN_combine {A} (f : nat -> A) : forall n lo,
  combine (seqN (N.of_nat lo) n) (map f (seq lo n)) = map (fun r => (N.of_nat r, f r)) (seq lo n).
Proof.
  induction n as [|n IH]; intros lo; [reflexivity|]. cbn [seqN seq map combine]. f_equal.
  replace (N.of_nat lo + 1) with (N.of_nat (Datatypes.S lo)) by lia. apply IH.
Qed.

Lemma filter_seq_ge {A} (g : nat -> N * A) (fb : N) : (forall r, fst (g r) = N.of_nat r) ->
  forall n lo,
  filter (fun e => negb (fst e <? fb)) (map g (seq lo n)) =
  map g (seq (Nat.max lo (N.to_nat fb)) (lo + n - Nat.max lo (N.to_nat fb))).
Proof.
  intros Hg. induction n as [|n IH]; intros lo.
  - replace (lo + 0 - Nat.max lo (N.to_nat fb))%nat with O by lia. reflexivity.
  - cbn [seq map filter]. rewrite Hg, IH. destruct (N.ltb_spec (N.of_nat lo) fb) as [Hlt|Hge]; cbn [negb].
    + f_equal. replace (Nat.max (Datatypes.S lo) (N.to_nat fb)) with (Nat.max lo (N.to_nat fb)) by lia.
      f_equal. lia.
    + replace (Nat.max lo (N.to_nat fb)) with lo by lia.
      replace (lo + Datatypes.S n - lo)%nat with (Datatypes.S n) by lia. cbn [seq map]. f_equal.
      replace (Nat.max (Datatypes.S lo) (N.to_nat fb)) with (Datatypes.S lo) by lia.
      f_equal. f_equal. lia.
Qed.

(* ---------- the cache during postCommit ---------- *)
(* writeFrontIfExist of the rows written for one address (oldest first): all of them go in front,
   when the address is cached and they are newer than everything cached *)
Lemma write_front_all k : forall (w_old_first : list entry) (c : table) d,
  tget k c <> [] -> upd_le (tget k c) d ->
  (forall e, In e w_old_first -> d < fst e) ->
  (forall i j e f, nth_error w_old_first i = Some e -> nth_error w_old_first j = Some f -> (i < j)%nat -> fst e < fst f) ->
  let c' := fold_left (fun c e => write_front_if_exist k e c) w_old_first c in
  tget k c' = rev w_old_first ++ tget k c /\
  (forall k', k' <> k -> tget k' c' = tget k' c) /\
  (NoDup (keys c) -> NoDup (keys c')).
Proof.
  induction w_old_first as [|e w IH]; intros c d Hne Hu Hnew Hord; cbn [fold_left rev app].
  - repeat split; auto.
  - assert (He : d < fst e) by (apply Hnew; left; reflexivity).
    assert (Hstep : write_front_if_exist k e c = tset k (e :: tget k c) c).
    { unfold write_front_if_exist. destruct (tget k c) as [|f r] eqn:Ec; [contradiction|].
      assert (fst f <= d) by (apply Hu; left; reflexivity).
      destruct (N.leb_spec (fst e) (fst f)); [lia|reflexivity]. }
    rewrite Hstep.
    assert (Hg : tget k (tset k (e :: tget k c) c) = e :: tget k c) by apply tget_tset_same.
    destruct (IH (tset k (e :: tget k c) c) (fst e)) as (H1 & H2 & H3).
    + rewrite Hg. discriminate.
    + rewrite Hg. intros f [<-|Hf]; [lia|]. specialize (Hu f Hf). lia.
    + intros f Hf. destruct (In_nth_error _ _ Hf) as (j & Hj).
      apply (Hord O (Datatypes.S j) e f); [reflexivity|exact Hj|lia].
    + intros i j e1 f1 Hi Hj Hij. apply (Hord (Datatypes.S i) (Datatypes.S j) e1 f1); [exact Hi|exact Hj|lia].
    + split; [|split].
      * rewrite H1, Hg, <- app_assoc. reflexivity.
      * intros k' Hk'. rewrite (H2 k' Hk'). apply tget_tset_other. exact Hk'.
      * intros Hnd. apply H3. apply NoDup_tset. exact Hnd.
Qed.

Lemma write_front_absent k : forall (w : list entry) (c : table), tget k c = [] ->
  fold_left (fun c e => write_front_if_exist k e c) w c = c.
Proof.
  induction w as [|e w IH]; intros c Hc; [reflexivity|]. cbn [fold_left].
  assert (Hs : write_front_if_exist k e c = c) by (unfold write_front_if_exist; rewrite Hc; reflexivity).
  rewrite Hs. apply IH. exact Hc.
Qed.

(* newest-first sorted list, reversed: strictly increasing by position *)
Lemma sorted_rev_inc (w : list entry) : sorted_desc w ->
  forall i j e f, nth_error (rev w) i = Some e -> nth_error (rev w) j = Some f -> (i < j)%nat -> fst e < fst f.
Proof.
  induction w as [|x w IH]; intros Hs i j e f Hi Hj Hij.
  - destruct i; discriminate.
  - destruct Hs as [Hx Hs]. cbn [rev] in Hi, Hj.
    assert (Hlen : length (rev w) = length w) by apply rev_length.
    destruct (Nat.lt_ge_cases j (length (rev w))) as [Hjl|Hjl].
    + rewrite nth_error_app1 in Hi, Hj by lia. exact (IH Hs i j e f Hi Hj Hij).
    + rewrite nth_error_app2 in Hj by lia.
      destruct (j - length (rev w))%nat as [|jj] eqn:Ej; [|destruct jj; discriminate].
      cbn in Hj. inversion Hj; subst f.
      rewrite nth_error_app1 in Hi by lia. apply Hx. apply in_rev. exact (nth_error_In _ _ Hi).
Qed.

Lemma sorted_app_left (a b : list entry) : sorted_desc (a ++ b) -> sorted_desc a.
Proof.
  induction a as [|x a IH]; [trivial|]. cbn [app sorted_desc]. intros [H1 H2]. split; [|exact (IH H2)].
  intros f Hf. apply H1. apply in_or_app. left; exact Hf.
Qed.

(* same first-match in the new rows, or the same old view *)
Lemma latest_le_app_cases (w es : list entry) r :
  (exists e, latest_le r w = Some e /\ latest_le r (w ++ es) = Some e) \/
  (latest_le r w = None /\ latest_le r (w ++ es) = latest_le r es).
Proof.
  induction w as [|x w IH]; [right; split; reflexivity|]. cbn [app latest_le].
  destruct (fst x <=? r); [left; exists x; split; reflexivity|exact IH].
Qed.

Lemma latest_le_none_all (w : list entry) r : latest_le r w = None -> forall e, In e w -> r < fst e.
Proof.
  induction w as [|x w IH]; [intros _ ? []|]. cbn [latest_le]. destruct (N.leb_spec (fst x) r); [discriminate|].
  intros Hn e [<-|He]; [assumption|exact (IH Hn e He)].
Qed.
