(* C13 lemmas, part C3: commit (prepareCommit + commitRound + postCommit), reload and genesis
   preserve / establish the invariant. *)
From Coq Require Import Arith PeanoNat NArith List Bool Lia ZifyN ZifyNat ZifyBool.
From Verif.model Require Import Overflow OnlineAccts OnlineAcctsSpec.
From Verif.proofs Require Import OverflowProofs OnlineEntries OnlineTables OnlineSpecLemmas OnlineInv.
Import ListNotations.
Open Scope N_scope.

(* ---------- lists of consecutive rounds ---------- *)
Lemma skipn_seq m : forall lo n, skipn m (seq lo n) = seq (lo + m) (n - m).
Proof.
  induction m as [|m IH]; intros lo n.
  - rewrite Nat.add_0_r, Nat.sub_0_r. reflexivity.
  - destruct n as [|n]; [reflexivity|]. cbn [seq skipn]. rewrite IH. f_equal. lia.
Qed.

Lemma firstn_seq' m : forall lo n, (m <= n)%nat -> firstn m (seq lo n) = seq lo m.
Proof.
  induction m as [|m IH]; intros lo n H; [reflexivity|].
  destruct n as [|n]; [lia|]. cbn [seq firstn]. f_equal. apply IH. lia.
Qed.

Lemma lastn_map_seq {A} (f : nat -> A) lo n keep : (keep <= n)%nat ->
  lastn keep (map f (seq lo n)) = map f (seq (lo + (n - keep)) keep).
Proof.
  intros H. unfold lastn. rewrite map_length, seq_length, skipn_map, skipn_seq. f_equal. f_equal. lia.
Qed.

Lemma seqN_combine {A} (f : nat -> A) : forall n lo,
  combine (seqN (N.of_nat lo) n) (map f (seq lo n)) = map (fun r => (N.of_nat r, f r)) (seq lo n).
Proof.
  induction n as [|n IH]; intros lo; [reflexivity|]. cbn [seqN seq map combine]. f_equal.
  replace (N.of_nat lo + 1) with (N.of_nat (Datatypes.S lo)) by lia. apply IH.
Qed.

Lemma filter_seq_ge {A} (g : nat -> N * A) (fb : N) : (forall r, fst (g r) = N.of_nat r) ->
  forall n lo,
  filter (fun e => negb (fst e <? fb)) (map g (seq lo n)) =
  map g (seq (Nat.max lo (N.to_nat fb)) (lo + n - Nat.max lo (N.to_nat fb))).
Proof.
  intros Hg. induction n as [|n IH]; intros lo.
  - replace (lo + 0 - Nat.max lo (N.to_nat fb))%nat with O by lia. reflexivity.
  - cbn [seq map filter]. rewrite Hg, IH. destruct (N.ltb_spec (N.of_nat lo) fb) as [Hlt|Hge]; cbn [negb].
    + f_equal. replace (Nat.max (Datatypes.S lo) (N.to_nat fb)) with (Nat.max lo (N.to_nat fb)) by lia.
      f_equal. lia.
    + replace (Nat.max lo (N.to_nat fb)) with lo by lia.
      replace (lo + Datatypes.S n - lo)%nat with (Datatypes.S n) by lia. cbn [seq map]. f_equal.
      replace (Nat.max (Datatypes.S lo) (N.to_nat fb)) with (Datatypes.S lo) by lia.
      f_equal. f_equal. lia.
Qed.

(* ---------- the cache during postCommit ---------- *)
(* writeFrontIfExist of the rows written for one address (oldest first): all of them go in front,
   when the address is cached and they are newer than everything cached *)
Lemma write_front_all k : forall (w_old_first : list entry) (c : table) d,
  tget k c <> [] -> upd_le (tget k c) d ->
  (forall e, In e w_old_first -> d < fst e) ->
  (forall i j e f, nth_error w_old_first i = Some e -> nth_error w_old_first j = Some f -> (i < j)%nat -> fst e < fst f) ->
  let c' := fold_left (fun c e => write_front_if_exist k e c) w_old_first c in
  tget k c' = rev w_old_first ++ tget k c /\
  (forall k', k' <> k -> tget k' c' = tget k' c) /\
  (NoDup (keys c) -> NoDup (keys c')).
Proof.
  induction w_old_first as [|e w IH]; intros c d Hne Hu Hnew Hord; cbn [fold_left rev app].
  - repeat split; auto.
  - assert (He : d < fst e) by (apply Hnew; left; reflexivity).
    assert (Hstep : write_front_if_exist k e c = tset k (e :: tget k c) c).
    { unfold write_front_if_exist. destruct (tget k c) as [|f r] eqn:Ec; [contradiction|].
      assert (fst f <= d) by (apply Hu; left; reflexivity).
      destruct (N.leb_spec (fst e) (fst f)); [lia|reflexivity]. }
    rewrite Hstep.
    assert (Hg : tget k (tset k (e :: tget k c) c) = e :: tget k c) by apply tget_tset_same.
    destruct (IH (tset k (e :: tget k c) c) (fst e)) as (H1 & H2 & H3).
    + rewrite Hg. discriminate.
    + rewrite Hg. intros f [<-|Hf]; [lia|]. specialize (Hu f Hf). lia.
    + intros f Hf. destruct (In_nth_error _ _ Hf) as (j & Hj).
      apply (Hord O (Datatypes.S j) e f); [reflexivity|exact Hj|lia].
    + intros i j e1 f1 Hi Hj Hij. apply (Hord (Datatypes.S i) (Datatypes.S j) e1 f1); [exact Hi|exact Hj|lia].
    + split; [|split].
      * rewrite H1, Hg, <- app_assoc. reflexivity.
      * intros k' Hk'. rewrite (H2 k' Hk'). apply tget_tset_other. exact Hk'.
      * intros Hnd. apply H3. apply NoDup_tset. exact Hnd.
Qed.

Lemma write_front_absent k : forall (w : list entry) (c : table), tget k c = [] ->
  fold_left (fun c e => write_front_if_exist k e c) w c = c.
Proof.
  induction w as [|e w IH]; intros c Hc; [reflexivity|]. cbn [fold_left].
  assert (Hs : write_front_if_exist k e c = c) by (unfold write_front_if_exist; rewrite Hc; reflexivity).
  rewrite Hs. apply IH. exact Hc.
Qed.

(* newest-first sorted list, reversed: strictly increasing by position *)
Lemma sorted_rev_inc (w : list entry) : sorted_desc w ->
  forall i j e f, nth_error (rev w) i = Some e -> nth_error (rev w) j = Some f -> (i < j)%nat -> fst e < fst f.
Proof.
  induction w as [|x w IH]; intros Hs i j e f Hi Hj Hij.
  - destruct i; discriminate.
  - destruct Hs as [Hx Hs]. cbn [rev] in Hi, Hj.
    assert (Hlen : length (rev w) = length w) by apply rev_length.
    destruct (Nat.lt_ge_cases j (length (rev w))) as [Hjl|Hjl].
    + rewrite nth_error_app1 in Hi, Hj by lia. exact (IH Hs i j e f Hi Hj Hij).
    + rewrite nth_error_app2 in Hj by lia.
      destruct (j - length (rev w))%nat as [|jj] eqn:Ej; [|destruct jj; discriminate].
      cbn in Hj. inversion Hj; subst f.
      rewrite nth_error_app1 in Hi by lia. apply Hx. apply in_rev. exact (nth_error_In _ _ Hi).
Qed.

Lemma sorted_app_left (a b : list entry) : sorted_desc (a ++ b) -> sorted_desc a.
Proof.
  induction a as [|x a IH]; [intros _; exact I|]. cbn [app sorted_desc]. intros [H1 H2]. split; [|exact (IH H2)].
  intros f Hf. apply H1. apply in_or_app. left; exact Hf.
Qed.

(* same first-match in the new rows, or the same old view *)
Lemma latest_le_app_cases (w es : list entry) r :
  (exists e, latest_le r w = Some e /\ latest_le r (w ++ es) = Some e) \/
  (latest_le r w = None /\ latest_le r (w ++ es) = latest_le r es).
Proof.
  induction w as [|x w IH]; [right; split; reflexivity|]. cbn [app latest_le].
  destruct (fst x <=? r); [left; exists x; split; reflexivity|exact IH].
Qed.

Lemma latest_le_none_all (w : list entry) r : latest_le r w = None -> forall e, In e w -> r < fst e.
Proof.
  induction w as [|x w IH]; [intros _ ? []|]. cbn [latest_le]. destruct (N.leb_spec (fst x) r); [discriminate|].
  intros Hn e [<-|He]; [assumption|exact (IH Hn e He)].
Qed.

Lemma aget_in_nodup {V} k (v : V) (l : list (N * V)) : NoDup (keys l) -> In (k, v) l -> aget k l = Some v.
Proof.
  induction l as [|[k2 v2] l IH]; intros Hnd Hin; [destruct Hin|].
  inversion Hnd as [|? ? Hnin Hnd']; subst. cbn [aget]. destruct Hin as [[= -> ->]|Hin].
  - rewrite N.eqb_refl. reflexivity.
  - destruct (N.eqb_spec k2 k) as [->|]; [|exact (IH Hnd' Hin)].
    exfalso. apply Hnin. unfold keys. rewrite in_map_iff. exists (k, v). split; [reflexivity|exact Hin].
Qed.

Definition increasing (l : list entry) : Prop :=
  forall i j e f, nth_error l i = Some e -> nth_error l j = Some f -> (i < j)%nat -> fst e < fst f.

(* postCommit: writeFrontIfExist of every row written, address by address *)
Lemma cache_writes d : forall (upd : list (N * list entry)) (c : table),
  NoDup (keys upd) -> NoDup (keys c) ->
  (forall k l, In (k, l) upd -> upd_le (tget k c) d /\ (forall e, In e l -> d < fst e) /\ increasing l) ->
  let c' := fold_left (fun c ku => fold_left (fun c e => write_front_if_exist (fst ku) e c) (snd ku) c) upd c in
  NoDup (keys c') /\
  forall k, tget k c' = match aget k upd with
                        | Some l => match tget k c with [] => [] | _ => rev l ++ tget k c end
                        | None => tget k c
                        end.
Proof.
  induction upd as [|[k0 l0] upd IH]; intros c Hnu Hnc Hh; cbn [fold_left fst snd].
  - split; [exact Hnc|reflexivity].
  - inversion Hnu as [|? ? Hk0 Hnu']; subst.
    set (c1 := fold_left (fun c e => write_front_if_exist k0 e c) l0 c).
    destruct (Hh k0 l0 (or_introl eq_refl)) as (Hu0 & Hn0 & Hi0).
    assert (Hc1 : tget k0 c1 = match tget k0 c with [] => [] | _ => rev l0 ++ tget k0 c end /\
                  (forall k', k' <> k0 -> tget k' c1 = tget k' c) /\ NoDup (keys c1)).
    { destruct (tget k0 c) as [|f0 r0] eqn:Ec.
      - unfold c1. rewrite write_front_absent by exact Ec. split; [exact Ec|]. split; [reflexivity|exact Hnc].
      - destruct (write_front_all k0 l0 c d) as (W1 & W2 & W3).
        + rewrite Ec. discriminate.
        + rewrite Ec. exact Hu0.
        + exact Hn0.
        + exact Hi0.
        + fold c1 in W1, W2, W3. rewrite Ec in W1. split; [exact W1|]. split; [exact W2|exact (W3 Hnc)]. }
    destruct Hc1 as (Hc1a & Hc1b & Hc1c).
    destruct (IH c1 Hnu' Hc1c) as (G1 & G2).
    { intros k l Hin. assert (Hne : k <> k0).
      { intros ->. apply Hk0. unfold keys. rewrite in_map_iff. exists (k0, l). split; [reflexivity|exact Hin]. }
      rewrite (Hc1b k Hne). apply (Hh k l). right; exact Hin. }
    split; [exact G1|]. intros k. rewrite G2. cbn [aget]. destruct (N.eqb_spec k0 k) as [->|Hne].
    + rewrite (aget_notin k upd Hk0). exact Hc1a.
    + rewrite (Hc1b k) by congruence. reflexivity.
Qed.

Lemma latest_le_prefix (a b : list entry) r e : latest_le r a = Some e -> latest_le r (a ++ b) = Some e.
Proof.
  intros H. destruct (latest_le_app_cases a b r) as [(e' & H1 & H2)|[H1 _]]; [|congruence].
  rewrite H1 in H. inversion H; subst. exact H2.
Qed.

(* ---------- commit ---------- *)
Lemma params_offset_of supply0 s bs hm r :
  o_latest s = N.of_nat (length bs) ->
  o_params s = map (params_spec supply0 bs) (seq hm (Datatypes.S (length bs) - hm)) ->
  (hm <= r)%nat -> (r <= length bs)%nat ->
  params_offset s (N.of_nat r) = Some (r - hm)%nat.
Proof.
  intros Hlat Hpar H1 H2.
  assert (Hplen : length (o_params s) = (Datatypes.S (length bs) - hm)%nat) by (rewrite Hpar, map_length, seq_length; reflexivity).
  assert (Hst : params_start s = N.of_nat hm) by (unfold params_start; rewrite Hlat, Hplen; lia).
  unfold params_offset. rewrite Hst, Hplen.
  destruct (N.ltb_spec (N.of_nat r) (N.of_nat hm)); [lia|].
  destruct (Nat.leb_spec (Datatypes.S (length bs) - hm) (N.to_nat (N.of_nat r - N.of_nat hm))); [lia|].
  f_equal. lia.
Qed.

Lemma skipn_skipn {A} (a b : nat) (l : list A) : skipn a (skipn b l) = skipn (b + a) l.
Proof.
  revert l. induction b as [|b IH]; intros l; [reflexivity|]. destruct l as [|x l]; [destruct a; reflexivity|].
  cbn [skipn Nat.add]. apply IH.
Qed.

Lemma In_firstn {A} (x : A) n l : In x (firstn n l) -> In x l.
Proof. intros H. rewrite <- (firstn_skipn n l). apply in_or_app. left; exact H. Qed.

Theorem inv_commit p G supply0 bs s off lowest s' :
  Inv G supply0 bs s -> 1 <= op_maxbal p ->
  commit p s off lowest = Some s' -> Inv G supply0 bs s'.
Proof.
  intros Hinv Hmb Hc. pose proof (inv_latest _ _ _ _ Hinv) as Hlat.
  unfold commit in Hc.
  destruct (Nat.ltb_spec (length (o_deltas s)) off) as [|Hoff]; [discriminate|].
  destruct (Nat.eqb_spec off 0) as [|Hoff0]; [inversion Hc; subst s'; exact Hinv|].
  destruct Hinv as [dn hm H Hdb Hdn Hdl Hand Hacc [HH Hhm] Hpar Hdbp Hrnd Hrows Hcnd Hcache].
  assert (Hdlen : length (o_deltas s) = (length bs - dn)%nat) by (rewrite Hdl, map_length, skipn_length; reflexivity).
  set (dn' := (dn + off)%nat).
  assert (Enew : o_db s + N.of_nat off = N.of_nat dn') by (unfold dn'; lia).
  rewrite Hdb in Hc.
  rewrite (params_offset_of supply0 s bs hm dn Hlat Hpar) in Hc by lia.
  replace (N.of_nat dn + N.of_nat off) with (N.of_nat dn') in Hc by lia.
  rewrite (params_offset_of supply0 s bs hm dn' Hlat Hpar) in Hc by (unfold dn'; lia).
  set (ds := firstn off (o_deltas s)) in *.
  set (fb0 := N.of_nat dn' + 1 - op_maxbal p) in *.
  set (fb := if (0 <? lowest) && (lowest <? fb0) then lowest else fb0) in *.
  assert (Hfb : fb <= fb0) by (unfold fb; destruct ((0 <? lowest) && (lowest <? fb0)) eqn:E; [apply andb_true_iff in E as [_ E]; apply N.ltb_lt in E; lia|lia]).
  assert (Hfb0 : fb0 <= N.of_nat dn') by (unfold fb0; lia).
  destruct (new_round (op_unit p) (N.of_nat dn) ds (touched ds) (o_rows s)) as [[rows1 updated]|] eqn:Enr; [|discriminate].
  destruct (drop_counts ds (touched ds) (o_accts s)) as [accts'|] eqn:Edc; [|discriminate].
  inversion Hc; subst s'. clear Hc.
  destruct (touched_spec ds) as [Htnd Htin].
  destruct (new_round_spec _ _ _ _ _ _ _ Htnd Hrnd Enr) as (Hr1nd & Hr1out & Hr1in & Hupd_in & Hupd_nd).
  (* the deltas being committed, as seen from the history *)
  assert (Hds_all : ds ++ skipn off (o_deltas s) = o_deltas s) by apply firstn_skipn.
  assert (Hacct_j : forall k (j : nat), (j <= off)%nat ->
            acct_at G bs (dn + j) k = acct_of (upds k (N.of_nat dn) ds) (acct_at G bs dn k) (N.of_nat dn + N.of_nat j)).
  { intros k j Hj. rewrite acct_at_add, <- Hdl.
    rewrite (acct_of_upds k ds (N.of_nat dn) _ j) by (unfold ds; rewrite firstn_length; lia).
    unfold ds. rewrite firstn_firstn. replace (Nat.min j off) with j by lia. reflexivity. }
  (* new H *)
  set (H' := Nat.max H (N.to_nat fb)).
  assert (HH' : (H <= H')%nat /\ N.of_nat H' = N.max (N.of_nat H) fb) by (unfold H'; lia).
  (* rows after onlineAccountsNewRound, per address *)
  assert (Hrows1 : forall k, exists w,
            tget k rows1 = w ++ tget k (o_rows s) /\
            sorted_desc (w ++ tget k (o_rows s)) /\ wf_data (w ++ tget k (o_rows s)) /\
            (forall e, In e w -> N.of_nat dn < fst e /\ fst e <= N.of_nat dn') /\
            (forall r, N.of_nat dn <= r -> r <= N.of_nat dn' -> view (w ++ tget k (o_rows s)) r = tgt_at G bs r k)).
  { intros k. destruct (Hrows k) as (Hsort & Hwf & Hupd & Hracc). rewrite Hdb in Hupd, Hracc.
    assert (Hproc : exists w, process (op_unit p) (old_acct k (o_rows s)) (upds k (N.of_nat dn) ds) [] = Some w /\
                              tget k rows1 = w ++ tget k (o_rows s)).
    { destruct (in_dec N.eq_dec k (touched ds)) as [Hin|Hnin].
      - destruct (Hr1in k Hin) as (w & Hp & Ht & _). exists w. split; assumption.
      - exists []. rewrite (upds_untouched k _ ds Hnin). split; [reflexivity|]. cbn [app]. apply Hr1out. exact Hnin. }
    destruct Hproc as (w & Hp & Ht). exists w. split; [exact Ht|].
    assert (Hhd : old_acct k (o_rows s) = head_data ([] ++ tget k (o_rows s))) by reflexivity.
    rewrite Hhd in Hp.
    destruct (process_spec (op_unit p) (tget k (o_rows s)) (upds k (N.of_nat dn) ds) [] (acct_at G bs dn k) (N.of_nat dn) w
                Hsort Hwf Hupd) as (new & Ew & Hs' & Hwf' & Hn1 & Hn2 & Hview).
    - cbn [app]. rewrite (Hracc (N.of_nat dn)) by lia. unfold tgt_at. rewrite Nat2N.id. reflexivity.
    - apply upds_rounds.
    - exact Hp.
    - rewrite app_nil_r in Ew. subst new. split; [exact Hs'|]. split; [exact Hwf'|]. split.
      + intros e He. split; [exact (Hn1 e He)|]. destruct (Hn2 e He) as (a & r & Hin & ->).
        apply upds_in in Hin. unfold ds in Hin. rewrite firstn_length in Hin. unfold dn'. lia.
      + intros r Hlo Hhi. rewrite (Hview r Hlo). unfold tgt_at. f_equal.
        replace (N.to_nat r) with (dn + N.to_nat (r - N.of_nat dn))%nat by lia.
        rewrite (Hacct_j k (N.to_nat (r - N.of_nat dn))) by (unfold dn' in Hhi; lia).
        f_equal. lia. }
  apply (mkInv _ _ _ _ dn' (if Nat.ltb (N.to_nat (op_maxbal p) + length (skipn off (o_deltas s))) (length (o_params s))
                            then (hm + (Datatypes.S (length bs) - hm - (N.to_nat (op_maxbal p) + length (skipn off (o_deltas s)))))%nat
                            else hm) H');
    cbn [o_db o_deltas o_accts o_params o_rows o_dbparams o_cache].
  - (* db round *) reflexivity.
  - unfold dn'. lia.
  - (* deltas *) rewrite Hdl, skipn_map, skipn_skipn. reflexivity.
  - (* accounts map: NoDup *)
    destruct (drop_counts_spec ds (skipn off (o_deltas s)) (touched ds) (o_accts s) accts' Htnd Hand) as [Hnd' _]; try exact Edc.
    + intros k. left. rewrite Hds_all. apply Hacc.
    + intros k Hk. split; [rewrite Hds_all; apply Hacc|].
      apply Htin in Hk. destruct Hk as (d & Hd & Hkd). intros Hz. rewrite count_zero_none in Hz.
      specialize (Hz d Hd). apply aget_none_notin in Hz. exact (Hz Hkd).
    + intros k Hk. left. apply count_zero_none. intros d Hd. destruct (aget k d) eqn:E; [|reflexivity].
      exfalso. apply Hk. apply Htin. exists d. split; [exact Hd|exact (aget_some_in _ _ _ E)].
    + exact Hnd'.
  - (* accounts map: contents *)
    destruct (drop_counts_spec ds (skipn off (o_deltas s)) (touched ds) (o_accts s) accts' Htnd Hand) as [_ Hget']; try exact Edc.
    + intros k. left. rewrite Hds_all. apply Hacc.
    + intros k Hk. split; [rewrite Hds_all; apply Hacc|].
      apply Htin in Hk. destruct Hk as (d & Hd & Hkd). intros Hz. rewrite count_zero_none in Hz.
      specialize (Hz d Hd). apply aget_none_notin in Hz. exact (Hz Hkd).
    + intros k Hk. left. apply count_zero_none. intros d Hd. destruct (aget k d) eqn:E; [|reflexivity].
      exfalso. apply Hk. apply Htin. exists d. split; [exact Hd|exact (aget_some_in _ _ _ E)].
    + exact Hget'.
  - (* H' <= hm' <= dn' *)
    assert (Hplen : length (o_params s) = (Datatypes.S (length bs) - hm)%nat) by (rewrite Hpar, map_length, seq_length; reflexivity).
    rewrite skipn_length, Hdlen, Hplen.
    destruct (Nat.ltb_spec (N.to_nat (op_maxbal p) + (length bs - dn - off)) (Datatypes.S (length bs) - hm)) as [Ht|Ht];
      unfold H', dn', fb0 in *; lia.
  - (* params *)
    assert (Hplen : length (o_params s) = (Datatypes.S (length bs) - hm)%nat) by (rewrite Hpar, map_length, seq_length; reflexivity).
    destruct (Nat.ltb_spec (N.to_nat (op_maxbal p) + length (skipn off (o_deltas s))) (length (o_params s))) as [Ht|Ht].
    + rewrite Hpar at 1. rewrite lastn_map_seq by (rewrite Hplen in Ht; lia). f_equal.
      rewrite Hplen in Ht. f_equal. lia.
    + exact Hpar.
  - (* onlineroundparamstail *)
    change (match o_params s with [] => [] | _ :: l => skipn (dn - hm) l end) with (skipn (Datatypes.S (dn - hm)) (o_params s)).
    rewrite Hdbp. rewrite Hpar. rewrite skipn_map, firstn_map, skipn_seq, firstn_seq' by lia.
    replace (hm + Datatypes.S (dn - hm))%nat with (Datatypes.S dn) by lia.
    replace (dn' - hm - (dn - hm))%nat with off by (unfold dn'; lia).
    rewrite map_length, seq_length.
    replace (N.of_nat dn + 1) with (N.of_nat (Datatypes.S dn)) by lia.
    rewrite (seqN_combine (params_spec supply0 bs) off (Datatypes.S dn)).
    rewrite <- map_app.
    replace (seq H (Datatypes.S dn - H) ++ seq (Datatypes.S dn) off) with (seq H (Datatypes.S dn' - H)).
    2:{ replace (Datatypes.S dn' - H)%nat with ((Datatypes.S dn - H) + off)%nat by (unfold dn'; lia).
        rewrite seq_app. f_equal. f_equal. lia. }
    rewrite (filter_seq_ge (fun r => (N.of_nat r, params_spec supply0 bs r)) fb (fun r => eq_refl)).
    fold H'. f_equal. f_equal. unfold H', dn', fb0 in *. lia.
  - (* rows: NoDup *) rewrite trim_table_tmap. apply NoDup_tmap. exact Hr1nd.
  - (* rows: per address *)
    intros k. rewrite trim_table_tmap, tget_tmap by (try reflexivity; exact Hr1nd).
    destruct (Hrows1 k) as (w & Ew & Hs' & Hwf' & Hwb & Hview). rewrite Ew.
    destruct (Hrows k) as (Hsort & Hwf & Hupd & Hracc). rewrite Hdb in Hupd, Hracc.
    split; [apply trim_sorted; exact Hs'|]. split; [apply trim_wf; exact Hwf'|]. split.
    + apply trim_upd_le. intros e He. apply in_app_or in He as [He|He].
      * exact (proj2 (Hwb e He)).
      * specialize (Hupd e He). unfold dn'. lia.
    + intros r Hlo Hhi. rewrite trim_view by (try exact Hwf'; lia).
      destruct (N.le_gt_cases r (N.of_nat dn)) as [Hle|Hgt].
      * rewrite view_app_new by (intros e He; specialize (Hwb e He); lia). apply Hracc; lia.
      * apply Hview; lia.
  - (* cache: NoDup *)
    rewrite prune_cache_tmap. apply NoDup_tmap.
    destruct (cache_writes (N.of_nat dn) updated (o_cache s) Hupd_nd Hcnd) as [Gnd _]; [|exact Gnd].
    intros k l Hin. destruct (Hcache k) as [Hcu _]. rewrite Hdb in Hcu. split; [exact Hcu|].
    pose proof (Hupd_in _ _ Hin) as Htk. destruct (Hr1in k Htk) as (w & Hp & Ht & Hu).
    assert (l = rev w).
    { pose proof (aget_in_nodup _ _ _ Hupd_nd Hin) as E1. pose proof (aget_in_nodup _ _ _ Hupd_nd Hu) as E2. congruence. }
    subst l. destruct (Hrows1 k) as (w2 & Ew2 & Hs2 & _ & Hwb & _). rewrite Ht in Ew2. apply app_inv_tail in Ew2. subst w2.
    split.
    + intros e He. apply in_rev in He. exact (proj1 (Hwb e He)).
    + unfold increasing. apply sorted_rev_inc. exact (sorted_app_left _ _ Hs2).
  - (* cache: per address *)
    intros k. rewrite prune_cache_tmap.
    set (cache1 := fold_left (fun c ku => fold_left (fun c e => write_front_if_exist (fst ku) e c) (snd ku) c) updated (o_cache s)).
    destruct (cache_writes (N.of_nat dn) updated (o_cache s) Hupd_nd Hcnd) as [Gnd Gget].
    { intros k' l Hin. destruct (Hcache k') as [Hcu' _]. rewrite Hdb in Hcu'. split; [exact Hcu'|].
      pose proof (Hupd_in _ _ Hin) as Htk. destruct (Hr1in k' Htk) as (w & Hp & Ht & Hu).
      assert (l = rev w).
      { pose proof (aget_in_nodup _ _ _ Hupd_nd Hin) as E1. pose proof (aget_in_nodup _ _ _ Hupd_nd Hu) as E2. congruence. }
      subst l. destruct (Hrows1 k') as (w2 & Ew2 & Hs2 & _ & Hwb & _). rewrite Ht in Ew2. apply app_inv_tail in Ew2. subst w2.
      split.
      - intros e He. apply in_rev in He. exact (proj1 (Hwb e He)).
      - unfold increasing. apply sorted_rev_inc. exact (sorted_app_left _ _ Hs2). }
    fold cache1 in Gnd, Gget.
    rewrite tget_tmap by (try reflexivity; exact Gnd).
    destruct (Hcache k) as (Hcu & Hca). rewrite Hdb in Hcu, Hca.
    destruct (Hrows k) as (Hsort & Hwf & Hupd & Hracc). rewrite Hdb in Hupd, Hracc.
    destruct (Hrows1 k) as (w & Ew & Hs' & Hwf' & Hwb & Hview).
    (* what the writes left for k: nothing, or the rows written in front of what was cached *)
    assert (Hk1 : tget k cache1 = [] \/ tget k cache1 = w ++ tget k (o_cache s)).
    { rewrite Gget. destruct (in_dec N.eq_dec k (touched ds)) as [Hin|Hnin].
      - destruct (Hr1in k Hin) as (w3 & Hp3 & Ht3 & Hu3). rewrite Ht3 in Ew. apply app_inv_tail in Ew. subst w3.
        rewrite (aget_in_nodup _ _ _ Hupd_nd Hu3), rev_involutive.
        destruct (tget k (o_cache s)); [left; reflexivity|right; reflexivity].
      - assert (Hnone : aget k updated = None).
        { apply aget_notin. intros Hk. unfold keys in Hk. rewrite in_map_iff in Hk. destruct Hk as ([k2 l2] & E & Hl).
          cbn in E. subst k2. exact (Hnin (Hupd_in _ _ Hl)). }
        rewrite Hnone. right.
        rewrite (Hr1out k Hnin) in Ew. assert (w = []).
        { destruct w as [|x w']; [reflexivity|]. exfalso.
          assert (Hl : length (tget k (o_rows s)) = length ((x :: w') ++ tget k (o_rows s))) by (rewrite <- Ew; reflexivity).
          rewrite app_length in Hl. cbn in Hl. lia. }
        subst w. reflexivity. }
    assert (Hacc1 : upd_le (tget k cache1) (N.of_nat dn') /\
                    cache_acc G bs k (tget k cache1) (N.of_nat H) (N.of_nat dn')).
    { destruct Hk1 as [E|E]; rewrite E.
      - split; [intros ? []|intros ? ? _ _ Hc; discriminate].
      - split.
        + intros e He. apply in_app_or in He as [He|He]; [exact (proj2 (Hwb e He))|].
          specialize (Hcu e He). unfold dn'. lia.
        + intros r e Hlo Hhi He.
          destruct (latest_le_app_cases w (tget k (o_cache s)) r) as [(e' & Hw1 & Hw2)|[Hw1 Hw2]].
          * (* answered by a row written now *)
            rewrite Hw2 in He. inversion He; subst e'.
            pose proof (latest_le_in _ _ _ Hw1) as [Hin Hle]. destruct (Hwb e Hin) as [Hgt _].
            rewrite <- (Hview r) by lia. unfold view. rewrite (latest_le_prefix _ _ _ _ Hw1). reflexivity.
          * rewrite Hw2 in He.
            destruct (N.le_gt_cases r (N.of_nat dn)) as [Hle|Hgt]; [exact (Hca r e Hlo Hle He)|].
            rewrite (latest_le_beyond _ _ r Hcu) in He by lia.
            rewrite (Hca (N.of_nat dn) e) by (try lia; exact He).
            rewrite <- (Hview r) by lia. rewrite <- (Hracc (N.of_nat dn)) by lia.
            rewrite view_app_new by (apply latest_le_none_all; exact Hw1).
            symmetry. apply view_beyond; [exact Hupd|lia]. }
    destruct Hacc1 as (Hu1 & Ha1).
    destruct (prune_addr_prefix fb0 (tget k cache1)) as [E|(dropped & E)].
    + rewrite E. split; [intros ? []|intros ? ? _ _ Hc; discriminate].
    + split.
      * intros e He. apply Hu1. rewrite E. apply in_or_app. left; exact He.
      * intros r e Hlo Hhi He. apply (Ha1 r e); [lia|exact Hhi|]. rewrite E. apply latest_le_prefix. exact He.
Qed.

(* ---------- reload: loadFromDisk + replay ---------- *)
Lemma seq_shift_map {B} (f : nat -> B) n lo : map f (seq (Datatypes.S lo) n) = map (fun i => f (Datatypes.S i)) (seq lo n).
Proof. rewrite <- seq_shift, map_map. reflexivity. Qed.

Lemma map_nth_skipn {A B} (g : A -> B) (d0 : B) : forall (l : list A) dn,
  map (fun i => match nth_error l i with Some x => g x | None => d0 end) (seq dn (length l - dn)) = map g (skipn dn l).
Proof.
  induction l as [|x l IH]; intros dn.
  - destruct dn; reflexivity.
  - destruct dn as [|dn].
    + cbn [length Nat.sub seq map skipn nth_error]. f_equal.
      rewrite seq_shift_map. cbn [nth_error]. specialize (IH O). rewrite Nat.sub_0_r in IH. exact IH.
    + cbn [length skipn]. replace (Datatypes.S (length l) - Datatypes.S dn)%nat with (length l - dn)%nat by lia.
      rewrite seq_shift_map. cbn [nth_error]. apply IH.
Qed.

Lemma acct_at_firstn G bs dn r k : (r <= dn)%nat -> acct_at G (firstn dn bs) r k = acct_at G bs r k.
Proof. intros H. unfold acct_at. rewrite firstn_firstn. replace (Nat.min r dn) with r by lia. reflexivity. Qed.

Lemma params_spec_firstn supply0 bs dn r : (r <= dn)%nat -> (dn <= length bs)%nat ->
  params_spec supply0 (firstn dn bs) r = params_spec supply0 bs r.
Proof.
  intros H Hd. destruct r as [|r]; [reflexivity|]. cbn [params_spec].
  rewrite <- (firstn_skipn dn bs) at 2. rewrite nth_error_app1 by (rewrite firstn_length; lia). reflexivity.
Qed.

Lemma cache_init_get max (rows : table) k : NoDup (keys rows) ->
  tget k (cache_init max rows) = tget k rows \/ tget k (cache_init max rows) = [].
Proof.
  intros _. unfold cache_init. generalize (firstn max (sorted_keys rows)) as ks.
  induction ks as [|k0 ks IH]; [right; reflexivity|]. cbn [map tget].
  destruct (N.eqb_spec k0 k) as [->|]; [left; reflexivity|exact IH].
Qed.

Lemma ins_key_in k l x : In x (ins_key k l) <-> x = k \/ In x l.
Proof.
  induction l as [|y l IH]; cbn [ins_key]; [cbn; intuition|].
  destruct (k <? y); [cbn; intuition|]. destruct (N.eqb_spec k y); [subst; cbn; intuition|].
  cbn [In]. rewrite IH. intuition.
Qed.

Fixpoint incN (l : list N) : Prop :=
  match l with [] => True | x :: r => (forall y, In y r -> x < y) /\ incN r end.

Lemma ins_key_inc k l : incN l -> incN (ins_key k l).
Proof.
  induction l as [|y l IH]; intros H; cbn [ins_key]; [cbn; split; [intros ? []|exact I]|].
  destruct H as [H1 H2]. destruct (N.ltb_spec k y) as [Hlt|Hge].
  - cbn [incN]. split; [|split; assumption]. intros z [<-|Hz]; [exact Hlt|specialize (H1 z Hz); lia].
  - destruct (N.eqb_spec k y); [split; assumption|]. cbn [incN]. split; [|exact (IH H2)].
    intros z Hz. apply ins_key_in in Hz as [->|Hz]; [lia|exact (H1 z Hz)].
Qed.

Lemma incN_NoDup l : incN l -> NoDup l.
Proof.
  induction l as [|x l IH]; intros H; [constructor|]. destruct H as [H1 H2].
  constructor; [|exact (IH H2)]. intros Hin. specialize (H1 x Hin). lia.
Qed.

Lemma incN_firstn n l : incN l -> incN (firstn n l).
Proof.
  revert l. induction n as [|n IH]; intros l H; [exact I|]. destruct l as [|x l]; [exact I|].
  destruct H as [H1 H2]. cbn [firstn incN]. split; [|exact (IH l H2)].
  intros y Hy. apply H1. exact (In_firstn _ _ _ Hy).
Qed.

Lemma sorted_keys_inc (t : table) : incN (sorted_keys t).
Proof.
  unfold sorted_keys. induction (map fst t) as [|k l IH]; [exact I|]. cbn [fold_right]. apply ins_key_inc. exact IH.
Qed.

Lemma cache_init_nodup max (rows : table) : NoDup (keys (cache_init max rows)).
Proof.
  unfold cache_init, keys. rewrite map_map. cbn [fst]. rewrite map_id.
  apply incN_NoDup. apply incN_firstn. apply sorted_keys_inc.
Qed.

(* replaying blocks over a state that satisfies the invariant for a prefix of the history *)
Lemma inv_replay G supply0 : forall (tl : list oblock) (pre : list oblock) s,
  Inv G supply0 pre s -> Forall block_ok tl ->
  Inv G supply0 (pre ++ tl)
      (fold_left (fun st br => new_block st (fst br) (rp_supply (snd br)) (rp_level (snd br)))
                 (map (fun b => (ob_mods b, mkRP (ob_supply b) (ob_level b))) tl) s).
Proof.
  induction tl as [|b tl IH]; intros pre s Hinv Hok; cbn [map fold_left].
  - rewrite app_nil_r. exact Hinv.
  - inversion Hok as [|? ? Hb Hok']; subst. cbn [fst snd rp_supply rp_level].
    replace (pre ++ b :: tl) with ((pre ++ [b]) ++ tl) by (rewrite <- app_assoc; reflexivity).
    apply IH; [|exact Hok']. apply inv_new_block; assumption.
Qed.

Theorem inv_reload p G supply0 bs s s' :
  Inv G supply0 bs s -> blocks_ok bs -> reload p s = Some s' -> Inv G supply0 bs s'.
Proof.
  intros Hinv Hok Hr. pose proof (inv_latest _ _ _ _ Hinv) as Hlat.
  destruct Hinv as [dn hm H Hdb Hdn Hdl Hand Hacc [HH Hhm] Hpar Hdbp Hrnd Hrows Hcnd Hcache].
  assert (Hdlen : length (o_deltas s) = (length bs - dn)%nat) by (rewrite Hdl, map_length, skipn_length; reflexivity).
  unfold reload in Hr.
  destruct (last (map (fun e => Some (fst e)) (o_dbparams s)) None) as [endRound|]; [|discriminate].
  destruct (negb (endRound =? o_db s)); [discriminate|]. inversion Hr; subst s'. clear Hr.
  (* the blocks to replay *)
  assert (Hrep : combine (o_deltas s) (lastn (length (o_deltas s)) (o_params s)) =
                 map (fun b => (ob_mods b, mkRP (ob_supply b) (ob_level b))) (skipn dn bs)).
  { rewrite Hpar, lastn_map_seq by lia. rewrite Hdlen.
    replace (hm + (Datatypes.S (length bs) - hm - (length bs - dn)))%nat with (Datatypes.S dn) by lia.
    assert (Hps : map (params_spec supply0 bs) (seq (Datatypes.S dn) (length bs - dn)) =
                  map (fun b => mkRP (ob_supply b) (ob_level b)) (skipn dn bs)).
    { rewrite seq_shift_map. cbn [params_spec]. apply (map_nth_skipn (fun b => mkRP (ob_supply b) (ob_level b)) (mkRP 0 0)). }
    rewrite Hps, Hdl. generalize (skipn dn bs) as l. induction l as [|b l IHl]; [reflexivity|]. cbn [map combine]. f_equal. exact IHl. }
  rewrite Hrep.
  rewrite <- (firstn_skipn dn bs) at 1. apply inv_replay.
  2:{ unfold blocks_ok in Hok. rewrite <- (firstn_skipn dn bs) in Hok. apply Forall_app in Hok. exact (proj2 Hok). }
  assert (Hfl : length (firstn dn bs) = dn) by (rewrite firstn_length; lia).
  apply (mkInv _ _ _ _ dn H H); cbn [o_db o_deltas o_accts o_params o_rows o_dbparams o_cache].
  - exact Hdb.
  - lia.
  - rewrite skipn_all2 by lia. reflexivity.
  - constructor.
  - intros k. reflexivity.
  - split; lia.
  - rewrite Hdbp, map_map. cbn [snd]. rewrite Hfl. apply map_ext_in. intros r Hr. apply in_seq in Hr.
    symmetry. apply params_spec_firstn; lia.
  - rewrite Hdbp. apply map_ext_in. intros r Hr. apply in_seq in Hr. f_equal.
    symmetry. apply params_spec_firstn; lia.
  - exact Hrnd.
  - intros k. destruct (Hrows k) as (H1 & H2 & H3 & H4). repeat split; try assumption.
    intros r Hlo Hhi. unfold tgt_at. rewrite acct_at_firstn by lia. apply H4; assumption.
  - apply cache_init_nodup.
  - intros k. destruct (Hrows k) as (H1 & H2 & H3 & H4).
    destruct (cache_init_get (op_cachemax p) (o_rows s) k Hrnd) as [E|E]; rewrite E.
    + split; [exact H3|]. intros r e Hlo Hhi He. pose proof (H4 r Hlo Hhi) as Hv.
      unfold tgt_at in *. rewrite acct_at_firstn by lia.
      rewrite <- Hv. unfold view. rewrite He. reflexivity.
    + split; [intros ? []|intros ? ? _ _ Hc; discriminate].
Qed.

(* ---------- genesis ---------- *)
Definition genesis_ok (G : list (N * oacct)) : Prop :=
  NoDup (keys G) /\
  forall k a, In (k, a) G -> is_online a = true ->
    voting_empty (bdata_of a) = false /\ a_elig a = false /\ a_lastprop a = 0 /\ a_lasthb a = 0.

Lemma genesis_rows_get G : NoDup (keys G) -> forall k,
  NoDup (keys (genesis_rows G)) /\
  tget k (genesis_rows G) = if is_online (gen_get k G) then [(0, genesis_bdata (gen_get k G))] else [].
Proof.
  intros Hnd k. unfold genesis_rows, gen_get.
  assert (Gen : forall (l : list (N * oacct)) (t : table), NoDup (keys l) -> NoDup (keys t) ->
            (forall x, In x (keys l) -> tget x t = []) ->
            let t' := fold_left (fun t ka => if is_online (snd ka) then tset (fst ka) [(0, genesis_bdata (snd ka))] t else t) l t in
            NoDup (keys t') /\
            tget k t' = match aget k l with
                        | Some a => if is_online a then [(0, genesis_bdata a)] else tget k t
                        | None => tget k t
                        end).
  { induction l as [|[k0 a0] l IH]; intros t Hl Ht Hfresh; cbn [fold_left fst snd].
    - split; [exact Ht|reflexivity].
    - inversion Hl as [|? ? Hnin Hl']; subst. cbn [aget].
      set (t1 := if is_online a0 then tset k0 [(0, genesis_bdata a0)] t else t).
      assert (Ht1 : NoDup (keys t1)) by (unfold t1; destruct (is_online a0); [apply NoDup_tset|]; exact Ht).
      destruct (IH t1 Hl' Ht1) as [G1 G2].
      { intros x Hx. unfold t1. destruct (is_online a0); [|apply Hfresh; right; exact Hx].
        rewrite tget_tset_other by (intros ->; exact (Hnin Hx)). apply Hfresh. right; exact Hx. }
      split; [exact G1|]. rewrite G2. destruct (N.eqb_spec k0 k) as [->|Hne].
      + rewrite (aget_notin k l Hnin). unfold t1. destruct (is_online a0); [apply tget_tset_same|reflexivity].
      + unfold t1. destruct (aget k l) as [a|].
        * destruct (is_online a); [reflexivity|]. destruct (is_online a0); [apply tget_tset_other; congruence|reflexivity].
        * destruct (is_online a0); [apply tget_tset_other; congruence|reflexivity]. }
  destruct (Gen G [] Hnd (NoDup_nil _) (fun _ _ => eq_refl)) as [G1 G2]. split; [exact G1|].
  rewrite G2. destruct (aget k G) as [a|]; [destruct (is_online a); reflexivity|reflexivity].
Qed.

Theorem inv_init p G supply0 : genesis_ok G -> Inv G supply0 [] (ostate_init p G supply0).
Proof.
  intros [Hnd Hgen]. unfold ostate_init.
  assert (Hrows : forall k, let es := tget k (genesis_rows G) in
            sorted_desc es /\ wf_data es /\ upd_le es 0 /\ rows_acc G [] k es 0 0).
  { intros k. destruct (genesis_rows_get G Hnd k) as [_ E]. cbn zeta. rewrite E.
    unfold rows_acc, tgt_at, acct_at. cbn [firstn fold_left].
    destruct (is_online (gen_get k G)) eqn:Eon.
    - assert (Hin : In (k, gen_get k G) G).
      { unfold gen_get in *. destruct (aget k G) as [a|] eqn:Ea; [|discriminate].
        clear -Ea. induction G as [|[k2 a2] l IH]; [discriminate|]. cbn [aget] in Ea.
        destruct (N.eqb_spec k2 k) as [->|]; [inversion Ea; left; reflexivity|right; exact (IH Ea)]. }
      destruct (Hgen _ _ Hin Eon) as (Hve & He & Hlp & Hlh).
      assert (Hgb : genesis_bdata (gen_get k G) = bdata_of (gen_get k G)).
      { unfold genesis_bdata, bdata_of. rewrite He, Hlp, Hlh. reflexivity. }
      rewrite Hgb. split; [split; [intros ? []|exact I]|]. split.
      + intros e [<-|[]] Hv. cbn [snd] in *. rewrite Hve in Hv. discriminate.
      + split; [intros e [<-|[]]; cbn; lia|].
        intros r _ Hr. assert (r = 0) by lia. subst r. rewrite firstn_nil. cbn [fold_left]. unfold tgt. rewrite Eon. reflexivity.
    - split; [exact I|]. split; [intros ? []|]. split; [intros ? []|].
      intros r _ _. rewrite firstn_nil. cbn [fold_left]. unfold tgt. rewrite Eon. reflexivity. }
  apply (mkInv _ _ _ _ O O O); cbn [o_db o_deltas o_accts o_params o_rows o_dbparams o_cache length].
  - reflexivity.
  - lia.
  - reflexivity.
  - constructor.
  - intros k. reflexivity.
  - split; lia.
  - reflexivity.
  - reflexivity.
  - exact (proj1 (genesis_rows_get G Hnd 0)).
  - intros k. exact (Hrows k).
  - apply cache_init_nodup.
  - intros k. destruct (Hrows k) as (H1 & H2 & H3 & H4).
    destruct (cache_init_get (op_cachemax p) (genesis_rows G) k (proj1 (genesis_rows_get G Hnd 0))) as [E|E]; rewrite E.
    + split; [exact H3|]. intros r e Hlo Hhi He. rewrite <- (H4 r Hlo Hhi). unfold view. rewrite He. reflexivity.
    + split; [intros ? []|intros ? ? _ _ Hc; discriminate].
Qed.
