(* Lemmas for C38 (model/SpWeights.v). *)
From Coq Require Import ZArith List Bool Lia ZifyBool Psatz.
From Verif.lib Require Import Term.
From Verif.model Require Import SpWeights.
Import ListNotations.
Open Scope Z_scope.

(* ---------- the sub-expressions ---------- *)
Lemma subY_pos : forall sw, 0 < sw -> 0 < subY sw.
Proof.
  intros sw H. unfold subY. cbv zeta.
  assert (0 <= 2 ^ (2 * dOf sw)) by (apply Z.pow_nonneg; lia).
  assert (0 <= 2 ^ (dOf sw + 2)) by (apply Z.pow_nonneg; lia).
  nia.
Qed.

(* the verifier's comparison in terms of numerator / denom *)
Lemma ineq_as_denom : forall sw lnPW n st,
  (n * (subX sw + subW sw * subY sw) <? (st * ln2Int + n * lnPW) * subY sw) =
  (n * denom sw lnPW <? numerator sw st).
Proof.
  intros. unfold denom, numerator.
  generalize (subX sw) (subY sw) (subW sw). intros x y w.
  destruct (Z.ltb_spec (n * (x + w * y)) ((st * ln2Int + n * lnPW) * y));
  destruct (Z.ltb_spec (n * (x + (w - lnPW) * y)) (st * ln2Int * y)); try reflexivity; exfalso; nia.
Qed.

Lemma verifyWeights_ok_iff : forall sw lnPW n st,
  verifyWeights sw lnPW n st = WOk tt <->
  n <= MaxReveals /\ sw <> 0 /\
  (st * ln2Int + n * lnPW) * subY sw <= n * (subX sw + subW sw * subY sw).
Proof.
  intros. unfold verifyWeights. cbv zeta.
  destruct (Z.gtb_spec n MaxReveals).
  { split; [discriminate | lia]. }
  destruct (Z.eqb_spec sw 0).
  { split; [discriminate | intros (_ & ? & _); contradiction]. }
  destruct (Z.ltb_spec (n * (subX sw + subW sw * subY sw)) ((st * ln2Int + n * lnPW) * subY sw)).
  { split; [discriminate | lia]. }
  split; [intros _; repeat split; lia | reflexivity].
Qed.

Lemma verifyWeights_ok_iff_denom : forall sw lnPW n st,
  verifyWeights sw lnPW n st = WOk tt <->
  n <= MaxReveals /\ sw <> 0 /\ numerator sw st <= n * denom sw lnPW.
Proof.
  intros. rewrite verifyWeights_ok_iff.
  pose proof (ineq_as_denom sw lnPW n st) as E.
  destruct (Z.ltb_spec (n * (subX sw + subW sw * subY sw)) ((st * ln2Int + n * lnPW) * subY sw));
  destruct (Z.ltb_spec (n * denom sw lnPW) (numerator sw st)); try discriminate; intuition lia.
Qed.

Lemma verifyWeights_insufficient : forall sw lnPW n st,
  n <= MaxReveals -> sw <> 0 -> n * denom sw lnPW < numerator sw st ->
  verifyWeights sw lnPW n st = WErr ErrInsufficientSignedWeight.
Proof.
  intros sw lnPW n st Hn Hs Hd. unfold verifyWeights. cbv zeta.
  destruct (Z.gtb_spec n MaxReveals); [lia|].
  destruct (Z.eqb_spec sw 0); [contradiction|].
  rewrite ineq_as_denom.
  destruct (Z.ltb_spec (n * denom sw lnPW) (numerator sw st)); [reflexivity | lia].
Qed.

(* ---------- numReveals ---------- *)
Lemma numReveals_ok_inv : forall sw lnPW st n,
  numReveals sw lnPW st = WOk n ->
  0 < sw /\ 0 < denom sw lnPW /\
  n = numerator sw st / denom sw lnPW + 1 /\ 0 < n <= MaxReveals.
Proof.
  intros sw lnPW st n. unfold numReveals, isUint64. cbv zeta.
  destruct (Z.leb_spec sw 0); [discriminate|].
  destruct (Z.leb_spec (denom sw lnPW) 0); [discriminate|].
  destruct (Z.leb_spec 0 (numerator sw st / denom sw lnPW));
  destruct (Z.ltb_spec (numerator sw st / denom sw lnPW) two64);
  destruct (Z.geb_spec (numerator sw st / denom sw lnPW) MaxReveals);
  cbn [negb andb orb]; try discriminate.
  intros E. inversion E. subst. unfold MaxReveals in *. repeat split; lia.
Qed.

Lemma prover_satisfies_verifier_l : forall sw lnPW st n,
  numReveals sw lnPW st = WOk n ->
  verifyWeights sw lnPW n st = WOk tt.
Proof.
  intros sw lnPW st n Hn.
  apply numReveals_ok_inv in Hn. destruct Hn as (Hsw & Hd & En & Hmax).
  apply verifyWeights_ok_iff_denom. repeat split; try lia.
  pose proof (Z.div_mod (numerator sw st) (denom sw lnPW) ltac:(lia)) as DM.
  pose proof (Z.mod_pos_bound (numerator sw st) (denom sw lnPW) Hd) as MB.
  subst n. nia.
Qed.

Lemma verifier_rejects_smaller_l : forall sw lnPW st n,
  numReveals sw lnPW st = WOk n ->
  (forall m, 0 <= m < n - 1 -> verifyWeights sw lnPW m st = WErr ErrInsufficientSignedWeight) /\
  (verifyWeights sw lnPW (n - 1) st = WOk tt <-> numerator sw st mod denom sw lnPW = 0).
Proof.
  intros sw lnPW st n Hn.
  apply numReveals_ok_inv in Hn. destruct Hn as (Hsw & Hd & En & Hmax).
  pose proof (Z.div_mod (numerator sw st) (denom sw lnPW) ltac:(lia)) as DM.
  pose proof (Z.mod_pos_bound (numerator sw st) (denom sw lnPW) Hd) as MB.
  split.
  - intros m Hm. apply verifyWeights_insufficient; try lia. subst n. nia.
  - rewrite verifyWeights_ok_iff_denom. subst n.
    replace (numerator sw st / denom sw lnPW + 1 - 1) with (numerator sw st / denom sw lnPW) by lia.
    split.
    + intros (_ & _ & H). nia.
    + intros H. repeat split; try lia; nia.
Qed.

(* the fix changes nothing where the count fits 64 bits *)
Lemma numReveals_fix_conservative : forall sw lnPW st,
  0 <= st -> numerator sw st / denom sw lnPW + 1 < two64 ->
  numReveals sw lnPW st = numReveals_unfixed sw lnPW st.
Proof.
  intros sw lnPW st Hst Hq. unfold numReveals, numReveals_unfixed, isUint64. cbv zeta.
  destruct (Z.leb_spec sw 0); [reflexivity|].
  destruct (Z.leb_spec (denom sw lnPW) 0); [reflexivity|].
  assert (Hq0 : 0 <= numerator sw st / denom sw lnPW).
  { apply Z.div_pos; [|assumption]. unfold numerator, ln2Int. pose proof (subY_pos sw H). nia. }
  set (q := numerator sw st / denom sw lnPW) in *.
  assert (E : (q mod two64 + 1) mod two64 = q + 1).
  { unfold two64 in *. rewrite (Z.mod_small q) by lia. apply Z.mod_small. lia. }
  rewrite E.
  destruct (Z.leb_spec 0 q); [|lia]. destruct (Z.ltb_spec q two64); [|lia].
  cbn [negb andb orb].
  destruct (Z.geb_spec q MaxReveals); destruct (Z.gtb_spec (q + 1) MaxReveals); try reflexivity; lia.
Qed.

Lemma verifier_monotone_l : forall sw lnPW st n n',
  0 < sw -> 0 < st -> verifyWeights sw lnPW n st = WOk tt -> 0 <= n ->
  n <= n' -> n' <= MaxReveals -> verifyWeights sw lnPW n' st = WOk tt.
Proof.
  intros sw lnPW st n n' Hsw Hst Hv Hn0 Hnn Hmax.
  apply verifyWeights_ok_iff_denom in Hv. destruct Hv as (_ & _ & Hv).
  apply verifyWeights_ok_iff_denom. repeat split; try lia.
  assert (0 < numerator sw st) by (unfold numerator, ln2Int; pose proof (subY_pos sw Hsw); nia).
  assert (Hd : 0 < denom sw lnPW) by nia.
  assert (n * denom sw lnPW <= n' * denom sw lnPW) by (apply Z.mul_le_mono_nonneg_r; lia).
  lia.
Qed.

Lemma verifier_accept_bounds_quotient_l : forall sw lnPW st n,
  0 < sw -> 0 < st -> 0 <= n -> verifyWeights sw lnPW n st = WOk tt ->
  0 < denom sw lnPW /\ numerator sw st / denom sw lnPW <= n.
Proof.
  intros sw lnPW st n Hsw Hst Hn0 Hv.
  apply verifyWeights_ok_iff_denom in Hv. destruct Hv as (_ & _ & Hv).
  assert (0 < numerator sw st) by (unfold numerator, ln2Int; pose proof (subY_pos sw Hsw); nia).
  assert (Hd : 0 < denom sw lnPW) by nia.
  split; [assumption|].
  apply Z.div_le_upper_bound; [assumption | nia].
Qed.

(* the truncation witness: sw = 2, lnPW = T - 2 (denom = 24 = y), st = T^-1 mod 2^64 *)
Lemma prover_satisfies_verifier_refuted_l :
  exists sw lnPW st n,
    0 < sw < two64 /\ 0 <= lnPW < two64 /\ 0 <= st < two64 /\
    numReveals_unfixed sw lnPW st = WOk n /\
    verifyWeights sw lnPW n st = WErr ErrInsufficientSignedWeight /\
    two64 <= numerator sw st / denom sw lnPW /\
    numReveals sw lnPW st = WErr ErrTooManyReveals.
Proof.
  exists 2, 45425, 16469161498611801019, 2.
  vm_compute. repeat split; try reflexivity; try discriminate.
Qed.

(* ---------- the independent oracle equals the verifier ---------- *)
Lemma find_d_log2 : forall fuel d sw,
  0 <= d -> 2 ^ d <= sw -> sw < 2 ^ (d + 1 + Z.of_nat fuel) -> find_d fuel d sw = Z.log2 sw.
Proof.
  induction fuel as [|f IH]; intros d sw Hd Hlo Hhi.
  - cbn [find_d]. symmetry. apply Z.log2_unique; [assumption|].
    replace (d + 1 + Z.of_nat 0) with (d + 1) in Hhi by lia.
    replace (Z.succ d) with (d + 1) by lia. lia.
  - cbn [find_d]. destruct (Z.leb_spec (2 ^ (d + 1)) sw).
    + apply IH; try lia. replace (d + 1 + 1 + Z.of_nat f) with (d + 1 + Z.of_nat (S f)) by lia. assumption.
    + symmetry. apply Z.log2_unique; [assumption|].
      replace (Z.succ d) with (d + 1) by lia. lia.
Qed.

Lemma spec_d_log2 : forall sw, 0 < sw < two64 -> spec_d sw = dOf sw.
Proof.
  intros sw H. unfold spec_d, dOf. apply find_d_log2; try lia.
  unfold two64 in H. cbn. lia.
Qed.

Lemma spec_ineq_eq : forall sw lnPW n st, 0 < sw < two64 ->
  spec_ineq sw lnPW n st =
  negb (n * (subX sw + subW sw * subY sw) <? (st * ln2Int + n * lnPW) * subY sw).
Proof.
  intros sw lnPW n st H. unfold spec_ineq. cbv zeta. rewrite (spec_d_log2 sw H).
  unfold subX, subY, subW, ln2Int, precisionBits. cbv zeta.
  generalize (dOf sw). intros d.
  generalize (2 ^ (2 * d)) (2 ^ (d + 2)). intros a b.
  change (2 ^ 16) with 65536. change (45427 - 1) with 45426.
  match goal with |- (?l <=? ?r) = negb (?r' <? ?l') =>
    replace r' with r by ring; replace l' with l by ring end.
  destruct (Z.leb_spec ((st * 45427 + n * lnPW) * (sw * sw + b * sw + a))
                       (n * (3 * 65536 * (sw * sw - a) + d * 45426 * (sw * sw + b * sw + a))));
  destruct (Z.ltb_spec (n * (3 * 65536 * (sw * sw - a) + d * 45426 * (sw * sw + b * sw + a)))
                       ((st * 45427 + n * lnPW) * (sw * sw + b * sw + a))); try reflexivity; lia.
Qed.

Lemma spec_verify_sound : forall sw lnPW n st, 0 < sw < two64 ->
  spec_verify sw lnPW n st = true <-> verifyWeights sw lnPW n st = WOk tt.
Proof.
  intros sw lnPW n st H. rewrite verifyWeights_ok_iff. unfold spec_verify.
  rewrite (spec_ineq_eq sw lnPW n st H). unfold MaxReveals.
  destruct (Z.leb_spec n 640); destruct (Z.eqb_spec sw 0);
  destruct (Z.ltb_spec (n * (subX sw + subW sw * subY sw)) ((st * ln2Int + n * lnPW) * subY sw));
  cbn; split; intros; try discriminate; try lia; try (repeat split; lia).
Qed.

(* ---------- coins ---------- *)
Lemma nextCoin_below : forall sw stream c rest,
  0 < sw -> nextCoin sw stream = Some (c, rest) -> 0 <= c < sw.
Proof.
  intros sw stream. induction stream as [|z zs IH]; intros c rest Hsw H; [discriminate|].
  cbn [nextCoin] in H. destruct (z <? coinThreshold sw).
  - inversion H. subst. apply Z.mod_pos_bound. assumption.
  - eapply IH; eassumption.
Qed.

Lemma nextCoin_accepted : forall sw stream c rest,
  nextCoin sw stream = Some (c, rest) ->
  exists z, In z stream /\ z < coinThreshold sw /\ c = z mod sw.
Proof.
  intros sw stream. induction stream as [|z zs IH]; intros c rest H; [discriminate|].
  cbn [nextCoin] in H. destruct (Z.ltb_spec z (coinThreshold sw)).
  - inversion H. subst. exists z. repeat split; [left; reflexivity | assumption].
  - destruct (IH _ _ H) as (z' & Hin & Hlt & E). exists z'. repeat split; [right|..]; assumption.
Qed.

Lemma coins_below : forall fuel sw stream, 0 < sw ->
  Forall (fun c => 0 <= c < sw) (coins fuel sw stream).
Proof.
  induction fuel as [|f IH]; intros sw stream Hsw; cbn [coins]; [constructor|].
  destruct (nextCoin sw stream) as [[c rest]|] eqn:E; [|constructor].
  constructor; [eapply nextCoin_below; eassumption | apply IH; assumption].
Qed.

(* uniformity of the rejection sampling: among the accepted 64-bit words, every coin value
   has exactly floor(2^64 / sw) pre-images, namely j*sw + c for 0 <= j < floor(2^64/sw) *)
Lemma coin_uniform_l : forall sw c z,
  0 < sw -> 0 <= c < sw -> 0 <= z < coinThreshold sw ->
  (z mod sw = c <-> exists j, 0 <= j < two64 / sw /\ z = j * sw + c).
Proof.
  intros sw c z Hsw Hc Hz. unfold coinThreshold in Hz. split.
  - intros E. exists (z / sw).
    pose proof (Z.div_mod z sw ltac:(lia)) as DM. split; [|lia].
    split; [apply Z.div_pos; lia|].
    apply Z.div_lt_upper_bound; [lia|]. lia.
  - intros (j & Hj & E). subst z.
    rewrite Z.add_comm, Z.mod_add by lia. apply Z.mod_small. assumption.
Qed.
