(* C15 lemmas, part 2: for EVERY history of node starts (tracking on/off) and tracker commits,
   whenever catchpoint tracking is on the persisted balances trie is exactly the set of leaves
   of the current account tables -- so the label is a function of the state only, not of the
   tracking history. *)
From Coq Require Import List NArith Bool Lia ZifyN ZifyBool.
Import ListNotations.
From Verif.model Require Import CatchpointMemo.
Open Scope N_scope.

Section MemoProofs.
  Variables T S D : Type.
  Variable leaves : T -> S.
  Variable empty : S.
  Variable is_empty : S -> bool.
  Variable apply_tab : T -> D -> T.
  Variable apply_trie : S -> T -> D -> S.
  (* accountsUpdateBalances on a trie that holds the leaves of the old tables yields the leaves of
     the new tables (C14: trie_set_inv) *)
  Hypothesis apply_ok : forall t d, apply_trie (leaves t) t d = leaves (apply_tab t d).
  Hypothesis is_empty_empty : is_empty empty = true.

  Notation mstate := (mstate T S).
  Notation init := (init_hashes T S leaves empty is_empty).
  Notation commit := (commit_gen T S D apply_tab apply_trie false).
  Notation step := (mstep T S D leaves empty is_empty apply_tab apply_trie).
  Notation run := (mrun T S D leaves empty is_empty apply_tab apply_trie).
  Notation fresh := (mfresh T S empty).

  Definition memo_ok (s : mstate) : Prop :=
    (m_on s = true -> m_trie s = leaves (m_tab s) /\ m_hash s = m_db s) /\
    (m_hash s = m_db s -> m_trie s = leaves (m_tab s) \/ m_trie s = empty).

  Lemma memo_ok_fresh g : memo_ok (fresh g).
  Proof. split; cbn; [discriminate | auto]. Qed.

  Lemma memo_ok_init on s : memo_ok s -> memo_ok (init on s) /\ m_on (init on s) = on.
  Proof.
    intros [I1 I2]. unfold init_hashes.
    destruct (m_hash s =? m_db s) eqn:E.
    - apply N.eqb_eq in E. cbn [negb andb].
      destruct (is_empty (m_trie s)) eqn:Z; cbn; (split; [split|reflexivity]); auto.
      + intros _. destruct (I2 E) as [Q | Q]; auto.
        (* trie = empty but is_empty false: impossible *)
        rewrite Q, is_empty_empty in Z. discriminate.
    - apply N.eqb_neq in E. cbn [negb andb]. destruct on; cbn [negb].
      + rewrite is_empty_empty. cbn. split; [split|reflexivity]; auto.
      + cbn. split; [split|reflexivity]; [discriminate | intro Q; contradiction].
  Qed.

  Lemma memo_ok_commit k d s : memo_ok s -> memo_ok (commit k d s).
  Proof.
    intros [I1 I2]. unfold commit_gen, memo_ok. cbn.
    destruct (m_on s) eqn:O; cbn [orb].
    - destruct (I1 eq_refl) as [Q _]. rewrite Q, apply_ok. split; auto.
    - split; [discriminate|]. intro Q. exfalso. lia.
  Qed.

  Lemma memo_ok_step s o : memo_ok s -> memo_ok (step s o).
  Proof.
    intro I. destruct o as [on | k d]; cbn.
    - apply memo_ok_init, I.
    - apply memo_ok_commit, I.
  Qed.

  Lemma memo_ok_run ops : forall s, memo_ok s -> memo_ok (run ops s).
  Proof.
    induction ops as [|o ops IH]; intros s I; cbn; auto. apply IH, memo_ok_step, I.
  Qed.

  Lemma memo_inv ops g : memo_ok (run ops (fresh g)).
  Proof. apply memo_ok_run, memo_ok_fresh. Qed.

  (* the trie (hence root, hence label) of a tracking node is a function of its tables only *)
  Lemma memo_trie_state_only ops g :
    m_on (run ops (fresh g)) = true ->
    m_trie (run ops (fresh g)) = leaves (m_tab (run ops (fresh g))).
  Proof. intro O. exact (proj1 (proj1 (memo_inv ops g) O)). Qed.

  Lemma memo_reenable ops g :
    let s := run (ops ++ [Restart true]) (fresh g) in
    m_trie s = leaves (m_tab s) /\ m_hash s = m_db s.
  Proof.
    cbv zeta. unfold mrun. rewrite fold_left_app. cbn [fold_left].
    pose proof (memo_inv ops g) as I.
    destruct (memo_ok_init true _ I) as [I' O]. exact (proj1 I' O).
  Qed.

  Lemma memo_same_tables ops1 ops2 g1 g2 :
    m_on (run ops1 (fresh g1)) = true -> m_on (run ops2 (fresh g2)) = true ->
    m_tab (run ops1 (fresh g1)) = m_tab (run ops2 (fresh g2)) ->
    m_trie (run ops1 (fresh g1)) = m_trie (run ops2 (fresh g2)).
  Proof. intros O1 O2 E. rewrite !memo_trie_state_only; auto. now rewrite E. Qed.
End MemoProofs.

(* the executable instance meets the hypotheses *)
Lemma x_apply_ok : forall t d, x_apply_trie (x_leaves t) t d = x_leaves (x_apply_tab t d).
Proof. intros t []. unfold x_apply_trie, x_leaves, x_apply_tab. now rewrite N.eqb_refl. Qed.

Lemma x_memo_current ops :
  let s := fold_left (x_step false) ops x_fresh in m_on s = true -> x_current s = true.
Proof.
  cbv zeta. intro O.
  pose proof (memo_trie_state_only N tstat unit x_leaves TEmpty x_is_empty x_apply_tab x_apply_trie
                x_apply_ok eq_refl ops 0 O) as Q.
  unfold x_current. change (fold_left (x_step false) ops x_fresh) with
      (mrun N tstat unit x_leaves TEmpty x_is_empty x_apply_tab x_apply_trie ops (mfresh N tstat TEmpty 0)).
  rewrite Q. unfold x_leaves. apply N.eqb_refl.
Qed.

(* without the reset of the hash round by commits of a non-tracking node, a stale trie is adopted *)
Lemma memo_reset_needed :
  exists ops, let s := fold_left (x_step true) ops x_fresh in m_on s = true /\ x_current s = false.
Proof.
  exists [Restart true; Commit 1%positive tt; Restart false; Commit 1%positive tt; Restart true].
  vm_compute. auto.
Qed.
