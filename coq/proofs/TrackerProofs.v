(* The tracker invariant (model/Tracker.v), its preservation by every operation, and the
   correctness of every lookup: C08. *)
From Coq Require Import NArith List Bool Arith Lia.
From Verif.lib Require Import Term.
From Verif.model Require Import LedgerSpec Tracker.
From Verif.proofs Require Import LedgerSpecProofs TrackerSpace.
Import ListNotations.

(* ---------- the four instances of the generic key space ---------- *)
Definition wfrecA (_ _ : acct) : Prop := True.
Definition wfrecR (prev : res) (d : resrec) : Prop :=
  half_wf (fst prev) (fst d) = true /\ half_wf (snd prev) (snd d) = true.
Definition wfrecK (prev : option bytes) (d : kvrec) : Prop := snd d = prev.
Definition wfrecC (_ _ : creat) : Prop := True.

Lemma acct_is_empty_spec : forall v, acct_is_empty v = true <-> v = acct_empty.
Proof. intro v. apply acct_eqb_spec. Qed.

Lemma res_is_empty_spec : forall v, res_is_empty v = true <-> v = res_empty.
Proof. intros [[a|] [b|]]; simpl; split; intro H; try discriminate; reflexivity. Qed.

Lemma kv_is_empty_spec : forall v, kv_is_empty v = true <-> v = None.
Proof. intros [a|]; simpl; split; intro H; try discriminate; reflexivity. Qed.

Lemma creat_eqb_spec : forall x y, creat_eqb x y = true <-> x = y.
Proof.
  intros [a b c] [d e f]. unfold creat_eqb. simpl. rewrite !andb_true_iff, !N.eqb_eq, Bool.eqb_true_iff.
  split; [intros [[-> ->] ->]; reflexivity | intro H; inversion H; auto].
Qed.

Lemma creat_is_empty_spec : forall v, creat_is_empty v = true <-> v = creat_none.
Proof. intro v. apply creat_eqb_spec. Qed.

Lemma res_merge_first : forall d, res_merge res_empty d = res_interp d.
Proof. intros [[|  |a] [| |b]]; reflexivity. Qed.

Lemma res_merge_ok : forall prev d, wfrecR prev d -> res_merge prev d = res_interp d.
Proof.
  intros [p1 p2] [h1 h2] [H1 H2]. unfold res_merge, res_interp. simpl in *.
  f_equal; [destruct h1, p1|destruct h2, p2]; simpl in *; try reflexivity; discriminate.
Qed.

Lemma kv_skip_ok : forall prev d v, wfrecK prev d -> kv_skip d v = true -> v = prev.
Proof.
  intros prev [dat old] v H Hs. unfold wfrecK in H. simpl in H. subst prev.
  unfold kv_skip in Hs. simpl in Hs. destruct v as [x|], old as [o|]; try discriminate; [|reflexivity].
  apply bytes_eqb_spec in Hs. now subst.
Qed.

Lemma no_skip_ok : forall (D V : Type) (wf : V -> D -> Prop) prev d v,
  wf prev d -> @no_skip D V d v = true -> v = prev.
Proof. intros. discriminate. Qed.

(* ---------- invariants of the four spaces, against the block history ---------- *)
Section Inv.
  Variable g : world.

  Definition IA (fx en : bool) (bl : list delta) (R dbr : nat) (mem : list delta) (s : asp) : Prop :=
    SpInv addr acct acct N.eqb (fun a : acct => a) acct_empty (w_acct g) fx en (map d_accts bl) R dbr (map d_accts mem) s.
  Definition IR (fx en : bool) (bl : list delta) (R dbr : nat) (mem : list delta) (s : rsp) : Prop :=
    SpInv (addr * cidx) res resrec pair_eqb res_interp res_empty (w_res g) fx en (map d_res bl) R dbr (map d_res mem) s.
  Definition IK (fx en : bool) (bl : list delta) (R dbr : nat) (mem : list delta) (s : ksp) : Prop :=
    SpInv kvkey (option bytes) kvrec bytes_eqb kv_interp None (w_kv g) fx en (map d_kv bl) R dbr (map d_kv mem) s.
  Definition IC (bl : list delta) (R dbr : nat) (mem : list delta) (s : csp) : Prop :=
    SpInv cidx creat creat N.eqb creat_interp creat_none (w_cre g) true false (map d_cre bl) R dbr (map d_cre mem) s.

  Definition phase_ok (s : st) : Prop :=
    match t_phase s with
    | PIdle => t_dbr s = t_dbRound s
    | PPrepared off => t_dbr s = t_dbRound s /\ 1 <= off <= length (t_deltas s)
    | PCommitted off => t_dbr s = t_dbRound s + off /\ 1 <= off <= length (t_deltas s)
    end.
  Definition queue_ok (s : st) : Prop :=
    match t_queue s with
    | Some (ob, off) => ob + off <= t_dbRound s + length (t_deltas s)
    | None => True
    end.

  Record Inv (s : st) : Prop := mkInv {
    i_wf : wf_hist g (t_blocks s);
    i_R : t_dbRound s <= length (t_blocks s);
    i_pre : pfx (t_blocks s) (t_dbRound s) (t_deltas s);
    i_a : IA (cf_fix (t_cfg s)) (cf_cache (t_cfg s)) (t_blocks s) (t_dbRound s) (t_dbr s) (t_deltas s) (t_acc s);
    i_r : IR (cf_fix (t_cfg s)) (cf_cache (t_cfg s)) (t_blocks s) (t_dbRound s) (t_dbr s) (t_deltas s) (t_res s);
    i_k : IK (cf_fix (t_cfg s)) (cf_cache (t_cfg s)) (t_blocks s) (t_dbRound s) (t_dbr s) (t_deltas s) (t_kv s);
    i_c : IC (t_blocks s) (t_dbRound s) (t_dbr s) (t_deltas s) (t_cre s);
    i_phase : phase_ok s;
    i_queue : queue_ok s }.

  (* every block of the history has been fed to the tracker (false only inside a reload) *)
  Definition Full (s : st) : Prop := t_dbRound s + length (t_deltas s) = length (t_blocks s).

  (* ---------- what a well-formed history gives each space ---------- *)
  Lemma rfind_in : forall (K D : Type) (keqb : K -> K -> bool),
    (forall x y, keqb x y = true <-> x = y) ->
    forall (recs : list (K * D)) k d, rfind keqb k recs = Some d -> In (k, d) recs.
  Proof.
    intros K D keqb Hs. induction recs as [|[k0 d0] recs IH]; intros k d H; simpl in *; [discriminate|].
    destruct (keqb k k0) eqn:E.
    - apply Hs in E. inversion H; subst. now left.
    - right. now apply IH.
  Qed.

  Lemma wf_block : forall bl j, wf_hist g bl -> j < length bl ->
    wf_deltab (state_at g bl j) (nth j bl delta_dummy) = true.
  Proof. intros. now apply wf_hist_nth. Qed.

  Lemma nth_map_delta : forall (B : Type) (f : delta -> list B) bl j,
    f delta_dummy = [] -> nth j (map f bl) [] = f (nth j bl delta_dummy).
  Proof. intros B f bl j H. rewrite <- H. apply map_nth. Qed.

  Lemma all_nodup_of_wf : forall (K D : Type) (keqb : K -> K -> bool) (f : delta -> list (K * D)) bl,
    (forall w d, wf_deltab w d = true -> nodup_keys keqb (f d) = true) ->
    wf_hist g bl -> all_nodup K D keqb (map f bl).
  Proof.
    intros K D keqb f bl Hf Hwf. unfold all_nodup. rewrite Forall_forall. intros x Hx.
    apply in_map_iff in Hx. destruct Hx as [d [Hd Hin]]. subst x.
    destruct (In_nth _ _ delta_dummy Hin) as [j [Hj Hn]]. rewrite <- Hn.
    apply (Hf (state_at g bl j)). now apply wf_block.
  Qed.

  Lemma wf_deltab_parts : forall w d, wf_deltab w d = true ->
    nodup_keys N.eqb (d_accts d) = true /\ nodup_keys pair_eqb (d_res d) = true /\
    nodup_keys bytes_eqb (d_kv d) = true /\ nodup_keys N.eqb (d_cre d) = true /\
    forallb (fun p => half_wf (fst (w_res w (fst p))) (fst (snd p)) &&
                      half_wf (snd (w_res w (fst p))) (snd (snd p))) (d_res d) = true /\
    forallb (fun p => opt_bytes_eqb (snd (snd p)) (w_kv w (fst p))) (d_kv d) = true.
  Proof.
    intros w d H. unfold wf_deltab in H. rewrite !andb_true_iff in H. tauto.
  Qed.

  Lemma nodupA : forall bl, wf_hist g bl -> all_nodup addr acct N.eqb (map d_accts bl).
  Proof. intros. apply all_nodup_of_wf; [|assumption]. intros w d Hw. now apply wf_deltab_parts in Hw. Qed.
  Lemma nodupR : forall bl, wf_hist g bl -> all_nodup (addr * cidx) resrec pair_eqb (map d_res bl).
  Proof. intros. apply all_nodup_of_wf; [|assumption]. intros w d Hw. now apply wf_deltab_parts in Hw. Qed.
  Lemma nodupK : forall bl, wf_hist g bl -> all_nodup kvkey kvrec bytes_eqb (map d_kv bl).
  Proof. intros. apply all_nodup_of_wf; [|assumption]. intros w d Hw. now apply wf_deltab_parts in Hw. Qed.
  Lemma nodupC : forall bl, wf_hist g bl -> all_nodup cidx creat N.eqb (map d_cre bl).
  Proof. intros. apply all_nodup_of_wf; [|assumption]. intros w d Hw. now apply wf_deltab_parts in Hw. Qed.

  Lemma wfallA : forall bl, wf_all addr acct acct N.eqb (fun a : acct => a) wfrecA (w_acct g) (map d_accts bl).
  Proof. intros bl j k d _ _. exact I. Qed.
  Lemma wfallC : forall bl, wf_all cidx creat creat N.eqb creat_interp wfrecC (w_cre g) (map d_cre bl).
  Proof. intros bl j k d _ _. exact I. Qed.

  Lemma wfallR : forall bl, wf_hist g bl ->
    wf_all (addr * cidx) res resrec pair_eqb res_interp wfrecR (w_res g) (map d_res bl).
  Proof.
    intros bl Hwf j k d Hj Hr. rewrite map_length in Hj.
    rewrite (nth_map_delta _ d_res bl j eq_refl) in Hr.
    apply (rfind_in _ _ _ pair_eqb_spec) in Hr.
    assert (Hb := wf_block bl j Hwf Hj). apply wf_deltab_parts in Hb.
    destruct Hb as [_ [_ [_ [_ [Hb _]]]]]. rewrite forallb_forall in Hb. specialize (Hb _ Hr).
    simpl in Hb. apply andb_true_iff in Hb. rewrite state_at_res in Hb. exact Hb.
  Qed.

  Lemma wfallK : forall bl, wf_hist g bl ->
    wf_all kvkey (option bytes) kvrec bytes_eqb kv_interp wfrecK (w_kv g) (map d_kv bl).
  Proof.
    intros bl Hwf j k d Hj Hr. rewrite map_length in Hj.
    rewrite (nth_map_delta _ d_kv bl j eq_refl) in Hr.
    apply (rfind_in _ _ _ bytes_eqb_spec) in Hr.
    assert (Hb := wf_block bl j Hwf Hj). apply wf_deltab_parts in Hb.
    destruct Hb as [_ [_ [_ [_ [_ Hb]]]]]. rewrite forallb_forall in Hb. specialize (Hb _ Hr).
    simpl in Hb. apply opt_bytes_eqb_spec in Hb. rewrite state_at_kv in Hb. exact Hb.
  Qed.

  Lemma pfx_is_prefix : forall (K D : Type) (f : delta -> list (K * D)) bl R mem,
    pfx bl R mem -> is_prefix K D (map f bl) R (map f mem).
  Proof. intros. unfold is_prefix. now apply pfx_map. Qed.
  (* ---------- NewBlock ---------- *)
  Definition set_blocks (s : st) (bl : list delta) : st :=
    mkSt (t_cfg s) bl (t_dbRound s) (t_dbr s) (t_deltas s)
         (t_acc s) (t_res s) (t_kv s) (t_cre s) (t_queue s) (t_phase s).

  Lemma newblock_split : forall s d, newblock s d = newblock_mem (set_blocks s (t_blocks s ++ [d])) d.
  Proof. reflexivity. Qed.

  Lemma dbr_le : forall s, Inv s -> t_dbr s <= t_dbRound s + length (t_deltas s).
  Proof.
    intros s H. assert (Hp := i_phase s H). unfold phase_ok in Hp.
    destruct (t_phase s); [lia| |]; destruct Hp; lia.
  Qed.

  (* the ledger appends a block to its store: nothing the tracker has seen changes *)
  Lemma inv_extend_blocks : forall s d,
    Inv s -> Full s -> wf_hist g (t_blocks s ++ [d]) -> Inv (set_blocks s (t_blocks s ++ [d])).
  Proof.
    intros s d H HF Hwf. assert (Hd := dbr_le s H). unfold Full in HF.
    destruct H as [_ HR Hpre Ha Hr Hk Hc Hph Hq].
    assert (HR' : t_dbRound s <= length (t_blocks s)) by exact HR.
    assert (Hdb : t_dbr s <= length (t_blocks s)) by lia.
    constructor; simpl; try assumption.
    - rewrite app_length. simpl. lia.
    - unfold pfx in *. rewrite skipn_app, firstn_app.
      replace (length (t_deltas s) - length (skipn (t_dbRound s) (t_blocks s))) with 0
        by (rewrite skipn_length; lia).
      simpl. rewrite app_nil_r. exact Hpre.
    - unfold IA in *. rewrite map_app. apply (spinv_ext _ _ _ _ _ _ _ _ _ (map d_accts (t_blocks s))); [| |exact Ha];
        intro k; rewrite ks_state_app; try reflexivity; rewrite map_length; assumption.
    - unfold IR in *. rewrite map_app. apply (spinv_ext _ _ _ _ _ _ _ _ _ (map d_res (t_blocks s))); [| |exact Hr];
        intro k; rewrite ks_state_app; try reflexivity; rewrite map_length; assumption.
    - unfold IK in *. rewrite map_app. apply (spinv_ext _ _ _ _ _ _ _ _ _ (map d_kv (t_blocks s))); [| |exact Hk];
        intro k; rewrite ks_state_app; try reflexivity; rewrite map_length; assumption.
    - unfold IC in *. rewrite map_app. apply (spinv_ext _ _ _ _ _ _ _ _ _ (map d_cre (t_blocks s))); [| |exact Hc];
        intro k; rewrite ks_state_app; try reflexivity; rewrite map_length; assumption.
  Qed.

  (* accountUpdates.newBlock for the next block of the store *)
  Lemma inv_newblock_mem : forall s d,
    Inv s -> nth (t_dbRound s + length (t_deltas s)) (t_blocks s) delta_dummy = d ->
    t_dbRound s + length (t_deltas s) < length (t_blocks s) ->
    Inv (newblock_mem s d).
  Proof.
    intros s d H Hn Hl. destruct H as [Hwf HR Hpre Ha Hr Hk Hc Hph Hq].
    assert (Hb := wf_block _ _ Hwf Hl). rewrite Hn in Hb. apply wf_deltab_parts in Hb.
    destruct Hb as [Hna [Hnr [Hnk [Hnc _]]]].
    constructor; simpl; try assumption.
    - now apply (pfx_snoc _ delta_dummy).
    - unfold IA in *. rewrite map_app. simpl. apply sp_newblock_inv; [exact Neqb_spec|exact Ha|exact Hna].
    - unfold IR in *. rewrite map_app. simpl. apply sp_newblock_inv; [exact pair_eqb_spec|exact Hr|exact Hnr].
    - unfold IK in *. rewrite map_app. simpl. apply sp_newblock_inv; [exact bytes_eqb_spec|exact Hk|exact Hnk].
    - unfold IC in *. rewrite map_app. simpl. apply sp_newblock_inv; [exact Neqb_spec|exact Hc|exact Hnc].
    - unfold phase_ok in *. simpl. rewrite app_length. simpl.
      destruct (t_phase s); [exact Hph| |]; destruct Hph; split; try assumption; lia.
    - unfold queue_ok in *. simpl. rewrite app_length. destruct (t_queue s) as [[ob off]|]; [lia|exact I].
  Qed.

  Lemma inv_newblock : forall s d,
    Inv s -> Full s -> wf_hist g (t_blocks s ++ [d]) -> Inv (newblock s d) /\ Full (newblock s d).
  Proof.
    intros s d H HF Hwf. rewrite newblock_split. split.
    - apply inv_newblock_mem; [now apply inv_extend_blocks| |]; simpl; unfold Full in HF.
      + rewrite HF. apply nth_middle.
      + rewrite app_length. simpl. lia.
    - unfold Full in *. simpl. rewrite !app_length. simpl. lia.
  Qed.
  (* ---------- scheduling ---------- *)
  Lemma bsearch_le : forall f fuel i j, i <= j -> bsearch fuel i j f <= j.
  Proof.
    intros f. induction fuel as [|fu IH]; intros i j H; [exact H|]. cbn [bsearch].
    destruct (i <? j) eqn:E; [|exact H]. apply Nat.ltb_lt in E.
    assert (Hh : i <= (i + j) / 2 < j).
    { assert (Hd := Nat.div_mod (i + j) 2 (ltac:(lia))).
      assert (Hm := Nat.mod_upper_bound (i + j) 2 (ltac:(lia))). lia. }
    set (h := (i + j) / 2) in *. destruct (f h).
    - etransitivity; [apply IH; lia|lia].
    - apply IH. lia.
  Qed.

  Lemma consecutive_le : forall ds off, consecutive ds off <= off.
  Proof.
    intros ds off. unfold consecutive. destruct (N.eqb _ _); [lia|]. apply bsearch_le. lia.
  Qed.

  Lemma inv_set_queue : forall s q,
    Inv s -> (match q with Some (ob, off) => ob + off <= t_dbRound s + length (t_deltas s) | None => True end) ->
    Inv (set_queue s q).
  Proof. intros s q [] Hq. constructor; assumption. Qed.

  Lemma inv_set_phase : forall s p,
    Inv s ->
    (match p with
     | PIdle => t_dbr s = t_dbRound s
     | PPrepared off => t_dbr s = t_dbRound s /\ 1 <= off <= length (t_deltas s)
     | PCommitted off => t_dbr s = t_dbRound s + off /\ 1 <= off <= length (t_deltas s)
     end) ->
    Inv (set_phase s p).
  Proof. intros s p [] Hp. constructor; assumption. Qed.

  Lemma inv_schedule : forall s r s', Inv s -> schedule s r = Some s' -> Inv s' /\ Full s = Full s'.
  Proof.
    intros s r s' H Hs. unfold schedule in Hs.
    destruct (r <? cf_lookback (t_cfg s)); [inversion Hs; subst; now split|].
    destruct (r - cf_lookback (t_cfg s) <=? t_dbRound s); [inversion Hs; subst; now split|].
    destruct (t_dbRound s + length (t_deltas s) <? r - cf_lookback (t_cfg s)) eqn:E; [discriminate|].
    apply Nat.ltb_ge in E. destruct (t_queue s) eqn:Eq; inversion Hs; subst; [now split|].
    split; [|reflexivity]. apply inv_set_queue; [exact H|].
    assert (Hc := consecutive_le (t_deltas s) (r - cf_lookback (t_cfg s) - t_dbRound s)). lia.
  Qed.

  Lemma schedule_no_panic : forall s r, r <= cf_lookback (t_cfg s) + t_dbRound s + length (t_deltas s) ->
    exists s', schedule s r = Some s'.
  Proof.
    intros s r H. unfold schedule.
    destruct (r <? cf_lookback (t_cfg s)); [eauto|].
    destruct (r - cf_lookback (t_cfg s) <=? t_dbRound s); [eauto|].
    destruct (t_dbRound s + length (t_deltas s) <? r - cf_lookback (t_cfg s)) eqn:E.
    - apply Nat.ltb_lt in E. lia.
    - destruct (t_queue s); eauto.
  Qed.

  Lemma inv_begin : forall s, Inv s -> exists s', begin s = Some s' /\ Inv s' /\ Full s = Full s'.
  Proof.
    intros s H. unfold begin. destruct (t_phase s) eqn:Ep; [|eauto|eauto].
    destruct (t_queue s) as [[ob off]|] eqn:Eq; [|eauto].
    assert (Hq := i_queue s H). unfold queue_ok in Hq. rewrite Eq in Hq.
    assert (Hp := i_phase s H). unfold phase_ok in Hp. rewrite Ep in Hp.
    assert (H0 : Inv (set_queue s None)) by (apply inv_set_queue; [exact H|exact I]).
    simpl. destruct ((t_dbRound s <? ob) || (off <? t_dbRound s - ob)) eqn:E1; [eauto|].
    apply orb_false_iff in E1. destruct E1 as [E1 E2]. apply Nat.ltb_ge in E1, E2.
    destruct (off - (t_dbRound s - ob) =? 0) eqn:E3; [eauto|]. apply Nat.eqb_neq in E3.
    destruct (length (t_deltas s) <? off - (t_dbRound s - ob)) eqn:E4; [apply Nat.ltb_lt in E4; lia|].
    apply Nat.ltb_ge in E4.
    destruct (negb (N.eqb _ _)); [eauto|].
    eexists. split; [reflexivity|]. split; [|reflexivity].
    apply inv_set_phase; [exact H0|]. simpl. split; [exact Hp|lia].
  Qed.

  (* ---------- the SQL transaction ---------- *)
  Lemma firstn_map' : forall (A B : Type) (f : A -> B) n l, map f (firstn n l) = firstn n (map f l).
  Proof. intros. symmetry. apply firstn_map. Qed.

  Lemma inv_commitdb : forall s, Inv s -> Inv (commitdb s) /\ Full s = Full (commitdb s).
  Proof.
    intros s H. unfold commitdb. destruct (t_phase s) as [|off|off] eqn:Ep; [now split| |now split].
    assert (Hp := i_phase s H). unfold phase_ok in Hp. rewrite Ep in Hp. destruct Hp as [Hdbr Hoff].
    destruct H as [Hwf HR Hpre Ha Hr Hk Hc Hph Hq]. rewrite Hdbr in *.
    rewrite !firstn_map'.
    destruct (a_commit _ _) as [a'|] eqn:Ea; [|split; [apply inv_set_phase; [constructor; try rewrite Hdbr; assumption|exact Hdbr]|reflexivity]].
    destruct (r_commit _ _) as [r'|] eqn:Er; [|split; [apply inv_set_phase; [constructor; try rewrite Hdbr; assumption|exact Hdbr]|reflexivity]].
    destruct (k_commit _ _) as [k'|] eqn:Ek; [|split; [apply inv_set_phase; [constructor; try rewrite Hdbr; assumption|exact Hdbr]|reflexivity]].
    destruct (c_commit _ _) as [c'|] eqn:Ec; [|split; [apply inv_set_phase; [constructor; try rewrite Hdbr; assumption|exact Hdbr]|reflexivity]].
    split; [|reflexivity].
    assert (Hlen : forall (B : Type) (f : delta -> B), off <= length (map f (t_deltas s))) by (intros; rewrite map_length; lia).
    constructor; simpl; try assumption.
    - unfold IA in *. eapply (sp_commit_inv _ _ _ _ _ _ _ _ _ _ Neqb_spec acct_is_empty_spec wfrecA); try eassumption.
      + reflexivity.
      + intros. reflexivity.
      + intros; discriminate.
      + now apply pfx_is_prefix.
      + apply Hlen.
      + eapply all_nodup_prefix; [apply nodupA; eassumption|apply pfx_is_prefix; eassumption|apply Hlen].
      + apply wf_all_range; [apply wfallA|now apply pfx_is_prefix|apply Hlen].
    - unfold IR in *. eapply (sp_commit_inv _ _ _ _ _ _ _ _ _ _ pair_eqb_spec res_is_empty_spec wfrecR); try eassumption.
      + exact res_merge_first.
      + exact res_merge_ok.
      + intros; discriminate.
      + now apply pfx_is_prefix.
      + apply Hlen.
      + eapply all_nodup_prefix; [apply nodupR; eassumption|apply pfx_is_prefix; eassumption|apply Hlen].
      + apply wf_all_range; [now apply wfallR|now apply pfx_is_prefix|apply Hlen].
    - unfold IK in *. eapply (sp_commit_inv _ _ _ _ _ _ _ _ _ _ bytes_eqb_spec kv_is_empty_spec wfrecK); try eassumption.
      + reflexivity.
      + intros. reflexivity.
      + exact kv_skip_ok.
      + now apply pfx_is_prefix.
      + apply Hlen.
      + eapply all_nodup_prefix; [apply nodupK; eassumption|apply pfx_is_prefix; eassumption|apply Hlen].
      + apply wf_all_range; [now apply wfallK|now apply pfx_is_prefix|apply Hlen].
    - unfold IC in *. eapply (sp_commit_inv _ _ _ _ _ _ _ _ _ _ Neqb_spec creat_is_empty_spec wfrecC); try eassumption.
      + reflexivity.
      + intros. reflexivity.
      + intros; discriminate.
      + now apply pfx_is_prefix.
      + apply Hlen.
      + eapply all_nodup_prefix; [apply nodupC; eassumption|apply pfx_is_prefix; eassumption|apply Hlen].
      + apply wf_all_range; [apply wfallC|now apply pfx_is_prefix|apply Hlen].
    - unfold phase_ok. simpl. split; [reflexivity|exact Hoff].
  Qed.
  (* ---------- postCommit ---------- *)
  Lemma skipn_map' : forall (A B : Type) (f : A -> B) n l, map f (skipn n l) = skipn n (map f l).
  Proof. intros. symmetry. apply skipn_map. Qed.

  Lemma inv_postcommit : forall s, Inv s ->
    exists s', postcommit s = Some s' /\ Inv s' /\ Full s = Full s'.
  Proof.
    intros s H. unfold postcommit. destruct (t_phase s) as [|off|off] eqn:Ep; [eauto|eauto|].
    assert (Hp := i_phase s H). unfold phase_ok in Hp. rewrite Ep in Hp. destruct Hp as [Hdbr Hoff].
    destruct H as [Hwf HR Hpre Ha Hr Hk Hc Hph Hq]. rewrite Hdbr in *.
    assert (Hlen : forall (B : Type) (f : delta -> B), 1 <= off <= length (map f (t_deltas s))) by (intros; rewrite map_length; lia).
    assert (Hlen' : forall (B : Type) (f : delta -> B), off <= length (map f (t_deltas s))) by (intros; rewrite map_length; lia).
    assert (Htot := pfx_len _ _ _ _ Hpre HR).
    rewrite !firstn_map'.
    destruct (sp_post_inv addr acct acct N.eqb (fun a : acct => a) (fun _ d => d) acct_empty no_skip Neqb_spec wfrecA (fun _ => eq_refl) (fun _ _ _ => eq_refl)
                (no_skip_ok _ _ wfrecA) _ _ _ _ _ _ _ _ Ha (pfx_is_prefix _ _ d_accts _ _ _ Hpre) (Hlen _ d_accts)
                (all_nodup_prefix _ _ _ _ _ _ _ (nodupA _ Hwf) (pfx_is_prefix _ _ d_accts _ _ _ Hpre) (Hlen' _ d_accts))
                (wf_all_range _ _ _ _ _ _ _ _ _ _ _ (wfallA _) (pfx_is_prefix _ _ d_accts _ _ _ Hpre) (Hlen' _ d_accts)))
      as [a' [Ea Ia]].
    destruct (sp_post_inv (addr * cidx)%type res resrec pair_eqb res_interp res_merge res_empty no_skip pair_eqb_spec wfrecR res_merge_first res_merge_ok
                (no_skip_ok _ _ wfrecR) _ _ _ _ _ _ _ _ Hr (pfx_is_prefix _ _ d_res _ _ _ Hpre) (Hlen _ d_res)
                (all_nodup_prefix _ _ _ _ _ _ _ (nodupR _ Hwf) (pfx_is_prefix _ _ d_res _ _ _ Hpre) (Hlen' _ d_res))
                (wf_all_range _ _ _ _ _ _ _ _ _ _ _ (wfallR _ Hwf) (pfx_is_prefix _ _ d_res _ _ _ Hpre) (Hlen' _ d_res)))
      as [r' [Er Ir]].
    destruct (sp_post_inv kvkey (option bytes) kvrec bytes_eqb kv_interp (fun _ d => kv_interp d) None kv_skip bytes_eqb_spec wfrecK (fun _ => eq_refl) (fun _ _ _ => eq_refl)
                kv_skip_ok _ _ _ _ _ _ _ _ Hk (pfx_is_prefix _ _ d_kv _ _ _ Hpre) (Hlen _ d_kv)
                (all_nodup_prefix _ _ _ _ _ _ _ (nodupK _ Hwf) (pfx_is_prefix _ _ d_kv _ _ _ Hpre) (Hlen' _ d_kv))
                (wf_all_range _ _ _ _ _ _ _ _ _ _ _ (wfallK _ Hwf) (pfx_is_prefix _ _ d_kv _ _ _ Hpre) (Hlen' _ d_kv)))
      as [k' [Ek Ik]].
    destruct (sp_post_inv cidx creat creat N.eqb creat_interp (fun _ d => creat_interp d) creat_none no_skip Neqb_spec wfrecC (fun _ => eq_refl) (fun _ _ _ => eq_refl)
                (no_skip_ok _ _ wfrecC) _ _ _ _ _ _ _ _ Hc (pfx_is_prefix _ _ d_cre _ _ _ Hpre) (Hlen _ d_cre)
                (all_nodup_prefix _ _ _ _ _ _ _ (nodupC _ Hwf) (pfx_is_prefix _ _ d_cre _ _ _ Hpre) (Hlen' _ d_cre))
                (wf_all_range _ _ _ _ _ _ _ _ _ _ _ (wfallC _) (pfx_is_prefix _ _ d_cre _ _ _ Hpre) (Hlen' _ d_cre)))
      as [c' [Ec Ic]].
    unfold a_post, r_post, k_post, c_post. rewrite Ea, Er, Ek, Ec.
    eexists. split; [reflexivity|]. split.
    - constructor; simpl; try assumption.
      + lia.
      + apply pfx_skip; [exact Hpre|lia].
      + unfold IA. now rewrite skipn_map'.
      + unfold IR. now rewrite skipn_map'.
      + unfold IK. now rewrite skipn_map'.
      + unfold IC. now rewrite skipn_map'.
      + unfold phase_ok. simpl. reflexivity.
      + unfold queue_ok in *. simpl. rewrite skipn_length. destruct (t_queue s) as [[ob o]|]; [lia|exact I].
    - unfold Full. simpl. rewrite skipn_length. f_equal. lia.
  Qed.
  (* ---------- flush / prune / lookups ---------- *)
  Lemma inv_set_spaces : forall s a r k c,
    Inv s ->
    IA (cf_fix (t_cfg s)) (cf_cache (t_cfg s)) (t_blocks s) (t_dbRound s) (t_dbr s) (t_deltas s) a ->
    IR (cf_fix (t_cfg s)) (cf_cache (t_cfg s)) (t_blocks s) (t_dbRound s) (t_dbr s) (t_deltas s) r ->
    IK (cf_fix (t_cfg s)) (cf_cache (t_cfg s)) (t_blocks s) (t_dbRound s) (t_dbr s) (t_deltas s) k ->
    IC (t_blocks s) (t_dbRound s) (t_dbr s) (t_deltas s) c ->
    Inv (set_spaces s a r k c).
  Proof. intros s a r k c [] Ha Hr Hk Hc. constructor; assumption. Qed.

  (* servable rounds *)
  Definition servable (s : st) (rnd : nat) : Prop := t_dbRound s <= rnd <= t_dbRound s + length (t_deltas s).

  (* what a lookup result must be, given the spec value *)
  Definition res_ok {A : Type} (s : st) (rnd : nat) (r : lres A) (spec : A) : Prop :=
    (forall v, r = LOk v -> v = spec) /\
    (servable s rnd ->
       (t_dbr s = t_dbRound s -> exists v, r = LOk v) /\
       (t_dbRound s < t_dbr s -> r = LRetry \/ exists v, r = LOk v)).

  Definition out_ok (s : st) (o : op) (r : out) : Prop :=
    match o, r with
    | OQAcct rnd a, RAcct x => res_ok s rnd x (ans_acct (state_at g (t_blocks s) rnd) a)
    | OQRes rnd a c, RRes x => res_ok s rnd x (ans_res (state_at g (t_blocks s) rnd) a c)
    | OQKv rnd k, RKv x => res_ok s rnd x (ans_kv (state_at g (t_blocks s) rnd) k)
    | OQCre rnd c ct, RCre x => res_ok s rnd x (ans_creator (state_at g (t_blocks s) rnd) c ct)
    | OSAcct rnd a, RAcct x => res_ok s rnd x (ans_acct (state_at g (t_blocks s) rnd) a)
    | OSRes rnd a c, RRes x => res_ok s rnd x (ans_res (state_at g (t_blocks s) rnd) a c)
    | OSKv rnd k, RKv x => res_ok s rnd x (ans_kv (state_at g (t_blocks s) rnd) k)
    | OQAcct _ _, _ | OQRes _ _ _, _ | OQKv _ _, _ | OQCre _ _ _, _
    | OSAcct _ _, _ | OSRes _ _ _, _ | OSKv _ _, _ => False
    | _, _ => True
    end.

  Lemma inv_query : forall s o, Inv s ->
    match o with OQAcct _ _ | OQRes _ _ _ | OQKv _ _ | OQCre _ _ _
               | OSAcct _ _ | OSRes _ _ _ | OSKv _ _ => True | _ => False end ->
    Inv (fst (step s o)) /\ Full s = Full (fst (step s o)) /\ out_ok s o (snd (step s o)) /\
    t_blocks (fst (step s o)) = t_blocks s.
  Proof.
    intros s o H Ho. assert (Hpre := i_pre s H).
    destruct o; try contradiction; cbn [step].
    - destruct (a_lookup _ _ _ _ _ _ _ _ _) as [x y'] eqn:E. simpl.
      destruct (sp_lookup_ok _ _ _ _ _ _ _ _ Neqb_spec acct_is_empty_spec _ _ _ _ _ _ _ _ _ _ _ _ _ _
                  (i_a s H) (pfx_is_prefix _ _ d_accts _ _ _ Hpre) E) as [Hi [Hv Ht]].
      split; [apply inv_set_spaces; try assumption; apply H|]. split; [reflexivity|]. split; [|reflexivity].
      unfold res_ok, servable, ans_acct. rewrite state_at_acct. rewrite map_length in Ht. now split.
    - destruct (r_lookup _ _ _ _ _ _ _ _ _) as [x y'] eqn:E. simpl.
      destruct (sp_lookup_ok _ _ _ _ _ _ _ _ pair_eqb_spec res_is_empty_spec _ _ _ _ _ _ _ _ _ _ _ _ _ _
                  (i_r s H) (pfx_is_prefix _ _ d_res _ _ _ Hpre) E) as [Hi [Hv Ht]].
      split; [apply inv_set_spaces; try assumption; apply H|]. split; [reflexivity|]. split; [|reflexivity].
      unfold res_ok, servable, ans_res. rewrite state_at_res. rewrite map_length in Ht. now split.
    - destruct (k_lookup _ _ _ _ _ _ _ _ _) as [x y'] eqn:E. simpl.
      destruct (sp_lookup_ok _ _ _ _ _ _ _ _ bytes_eqb_spec kv_is_empty_spec _ _ _ _ _ _ _ _ _ _ _ _ _ _
                  (i_k s H) (pfx_is_prefix _ _ d_kv _ _ _ Hpre) E) as [Hi [Hv Ht]].
      split; [apply inv_set_spaces; try assumption; apply H|]. split; [reflexivity|]. split; [|reflexivity].
      unfold res_ok, servable, ans_kv. rewrite state_at_kv. rewrite map_length in Ht. now split.
    - simpl. split; [exact H|]. split; [reflexivity|]. split; [|reflexivity].
      destruct (cr_lookup_ok cidx creat creat N.eqb creat_interp creat_none (w_cre g) true false (map d_cre (t_blocks s))
                  (t_dbRound s) (t_dbr s) (map d_cre (t_deltas s)) (t_cre s) rnd c _ (i_c s H) (pfx_is_prefix _ _ d_cre _ _ _ Hpre) eq_refl)
        as [Hv Ht].
      rewrite map_length in Ht. unfold res_ok, servable, ans_creator. rewrite state_at_cre. split.
      + intros v Hx. unfold c_lookup in Hx. destruct (cr_lookup _ _ _ _ _ _ _ _ _ _ _ _) as [y| |e] eqn:E; try discriminate.
        simpl in Hx. inversion Hx. now rewrite (Hv y eq_refl).
      + intro Hs. destruct (Ht Hs) as [H1 H2]. unfold c_lookup. split.
        * intro Hd. destruct (H1 Hd) as [v Hv']. rewrite Hv'. simpl. eauto.
        * intro Hd. destruct (H2 Hd) as [Hv'|[v Hv']]; rewrite Hv'; simpl; eauto.
    - destruct (a_lookup _ _ _ _ _ _ _ _ _) as [x y'] eqn:E. simpl.
      destruct (sp_lookup_ok _ _ _ _ _ _ _ _ Neqb_spec acct_is_empty_spec _ _ _ _ _ _ _ _ _ _ _ _ _ _
                  (i_a s H) (pfx_is_prefix _ _ d_accts _ _ _ Hpre) E) as [Hi [Hv Ht]].
      split; [apply inv_set_spaces; try assumption; apply H|]. split; [reflexivity|]. split; [|reflexivity].
      unfold res_ok, servable, ans_acct. rewrite state_at_acct. rewrite map_length in Ht. now split.
    - destruct (r_lookup _ _ _ _ _ _ _ _ _) as [x y'] eqn:E. simpl.
      destruct (sp_lookup_ok _ _ _ _ _ _ _ _ pair_eqb_spec res_is_empty_spec _ _ _ _ _ _ _ _ _ _ _ _ _ _
                  (i_r s H) (pfx_is_prefix _ _ d_res _ _ _ Hpre) E) as [Hi [Hv Ht]].
      split; [apply inv_set_spaces; try assumption; apply H|]. split; [reflexivity|]. split; [|reflexivity].
      unfold res_ok, servable, ans_res. rewrite state_at_res. rewrite map_length in Ht. now split.
    - destruct (k_lookup _ _ _ _ _ _ _ _ _) as [x y'] eqn:E. simpl.
      destruct (sp_lookup_ok _ _ _ _ _ _ _ _ bytes_eqb_spec kv_is_empty_spec _ _ _ _ _ _ _ _ _ _ _ _ _ _
                  (i_k s H) (pfx_is_prefix _ _ d_kv _ _ _ Hpre) E) as [Hi [Hv Ht]].
      split; [apply inv_set_spaces; try assumption; apply H|]. split; [reflexivity|]. split; [|reflexivity].
      unfold res_ok, servable, ans_kv. rewrite state_at_kv. rewrite map_length in Ht. now split.
  Qed.

  Lemma inv_flush : forall s, Inv s -> Inv (fst (step s OFlush)).
  Proof.
    intros s H. cbn [step fst]. apply inv_set_spaces; [exact H| | | |apply H].
    - apply sp_flush_inv; [exact Neqb_spec|apply H].
    - apply sp_flush_inv; [exact pair_eqb_spec|apply H].
    - apply sp_flush_inv; [exact bytes_eqb_spec|apply H].
  Qed.

  Lemma inv_prune : forall s na nr nk, Inv s -> Inv (fst (step s (OPrune na nr nk))).
  Proof.
    intros s na nr nk H. cbn [step fst]. apply inv_set_spaces; [exact H| | | |apply H].
    - apply sp_prune_inv; [exact Neqb_spec|apply H].
    - apply sp_prune_inv; [exact pair_eqb_spec|apply H].
    - apply sp_prune_inv; [exact bytes_eqb_spec|apply H].
  Qed.

  (* a held reader's cache write lands: any time with the proposed flush, at a tolerated time
     with the original one *)
  Lemma inv_land : forall s sp n, Inv s -> land_okb s sp n = true -> Inv (fst (step s (OLand sp n))).
  Proof.
    intros s sp n H Hok. cbn [step fst]. unfold land_okb in Hok.
    destruct sp as [|[|[|sp]]]; [| | |exact H]; apply inv_set_spaces; try exact H; try apply H;
      apply sp_land_inv; try apply H; intro Hf; rewrite Hf in Hok; simpl in Hok.
    - assert (Ha := i_a s H). unfold IA in Ha. rewrite Hf in Ha.
      apply land_ok_safe; [exact (si_cache _ _ _ _ _ _ _ _ _ _ _ _ _ _ Ha)|exact Hok].
    - assert (Ha := i_r s H). unfold IR in Ha. rewrite Hf in Ha.
      apply land_ok_safe; [exact (si_cache _ _ _ _ _ _ _ _ _ _ _ _ _ _ Ha)|exact Hok].
    - assert (Ha := i_k s H). unfold IK in Ha. rewrite Hf in Ha.
      apply land_ok_safe; [exact (si_cache _ _ _ _ _ _ _ _ _ _ _ _ _ _ Ha)|exact Hok].
  Qed.

  (* ---------- reload ---------- *)
  Lemma replay_inv : forall bl s pre,
    Inv s -> t_blocks s = pre ++ bl -> length pre = t_dbRound s + length (t_deltas s) ->
    Inv (fold_left newblock_mem bl s) /\ Full (fold_left newblock_mem bl s) /\
    t_blocks (fold_left newblock_mem bl s) = t_blocks s /\ t_cfg (fold_left newblock_mem bl s) = t_cfg s /\
    t_queue (fold_left newblock_mem bl s) = t_queue s /\ t_phase (fold_left newblock_mem bl s) = t_phase s.
  Proof.
    induction bl as [|d bl IH]; intros s pre H Hb Hl; cbn [fold_left].
    - split; [exact H|]. split; [|now repeat split].
      unfold Full. rewrite Hb, app_nil_r. now symmetry.
    - assert (Hi : Inv (newblock_mem s d)).
      { apply inv_newblock_mem; [exact H| |].
        - rewrite Hb, <- Hl. apply nth_middle.
        - rewrite Hb, app_length. simpl. lia. }
      destruct (IH (newblock_mem s d) (pre ++ [d]) Hi) as [H1 [H2 [H3 [H4 [H5 H6]]]]].
      + simpl. rewrite Hb, <- app_assoc. reflexivity.
      + simpl. rewrite !app_length. simpl. lia.
      + split; [exact H1|]. split; [exact H2|]. rewrite H3, H4, H5, H6. now repeat split.
  Qed.

  Lemma inv_reload : forall s, Inv s -> Full s ->
    Inv (fst (reload s)) /\ Full (fst (reload s)) /\ snd (reload s) = false /\
    t_blocks (fst (reload s)) = t_blocks s.
  Proof.
    intros s H HF. unfold reload.
    assert (Hsame : Inv (fst (s, false)) /\ Full (fst (s, false)) /\ snd (s, false) = false /\
                    t_blocks (fst (s, false)) = t_blocks s).
    { simpl. split; [exact H|split; [exact HF|split; reflexivity]]. }
    destruct (t_phase s) eqn:Ep; [|exact Hsame|exact Hsame].
    destruct (t_queue s) eqn:Eq; [exact Hsame|]. clear Hsame.
    assert (Hp := i_phase s H). unfold phase_ok in Hp. rewrite Ep in Hp.
    set (s0 := mkSt (t_cfg s) (t_blocks s) (t_dbr s) (t_dbr s) [] _ _ _ _ None PIdle).
    assert (H0 : Inv s0).
    { destruct H as [Hwf HR Hpre Ha Hr Hk Hc Hph Hq]. constructor; simpl; try assumption.
      - lia.
      - apply pfx_nil.
      - unfold IA in *. now apply sp_reset_inv in Ha.
      - unfold IR in *. now apply sp_reset_inv in Hr.
      - unfold IK in *. now apply sp_reset_inv in Hk.
      - unfold IC in *. now apply sp_reset_inv in Hc.
      - reflexivity.
      - exact I. }
    destruct (replay_inv (skipn (t_dbr s) (t_blocks s)) s0 (firstn (t_dbr s) (t_blocks s)) H0) as [H1 [H2 [H3 [H4 [H5 H6]]]]].
    { simpl. now rewrite firstn_skipn. }
    { simpl. rewrite firstn_length. assert (Hx := i_R s H). lia. }
    set (s1 := fold_left newblock_mem (skipn (t_dbr s) (t_blocks s)) s0) in *.
    destruct (t_dbRound s1 + cf_lookback (t_cfg s1) <? latest s1) eqn:E;
      [|simpl; split; [exact H1|split; [exact H2|split; [reflexivity|exact H3]]]].
    destruct (schedule_no_panic s1 (latest s1)) as [s2 Hs2]; [unfold latest; lia|].
    rewrite Hs2. destruct (inv_schedule _ _ _ H1 Hs2) as [I2 F2].
    destruct (inv_begin s2 I2) as [s3 [Hs3 [I3 F3]]]. rewrite Hs3.
    destruct (inv_commitdb s3 I3) as [I4 F4].
    destruct (inv_postcommit _ I4) as [s5 [Hs5 [I5 F5]]]. rewrite Hs5. simpl.
    split; [exact I5|]. split; [rewrite <- F5, <- F4, <- F3, <- F2; exact H2|]. split; [reflexivity|].
    assert (B2 : t_blocks s2 = t_blocks s1).
    { unfold schedule in Hs2. repeat match type of Hs2 with
        | (if ?c then _ else _) = _ => destruct c
        | match ?c with Some _ => _ | None => _ end = _ => destruct c
        end; inversion Hs2; reflexivity. }
    assert (B3 : t_blocks s3 = t_blocks s2).
    { unfold begin in Hs3. repeat match type of Hs3 with
        | (if ?c then _ else _) = _ => destruct c
        | match ?c with _ => _ end = _ => destruct c
        end; inversion Hs3; reflexivity. }
    assert (B4 : t_blocks (commitdb s3) = t_blocks s3).
    { unfold commitdb. repeat match goal with
        | |- context [match ?c with _ => _ end] => destruct c
        end; reflexivity. }
    assert (B5 : t_blocks s5 = t_blocks (commitdb s3)).
    { unfold postcommit in Hs5. repeat match type of Hs5 with
        | match ?c with _ => _ end = _ => destruct c
        end; inversion Hs5; reflexivity. }
    rewrite B5, B4, B3, B2, H3. reflexivity.
  Qed.
  (* ---------- one step ---------- *)
  Lemma schedule_blocks : forall s r s', schedule s r = Some s' -> t_blocks s' = t_blocks s.
  Proof.
    intros s r s' H. unfold schedule in H.
    repeat match type of H with
      | (if ?c then _ else _) = _ => destruct c
      | match ?c with Some _ => _ | None => _ end = _ => destruct c
      end; inversion H; reflexivity.
  Qed.

  Lemma begin_blocks : forall s s', begin s = Some s' -> t_blocks s' = t_blocks s.
  Proof.
    intros s s' H. unfold begin in H.
    repeat match type of H with
      | (if ?c then _ else _) = _ => destruct c
      | match ?c with _ => _ end = _ => destruct c
      end; inversion H; reflexivity.
  Qed.

  Lemma commitdb_blocks : forall s, t_blocks (commitdb s) = t_blocks s.
  Proof.
    intro s. unfold commitdb.
    repeat match goal with |- context [match ?c with _ => _ end] => destruct c end; reflexivity.
  Qed.

  Lemma postcommit_blocks : forall s s', postcommit s = Some s' -> t_blocks s' = t_blocks s.
  Proof.
    intros s s' H. unfold postcommit in H.
    repeat match type of H with match ?c with _ => _ end = _ => destruct c end; inversion H; reflexivity.
  Qed.

  Definition op_enabled (s : st) (o : op) : Prop :=
    match o with
    | OSchedule r => r <= cf_lookback (t_cfg s) + t_dbRound s + length (t_deltas s)
    | _ => True
    end.

  Definition op_safe (s : st) (o : op) : Prop :=
    match o with OLand sp n => land_okb s sp n = true | _ => True end.

  Definition new_blocks (o : op) : list delta := match o with ONewBlock d => [d] | _ => [] end.

  Lemma inv_step : forall s o,
    Inv s -> Full s -> wf_hist g (t_blocks s ++ new_blocks o) -> op_safe s o ->
    Inv (fst (step s o)) /\ Full (fst (step s o)) /\
    t_blocks (fst (step s o)) = t_blocks s ++ new_blocks o /\
    out_ok s o (snd (step s o)) /\
    (op_enabled s o -> snd (step s o) <> RPanic).
  Proof.
    intros s o H HF Hwf Hsafe. destruct o.
    - (* NewBlock *) cbn [step fst snd new_blocks] in *.
      destruct (inv_newblock s d H HF Hwf) as [H1 H2].
      split; [exact H1|]. split; [exact H2|]. split; [reflexivity|]. split; [exact I|]. discriminate.
    - (* Schedule *) cbn [step new_blocks]. rewrite app_nil_r. unfold opt_or.
      destruct (schedule s r) as [s'|] eqn:E.
      + destruct (inv_schedule _ _ _ H E) as [H1 H2]. simpl.
        split; [exact H1|]. split; [now rewrite <- H2|]. split; [now apply (schedule_blocks s r)|].
        split; [exact I|discriminate].
      + simpl. split; [exact H|]. split; [exact HF|]. split; [reflexivity|]. split; [exact I|].
        intro He. unfold op_enabled in He. destruct (schedule_no_panic s r He) as [s' Hs']. congruence.
    - (* Begin *) cbn [step new_blocks]. rewrite app_nil_r. unfold opt_or.
      destruct (inv_begin s H) as [s' [E [H1 H2]]]. rewrite E. simpl.
      split; [exact H1|]. split; [now rewrite <- H2|]. split; [now apply begin_blocks|].
      split; [exact I|discriminate].
    - (* CommitDB *) cbn [step fst snd new_blocks]. rewrite app_nil_r.
      destruct (inv_commitdb s H) as [H1 H2].
      split; [exact H1|]. split; [now rewrite <- H2|]. split; [apply commitdb_blocks|].
      split; [exact I|discriminate].
    - (* PostCommit *) cbn [step new_blocks]. rewrite app_nil_r. unfold opt_or.
      destruct (inv_postcommit s H) as [s' [E [H1 H2]]]. rewrite E. simpl.
      split; [exact H1|]. split; [now rewrite <- H2|]. split; [now apply postcommit_blocks|].
      split; [exact I|discriminate].
    - (* Reload *) cbn [step new_blocks]. rewrite app_nil_r.
      destruct (inv_reload s H HF) as [H1 [H2 [H3 H4]]]. destruct (reload s) as [s' p]. simpl in *. subst p.
      split; [exact H1|]. split; [exact H2|]. split; [exact H4|]. split; [exact I|discriminate].
    - (* Flush *) split; [now apply inv_flush|]. cbn [step fst snd new_blocks]. rewrite app_nil_r.
      split; [exact HF|]. split; [reflexivity|]. split; [exact I|discriminate].
    - (* Prune *) split; [now apply inv_prune|]. cbn [step fst snd new_blocks]. rewrite app_nil_r.
      split; [exact HF|]. split; [reflexivity|]. split; [exact I|discriminate].
    - destruct (inv_query s (OQAcct rnd a) H I) as [H1 [H2 [H3 H4]]]. cbn [new_blocks]. rewrite app_nil_r.
      split; [exact H1|]. split; [now rewrite <- H2|]. split; [exact H4|]. split; [exact H3|].
      intros _. cbn [step]. destruct (a_lookup _ _ _ _ _ _ _ _ _). discriminate.
    - destruct (inv_query s (OQRes rnd a c) H I) as [H1 [H2 [H3 H4]]]. cbn [new_blocks]. rewrite app_nil_r.
      split; [exact H1|]. split; [now rewrite <- H2|]. split; [exact H4|]. split; [exact H3|].
      intros _. cbn [step]. destruct (r_lookup _ _ _ _ _ _ _ _ _). discriminate.
    - destruct (inv_query s (OQKv rnd k) H I) as [H1 [H2 [H3 H4]]]. cbn [new_blocks]. rewrite app_nil_r.
      split; [exact H1|]. split; [now rewrite <- H2|]. split; [exact H4|]. split; [exact H3|].
      intros _. cbn [step]. destruct (k_lookup _ _ _ _ _ _ _ _ _). discriminate.
    - destruct (inv_query s (OQCre rnd c ctype) H I) as [H1 [H2 [H3 H4]]]. cbn [new_blocks]. rewrite app_nil_r.
      split; [exact H1|]. split; [now rewrite <- H2|]. split; [exact H4|]. split; [exact H3|].
      intros _. cbn [step snd]. discriminate.
    - destruct (inv_query s (OSAcct rnd a) H I) as [H1 [H2 [H3 H4]]]. cbn [new_blocks]. rewrite app_nil_r.
      split; [exact H1|]. split; [now rewrite <- H2|]. split; [exact H4|]. split; [exact H3|].
      intros _. cbn [step]. destruct (a_lookup _ _ _ _ _ _ _ _ _). discriminate.
    - destruct (inv_query s (OSRes rnd a c) H I) as [H1 [H2 [H3 H4]]]. cbn [new_blocks]. rewrite app_nil_r.
      split; [exact H1|]. split; [now rewrite <- H2|]. split; [exact H4|]. split; [exact H3|].
      intros _. cbn [step]. destruct (r_lookup _ _ _ _ _ _ _ _ _). discriminate.
    - destruct (inv_query s (OSKv rnd k) H I) as [H1 [H2 [H3 H4]]]. cbn [new_blocks]. rewrite app_nil_r.
      split; [exact H1|]. split; [now rewrite <- H2|]. split; [exact H4|]. split; [exact H3|].
      intros _. cbn [step]. destruct (k_lookup _ _ _ _ _ _ _ _ _). discriminate.
    - (* Land *) split; [now apply inv_land|]. cbn [new_blocks]. rewrite app_nil_r.
      assert (Hsame : Full (fst (step s (OLand space n))) /\ t_blocks (fst (step s (OLand space n))) = t_blocks s).
      { cbn [step fst]. destruct space as [|[|[|sp]]]; split; try reflexivity; exact HF. }
      destruct Hsame as [Hs1 Hs2]. split; [exact Hs1|]. split; [exact Hs2|]. split; [exact I|].
      intros _. cbn [step snd]. discriminate.
  Qed.

  (* ---------- runs ---------- *)
  Lemma history_of_app : forall o1 o2, history_of (o1 ++ o2) = history_of o1 ++ history_of o2.
  Proof.
    induction o1 as [|o o1 IH]; intro o2; simpl; [reflexivity|].
    destruct o; simpl; now rewrite IH.
  Qed.

  Lemma history_of_cons : forall o ops, history_of (o :: ops) = new_blocks o ++ history_of ops.
  Proof. intros o ops. destruct o; reflexivity. Qed.

  Lemma lands_ok_cons : forall s o ops,
    lands_ok s (o :: ops) = true -> op_safe s o /\ lands_ok (fst (step s o)) ops = true.
  Proof.
    intros s o ops H. cbn [lands_ok] in H. apply andb_true_iff in H. destruct H as [H1 H2].
    split; [|exact H2]. destruct o; simpl; try exact I. exact H1.
  Qed.

  Lemma inv_run : forall ops s,
    Inv s -> Full s -> wf_hist g (t_blocks s ++ history_of ops) -> lands_ok s ops = true ->
    Inv (fst (run s ops)) /\ Full (fst (run s ops)) /\
    t_blocks (fst (run s ops)) = t_blocks s ++ history_of ops.
  Proof.
    induction ops as [|o ops IH]; intros s H HF Hwf Hl.
    - simpl. rewrite app_nil_r. split; [exact H|split; [exact HF|reflexivity]].
    - rewrite history_of_cons in *. rewrite app_assoc in Hwf.
      destruct (lands_ok_cons _ _ _ Hl) as [Hs1 Hs2].
      destruct (inv_step s o H HF (wf_hist_prefix _ _ _ Hwf) Hs1) as [H1 [H2 [H3 _]]].
      cbn [run]. destruct (step s o) as [s1 r] eqn:E. simpl in *.
      specialize (IH s1 H1 H2). rewrite H3 in IH. specialize (IH Hwf Hs2).
      destruct (run s1 ops) as [s2 rs]. simpl in *. now rewrite app_assoc.
  Qed.
End Inv.

(* ---------- the initial state ---------- *)
Lemma acct_table_get : forall gen a,
  db_get addr acct N.eqb acct_empty (acct_table gen) a = w_acct (genesis_world gen) a.
Proof.
  induction gen as [|[a0 x] gen IH]; intro a; simpl; [reflexivity|].
  rewrite (db_get_set addr acct N.eqb acct_empty acct_is_empty Neqb_spec acct_is_empty_spec).
  destruct (N.eqb a a0); [reflexivity|apply IH].
Qed.

Lemma inv_init : forall c gen, Inv (genesis_world gen) (init c gen) /\ Full (init c gen).
Proof.
  intros c gen. split; [|reflexivity].
  constructor; simpl; try reflexivity; try lia; try exact I.
  - constructor; simpl; [apply mods_ok_nil|apply cinvg_empty|intro; reflexivity|].
    intro k. unfold ks_state. simpl. apply acct_table_get.
  - constructor; simpl; [apply mods_ok_nil|apply cinvg_empty|intro; reflexivity|]. reflexivity.
  - constructor; simpl; [apply mods_ok_nil|apply cinvg_empty|intro; reflexivity|]. reflexivity.
  - constructor; simpl; [apply mods_ok_nil|apply (cinvg_empty _ _ _ _ true)|intro; reflexivity|]. reflexivity.
Qed.

(* every landing is tolerated when the proposed flush is in place *)
Lemma schedule_cfg : forall s r s', schedule s r = Some s' -> t_cfg s' = t_cfg s.
Proof.
  intros s r s' H. unfold schedule in H.
  repeat match type of H with
    | (if ?c then _ else _) = _ => destruct c
    | match ?c with Some _ => _ | None => _ end = _ => destruct c
    end; inversion H; reflexivity.
Qed.

Lemma begin_cfg : forall s s', begin s = Some s' -> t_cfg s' = t_cfg s.
Proof.
  intros s s' H. unfold begin in H.
  repeat match type of H with
    | (if ?c then _ else _) = _ => destruct c
    | match ?c with _ => _ end = _ => destruct c
    end; inversion H; reflexivity.
Qed.

Lemma commitdb_cfg : forall s, t_cfg (commitdb s) = t_cfg s.
Proof.
  intro s. unfold commitdb.
  repeat match goal with |- context [match ?c with _ => _ end] => destruct c end; reflexivity.
Qed.

Lemma postcommit_cfg : forall s s', postcommit s = Some s' -> t_cfg s' = t_cfg s.
Proof.
  intros s s' H. unfold postcommit in H.
  repeat match type of H with match ?c with _ => _ end = _ => destruct c end; inversion H; reflexivity.
Qed.

Lemma replay_cfg : forall l s0, t_cfg (fold_left newblock_mem l s0) = t_cfg s0.
Proof. induction l as [|d l IH]; intro s0; simpl; [reflexivity|]. now rewrite IH. Qed.

Lemma reload_cfg : forall s, t_cfg (fst (reload s)) = t_cfg s.
Proof.
  intro s. unfold reload. destruct (t_phase s); try reflexivity. destruct (t_queue s); try reflexivity.
  set (s0 := mkSt _ _ _ _ _ _ _ _ _ _ _).
  set (s1 := fold_left newblock_mem _ s0).
  assert (Hc : t_cfg s1 = t_cfg s) by (unfold s1; now rewrite replay_cfg).
  destruct (_ <? _); [|exact Hc].
  destruct (schedule s1 (latest s1)) as [s2|] eqn:E2; [|exact Hc].
  assert (H2 := schedule_cfg _ _ _ E2).
  destruct (begin s2) as [s3|] eqn:E3; [|simpl; congruence].
  assert (H3 := begin_cfg _ _ E3). unfold opt_or.
  destruct (postcommit (commitdb s3)) as [s5|] eqn:E5; simpl.
  - rewrite (postcommit_cfg _ _ E5), commitdb_cfg. congruence.
  - rewrite commitdb_cfg. congruence.
Qed.

Lemma step_cfg : forall s o, t_cfg (fst (step s o)) = t_cfg s.
Proof.
  intros s o. destruct o; cbn [step]; try reflexivity.
  - unfold opt_or. destruct (schedule s r) eqn:E; simpl; [now apply (schedule_cfg s r)|reflexivity].
  - unfold opt_or. destruct (begin s) eqn:E; simpl; [now apply begin_cfg|reflexivity].
  - simpl. apply commitdb_cfg.
  - unfold opt_or. destruct (postcommit s) eqn:E; simpl; [now apply postcommit_cfg|reflexivity].
  - assert (H := reload_cfg s). destruct (reload s). exact H.
  - destruct (a_lookup _ _ _ _ _ _ _ _ _). reflexivity.
  - destruct (r_lookup _ _ _ _ _ _ _ _ _). reflexivity.
  - destruct (k_lookup _ _ _ _ _ _ _ _ _). reflexivity.
  - destruct (a_lookup _ _ _ _ _ _ _ _ _). reflexivity.
  - destruct (r_lookup _ _ _ _ _ _ _ _ _). reflexivity.
  - destruct (k_lookup _ _ _ _ _ _ _ _ _). reflexivity.
  - destruct space as [|[|[|sp]]]; reflexivity.
Qed.

Lemma lands_ok_fixed : forall ops s, cf_fix (t_cfg s) = true -> lands_ok s ops = true.
Proof.
  induction ops as [|o ops IH]; intros s H; cbn [lands_ok]; [reflexivity|].
  rewrite IH by (now rewrite step_cfg). rewrite andb_true_r.
  destruct o; try reflexivity. unfold land_okb. now rewrite H.
Qed.

(* ---------- reachable states ---------- *)
Definition reach (c : cfg) (gen : list (addr * acct)) (ops : list op) : st := fst (run (init c gen) ops).

Lemma reach_inv : forall c gen ops,
  lands_ok (init c gen) ops = true -> wf_hist (genesis_world gen) (history_of ops) ->
  Inv (genesis_world gen) (reach c gen ops) /\ Full (reach c gen ops) /\
  t_blocks (reach c gen ops) = history_of ops.
Proof.
  intros c gen ops Hl Hwf. destruct (inv_init c gen) as [H HF].
  apply (inv_run (genesis_world gen) ops (init c gen) H HF Hwf Hl).
Qed.

(* the answer the block history dictates *)
Definition spec_out (g : world) (h : list delta) (q : op) : out :=
  match q with
  | OQAcct rnd a => RAcct (LOk (ans_acct (state_at g h rnd) a))
  | OQRes rnd a c => RRes (LOk (ans_res (state_at g h rnd) a c))
  | OQKv rnd k => RKv (LOk (ans_kv (state_at g h rnd) k))
  | OQCre rnd c ct => RCre (LOk (ans_creator (state_at g h rnd) c ct))
  | OSAcct rnd a => RAcct (LOk (ans_acct (state_at g h rnd) a))
  | OSRes rnd a c => RRes (LOk (ans_res (state_at g h rnd) a c))
  | OSKv rnd k => RKv (LOk (ans_kv (state_at g h rnd) k))
  | _ => RDone
  end.
Definition is_query (q : op) : Prop :=
  match q with OQAcct _ _ | OQRes _ _ _ | OQKv _ _ | OQCre _ _ _
             | OSAcct _ _ | OSRes _ _ _ | OSKv _ _ => True | _ => False end.
Definition q_rnd (q : op) : nat :=
  match q with OQAcct r _ | OQRes r _ _ | OQKv r _ | OQCre r _ _
             | OSAcct r _ | OSRes r _ _ | OSKv r _ => r | _ => 0 end.
Definition out_is_ok (r : out) : Prop :=
  match r with RAcct (LOk _) | RRes (LOk _) | RKv (LOk _) | RCre (LOk _) => True | _ => False end.
Definition out_is_retry (r : out) : Prop :=
  match r with RAcct LRetry | RRes LRetry | RKv LRetry | RCre LRetry => True | _ => False end.

Lemma lookup_correct_lemma : forall c gen ops q,
  lands_ok (init c gen) ops = true -> wf_hist (genesis_world gen) (history_of ops) -> is_query q ->
  out_is_ok (snd (step (reach c gen ops) q)) ->
  snd (step (reach c gen ops) q) = spec_out (genesis_world gen) (history_of ops) q.
Proof.
  intros c gen ops q Hfix Hwf Hq Hok. destruct (reach_inv c gen ops Hfix Hwf) as [H [HF Hb]].
  destruct (inv_query (genesis_world gen) _ q H Hq) as [_ [_ [Ho _]]].
  destruct q; try contradiction; cbn [out_ok] in Ho; rewrite Hb in Ho;
    destruct (snd (step _ _)) as [| |x|x|x|x];
    try contradiction; simpl in Hok; destruct x as [v| |e]; try contradiction;
    destruct Ho as [Hv _]; simpl; now rewrite (Hv v eq_refl).
Qed.

Lemma res_ok_total : forall (g : world) (A : Type) s rnd (x : lres A) spec,
  res_ok s rnd x spec -> servable s rnd -> phase_ok s ->
  match t_phase s with
  | PCommitted _ => (exists v, x = LOk v) \/ x = LRetry
  | _ => exists v, x = LOk v
  end.
Proof.
  intros g A s rnd x spec [_ Ht] Hs Hp. destruct (Ht Hs) as [H1 H2]. unfold phase_ok in Hp.
  destruct (t_phase s) as [|off|off].
  - now apply H1.
  - destruct Hp as [Hp _]. now apply H1.
  - destruct Hp as [Hp Ho]. destruct H2 as [Hr|Hv]; [lia|now right|now left].
Qed.

Lemma lookup_total_lemma : forall c gen ops q,
  lands_ok (init c gen) ops = true -> wf_hist (genesis_world gen) (history_of ops) -> is_query q ->
  servable (reach c gen ops) (q_rnd q) ->
  match t_phase (reach c gen ops) with
  | PCommitted _ => out_is_ok (snd (step (reach c gen ops) q)) \/ out_is_retry (snd (step (reach c gen ops) q))
  | _ => out_is_ok (snd (step (reach c gen ops) q))
  end.
Proof.
  intros c gen ops q Hfix Hwf Hq Hs. destruct (reach_inv c gen ops Hfix Hwf) as [H [HF Hb]].
  destruct (inv_query (genesis_world gen) _ q H Hq) as [_ [_ [Ho _]]].
  assert (Hp := i_phase _ _ H).
  destruct q; try contradiction; cbn [out_ok q_rnd] in Ho, Hs;
    destruct (snd (step _ _)) as [| |x|x|x|x]; try contradiction;
    assert (Ht := res_ok_total (genesis_world gen) _ _ _ _ _ Ho Hs Hp);
    destruct (t_phase (reach c gen ops)) as [|off|off];
    try (destruct Ht as [v Hv]; rewrite Hv; exact I);
    (destruct Ht as [[v Hv]|Hr]; [rewrite Hv; left; exact I|rewrite Hr; right; exact I]).
Qed.

(* no operation of a run panics as long as committedUpTo is only called for rounds that exist *)
Fixpoint enabled_run (s : st) (ops : list op) : Prop :=
  match ops with
  | [] => True
  | o :: tl => op_enabled s o /\ enabled_run (fst (step s o)) tl
  end.

Lemma no_panic_run : forall g ops s,
  Inv g s -> Full s -> wf_hist g (t_blocks s ++ history_of ops) -> lands_ok s ops = true -> enabled_run s ops ->
  Forall (fun r => r <> RPanic) (snd (run s ops)).
Proof.
  intros g. induction ops as [|o ops IH]; intros s H HF Hwf Hl He; simpl; [constructor|].
  rewrite history_of_cons in Hwf. rewrite app_assoc in Hwf. destruct He as [He1 He2].
  destruct (lands_ok_cons _ _ _ Hl) as [Hs1 Hs2].
  destruct (inv_step g s o H HF (wf_hist_prefix _ _ _ Hwf) Hs1) as [H1 [H2 [H3 [_ H5]]]].
  destruct (step s o) as [s1 r] eqn:E. simpl in *.
  specialize (IH s1 H1 H2). rewrite H3 in IH. specialize (IH Hwf Hs2 He2).
  destruct (run s1 ops) as [s2 rs]. simpl in *. constructor; [now apply H5|exact IH].
Qed.

(* ---------- corollaries stated by props/C08.v ---------- *)
Lemma schedule_independent_lemma : forall c1 c2 gen ops1 ops2 q,
  lands_ok (init c1 gen) ops1 = true -> lands_ok (init c2 gen) ops2 = true ->
  history_of ops1 = history_of ops2 ->
  wf_hist (genesis_world gen) (history_of ops1) -> is_query q ->
  out_is_ok (snd (step (reach c1 gen ops1) q)) -> out_is_ok (snd (step (reach c2 gen ops2) q)) ->
  snd (step (reach c1 gen ops1) q) = snd (step (reach c2 gen ops2) q).
Proof.
  intros c1 c2 gen ops1 ops2 q Hf1 Hf2 Hh Hwf Hq H1 H2.
  rewrite (lookup_correct_lemma c1 gen ops1 q Hf1 Hwf Hq H1).
  rewrite Hh in Hwf. rewrite (lookup_correct_lemma c2 gen ops2 q Hf2 Hwf Hq H2). now rewrite Hh.
Qed.

Lemma no_panic_reach : forall c gen ops,
  lands_ok (init c gen) ops = true -> wf_hist (genesis_world gen) (history_of ops) -> enabled_run (init c gen) ops ->
  Forall (fun r => r <> RPanic) (snd (run (init c gen) ops)).
Proof.
  intros c gen ops Hfix Hwf He. destruct (inv_init c gen) as [H HF].
  now apply (no_panic_run (genesis_world gen) ops (init c gen) H HF).
Qed.

(* in a reachable state the DB never lags behind memory and a prepared / committed range is
   inside the in-memory deltas *)
Lemma reach_phase : forall c gen ops,
  lands_ok (init c gen) ops = true -> wf_hist (genesis_world gen) (history_of ops) ->
  let s := reach c gen ops in
  match t_phase s with
  | PIdle => t_dbr s = t_dbRound s
  | PPrepared off => t_dbr s = t_dbRound s /\ 1 <= off <= length (t_deltas s)
  | PCommitted off => t_dbr s = t_dbRound s + off /\ 1 <= off <= length (t_deltas s)
  end /\ t_dbRound s + length (t_deltas s) = length (history_of ops).
Proof.
  intros c gen ops Hfix Hwf. destruct (reach_inv c gen ops Hfix Hwf) as [H [HF Hb]]. simpl.
  split; [exact (i_phase _ _ H)|]. unfold Full in HF. now rewrite <- Hb.
Qed.

(* runs without held readers, and runs against the proposed flush, meet the landing hypothesis *)
Definition prompt (ops : list op) : bool :=
  forallb (fun o => match o with OLand _ _ => false | _ => true end) ops.

Lemma lands_ok_prompt : forall ops s, prompt ops = true -> lands_ok s ops = true.
Proof.
  induction ops as [|o ops IH]; intros s H; cbn [lands_ok]; [reflexivity|].
  simpl in H. apply andb_true_iff in H. destruct H as [H1 H2]. rewrite (IH _ H2), andb_true_r.
  destruct o; try reflexivity. discriminate.
Qed.

Lemma lookup_correct_fixed_lemma : forall c gen ops q,
  cf_fix c = true -> wf_hist (genesis_world gen) (history_of ops) -> is_query q ->
  out_is_ok (snd (step (reach c gen ops) q)) ->
  snd (step (reach c gen ops) q) = spec_out (genesis_world gen) (history_of ops) q.
Proof. intros c gen ops q Hf. apply lookup_correct_lemma. now apply lands_ok_fixed. Qed.

Lemma schedule_independent_fixed_lemma : forall c1 c2 gen ops1 ops2 q,
  cf_fix c1 = true -> cf_fix c2 = true ->
  history_of ops1 = history_of ops2 ->
  wf_hist (genesis_world gen) (history_of ops1) -> is_query q ->
  out_is_ok (snd (step (reach c1 gen ops1) q)) -> out_is_ok (snd (step (reach c2 gen ops2) q)) ->
  snd (step (reach c1 gen ops1) q) = snd (step (reach c2 gen ops2) q).
Proof.
  intros c1 c2 gen ops1 ops2 q H1 H2. apply schedule_independent_lemma; now apply lands_ok_fixed.
Qed.
