(* Agreement proofs -- basic lemmas: weakest preconditions for the [res] monad, association
   lists, insertion sort, value equality. *)
From Coq Require Import NArith List Bool Lia ZifyN ZifyNat ZifyBool Permutation.
Import ListNotations.
From Verif.model Require Import AgreementTypes AgreementVotes.
Open Scope N_scope.

(* ---------- wp ---------- *)
Definition wp {A} (x : res A) (Q : A -> Prop) : Prop :=
  match x with Ok a => Q a | Panic _ => True | OutOfFuel => True end.

Lemma wp_ok : forall A (a : A) (Q : A -> Prop), Q a -> wp (Ok a) Q.
Proof. intros; exact H. Qed.
Lemma wp_panic : forall A t (Q : A -> Prop), wp (Panic t) Q.
Proof. intros; exact I. Qed.
Lemma wp_bind : forall A B (x : res A) (f : A -> res B) (Q : B -> Prop),
  wp x (fun a => wp (f a) Q) -> wp (bind x f) Q.
Proof. intros A B [a| |] f Q H; simpl in *; auto. Qed.
Lemma wp_mono : forall A (x : res A) (P Q : A -> Prop),
  wp x P -> (forall a, P a -> Q a) -> wp x Q.
Proof. intros A [a| |] P Q H HI; simpl in *; auto. Qed.
Lemma wp_inv : forall A (x : res A) (Q : A -> Prop) a, wp x Q -> x = Ok a -> Q a.
Proof. intros; subst; exact H. Qed.
Lemma wp_if : forall A (b : bool) (x y : res A) (Q : A -> Prop),
  (b = true -> wp x Q) -> (b = false -> wp y Q) -> wp (if b then x else y) Q.
Proof. intros A [] x y Q H1 H2; auto. Qed.

(* ---------- equality on values ---------- *)
Lemma value_eqb_eq : forall a b, value_eqb a b = true <-> a = b.
Proof.
  intros [a1 a2 a3 a4] [b1 b2 b3 b4]; unfold value_eqb; simpl; split; intro H.
  - repeat (apply andb_true_iff in H; destruct H as [H ?]).
    apply N.eqb_eq in H, H0, H1, H2; subst; reflexivity.
  - inversion H; subst; rewrite !N.eqb_refl; reflexivity.
Qed.
Lemma value_eqb_refl : forall a, value_eqb a a = true.
Proof. intro a; apply value_eqb_eq; reflexivity. Qed.
Lemma value_eqb_neq : forall a b, value_eqb a b = false <-> a <> b.
Proof.
  intros a b; split; intro H.
  - intro E; apply value_eqb_eq in E; congruence.
  - destruct (value_eqb a b) eqn:E; auto. apply value_eqb_eq in E; contradiction.
Qed.
Lemma value_eqb_sym : forall a b, value_eqb a b = value_eqb b a.
Proof.
  intros a b; destruct (value_eqb a b) eqn:E.
  - apply value_eqb_eq in E; subst; symmetry; apply value_eqb_refl.
  - destruct (value_eqb b a) eqn:E2; auto. apply value_eqb_eq in E2; subst.
    rewrite value_eqb_refl in E; discriminate.
Qed.

(* ---------- association lists ---------- *)
Section AL.
  Context {K V : Type} (eqb : K -> K -> bool).
  Hypothesis eqb_eq : forall a b, eqb a b = true <-> a = b.

  Lemma eqb_refl' : forall a, eqb a a = true.
  Proof. intro; apply eqb_eq; reflexivity. Qed.

  Lemma aget_In : forall k (v : V) l, aget eqb k l = Some v -> In (k, v) l.
  Proof.
    induction l as [|[k' v'] t IH]; simpl; intro H; [discriminate|].
    destruct (eqb k k') eqn:E.
    - apply eqb_eq in E; inversion H; subst; auto.
    - right; auto.
  Qed.

  Lemma aget_None_notin : forall k (l : list (K * V)), aget eqb k l = None -> ~ In k (map fst l).
  Proof.
    induction l as [|[k' v'] t IH]; simpl; intros H C; auto.
    destruct (eqb k k') eqn:E; [discriminate|].
    destruct C as [C|C]; [subst; rewrite eqb_refl' in E; discriminate|]. apply IH; auto.
  Qed.

  Lemma In_aget : forall k (v : V) l, NoDup (map fst l) -> In (k, v) l -> aget eqb k l = Some v.
  Proof.
    induction l as [|[k' v'] t IH]; simpl; intros ND H; [contradiction|].
    inversion ND; subst. destruct H as [H|H].
    - inversion H; subst. rewrite eqb_refl'; reflexivity.
    - destruct (eqb k k') eqn:E.
      + apply eqb_eq in E; subst. exfalso; apply H2. change k' with (fst (k', v)); apply in_map; auto.
      + apply IH; auto.
  Qed.

  (* weaker, NoDup-free form *)
  Lemma aset_In : forall k (v : V) l k' v',
    In (k', v') (aset eqb k v l) -> (k' = k /\ v' = v) \/ In (k', v') l.
  Proof.
    induction l as [|[k0 v0] t IH]; simpl; intros k' v' H.
    - destruct H as [H|[]]; inversion H; auto.
    - destruct (eqb k k0) eqn:E.
      + destruct H as [H|H]; [inversion H; auto | auto].
      + destruct H as [H|H]; [auto|]. apply IH in H; destruct H; auto.
  Qed.

  Lemma aset_keys : forall k (v : V) l k', In k' (map fst (aset eqb k v l)) -> k' = k \/ In k' (map fst l).
  Proof.
    induction l as [|[k0 v0] t IH]; simpl; intros k' H.
    - destruct H as [H|[]]; auto.
    - destruct (eqb k k0) eqn:E; simpl in H.
      + destruct H; auto.
      + destruct H as [H|H]; auto. apply IH in H; destruct H; auto.
  Qed.

  Lemma aset_NoDup : forall k (v : V) l, NoDup (map fst l) -> NoDup (map fst (aset eqb k v l)).
  Proof.
    induction l as [|[k0 v0] t IH]; simpl; intro ND.
    - constructor; [intros []|constructor].
    - inversion ND; subst. destruct (eqb k k0) eqn:E; simpl.
      + apply eqb_eq in E; subst; constructor; auto.
      + constructor; auto. intro C; apply aset_keys in C. destruct C as [C|C]; auto.
        subst; rewrite eqb_refl' in E; discriminate.
  Qed.

  Lemma aset_In_self : forall k (v : V) l, In (k, v) (aset eqb k v l).
  Proof.
    induction l as [|[k0 v0] t IH]; simpl; auto.
    destruct (eqb k k0); simpl; auto.
  Qed.

  Lemma aget_aset_same : forall k (v : V) l, aget eqb k (aset eqb k v l) = Some v.
  Proof.
    induction l as [|[k0 v0] t IH]; simpl.
    - rewrite eqb_refl'; reflexivity.
    - destruct (eqb k k0) eqn:E; simpl; [rewrite eqb_refl'; reflexivity | rewrite E; auto].
  Qed.

  Lemma aget_aset_other : forall k k' (v : V) l, k' <> k -> aget eqb k' (aset eqb k v l) = aget eqb k' l.
  Proof.
    induction l as [|[k0 v0] t IH]; simpl; intro NE.
    - destruct (eqb k' k) eqn:E; auto. apply eqb_eq in E; contradiction.
    - destruct (eqb k k0) eqn:E; simpl.
      + apply eqb_eq in E; subst. destruct (eqb k' k0) eqn:E2; auto. apply eqb_eq in E2; contradiction.
      + destruct (eqb k' k0); auto.
  Qed.

  Lemma adel_In : forall k l k' (v' : V), In (k', v') (adel eqb k l) -> In (k', v') l /\ k' <> k.
  Proof.
    unfold adel; intros k l k' v' H. apply filter_In in H. destruct H as [H1 H2]; split; auto.
    simpl in H2. intro; subst. rewrite eqb_refl' in H2; discriminate.
  Qed.

  Lemma adel_keys : forall k (l : list (K * V)) k', In k' (map fst (adel eqb k l)) -> In k' (map fst l) /\ k' <> k.
  Proof.
    intros k l k' H. apply in_map_iff in H. destruct H as [[k0 v0] [E H]]; simpl in E; subst.
    apply adel_In in H. destruct H; split; auto. change k' with (fst (k', v0)); apply in_map; auto.
  Qed.

  Lemma filter_keys_NoDup : forall (f : K * V -> bool) l, NoDup (map fst l) -> NoDup (map fst (filter f l)).
  Proof.
    induction l as [|[k0 v0] t IH]; simpl; intro ND; [constructor|].
    inversion ND; subst. destruct (f (k0, v0)); simpl; auto.
    constructor; auto. intro C. apply H1. apply in_map_iff in C. destruct C as [[k v] [E C]].
    apply filter_In in C. destruct C as [C _]. simpl in E; subst. change k0 with (fst (k0, v)); apply in_map; auto.
  Qed.

  Lemma adel_NoDup : forall k (l : list (K * V)), NoDup (map fst l) -> NoDup (map fst (adel eqb k l)).
  Proof. intros; apply filter_keys_NoDup; auto. Qed.

  (* filter by a predicate on the key only *)
  Lemma aget_filter_key : forall (g : K -> bool) k (l : list (K * V)),
    g k = true -> aget eqb k (filter (fun kv => g (fst kv)) l) = aget eqb k l.
  Proof.
    induction l as [|[k0 v0] t IH]; simpl; intro G; auto.
    destruct (g k0) eqn:E; simpl.
    - destruct (eqb k k0); auto.
    - destruct (eqb k k0) eqn:E2; auto. apply eqb_eq in E2; subst. congruence.
  Qed.

  Lemma ahas_true : forall k (l : list (K * V)), ahas eqb k l = true -> exists v, aget eqb k l = Some v.
  Proof. unfold ahas; intros k l H. destruct (aget eqb k l); [eauto | discriminate]. Qed.
End AL.

Lemma aget_filter_key_false' : forall (V : Type) (g : N -> bool) k (l : list (N * V)),
  g k = false -> aget N.eqb k (filter (fun kv => g (fst kv)) l) = None.
Proof.
  intros V g k l G. destruct (aget N.eqb k (filter (fun kv => g (fst kv)) l)) eqn:E; auto.
  apply (aget_In N.eqb N.eqb_eq) in E. apply filter_In in E. destruct E as [_ E]; simpl in E. congruence.
Qed.

Lemma N_eqb_eq' : forall a b : N, N.eqb a b = true <-> a = b.
Proof. exact N.eqb_eq. Qed.

(* ---------- insertion sort ---------- *)
Lemma insert_by_perm : forall A (less : A -> A -> bool) x l, Permutation (insert_by less x l) (x :: l).
Proof.
  induction l as [|y t IH]; simpl; auto.
  destruct (less y x); auto. eapply perm_trans; [apply perm_skip; apply IH | apply perm_swap].
Qed.
Lemma sort_by_perm : forall A (less : A -> A -> bool) l, Permutation (sort_by less l) l.
Proof.
  induction l as [|x t IH]; simpl; auto.
  eapply perm_trans; [apply insert_by_perm | apply perm_skip; auto].
Qed.

Lemma firstn_In : forall A n (l : list A) x, In x (firstn n l) -> In x l.
Proof. intros A n l x H. rewrite <- (firstn_skipn n l). apply in_or_app; auto. Qed.

Lemma NoDup_firstn : forall A n (l : list A), NoDup l -> NoDup (firstn n l).
Proof.
  induction n; intros l ND; simpl; [constructor|].
  destruct l; [constructor|]. inversion ND; subst. constructor; auto.
  intro C; apply H1. eapply firstn_In; eauto.
Qed.

Lemma firstn_map : forall A B (f : A -> B) n l, firstn n (map f l) = map f (firstn n l).
Proof. induction n; destruct l; simpl; auto. rewrite IHn; auto. Qed.

(* ---------- pack ---------- *)
Fixpoint sumN (l : list N) : N := match l with [] => 0 | x :: t => x + sumN t end.

Lemma w64_le : forall x, w64 x <= x.
Proof. intro x; unfold w64. apply N.mod_le. discriminate. Qed.

Lemma pack_le : forall pm s ws w0 n wt, pack pm s ws w0 = (n, wt) -> wt <= w0 + sumN (firstn n ws).
Proof.
  induction ws as [|w ws IH]; simpl; intros w0 n wt H.
  - inversion H; subst; simpl; lia.
  - destruct (reaches pm s w0).
    + inversion H; subst; simpl; lia.
    + destruct (pack pm s ws (w64 (w0 + w))) as [n' wt'] eqn:E. inversion H; subst.
      apply IH in E. simpl. pose proof (w64_le (w0 + w)). lia.
Qed.

Lemma reaches_mono : forall pm s a b, a <= b -> reaches pm s a = true -> reaches pm s b = true.
Proof.
  unfold reaches; intros pm s a b L H. destruct (step_threshold pm s); [|discriminate].
  apply N.leb_le in H. apply N.leb_le. lia.
Qed.
