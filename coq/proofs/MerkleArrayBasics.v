(* C37: arithmetic / list facts used by the completeness and soundness proofs. *)
From Coq Require Import NArith List Bool Arith Lia ZifyN ZifyNat ZifyBool Sorted Permutation.
From Verif.model Require Import MerkleArray.
Import ListNotations.

(* ---------- positions: N.lxor _ 1, halving, parity ---------- *)
Lemma lxor1_even : forall p : N, N.even p = true -> N.lxor p 1 = (p + 1)%N.
Proof. intros [|[q|q|]]; cbn; intros H; try discriminate; reflexivity. Qed.

Lemma lxor1_odd : forall p : N, N.even p = false -> (N.lxor p 1 = p - 1 /\ 1 <= p)%N.
Proof. intros [|[q|q|]]; cbn; intros H; try discriminate; split; try reflexivity; lia. Qed.

Lemma even_to_nat : forall p : N, N.even p = Nat.even (N.to_nat p).
Proof.
  intros p. rewrite <- (N2Nat.id p) at 1.
  generalize (N.to_nat p). intros n.
  rewrite <- Nat.negb_odd, <- N.negb_odd. f_equal.
  induction n as [|n IH]; [reflexivity|].
  rewrite Nat2N.inj_succ, N.odd_succ, Nat.odd_succ, <- N.negb_odd, <- Nat.negb_odd, IH. reflexivity.
Qed.

Lemma half_to_nat : forall p : N, N.to_nat (p / 2) = Nat.div2 (N.to_nat p).
Proof.
  intros p. rewrite Nat.div2_div. change 2%nat with (N.to_nat 2). rewrite <- N2Nat.inj_div. reflexivity.
Qed.

Lemma even_double_div2 : forall n, Nat.even n = true -> n = (2 * Nat.div2 n)%nat.
Proof. intros n H. apply Nat.even_spec in H. destruct H as [k ->]. rewrite Nat.div2_double. reflexivity. Qed.

Lemma odd_double_div2 : forall n, Nat.even n = false -> n = (2 * Nat.div2 n + 1)%nat.
Proof.
  intros n H. rewrite <- Nat.negb_odd in H. apply negb_false_iff, Nat.odd_spec in H.
  destruct H as [k ->]. replace (2 * k + 1)%nat with (S (2 * k)) by lia.
  rewrite Nat.div2_succ_double. lia.
Qed.

Lemma div2_lt_half : forall i m, (i < m)%nat -> (Nat.div2 i < Nat.div2 (m + 1))%nat.
Proof.
  intros i m H. rewrite !Nat.div2_div.
  assert (i / 2 <= (m - 1) / 2)%nat by (apply Nat.div_le_mono; lia).
  assert ((m - 1) / 2 < (m + 1) / 2)%nat.
  { replace (m + 1)%nat with ((m - 1) + 1 * 2)%nat by lia. rewrite Nat.div_add by lia. lia. }
  lia.
Qed.

(* ---------- zeros / firstn ---------- *)
Lemma zeros_length : forall n, length (zeros n) = n.
Proof. intros. apply repeat_length. Qed.

Lemma zeros_app : forall a b, zeros (a + b) = zeros a ++ zeros b.
Proof. intros. unfold zeros. apply repeat_app. Qed.

Lemma firstn_app_exact : forall {A} (l r : list A) n, length l = n -> firstn n (l ++ r) = l.
Proof.
  intros A l r n H. subst n. rewrite firstn_app, Nat.sub_diag, firstn_all. cbn. apply app_nil_r.
Qed.

Lemma app_inj_len : forall {A} (a b c d : list A), length a = length c -> a ++ b = c ++ d -> a = c /\ b = d.
Proof.
  intros A a. induction a as [|x a IH]; intros b c d Hl H; destruct c as [|y c]; try discriminate.
  - split; [reflexivity | exact H].
  - cbn in H. inversion H. subst. cbn in Hl. destruct (IH b c d ltac:(lia) H2). subst. split; reflexivity.
Qed.

Lemma digest_eqb_eq : forall a b, digest_eqb a b = true <-> a = b.
Proof.
  unfold digest_eqb. induction a as [|x a IH]; intros [|y b]; cbn; split; intros H; try discriminate; try reflexivity.
  - apply andb_true_iff in H. destruct H as [H1 H2]. apply N.eqb_eq in H1. apply IH in H2. subst. reflexivity.
  - inversion H. subst. apply andb_true_iff. split; [apply N.eqb_refl | apply IH; reflexivity].
Qed.

(* ---------- sorting ---------- *)
Definition sincr (l : list N) : Prop := StronglySorted N.lt l.

Lemma insN_in : forall x l y, In y (insN x l) <-> y = x \/ In y l.
Proof.
  intros x l. induction l as [|z r IH]; intros y; cbn.
  - intuition.
  - destruct (x <=? z)%N; cbn; [intuition|]. rewrite IH. intuition.
Qed.

Lemma sortN_in : forall l y, In y (sortN l) <-> In y l.
Proof.
  induction l as [|x r IH]; intros y; cbn; [tauto|].
  rewrite insN_in, IH. intuition.
Qed.

Definition wsorted (l : list N) : Prop := StronglySorted N.le l.

Lemma insN_sorted : forall x l, wsorted l -> wsorted (insN x l).
Proof.
  intros x l. induction l as [|z r IH]; intros H; cbn.
  - constructor; constructor.
  - inversion H as [|? ? Hr Hall]; subst. destruct (N.leb_spec x z).
    + constructor; [exact H|]. constructor; [assumption|].
      eapply Forall_impl; [|exact Hall]. intros a Ha. lia.
    + constructor; [apply IH; assumption|].
      apply Forall_forall. intros a Ha. apply insN_in in Ha. destruct Ha as [->|Ha]; [lia|].
      rewrite Forall_forall in Hall. apply Hall. assumption.
Qed.

Lemma sortN_sorted : forall l, wsorted (sortN l).
Proof. induction l as [|x r IH]; cbn; [constructor | apply insN_sorted; assumption]. Qed.

Lemma dedup_in : forall l y, In y (dedup l) <-> In y l.
Proof.
  induction l as [|x r IH]; intros y; [cbn; tauto|].
  destruct r as [|z r'].
  - cbn. tauto.
  - change (dedup (x :: z :: r')) with (if (x =? z)%N then dedup (z :: r') else x :: dedup (z :: r')).
    destruct (N.eqb_spec x z).
    + subst. rewrite IH. cbn. tauto.
    + cbn [In]. rewrite IH. cbn. tauto.
Qed.

Lemma dedup_sincr : forall l, wsorted l -> sincr (dedup l).
Proof.
  induction l as [|x r IH]; intros H; [constructor|].
  inversion H as [|? ? Hr Hall]; subst.
  destruct r as [|z r'].
  - cbn. constructor; constructor.
  - change (dedup (x :: z :: r')) with (if (x =? z)%N then dedup (z :: r') else x :: dedup (z :: r')).
    destruct (N.eqb_spec x z); [apply IH; assumption|].
    constructor; [apply IH; assumption|].
    apply Forall_forall. intros a Ha. apply (proj1 (dedup_in _ _)) in Ha.
    inversion Hall as [|? ? Hxz Hall']; subst.
    cbn [In] in Ha. destruct Ha as [<-|Ha]; [lia|].
    inversion Hr as [|? ? _ Hz]; subst. rewrite Forall_forall in Hz. specialize (Hz a Ha). lia.
Qed.

(* strictly increasing lists with the same members are equal *)
Lemma sincr_unique : forall l1 l2, sincr l1 -> sincr l2 -> (forall x, In x l1 <-> In x l2) -> l1 = l2.
Proof.
  induction l1 as [|a l1 IH]; intros l2 H1 H2 Hin.
  - destruct l2 as [|b l2]; [reflexivity|]. exfalso. apply (Hin b). left. reflexivity.
  - destruct l2 as [|b l2]; [exfalso; apply (Hin a); left; reflexivity|].
    inversion H1 as [|? ? S1 F1]; subst. inversion H2 as [|? ? S2 F2]; subst.
    rewrite Forall_forall in F1, F2.
    assert (a = b).
    { destruct (proj1 (Hin a) (or_introl eq_refl)) as [->|Ha]; [reflexivity|].
      destruct (proj2 (Hin b) (or_introl eq_refl)) as [->|Hb]; [reflexivity|].
      specialize (F1 b Hb). specialize (F2 a Ha). lia. }
    subst b. f_equal. apply IH; try assumption.
    intros x. split; intros Hx.
    + destruct (proj1 (Hin x) (or_intror Hx)) as [<-|]; [|assumption]. specialize (F1 a Hx). lia.
    + destruct (proj2 (Hin x) (or_intror Hx)) as [<-|]; [|assumption]. specialize (F2 a Hx). lia.
Qed.

Lemma insK_in : forall {A} (x : N * A) l y, In y (insK x l) <-> y = x \/ In y l.
Proof.
  intros A x l. induction l as [|z r IH]; intros y; cbn.
  - intuition.
  - destruct (fst x <=? fst z)%N; cbn; [intuition|]. rewrite IH. intuition.
Qed.

Lemma sortK_in : forall {A} (l : list (N * A)) y, In y (sortK l) <-> In y l.
Proof.
  induction l as [|x r IH]; intros y; [cbn; tauto|].
  change (sortK (x :: r)) with (insK x (sortK r)). rewrite insK_in, IH. cbn. intuition.
Qed.

Lemma sortK_length : forall {A} (l : list (N * A)), length (sortK l) = length l.
Proof.
  assert (Hins : forall A (x : N * A) l, length (insK x l) = S (length l)).
  { intros A x l. induction l as [|z r IH]; cbn; [reflexivity|]. destruct (fst x <=? fst z)%N; cbn; lia. }
  induction l as [|x r IH]; [reflexivity|].
  change (sortK (x :: r)) with (insK x (sortK r)). rewrite Hins, IH. reflexivity.
Qed.

Lemma insK_keys : forall {A} (x : N * A) l, map fst (insK x l) = insN (fst x) (map fst l).
Proof.
  intros A x l. induction l as [|z r IH]; cbn; [reflexivity|].
  destruct (fst x <=? fst z)%N; cbn; [reflexivity | rewrite IH; reflexivity].
Qed.

Lemma sortK_keys : forall {A} (l : list (N * A)), map fst (sortK l) = sortN (map fst l).
Proof.
  induction l as [|x r IH]; [reflexivity|].
  change (sortK (x :: r)) with (insK x (sortK r)). rewrite insK_keys, IH. reflexivity.
Qed.

(* a weakly sorted list without duplicates is strictly sorted *)
Lemma wsorted_nodup_sincr : forall l, wsorted l -> NoDup l -> sincr l.
Proof.
  induction l as [|x r IH]; intros H ND; [constructor|].
  inversion H as [|? ? Hr Hall]; subst. inversion ND as [|? ? Hnin ND']; subst.
  constructor; [apply IH; assumption|].
  apply Forall_forall. intros a Ha. rewrite Forall_forall in Hall. specialize (Hall a Ha).
  assert (a <> x) by (intros ->; contradiction). lia.
Qed.

Lemma insN_perm : forall x l, Permutation (x :: l) (insN x l).
Proof.
  intros x l. induction l as [|z r IH]; cbn; [reflexivity|].
  destruct (x <=? z)%N; [reflexivity|].
  rewrite perm_swap. constructor. assumption.
Qed.

Lemma sortN_perm : forall l, Permutation l (sortN l).
Proof.
  induction l as [|x r IH]; cbn; [constructor|].
  rewrite <- insN_perm. constructor. assumption.
Qed.

Lemma sincr_dedup_id : forall l, sincr l -> dedup l = l.
Proof.
  induction l as [|x r IH]; intros H; [reflexivity|].
  inversion H as [|? ? Hr Hall]; subst.
  destruct r as [|z r']; [reflexivity|].
  change (dedup (x :: z :: r')) with (if (x =? z)%N then dedup (z :: r') else x :: dedup (z :: r')).
  inversion Hall; subst. destruct (N.eqb_spec x z); [lia|]. rewrite IH by assumption. reflexivity.
Qed.

(* ---------- bit reversal ---------- *)
Lemma rev_bits_lt : forall w i, (rev_bits w i < 2 ^ N.of_nat w)%N.
Proof.
  induction w as [|w IH]; intros i; [cbn; lia|].
  cbn [rev_bits]. rewrite Nat2N.inj_succ, N.pow_succ_r'.
  specialize (IH (i / 2)%N).
  assert (i mod 2 < 2)%N by (apply N.mod_lt; lia).
  assert (i mod 2 = 0 \/ i mod 2 = 1)%N as [-> | ->] by lia; lia.
Qed.

(* reversing appends: rev (S w) i = 2 * rev w (i mod 2^w) + bit w of i, for i < 2^(S w) *)
Lemma rev_bits_snoc : forall w i, (i < 2 ^ N.of_nat (S w))%N ->
  rev_bits (S w) i = (2 * rev_bits w (i mod 2 ^ N.of_nat w) + i / 2 ^ N.of_nat w)%N.
Proof.
  induction w as [|w IH]; intros i Hi.
  - change (2 ^ N.of_nat 1)%N with 2%N in Hi.
    assert (i = 0 \/ i = 1)%N as [-> | ->] by lia; reflexivity.
  - remember (S w) as w1. cbn [rev_bits].
    assert (Hh : (i / 2 < 2 ^ N.of_nat w1)%N).
    { apply N.div_lt_upper_bound; [lia|]. rewrite Nat2N.inj_succ, N.pow_succ_r' in Hi. lia. }
    subst w1. rewrite (IH (i / 2)%N Hh).
    rewrite !Nat2N.inj_succ, !N.pow_succ_r'.
    set (P := (2 ^ N.of_nat w)%N) in *.
    assert (HP : (0 < P)%N) by (unfold P; apply N.neq_0_lt_0, N.pow_nonzero; lia).
    (* i = 2*h + b ; h = P*t + m *)
    pose proof (N.div_mod i 2 ltac:(lia)) as Ei.
    pose proof (N.mod_lt i 2 ltac:(lia)) as Hb.
    set (h := (i / 2)%N) in *. set (b := (i mod 2)%N) in *.
    pose proof (N.div_mod h P ltac:(lia)) as Eh.
    pose proof (N.mod_lt h P ltac:(lia)) as Hm.
    set (t := (h / P)%N) in *. set (m := (h mod P)%N) in *.
    assert (E1 : (i / (2 * P) = t)%N).
    { symmetry. apply (N.div_unique i (2 * P) t (2 * m + b))%N; nia. }
    assert (E2 : (i mod (2 * P) = 2 * m + b)%N).
    { symmetry. apply (N.mod_unique i (2 * P) t (2 * m + b))%N; nia. }
    rewrite E1, E2.
    assert (E3 : ((2 * m + b) mod 2 = b)%N).
    { symmetry. apply (N.mod_unique (2 * m + b) 2 m b)%N; lia. }
    assert (E4 : ((2 * m + b) / 2 = m)%N).
    { symmetry. apply (N.div_unique (2 * m + b) 2 m b)%N; lia. }
    cbn [rev_bits]. rewrite E3, E4. fold P. lia.
Qed.

Lemma rev_bits_involutive : forall w i, (i < 2 ^ N.of_nat w)%N -> rev_bits w (rev_bits w i) = i.
Proof.
  induction w as [|w IH]; intros i Hi.
  - cbn in *. lia.
  - rewrite rev_bits_snoc by apply rev_bits_lt.
    cbn [rev_bits].
    set (P := (2 ^ N.of_nat w)%N) in *.
    assert (HP : (0 < P)%N) by (unfold P; apply N.neq_0_lt_0, N.pow_nonzero; lia).
    pose proof (rev_bits_lt w (i / 2)) as Hr. fold P in Hr.
    pose proof (N.mod_lt i 2 ltac:(lia)) as Hb.
    assert (Hh : (i / 2 < P)%N).
    { apply N.div_lt_upper_bound; [lia|]. rewrite Nat2N.inj_succ, N.pow_succ_r' in Hi. fold P in Hi. lia. }
    assert (E1 : ((i mod 2 * P + rev_bits w (i / 2)) mod P = rev_bits w (i / 2))%N).
    { symmetry. apply (N.mod_unique _ P (i mod 2)); [assumption | lia]. }
    assert (E2 : ((i mod 2 * P + rev_bits w (i / 2)) / P = i mod 2)%N).
    { symmetry. apply (N.div_unique _ P (i mod 2) (rev_bits w (i / 2))); [assumption | lia]. }
    rewrite E1, E2, (IH _ Hh).
    pose proof (N.div_mod i 2 ltac:(lia)). lia.
Qed.

Lemma rev_bits_inj : forall w i j, (i < 2 ^ N.of_nat w)%N -> (j < 2 ^ N.of_nat w)%N ->
  rev_bits w i = rev_bits w j -> i = j.
Proof.
  intros w i j Hi Hj H. rewrite <- (rev_bits_involutive w i Hi), <- (rev_bits_involutive w j Hj), H. reflexivity.
Qed.

Lemma rev_bits_zero : forall w, rev_bits w 0 = 0%N.
Proof. induction w as [|w IH]; [reflexivity|]. cbn [rev_bits]. change (0 / 2)%N with 0%N. rewrite IH. reflexivity. Qed.
