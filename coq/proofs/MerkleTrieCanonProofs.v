(* C17 lemmas, part 2: the canonical trie of a set ([canon]) and the refinement of the
   set-level state machine ([sstep]) by the trie-level one ([step]). *)
From Coq Require Import List NArith Bool Sorted Lia ZifyN ZifyNat ZifyBool Arith.
From Verif.model Require Import MerkleTrie MerkleTrieSpec.
From Verif.proofs Require Import MerkleTrieProofs.
Import ListNotations.
Open Scope N_scope.

(* ---------- tails / all_bytes ---------- *)
Lemma in_tails b r s : In r (tails b s) <-> In (b :: r) s.
Proof.
  unfold tails. rewrite in_flat_map. split.
  - intros (k & Hk & Hr). destruct k as [|x k']; [destruct Hr|].
    destruct (x =? b) eqn:E; [|destruct Hr]. apply N.eqb_eq in E. subst.
    destruct Hr as [<-|[]]. exact Hk.
  - intros H. exists (b :: r). split; [exact H|]. cbn. rewrite N.eqb_refl. left. reflexivity.
Qed.

Lemma keys_ok_tails n b s : keys_ok (S n) s -> keys_ok n (tails b s).
Proof.
  intros H r Hr. apply in_tails in Hr. destruct (H _ Hr) as [L B]. cbn in L.
  apply bytes_ok_cons in B. split; [lia | tauto].
Qed.

Lemma all_bytes_in b : In b all_bytes <-> b < 256.
Proof.
  unfold all_bytes. rewrite in_map_iff. split.
  - intros (x & <- & Hx). apply in_seq in Hx. lia.
  - intros H. exists (N.to_nat b). split; [lia|]. apply in_seq. lia.
Qed.

Lemma seq_sorted n a : StronglySorted N.lt (map N.of_nat (seq a n)).
Proof.
  revert a. induction n as [|n IH]; intros a; cbn; constructor; [apply IH|].
  rewrite Forall_forall. intros y Hy. apply in_map_iff in Hy. destruct Hy as (x & <- & Hx).
  apply in_seq in Hx. lia.
Qed.

Lemma all_bytes_sorted : StronglySorted N.lt all_bytes.
Proof. apply seq_sorted. Qed.

(* ---------- the children list built by canon ---------- *)
Definition canon_children (g : N -> option trie) (l : list N) : list (N * trie) :=
  flat_map (fun b => match g b with Some c => [(b, c)] | None => [] end) l.

Lemma in_canon_children g l b c : In (b, c) (canon_children g l) <-> In b l /\ g b = Some c.
Proof.
  unfold canon_children. rewrite in_flat_map. split.
  - intros (x & Hx & Hin). destruct (g x) as [c'|] eqn:E; [|destruct Hin].
    destruct Hin as [E'|[]]. inversion E'; subst. auto.
  - intros [Hb Hg]. exists b. split; [exact Hb|]. rewrite Hg. left. reflexivity.
Qed.

Lemma idx_canon_children_in g l y : In y (idx (canon_children g l)) -> In y l.
Proof.
  unfold idx. rewrite in_map_iff. intros ([b c] & <- & Hin). apply in_canon_children in Hin. tauto.
Qed.

Lemma canon_children_sorted g l :
  StronglySorted N.lt l -> StronglySorted N.lt (idx (canon_children g l)).
Proof.
  induction l as [|a l IH]; intros Hs; [constructor|].
  apply sorted_inv in Hs. destruct Hs as [Hs Hlt].
  unfold canon_children. cbn [flat_map]. fold (canon_children g l).
  destruct (g a); cbn [app]; [|auto].
  cbn [idx map fst]. fold (idx (canon_children g l)). constructor; [auto|].
  rewrite Forall_forall in *. intros y Hy. apply Hlt. eapply idx_canon_children_in; eauto.
Qed.

Lemma canon_eq n s :
  canon n s =
  match s with
  | [] => None
  | x :: _ =>
      if forallb (key_eqb x) s then Some (Leaf x)
      else match n with
           | O => None
           | S n' => Some (Node (canon_children (fun b => canon n' (tails b s)) all_bytes))
           end
  end.
Proof. destruct n; destruct s; reflexivity. Qed.

(* ---------- canon builds the canonical trie of the set ---------- *)
Lemma canon_ok : forall n s, s <> [] -> keys_ok n s ->
  exists t, canon n s = Some t /\ wf n t /\ (forall k, In k (elems t) <-> In k s).
Proof.
  induction n as [|n IH]; intros s Hne Hk; rewrite canon_eq; destruct s as [|x s']; try congruence.
  - (* n = 0: every element is the empty string *)
    assert (F : forallb (key_eqb x) (x :: s') = true).
    { apply forallb_forall. intros k Hin. apply key_eqb_eq.
      destruct (Hk x) as [Lx _]; [left; reflexivity|]. destruct (Hk k Hin) as [Lk _].
      destruct x, k; cbn in *; congruence. }
    rewrite F. exists (Leaf x). split; [reflexivity|]. split.
    + apply wf_leaf. apply Hk. left. reflexivity.
    + intros k. cbn [elems]. split.
      * intros [<-|[]]. left. reflexivity.
      * intros Hin. rewrite forallb_forall in F. apply F in Hin. apply key_eqb_eq in Hin. left. exact Hin.
  - destruct (forallb (key_eqb x) (x :: s')) eqn:F.
    + exists (Leaf x). split; [reflexivity|]. split.
      * apply wf_leaf. apply Hk. left. reflexivity.
      * intros k. cbn [elems]. split.
        -- intros [<-|[]]. left. reflexivity.
        -- intros Hin. rewrite forallb_forall in F. apply F in Hin. apply key_eqb_eq in Hin. left. exact Hin.
    + set (s := x :: s') in *.
      set (g := fun b => canon n (tails b s)).
      set (L := canon_children g all_bytes).
      (* every child recorded in L is the canonical trie of the corresponding tails *)
      assert (G : forall b c, In (b, c) L -> b < 256 /\ wf n c /\ (forall r, In r (elems c) <-> In (b :: r) s)).
      { intros b c Hin. apply in_canon_children in Hin. destruct Hin as [Hb Hg].
        apply all_bytes_in in Hb. split; [exact Hb|]. unfold g in Hg.
        destruct (tails b s) as [|y ys] eqn:Et.
        { rewrite canon_eq in Hg. discriminate. }
        destruct (IH (tails b s)) as (t & Ht & Wt & Et').
        { rewrite Et. discriminate. }
        { apply keys_ok_tails. exact Hk. }
        rewrite Et in Ht. rewrite Ht in Hg. inversion Hg; subst t. split; [exact Wt|].
        intros r. rewrite Et'. apply in_tails. }
      (* every element of the set is found below the child of its first byte *)
      assert (K : forall k, In k s -> exists b r c, k = b :: r /\ In (b, c) L /\ In r (elems c)).
      { intros k Hin. destruct (Hk k Hin) as [Lk Bk]. destruct k as [|b r]; [discriminate|].
        apply bytes_ok_cons in Bk. destruct Bk as [Bb _].
        assert (Ht : In r (tails b s)) by (apply in_tails; exact Hin).
        destruct (IH (tails b s)) as (t & Hc & Wt & Et').
        { intros E. rewrite E in Ht. destruct Ht. }
        { apply keys_ok_tails. exact Hk. }
        exists b, r, t. split; [reflexivity|]. split.
        - apply in_canon_children. split; [apply all_bytes_in; exact Bb | exact Hc].
        - apply Et'. exact Ht. }
      exists (Node L). split; [reflexivity|]. split.
      * apply wf_node. split; [|split; [|split]].
        -- destruct (K x) as (b & r & c & _ & Hin & _); [left; reflexivity|].
           intros E. rewrite E in Hin. destruct Hin.
        -- apply canon_children_sorted. apply all_bytes_sorted.
        -- (* a single leaf child would mean that all elements are equal *)
           destruct L as [|[b [r|cs]] [|q l]] eqn:EL; cbn; auto.
           assert (A : forall k, In k s -> k = b :: r).
           { intros k Hin. destruct (K k Hin) as (b1 & r1 & c1 & -> & Hin1 & Hr1).
             destruct Hin1 as [E|[]]. inversion E; subst. cbn in Hr1. destruct Hr1 as [->|[]]. reflexivity. }
           assert (F' : forallb (key_eqb x) s = true).
           { apply forallb_forall. intros k Hin. apply key_eqb_eq.
             rewrite (A k Hin). apply A. left. reflexivity. }
           congruence.
        -- unfold children_ok. apply Forall_forall. intros [b c] Hin. cbn.
           destruct (G b c Hin) as (A & B & _). auto.
      * intros k. rewrite in_elems_node. split.
        -- intros (b & c & r & Hin & -> & Hr). destruct (G b c Hin) as (_ & _ & E). apply E. exact Hr.
        -- intros Hin. destruct (K k Hin) as (b & r & c & -> & Hin' & Hr). eauto 6.
Qed.

Lemma canon_unique n s t :
  s <> [] -> keys_ok n s -> wf n t -> (forall k, In k (elems t) <-> In k s) -> canon n s = Some t.
Proof.
  intros Hne Hk Wt Et. destruct (canon_ok n s Hne Hk) as (t' & Hc & Wt' & Et').
  rewrite Hc. f_equal. apply (wf_unique t' n t); auto. intros k. rewrite Et, Et'. tauto.
Qed.

Lemma canon_set_eq n s : s <> [] -> keys_ok n s -> canon_set s = canon n s.
Proof.
  intros Hne Hk. destruct s as [|x s']; [congruence|]. cbn [canon_set].
  destruct (Hk x) as [<- _]; [left; reflexivity|]. reflexivity.
Qed.

(* ---------- set operations ---------- *)
Lemma mem_in k s : mem k s = true <-> In k s.
Proof.
  unfold mem. rewrite existsb_exists. split.
  - intros (x & Hin & E). apply key_eqb_eq in E. subst. exact Hin.
  - intros Hin. exists k. split; [exact Hin | apply key_eqb_refl].
Qed.

Lemma in_set_del x k s : In x (set_del k s) <-> In x s /\ x <> k.
Proof.
  unfold set_del. rewrite filter_In, negb_true_iff, key_eqb_neq. intuition congruence.
Qed.

Lemma set_del_all k s : (forall x, In x s -> x = k) -> set_del k s = [].
Proof.
  intros H. destruct (set_del k s) as [|y l] eqn:E; [reflexivity|].
  assert (A : In y (set_del k s)) by (rewrite E; left; reflexivity).
  apply in_set_del in A. destruct A as [A B]. apply H in A. congruence.
Qed.

(* ---------- the trie represents the set ([rel], [Rel] of MerkleTrieSpec) ---------- *)
Lemma rel_root st s : rel st s -> t_root st = canon_set s.
Proof.
  unfold rel. destruct (t_root st) as [t|].
  - intros (Hne & Hk & Wt & Et). rewrite (canon_set_eq (t_elen st)) by assumption.
    symmetry. apply canon_unique; assumption.
  - intros ->. reflexivity.
Qed.

Lemma rel_mismatch st s t k :
  rel st s -> t_root st = Some t -> len_mismatch k s = negb (Nat.eqb (length k) (t_elen st)).
Proof.
  unfold rel. intros H E. rewrite E in H. destruct H as (Hne & Hk & _).
  destruct s as [|x s']; [congruence|]. cbn. destruct (Hk x) as [-> _]; [left; reflexivity|]. reflexivity.
Qed.

Lemma trie_add_refines st s k : rel st s -> bytes_ok k ->
  if len_mismatch k s then trie_add st k = (st, RErr, false)
  else if mem k s then trie_add st k = (st, RBool false, false)
  else exists st', trie_add st k = (st', RBool true, true) /\ rel st' (k :: s).
Proof.
  intros R B. unfold trie_add. destruct (t_root st) as [t|] eqn:Er.
  - rewrite (rel_mismatch st s t k R Er).
    destruct (Nat.eqb (length k) (t_elen st)) eqn:El; cbn [negb]; [|reflexivity].
    apply Nat.eqb_eq in El.
    unfold rel in R. rewrite Er in R. destruct R as (Hne & Hk & Wt & Et).
    destruct (find_correct t _ k Wt El) as (b & Hf & Hb). rewrite Hf.
    destruct (mem k s) eqn:Em.
    + apply mem_in in Em. apply Et in Em. apply Hb in Em. subst b. reflexivity.
    + assert (Hn : ~ In k (elems t)).
      { intros H. apply Et in H. apply mem_in in H. congruence. }
      destruct b; [exfalso; apply Hn; apply Hb; reflexivity|].
      destruct (add_ok t _ k Wt El B Hn) as (t' & Ha & Wt' & Et').
      rewrite Ha. eexists. split; [reflexivity|].
      unfold rel. cbn [t_root t_elen]. split; [discriminate|]. split; [|split; [exact Wt'|]].
      * intros x [<-|Hx]; [auto | apply Hk; exact Hx].
      * intros x. rewrite Et'. cbn [In]. rewrite Et. intuition.
  - unfold rel in R. rewrite Er in R. subst s. cbn [len_mismatch mem existsb].
    eexists. split; [reflexivity|]. unfold rel. cbn [t_root t_elen].
    split; [discriminate|]. split; [|split].
    + intros x [<-|[]]. auto.
    + apply wf_leaf. auto.
    + intros x. cbn. tauto.
Qed.

Lemma trie_delete_refines st s k : rel st s ->
  if len_mismatch k s then trie_delete st k = (st, RErr, false)
  else if mem k s then exists st', trie_delete st k = (st', RBool true, true) /\ rel st' (set_del k s)
  else trie_delete st k = (st, RBool false, false).
Proof.
  intros R. unfold trie_delete. destruct (t_root st) as [t|] eqn:Er.
  - rewrite (rel_mismatch st s t k R Er).
    destruct (Nat.eqb (length k) (t_elen st)) eqn:El; cbn [negb]; [|reflexivity].
    apply Nat.eqb_eq in El.
    unfold rel in R. rewrite Er in R. destruct R as (Hne & Hk & Wt & Et).
    destruct (find_correct t _ k Wt El) as (b & Hf & Hb). rewrite Hf.
    destruct (mem k s) eqn:Em.
    + apply mem_in in Em. pose proof Em as Hin. apply Et in Hin. pose proof Hin as Hin'.
      apply Hb in Hin'. subst b.
      destruct (is_leaf t) eqn:Lt.
      * destruct t as [h|]; [|discriminate]. eexists. split; [reflexivity|].
        unfold rel. cbn [t_root]. apply set_del_all. intros x Hx. apply Et in Hx.
        cbn in Hx, Hin. destruct Hx as [<-|[]]. destruct Hin as [<-|[]]. reflexivity.
      * destruct (remove_ok t _ k Wt Lt Hin) as (t' & Hr & Wt' & Et').
        rewrite Hr. eexists. split; [reflexivity|].
        unfold rel. cbn [t_root t_elen]. split; [|split; [|split; [exact Wt'|]]].
        -- destruct (wf_nonempty _ _ Wt') as (k0 & H0). apply Et' in H0. destruct H0 as [H0 H1].
           intros E. assert (A : In k0 (set_del k s)) by (apply in_set_del; split; [apply Et; exact H0 | exact H1]).
           rewrite E in A. destruct A.
        -- intros x Hx. apply in_set_del in Hx. apply Hk. tauto.
        -- intros x. rewrite Et', in_set_del, Et. tauto.
    + assert (Hn : ~ In k (elems t)).
      { intros H. apply Et in H. apply mem_in in H. congruence. }
      destruct b; [exfalso; apply Hn; apply Hb; reflexivity | reflexivity].
  - unfold rel in R. rewrite Er in R. subst s. reflexivity.
Qed.

Lemma rel_empty_iff st s : rel st s -> (t_root st = None <-> s = []).
Proof.
  unfold rel. destruct (t_root st); [|tauto]. intros (Hne & _). split; [discriminate | congruence].
Qed.

Lemma step_refines m s o : Rel m s -> op_ok o ->
  Rel (fst (step m o)) (fst (sstep s o)) /\ snd (step m o) = snd (sstep s o).
Proof.
  intros (Rc & Rm & Em) Ho. destruct o as [k|k| |[|]| |]; cbn [step sstep op_ok] in *.
  - pose proof (trie_add_refines _ _ k Rc Ho) as H.
    destruct (len_mismatch k (s_cur s)); [rewrite H; cbn; rewrite orb_false_r; repeat split; auto|].
    destruct (mem k (s_cur s)); [rewrite H; cbn; rewrite orb_false_r; repeat split; auto|].
    destruct H as (st' & -> & R'). cbn. rewrite orb_true_r. repeat split; auto.
  - pose proof (trie_delete_refines _ _ k Rc) as H.
    destruct (len_mismatch k (s_cur s)); [rewrite H; cbn; rewrite orb_false_r; repeat split; auto|].
    destruct (mem k (s_cur s)); [|rewrite H; cbn; rewrite orb_false_r; repeat split; auto].
    destruct H as (st' & -> & R'). cbn. rewrite orb_true_r. repeat split; auto.
  - cbn. repeat split; auto.
  - rewrite <- Em. destruct (m_modified m) eqn:Emm; cbn; repeat split; auto; congruence.
  - rewrite <- Em. destruct (m_modified m) eqn:Emm; cbn; repeat split; auto; congruence.
  - cbn. repeat split; auto.
  - pose proof (rel_empty_iff _ _ Rc) as He.
    destruct (t_root (m_cur m)) as [t|] eqn:Er.
    + destruct (s_cur s) as [|x s'] eqn:Es; [destruct He as [_ He]; specialize (He eq_refl); discriminate|].
      pose proof (rel_root _ _ Rc) as Hroot. rewrite Er in Hroot.
      rewrite <- Em. destruct (m_modified m) eqn:Emm; cbn [fst snd do_commit s_commit m_cur s_cur].
      * split; [repeat split; cbn; rewrite ?Es; auto|]. rewrite Er, Es, Hroot. reflexivity.
      * split; [repeat split; cbn; rewrite ?Es; auto; congruence|]. rewrite Er, Es, Hroot. reflexivity.
    + destruct He as [He _]. rewrite (He eq_refl). cbn. repeat split; auto.
Qed.

Lemma run_refines : forall ops m s, Rel m s -> Forall op_ok ops ->
  Rel (fst (run m ops)) (fst (srun s ops)) /\ snd (run m ops) = snd (srun s ops).
Proof.
  induction ops as [|o ops IH]; intros m s R Ho; cbn [run srun]; [auto|].
  inversion Ho; subst.
  destruct (step_refines m s o R) as [R1 E1]; [assumption|].
  destruct (step m o) as [m1 r1]. destruct (sstep s o) as [s1 r1']. cbn [fst snd] in R1, E1. subst r1'.
  destruct (IH m1 s1 R1) as [R2 E2]; [assumption|].
  destruct (run m1 ops) as [m2 rs]. destruct (srun s1 ops) as [s2 rs']. cbn [fst snd] in *.
  split; [exact R2 | congruence].
Qed.

Lemma Rel_init : Rel m_init s_init.
Proof. repeat split. Qed.

(* ---------- consequences ---------- *)
Lemma sstep_no_panic s o : snd (sstep s o) <> RPanic.
Proof.
  destruct o as [k|k| |[|]| |]; cbn [sstep].
  - destruct (len_mismatch k (s_cur s)); [discriminate|]. destruct (mem k (s_cur s)); discriminate.
  - destruct (len_mismatch k (s_cur s)); [discriminate|]. destruct (mem k (s_cur s)); discriminate.
  - discriminate.
  - discriminate.
  - destruct (s_modified s); discriminate.
  - discriminate.
  - destruct (s_cur s); discriminate.
Qed.

Lemma srun_no_panic : forall ops s, ~ In RPanic (snd (srun s ops)).
Proof.
  induction ops as [|o ops IH]; intros s; cbn [srun]; [intros []|].
  pose proof (sstep_no_panic s o) as H. destruct (sstep s o) as [s1 r]. cbn [snd] in H.
  specialize (IH s1). destruct (srun s1 ops) as [s2 rs]. cbn [snd] in *. intros [E|Hin]; [congruence | tauto].
Qed.

Lemma results_are_set_semantics ops : Forall op_ok ops ->
  snd (run m_init ops) = snd (srun s_init ops).
Proof. intros H. apply (run_refines ops m_init s_init Rel_init H). Qed.

Lemma run_no_panic ops : Forall op_ok ops -> ~ In RPanic (snd (run m_init ops)).
Proof. intros H. rewrite (results_are_set_semantics ops H). apply srun_no_panic. Qed.

Lemma final_Rel ops : Forall op_ok ops -> Rel (fst (run m_init ops)) (fst (srun s_init ops)).
Proof. intros H. apply (run_refines ops m_init s_init Rel_init H). Qed.

Lemma final_trie_canonical ops : Forall op_ok ops ->
  t_root (m_cur (fst (run m_init ops))) = canon_set (s_cur (fst (srun s_init ops))) /\
  t_root (m_committed (fst (run m_init ops))) = canon_set (s_committed (fst (srun s_init ops))).
Proof.
  intros H. destruct (final_Rel ops H) as (A & B & _). split; apply rel_root; assumption.
Qed.

Lemma rel_set_only st1 s1 st2 s2 :
  rel st1 s1 -> rel st2 s2 -> (forall k, In k s1 <-> In k s2) -> t_root st1 = t_root st2.
Proof.
  unfold rel. intros R1 R2 E.
  destruct (t_root st1) as [t1|], (t_root st2) as [t2|].
  - destruct R1 as (N1 & K1 & W1 & E1), R2 as (N2 & K2 & W2 & E2).
    assert (En : t_elen st1 = t_elen st2).
    { destruct s1 as [|x s1']; [congruence|].
      destruct (K1 x) as [L1 _]; [left; reflexivity|].
      destruct (K2 x) as [L2 _]; [apply E; left; reflexivity|]. congruence. }
    f_equal. apply (wf_unique t1 (t_elen st1) t2); [assumption | rewrite En; assumption|].
    intros k. rewrite E1, E2. apply E.
  - destruct R1 as (N1 & _). subst s2. destruct s1 as [|x s1']; [congruence|].
    exfalso. apply (E x). left. reflexivity.
  - destruct R2 as (N2 & _). subst s1. destruct s2 as [|x s2']; [congruence|].
    exfalso. apply (E x). left. reflexivity.
  - reflexivity.
Qed.

Lemma root_set_only (H : list N -> list N) ops1 ops2 :
  Forall op_ok ops1 -> Forall op_ok ops2 ->
  (forall k, In k (s_cur (fst (srun s_init ops1))) <-> In k (s_cur (fst (srun s_init ops2)))) ->
  root_hash H (t_root (m_cur (fst (run m_init ops1)))) = root_hash H (t_root (m_cur (fst (run m_init ops2)))).
Proof.
  intros H1 H2 E. f_equal.
  destruct (final_Rel ops1 H1) as (A1 & _). destruct (final_Rel ops2 H2) as (A2 & _).
  eapply rel_set_only; eauto.
Qed.

Lemma root_hash_canonical (H : list N -> list N) ops : Forall op_ok ops ->
  root_hash H (t_root (m_cur (fst (run m_init ops)))) =
  root_hash H (canon_set (s_cur (fst (srun s_init ops)))).
Proof. intros Hok. f_equal. apply final_trie_canonical. exact Hok. Qed.
