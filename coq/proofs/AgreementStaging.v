(* C02 attest-once, PART 2: cert, late, redo and down votes.

   Invariant over the router tree ("justification" = bind to a threshold): for every period node
   (r,p), a non-bottom proposalTracker.Staging is the value of a soft/cert threshold of (r,p) backed
   by delivered votes ([just_sc]), and a non-bottom voteTrackerPeriod.Cached value is the value of a
   next-type threshold of (r,p) backed by delivered votes ([just_next]).  Staging is written only by
   proposalTracker.handle(soft/certThreshold), Cached only by voteTrackerPeriod.handle(voteAccepted)
   on a next-type threshold; garbage collection only deletes nodes / creates zero nodes.
   Every attest action is then "justified": cert and late carry the value of a soft/cert threshold
   of their (round, period), redo the non-bottom value of a next-type threshold of the previous
   period, down is bottom.  Under the premise that thresholds of one (round, period) are
   value-consistent ([cons_sc], [cons_next]: discharged in C01 from quorum intersection) this gives
   attest-once for these steps; soft / next_k are PART 1 (AgreementAttestOnce). *)
From Coq Require Import NArith List Bool Lia ZifyN ZifyNat ZifyBool String.
Import ListNotations.
From Verif.model Require Import AgreementTypes AgreementVotes AgreementProposals AgreementPlayer.
From Verif.proofs Require Import AgreementLemmas AgreementVoteProofs AgreementTreeProofs AgreementC03Proofs
     AgreementAttestOnce.
Open Scope N_scope.

Definition just_sc (pm : params) (D : list vote) (r p : N) (v : value) : Prop :=
  exists th, good_thresh pm D th /\ th_rnd th = r /\ th_per th = p /\ th_val th = v /\ th_t th <> TNext.
Definition just_next (pm : params) (D : list vote) (r p : N) (v : value) : Prop :=
  exists th, good_thresh pm D th /\ th_rnd th = r /\ th_per th = p /\ th_val th = v /\ th_t th = TNext.

Definition PJ (pm : params) (D : list vote) (r p : N) (pn : periodNode) : Prop :=
  (is_bottom (pt_staging (pn_pt pn)) = false -> just_sc pm D r p (pt_staging (pn_pt pn))) /\
  (is_bottom (vp_val (pn_vp pn)) = false -> just_next pm D r p (vp_val (pn_vp pn))).
Definition RNJ (pm : params) (D : list vote) (r : N) (rn : roundNode) : Prop :=
  forall p pn, In (p, pn) (rn_periods rn) -> PJ pm D r p pn.
Definition RJ (pm : params) (D : list vote) (rt : router) : Prop :=
  forall r rn, In (r, rn) rt -> RNJ pm D r rn.

Lemma just_sc_mono pm D D' r p v : sub D D' -> just_sc pm D r p v -> just_sc pm D' r p v.
Proof. intros S (th & G & H). exists th. split; [eapply good_thresh_mono; eauto|exact H]. Qed.
Lemma just_next_mono pm D D' r p v : sub D D' -> just_next pm D r p v -> just_next pm D' r p v.
Proof. intros S (th & G & H). exists th. split; [eapply good_thresh_mono; eauto|exact H]. Qed.
Lemma RJ_mono pm D D' rt : sub D D' -> RJ pm D rt -> RJ pm D' rt.
Proof.
  intros S H r rn I p pn Ip. destruct (H r rn I p pn Ip) as [A B]. split; intro E.
  - eapply just_sc_mono; eauto.
  - eapply just_next_mono; eauto.
Qed.

Section J.
Variable pm : params.
Variable D : list vote.
Local Notation PJ := (PJ pm D).
Local Notation RNJ := (RNJ pm D).
Local Notation RJ := (RJ pm D).

Lemma PJ_zero r p : PJ r p pn_zero.
Proof. split; intro E; discriminate E. Qed.

Lemma PJ_same r p pn pn' :
  pt_staging (pn_pt pn') = pt_staging (pn_pt pn) -> vp_val (pn_vp pn') = vp_val (pn_vp pn) ->
  PJ r p pn -> PJ r p pn'.
Proof. intros E1 E2 [A B]. unfold AgreementStaging.PJ. rewrite E1, E2. split; assumption. Qed.

Lemma PJ_update r p s pn : PJ r p pn -> PJ r p (pn_update s pn).
Proof. apply PJ_same; unfold pn_update; destruct (ahas N.eqb s (pn_steps pn)); reflexivity. Qed.

Lemma RNJ_periods r rn rn' : rn_periods rn' = rn_periods rn -> RNJ r rn -> RNJ r rn'.
Proof. intros E H p pn I. rewrite E in I. apply H. exact I. Qed.

Lemma RNJ_zero r : RNJ r rn_zero.
Proof. intros p pn []. Qed.

Lemma RNJ_update r pl p rn : RNJ r rn -> RNJ r (rn_update pl p rn).
Proof.
  intros H p' pn I. unfold rn_update in I. cbn in I.
  apply (proj1 (filter_In _ _ _)) in I. destruct I as [I _].
  destruct (ahas N.eqb p (rn_periods rn)); [apply H; exact I|].
  apply aset_In in I. destruct I as [[-> ->]|I]; [apply PJ_zero|apply H; exact I].
Qed.

Lemma with_period_J A r pl p s rn (g : periodNode -> res (periodNode * A)) (Q : A -> Prop) :
  RNJ r rn ->
  (forall pn, PJ r p pn -> wp (g pn) (fun '(pn', a) => PJ r p pn' /\ Q a)) ->
  wp (with_period pl p s rn g) (fun '(rn', a) => RNJ r rn' /\ Q a).
Proof.
  intros H HG. unfold with_period.
  pose proof (RNJ_update r pl p rn H) as H1.
  destruct (aget N.eqb p (rn_periods (rn_update pl p rn))) as [pn|] eqn:G; [|apply wp_panic].
  apply (aget_In N.eqb N.eqb_eq) in G.
  apply wp_bind. eapply wp_mono; [apply HG; apply PJ_update; apply (H1 p pn G)|].
  intros [pn' a] [P1 P2]. cbn. split; [|exact P2].
  intros p' pn'' I. cbn in I. apply aset_In in I. destruct I as [[-> ->]|I]; [exact P1|apply H1; exact I].
Qed.

Lemma RJ_root_update pl r rt : RJ rt -> RJ (root_update pm pl r rt).
Proof.
  intros H r' rn I. unfold root_update in I. apply (proj1 (filter_In _ _ _)) in I. destruct I as [I _].
  destruct (ahas N.eqb r rt); [apply H; exact I|].
  apply aset_In in I. destruct I as [[-> ->]|I]; [apply RNJ_zero|apply H; exact I].
Qed.

Lemma with_round_J A pl r p rt (f : roundNode -> res (roundNode * A)) (Q : A -> Prop) :
  RJ rt ->
  (forall rn, RNJ r rn -> wp (f rn) (fun '(rn', a) => RNJ r rn' /\ Q a)) ->
  wp (with_round pm pl r p rt f) (fun '(rt', a) => RJ rt' /\ Q a).
Proof.
  intros H HF. unfold with_round.
  pose proof (RJ_root_update pl r rt H) as H1.
  destruct (aget N.eqb r (root_update pm pl r rt)) as [rn|] eqn:G; [|apply wp_panic].
  apply (aget_In N.eqb N.eqb_eq) in G.
  apply wp_bind. eapply wp_mono; [apply HF; apply RNJ_update; apply (H1 r rn G)|].
  intros [rn' a] [P1 P2]. cbn. split; [|exact P2].
  intros r' rn'' I. apply aset_In in I. destruct I as [[-> ->]|I]; [exact P1|apply H1; exact I].
Qed.

(* a period-level read *)
Lemma read_J A r p (h : periodNode -> A) (Q : A -> Prop) :
  (forall pn, PJ r p pn -> Q (h pn)) ->
  forall pn, PJ r p pn -> wp (Ok (pn, h pn)) (fun '(pn', a) => PJ r p pn' /\ Q a).
Proof. intros HQ pn P. cbn. split; [exact P|apply HQ; exact P]. Qed.

End J.

(* ---------- leaves: the only writers of Staging and Cached ---------- *)
Lemma pt_vote_staging t v : pt_staging (fst (pt_vote t v)) = pt_staging t.
Proof.
  unfold pt_vote. destruct (existsb _ _); [reflexivity|].
  destruct (sk_accept (pt_freezer t) v) as [[nf eff] err].
  destruct (negb (is_bottom (pt_staging t))); [reflexivity|]. destruct err; reflexivity.
Qed.

Lemma pt_checked_vote_staging t v :
  wp (pt_checked_vote t v) (fun '(t', _) => pt_staging t' = pt_staging t).
Proof.
  unfold pt_checked_vote. pose proof (pt_vote_staging t v) as E.
  destruct (pt_vote t v) as [t1 out]. cbn in E.
  repeat match goal with |- wp (if ?c then _ else _) _ => destruct c end; cbn; auto.
Qed.

Lemma pt_checked_freeze_staging t :
  wp (pt_checked_freeze t) (fun '(t', _) => pt_staging t' = pt_staging t).
Proof.
  unfold pt_checked_freeze.
  repeat match goal with |- wp (if ?c then _ else _) _ => destruct c end; cbn; auto.
Qed.

Section J2.
Variable pm : params.
Variable D : list vote.
Local Notation PJ := (PJ pm D).
Local Notation RNJ := (RNJ pm D).
Local Notation RJ := (RJ pm D).

Lemma pn_pt_op_keep_J A r p (f : ptracker -> res (ptracker * A)) pn :
  (forall t, wp (f t) (fun '(t', _) => pt_staging t' = pt_staging t)) ->
  PJ r p pn -> wp (pn_pt_op f pn) (fun '(pn', _) => PJ r p pn' /\ True).
Proof.
  intros HF P. unfold pn_pt_op. apply wp_bind. eapply wp_mono; [apply HF|].
  intros [t a] E. cbn. split; [|exact I]. eapply PJ_same; [| |exact P]; cbn; auto.
Qed.

Lemma pn_pt_op_threshold_J r p th pn :
  good_thresh pm D th -> th_rnd th = r -> th_per th = p -> PJ r p pn ->
  wp (pn_pt_op (fun t => pt_checked_threshold t th) pn)
     (fun '(pn', v) => PJ r p pn' /\ (v = th_val th /\ th_t th <> TNext)).
Proof.
  intros G R Pp [A B]. unfold pn_pt_op, pt_checked_threshold.
  assert (J : th_t th <> TNext -> just_sc pm D r p (th_val th)).
  { intros NT. exists th. auto. }
  destruct (th_t th) eqn:ET; cbn.
  - destruct (pc_soft (pn_pt pn)); [exact I|]. destruct (is_bottom (th_val th)); [exact I|]. cbn.
    split; [|split; [reflexivity|discriminate]]. split; cbn; [intros _; apply J; discriminate|exact B].
  - split; [|split; [reflexivity|discriminate]]. split; cbn; [intros _; apply J; discriminate|exact B].
  - exact I.
Qed.

Lemma vt_finish_shape x ob t' :
  wp (vt_finish pm x ob t')
     (fun '(_, oth) => forall th, oth = Some th ->
        th_rnd th = vt_rnd x /\ th_per th = vt_per x /\ th_step th = vt_step x /\ th_t th = tkind_of_step (vt_step x)).
Proof.
  unfold vt_finish. destruct (over_threshold pm (vt_step x) t') as [| |prop]; cbn; try (intros th E; discriminate E); [exact I|].
  destruct ob; cbn; [intros th E; discriminate E|].
  apply wp_bind. eapply wp_mono; [apply wp_true|]. intros b _. cbn. intros th E. injection E as <-. cbn. auto.
Qed.

Lemma vt_accept_shape t x :
  wp (vt_accept pm t x)
     (fun '(_, oth) => forall th, oth = Some th ->
        th_rnd th = vt_rnd x /\ th_per th = vt_per x /\ th_step th = vt_step x /\ th_t th = tkind_of_step (vt_step x)).
Proof.
  unfold vt_accept.
  destruct (aget N.eqb (vt_snd x) (vt_equiv t)); [cbn; intros th E; discriminate E|].
  destruct (over_threshold pm (vt_step x) t) eqn:EO; [exact I| |];
    (destruct (aget N.eqb (vt_snd x) (vt_voters t)) as [old|];
     [ destruct (value_eqb (vt_val old) (vt_val x)); [cbn; intros th E; discriminate E|];
       match goal with |- wp (if ?c then _ else _) _ => destruct c end; [exact I|];
       match goal with |- wp (match ?l with [] => _ | _ => _ end) _ => destruct l end;
       [cbn; intros th E; discriminate E|apply vt_finish_shape]
     | apply vt_finish_shape ]).
Qed.

Lemma vt_checked_accept_shape t x :
  wp (vt_checked_accept pm t x)
     (fun '(_, oth) => forall th, oth = Some th ->
        th_rnd th = vt_rnd x /\ th_per th = vt_per x /\ th_step th = vt_step x /\ th_t th = tkind_of_step (vt_step x)).
Proof.
  unfold vt_checked_accept. destruct (vt_step x =? s_propose); [exact I|].
  match goal with |- wp (if ?c then _ else _) _ => destruct c end; [exact I|].
  apply wp_bind. eapply wp_mono; [apply vt_accept_shape|]. intros [t2 oth] H.
  destruct oth as [th|]; [|cbn; intros th E; discriminate E].
  repeat match goal with |- wp (if ?c then _ else _) _ => destruct c end; cbn; try exact I.
  intros th' E. injection E as <-. apply H. reflexivity.
Qed.

Lemma tkind_next s : s_next <=? s = true -> tkind_of_step s = TNext.
Proof.
  intros H. unfold tkind_of_step, s_next, s_soft, s_cert in *.
  destruct (s =? 1) eqn:E1; [lia|]. destruct (s =? 2) eqn:E2; [lia|]. reflexivity.
Qed.

Lemma pn_vote_accepted_J r p pn x :
  PNInv D r p pn -> In x D -> vt_rnd x = r -> vt_per x = p -> PJ r p pn ->
  wp (pn_vote_accepted pm pn x) (fun '(pn', _) => PJ r p pn' /\ True).
Proof.
  intros IN XD XR XP P. unfold pn_vote_accepted.
  apply wp_bind. eapply wp_mono.
  - apply wp_and; [|apply vt_checked_accept_shape].
    apply (vt_checked_accept_spec pm D (r, p, vt_step x)); auto.
    + apply pn_step_inv. apply pn_update_inv; auto.
    + unfold key_of; congruence.
  - intros [t' oth] [[_ G] SH]. cbn in G.
    set (pn2 := pn_set_step (vt_step x) t' (pn_update (vt_step x) pn)).
    assert (P2 : PJ r p pn2).
    { eapply PJ_same; [| |exact P]; unfold pn2, pn_set_step, pn_update; cbn;
        destruct (ahas N.eqb (vt_step x) (pn_steps pn)); reflexivity. }
    destruct oth as [th|]; cbn; [|split; [exact P2|exact I]].
    destruct (s_next <=? th_step th) eqn:EN; cbn; [|split; [exact P2|exact I]].
    split; [|exact I].
    pose proof (PJ_update pm D r p 0 pn2 P2) as [A B].
    destruct (G th eq_refl) as [GT _]. destruct (SH th eq_refl) as (S1 & S2 & S3 & S4).
    split; cbn; [exact A|].
    unfold vp_cache. destruct (is_bottom (th_val th)) eqn:EB; cbn; [exact B|].
    intros _. exists th. split; [exact GT|]. split; [congruence|]. split; [congruence|]. split; [reflexivity|].
    rewrite S4, <- S3. apply tkind_next. exact EN.
Qed.

End J2.

(* ---------- the dispatches of the player / aggregator / proposal manager keep [RJ] ---------- *)
Section J3.
Variable pm : params.
Variable D : list vote.
Local Notation PJ := (PJ pm D).
Local Notation RNJ := (RNJ pm D).
Local Notation RJ := (RJ pm D).

(* both invariants at once (needed where goodness of a freshly generated threshold matters) *)
Lemma with_period_IJ A r pl p s rn (g : periodNode -> res (periodNode * A)) (Q : A -> Prop) :
  RNInv pm D r rn -> RNJ r rn ->
  (forall pn, PNInv D r p pn -> PJ r p pn -> wp (g pn) (fun '(pn', a) => PJ r p pn' /\ Q a)) ->
  wp (with_period pl p s rn g) (fun '(rn', a) => RNJ r rn' /\ Q a).
Proof.
  intros IN H HG. unfold with_period.
  pose proof (RNJ_update pm D r pl p rn H) as H1. pose proof (rn_update_inv pm D r pl p rn IN) as I1.
  destruct (aget N.eqb p (rn_periods (rn_update pl p rn))) as [pn|] eqn:G; [|apply wp_panic].
  apply (aget_In N.eqb N.eqb_eq) in G.
  apply wp_bind. eapply wp_mono.
  - apply HG; [apply pn_update_inv; eapply (rni_p _ _ _ _ I1); eauto|apply PJ_update; apply (H1 p pn G)].
  - intros [pn' a] [P1 P2]. cbn. split; [|exact P2].
    intros p' pn'' I. cbn in I. apply aset_In in I. destruct I as [[-> ->]|I]; [exact P1|apply H1; exact I].
Qed.

Lemma with_round_IJ A pl r p rt (f : roundNode -> res (roundNode * A)) (Q : A -> Prop) :
  RInv pm D rt -> RJ rt ->
  (forall rn, RNInv pm D r rn -> RNJ r rn -> wp (f rn) (fun '(rn', a) => RNJ r rn' /\ Q a)) ->
  wp (with_round pm pl r p rt f) (fun '(rt', a) => RJ rt' /\ Q a).
Proof.
  intros IN H HF. unfold with_round.
  pose proof (RJ_root_update pm D pl r rt H) as H1. pose proof (root_update_inv pm D pl r rt IN) as I1.
  destruct (aget N.eqb r (root_update pm pl r rt)) as [rn|] eqn:G; [|apply wp_panic].
  apply (aget_In N.eqb N.eqb_eq) in G.
  apply wp_bind. eapply wp_mono; [apply HF; [apply rn_update_inv; apply I1; exact G|apply RNJ_update; apply (H1 r rn G)]|].
  intros [rn' a] [P1 P2]. cbn. split; [|exact P2].
  intros r' rn'' I. apply aset_In in I. destruct I as [[-> ->]|I]; [exact P1|apply H1; exact I].
Qed.

Ltac rd := intros pn P; cbn; split; [exact P|try exact Logic.I].

Lemma rn_read_staging_J r pl p rn :
  RNJ r rn ->
  wp (rn_read_staging pl p rn) (fun '(rn', (sv, _)) => RNJ r rn' /\ (is_bottom sv = false -> just_sc pm D r p sv)).
Proof.
  intros H. unfold rn_read_staging. apply wp_bind. eapply wp_mono.
  - apply (with_period_J pm D _ r pl p 0 rn _ (fun sv => is_bottom sv = false -> just_sc pm D r p sv)); [exact H|].
    intros pn P. cbn. split; [exact P|exact (proj1 P)].
  - intros [rn1 v] [A B]. cbn. auto.
Qed.

Lemma rn_staged_value_J r pl p rn :
  RNJ r rn ->
  wp (rn_staged_value pl p rn) (fun '(rn', (sv, _)) => RNJ r rn' /\ (is_bottom sv = false -> just_sc pm D r p sv)).
Proof. intros H. unfold rn_staged_value. apply rn_read_staging_J. apply RNJ_update. exact H. Qed.

Lemma d_staged_J pl rt r p :
  RJ rt -> wp (d_staged pm pl rt r p) (fun '(rt', (sv, _)) => RJ rt' /\ (is_bottom sv = false -> just_sc pm D r p sv)).
Proof.
  intros H. unfold d_staged.
  eapply wp_mono; [apply (with_round_J pm D _ pl r p rt _ (fun x => is_bottom (fst x) = false -> just_sc pm D r p (fst x))); [exact H|]|].
  - intros rn R. eapply wp_mono; [apply rn_read_staging_J; exact R|]. intros [rn' [sv c]] X. exact X.
  - intros [rt' [sv c]] X. exact X.
Qed.

Lemma d_pinned_J pl rt r : RJ rt -> wp (d_pinned pm pl rt r) (fun '(rt', _) => RJ rt' /\ True).
Proof. intros H. unfold d_pinned. apply with_round_J; [exact H|]. intros rn R. cbn. auto. Qed.

Lemma d_next_status_J pl rt r p :
  RJ rt -> wp (d_next_status pm pl rt r p)
              (fun '(rt', ns) => RJ rt' /\ (is_bottom (vp_val ns) = false -> just_next pm D r p (vp_val ns))).
Proof.
  intros H. unfold d_next_status. apply with_round_J; [exact H|]. intros rn R.
  apply with_period_J; [exact R|]. intros pn P. cbn. split; [exact P|exact (proj2 P)].
Qed.

Lemma d_freshest_J pl rt r : RJ rt -> wp (d_freshest pm pl rt r) (fun '(rt', _) => RJ rt' /\ True).
Proof. intros H. unfold d_freshest. apply with_round_J; [exact H|]. intros rn R. cbn. auto. Qed.

Lemma d_dump_J pl rt r p s : RJ rt -> wp (d_dump pm pl rt r p s) (fun '(rt', _) => RJ rt' /\ True).
Proof.
  intros H. unfold d_dump. apply with_round_J; [exact H|]. intros rn R.
  apply with_period_J; [exact R|]. rd.
Qed.

Lemma d_freeze_J pl rt r p : RJ rt -> wp (d_freeze pm pl rt r p) (fun '(rt', _) => RJ rt' /\ True).
Proof.
  intros H. unfold d_freeze. apply with_round_J; [exact H|]. intros rn R.
  apply with_period_J; [exact R|]. intros pn P. apply pn_pt_op_keep_J; [apply pt_checked_freeze_staging|exact P].
Qed.

Lemma rn_store_read_lowest_J r pl rn per : RNJ r rn -> wp (rn_store_read_lowest pl rn per) (fun rn' => RNJ r rn').
Proof.
  intros R. unfold rn_store_read_lowest. apply wp_bind. eapply wp_mono.
  - apply (with_period_J pm D _ r pl per 0 rn _ (fun _ => True)); [exact R|]. rd.
  - intros [rn' u] [A _]. cbn. exact A.
Qed.

Lemma d_read_lowest_J pl rt r : RJ rt -> wp (d_read_lowest pm pl rt r) (fun rt' => RJ rt').
Proof.
  intros H. unfold d_read_lowest. apply wp_bind. eapply wp_mono.
  - apply (with_round_J pm D _ pl r 0 rt _ (fun _ => True)); [exact H|]. intros rn R.
    apply wp_bind. eapply wp_mono; [apply rn_store_read_lowest_J; exact R|]. intros rn' R'. cbn. auto.
  - intros [rt' u] [A _]. cbn. exact A.
Qed.

Lemma update_cred_history_J pl rt : RJ rt -> wp (update_cred_history pm pl rt) (fun rt' => RJ rt').
Proof.
  intros H. unfold update_cred_history. destruct (negb (p_per pl =? 0)); [exact H|].
  destruct (p_rnd pl <=? pm_crlag pm); [exact H|]. apply d_read_lowest_J. exact H.
Qed.

Lemma va_filter_vote_J pl rt x : RJ rt -> wp (va_filter_vote pm pl rt x) (fun '(rt', _) => RJ rt' /\ True).
Proof.
  intros H. unfold va_filter_vote. destruct (negb (vote_fresh (fresh_of pl) x)); [cbn; auto|].
  apply wp_bind. eapply wp_mono.
  - apply (with_round_J pm D _ pl (vt_rnd x) (vt_per x) rt _ (fun _ => True)); [exact H|]. intros rn R.
    apply with_period_J; [exact R|]. rd.
  - intros [rt1 dup] [A _]. cbn. auto.
Qed.

Lemma rn_vote_accepted_J r pl rn x :
  RNInv pm D r rn -> RNJ r rn -> In x D -> vt_rnd x = r ->
  wp (rn_vote_accepted pm pl rn x) (fun '(rn', _) => RNJ r rn' /\ True).
Proof.
  intros IN R XD XR. unfold rn_vote_accepted. apply wp_bind. eapply wp_mono.
  - apply (with_period_IJ _ r pl (vt_per x) 0 rn _ (fun _ => True)); [exact IN|exact R|].
    intros pn PI P. apply pn_vote_accepted_J; auto.
  - intros [rn2 oth] [A _]. destruct oth as [th|]; cbn; [|auto].
    apply wp_bind. eapply wp_mono; [apply wp_true|]. intros fb _.
    pose proof (RNJ_update pm D r pl 0 rn2 A) as A3.
    destruct fb; cbn; split; auto.
Qed.

Lemma va_deliver_J pl rt x :
  RInv pm D rt -> RJ rt -> In x D -> wp (va_deliver pm pl rt x) (fun '(rt', _) => RJ rt' /\ True).
Proof.
  intros IN H XD. unfold va_deliver. apply with_round_IJ; [exact IN|exact H|].
  intros rn RI R. apply rn_vote_accepted_J; auto.
Qed.

Lemma va_deliver_all_J pl vs : forall rt acc,
  RInv pm D rt -> RJ rt -> (forall x, In x vs -> In x D) ->
  wp (va_deliver_all pm pl rt vs acc) (fun '(rt', _) => RJ rt' /\ True).
Proof.
  induction vs as [|x vs IH]; intros rt acc IN H S; cbn [va_deliver_all]; [cbn; auto|].
  apply wp_bind. eapply wp_mono.
  - apply wp_and; [apply (va_deliver_spec pm D); [exact IN|apply S; left; reflexivity]|apply va_deliver_J; [exact IN|exact H|apply S; left; reflexivity]].
  - intros [rt1 oth] [[A _] [B _]]. apply IH; auto. intros y Hy. apply S. right. exact Hy.
Qed.

Lemma va_handle_J pl rt m :
  RInv pm D rt -> RJ rt -> (forall x, In x (delivered_by m) -> In x D) ->
  wp (va_handle pm pl rt m) (fun '(rt', _) => RJ rt' /\ True).
Proof.
  intros IN H S. unfold va_handle.
  pose proof (root_update_inv pm D pl 0 rt IN) as I0. pose proof (RJ_root_update pm D pl 0 rt H) as H0.
  unfold delivered_by in S.
  destruct (me_in m) as [x|b|pv] eqn:EM; destruct (me_verified m) eqn:EV; cbn [andb] in *; try exact Logic.I.
  - destruct (mm_cancelled (me_meta m)) eqn:EC; [cbn; auto|]. destruct (mm_proto_err (me_meta m)); [cbn; auto|].
    destruct (mm_err (me_meta m)) eqn:EE; [cbn; auto|]. cbn in S.
    apply wp_bind. eapply wp_mono.
    + apply wp_and; [apply (va_filter_vote_spec pm D); exact I0|apply va_filter_vote_J; exact H0].
    + intros [rt1 ok] [A [B _]]. destruct (negb ok); [cbn; auto|].
      apply wp_bind. eapply wp_mono; [apply va_deliver_J; [exact A|exact B|apply S; left; reflexivity]|].
      intros [rt2 oth] [C _]. destruct oth as [th|]; [|cbn; auto].
      repeat match goal with |- wp (if ?c then _ else _) _ => destruct c end; cbn; auto.
  - destruct (mm_proto_err (me_meta m)); [cbn; auto|].
    apply wp_bind. eapply wp_mono; [apply va_filter_vote_J; exact H0|]. intros [rt1 ok] [A _]. cbn. auto.
  - destruct (mm_cancelled (me_meta m)) eqn:EC; [cbn; auto|]. destruct (mm_proto_err (me_meta m)); [cbn; auto|].
    destruct (mm_err (me_meta m)) eqn:EE; [cbn; auto|]. cbn in S.
    destruct (negb (bundle_fresh (fresh_of pl) b)); [cbn; auto|].
    apply wp_bind. eapply wp_mono; [apply va_deliver_all_J; [exact I0|exact H0|exact S]|].
    intros [rt1 oth] [A _]. destruct oth; cbn; auto.
  - cbn. auto.
Qed.

Lemma pm_check_dup_J pl rt x : RJ rt -> wp (pm_check_dup pm pl rt x) (fun '(rt', _) => RJ rt' /\ True).
Proof.
  intros H. unfold pm_check_dup. apply with_round_J; [exact H|]. intros rn R.
  apply with_period_J; [exact R|]. rd.
Qed.

Lemma pm_filter_vote_J pl rt x : RJ rt -> wp (pm_filter_vote pm pl rt x) (fun '(rt', _) => RJ rt' /\ True).
Proof.
  intros H. unfold pm_filter_vote.
  destruct (negb (proposal_fresh (fresh_of pl) x)).
  - destruct (useful_for_cred_history pm (p_rnd pl) x); [|cbn; auto].
    apply wp_bind. eapply wp_mono; [apply pm_check_dup_J; exact H|]. intros [rt1 dup] [A _]. cbn. auto.
  - apply wp_bind. eapply wp_mono; [apply pm_check_dup_J; exact H|]. intros [rt1 dup] [A _]. cbn. auto.
Qed.

Lemma rn_store_new_period_J r pl rn target starting :
  RNJ r rn -> wp (rn_store_new_period pl rn target starting) (fun rn' => RNJ r rn').
Proof.
  intros R. unfold rn_store_new_period. apply wp_bind. eapply wp_mono; [apply rn_staged_value_J; exact R|].
  intros [rn1 [staged c]] [A _]. cbn. eapply RNJ_periods; [|exact A]. reflexivity.
Qed.

Lemma pm_new_period_J pl rt th : RJ rt -> wp (pm_new_period pm pl rt th) (fun rt' => RJ rt').
Proof.
  intros H. unfold pm_new_period. apply wp_bind. eapply wp_mono.
  - apply (with_round_J pm D _ pl (th_rnd th) 0 rt _ (fun _ => True)); [exact H|]. intros rn R.
    apply wp_bind. eapply wp_mono; [apply rn_store_new_period_J; exact R|]. intros rn' R'. cbn. auto.
  - intros [rt' u] [A _]. cbn. exact A.
Qed.

Definition thres_post (th : thresh) (out : thres) : Prop :=
  forall prop a, out = THCommittable prop a -> prop = th_val th /\ th_t th <> TNext.

Lemma rn_store_threshold_J pl rn th :
  good_thresh pm D th -> RNJ (th_rnd th) rn ->
  wp (rn_store_threshold pl rn th) (fun '(rn', out) => RNJ (th_rnd th) rn' /\ thres_post th out).
Proof.
  intros G R. unfold rn_store_threshold. apply wp_bind. eapply wp_mono.
  - apply (with_period_J pm D _ (th_rnd th) pl (th_per th) 0 rn _ (fun v => v = th_val th /\ th_t th <> TNext)); [exact R|].
    intros pn P. apply pn_pt_op_threshold_J; auto.
  - intros [rn1 prop] [A [E NT]]. cbn.
    destruct (as_assembled (ps_asm_get (rn_store rn1) prop)); cbn.
    + split; [exact A|]. intros prop' a' X. injection X as <- _. auto.
    + split; [eapply RNJ_periods; [|exact A]; reflexivity|]. intros prop' a' X. discriminate X.
Qed.

Lemma pm_threshold_J pl rt r0 th :
  good_thresh pm D th -> RJ rt ->
  wp (pm_threshold pm pl rt r0 th)
     (fun '(rt', out) => RJ rt' /\ p_rnd pl = th_rnd th /\
        forall o, out = Some o -> thres_post th o).
Proof.
  intros G H. unfold pm_threshold.
  pose proof (RJ_root_update pm D pl r0 rt H) as H0.
  apply wp_bind. unfold pm_pre_threshold.
  destruct (negb (p_rnd pl =? th_rnd th)) eqn:ER; [exact Logic.I|].
  apply negb_false_iff, N.eqb_eq in ER.
  repeat match goal with |- wp (if ?c then _ else _) _ => destruct c end; try exact Logic.I. cbn.
  destruct (th_t th) eqn:ET.
  - apply wp_bind. eapply wp_mono.
    + instantiate (1 := fun rt1 => RJ rt1). destruct (p_per pl <? th_per th); [apply pm_new_period_J; exact H0|exact H0].
    + intros rt1 A. apply wp_bind. eapply wp_mono.
      * apply (with_round_J pm D _ pl (th_rnd th) (th_per th) rt1 _ (thres_post th)); [exact A|].
        intros rn R. apply rn_store_threshold_J; auto.
      * intros [rt2 out] [B C]. cbn. split; [exact B|]. split; [exact ER|]. intros o X. injection X as <-. exact C.
  - apply wp_bind. eapply wp_mono.
    + instantiate (1 := fun rt1 => RJ rt1). destruct (p_per pl <? th_per th); [apply pm_new_period_J; exact H0|exact H0].
    + intros rt1 A. apply wp_bind. eapply wp_mono.
      * apply (with_round_J pm D _ pl (th_rnd th) (th_per th) rt1 _ (thres_post th)); [exact A|].
        intros rn R. apply rn_store_threshold_J; auto.
      * intros [rt2 out] [B C]. cbn. split; [exact B|]. split; [exact ER|]. intros o X. injection X as <-. exact C.
  - apply wp_bind. eapply wp_mono; [apply pm_new_period_J; exact H0|]. intros rt1 A. cbn.
    split; [exact A|]. split; [exact ER|]. intros o X. discriminate X.
Qed.

Lemma pm_new_round_J pl rt target : RJ rt -> wp (pm_new_round pm pl rt target) (fun '(rt', _) => RJ rt' /\ True).
Proof.
  intros H. unfold pm_new_round. apply with_round_J; [apply RJ_root_update; exact H|].
  intros rn R. apply wp_bind. eapply wp_mono; [apply wp_true|]. intros out _. cbn. auto.
Qed.

Lemma rn_store_vote_J r pl rn v : RNJ r rn -> wp (rn_store_vote pl rn v) (fun '(rn', _) => RNJ r rn' /\ True).
Proof.
  intros R. unfold rn_store_vote. apply wp_bind. eapply wp_mono.
  - apply (with_period_J pm D _ r pl (vt_per v) 0 rn _ (fun _ => True)); [exact R|].
    intros pn P. apply pn_pt_op_keep_J; [intro t; apply pt_checked_vote_staging|exact P].
  - intros [rn1 ev] [A _]. destruct ev; cbn; auto.
Qed.

Lemma pm_vote_J pl rt m x : RJ rt -> wp (pm_vote pm pl rt m x) (fun '(rt', _) => RJ rt' /\ True).
Proof.
  intros H. unfold pm_vote. pose proof (RJ_root_update pm D pl 0 rt H) as H0.
  destruct (negb (me_verified m)).
  - apply wp_bind. eapply wp_mono; [apply pm_filter_vote_J; exact H0|]. intros [rt1 [forcred ok]] [A _].
    destruct ok; cbn; auto.
  - destruct (mm_cancelled (me_meta m)); [cbn; auto|]. destruct (mm_err (me_meta m)); [cbn; auto|].
    match goal with |- wp (if ?c then _ else _) _ => destruct c end; [cbn; auto|].
    apply wp_bind. eapply wp_mono.
    + apply (with_round_J pm D _ pl (vt_rnd x) (vt_per x) _ _ (fun _ => True)); [exact H0|].
      intros rn R. apply rn_store_vote_J. exact R.
    + intros [rt1 ev] [A _].
      match goal with |- wp (if ?c then _ else _) _ => destruct c end; [|cbn; auto].
      destruct ev; cbn; auto.
Qed.

Definition plres_post (pl : player) (pv : value) (out : plres) : Prop :=
  forall prop a, out = PLCommittable prop a ->
    prop = pv /\ (is_bottom prop = false -> just_sc pm D (p_rnd pl) (p_per pl) prop).

Lemma rn_store_payload_verified_J pl rn pv :
  RNJ (p_rnd pl) rn ->
  wp (rn_store_payload_verified pl rn pv) (fun '(rn', out) => RNJ (p_rnd pl) rn' /\ plres_post pl pv out).
Proof.
  intros R. unfold rn_store_payload_verified.
  assert (NC : forall o, (forall prop a, o <> PLCommittable prop a) -> plres_post pl pv o).
  { intros o HN prop a X. exfalso. eapply HN. exact X. }
  destruct (aget value_eqb pv (ps_asm (rn_store rn))) as [ea|]; [|cbn; split; [exact R|apply NC; discriminate]].
  destruct (as_assembled ea); [cbn; split; [exact R|apply NC; discriminate]|].
  apply wp_bind. eapply wp_mono.
  - apply rn_staged_value_J. eapply RNJ_periods; [|exact R]. reflexivity.
  - intros [rn2 [sv c]] [A B]. destruct (value_eqb sv pv) eqn:E; cbn.
    + split; [exact A|]. intros prop a X. injection X as <- _. split; [reflexivity|]. intros NB. apply value_eqb_eq in E. subst sv. apply B. exact NB.
    + split; [exact A|apply NC; discriminate].
Qed.

Lemma pm_payload_J pl rt m pv :
  RJ rt -> wp (pm_payload pm pl rt m pv) (fun '(rt', out) => RJ rt' /\ plres_post pl pv out).
Proof.
  intros H. unfold pm_payload. pose proof (RJ_root_update pm D pl 0 rt H) as H0.
  assert (NC : forall o, (forall prop a, o <> PLCommittable prop a) -> plres_post pl pv o).
  { intros o HN prop a X. exfalso. eapply HN. exact X. }
  assert (PP : forall r p, wp (with_round pm pl r p (root_update pm pl 0 rt)
                         (fun rn => let '(rn', out) := rn_store_payload_present pl rn pv in Ok (rn', out)))
                      (fun '(rt', out) => RJ rt' /\ forall prop a, out <> PLCommittable prop a)).
  { intros r p. apply with_round_J; [exact H0|]. intros rn R. unfold rn_store_payload_present.
    destruct (aget value_eqb pv (ps_asm (rn_store rn))) as [ea|]; [|cbn; split; [exact R|discriminate]].
    destruct (as_assembled ea); [cbn; split; [exact R|discriminate]|].
    destruct (as_filled ea); [cbn; split; [exact R|discriminate]|].
    destruct (ps_last_relevant _ pv) as [rper pinned]. cbn. split; [|discriminate].
    eapply RNJ_periods; [|exact R]. reflexivity. }
  destruct (negb (me_verified m)).
  - destruct (p_rnd pl =? v_rnd pv).
    + apply wp_bind. eapply wp_mono; [apply PP|]. intros [rt1 out] [A B].
      destruct out; cbn; (split; [exact A|apply NC; first [discriminate|exact B]]).
    + apply wp_bind. eapply wp_mono; [apply PP|]. intros [rt1 out] [A B].
      destruct out; cbn; (split; [exact A|apply NC; first [discriminate|exact B]]).
  - destruct (mm_cancelled (me_meta m)); [cbn; split; [exact H0|apply NC; discriminate]|].
    destruct (mm_err (me_meta m)); [cbn; split; [exact H0|apply NC; discriminate]|].
    apply with_round_J; [exact H0|]. intros rn R. apply rn_store_payload_verified_J. exact R.
Qed.

End J3.

(* ---------- justification of the attest actions ---------- *)
Definition just_act (pm : params) (D : list vote) (a : action) : Prop :=
  match a with
  | AAttest r p s v =>
      if tracked s then True
      else if s =? s_cert then just_sc pm D r p v
      else if s =? s_late then just_sc pm D r p v
      else if s =? s_redo then just_next pm D r (sub1 p) v /\ is_bottom v = false
      else if s =? s_down then v = bottom
      else False
  | _ => True
  end.
Definition just_acts (pm : params) (D : list vote) (acts : list action) : Prop := Forall (just_act pm D) acts.

Lemma just_acts_app pm D a b : just_acts pm D a -> just_acts pm D b -> just_acts pm D (a ++ b).
Proof. intros; apply Forall_app; auto. Qed.
Lemma just_act_mono pm D D' a : sub D D' -> just_act pm D a -> just_act pm D' a.
Proof.
  intros S. destruct a; cbn; auto.
  repeat match goal with |- (if ?c then _ else _) -> _ => destruct c end; auto.
  - apply just_sc_mono; auto.
  - apply just_sc_mono; auto.
  - intros [A B]; split; auto. eapply just_next_mono; eauto.
Qed.

Lemma is_bottom_rnd v : is_bottom v = true -> v_rnd v = 0.
Proof. intros H. apply value_eqb_eq in H. subst. reflexivity. Qed.
Lemma is_bottom_eq v : is_bottom v = true -> v = bottom.
Proof. intros H. apply value_eqb_eq in H. exact H. Qed.

Definition jpost (pm : params) (D : list vote) (r : player * router * list action) : Prop :=
  RJ pm D (snd (fst r)) /\ just_acts pm D (snd r) /\ 1 <= p_step (fst (fst r)).

Section JH.
Variable pm : params.
Variable D : list vote.
Local Notation RJ := (RJ pm D).
Local Notation just_acts := (just_acts pm D).

Ltac nonatt := repeat (constructor; [exact Logic.I|]); try constructor.

Lemma partition_policy_J pl rt :
  RJ rt -> wp (partition_policy pm pl rt) (fun '(rt', acts) => RJ rt' /\ just_acts acts).
Proof.
  intros H. unfold partition_policy. destruct (negb (partitioned pl)); cbn; [split; [exact H|constructor]|].
  apply wp_bind. eapply wp_mono; [apply d_freshest_J; exact H|]. intros [rt1 fr] [A _].
  set (acts0 := match fr with Some th => [ABroadcastBundle (th_b th)] | None => [] end).
  assert (Q0 : just_acts acts0) by (unfold acts0; destruct fr; nonatt).
  match goal with |- wp (match ?g with _ => _ end) _ => destruct g as [[br bp]|] end; cbn; [|split; assumption].
  apply wp_bind. eapply wp_mono; [apply d_staged_J; exact A|]. intros [rt2 [sv c]] [A2 _]. destruct c; cbn.
  - split; [exact A2|]. apply just_acts_app; [exact Q0|nonatt].
  - apply wp_bind. eapply wp_mono; [apply d_pinned_J; exact A2|]. intros [rt3 [pv ok]] [A3 _].
    destruct ok; cbn; split; auto. apply just_acts_app; [exact Q0|nonatt].
Qed.

Lemma issue_soft_vote_J pl rt d :
  RJ rt -> wp (issue_soft_vote pm pl rt d) (fun '(pl', rt', acts) => RJ rt' /\ just_acts acts /\ p_step pl' = p_step pl).
Proof.
  intros H. unfold issue_soft_vote.
  apply wp_bind. eapply wp_mono; [apply d_freeze_J; exact H|]. intros [rt1 frozen] [A1 _].
  apply wp_bind. eapply wp_mono; [apply d_next_status_J; exact A1|]. intros [rt2 ns] [A2 _].
  repeat match goal with |- wp (if ?c then _ else _) _ => destruct c end; cbn; (split; [exact A2|split; [|reflexivity]]);
    first [constructor; [exact Logic.I|constructor] | constructor].
Qed.

Lemma issue_next_vote_J pl rt d :
  RJ rt -> tracked (p_step pl) = true ->
  wp (issue_next_vote pm pl rt d) (fun '(pl', rt', acts) => RJ rt' /\ just_acts acts /\ p_step pl' = p_step pl).
Proof.
  intros H T. unfold issue_next_vote.
  apply wp_bind. eapply wp_mono; [apply partition_policy_J; exact H|]. intros [rt1 acts] [A1 Q1].
  apply wp_bind. eapply wp_mono; [apply d_staged_J; exact A1|]. intros [rt2 [sv c]] [A2 _].
  apply wp_bind. eapply wp_mono.
  - instantiate (1 := fun x => RJ (fst x)). destruct c; [exact A2|].
    apply wp_bind. eapply wp_mono; [apply d_next_status_J; exact A2|]. intros [rt3 ns] [A3 _]. exact A3.
  - intros [rt4 prop] A4. cbn in A4. destruct (next_vote_ranges pm (p_step pl) d) as [lo up]. cbn.
    split; [exact A4|split; [|reflexivity]]. apply just_acts_app; [exact Q1|].
    constructor; [|constructor]. cbn. rewrite T. exact Logic.I.
Qed.

Lemma issue_fast_vote_J pl rt :
  RJ rt -> wp (issue_fast_vote pm pl rt) (fun '(rt', acts) => RJ rt' /\ just_acts acts).
Proof.
  intros H. unfold issue_fast_vote.
  apply wp_bind. eapply wp_mono; [apply partition_policy_J; exact H|]. intros [rt1 acts] [A1 Q1].
  apply wp_bind. eapply wp_mono; [apply d_dump_J; exact A1|]. intros [rt2 elate] [A2 _].
  apply wp_bind. eapply wp_mono; [apply d_dump_J; exact A2|]. intros [rt3 eredo] [A3 _].
  apply wp_bind. eapply wp_mono; [apply d_dump_J; exact A3|]. intros [rt4 edown] [A4 _].
  apply wp_bind. eapply wp_mono; [apply d_staged_J; exact A4|]. intros [rt5 [sv c]] [A5 JS].
  apply wp_bind. eapply wp_mono.
  - instantiate (1 := fun x => RJ (fst x) /\
       just_act pm D (AAttest (p_rnd pl) (p_per pl) (if is_bottom (snd (snd x)) then s_down else fst (snd x)) (snd (snd x)))).
    destruct c; cbn.
    + split; [exact A5|]. destruct (is_bottom sv) eqn:EB; cbn; [apply is_bottom_eq; exact EB|apply JS; reflexivity].
    + apply wp_bind. eapply wp_mono; [apply d_next_status_J; exact A5|]. intros [rt6 ns] [A6 JN]. cbn.
      split; [exact A6|]. destruct (negb (vp_bottom ns)); cbn; [|reflexivity].
      destruct (is_bottom (vp_val ns)) eqn:EB; cbn; [apply is_bottom_eq; exact EB|split; [apply JN; reflexivity|reflexivity]].
  - intros [rt7 [s prop]] [A7 JA]. cbn in *. split; [exact A7|].
    apply just_acts_app; [exact Q1|]. constructor; [exact Logic.I|]. constructor; [exact JA|constructor].
Qed.

Lemma enter_period_J pl rt src target :
  good_thresh pm D src -> RJ rt -> (th_t src <> TNext -> target = th_per src) ->
  wp (enter_period pm pl rt src target) (jpost pm D).
Proof.
  intros G H HT. unfold enter_period, jpost.
  apply wp_bind. eapply wp_mono; [apply partition_policy_J; exact H|]. intros [rt1 acts] [A1 Q1].
  apply wp_bind. eapply wp_mono; [apply pm_threshold_J; [exact G|exact A1]|]. intros [rt2 out] (A2 & ER & TP).
  assert (QQ : forall tl, just_acts tl -> just_acts ((acts ++ [ARezero (p_rnd pl)]) ++ tl)).
  { intros tl Qt. apply just_acts_app; [|exact Qt]. apply just_acts_app; [exact Q1|]. constructor; [exact Logic.I|constructor]. }
  destruct out as [[prop auth|prop]|]; cbn.
  - split; [exact A2|]. split; [|unfold s_soft; lia]. apply QQ. constructor; [|constructor].
    destruct (TP _ eq_refl prop auth eq_refl) as [-> NT]. cbn.
    exists src. split; [exact G|]. split; [symmetry; exact ER|]. split; [symmetry; apply HT; exact NT|].
    split; [reflexivity|exact NT].
  - destruct (th_t src); [| |destruct (is_bottom (th_val src))]; cbn; (split; [exact A2|split; [|unfold s_soft; lia]]);
      first [ rewrite <- (app_nil_r (acts ++ _)); apply QQ; constructor
            | apply QQ; constructor; [exact Logic.I|constructor] ].
  - destruct (th_t src); [| |destruct (is_bottom (th_val src))]; cbn; (split; [exact A2|split; [|unfold s_soft; lia]]);
      first [ rewrite <- (app_nil_r (acts ++ _)); apply QQ; constructor
            | apply QQ; constructor; [exact Logic.I|constructor] ].
Qed.

Lemma handle_fast_timeout_J pl rt en bad :
  RJ rt -> 1 <= p_step pl -> wp (handle_fast_timeout pm pl rt en bad) (jpost pm D).
Proof.
  intros H S1. unfold handle_fast_timeout, jpost.
  destruct bad; [cbn; split; [exact H|split; [constructor|exact S1]]|]. destruct (pm_frlambda pm =? 0); [exact Logic.I|].
  destruct (p_frd pl =? 0); [cbn; split; [exact H|split; [constructor|exact S1]]|].
  apply wp_bind. eapply wp_mono; [apply issue_fast_vote_J; exact H|]. intros [rt1 acts] [A Q]. cbn. auto.
Qed.

Lemma handle_timeout_J pl rt en bad :
  RJ rt -> 1 <= p_step pl -> p_step pl + 1 < s_late ->
  wp (handle_timeout pm pl rt en bad) (jpost pm D).
Proof.
  intros H S1 SL. unfold handle_timeout, jpost.
  destruct (p_step pl =? s_soft) eqn:E1.
  - apply wp_bind. eapply wp_mono; [apply issue_soft_vote_J; exact H|]. intros [[pl1 rt1] acts] (A & Q & _). cbn.
    split; [exact A|split; [exact Q|]]. unfold s_cert; lia.
  - destruct (p_step pl =? s_cert) eqn:E2.
    + eapply wp_mono; [apply issue_next_vote_J; [exact H|reflexivity]|]. intros [[pl1 rt1] acts] (A & Q & E). cbn in *.
      split; [exact A|split; [exact Q|]]. rewrite E. unfold s_next; lia.
    + destruct (p_nap pl) eqn:EN.
      * eapply wp_mono; [apply issue_next_vote_J; [exact H|]|].
        -- unfold tracked, s_soft, s_cert, s_next, s_late in *. lia.
        -- intros [[pl1 rt1] acts] (A & Q & E). cbn in *. split; [exact A|split; [exact Q|]]. lia.
      * destruct (next_vote_ranges pm _ _) as [lo up]. destruct (up - lo =? 0); [exact Logic.I|]. cbn.
        split; [exact H|]. split; [constructor|]. unfold w64. unfold s_late in SL.
        rewrite N.mod_small; [lia|]. apply N.lt_trans with 253; [lia|reflexivity].
Qed.

End JH.

(* ---------- handlers with recursion ---------- *)
Definition pre3 (f : nat) (pl : player) (e : pevent) : Prop :=
  pre f pl e /\ 0 < p_rnd pl /\ 1 <= p_step pl /\
  match e with PTimeout false _ _ => p_step pl + 1 < s_late | _ => True end.

Section JR.
Variable pm : params.
Variable D : list vote.
Local Notation RJ := (RJ pm D).
Local Notation just_acts := (just_acts pm D).
Variable f : nat.
Variable rec : player -> router -> pevent -> hres.
Hypothesis Hrec : forall pl rt e, RInv pm D rt -> pev_ok pm D pl e -> wp (rec pl rt e) (hpost pm D).
Hypothesis Hrec3 : forall pl rt e, RInv pm D rt -> RJ rt -> pev_ok pm D pl e -> pre3 f pl e -> wp (rec pl rt e) (jpost pm D).

Ltac nonatt := repeat (constructor; [exact Logic.I|]); try constructor.

Lemma enter_round_J pl rt target :
  RInv pm D rt -> RJ rt -> p_rnd pl < target -> target + N.of_nat f + 1 < W64 ->
  wp (enter_round pm rec pl rt target) (jpost pm D).
Proof.
  intros IN H L B. unfold enter_round, jpost.
  apply wp_bind. eapply wp_mono; [apply wp_and; [apply (pm_new_round_spec pm D); exact IN|apply pm_new_round_J; exact H]|].
  intros [rt1 e] [A1 [B1 _]].
  apply wp_bind. eapply wp_mono; [apply wp_and; [apply (d_freshest_spec pm D); exact A1|apply d_freshest_J; exact B1]|].
  intros [rt2 fr] [[A2 TP] [B2 _]].
  set (pl' := mkPlayer target 0 s_soft (p_step pl) (filter_timeout pm 0) dl_filter false 0 (p_pending pl) (p_pnext pl)).
  set (acts1 := match e with PLPipelined _ per pinned prop _ => _ | _ => _ end).
  assert (Q1 : just_acts acts1) by (unfold acts1; destruct e; nonatt).
  destruct fr as [th|]; cbn.
  - apply wp_bind. eapply wp_mono.
    + apply Hrec3; [exact A2|exact B2|cbn; apply (TP th); reflexivity|].
      unfold pre3, pre. cbn. unfold s_soft. repeat split; try lia.
    + intros [[pl2 rt3] a4] (X & Y & Z). cbn [fst snd] in *. split; [exact X|split; [|exact Z]].
      apply just_acts_app; assumption.
  - split; [exact B2|split; [exact Q1|unfold s_soft; lia]].
Qed.

Lemma handle_threshold_J pl rt th :
  RInv pm D rt -> RJ rt -> good_thresh pm D th ->
  p_rnd pl + N.of_nat (S f) + 1 < W64 -> 0 < p_rnd pl -> 1 <= p_step pl ->
  wp (handle_threshold pm rec pl rt th) (jpost pm D).
Proof.
  intros IN H G B R0 S1. unfold handle_threshold, jpost.
  assert (NOP : RJ rt /\ just_acts [] /\ 1 <= p_step pl) by (split; [exact H|split; [constructor|exact S1]]).
  destruct (th_t th) eqn:ET.
  - (* soft *)
    destruct (th_per th <? p_per pl) eqn:E1; [exact NOP|].
    destruct (p_per pl <? th_per th) eqn:E2; [apply enter_period_J; auto|].
    apply wp_bind. eapply wp_mono; [apply pm_threshold_J; [exact G|exact H]|]. intros [rt1 out] (A1 & ER & TP).
    destruct out as [[prop auth|prop]|]; cbn; try (split; [exact A1|split; [constructor|exact S1]]).
    destruct (p_step pl <=? s_cert); cbn; (split; [exact A1|split; [|exact S1]]); [|constructor].
    constructor; [|constructor]. cbn. destruct (TP _ eq_refl prop auth eq_refl) as [-> NT].
    exists th. split; [exact G|]. split; [symmetry; exact ER|]. split; [lia|]. split; [reflexivity|exact NT].
  - (* cert *)
    apply wp_bind. eapply wp_mono; [apply wp_and; [apply (pm_threshold_spec pm D); exact IN|apply pm_threshold_J; [exact G|exact H]]|].
    intros [rt1 out] [[A1 _] (B1 & _ & _)].
    apply wp_bind. eapply wp_mono; [apply wp_and; [apply (d_staged_spec pm D); exact A1|apply d_staged_J; exact B1]|].
    intros [rt2 [sv c]] [[A2 _] [B2 _]].
    destruct c; cbn.
    + apply wp_bind. eapply wp_mono; [apply wp_and; [apply (update_cred_history_spec pm D); exact A2|apply update_cred_history_J; exact B2]|].
      intros rt3 [A3 B3].
      apply wp_bind. eapply wp_mono.
      * apply enter_round_J; [exact A3|exact B3| |]; rewrite add1_small by lia; lia.
      * intros [[pl2 rt4] as_] (X & Y & Z). cbn [fst snd] in *. split; [exact X|split; [|exact Z]].
        constructor; [exact Logic.I|exact Y].
    + destruct (p_per pl <? th_per th) eqn:E2.
      * apply wp_bind. eapply wp_mono; [apply enter_period_J; [exact G|exact B2|intros _; reflexivity]|].
        intros [[pl2 rt3] as_] (X & Y & Z). cbn [fst snd] in *. split; [exact X|split; [|exact Z]].
        constructor; [exact Logic.I|exact Y].
      * cbn. split; [exact B2|split; [nonatt|exact S1]].
  - (* next *)
    destruct (th_per th <? p_per pl) eqn:E1; [exact NOP|].
    apply enter_period_J; [exact G|exact H|]. intros NT. exfalso. apply NT. exact ET.
Qed.

Lemma handle_proposal_vote_J pl rt m x :
  RInv pm D rt -> RJ rt -> p_rnd pl + N.of_nat (S f) + 1 < W64 -> 0 < p_rnd pl -> 1 <= p_step pl ->
  wp (handle_proposal_vote pm rec pl rt m x) (jpost pm D).
Proof.
  intros IN H B R0 S1. unfold handle_proposal_vote, jpost.
  apply wp_bind. eapply wp_mono; [apply wp_and; [apply (pm_vote_spec pm D); exact IN|apply pm_vote_J; exact H]|].
  intros [rt1 ef] [A1 [B1 _]].
  apply wp_bind.
  match goal with |- wp ?body _ =>
    assert (HB : wp body (fun '(pl1, acts, _) => just_acts acts /\ p_rnd pl1 = p_rnd pl /\ p_step pl1 = p_step pl)) end.
  { cbv zeta. destruct ef as [|note| |prop ok]; cbn;
      repeat match goal with |- wp (if ?c then _ else _) _ => destruct c end; cbn;
      first [exact Logic.I | (split; [nonatt|split; reflexivity])]. }
  eapply wp_mono; [exact HB|]. intros [[pl1 acts] done] (Q & RE & SE).
  match goal with |- wp (let '(pl2, tail) := ?pt in _) _ =>
    assert (HP : p_rnd (fst pt) = p_rnd pl /\ p_step (fst pt) = p_step pl)
      by (destruct (me_verified m); cbn; auto);
    destruct pt as [pl2 tail] end.
  cbn in HP. destruct HP as [RE2 SE2].
  assert (FIN : RJ rt1 /\ just_acts acts /\ 1 <= p_step pl2) by (split; [exact B1|split; [exact Q|lia]]).
  destruct tail as [t|]; [|exact FIN].
  destruct done; [|exact FIN].
  apply wp_bind. eapply wp_mono.
  - apply Hrec3; [exact A1|exact B1| |].
    + cbn. split; [intros y Hy; cbn in Hy; contradiction|]. unfold payload_ok; cbn. intro C; discriminate.
    + unfold pre3, pre. rewrite RE2, SE2. repeat split; try lia.
  - intros [[pl3 rt2] suffix] (X & Y & Z). cbn [fst snd] in *. split; [exact X|split; [|exact Z]].
    apply just_acts_app; assumption.
Qed.

Lemma handle_message_J pl rt m :
  RInv pm D rt -> RJ rt -> (forall x, In x (delivered_by m) -> In x D) -> payload_ok pl m ->
  p_rnd pl + N.of_nat (S f) + 1 < W64 -> 0 < p_rnd pl -> 1 <= p_step pl ->
  wp (handle_message pm rec pl rt m) (jpost pm D).
Proof.
  intros IN H S PO B R0 S1. unfold handle_message, jpost.
  assert (RF : forall rt' (acts : list action), RJ rt' -> just_acts acts -> RJ rt' /\ just_acts acts /\ 1 <= p_step pl)
    by (intros; auto).
  assert (P3 : forall e, (match e with PTimeout false _ _ => False | PRoundInt _ => False | _ => True end) -> pre3 f pl e).
  { intros e He. unfold pre3, pre. destruct e as [m'|th'|[|] en bad|r|r p s err]; try contradiction; repeat split; try lia. }
  destruct (me_in m) as [x|b|pv] eqn:EM.
  - destruct (vt_step x =? s_propose); [apply handle_proposal_vote_J; auto|].
    apply wp_bind. eapply wp_mono; [apply wp_and; [apply (va_handle_spec pm D); eauto|apply va_handle_J; eauto]|].
    intros [rt1 ef] [[A1 G1] [B1 _]].
    destruct ef as [| | |th]; cbn; try solve [apply RF; [exact B1|nonatt]].
    + destruct (negb (me_verified m)); cbn; (apply RF; [exact B1|nonatt]).
    + destruct (negb (me_verified m)); [cbn; apply RF; [exact B1|nonatt]|].
      apply wp_bind. eapply wp_mono.
      * apply Hrec3; [exact A1|exact B1|cbn; inversion G1; auto|apply P3; exact Logic.I].
      * intros [[pl2 rt2] a1] (X & Y & Z). cbn [fst snd] in *. split; [exact X|split; [|exact Z]].
        constructor; [exact Logic.I|exact Y].
  - apply wp_bind. eapply wp_mono; [apply wp_and; [apply (va_handle_spec pm D); eauto|apply va_handle_J; eauto]|].
    intros [rt1 ef] [[A1 G1] [B1 _]].
    destruct ef as [| | |th]; cbn; try solve [apply RF; [exact B1|nonatt]].
    + destruct (negb (me_verified m)); cbn; first [exact Logic.I | (apply RF; [exact B1|nonatt])].
    + destruct (negb (me_verified m)); [cbn; apply RF; [exact B1|nonatt]|].
      apply wp_bind. eapply wp_mono.
      * apply Hrec3; [exact A1|exact B1|cbn; inversion G1; auto|apply P3; exact Logic.I].
      * intros [[pl2 rt2] a1] (X & Y & Z). cbn [fst snd] in *. split; [exact X|split; [|exact Z]].
        constructor; [exact Logic.I|exact Y].
  - apply wp_bind. eapply wp_mono; [apply wp_and; [apply (pm_payload_spec pm D); eauto|apply pm_payload_J; exact H]|].
    intros [rt1 ef] [[A1 PA] [B1 PP]].
    destruct ef as [| | |rnd per pinned prop auth|prop auth|prop auth]; try solve [cbn; apply RF; [exact B1|nonatt]].
    + cbv zeta. cbn. destruct (mm_hnil (me_meta m)); cbn; (apply RF; [exact B1|nonatt]).
    + cbv zeta. destruct (rnd =? p_rnd pl); [cbn; apply RF; [exact B1|nonatt]|]. cbn.
      destruct (mm_hnil (me_meta m)); cbn; (apply RF; [exact B1|nonatt]).
    + (* accepted *)
      cbv zeta. cbn.
      apply wp_bind. eapply wp_mono; [apply wp_and; [apply (d_freshest_spec pm D); exact A1|apply d_freshest_J; exact B1]|].
      intros [rt2 fr] [[A2 TP] [B2 _]].
      set (acts1 := if mm_hnil (me_meta m) then _ else _).
      assert (Q1 : just_acts acts1) by (unfold acts1; destruct (mm_hnil (me_meta m)); nonatt).
      destruct fr as [th|]; [|cbn; apply RF; assumption].
      destruct (tkind_eqb (th_t th) TCert && value_eqb (th_val th) pv) eqn:EC; [|cbn; apply RF; assumption].
      destruct (TP th eq_refl) as (GT & GR).
      apply wp_bind. eapply wp_mono; [apply wp_and; [apply (update_cred_history_spec pm D); exact A2|apply update_cred_history_J; exact B2]|].
      intros rt3 [A3 B3].
      apply wp_bind. eapply wp_mono.
      * apply enter_round_J; [exact A3|exact B3| |]; rewrite (good_thresh_rnd pm D th GT), GR, add1_small by lia; lia.
      * intros [[pl2 rt4] as_] (X & Y & Z). cbn [fst snd] in *. split; [exact X|split; [|exact Z]].
        apply just_acts_app; [exact Q1|]. constructor; [exact Logic.I|exact Y].
    + (* committable *)
      cbv zeta. cbn.
      apply wp_bind. eapply wp_mono; [apply wp_and; [apply (d_freshest_spec pm D); exact A1|apply d_freshest_J; exact B1]|].
      intros [rt2 fr] [[A2 TP] [B2 _]].
      set (acts1 := if mm_hnil (me_meta m) then _ else _).
      assert (Q1 : just_acts acts1) by (unfold acts1; destruct (mm_hnil (me_meta m)); nonatt).
      assert (JC : just_act pm D (AAttest (p_rnd pl) (p_per pl) s_cert prop)).
      { cbn. destruct (PP prop auth eq_refl) as [EP JP]. apply JP.
        destruct (is_bottom prop) eqn:EB; [|reflexivity]. exfalso.
        apply is_bottom_rnd in EB. rewrite EP in EB. rewrite (PA eq_refl) in EB. lia. }
      assert (FIN : wp (if p_step pl <=? s_cert
                        then Ok (pl, rt2, acts1 ++ [AAttest (p_rnd pl) (p_per pl) s_cert prop])
                        else Ok (pl, rt2, acts1)) (jpost pm D)).
      { destruct (p_step pl <=? s_cert); cbn; unfold jpost; cbn; (split; [exact B2|split; [|exact S1]]); [|exact Q1].
        apply just_acts_app; [exact Q1|]. constructor; [exact JC|constructor]. }
      destruct fr as [th|]; [|exact FIN].
      destruct (tkind_eqb (th_t th) TCert && value_eqb (th_val th) pv) eqn:EC; [|exact FIN].
      destruct (TP th eq_refl) as (GT & GR).
      apply wp_bind. eapply wp_mono; [apply wp_and; [apply (update_cred_history_spec pm D); exact A2|apply update_cred_history_J; exact B2]|].
      intros rt3 [A3 B3].
      apply wp_bind. eapply wp_mono.
      * apply enter_round_J; [exact A3|exact B3| |]; rewrite (good_thresh_rnd pm D th GT), GR, add1_small by lia; lia.
      * intros [[pl2 rt4] as_] (X & Y & Z). cbn [fst snd] in *. split; [exact X|split; [|exact Z]].
        apply just_acts_app; [exact Q1|]. constructor; [exact Logic.I|exact Y].
Qed.

Lemma handle_body_J pl rt e :
  RInv pm D rt -> RJ rt -> pev_ok pm D pl e -> pre3 (S f) pl e -> wp (handle_body pm rec pl rt e) (jpost pm D).
Proof.
  intros IN H PE ([B X] & R0 & S1 & T). destruct e as [m|th|fast en bad|r|r p s err]; cbn [handle_body].
  - destruct PE. apply handle_message_J; auto.
  - apply handle_threshold_J; auto.
  - destruct fast; [apply handle_fast_timeout_J; auto | apply handle_timeout_J; auto].
  - destruct X as [X1 X2]. apply enter_round_J; auto. lia.
  - unfold jpost. cbn. split; [exact H|split; [constructor; [exact Logic.I|constructor]|exact S1]].
Qed.

End JR.

(* ---------- player.handle, submitTop, whole runs ---------- *)
Lemma p_handle_J pm D : forall fuel pl rt e,
  RInv pm D rt -> RJ pm D rt -> pev_ok pm D pl e -> pre3 fuel pl e -> wp (p_handle fuel pm pl rt e) (jpost pm D).
Proof.
  induction fuel as [|f IH]; intros pl rt e IN H PE PR; cbn [p_handle]; [exact Logic.I|].
  apply (handle_body_J pm D f (p_handle f pm)); auto.
  intros pl0 rt0 e0 I0 PE0. apply p_handle_spec; auto.
Qed.

Definition ev_ok3 (st : state) (e : ext_event) : Prop :=
  ev_ok2 st e /\ match e with EvTimeout false _ _ => p_step (s_pl st) + 1 < s_late | _ => True end.

Fixpoint trace_ok3 (pm : params) (st : state) (es : list ext_event) : Prop :=
  match es with
  | [] => True
  | e :: es' =>
      ev_ok3 st e /\
      match step pm st e with Ok (st', _) => trace_ok3 pm st' es' | _ => True end
  end.

Lemma trace_ok3_ok2 pm : forall es st, trace_ok3 pm st es -> trace_ok2 pm st es.
Proof.
  induction es as [|e es IH]; intros st H; cbn in *; [exact Logic.I|].
  destruct H as [[A _] B]. split; [exact A|]. destruct (step pm st e) as [[st' acts]| |]; auto.
Qed.

Lemma step_J pm D st e :
  params_pos pm -> per_small D -> RInv pm D (s_rt st) -> RJ pm D (s_rt st) ->
  (forall x, In x (ev_delivered e) -> In x D) -> ev_ok3 st e ->
  0 < p_rnd (s_pl st) -> 1 <= p_step (s_pl st) ->
  wp (step pm st e)
     (fun '(st', acts) => RInv pm D (s_rt st') /\ RJ pm D (s_rt st') /\
        chain (pos_of (s_pl st)) acts (pos_of (s_pl st')) /\ just_acts pm D acts /\ 1 <= p_step (s_pl st')).
Proof.
  intros Hpp Hs IN H S [EO T] R0 S1.
  pose proof (step_pos pm D st e Hpp Hs IN S EO) as SP.
  destruct EO as (PO & PR & PS).
  assert (PE : pev_ok pm D (s_pl st) (pevent_of e)) by (destruct e; cbn in *; auto).
  assert (P3 : pre3 default_fuel (s_pl st) (pevent_of e)).
  { unfold pre3. split; [exact PR|]. split; [exact R0|]. split; [exact S1|]. destruct e as [m|[|] en bad|r|r p s err]; cbn; auto. }
  pose proof (p_handle_J pm D default_fuel (s_pl st) (root_update pm (s_pl st) 0 (s_rt st)) (pevent_of e)
                (root_update_inv pm D _ 0 _ IN) (RJ_root_update pm D _ 0 _ H) PE P3) as HJ.
  unfold step in *. destruct (p_handle default_fuel pm (s_pl st) (root_update pm (s_pl st) 0 (s_rt st)) (pevent_of e))
    as [[[pl rt'] acts]| |]; cbn in *; auto.
  destruct SP as [A B]. destruct HJ as (X & Y & Z). auto.
Qed.

Lemma chain_rnd pl acts pl' : chain (pos_of pl) acts (pos_of pl') -> p_rnd pl <= p_rnd pl'.
Proof. intros H. apply chain_le in H. pos_solve. Qed.

Lemma just_acts_mono pm D D' acts : sub D D' -> just_acts pm D acts -> just_acts pm D' acts.
Proof. intros S H. unfold just_acts in *. eapply Forall_impl; [|exact H]. intros a. apply just_act_mono. exact S. Qed.

Lemma run_J pm : params_pos pm -> forall es D st,
  RInv pm D (s_rt st) -> RJ pm D (s_rt st) -> per_small D -> 0 < p_rnd (s_pl st) -> 1 <= p_step (s_pl st) ->
  trace_ok3 pm st es ->
  just_acts pm (D ++ delivered es) (all_acts pm st es).
Proof.
  intros Hpp. induction es as [|e es IH]; intros D st IN H Hs R0 S1 T; unfold all_acts; cbn [run].
  - constructor.
  - destruct T as [EO T].
    set (D1 := D ++ ev_delivered e).
    assert (Hs1 : per_small D1) by (apply per_small_app; [exact Hs|exact (proj2 (proj2 (proj1 EO)))]).
    assert (SUB : sub D D1) by (intros x Hx; apply in_or_app; auto).
    assert (I1 : RInv pm D1 (s_rt st)) by (eapply RInv_mono; [exact SUB|exact IN]).
    assert (J1 : RJ pm D1 (s_rt st)) by (eapply RJ_mono; [exact SUB|exact H]).
    pose proof (step_J pm D1 st e Hpp Hs1 I1 J1 (fun x Hx => in_or_app _ _ _ (or_intror Hx)) EO R0 S1) as SP.
    destruct (step pm st e) as [[st1 acts1]| |] eqn:ES; try (cbn; constructor).
    cbn in SP. destruct SP as (A & B & C & Dj & E).
    pose proof (IH D1 st1 A B Hs1 (N.lt_le_trans _ _ _ R0 (chain_rnd _ _ _ C)) E T) as H2.
    unfold all_acts in H2. destruct (run pm st1 es) as [l o]. cbn in *.
    assert (EQ : D1 ++ delivered es = D ++ ev_delivered e ++ delivered es) by (unfold D1; rewrite <- app_assoc; reflexivity).
    unfold delivered in *. cbn [flat_map]. rewrite <- EQ.
    apply just_acts_app; [|exact H2]. eapply just_acts_mono; [|exact Dj]. intros x Hx. apply in_or_app. auto.
Qed.

(* value-consistency of the thresholds backed by the delivered votes (premise; from QI in C01) *)
Definition cons_sc (pm : params) (D : list vote) : Prop :=
  forall th th', good_thresh pm D th -> good_thresh pm D th' ->
    th_rnd th = th_rnd th' -> th_per th = th_per th' -> th_t th <> TNext -> th_t th' <> TNext -> th_val th = th_val th'.
Definition cons_next (pm : params) (D : list vote) : Prop :=
  forall th th', good_thresh pm D th -> good_thresh pm D th' ->
    th_rnd th = th_rnd th' -> th_per th = th_per th' -> th_t th = TNext -> th_t th' = TNext ->
    is_bottom (th_val th) = false -> is_bottom (th_val th') = false -> th_val th = th_val th'.

Lemma thresholds_consistent_next pm D : thresholds_consistent pm D -> cons_next pm D.
Proof. intros H th th' G G' R P _ _ B B'. apply H; auto. Qed.

Lemma cons_single_value pm D v0 :
  params_pos pm -> (forall x, In x D -> vt_val x = v0) -> cons_sc pm D /\ cons_next pm D.
Proof.
  intros Hpp S. split.
  - intros th th' G G' _ _ _ _.
    rewrite (good_thresh_single_value pm D th v0 Hpp S G), (good_thresh_single_value pm D th' v0 Hpp S G'). reflexivity.
  - intros th th' G G' _ _ _ _ _ _.
    rewrite (good_thresh_single_value pm D th v0 Hpp S G), (good_thresh_single_value pm D th' v0 Hpp S G'). reflexivity.
Qed.

(* ATTEST-ONCE, all step kinds *)
Theorem attest_once_all_proof : forall pm r0 es,
  params_pos pm -> 0 < r0 -> trace_ok3 pm (init pm r0) es ->
  cons_sc pm (delivered es) -> cons_next pm (delivered es) ->
  forall r p s v v',
    In (AAttest r p s v) (all_acts pm (init pm r0) es) ->
    In (AAttest r p s v') (all_acts pm (init pm r0) es) -> v = v'.
Proof.
  intros pm r0 es Hpp R0 T CS CN r p s v v' I1 I2.
  destruct (tracked s) eqn:ET.
  - eapply (attest_once_soft_next_proof pm r0 es Hpp (trace_ok3_ok2 pm es _ T)); eassumption.
  - pose proof (run_J pm Hpp es [] (init pm r0) (RInv_init pm [] r0)
                  (fun r rn (H : In (r, rn) []) => match H with end)
                  (fun x (H : In x []) => match H with end) R0 (N.le_refl 1) T) as J.
    cbn [app] in J. unfold just_acts in J. rewrite Forall_forall in J.
    pose proof (J _ I1) as J1. pose proof (J _ I2) as J2. cbn in J1, J2. rewrite ET in J1, J2.
    destruct (s =? s_cert).
    { destruct J1 as (th & G & A1 & A2 & A3 & A4). destruct J2 as (th' & G' & B1 & B2 & B3 & B4).
      rewrite <- A3, <- B3. apply CS; auto; congruence. }
    destruct (s =? s_late).
    { destruct J1 as (th & G & A1 & A2 & A3 & A4). destruct J2 as (th' & G' & B1 & B2 & B3 & B4).
      rewrite <- A3, <- B3. apply CS; auto; congruence. }
    destruct (s =? s_redo).
    { destruct J1 as [(th & G & A1 & A2 & A3 & A4) NB1]. destruct J2 as [(th' & G' & B1 & B2 & B3 & B4) NB2].
      rewrite <- A3, <- B3. apply CN; auto; congruence. }
    destruct (s =? s_down); [congruence|contradiction].
Qed.

(* ---------- reflection of the premises, non-vacuity ---------- *)
Definition ev_ok3_b (st : state) (e : ext_event) : bool :=
  ev_ok2_b st e && match e with EvTimeout false _ _ => p_step (s_pl st) + 1 <? s_late | _ => true end.
Fixpoint trace_ok3_b (pm : params) (st : state) (es : list ext_event) : bool :=
  match es with
  | [] => true
  | e :: es' =>
      ev_ok3_b st e &&
      match step pm st e with Ok (st', _) => trace_ok3_b pm st' es' | _ => true end
  end.

Lemma ev_ok3_b_sound st e : ev_ok3_b st e = true -> ev_ok3 st e.
Proof.
  unfold ev_ok3_b, ev_ok3. rewrite andb_true_iff. intros [A B]. split; [apply ev_ok2_b_sound; exact A|].
  destruct e as [m|[|] en bad|r|r p s err]; auto. apply N.ltb_lt. exact B.
Qed.

Lemma trace_ok3_b_sound pm : forall es st, trace_ok3_b pm st es = true -> trace_ok3 pm st es.
Proof.
  induction es as [|e es IH]; intros st H; cbn [trace_ok3 trace_ok3_b] in *; [exact Logic.I|].
  apply andb_true_iff in H. destruct H as [H1 H2]. split; [apply ev_ok3_b_sound; exact H1|].
  destruct (step pm st e) as [[st' acts]| |]; auto.
Qed.

(* a run that meets every premise (all delivered votes carry vx1) and attests soft, cert, late and next *)
Definition script_all : list ext_event :=
  [evote 1 5 0 0 vx1; EvMsg (mkME true (InPayload vx1) mx0 None); EvTimeout false 0 false;
   evote 2 5 0 1 vx1; EvTimeout true 0 false; EvTimeout true 0 false; EvTimeout false 0 false].

Lemma script_all_acts :
  filter (fun a => match a with AAttest _ _ _ _ => true | _ => false end) (all_acts pmx (init pmx 5) script_all)
  = [AAttest 5 0 1 vx1; AAttest 5 0 2 vx1; AAttest 5 0 253 vx1; AAttest 5 0 3 vx1].
Proof. vm_compute. reflexivity. Qed.

Lemma script_all_ok : trace_ok3 pmx (init pmx 5) script_all.
Proof. apply trace_ok3_b_sound. vm_compute. reflexivity. Qed.

Lemma script_all_cons : cons_sc pmx (delivered script_all) /\ cons_next pmx (delivered script_all).
Proof.
  apply (cons_single_value pmx _ vx1 pmx_pos). intros x Hx. cbn in Hx.
  destruct Hx as [<-|[<-|[]]]; reflexivity.
Qed.

Lemma attest_once_all_nonvacuous :
  params_pos pmx /\ 0 < 5 /\ trace_ok3 pmx (init pmx 5) script_all /\
  cons_sc pmx (delivered script_all) /\ cons_next pmx (delivered script_all) /\
  filter (fun a => match a with AAttest _ _ _ _ => true | _ => false end) (all_acts pmx (init pmx 5) script_all)
  = [AAttest 5 0 1 vx1; AAttest 5 0 2 vx1; AAttest 5 0 253 vx1; AAttest 5 0 3 vx1].
Proof.
  split; [exact pmx_pos|]. split; [reflexivity|]. split; [exact script_all_ok|].
  split; [exact (proj1 script_all_cons)|]. split; [exact (proj2 script_all_cons)|exact script_all_acts].
Qed.

(* the redo counterexample of PART 1 violates exactly [cons_next] *)
Lemma script_redo_not_cons_next : ~ cons_next pmx (delivered script_redo).
Proof.
  intros H.
  assert (E : vx1 = vx2).
  { apply (H (thx 3 1 vx1) (thx 253 2 vx2)); try reflexivity.
    - apply thx_good; [cbn; auto|reflexivity|reflexivity].
    - apply thx_good; [cbn; auto|reflexivity|reflexivity]. }
  discriminate E.
Qed.
