(* C36: the declarative per-probe checker of model/OneTimeSigSpec.v means the Prop-level
   statement, and the model satisfies it on every history. *)
From Coq Require Import NArith ZArith List Bool Lia ZifyN ZifyNat ZifyBool.
From Verif.model Require Import OneTimeSig OneTimeSigSpec.
From Verif.proofs Require Import OneTimeSigProofs.
Import ListNotations.
Open Scope N_scope.

Definition fwd_P (h : list (ident * N)) (id : ident) : Prop :=
  exists c K, In (c, K) h /\ id_lt id c /\ ibatch c + 1 < W.
Definition must_P (start n : N) (h : list (ident * N)) (id : ident) : Prop :=
  (start <= ibatch id /\ ibatch id < start + n) /\
  forall c K, In (c, K) h -> id_le c id /\ ioff id < K.

Lemma fwd_nowrap_P id h : fwd_nowrap id h = true <-> fwd_P h id.
Proof.
  unfold fwd_nowrap, fwd_P. rewrite existsb_exists. split.
  - intros ([c K] & Hin & H). cbn [fst] in H. apply andb_prop in H. destruct H as [H1 H2].
    exists c, K. rewrite <- id_ltb_lt. split; [exact Hin|]. split; [exact H1|]. apply N.ltb_lt. exact H2.
  - intros (c & K & Hin & H1 & H2). exists (c, K). split; [exact Hin|]. cbn [fst].
    apply andb_true_intro. split; [apply id_ltb_lt; exact H1|apply N.ltb_lt; exact H2].
Qed.

Lemma must_sign_P start n id h : must_sign start n id h = true <-> must_P start n h id.
Proof.
  unfold must_sign, must_P, in_range. rewrite andb_true_iff, andb_true_iff, forallb_forall.
  rewrite N.leb_le, N.ltb_lt. split.
  - intros [Hr H]. split; [exact Hr|]. intros c K Hin. specialize (H _ Hin). cbn [fst snd] in H.
    apply andb_prop in H. destruct H as [H1 H2]. rewrite <- id_leb_le. split; [exact H1|]. apply N.ltb_lt. exact H2.
  - intros [Hr H]. split; [exact Hr|]. intros [c K] Hin. destruct (H _ _ Hin) as [H1 H2]. cbn [fst snd].
    apply andb_true_intro. split; [apply id_leb_le; exact H1|apply N.ltb_lt; exact H2].
Qed.

(* the executable per-probe checker is the Prop-level property *)
Lemma probe_spec_sound start n h id vprev v :
  probe_spec start n h id vprev v = true <->
  (fwd_P h id -> v = false) /\ (must_P start n h id -> v = true) /\ (v = true -> vprev = true).
Proof.
  unfold probe_spec. rewrite <- fwd_nowrap_P, <- must_sign_P.
  destruct (fwd_nowrap id h), (must_sign start n id h), v, vprev; cbn; intuition congruence.
Qed.

Lemma dels_In c K ops : In (c, K) (dels ops) <-> In (Del c K) ops.
Proof.
  unfold dels. rewrite in_flat_map. split.
  - intros ([c' K'|] & Hin & H); cbn in H; [|tauto]. destruct H as [H|[]]. injection H as -> ->. exact Hin.
  - intros H. exists (Del c K). split; [exact H|]. left. reflexivity.
Qed.

Lemma valid_cond s id : Inv s -> wf_id id -> (valid s id = true <-> cond s id).
Proof. intros. unfold valid. apply verify_sign; assumption. Qed.

(* the model's validity bits satisfy the checker after every operation of every history *)
Lemma model_meets_spec start n ops o id :
  start < W -> start + n <= W -> Forall wf_op (ops ++ [o]) -> wf_id id ->
  probe_spec start n (dels (ops ++ [o])) id
             (valid (reach start n ops) id) (valid (reach start n (ops ++ [o])) id) = true.
Proof.
  intros H1 H2 Hw Hid. apply probe_spec_sound.
  pose proof (reach_inv start n _ H1 H2 Hw) as HI.
  assert (Hw0 : Forall wf_op ops) by (apply Forall_app in Hw; tauto).
  pose proof (reach_inv start n _ H1 H2 Hw0) as HI0.
  split; [|split].
  - intros (c & K & Hin & Hlt & Hnw). apply not_true_is_false. intros Hv.
    apply (valid_cond _ _ HI Hid) in Hv. apply (derivable_cond _ _ HI) in Hv.
    apply dels_In in Hin. apply in_split in Hin. destruct Hin as (pre & post & E).
    rewrite E in Hv, Hw. unfold reach in Hv. rewrite run_app in Hv. cbn [run fold_left] in Hv.
    apply Forall_app in Hw. destruct Hw as [Hwp Hwq]. inversion Hwq; subst.
    cbn [wf_op] in H3.
    exact (forward_secure start n pre c K post id H1 H2 Hwp (proj1 H3) Hnw Hlt Hv).
  - intros [[Hlo Hhi] Hall]. unfold valid. apply still_signs; try assumption.
    apply Forall_forall. intros [c K|] Hin; cbn [op_keeps]; [|exact I].
    apply Hall. apply dels_In. exact Hin.
  - intros Hv. apply (valid_cond _ _ HI Hid) in Hv. apply (derivable_cond _ _ HI) in Hv.
    unfold reach in Hv. rewrite run_app in Hv. cbn [run fold_left] in Hv.
    apply step_monotone in Hv. apply (valid_cond _ _ HI0 Hid). apply (derivable_cond _ _ HI0). exact Hv.
Qed.

Lemma model_meets_spec_init start n id :
  start < W -> start + n <= W -> wf_id id ->
  probe_spec start n [] id true (valid (generate start n) id) = true.
Proof.
  intros H1 H2 Hid. apply probe_spec_sound. split; [|split]; [|
    |reflexivity].
  - intros (c & K & [] & _).
  - intros [[Hlo Hhi] _]. unfold valid.
    exact (still_signs start n [] id msgA H1 H2 (Forall_nil _) Hid (Forall_nil _) Hlo Hhi).
Qed.

(* on reachable states the model's probe code is 1 (valid, bound to id and message) or 0
   (empty signature): never 2, 3, 4 or a panic *)
Lemma probe_code s id : Inv s -> wf_id id -> probe s id = if valid s id then 1 else 0.
Proof.
  intros HI Hid. unfold probe, valid. destruct (cond_dec s id) as [Hc|Hc].
  - destruct (sign_cond _ _ msgA HI Hid Hc) as (p & -> & ->). cbn [verify ibatch ioff].
    rewrite !N.eqb_refl. cbn [andb].
    assert (E1 : (ibatch id =? wadd (ibatch id) 1) = false).
    { apply N.eqb_neq. destruct Hid as [Hb _].
      destruct (wadd_top _ Hb) as [H|[H0 H]]; [rewrite (wadd_small _ _ H)|rewrite H; unfold W in *]; lia. }
    assert (E2 : (ioff id =? wadd (ioff id) 1) = false).
    { apply N.eqb_neq. destruct Hid as [_ Ho].
      destruct (wadd_top _ Ho) as [H|[H0 H]]; [rewrite (wadd_small _ _ H)|rewrite H; unfold W in *]; lia. }
    rewrite E1, E2. reflexivity.
  - rewrite (sign_not_cond _ _ msgA HI Hid Hc). reflexivity.
Qed.

Lemma model_meets_spec_full start n ops o id :
  start < W -> start + n <= W -> Forall wf_op (ops ++ [o]) -> wf_id id ->
  probe_spec start n (dels (ops ++ [o])) id
             (valid (reach start n ops) id) (valid (reach start n (ops ++ [o])) id) = true
  /\ probe (reach start n (ops ++ [o])) id = (if valid (reach start n (ops ++ [o])) id then 1 else 0).
Proof.
  intros H1 H2 Hw Hid. split.
  - apply model_meets_spec; assumption.
  - apply probe_code; [apply reach_inv|]; assumption.
Qed.
