(* C22 proofs, part 3: the holder rules, for one transaction applied to any reachable world. *)
From Coq Require Import NArith PeanoNat List Bool Lia ZifyN ZifyNat ZifyBool.
From Verif.model Require Import Overflow AssocList AssetOps AssetOpsSpec.
From Verif.proofs Require Import OverflowProofs AssocListProofs AssetOpsProofs AssetOpsInv.
Import ListNotations.
Open Scope N_scope.

(* ------------------------------------------------------------------ supply *)
Lemma supply_invariant_inv w : Inv w ->
  forall a, (forall p, params_of w a = Some p -> supply w a = p_total p) /\
            (creator_of w a = None -> supply w a = 0).
Proof.
  intros I a. split.
  - unfold params_of. destruct (creator_of w a) as [c|] eqn:Ec; [|discriminate].
    intros p Hp. destruct (i_cp w I a c Ec) as (p' & Hp' & _ & Hs & _). congruence.
  - apply I.
Qed.

(* after a destroy nobody holds anything of the asset; while it exists every holding is
   bounded by the total *)
Lemma holdings_bounded_inv w : Inv w -> forall x a,
  match params_of w a with
  | Some p => amount_of w x a <= p_total p
  | None => amount_of w x a = 0
  end.
Proof.
  intros I x a. pose proof (amt_in_le_sup (w_hold w) x a) as L. rewrite <- supply_sup in L.
  rewrite amount_of_amt_in. unfold params_of. destruct (creator_of w a) as [c|] eqn:Ec.
  - destruct (i_cp w I a c Ec) as (p' & Hp' & _ & Hs & _). rewrite Hp'. lia.
  - rewrite (i_ns w I a Ec) in L. lia.
Qed.

(* creatable bookkeeping: the creator index and the parameters agree *)
Lemma creatable_consistent_inv w : Inv w -> forall a c,
  creator_of w a = Some c <-> exists p, pget (c, a) (w_par w) = Some p.
Proof.
  intros I a c. split.
  - intros E. destruct (i_cp w I a c E) as (p & Hp & _). eauto.
  - intros [p Hp]. eapply i_pc; eauto.
Qed.

(* ------------------------------------------------------------------ amounts after a transfer *)
Lemma xfer_amounts_ok sender asset amount receiver asender closeto w w' v :
  Inv w -> xfer_rel sender asset amount receiver asender closeto w w' v ->
  let source := if asender =? 0 then sender else asender in
  amount <= amt_in (w_hold w) (source, asset) /\
  v = xfer_closing (amt_in (w_hold w)) source asset amount receiver closeto /\
  forall k, amt_in (w_hold w') k = xfer_amounts (amt_in (w_hold w)) source asset amount receiver closeto k.
Proof.
  intros I [source claw w1 w2 w3 Hsrc Hop Htk Hpi Hcl].
  assert ((if asender =? 0 then sender else asender) = source) as ->.
  { destruct Hsrc as [(-> & -> & _)|(Hn & -> & _)]; [reflexivity|].
    apply N.eqb_neq in Hn. rewrite Hn. reflexivity. }
  cbn zeta.
  destruct (optin_hstep_weak _ _ _ _ _ _ _ Hop) as (_ & N1 & _ & A1 & _ & _ & _).
  destruct (tk_amt _ _ _ _ _ _ Htk) as [Hle A2]. pose proof (pi_amt _ _ _ _ _ _ Hpi) as A3.
  pose proof (tk_hstep _ _ _ _ _ _ Htk) as [_ N2 _ _].
  pose proof (pi_hstep _ _ _ _ _ _ Hpi) as [_ N3 _ _].
  rewrite A1 in Hle. split; [exact Hle|].
  assert (forall k, amt_in (w_hold w3) k =
    pupd (pupd (amt_in (w_hold w)) (source, asset) (amt_in (w_hold w) (source, asset) - amount))
         (receiver, asset)
         (pupd (amt_in (w_hold w)) (source, asset) (amt_in (w_hold w) (source, asset) - amount) (receiver, asset) + amount) k) as Hmain.
  { intros k. rewrite A3. unfold pupd at 1. destruct (pair_eqb k (receiver, asset)).
    - rewrite A2. unfold pupd. destruct (pair_eqb (receiver, asset) (source, asset)); rewrite !A1; reflexivity.
    - rewrite A2. unfold pupd. destruct (pair_eqb k (source, asset)); rewrite !A1; reflexivity. }
  unfold xfer_closing, xfer_amounts.
  destruct Hcl as [(-> & -> & ->)|(Hct & _ & _ & sh & w5 & w6 & Esh & -> & Htk2 & Hpi2 & Hz & _ & Hw')].
  - cbn. split; [reflexivity|]. exact Hmain.
  - cbn zeta in *. apply N.eqb_neq in Hct. rewrite Hct.
    assert (h_amt sh = amt_in (w_hold w3) (source, asset)) as Hv.
    { unfold amt_in. rewrite Esh. reflexivity. }
    split; [rewrite Hv; apply Hmain|].
    destruct (tk_amt _ _ _ _ _ _ Htk2) as [_ B1]. pose proof (pi_amt _ _ _ _ _ _ Hpi2) as B2.
    pose proof (tk_hstep _ _ _ _ _ _ Htk2) as [_ N5 _ _].
    pose proof (pi_hstep _ _ _ _ _ _ Hpi2) as [_ N6 _ _].
    pose proof (N6 (N5 (N3 (N2 (N1 (i_ndh w I)))))) as Nd6.
    intros k. rewrite Hw', amt_in_hdel by exact Nd6.
    set (A := pupd _ (receiver, asset) _) in *.
    assert (forall k, amt_in (w_hold w6) k =
              pupd (pupd A (source, asset) 0) (closeto, asset)
                   (pupd A (source, asset) 0 (closeto, asset) + A (source, asset)) k) as H6.
    { intros k0. rewrite B2, !B1. unfold pupd. rewrite <- !Hmain, <- Hv.
      destruct (pair_eqb k0 (closeto, asset)); destruct (pair_eqb (closeto, asset) (source, asset));
        destruct (pair_eqb k0 (source, asset)); lia. }
    destruct (pair_eqb k (source, asset)) eqn:Ek.
    + apply pair_eqb_eq in Ek. subst k. rewrite <- H6. symmetry. exact Hz.
    + rewrite H6. reflexivity.
Qed.

(* ------------------------------------------------------------------ frozen holdings *)
(* a non-clawback transfer that does not close out to the asset's creator leaves every
   frozen holding untouched (same record, or an empty frozen holding closed by its owner) *)
Lemma frozen_untouched sender asset amount receiver asender closeto w w' v :
  Inv w -> xfer_rel sender asset amount receiver asender closeto w w' v ->
  asender = 0 ->
  (closeto = 0 \/ pget (closeto, asset) (w_par w) = None) ->
  forall k h, hget k (w_hold w) = Some h -> h_frozen h = true ->
    amt_in (w_hold w') k = h_amt h.
Proof.
  intros I [source claw w1 w2 w3 Hsrc Hop Htk Hpi Hcl] Has Hnc k h Ek Hf.
  destruct Hsrc as [(_ & -> & ->)|(Hn & _)]; [|contradiction].
  destruct (optin_hstep_weak _ _ _ _ _ _ _ Hop) as ((Fp1 & _) & N1 & _ & _ & _ & _ & K1).
  pose proof (K1 _ _ Ek) as E1. pose proof (tk_frozen _ _ _ _ _ Htk _ _ E1 Hf) as E2.
  pose proof (pi_frozen _ _ _ _ _ Hpi _ _ E2 Hf) as E3.
  pose proof (tk_hstep _ _ _ _ _ _ Htk) as [(Fp2 & _) N2 _ _].
  pose proof (pi_hstep _ _ _ _ _ _ Hpi) as [(Fp3 & _) N3 _ _].
  destruct Hcl as [(_ & -> & _)|(Hct & _ & _ & sh & w5 & w6 & Esh & _ & Htk2 & Hpi2 & Hz & _ & Hw')].
  - unfold amt_in. rewrite E3. reflexivity.
  - cbn zeta in *. destruct Hnc as [Hnc|Hnc]; [contradiction|].
    assert (ahas pair_eqb (closeto, asset) (w_par w3) = false) as Hby.
    { apply (ahas_false pair_eqb). rewrite Fp3, Fp2, Fp1. exact Hnc. }
    rewrite Hby in *.
    pose proof (tk_frozen _ _ _ _ _ Htk2 _ _ E3 Hf) as E5.
    pose proof (pi_frozen _ _ _ _ _ Hpi2 _ _ E5 Hf) as E6.
    pose proof (tk_hstep _ _ _ _ _ _ Htk2) as [_ N5 _ _].
    pose proof (pi_hstep _ _ _ _ _ _ Hpi2) as [_ N6 _ _].
    pose proof (N6 (N5 (N3 (N2 (N1 (i_ndh w I)))))) as Nd6.
    rewrite Hw', amt_in_hdel by exact Nd6. destruct (pair_eqb k (sender, asset)) eqn:Ekk.
    + apply pair_eqb_eq in Ekk. subst k. unfold amt_in in Hz. rewrite E6 in Hz. auto.
    + unfold amt_in. rewrite E6. reflexivity.
Qed.

(* closing out to the creator: only the two holdings named by the close-out can differ
   among the frozen ones *)
Lemma frozen_close_to_creator sender asset amount receiver closeto w w' v :
  Inv w -> xfer_rel sender asset amount receiver 0 closeto w w' v ->
  forall x a h, hget (x, a) (w_hold w) = Some h -> h_frozen h = true ->
    amt_in (w_hold w') (x, a) <> h_amt h ->
    closeto <> 0 /\ creator_of w asset = Some closeto /\ a = asset /\ (x = sender \/ x = closeto).
Proof.
  intros I X x a h Ek Hf Hne.
  destruct (N.eq_dec closeto 0) as [Hc0|Hc0].
  { exfalso. apply Hne. eapply frozen_untouched; eauto. }
  destruct (pget (closeto, asset) (w_par w)) as [p|] eqn:Ep.
  2:{ exfalso. apply Hne. eapply frozen_untouched; eauto. }
  split; [exact Hc0|]. split; [eapply i_pc; eauto|].
  destruct X as [source claw w1 w2 w3 Hsrc Hop Htk Hpi Hcl].
  destruct Hsrc as [(_ & -> & ->)|(Hn & _)]; [|contradiction].
  destruct (optin_hstep_weak _ _ _ _ _ _ _ Hop) as (_ & N1 & _ & _ & _ & _ & K1).
  pose proof (K1 _ _ Ek) as E1. pose proof (tk_frozen _ _ _ _ _ Htk _ _ E1 Hf) as E2.
  pose proof (pi_frozen _ _ _ _ _ Hpi _ _ E2 Hf) as E3.
  pose proof (tk_hstep _ _ _ _ _ _ Htk) as [_ N2 _ _].
  pose proof (pi_hstep _ _ _ _ _ _ Hpi) as [_ N3 _ _].
  destruct Hcl as [(Hc & _)|(Hct & _ & _ & sh & w5 & w6 & Esh & _ & Htk2 & Hpi2 & Hz & _ & Hw')]; [contradiction|].
  cbn zeta in *.
  pose proof (tk_hstep _ _ _ _ _ _ Htk2) as [_ N5 _ _].
  pose proof (pi_hstep _ _ _ _ _ _ Hpi2) as [_ N6 _ _].
  pose proof (N6 (N5 (N3 (N2 (N1 (i_ndh w I)))))) as Nd6.
  destruct (pair_eqb (x, a) (sender, asset)) eqn:E1'.
  { apply pair_eqb_eq in E1'. inversion E1'; subst. auto. }
  destruct (pair_eqb (x, a) (closeto, asset)) eqn:E2'.
  { apply pair_eqb_eq in E2'. inversion E2'; subst. auto. }
  exfalso. apply Hne. rewrite Hw', amt_in_hdel by exact Nd6. rewrite E1'.
  apply pair_eqb_false in E1', E2'. unfold amt_in.
  rewrite (pi_other _ _ _ _ _ _ Hpi2 _ E2'), (tk_other _ _ _ _ _ _ Htk2 _ E1'), E3. reflexivity.
Qed.

(* ------------------------------------------------------------------ opt-in *)
Lemma both_opted_in_rel sender asset amount receiver asender closeto w w' v :
  xfer_rel sender asset amount receiver asender closeto w w' v ->
  let source := if asender =? 0 then sender else asender in
  (amount <> 0 -> hget (source, asset) (w_hold w) <> None /\ hget (receiver, asset) (w_hold w) <> None) /\
  (closeto <> 0 -> v <> 0 -> hget (closeto, asset) (w_hold w) <> None).
Proof.
  intros [source claw w1 w2 w3 Hsrc Hop Htk Hpi Hcl].
  assert ((if asender =? 0 then sender else asender) = source) as ->.
  { destruct Hsrc as [(-> & -> & _)|(Hn & -> & _)]; [reflexivity|].
    apply N.eqb_neq in Hn. rewrite Hn. reflexivity. }
  cbn zeta.
  pose proof (tk_hstep _ _ _ _ _ _ Htk) as [_ _ _ K2'].
  pose proof (pi_hstep _ _ _ _ _ _ Hpi) as [_ _ _ K3'].
  split.
  - intros Hnz.
    assert (w_hold w1 = w_hold w) as H1.
    { destruct Hop as [_ [H|(Hz & _)]]; [exact H|contradiction]. }
    rewrite <- H1. split.
    + destruct Htk as [_ [[Hz _]|(_ & h & E & _)]]; [contradiction|]. rewrite E. discriminate.
    + apply K2'. destruct Hpi as [_ [[Hz _]|(_ & h & E & _)]]; [contradiction|]. rewrite E. discriminate.
  - intros Hct Hv.
    destruct Hcl as [(Hc & _)|(_ & _ & _ & sh & w5 & w6 & Esh & -> & Htk2 & Hpi2 & Hz & _ & Hw')]; [contradiction|].
    cbn zeta in *. pose proof (tk_hstep _ _ _ _ _ _ Htk2) as [_ _ _ K5'].
    assert (hget (closeto, asset) (w_hold w5) <> None) as H5.
    { destruct Hpi2 as [_ [[Hz' _]|(_ & h & E & _)]]; [contradiction|]. rewrite E. discriminate. }
    apply K5', K3', K2' in H5.
    destruct Hop as [_ [H|(_ & _ & _ & Hn & p & c & _ & _ & H)]]; rewrite H in H5; [exact H5|].
    rewrite hget_hset in H5. destruct (pair_eqb (closeto, asset) (source, asset)) eqn:E; [|exact H5].
    (* closing out into the slot that this very transaction allocated: then v = 0 *)
    exfalso. apply pair_eqb_eq in E. inversion E; subst closeto.
    (* source = closeto: takeOut all, putIn all back, then the amount must be 0 *)
    destruct (tk_amt _ _ _ _ _ _ Htk2) as [_ B1]. pose proof (pi_amt _ _ _ _ _ _ Hpi2) as B2.
    rewrite B2, pair_eqb_refl, B1, pair_eqb_refl in Hz. unfold amt_in in Hz at 1. rewrite Esh in Hz. lia.
Qed.

(* ------------------------------------------------------------------ close-out *)
Lemma close_out_rel sender asset amount receiver asender closeto w w' v :
  Inv w -> xfer_rel sender asset amount receiver asender closeto w w' v -> closeto <> 0 ->
  asender = 0 /\ creator_of w asset <> Some sender /\ hget (sender, asset) (w_hold w') = None.
Proof.
  intros I [source claw w1 w2 w3 Hsrc Hop Htk Hpi Hcl] Hct.
  destruct Hcl as [(Hc & _)|(_ & -> & Hnp & sh & w5 & w6 & Esh & -> & Htk2 & Hpi2 & Hz & _ & Hw')]; [contradiction|].
  destruct Hsrc as [(-> & -> & _)|(_ & _ & Hf & _)]; [|discriminate].
  split; [reflexivity|].
  destruct (optin_hstep_weak _ _ _ _ _ _ _ Hop) as ((Fp1 & _) & N1 & _).
  pose proof (tk_hstep _ _ _ _ _ _ Htk) as [(Fp2 & _) N2 _ _].
  pose proof (pi_hstep _ _ _ _ _ _ Hpi) as [(Fp3 & _) N3 _ _].
  cbn zeta in *.
  pose proof (tk_hstep _ _ _ _ _ _ Htk2) as [_ N5 _ _].
  pose proof (pi_hstep _ _ _ _ _ _ Hpi2) as [_ N6 _ _].
  split.
  - intros Ec. destruct (i_cp w I asset sender Ec) as (p & Hp & _).
    rewrite Fp3, Fp2, Fp1 in Hnp. congruence.
  - rewrite Hw'. apply aget_adel_eq; [exact pair_eqb_eq|].
    exact (N6 (N5 (N3 (N2 (N1 (i_ndh w I)))))).
Qed.

(* ------------------------------------------------------------------ destroy *)
Lemma destroy_full_holding sender asset w w' :
  Inv w -> destroy_rel sender asset w w' ->
  exists c p, creator_of w asset = Some c /\ params_of w asset = Some p /\
    p_manager p = sender /\ sender <> 0 /\
    amount_of w c asset = p_total p /\
    (forall x, x <> c -> amount_of w x asset = 0) /\
    creator_of w' asset = None /\ params_of w' asset = None.
Proof.
  intros I (p & c & Hc & Hp & Hm & Hs & Ha & Hn & Hh & Hpp & Hcc).
  exists c, p. unfold params_of. rewrite Hc. repeat split; auto.
  - intros x Hx. rewrite amount_of_amt_in.
    destruct (i_cp w I asset c Hc) as (p0 & Hp0 & _ & Hsup & Hx0). rewrite Hp in Hp0. inversion Hp0; subst p0.
    pose proof (sup_hdel (w_hold w) c asset asset) as D. rewrite N.eqb_refl in D.
    rewrite <- supply_sup in D.
    assert (sup (hdel (c, asset) (w_hold w)) asset = 0) as Z by lia.
    pose proof (amt_in_le_sup (hdel (c, asset) (w_hold w)) x asset) as L.
    unfold amt_in in L at 1. rewrite hget_hdel in L by apply I.
    assert (pair_eqb (x, asset) (c, asset) = false) as E.
    { apply pair_eqb_false. intros [= E]. contradiction. }
    rewrite E in L. fold (amt_in (w_hold w) (x, asset)) in L. lia.
  - unfold creator_of. rewrite Hcc. apply aget_adel_eq; [exact Neqb_eq|apply I].
  - assert (creator_of w' asset = None) as ->; [|reflexivity].
    unfold creator_of. rewrite Hcc. apply aget_adel_eq; [exact Neqb_eq|apply I].
Qed.
