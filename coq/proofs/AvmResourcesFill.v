(* C35 proofs, part 1: what computeAvailability / the creation block put into cx.available, stated
   against the declarative [names_*] relations of AvmResourcesSpec. *)
From Coq Require Import List NArith Bool Lia ZifyN ZifyNat ZifyBool.
From Verif.lib Require Import Term.
From Verif.model Require Import AvmResources AvmResourcesSpec.
Import ListNotations.
Open Scope N_scope.

(* ---------------------------------------------------------------- reflection of the membership tests *)
Lemma list_eqb_N_eq : forall a b : list N, list_eqb N.eqb a b = true <-> a = b.
Proof.
  induction a as [|x a IH]; destruct b as [|y b]; simpl; split; intro H; try congruence; try discriminate.
  - apply andb_true_iff in H. destruct H as [H1 H2]. apply N.eqb_eq in H1. apply IH in H2. congruence.
  - inversion H; subst. apply andb_true_iff. split. apply N.eqb_refl. apply IH. reflexivity.
Qed.

Lemma bytes_eqb_eq : forall a b, bytes_eqb a b = true <-> a = b.
Proof. exact list_eqb_N_eq. Qed.

Lemma memN_In : forall x l, memN x l = true <-> In x l.
Proof.
  intros x l. unfold memN. rewrite existsb_exists. split.
  - intros [y [Hy E]]. apply N.eqb_eq in E. subst. exact Hy.
  - intro H. exists x. split. exact H. apply N.eqb_refl.
Qed.

Lemma memP_In : forall p l, memP p l = true <-> In p l.
Proof.
  intros [a b] l. unfold memP. rewrite existsb_exists. split.
  - intros [[c d] [Hy E]]. unfold pair_eqb in E. simpl in E. apply andb_true_iff in E. destruct E as [E1 E2].
    apply N.eqb_eq in E1. apply N.eqb_eq in E2. subst. exact Hy.
  - intro H. exists (a, b). split. exact H. unfold pair_eqb. simpl. rewrite !N.eqb_refl. reflexivity.
Qed.

Lemma box_eqb_eq : forall p q, box_eqb p q = true <-> p = q.
Proof.
  intros [a b] [c d]. unfold box_eqb. simpl. rewrite andb_true_iff, N.eqb_eq, bytes_eqb_eq. split.
  - intros [-> ->]. reflexivity.
  - intro H. inversion H. auto.
Qed.

Lemma memB_In : forall p l, memB p l = true <-> In p l.
Proof.
  intros p l. unfold memB. rewrite existsb_exists. split.
  - intros [q [Hq E]]. apply box_eqb_eq in E. subst. exact Hq.
  - intro H. exists p. split. exact H. apply box_eqb_eq. reflexivity.
Qed.

Lemma existsb_eq_In : forall (f : N -> N) a l, existsb (fun id => a =? f id) l = true <-> exists id, In id l /\ a = f id.
Proof.
  intros. rewrite existsb_exists. split; intros [id [H E]]; exists id; split; auto.
  - apply N.eqb_eq. exact E.
  - apply N.eqb_eq. exact E.
Qed.

Lemma existsb_eq_In' : forall (f : N -> N) a l, existsb (fun id => f id =? a) l = true <-> exists id, In id l /\ a = f id.
Proof.
  intros. rewrite existsb_exists. split; intros [id [H E]]; exists id; split; auto.
  - apply N.eqb_eq in E. auto.
  - apply N.eqb_eq. auto.
Qed.

Lemma nz_In : forall a x, In x (nz a) <-> a <> 0 /\ x = a.
Proof.
  intros a x. unfold nz. destruct (N.eqb_spec a 0); simpl; split; intro H.
  - contradiction.
  - destruct H; contradiction.
  - destruct H as [H|[]]. split; auto.
  - left. destruct H; auto.
Qed.

Lemma nth1_In : forall {A} (l : list A) i x, nth1 l i = Some x -> In x l.
Proof. intros A l i x. unfold nth1. destruct (i =? 0). discriminate. apply nth_error_In. Qed.

(* ---------------------------------------------------------------- generic fold lemma *)
Lemma fold_left_In_gen : forall {A B X} (step : A -> B -> A) (proj : A -> list X) (contrib : B -> list X),
  (forall a b x, In x (proj (step a b)) <-> In x (contrib b) \/ In x (proj a)) ->
  forall l a x, In x (proj (fold_left step l a)) <-> (exists b, In b l /\ In x (contrib b)) \/ In x (proj a).
Proof.
  intros A B X step proj contrib Hstep. induction l as [|b l IH]; intros a x; simpl.
  - split. auto. intros [[b [[] _]]|H]; exact H.
  - rewrite IH, Hstep. split.
    + intros [[b' [H1 H2]]|[H|H]].
      * left. exists b'. auto.
      * left. exists b. auto.
      * right. exact H.
    + intros [[b' [[E|H1] H2]]|H].
      * subst. right. left. exact H2.
      * left. exists b'. auto.
      * right. right. exact H.
Qed.

Lemma fold_left_same : forall {A B X} (step : A -> B -> A) (proj : A -> X),
  (forall a b, proj (step a b) = proj a) -> forall l a, proj (fold_left step l a) = proj a.
Proof. intros A B X step proj H. induction l; intro a0; simpl; auto. rewrite IHl. apply H. Qed.

Section Fill.
Variable appaddr : N -> addr.

Notation fill := (fill appaddr).
Notation compute_availability := (compute_availability appaddr).
Notation names_acct := (names_acct appaddr).
Notation names_hold := (names_hold appaddr).
Notation names_loc := (names_loc appaddr).
Notation foreign_account := (foreign_account appaddr).

(* ---------------------------------------------------------------- tx.Access elements *)
Definition acc_accts (rr : rref) : list addr := match rr with RAddr a => nz a | _ => [] end.
Definition acc_asas (rr : rref) : list N := match rr with RAsset a => nz a | _ => [] end.
Definition acc_apps (rr : rref) : list N := match rr with RApp a => nz a | _ => [] end.
Definition acc_holds (l : list rref) (s : addr) (rr : rref) : list (addr * N) :=
  match rr with RHold ai si => match resolve_hold l s ai si with Some h => [h] | None => [] end | _ => [] end.
Definition acc_locals (l : list rref) (s : addr) (cur : N) (rr : rref) : list (addr * N) :=
  match rr with
  | RLoc ai pi => if (ai =? 0) && (pi =? 0) then []
                  else match resolve_loc l s cur ai pi with Some h => [h] | None => [] end
  | _ => []
  end.
Definition acc_boxes (l : list rref) (cur : N) (rr : rref) : list (N * bytes) :=
  match rr with
  | RBox idx name => if (idx =? 0) && (match name with [] => true | _ => false end) then []
                     else match resolve_box l idx with Some app => box_contrib app name cur | None => [] end
  | _ => []
  end.

Lemma resolve_hold_00 : forall l s, resolve_hold l s 0 0 = None /\ (forall ai, resolve_hold l s ai 0 = None).
Proof.
  intros. split.
  - unfold resolve_hold, nth1. simpl. reflexivity.
  - intro ai. unfold resolve_hold. destruct (ai =? 0).
    + unfold nth1. simpl. reflexivity.
    + destruct (nth1 l ai) as [r|]; [destruct (rr_address r =? 0)|]; unfold nth1; simpl; reflexivity.
Qed.

Ltac elem_cases rr :=
  destruct rr as [a|a|a|ai si|ai pi|idx name|]; simpl;
  repeat match goal with
         | |- context [if ?c then _ else _] => destruct c eqn:?
         | |- context [match ?o with Some _ => _ | None => _ end] => destruct o eqn:?
         end; simpl.

Lemma access_elem_accts : forall s ap r rr x,
  In x (sh_accts (fill_access_elem s ap r rr)) <-> In x (acc_accts rr) \/ In x (sh_accts r).
Proof.
  intros. unfold fill_access_elem, acc_accts, nz. elem_cases rr; tauto.
Qed.
Lemma access_elem_asas : forall s ap r rr x,
  In x (sh_asas (fill_access_elem s ap r rr)) <-> In x (acc_asas rr) \/ In x (sh_asas r).
Proof.
  intros. unfold fill_access_elem, acc_asas, nz. elem_cases rr; tauto.
Qed.
Lemma access_elem_apps : forall s ap r rr x,
  In x (sh_apps (fill_access_elem s ap r rr)) <-> In x (acc_apps rr) \/ In x (sh_apps r).
Proof.
  intros. unfold fill_access_elem, acc_apps, nz. elem_cases rr; tauto.
Qed.
Lemma access_elem_holds : forall s ap r rr x,
  In x (sh_holds (fill_access_elem s ap r rr)) <-> In x (acc_holds (access_of ap) s rr) \/ In x (sh_holds r).
Proof.
  intros. unfold fill_access_elem, acc_holds.
  destruct rr as [a|a|a|ai si|ai pi|idx name|]; simpl;
    try (repeat match goal with |- context [if ?c then _ else _] => destruct c eqn:? end; simpl; tauto);
    try (repeat match goal with
                | |- context [if ?c then _ else _] => destruct c eqn:?
                | |- context [match ?o with Some _ => _ | None => _ end] => destruct o eqn:?
                end; simpl; tauto).
  destruct ((ai =? 0) && (si =? 0)) eqn:E.
  - apply andb_true_iff in E. destruct E as [E1 E2]. apply N.eqb_eq in E1. apply N.eqb_eq in E2. subst.
    destruct (resolve_hold_00 (access_of ap) s) as [H _]. rewrite H. simpl. tauto.
  - destruct (resolve_hold (access_of ap) s ai si); simpl; tauto.
Qed.
Lemma access_elem_locals : forall s ap r rr x,
  In x (sh_locals (fill_access_elem s ap r rr)) <-> In x (acc_locals (access_of ap) s (ap_id ap) rr) \/ In x (sh_locals r).
Proof.
  intros. unfold fill_access_elem, acc_locals. elem_cases rr; tauto.
Qed.
Lemma access_elem_boxes : forall s ap r rr x,
  In x (bx_avail (fill_access_elem s ap r rr)) <-> In x (acc_boxes (access_of ap) (ap_id ap) rr) \/ In x (bx_avail r).
Proof.
  intros. unfold fill_access_elem, acc_boxes. elem_cases rr; rewrite ?in_app_iff; tauto.
Qed.
Lemma access_elem_cr : forall s ap r rr,
  cr_asas (fill_access_elem s ap r rr) = cr_asas r /\ cr_apps (fill_access_elem s ap r rr) = cr_apps r.
Proof. intros. unfold fill_access_elem. elem_cases rr; auto. Qed.

(* ---------------------------------------------------------------- tx.Boxes elements *)
Definition fbox_boxes (ap : appl) (br : N * bytes) : list (N * bytes) :=
  if 0 <? fst br then
    match nth1 (ap_fapps ap) (fst br) with
    | None => []
    | Some app => box_contrib app (snd br) (ap_id ap)
    end
  else box_contrib 0 (snd br) (ap_id ap).

Lemma box_elem_boxes : forall ap r br x,
  In x (bx_avail (fill_box_elem ap r br)) <-> In x (fbox_boxes ap br) \/ In x (bx_avail r).
Proof.
  intros ap r [idx name] x. unfold fill_box_elem, fbox_boxes. simpl.
  destruct ((idx =? 0) && match name with [] => true | _ => false end); simpl;
    destruct (0 <? idx); simpl; try destruct (nth1 (ap_fapps ap) idx); simpl; rewrite ?in_app_iff; tauto.
Qed.
Lemma box_elem_other : forall ap r br,
  sh_accts (fill_box_elem ap r br) = sh_accts r /\ sh_asas (fill_box_elem ap r br) = sh_asas r /\
  sh_apps (fill_box_elem ap r br) = sh_apps r /\ sh_holds (fill_box_elem ap r br) = sh_holds r /\
  sh_locals (fill_box_elem ap r br) = sh_locals r /\ cr_asas (fill_box_elem ap r br) = cr_asas r /\
  cr_apps (fill_box_elem ap r br) = cr_apps r.
Proof.
  intros ap r [idx name]. unfold fill_box_elem.
  destruct ((idx =? 0) && match name with [] => true | _ => false end); simpl;
    destruct (0 <? idx); simpl; try destruct (nth1 (ap_fapps ap) idx); simpl; repeat split; reflexivity.
Qed.

(* ---------------------------------------------------------------- contributions vs. the declarative relations *)
Lemma tx_accounts_In : forall s ap a, In a (tx_accounts appaddr s ap) <-> foreign_account s ap a.
Proof.
  intros. unfold tx_accounts, AvmResourcesSpec.foreign_account. simpl. rewrite !in_app_iff, in_map_iff.
  split.
  - intros [H|[H|[H|[f [E H]]]]]; auto.
    + destruct (N.eqb_spec (ap_id ap) 0); simpl in H. contradiction. destruct H as [H|[]]. right. right. left. split; auto.
    + right. right. right. exists f. auto.
  - intros [H|[H|[[H1 H2]|[f [H1 H2]]]]]; auto.
    + right. right. left. destruct (N.eqb_spec (ap_id ap) 0). contradiction. simpl. auto.
    + right. right. right. exists f. auto.
Qed.

Lemma tx_apps_In : forall ap p, In p (tx_apps ap) <-> foreign_app ap p.
Proof.
  intros. unfold tx_apps, foreign_app. rewrite in_app_iff. destruct (N.eqb_spec (ap_id ap) 0); simpl; split.
  - intros [[]|H]. auto.
  - intros [[H _]|H]. contradiction. auto.
  - intros [[H|[]]|H]; auto.
  - intros [[_ H]|H]; auto.
Qed.

Lemma acct_hold_contrib_In : forall a id x, In x (acct_hold_contrib a id) <-> id <> 0 /\ x = (a, id).
Proof.
  intros. unfold acct_hold_contrib. destruct (N.eqb_spec id 0); simpl; split; intro H.
  - contradiction.
  - destruct H; contradiction.
  - destruct H as [H|[]]. auto.
  - destruct H. auto.
Qed.

(* ---------------------------------------------------------------- resources.fill, field by field *)
Lemma fill_access_accts : forall s ap r x,
  In x (sh_accts (fill_access s ap r)) <-> (x = s \/ (x <> 0 /\ In (RAddr x) (access_of ap))) \/ In x (sh_accts r).
Proof.
  intros. unfold fill_access.
  rewrite (fold_left_In_gen (fill_access_elem s ap) sh_accts acc_accts (access_elem_accts s ap)).
  assert (Hbase : forall y, In y (sh_accts (if ap_id ap =? 0 then add_accts [s] r
            else add_locals [(s, ap_id ap)] (add_apps [ap_id ap] (add_accts [s] r)))) <-> y = s \/ In y (sh_accts r)).
  { intro y. destruct (ap_id ap =? 0); simpl; intuition. }
  rewrite Hbase. split.
  - intros [[rr [H1 H2]]|[H|H]]; auto.
    destruct rr; simpl in H2; try contradiction. apply nz_In in H2. destruct H2; subst. left. right. auto.
  - intros [[H|[H1 H2]]|H]; auto.
    left. exists (RAddr x). split. auto. simpl. apply nz_In. auto.
Qed.

Lemma fill_access_asas : forall s ap r x,
  In x (sh_asas (fill_access s ap r)) <-> (x <> 0 /\ In (RAsset x) (access_of ap)) \/ In x (sh_asas r).
Proof.
  intros. unfold fill_access.
  rewrite (fold_left_In_gen (fill_access_elem s ap) sh_asas acc_asas (access_elem_asas s ap)).
  assert (Hbase : forall y, In y (sh_asas (if ap_id ap =? 0 then add_accts [s] r
            else add_locals [(s, ap_id ap)] (add_apps [ap_id ap] (add_accts [s] r)))) <-> In y (sh_asas r)).
  { intro y. destruct (ap_id ap =? 0); simpl; intuition. }
  rewrite Hbase. split.
  - intros [[rr [H1 H2]]|H]; auto.
    destruct rr; simpl in H2; try contradiction. apply nz_In in H2. destruct H2; subst. left. auto.
  - intros [[H1 H2]|H]; auto.
    left. exists (RAsset x). split. auto. simpl. apply nz_In. auto.
Qed.

Lemma fill_access_apps : forall s ap r x,
  In x (sh_apps (fill_access s ap r)) <->
  ((ap_id ap <> 0 /\ x = ap_id ap) \/ (x <> 0 /\ In (RApp x) (access_of ap))) \/ In x (sh_apps r).
Proof.
  intros. unfold fill_access.
  rewrite (fold_left_In_gen (fill_access_elem s ap) sh_apps acc_apps (access_elem_apps s ap)).
  assert (Hbase : forall y, In y (sh_apps (if ap_id ap =? 0 then add_accts [s] r
            else add_locals [(s, ap_id ap)] (add_apps [ap_id ap] (add_accts [s] r)))) <->
            (ap_id ap <> 0 /\ y = ap_id ap) \/ In y (sh_apps r)).
  { intro y. destruct (N.eqb_spec (ap_id ap) 0); simpl; intuition. }
  rewrite Hbase. split.
  - intros [[rr [H1 H2]]|[H|H]]; auto.
    destruct rr; simpl in H2; try contradiction. apply nz_In in H2. destruct H2; subst. left. right. auto.
  - intros [[H|[H1 H2]]|H]; auto.
    left. exists (RApp x). split. auto. simpl. apply nz_In. auto.
Qed.

Lemma fill_access_holds : forall s ap r x,
  In x (sh_holds (fill_access s ap r)) <->
  (exists ai si, In (RHold ai si) (access_of ap) /\ resolve_hold (access_of ap) s ai si = Some x) \/ In x (sh_holds r).
Proof.
  intros. unfold fill_access.
  rewrite (fold_left_In_gen (fill_access_elem s ap) sh_holds (acc_holds (access_of ap) s) (access_elem_holds s ap)).
  assert (Hbase : forall y, In y (sh_holds (if ap_id ap =? 0 then add_accts [s] r
            else add_locals [(s, ap_id ap)] (add_apps [ap_id ap] (add_accts [s] r)))) <-> In y (sh_holds r)).
  { intro y. destruct (ap_id ap =? 0); simpl; intuition. }
  rewrite Hbase. split.
  - intros [[rr [H1 H2]]|H]; auto.
    destruct rr; simpl in H2; try contradiction.
    destruct (resolve_hold (access_of ap) s ai si) eqn:E; simpl in H2; try contradiction.
    destruct H2 as [H2|[]]. subst. left. exists ai, si. auto.
  - intros [[ai [si [H1 H2]]]|H]; auto.
    left. exists (RHold ai si). split. auto. simpl. rewrite H2. simpl. auto.
Qed.

Lemma resolve_loc_00 : forall l s cur, resolve_loc l s cur 0 0 = Some (s, cur).
Proof. intros. unfold resolve_loc. simpl. reflexivity. Qed.

Lemma fill_access_locals : forall s ap r x,
  In x (sh_locals (fill_access s ap r)) <->
  ((ap_id ap <> 0 /\ x = (s, ap_id ap)) \/
   (exists ai pi, In (RLoc ai pi) (access_of ap) /\ (ai <> 0 \/ pi <> 0) /\
                  resolve_loc (access_of ap) s (ap_id ap) ai pi = Some x)) \/ In x (sh_locals r).
Proof.
  intros. unfold fill_access.
  rewrite (fold_left_In_gen (fill_access_elem s ap) sh_locals (acc_locals (access_of ap) s (ap_id ap)) (access_elem_locals s ap)).
  assert (Hbase : forall y, In y (sh_locals (if ap_id ap =? 0 then add_accts [s] r
            else add_locals [(s, ap_id ap)] (add_apps [ap_id ap] (add_accts [s] r)))) <->
            (ap_id ap <> 0 /\ y = (s, ap_id ap)) \/ In y (sh_locals r)).
  { intro y. destruct (N.eqb_spec (ap_id ap) 0); simpl; intuition. }
  rewrite Hbase. split.
  - intros [[rr [H1 H2]]|[H|H]]; auto.
    destruct rr; simpl in H2; try contradiction.
    destruct ((ai =? 0) && (pi =? 0)) eqn:E0; simpl in H2; try contradiction.
    destruct (resolve_loc (access_of ap) s (ap_id ap) ai pi) eqn:E; simpl in H2; try contradiction.
    destruct H2 as [H2|[]]. subst. left. right. exists ai, pi. split; auto. split; auto.
    apply andb_false_iff in E0. destruct E0 as [E0|E0]; apply N.eqb_neq in E0; auto.
  - intros [[H|[ai [pi [H1 [H0 H2]]]]]|H]; auto.
    left. exists (RLoc ai pi). split. auto. simpl.
    assert (E0 : (ai =? 0) && (pi =? 0) = false).
    { apply andb_false_iff. destruct H0 as [H0|H0]; apply N.eqb_neq in H0; auto. }
    rewrite E0, H2. simpl. auto.
Qed.

Lemma box_contrib_In : forall app name cur x,
  In x (box_contrib app name cur) <->
  (app <> 0 /\ x = (app, name)) \/ (app = 0 /\ cur <> 0 /\ x = (cur, name)).
Proof.
  intros. unfold box_contrib. destruct (N.eqb_spec app 0); [destruct (N.eqb_spec cur 0)|]; simpl; split; intro H.
  - contradiction.
  - destruct H as [[H _]|[_ [H _]]]; contradiction.
  - destruct H as [H|[]]. right. auto.
  - destruct H as [[H _]|[_ [_ H]]]. contradiction. auto.
  - destruct H as [H|[]]. left. auto.
  - destruct H as [[_ H]|[H _]]. auto. contradiction.
Qed.

Lemma fill_access_boxes : forall s ap r x,
  In x (bx_avail (fill_access s ap r)) <->
  (exists idx name app0, In (RBox idx name) (access_of ap) /\ (idx <> 0 \/ name <> []) /\
                         resolve_box (access_of ap) idx = Some app0 /\ In x (box_contrib app0 name (ap_id ap)))
  \/ In x (bx_avail r).
Proof.
  intros. unfold fill_access.
  rewrite (fold_left_In_gen (fill_access_elem s ap) bx_avail (acc_boxes (access_of ap) (ap_id ap)) (access_elem_boxes s ap)).
  assert (Hbase : forall y, In y (bx_avail (if ap_id ap =? 0 then add_accts [s] r
            else add_locals [(s, ap_id ap)] (add_apps [ap_id ap] (add_accts [s] r)))) <-> In y (bx_avail r)).
  { intro y. destruct (ap_id ap =? 0); simpl; intuition. }
  rewrite Hbase. split.
  - intros [[rr [H1 H2]]|H]; auto.
    destruct rr; simpl in H2; try contradiction.
    destruct ((idx =? 0) && match name with [] => true | _ => false end) eqn:E0; simpl in H2; try contradiction.
    destruct (resolve_box (access_of ap) idx) eqn:E; simpl in H2; try contradiction.
    left. exists idx, name, n. repeat split; auto.
    apply andb_false_iff in E0. destruct E0 as [E0|E0]. left. apply N.eqb_neq. exact E0.
    right. destruct name; congruence.
  - intros [[idx [name [app0 [H1 [H0 [H2 H3]]]]]]|H]; auto.
    left. exists (RBox idx name). split. auto. simpl.
    assert (E0 : (idx =? 0) && match name with [] => true | _ => false end = false).
    { apply andb_false_iff. destruct H0 as [H0|H0]. left. apply N.eqb_neq. exact H0. right. destruct name; congruence. }
    rewrite E0, H2. exact H3.
Qed.

Lemma fill_access_cr : forall s ap r, cr_asas (fill_access s ap r) = cr_asas r /\ cr_apps (fill_access s ap r) = cr_apps r.
Proof.
  intros. unfold fill_access. split.
  - rewrite (fold_left_same (fill_access_elem s ap) cr_asas). destruct (ap_id ap =? 0); reflexivity.
    intros a b. apply access_elem_cr.
  - rewrite (fold_left_same (fill_access_elem s ap) cr_apps). destruct (ap_id ap =? 0); reflexivity.
    intros a b. apply access_elem_cr.
Qed.

(* foreign arrays *)
Lemma fill_foreign_fields : forall s ap r,
  let r' := fill_foreign appaddr s ap r in
  sh_accts r' = tx_accounts appaddr s ap ++ sh_accts r /\
  sh_asas r' = ap_fassets ap ++ sh_asas r /\
  sh_apps r' = tx_apps ap ++ sh_apps r /\
  sh_holds r' = list_prod (tx_accounts appaddr s ap) (ap_fassets ap) ++ sh_holds r /\
  sh_locals r' = list_prod (tx_accounts appaddr s ap) (tx_apps ap) ++ sh_locals r /\
  cr_asas r' = cr_asas r /\ cr_apps r' = cr_apps r.
Proof.
  intros. unfold r', fill_foreign.
  repeat split.
  - rewrite (fold_left_same (fill_box_elem ap) sh_accts). reflexivity. intros a b. apply box_elem_other.
  - rewrite (fold_left_same (fill_box_elem ap) sh_asas). reflexivity. intros a b. apply box_elem_other.
  - rewrite (fold_left_same (fill_box_elem ap) sh_apps). reflexivity. intros a b. apply box_elem_other.
  - rewrite (fold_left_same (fill_box_elem ap) sh_holds). reflexivity. intros a b. apply box_elem_other.
  - rewrite (fold_left_same (fill_box_elem ap) sh_locals). reflexivity. intros a b. apply box_elem_other.
  - rewrite (fold_left_same (fill_box_elem ap) cr_asas). reflexivity. intros a b. apply box_elem_other.
  - rewrite (fold_left_same (fill_box_elem ap) cr_apps). reflexivity. intros a b. apply box_elem_other.
Qed.

Lemma fill_foreign_boxes : forall s ap r x,
  In x (bx_avail (fill_foreign appaddr s ap r)) <->
  (exists br, In br (ap_boxes ap) /\ In x (fbox_boxes ap br)) \/ In x (bx_avail r).
Proof.
  intros. unfold fill_foreign.
  rewrite (fold_left_In_gen (fill_box_elem ap) bx_avail (fbox_boxes ap) (box_elem_boxes ap)). simpl. tauto.
Qed.

(* ---------------------------------------------------------------- one transaction *)
Lemma fill_accts : forall r t x, In x (sh_accts (fill r t)) <-> names_acct t x \/ In x (sh_accts r).
Proof.
  intros r t x. destruct t as [s rcv cl|s|s id|s id rcv asnd cl|s id f|s ap|s]; simpl.
  - rewrite !in_app_iff, nz_In. simpl. intuition.
  - intuition.
  - destruct (id =? 0); simpl; intuition.
  - rewrite !in_app_iff, !nz_In. simpl. intuition.
  - intuition.
  - destruct (ap_access ap) eqn:E.
    + rewrite fill_access_accts. unfold access_of. rewrite E. tauto.
    + destruct (fill_foreign_fields s ap r) as [H _]. rewrite H, in_app_iff, tx_accounts_In. tauto.
  - tauto.
Qed.

Lemma fill_asas : forall r t x, In x (sh_asas (fill r t)) <-> names_asset t x \/ In x (sh_asas r).
Proof.
  intros r t x. destruct t as [s rcv cl|s|s id|s id rcv asnd cl|s id f|s ap|s]; simpl.
  - tauto.
  - tauto.
  - destruct (N.eqb_spec id 0); simpl; intuition.
  - intuition.
  - intuition.
  - destruct (ap_access ap) eqn:E.
    + rewrite fill_access_asas. unfold access_of. rewrite E. tauto.
    + destruct (fill_foreign_fields s ap r) as [_ [H _]]. rewrite H, in_app_iff. tauto.
  - tauto.
Qed.

Lemma fill_apps : forall r t x, In x (sh_apps (fill r t)) <-> names_app t x \/ In x (sh_apps r).
Proof.
  intros r t x. destruct t as [s rcv cl|s|s id|s id rcv asnd cl|s id f|s ap|s]; simpl; try tauto.
  - destruct (id =? 0); simpl; tauto.
  - destruct (ap_access ap) eqn:E.
    + rewrite fill_access_apps. unfold access_of. rewrite E. tauto.
    + destruct (fill_foreign_fields s ap r) as [_ [_ [H _]]]. rewrite H, in_app_iff, tx_apps_In. tauto.
Qed.

Lemma axfer_holds_In : forall s id rcv asnd cl a n,
  In (a, n) (flat_map (fun a => acct_hold_contrib a id) ([s; rcv] ++ nz asnd ++ nz cl)) <->
  n = id /\ id <> 0 /\ (a = s \/ a = rcv \/ (asnd <> 0 /\ a = asnd) \/ (cl <> 0 /\ a = cl)).
Proof.
  intros. rewrite in_flat_map. split.
  - intros [y [Hy Hc]]. apply acct_hold_contrib_In in Hc. destruct Hc as [Hid E]. inversion E; subst.
    split; auto. split; auto.
    rewrite !in_app_iff, !nz_In in Hy. simpl in Hy. intuition.
  - intros [E [Hid H]]. subst. exists a. split.
    + rewrite !in_app_iff, !nz_In. simpl. intuition.
    + apply acct_hold_contrib_In. auto.
Qed.

Lemma fill_holds : forall r t a n, In (a, n) (sh_holds (fill r t)) <-> names_hold t a n \/ In (a, n) (sh_holds r).
Proof.
  intros r t a n. destruct t as [s rcv cl|s|s id|s id rcv asnd cl|s id f|s ap|s];
    [simpl; tauto|simpl; tauto| | | | |simpl; tauto].
  - simpl. destruct (id =? 0); simpl; tauto.
  - unfold AvmResources.fill, add_holds, add_accts, add_asas. cbn [sh_holds AvmResourcesSpec.names_hold].
    rewrite in_app_iff, axfer_holds_In. tauto.
  - simpl. rewrite in_app_iff, acct_hold_contrib_In. split.
    + intros [[Hid E]|H]; auto. inversion E; subst. auto.
    + intros [[E [Hid H]]|H]; auto. subst. auto.
  - simpl. destruct (ap_access ap) eqn:E.
    + rewrite fill_access_holds. unfold access_of. rewrite E. tauto.
    + destruct (fill_foreign_fields s ap r) as [_ [_ [_ [H _]]]]. rewrite H, in_app_iff, in_prod_iff, tx_accounts_In. tauto.
Qed.

Lemma fill_locals : forall r t a p, In (a, p) (sh_locals (fill r t)) <-> names_loc t a p \/ In (a, p) (sh_locals r).
Proof.
  intros r t a p. destruct t as [s rcv cl|s|s id|s id rcv asnd cl|s id f|s ap|s]; simpl; try tauto.
  - destruct (id =? 0); simpl; tauto.
  - destruct (ap_access ap) eqn:E.
    + rewrite fill_access_locals. unfold access_of. rewrite E. split.
      * intros [[[H1 H2]|[ai [pi [H1 [H0 H2]]]]]|H]; auto.
        -- inversion H2; subst. left. left. auto.
        -- left. right. exists ai, pi. auto.
      * intros [[[H1 [H2 H3]]|[ai [pi [H1 [H0 H2]]]]]|H]; auto.
        -- subst. left. left. auto.
        -- left. right. exists ai, pi. auto.
    + destruct (fill_foreign_fields s ap r) as [_ [_ [_ [_ [H _]]]]].
      rewrite H, in_app_iff, in_prod_iff, tx_accounts_In, tx_apps_In. tauto.
Qed.

Lemma fill_boxes : forall r t app name,
  In (app, name) (bx_avail (fill r t)) <-> names_box t app name \/ In (app, name) (bx_avail r).
Proof.
  intros r t app name. destruct t as [s rcv cl|s|s id|s id rcv asnd cl|s id f|s ap|s]; simpl; try tauto.
  - destruct (id =? 0); simpl; tauto.
  - destruct (ap_access ap) eqn:E.
    + rewrite fill_access_boxes. unfold access_of. rewrite E. unfold box_target. split.
      * intros [[idx [name' [app0 [H1 [H0 [H2 H3]]]]]]|H]; auto.
        apply box_contrib_In in H3. left.
        destruct H3 as [[Ha Hx]|[Ha [Hc Hx]]]; injection Hx as Eapp Ename; subst name';
          exists idx, app0; (split; [exact H1|]); (split; [exact H0|]); (split; [exact H2|]); auto.
      * intros [[idx [app0 [H1 [H0 [H2 H3]]]]]|H]; auto.
        left. exists idx, name, app0. repeat split; auto. apply box_contrib_In.
        destruct H3 as [[Ha Hx]|[Ha [Hc Hx]]]; subst; auto.
    + rewrite fill_foreign_boxes. unfold box_target. split.
      * intros [[[idx name'] [H1 H2]]|H]; auto. left.
        unfold fbox_boxes in H2. simpl in H2. destruct (N.ltb_spec 0 idx) as [L|L].
        -- destruct (nth1 (ap_fapps ap) idx) as [app0|] eqn:En; try contradiction.
           apply box_contrib_In in H2. exists idx.
           destruct H2 as [[Ha Hx]|[Ha [Hc Hx]]]; injection Hx as Eapp Ename; subst name';
             (split; [exact H1|]); right; (split; [lia|]); exists app0; (split; [exact En|]); auto.
        -- assert (idx = 0) by lia. subst idx. apply box_contrib_In in H2. exists 0.
           destruct H2 as [[Ha Hx]|[Ha [Hc Hx]]]; [congruence|]. injection Hx as Eapp Ename; subst name'.
           split; [exact H1|]. left. split; auto.
      * intros [[idx [H1 H2]]|H]; auto. left. exists (idx, name). split. exact H1.
        unfold fbox_boxes. simpl. destruct H2 as [[Hi H2]|[Hi [app0 [Hn H2]]]].
        -- subst idx. simpl. apply box_contrib_In. destruct H2 as [[Ha Hx]|[Ha [Hc Hx]]]; subst; auto.
        -- destruct (N.ltb_spec 0 idx) as [L|L]; [|lia]. rewrite Hn. apply box_contrib_In.
           destruct H2 as [[Ha Hx]|[Ha [Hc Hx]]]; subst; auto.
Qed.

Lemma fill_cr : forall r t, cr_asas (fill r t) = cr_asas r /\ cr_apps (fill r t) = cr_apps r.
Proof.
  intros r t. destruct t as [s rcv cl|s|s id|s id rcv asnd cl|s id f|s ap|s]; simpl; auto.
  - destruct (id =? 0); simpl; auto.
  - destruct (ap_access ap).
    + apply fill_access_cr.
    + destruct (fill_foreign_fields s ap r) as [_ [_ [_ [_ [_ [H1 H2]]]]]]. auto.
Qed.

(* ---------------------------------------------------------------- the whole group *)
Lemma fold_fill_gen : forall {X} (proj : resources -> list X) (P : txn -> X -> Prop),
  (forall r t x, In x (proj (fill r t)) <-> P t x \/ In x (proj r)) ->
  forall g r x, In x (proj (fold_left fill g r)) <-> (exists t, In t g /\ P t x) \/ In x (proj r).
Proof.
  intros X proj P H. induction g as [|t g IH]; intros r x; simpl.
  - split. auto. intros [[t [[] _]]|H0]; exact H0.
  - rewrite IH, H. split.
    + intros [[t' [H1 H2]]|[H0|H0]].
      * left. exists t'. auto.
      * left. exists t. auto.
      * auto.
    + intros [[t' [[E|H1] H2]]|H0].
      * subst. right. left. exact H2.
      * left. exists t'. auto.
      * right. right. exact H0.
Qed.

Lemma avail_accts : forall g x, In x (sh_accts (compute_availability g)) <-> exists t, In t g /\ names_acct t x.
Proof.
  intros. unfold AvmResources.compute_availability.
  rewrite (fold_fill_gen sh_accts names_acct fill_accts). simpl. tauto.
Qed.
Lemma avail_asas : forall g x, In x (sh_asas (compute_availability g)) <-> exists t, In t g /\ names_asset t x.
Proof.
  intros. unfold AvmResources.compute_availability.
  rewrite (fold_fill_gen sh_asas names_asset fill_asas). simpl. tauto.
Qed.
Lemma avail_apps : forall g x, In x (sh_apps (compute_availability g)) <-> exists t, In t g /\ names_app t x.
Proof.
  intros. unfold AvmResources.compute_availability.
  rewrite (fold_fill_gen sh_apps names_app fill_apps). simpl. tauto.
Qed.
Lemma avail_holds : forall g a n, In (a, n) (sh_holds (compute_availability g)) <-> exists t, In t g /\ names_hold t a n.
Proof.
  intros. unfold AvmResources.compute_availability.
  rewrite (fold_fill_gen sh_holds (fun t x => names_hold t (fst x) (snd x))). simpl. tauto.
  intros r t [a' n']. apply fill_holds.
Qed.
Lemma avail_locals : forall g a p, In (a, p) (sh_locals (compute_availability g)) <-> exists t, In t g /\ names_loc t a p.
Proof.
  intros. unfold AvmResources.compute_availability.
  rewrite (fold_fill_gen sh_locals (fun t x => names_loc t (fst x) (snd x))). simpl. tauto.
  intros r t [a' n']. apply fill_locals.
Qed.
Lemma avail_boxes : forall g app name,
  In (app, name) (bx_avail (compute_availability g)) <-> exists t, In t g /\ names_box t app name.
Proof.
  intros. unfold AvmResources.compute_availability.
  rewrite (fold_fill_gen bx_avail (fun t x => names_box t (fst x) (snd x))). simpl. tauto.
  intros r t [a' n']. apply fill_boxes.
Qed.
Lemma avail_cr : forall g, cr_asas (compute_availability g) = [] /\ cr_apps (compute_availability g) = [].
Proof.
  intro g. unfold AvmResources.compute_availability.
  assert (H : forall g r, cr_asas (fold_left fill g r) = cr_asas r /\ cr_apps (fold_left fill g r) = cr_apps r).
  { induction g0 as [|t g0 IH]; intro r; simpl. auto.
    destruct (IH (fill r t)) as [H1 H2]. destruct (fill_cr r t) as [H3 H4]. split; congruence. }
  apply (H g empty_res).
Qed.

(* ---------------------------------------------------------------- creations, the context of a probe *)
Lemma create_boxes_In : forall ap appid app name,
  In (app, name) (create_boxes ap appid) <-> app = appid /\ create_names_box ap name.
Proof.
  intros. unfold create_boxes, create_names_box. rewrite in_app_iff, !in_flat_map. split.
  - intros [[[idx nm] [H1 H2]]|[rr [H1 H2]]].
    + simpl in H2. destruct (N.eqb_spec idx 0); simpl in H2; try contradiction.
      destruct H2 as [H2|[]]. inversion H2; subst. auto.
    + destruct rr; try contradiction. destruct name0 as [|b nm]; try contradiction.
      destruct (N.eqb_spec idx 0); simpl in H2; try contradiction.
      destruct H2 as [H2|[]]. inversion H2; subst. split; auto. right. split. congruence. exact H1.
  - intros [E [H|[Hn H]]]; subst.
    + left. exists (0, name). split. exact H. simpl. auto.
    + right. exists (RBox 0 name). split. exact H. destruct name. congruence. simpl. auto.
Qed.

Lemma run_creates_fields : forall cs r,
  let r' := run_creates cs r in
  sh_accts r' = sh_accts r /\ sh_asas r' = sh_asas r /\ sh_apps r' = sh_apps r /\
  sh_holds r' = sh_holds r /\ sh_locals r' = sh_locals r /\ cr_asas r' = cr_asas r /\ unnamed r' = unnamed r.
Proof.
  induction cs as [|c cs IH]; intro r; simpl. repeat split.
  specialize (IH (enter_create (fst c) (snd c) r)). simpl in IH. exact IH.
Qed.

Lemma run_creates_apps : forall cs r x,
  In x (cr_apps (run_creates cs r)) <-> In x (map snd cs) \/ In x (cr_apps r).
Proof.
  induction cs as [|c cs IH]; intros r x; simpl. tauto.
  unfold run_creates in *. simpl. rewrite IH. simpl. intuition.
Qed.

Lemma run_creates_boxes : forall cs r app name,
  In (app, name) (bx_avail (run_creates cs r)) <->
  (exists c, In c cs /\ snd c = app /\ create_names_box (fst c) name) \/ In (app, name) (bx_avail r).
Proof.
  induction cs as [|c cs IH]; intros r app name; simpl.
  - split. auto. intros [[c [[] _]]|H]; exact H.
  - unfold run_creates in *. simpl. rewrite IH. simpl. rewrite in_app_iff, create_boxes_In. split.
    + intros [[c' [H1 H2]]|[[E H]|H]].
      * left. exists c'. auto.
      * left. exists c. auto.
      * auto.
    + intros [[c' [[E|H1] H2]]|H].
      * subst. right. left. destruct H2. auto.
      * left. exists c'. auto.
      * auto.
Qed.

Section World.
Variable w : world.
Let av := av_of appaddr w.
Let base := add_cr_asas (w_created_asas w) (run_creates (w_creates w) (compute_availability (w_group w))).

Lemma av_of_unfold : av = enter_contract (w_cur w) (w_appid w) base.
Proof. reflexivity. Qed.

Lemma base_fields :
  sh_accts base = sh_accts (compute_availability (w_group w)) /\
  sh_asas base = sh_asas (compute_availability (w_group w)) /\
  sh_apps base = sh_apps (compute_availability (w_group w)) /\
  sh_holds base = sh_holds (compute_availability (w_group w)) /\
  sh_locals base = sh_locals (compute_availability (w_group w)).
Proof.
  unfold base. simpl.
  destruct (run_creates_fields (w_creates w) (compute_availability (w_group w))) as [H1 [H2 [H3 [H4 [H5 _]]]]].
  simpl in *. auto.
Qed.

Lemma av_shared :
  sh_accts av = sh_accts (compute_availability (w_group w)) /\
  sh_asas av = sh_asas (compute_availability (w_group w)) /\
  sh_apps av = sh_apps (compute_availability (w_group w)) /\
  sh_holds av = sh_holds (compute_availability (w_group w)) /\
  sh_locals av = sh_locals (compute_availability (w_group w)).
Proof.
  rewrite av_of_unfold. unfold enter_contract, enter_create.
  destruct (ap_id (w_cur w) =? 0); simpl; apply base_fields.
Qed.

Lemma av_accts : forall x, In x (sh_accts av) <-> group_names w names_acct x.
Proof. intro x. destruct av_shared as [H _]. rewrite H. apply avail_accts. Qed.
Lemma av_asas : forall x, In x (sh_asas av) <-> group_names w names_asset x.
Proof. intro x. destruct av_shared as [_ [H _]]. rewrite H. apply avail_asas. Qed.
Lemma av_apps : forall x, In x (sh_apps av) <-> group_names w names_app x.
Proof. intro x. destruct av_shared as [_ [_ [H _]]]. rewrite H. apply avail_apps. Qed.
Lemma av_holds : forall a n, In (a, n) (sh_holds av) <-> group_names w (fun t => names_hold t a) n.
Proof. intros. destruct av_shared as [_ [_ [_ [H _]]]]. rewrite H. apply avail_holds. Qed.
Lemma av_locals : forall a p, In (a, p) (sh_locals av) <-> group_names w (fun t => names_loc t a) p.
Proof. intros. destruct av_shared as [_ [_ [_ [_ H]]]]. rewrite H. apply avail_locals. Qed.

Lemma av_cr_asas : forall x, In x (cr_asas av) <-> In x (w_created_asas w).
Proof.
  intro x. rewrite av_of_unfold. unfold enter_contract, enter_create.
  assert (Hb : In x (cr_asas base) <-> In x (w_created_asas w)).
  { unfold base. simpl. rewrite in_app_iff.
    destruct (run_creates_fields (w_creates w) (compute_availability (w_group w))) as [_ [_ [_ [_ [_ [H _]]]]]].
    simpl in H. rewrite H. destruct (avail_cr (w_group w)) as [H1 _]. rewrite H1. simpl. tauto. }
  destruct (ap_id (w_cur w) =? 0); simpl; exact Hb.
Qed.

Lemma av_cr_apps : forall x, In x (cr_apps av) <-> In x (created_apps w).
Proof.
  intro x. rewrite av_of_unfold. unfold enter_contract, enter_create, created_apps.
  assert (Hb : In x (cr_apps base) <-> In x (map snd (w_creates w))).
  { unfold base. simpl. rewrite run_creates_apps. destruct (avail_cr (w_group w)) as [_ H1]. rewrite H1. simpl. tauto. }
  rewrite in_app_iff. destruct (ap_id (w_cur w) =? 0).
  - unfold add_cr_apps, add_boxes. cbn [cr_apps]. rewrite in_app_iff, Hb. simpl. tauto.
  - rewrite Hb. simpl. tauto.
Qed.

Lemma av_boxes : forall app name, In (app, name) (bx_avail av) <-> J_box w app name.
Proof.
  intros app name. rewrite av_of_unfold. unfold enter_contract, enter_create, J_box, created_calls.
  assert (Hb : In (app, name) (bx_avail base) <->
               group_names w (fun t => names_box t app) name \/
               (exists c, In c (w_creates w) /\ snd c = app /\ create_names_box (fst c) name)).
  { unfold base. simpl. rewrite run_creates_boxes, avail_boxes. unfold group_names. tauto. }
  destruct (ap_id (w_cur w) =? 0).
  - unfold add_cr_apps, add_boxes. cbn [bx_avail]. rewrite in_app_iff, create_boxes_In, Hb. split.
    + intros [[E H]|[H|[c [H1 H2]]]].
      * right. exists (w_cur w, w_appid w). split. apply in_or_app. right. left. reflexivity. simpl. auto.
      * auto.
      * right. exists c. split. apply in_or_app. auto. exact H2.
    + intros [H|[c [H1 H2]]]. auto.
      apply in_app_or in H1. destruct H1 as [H1|[E|[]]].
      * right. right. exists c. auto.
      * subst c. simpl in H2. left. destruct H2. auto.
  - rewrite Hb, app_nil_r. tauto.
Qed.

End World.
End Fill.
