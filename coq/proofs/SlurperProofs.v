(* C43: LimitedReaderSlurper -- for EVERY geometry, limit, message length and read script:
   a successful Read holds exactly the message (contiguous, in order, complete), within the
   limit and the connection maximum; an over-long message is never accepted; allocation stays
   bounded; the buffers array is never indexed out of range; Read terminates. *)
From Coq Require Import NArith ZArith List Bool Lia ZifyN ZifyNat ZifyBool.
From Verif.model Require Import Slurper.
Import ListNotations.
Open Scope N_scope.

(* the only division in the development: the buffers array has a slot for every buffer that
   the allocation budget allows *)
Ltac Zify.zify_post_hook ::= Z.div_mod_to_equations.
Lemma slots_enough (e r : N) :
  0 < r -> e + 1 < 1 + (e * 65536 + r + 65536 - 1) / 65536.
Proof. intros. lia. Qed.
Lemma mod_small_two64 (x : N) : x < 18446744073709551616 -> x mod 18446744073709551616 = x.
Proof. intros. apply N.mod_small. assumption. Qed.
Ltac Zify.zify_post_hook ::= idtac.

(* ------------------------------------------------------------------ segments and slices *)
Inductive Chain : N -> list (N * N) -> N -> Prop :=
| Chain_nil a : Chain a [] a
| Chain_cons a n t b : Chain (a + n) t b -> Chain a ((a, n) :: t) b.

Lemma Chain_le a l b : Chain a l b -> a <= b.
Proof. induction 1; lia. Qed.

Lemma Chain_snoc a l b n : Chain a l b -> Chain a (l ++ [(b, n)]) (b + n).
Proof.
  induction 1; cbn [app].
  - constructor. constructor.
  - constructor. assumption.
Qed.

Lemma firstn_add {A} (n m : nat) (l : list A) :
  firstn (n + m) l = firstn n l ++ firstn m (skipn n l).
Proof.
  revert l; induction n; intros l; cbn [Nat.add firstn skipn app]; [reflexivity|].
  destruct l; cbn [firstn skipn app].
  - destruct m; reflexivity.
  - rewrite IHn. reflexivity.
Qed.

Lemma skipn_add {A} (n m : nat) (l : list A) : skipn m (skipn n l) = skipn (n + m) l.
Proof.
  revert l; induction n; intros l; cbn [Nat.add skipn]; [reflexivity|].
  destruct l; [destruct m; reflexivity|]. apply IHn.
Qed.

Lemma slice_app {A} (data : list A) a n m :
  slice data a n ++ slice data (a + n) m = slice data a (n + m).
Proof.
  unfold slice. replace (N.to_nat (n + m)) with (N.to_nat n + N.to_nat m)%nat by lia.
  rewrite firstn_add, skipn_add. replace (N.to_nat (a + n)) with (N.to_nat a + N.to_nat n)%nat by lia.
  reflexivity.
Qed.

Lemma bytes_of_chain {A} (data : list A) a segs b :
  Chain a segs b -> bytes_of data segs = slice data a (b - a).
Proof.
  induction 1 as [a|a n t b H IH]; cbn [bytes_of flat_map fst snd].
  - replace (a - a) with 0 by lia. reflexivity.
  - fold (bytes_of data t). rewrite IH. pose proof (Chain_le _ _ _ H).
    rewrite slice_app. f_equal. lia.
Qed.

Lemma bytes_of_whole {A} (data : list A) segs :
  Chain 0 segs (N.of_nat (length data)) -> bytes_of data segs = data.
Proof.
  intros H. rewrite (bytes_of_chain data _ _ _ H). unfold slice.
  cbn [N.to_nat skipn]. replace (N.to_nat (N.of_nat (length data) - 0)) with (length data) by lia.
  apply firstn_all.
Qed.

(* ------------------------------------------------------------------ reader *)
Definition has_err_ev (sc : list ev) : Prop := exists k, In (EvErr k) sc.

Lemma rread_spec r L n e r' :
  rread r L = (n, e, r') -> rpos r <= rtotal r ->
  n <= L /\ rpos r' = rpos r + n /\ rpos r' <= rtotal r /\ rtotal r' = rtotal r /\
  (e = REOF -> rpos r' = rtotal r) /\
  (e = RFail -> has_err_ev (rscript r)) /\
  (forall x, In x (rscript r') -> In x (rscript r)) /\
  ((length (rscript r') < length (rscript r))%nat \/
   rscript r = [] /\ rscript r' = [] /\ e <> RFail /\
   (0 < L -> (n = 0 -> e = REOF) /\ (e = RNil -> n = N.min L (rtotal r - rpos r)))).
Proof.
  unfold rread. intros H Hle. destruct r as [p t sc]; cbn [rpos rtotal rscript] in *.
  destruct sc as [|[k eo|k] sc].
  - destruct (N.eqb_spec (N.min L (t - p)) 0) as [E|E].
    + inversion H; subst; clear H. cbn [rpos rtotal rscript].
      split; [lia|]. split; [lia|]. split; [lia|]. split; [reflexivity|].
      split. { destruct (N.eqb_spec (t - p) 0); intros; [lia|discriminate]. }
      split. { destruct (t - p =? 0); discriminate. }
      split. { auto. }
      right. split; [reflexivity|]. split; [reflexivity|].
      split. { destruct (t - p =? 0); discriminate. }
      intros HL. split.
      * intros _. destruct (N.eqb_spec (t - p) 0); [reflexivity|lia].
      * intros _. lia.
    + inversion H; subst; clear H. cbn [rpos rtotal rscript].
      split; [lia|]. split; [lia|]. split; [lia|]. split; [reflexivity|].
      split; [discriminate|]. split; [discriminate|]. split; [auto|].
      right. split; [reflexivity|]. split; [reflexivity|]. split; [discriminate|].
      intros HL. split; [intros; lia|reflexivity].
  - inversion H; subst; clear H. cbn [rpos rtotal rscript].
    split; [lia|]. split; [lia|]. split; [lia|]. split; [reflexivity|].
    split.
    { destruct eo; cbn [andb]; [|discriminate].
      destruct (N.eqb_spec (p + N.min k (N.min L (t - p))) t); [auto|discriminate]. }
    split. { destruct (eo && _); discriminate. }
    split. { intros x Hx. right. exact Hx. }
    left. cbn [length]. lia.
  - inversion H; subst; clear H. cbn [rpos rtotal rscript].
    split; [lia|]. split; [lia|]. split; [lia|]. split; [reflexivity|].
    split; [discriminate|].
    split. { intros _. exists k. left. reflexivity. }
    split. { intros x Hx. right. exact Hx. }
    left. cbn [length]. lia.
Qed.

(* ------------------------------------------------------------------ invariants *)
Section Geometry.
Variables B M : N.           (* base allocation (already clipped) and maximal allocation *)
Hypothesis HBM : B <= M.
Hypothesis Hnowrap : M + allocationStep <= two64.

(* holds of the slurper at every moment of its life *)
Definition ginv (s : slurper) : Prop :=
  bcap (b0 s) = B /\ remained s + sum_cap (ext s) + B = M /\
  nslots s = 1 + (M - B + allocationStep - 1) / allocationStep /\
  (remained s = 0 \/ Forall (fun b => bcap b = allocationStep) (ext s)).

(* holds at the head of the for loop of Read *)
Definition linv (s : slurper) (r : reader) : Prop :=
  ginv s /\
  Forall (fun b => blen b <= bcap b) (b0 s :: ext s) /\
  Forall (fun b => blen b = bcap b) (tl (ext s ++ [b0 s])) /\
  bytesRead s = size s /\ rpos r = size s /\ rpos r <= rtotal r /\
  Chain 0 (segments s) (size s) /\
  (maxSize s = 0 \/ bytesRead s <= maxSize s) /\
  (0 < maxSize s -> allocated s <= N.max B (maxSize s + allocationStep)).

Lemma sum_cap_all_step l :
  Forall (fun b => bcap b = allocationStep) l -> sum_cap l = N.of_nat (length l) * allocationStep.
Proof.
  induction 1 as [|b l Hb Hl IH]; cbn [sum_cap fold_right length]; [lia|].
  fold (sum_cap l). rewrite IH, Hb. lia.
Qed.

Lemma ginv_allocated s : ginv s -> allocated s + remained s = M.
Proof. intros (Hb & Hs & _). unfold allocated. lia. Qed.

Lemma make_ginv base maxA :
  B = N.min base maxA -> M = maxA -> ginv (make_slurper base maxA).
Proof.
  intros HB HM. unfold make_slurper, ginv. cbn [b0 ext remained nslots bcap sum_cap fold_right].
  assert (E : (if maxA <? base then maxA else base) = B) by (destruct (N.ltb_spec maxA base); lia).
  rewrite E. repeat split; try lia.
  - rewrite N.mod_small; [subst; reflexivity|]. unfold allocationStep, two64 in *. lia.
  - right. constructor.
Qed.

Lemma fold_left_caps l a : fold_left (fun acc b => acc + bcap b) l a = a + sum_cap l.
Proof.
  revert a; induction l as [|b l IH]; intros a; cbn [fold_left sum_cap fold_right]; [lia|].
  rewrite IH. fold (sum_cap l). lia.
Qed.

Lemma reset_linv s limit total sc :
  ginv s -> linv (reset s limit) (mkR 0 total sc).
Proof.
  intros (Hb & Hs & Hn & _). unfold reset, linv, ginv, size, allocated, segments.
  cbn [b0 ext remained nslots bcap blen bsegs sum_cap sum_len fold_right bytesRead maxSize
       rpos rtotal app tl rev flat_map].
  rewrite fold_left_caps.
  repeat split; try lia; auto.
  all: try (repeat constructor; cbn; lia).
Qed.

(* ------------------------------------------------------------------ one iteration *)
(* what is held in memory: never more than what is allocated; above the per-message limit only
   in the moment the message is rejected *)
Definition held_ok (s0 : slurper) (o : outcome) (s' : slurper) : Prop :=
  bytesRead s' <= allocated s' /\
  (o <> RTooLarge -> maxSize s0 = 0 \/ bytesRead s' <= maxSize s0) /\
  (o = ROk -> bytesRead s' = size s').

Definition post0 (s0 : slurper) (r0 : reader) (o : outcome) (s' : slurper) (r' : reader) : Prop :=
  ginv s' /\ maxSize s' = maxSize s0 /\
  (0 < maxSize s0 -> allocated s' <= N.max B (maxSize s0 + allocationStep)) /\
  match o with
  | ROk => size s' = rtotal r0 /\ Chain 0 (segments s') (rtotal r0) /\
           (maxSize s0 = 0 \/ rtotal r0 <= maxSize s0) /\ rtotal r0 <= M
  | RTooLarge => (0 < maxSize s0 /\ maxSize s0 < rtotal r0) \/ M < rtotal r0
  | RReaderErr => has_err_ev (rscript r0)
  | RPanic => False
  | ROutOfFuel => True
  end.

Definition post (s0 : slurper) (r0 : reader) (o : outcome) (s' : slurper) (r' : reader) : Prop :=
  post0 s0 r0 o s' r' /\ held_ok s0 o s'.

Definition bump (s : slurper) (n : N) : slurper :=
  mkS (remained s) (bytesRead s + n) (maxSize s) (nslots s) (b0 s) (ext s).

Lemma set_cur_fields s bb :
  remained (set_cur s bb) = remained s /\ bytesRead (set_cur s bb) = bytesRead s /\
  maxSize (set_cur s bb) = maxSize s /\ nslots (set_cur s bb) = nslots s /\
  length (ext (set_cur s bb)) = length (ext s) /\ cur (set_cur s bb) = bb.
Proof. unfold set_cur, cur. destruct (ext s); cbn; repeat split; reflexivity. Qed.

Lemma size_set_cur s bb : size (set_cur s bb) + blen (cur s) = size s + blen bb.
Proof.
  unfold size, set_cur, cur. destruct (ext s); cbn [b0 ext sum_len fold_right]; lia.
Qed.

Lemma allocated_set_cur s bb : allocated (set_cur s bb) + bcap (cur s) = allocated s + bcap bb.
Proof.
  unfold allocated, set_cur, cur. destruct (ext s); cbn [b0 ext sum_cap fold_right]; lia.
Qed.

Lemma ginv_set_cur s bb : ginv s -> bcap bb = bcap (cur s) -> ginv (set_cur s bb).
Proof.
  intros (G1 & G2 & G3 & G4) Hbb. unfold ginv, set_cur, cur in *.
  destruct (ext s) as [|c t]; cbn [b0 ext remained nslots sum_cap fold_right] in *.
  - repeat split; auto; lia.
  - split; [assumption|]. split; [lia|]. split; [assumption|].
    destruct G4 as [G4|G4]; [left; exact G4|right].
    inversion G4; subst. constructor; [lia|assumption].
Qed.

Lemma lens_set_cur s bb :
  Forall (fun b => blen b <= bcap b) (b0 s :: ext s) -> blen bb <= bcap bb ->
  Forall (fun b => blen b <= bcap b) (b0 (set_cur s bb) :: ext (set_cur s bb)).
Proof.
  intros H Hbb. unfold set_cur. destruct (ext s) as [|c t]; cbn [b0 ext].
  - constructor; [assumption|constructor].
  - inversion H as [|? ? H1 H2]; subst. inversion H2 as [|? ? H3 H4]; subst.
    constructor; [assumption|]. constructor; assumption.
Qed.

Lemma full_set_cur s bb :
  tl (ext (set_cur s bb) ++ [b0 (set_cur s bb)]) = tl (ext s ++ [b0 s]).
Proof. unfold set_cur. destruct (ext s); reflexivity. Qed.

Lemma segments_set_cur s cp ln sg :
  segments (set_cur s (mkBuf cp ln (sg :: bsegs (cur s)))) = segments s ++ [sg].
Proof.
  unfold segments, set_cur, cur.
  destruct (ext s) as [|c t]; cbn [bsegs rev b0 ext flat_map].
  - rewrite !app_nil_r. reflexivity.
  - rewrite !flat_map_app. cbn [flat_map bsegs rev]. rewrite !app_nil_r, !app_assoc. reflexivity.
Qed.

Lemma sum_len_full l : Forall (fun b => blen b = bcap b) l -> sum_len l = sum_cap l.
Proof.
  induction 1 as [|b l Hb Hl IH]; cbn [sum_len sum_cap fold_right]; [reflexivity|].
  fold (sum_len l) (sum_cap l). lia.
Qed.

Lemma sum_len_le l : Forall (fun b => blen b <= bcap b) l -> sum_len l <= sum_cap l.
Proof.
  induction 1 as [|b l Hb Hl IH]; cbn [sum_len sum_cap fold_right]; [lia|].
  fold (sum_len l) (sum_cap l). lia.
Qed.

Lemma size_le_allocated s :
  Forall (fun b => blen b <= bcap b) (b0 s :: ext s) -> size s <= allocated s.
Proof.
  intros H. inversion H; subst. unfold size, allocated.
  pose proof (sum_len_le _ H3). lia.
Qed.

(* when every buffer is full the slurper holds exactly what is allocated *)
Lemma size_full s :
  Forall (fun b => blen b = bcap b) (tl (ext s ++ [b0 s])) -> blen (cur s) = bcap (cur s) ->
  size s = allocated s.
Proof.
  unfold size, allocated, cur. destruct (ext s) as [|c t]; cbn [app tl sum_len sum_cap fold_right].
  - intros _ H. lia.
  - intros H Hc. apply Forall_app in H. destruct H as (Ht & Hb). inversion Hb; subst.
    fold (sum_len t) (sum_cap t). rewrite (sum_len_full _ Ht). lia.
Qed.

Lemma size_free_le s :
  Forall (fun b => blen b <= bcap b) (b0 s :: ext s) ->
  size s + (bcap (cur s) - blen (cur s)) <= allocated s.
Proof.
  intros H. inversion H as [|? ? H1 H2]; subst. unfold size, allocated, cur.
  destruct (ext s) as [|c t]; cbn [sum_len sum_cap fold_right].
  - lia.
  - inversion H2 as [|? ? H3 H4]; subst. fold (sum_len t) (sum_cap t).
    pose proof (sum_len_le _ H4). lia.
Qed.

(* the read part of the loop body, from a state whose current buffer has free space *)
Lemma read_into_spec s r :
  linv s r -> blen (cur s) < bcap (cur s) ->
  match read_into s r with
  | Cont s' r' => linv s' r' /\ maxSize s' = maxSize s /\ rtotal r' = rtotal r /\
                  nslots s' = nslots s /\ length (ext s') = length (ext s) /\
                  rpos r <= rpos r' /\
                  (forall x, In x (rscript r') -> In x (rscript r)) /\
                  ((length (rscript r') < length (rscript r))%nat \/
                   rscript r = [] /\ rscript r' = [] /\
                   (blen (cur s') = bcap (cur s') \/ rpos r < rtotal r /\ rpos r' = rtotal r'))
  | Done o s' r' => post s r o s' r' /\ o <> ROutOfFuel
  end.
Proof.
  intros (Hg & Hlen & Hfull & Hbr & Hpos & Hle & Hch & Hmx & Hal) Hfree.
  unfold read_into.
  destruct (rread r (bcap (cur s) - blen (cur s))) as [[n e] r'] eqn:Hr.
  destruct (rread_spec _ _ _ _ _ Hr Hle) as (HnL & Hp' & Hp'le & Ht' & Heof & Hfail & Hincl & Hsc).
  fold (bump s n).
  assert (Hb_cur : cur (bump s n) = cur s) by reflexivity.
  assert (Hb_size : size (bump s n) = size s) by reflexivity.
  assert (Hb_alloc : allocated (bump s n) = allocated s) by reflexivity.
  assert (Hb_seg : segments (bump s n) = segments s) by reflexivity.
  assert (Hb_g : ginv (bump s n)) by exact Hg.
  cbn [maxSize bytesRead bump].
  destruct ((0 <? maxSize s) && (maxSize s <? bytesRead s + n)) eqn:Hover.
  - (* over the per-message limit *)
    split; [|discriminate]. pose proof (size_free_le s Hlen) as Hfr.
    split.
    + unfold post0. cbn [maxSize bump].
      split; [exact Hb_g|]. split; [reflexivity|]. split; [exact Hal|].
      left. lia.
    + unfold held_ok. cbn [bytesRead bump]. rewrite Hb_alloc.
      split; [lia|]. split; [intros Hc; congruence|discriminate].
  - set (c' := mkBuf (bcap (cur s)) (blen (cur s) + n) ((rpos r, n) :: bsegs (cur s))).
    set (s2 := set_cur (bump s n) c').
    destruct (set_cur_fields (bump s n) c') as (F1 & F2 & F3 & F4 & F5 & F6).
    fold s2 in F1, F2, F3, F4, F5, F6. cbn [bump remained bytesRead maxSize nslots ext] in F1, F2, F3, F4, F5.
    pose proof (size_set_cur (bump s n) c') as Hsz. fold s2 in Hsz.
    rewrite Hb_cur, Hb_size in Hsz. cbn [blen c'] in Hsz.
    pose proof (allocated_set_cur (bump s n) c') as Hac. fold s2 in Hac.
    rewrite Hb_cur, Hb_alloc in Hac. cbn [bcap c'] in Hac.
    assert (Hseg : segments s2 = segments s ++ [(rpos r, n)]).
    { unfold s2, c'. rewrite <- Hb_cur at 3. rewrite segments_set_cur. rewrite Hb_seg. reflexivity. }
    assert (Hlinv' : linv s2 r').
    { unfold linv.
      split. { apply ginv_set_cur; [exact Hb_g|reflexivity]. }
      split. { apply lens_set_cur; [exact Hlen|]. cbn [c' blen bcap]. lia. }
      split. { unfold s2. rewrite full_set_cur. exact Hfull. }
      split; [lia|]. split; [lia|]. split; [lia|].
      split. { rewrite Hseg. replace (size s2) with (rpos r + n) by lia. rewrite Hpos.
               apply Chain_snoc. exact Hch. }
      split; [rewrite F2, F3; lia|].
      rewrite F3. intros H. specialize (Hal H). lia. }
    destruct e.
    + (* RNil: continue *)
      split; [exact Hlinv'|]. split; [exact F3|]. split; [exact Ht'|]. split; [exact F4|].
      split; [exact F5|]. split; [lia|]. split; [exact Hincl|].
      destruct Hsc as [Hsc|(E1 & E2 & _ & Hsc)]; [left; exact Hsc|right].
      split; [exact E1|]. split; [exact E2|].
      assert (HL : 0 < bcap (cur s) - blen (cur s)) by lia.
      destruct (Hsc HL) as (Hn0 & Hn). specialize (Hn eq_refl).
      destruct (N.eq_dec n 0) as [Z|Z]; [specialize (Hn0 Z); discriminate|].
      rewrite F6. cbn [c' blen bcap].
      destruct (N.le_gt_cases (bcap (cur s) - blen (cur s)) (rtotal r - rpos r)); [left|right]; lia.
    + (* REOF: done, everything committed *)
      split; [|discriminate]. specialize (Heof eq_refl).
      destruct Hlinv' as (G & L2 & _ & Hbr2 & Hp2 & _ & Hc2 & Hm2 & Ha2).
      pose proof (size_le_allocated _ L2) as Hsa2.
      split.
      { unfold post0. split; [exact G|]. split; [exact F3|]. rewrite F3 in Ha2. split; [exact Ha2|].
        assert (Hsize : size s2 = rtotal r) by lia.
        split; [exact Hsize|]. split; [rewrite <- Hsize; exact Hc2|].
        split; [rewrite F2, F3 in Hm2; lia|].
        pose proof (ginv_allocated _ G). lia. }
      unfold held_ok. rewrite F3 in Hm2. split; [lia|]. split; [intros _; exact Hm2|intros _; exact Hbr2].
    + (* RFail *)
      split; [|discriminate]. pose proof (size_free_le s Hlen) as Hfr.
      split.
      { unfold post0. cbn [maxSize bump].
        split; [exact Hb_g|]. split; [reflexivity|]. split; [exact Hal|]. apply Hfail. reflexivity. }
      unfold held_ok. cbn [bytesRead bump]. rewrite Hb_alloc.
      split; [lia|]. split; [intros _; lia|discriminate].
Qed.

(* termination measure of the loop *)
Definition mu (s : slurper) (r : reader) : nat :=
  (2 * length (rscript r) + 2 * (N.to_nat (nslots s) - 1 - length (ext s)) +
   (if (blen (cur s) =? bcap (cur s))%N then 0 else 1) + (if (rpos r <? rtotal r)%N then 1 else 0))%nat.

Lemma has_err_incl sc sc' :
  (forall x, In x sc' -> In x sc) -> has_err_ev sc' -> has_err_ev sc.
Proof. intros H (k & Hk). exists k. auto. Qed.

Lemma post_weaken s r s1 r1 o s' r' :
  maxSize s1 = maxSize s -> rtotal r1 = rtotal r ->
  (forall x, In x (rscript r1) -> In x (rscript r)) ->
  post s1 r1 o s' r' -> post s r o s' r'.
Proof.
  intros Hm Ht Hi ((P1 & P2 & P3 & P4) & Hh). unfold post, post0, held_ok in *. rewrite <- Hm, <- Ht.
  split; [|exact Hh].
  split; [exact P1|]. split; [exact P2|]. split; [exact P3|].
  destruct o; auto. eapply has_err_incl; eauto.
Qed.

Lemma iter_spec s r :
  linv s r ->
  match iter s r with
  | Cont s' r' => linv s' r' /\ maxSize s' = maxSize s /\ rtotal r' = rtotal r /\
                  (forall x, In x (rscript r') -> In x (rscript r)) /\ (mu s' r' < mu s r)%nat
  | Done o s' r' => post s r o s' r' /\ o <> ROutOfFuel
  end.
Proof.
  intros Hl. pose proof Hl as (Hg & Hlen & Hfull & Hbr & Hpos & Hle & Hch & Hmx & Hal).
  unfold iter.
  destruct (N.eqb_spec (blen (cur s)) (bcap (cur s))) as [Hcf|Hcf].
  - pose proof (size_full s Hfull Hcf) as Hsa.
    pose proof (ginv_allocated s Hg) as Hga.
    destruct (N.eqb_spec (remained s) 0) as [Hr0|Hr0].
    + (* no memory left: probe for one more byte *)
      destruct (rread r 1) as [[n e] r'] eqn:Hr.
      destruct (rread_spec _ _ _ _ _ Hr Hle) as (HnL & Hp' & Hp'le & Ht' & Heof & Hfail & Hincl & Hsc).
      destruct (N.ltb_spec 0 n) as [Hn|Hn].
      * split; [|discriminate]. split.
        { unfold post0. split; [exact Hg|]. split; [reflexivity|]. split; [exact Hal|]. right. lia. }
        unfold held_ok. split; [lia|]. split; [intros Hc; congruence|discriminate].
      * assert (n = 0) by lia. subst n.
        destruct e.
        -- (* zero-length read: retry *)
           split.
           { unfold linv. repeat (split; [assumption|]).
             split; [lia|]. split; [lia|]. repeat (split; [assumption|]). assumption. }
           split; [reflexivity|]. split; [exact Ht'|]. split; [exact Hincl|].
           unfold mu. destruct Hsc as [Hsc|(E1 & E2 & _ & Hsc)].
           ++ destruct (rpos r' <? rtotal r'), (rpos r <? rtotal r); lia.
           ++ assert (H1 : 0 < 1) by lia. destruct (Hsc H1) as (Hc & _).
              specialize (Hc eq_refl). discriminate.
        -- split; [|discriminate]. specialize (Heof eq_refl). split.
           { unfold post0. split; [exact Hg|]. split; [reflexivity|]. split; [exact Hal|].
             assert (Hsz : size s = rtotal r) by lia.
             split; [exact Hsz|]. split; [rewrite <- Hsz; exact Hch|]. split; lia. }
           unfold held_ok. split; [lia|]. split; [intros _; exact Hmx|intros _; exact Hbr].
        -- split; [|discriminate]. split.
           { unfold post0. split; [exact Hg|]. split; [reflexivity|]. split; [exact Hal|]. apply Hfail. reflexivity. }
           unfold held_ok. split; [lia|]. split; [intros _; exact Hmx|discriminate].
    + (* allocate the next buffer *)
      unfold allocate.
      destruct Hg as (G1 & G2 & G3 & G4).
      destruct G4 as [G4|G4]; [contradiction|].
      pose proof (sum_cap_all_step _ G4) as Hsc.
      destruct (N.leb_spec (nslots s) (N.of_nat (length (ext s)) + 1)) as [Hns|Hns].
      { exfalso. unfold allocationStep in *. rewrite G3 in Hns. rewrite Hsc in G2.
        assert (Hr : 0 < remained s) by lia.
        pose proof (slots_enough (N.of_nat (length (ext s))) (remained s) Hr) as Hse.
        replace (M - B + 65536 - 1) with (N.of_nat (length (ext s)) * 65536 + remained s + 65536 - 1) in Hns by lia.
        lia. }
      set (sz := N.min allocationStep (remained s)).
      set (s1 := mkS (remained s - sz) (bytesRead s) (maxSize s) (nslots s) (b0 s)
                     (mkBuf sz 0 [] :: ext s)).
      assert (Hsz : 0 < sz) by (unfold sz, allocationStep; lia).
      assert (Hl1 : linv s1 r).
      { unfold linv, ginv, s1. cbn [remained bytesRead maxSize nslots b0 ext sum_cap fold_right bcap].
        fold (sum_cap (ext s)).
        split.
        { split; [exact G1|]. split; [unfold sz; lia|]. split; [exact G3|].
          destruct (N.eq_dec (remained s - sz) 0) as [E|E]; [left; exact E|right].
          constructor; [cbn [bcap]; unfold sz in *; lia|exact G4]. }
        split.
        { inversion Hlen; subst. constructor; [assumption|]. constructor; [cbn [blen bcap]; lia|assumption]. }
        split.
        { cbn [app tl].
          unfold cur in Hcf. destruct (ext s) as [|c t] eqn:Ee; cbn [app tl] in *.
          - constructor; [exact Hcf|constructor].
          - constructor; [exact Hcf|exact Hfull]. }
        unfold size, allocated, segments. cbn [b0 ext sum_len sum_cap fold_right blen bcap rev].
        fold (sum_len (ext s)) (sum_cap (ext s)).
        rewrite flat_map_app. cbn [flat_map bsegs rev app]. rewrite app_nil_r.
        fold (size s) (allocated s) (segments s).
        split; [unfold size in Hbr; lia|]. split; [unfold size in Hpos; lia|]. split; [exact Hle|].
        split. { replace (blen (b0 s) + (0 + sum_len (ext s))) with (size s) by (unfold size; lia). exact Hch. }
        split; [exact Hmx|].
        intros Hm. unfold allocated in *. unfold sz, allocationStep in *. lia. }
      assert (Hfree : blen (cur s1) < bcap (cur s1)) by (unfold s1, cur; cbn [ext blen bcap]; lia).
      pose proof (read_into_spec s1 r Hl1 Hfree) as Hri.
      destruct (read_into s1 r) as [o s' r'|s' r'].
      * destruct Hri as (Hp & Ho). split; [|exact Ho].
        eapply post_weaken; [| | |exact Hp]; auto.
      * destruct Hri as (L' & M' & T' & N' & E' & P' & I' & S').
        split; [exact L'|]. split; [exact M'|]. split; [exact T'|]. split; [exact I'|].
        unfold mu. rewrite N', E'. cbn [s1 nslots ext length].
        assert (F0 : (blen (cur s) =? bcap (cur s)) = true) by (apply N.eqb_eq; exact Hcf).
        rewrite F0.
        destruct S' as [S'|(E1 & E2 & S')].
        -- destruct (blen (cur s') =? bcap (cur s')), (rpos r' <? rtotal r'), (rpos r <? rtotal r); lia.
        -- rewrite E1, E2. cbn [length].
           destruct (N.ltb_spec (rpos r') (rtotal r')), (N.ltb_spec (rpos r) (rtotal r));
             destruct (blen (cur s') =? bcap (cur s')); lia.
  - (* room in the current buffer *)
    assert (Hlen' := Hlen).
    assert (Hfree : blen (cur s) < bcap (cur s)).
    { assert (blen (cur s) <= bcap (cur s)); [|lia].
      unfold cur. inversion Hlen as [|? ? H1 H2]; subst. destruct (ext s); [assumption|].
      inversion H2; assumption. }
    pose proof (read_into_spec s r Hl Hfree) as Hri.
    destruct (read_into s r) as [o s' r'|s' r']; [exact Hri|].
    destruct Hri as (L' & M' & T' & N' & E' & P' & I' & S').
    split; [exact L'|]. split; [exact M'|]. split; [exact T'|]. split; [exact I'|].
    unfold mu. rewrite N', E'.
    assert (F0 : (blen (cur s) =? bcap (cur s)) = false) by (apply N.eqb_neq; exact Hcf).
    rewrite F0.
    destruct S' as [S'|(E1 & E2 & [S'|S'])].
    + destruct (blen (cur s') =? bcap (cur s')), (rpos r' <? rtotal r'), (rpos r <? rtotal r); lia.
    + rewrite E1, E2. cbn [length]. apply N.eqb_eq in S'. rewrite S'.
      destruct (N.ltb_spec (rpos r') (rtotal r')), (N.ltb_spec (rpos r) (rtotal r)); lia.
    + rewrite E1, E2. cbn [length].
      destruct (N.ltb_spec (rpos r') (rtotal r')), (N.ltb_spec (rpos r) (rtotal r));
        destruct (blen (cur s') =? bcap (cur s')); lia.
Qed.

Lemma run_spec fuel : forall s r,
  linv s r ->
  match run fuel s r with
  | (o, s', r') => post s r o s' r' /\ ((mu s r < fuel)%nat -> o <> ROutOfFuel)
  end.
Proof.
  induction fuel as [|f IH]; intros s r Hl; cbn [run].
  - split; [|lia]. destruct Hl as (Hg & Hlen & _ & Hbr & _ & _ & _ & Hmx & Hal).
    pose proof (size_le_allocated _ Hlen). split.
    { unfold post0. split; [exact Hg|]. split; [reflexivity|]. split; [exact Hal|]. exact I. }
    unfold held_ok. split; [lia|]. split; [intros _; exact Hmx|discriminate].
  - pose proof (iter_spec s r Hl) as Hi. destruct (iter s r) as [o s' r'|s' r'].
    + destruct Hi as (Hp & Ho). split; [exact Hp|]. intros _. exact Ho.
    + destruct Hi as (L' & M' & T' & I' & Mu).
      specialize (IH s' r' L'). destruct (run f s' r') as [[o s''] r''].
      destruct IH as (Hp & Hf). split.
      * eapply post_weaken; eauto.
      * intros Hlt. apply Hf. lia.
Qed.

(* one message: Reset(limit); Read *)
Lemma slurp_spec s limit total sc :
  ginv s ->
  match slurp s limit total sc with
  | (o, s', r') => post (reset s limit) (mkR 0 total sc) o s' r' /\ o <> ROutOfFuel
  end.
Proof.
  intros Hg. unfold slurp.
  pose proof (run_spec (fuel_for (reset s limit) (mkR 0 total sc)) _ _ (reset_linv s limit total sc Hg)) as H.
  destruct (run _ _ _) as [[o s'] r']. destruct H as (Hp & Hf). split; [exact Hp|].
  apply Hf. unfold mu, fuel_for. cbn [rscript reset nslots ext length].
  destruct (_ =? _), (_ <? _); lia.
Qed.
End Geometry.
