(* C43: LimitedReaderSlurper -- for EVERY geometry, limit, message length and read script:
   a successful Read holds exactly the message (contiguous, in order, complete), within the
   limit and the connection maximum; an over-long message is never accepted; allocation stays
   bounded; the buffers array is never indexed out of range; Read terminates. *)
From Coq Require Import NArith ZArith List Bool Lia ZifyN ZifyNat ZifyBool.
From Verif.model Require Import Slurper.
Import ListNotations.
Open Scope N_scope.

Ltac Zify.zify_post_hook ::= Z.div_mod_to_equations.

(* ------------------------------------------------------------------ segments and slices *)
Inductive Chain : N -> list (N * N) -> N -> Prop :=
| Chain_nil a : Chain a [] a
| Chain_cons a n t b : Chain (a + n) t b -> Chain a ((a, n) :: t) b.

Lemma Chain_le a l b : Chain a l b -> a <= b.
Proof. induction 1; lia. Qed.

Lemma Chain_snoc a l b n : Chain a l b -> Chain a (l ++ [(b, n)]) (b + n).
Proof.
  induction 1; cbn [app].
  - constructor. constructor.
  - constructor. assumption.
Qed.

Lemma firstn_add {A} (n m : nat) (l : list A) :
  firstn (n + m) l = firstn n l ++ firstn m (skipn n l).
Proof.
  revert l; induction n; intros l; cbn [Nat.add firstn skipn app]; [reflexivity|].
  destruct l; cbn [firstn skipn app].
  - destruct m; reflexivity.
  - rewrite IHn. reflexivity.
Qed.

Lemma skipn_add {A} (n m : nat) (l : list A) : skipn m (skipn n l) = skipn (n + m) l.
Proof.
  revert l; induction n; intros l; cbn [Nat.add skipn]; [reflexivity|].
  destruct l; [destruct m; reflexivity|]. apply IHn.
Qed.

Lemma slice_app {A} (data : list A) a n m :
  slice data a n ++ slice data (a + n) m = slice data a (n + m).
Proof.
  unfold slice. replace (N.to_nat (n + m)) with (N.to_nat n + N.to_nat m)%nat by lia.
  rewrite firstn_add, skipn_add. replace (N.to_nat (a + n)) with (N.to_nat a + N.to_nat n)%nat by lia.
  reflexivity.
Qed.

Lemma bytes_of_chain {A} (data : list A) a segs b :
  Chain a segs b -> bytes_of data segs = slice data a (b - a).
Proof.
  induction 1 as [a|a n t b H IH]; cbn [bytes_of flat_map fst snd].
  - replace (a - a) with 0 by lia. reflexivity.
  - fold (bytes_of data t). rewrite IH. pose proof (Chain_le _ _ _ H).
    rewrite slice_app. f_equal. lia.
Qed.

Lemma bytes_of_whole {A} (data : list A) segs :
  Chain 0 segs (N.of_nat (length data)) -> bytes_of data segs = data.
Proof.
  intros H. rewrite (bytes_of_chain data _ _ _ H). unfold slice.
  cbn [N.to_nat skipn]. replace (N.to_nat (N.of_nat (length data) - 0)) with (length data) by lia.
  apply firstn_all.
Qed.

(* ------------------------------------------------------------------ reader *)
Definition has_err_ev (sc : list ev) : Prop := exists k, In (EvErr k) sc.

Lemma rread_spec r L n e r' :
  rread r L = (n, e, r') -> rpos r <= rtotal r ->
  n <= L /\ rpos r' = rpos r + n /\ rpos r' <= rtotal r /\ rtotal r' = rtotal r /\
  (e = REOF -> rpos r' = rtotal r) /\
  (e = RFail -> has_err_ev (rscript r)) /\
  (forall x, In x (rscript r') -> In x (rscript r)) /\
  ((length (rscript r') < length (rscript r))%nat \/
   rscript r = [] /\ rscript r' = [] /\ e <> RFail /\
   (0 < L -> (n = 0 -> e = REOF) /\ (e = RNil -> n = N.min L (rtotal r - rpos r)))).
Proof.
  unfold rread. intros H Hle. destruct r as [p t sc]; cbn [rpos rtotal rscript] in *.
  destruct sc as [|[k eo|k] sc].
  - destruct (N.eqb_spec (N.min L (t - p)) 0) as [E|E].
    + inversion H; subst; clear H. cbn [rpos rtotal rscript].
      split; [lia|]. split; [lia|]. split; [lia|]. split; [reflexivity|].
      split. { destruct (N.eqb_spec (t - p) 0); intros; [lia|discriminate]. }
      split. { destruct (t - p =? 0); discriminate. }
      split. { auto. }
      right. split; [reflexivity|]. split; [reflexivity|].
      split. { destruct (t - p =? 0); discriminate. }
      intros HL. split.
      * intros _. destruct (N.eqb_spec (t - p) 0); [reflexivity|lia].
      * intros _. lia.
    + inversion H; subst; clear H. cbn [rpos rtotal rscript].
      split; [lia|]. split; [lia|]. split; [lia|]. split; [reflexivity|].
      split; [discriminate|]. split; [discriminate|]. split; [auto|].
      right. split; [reflexivity|]. split; [reflexivity|]. split; [discriminate|].
      intros HL. split; [intros; lia|reflexivity].
  - inversion H; subst; clear H. cbn [rpos rtotal rscript].
    split; [lia|]. split; [lia|]. split; [lia|]. split; [reflexivity|].
    split.
    { destruct eo; cbn [andb]; [|discriminate].
      destruct (N.eqb_spec (p + N.min k (N.min L (t - p))) t); [auto|discriminate]. }
    split. { destruct (eo && _); discriminate. }
    split. { intros x Hx. right. exact Hx. }
    left. cbn [length]. lia.
  - inversion H; subst; clear H. cbn [rpos rtotal rscript].
    split; [lia|]. split; [lia|]. split; [lia|]. split; [reflexivity|].
    split; [discriminate|].
    split. { intros _. exists k. left. reflexivity. }
    split. { intros x Hx. right. exact Hx. }
    left. cbn [length]. lia.
Qed.

(* ------------------------------------------------------------------ invariants *)
Section Geometry.
Variables B M : N.           (* base allocation (already clipped) and maximal allocation *)
Hypothesis HBM : B <= M.
Hypothesis Hnowrap : M + allocationStep <= two64.

(* holds of the slurper at every moment of its life *)
Definition ginv (s : slurper) : Prop :=
  bcap (b0 s) = B /\ remained s + sum_cap (ext s) + B = M /\
  nslots s = 1 + (M - B + allocationStep - 1) / allocationStep /\
  (remained s = 0 \/ Forall (fun b => bcap b = allocationStep) (ext s)).

(* holds at the head of the for loop of Read *)
Definition linv (s : slurper) (r : reader) : Prop :=
  ginv s /\
  Forall (fun b => blen b <= bcap b) (b0 s :: ext s) /\
  Forall (fun b => blen b = bcap b) (tl (ext s ++ [b0 s])) /\
  bytesRead s = size s /\ rpos r = size s /\ rpos r <= rtotal r /\
  Chain 0 (segments s) (size s) /\
  (maxSize s = 0 \/ bytesRead s <= maxSize s) /\
  (0 < maxSize s -> allocated s <= N.max B (maxSize s + allocationStep)).

Lemma sum_cap_all_step l :
  Forall (fun b => bcap b = allocationStep) l -> sum_cap l = N.of_nat (length l) * allocationStep.
Proof.
  induction 1 as [|b l Hb Hl IH]; cbn [sum_cap fold_right length]; [lia|].
  fold (sum_cap l). rewrite IH, Hb. lia.
Qed.

Lemma ginv_allocated s : ginv s -> allocated s + remained s = M.
Proof. intros (Hb & Hs & _). unfold allocated. lia. Qed.

Lemma make_ginv base maxA :
  B = N.min base maxA -> M = maxA -> ginv (make_slurper base maxA).
Proof.
  intros HB HM. unfold make_slurper, ginv. cbn [b0 ext remained nslots bcap sum_cap fold_right].
  assert (E : (if maxA <? base then maxA else base) = B) by (destruct (N.ltb_spec maxA base); lia).
  rewrite E. repeat split; try lia.
  - rewrite N.mod_small; [subst; reflexivity|]. unfold allocationStep, two64 in *. lia.
  - right. constructor.
Qed.

Lemma fold_left_caps l a : fold_left (fun acc b => acc + bcap b) l a = a + sum_cap l.
Proof.
  revert a; induction l as [|b l IH]; intros a; cbn [fold_left sum_cap fold_right]; [lia|].
  rewrite IH. fold (sum_cap l). lia.
Qed.

Lemma reset_linv s limit total sc :
  ginv s -> linv (reset s limit) (mkR 0 total sc).
Proof.
  intros (Hb & Hs & Hn & _). unfold reset, linv, ginv, size, allocated, segments.
  cbn [b0 ext remained nslots bcap blen bsegs sum_cap sum_len fold_right bytesRead maxSize
       rpos rtotal app tl rev flat_map].
  rewrite fold_left_caps.
  repeat split; try lia; auto.
  all: try (repeat constructor; cbn; lia).
Qed.

(* ------------------------------------------------------------------ one iteration *)
Definition post (s0 : slurper) (r0 : reader) (o : outcome) (s' : slurper) (r' : reader) : Prop :=
  ginv s' /\ maxSize s' = maxSize s0 /\
  (0 < maxSize s0 -> allocated s' <= N.max B (maxSize s0 + allocationStep)) /\
  match o with
  | ROk => size s' = rtotal r0 /\ Chain 0 (segments s') (rtotal r0) /\
           (maxSize s0 = 0 \/ rtotal r0 <= maxSize s0) /\ rtotal r0 <= M
  | RTooLarge => (0 < maxSize s0 /\ maxSize s0 < rtotal r0) \/ M < rtotal r0
  | RReaderErr => has_err_ev (rscript r0)
  | RPanic => False
  | ROutOfFuel => True
  end.

Lemma segments_commit rem br mx ns b ex c sg cp ln :
  c = cur (mkS rem br mx ns b ex) ->
  segments (set_cur (mkS rem br mx ns b ex) (mkBuf cp ln (sg :: bsegs c))) =
  segments (mkS rem br mx ns b ex) ++ [sg].
Proof.
  intros ->. unfold segments, set_cur, cur. cbn [ext b0].
  destruct ex as [|c t]; cbn [bsegs rev b0 ext flat_map].
  - rewrite !app_nil_r. reflexivity.
  - rewrite !flat_map_app. cbn [flat_map bsegs rev]. rewrite !app_nil_r, !app_assoc. reflexivity.
Qed.

Lemma sum_len_full l : Forall (fun b => blen b = bcap b) l -> sum_len l = sum_cap l.
Proof.
  induction 1 as [|b l Hb Hl IH]; cbn [sum_len sum_cap fold_right]; [reflexivity|].
  fold (sum_len l) (sum_cap l). lia.
Qed.

(* the read part of the loop body, from a state whose current buffer has free space *)
Lemma read_into_spec s r :
  linv s r -> blen (cur s) < bcap (cur s) ->
  match read_into s r with
  | Cont s' r' => linv s' r' /\ maxSize s' = maxSize s /\ rtotal r' = rtotal r /\
                  nslots s' = nslots s /\ length (ext s') = length (ext s) /\
                  (forall x, In x (rscript r') -> In x (rscript r)) /\
                  ((length (rscript r') < length (rscript r))%nat \/
                   rscript r = [] /\ rscript r' = [] /\
                   (blen (cur s') = bcap (cur s') \/ rpos r < rtotal r /\ rpos r' = rtotal r'))
  | Done o s' r' => post s r o s' r' /\ o <> ROutOfFuel
  end.
Proof.
  intros (Hg & Hlen & Hfull & Hbr & Hpos & Hle & Hch & Hmx & Hal) Hfree.
  unfold read_into.
  destruct (rread r (bcap (cur s) - blen (cur s))) as [[n e] r'] eqn:Hr.
  destruct (rread_spec _ _ _ _ _ Hr Hle) as (HnL & Hp' & Hp'le & Ht' & Heof & Hfail & Hincl & Hsc).
  destruct s as [rem br mx ns b ex]. cbn [remained bytesRead maxSize nslots b0 ext] in *.
  set (s := mkS rem br mx ns b ex) in *.
  assert (Hg' : forall bb, bcap bb = bcap (cur s) ->
             ginv (set_cur (mkS rem (br + n) mx ns b ex) bb)).
  { intros bb Hbb. destruct Hg as (G1 & G2 & G3 & G4). unfold ginv, set_cur, cur in *.
    subst s. cbn [ext b0 remained nslots] in *.
    destruct ex as [|c t]; cbn [b0 ext remained nslots sum_cap fold_right] in *.
    - repeat split; auto; lia.
    - fold (sum_cap t) in *. repeat split; auto; try lia.
      destruct G4 as [G4|G4]; [left; exact G4|right].
      inversion G4; subst. constructor; [lia|assumption]. }
  assert (Hsz : forall bb, blen bb = blen (cur s) + n ->
             size (set_cur (mkS rem (br + n) mx ns b ex) bb) = size s + n).
  { intros bb Hbb. unfold size, set_cur, cur in *. subst s. cbn [ext b0] in *.
    destruct ex as [|c t]; cbn [b0 ext sum_len fold_right] in *; lia. }
  assert (Hac : forall bb, bcap bb = bcap (cur s) ->
             allocated (set_cur (mkS rem (br + n) mx ns b ex) bb) = allocated s).
  { intros bb Hbb. unfold allocated, set_cur, cur in *. subst s. cbn [ext b0] in *.
    destruct ex as [|c t]; cbn [b0 ext sum_cap fold_right] in *; lia. }
  cbn [maxSize bytesRead].
  destruct ((0 <? mx) && (mx <? br + n)) eqn:Hover.
  - (* over the per-message limit *)
    split; [|discriminate]. unfold post. cbn [maxSize].
    split; [exact Hg|]. split; [reflexivity|]. split; [exact Hal|].
    left. subst s. cbn [maxSize]. lia.
  - set (c' := mkBuf (bcap (cur s)) (blen (cur s) + n) ((rpos r, n) :: bsegs (cur s))).
    assert (Hlinv' : rpos r' <= rtotal r' -> linv (set_cur (mkS rem (br + n) mx ns b ex) c') r').
    { intros _. unfold linv.
      split; [apply Hg'; reflexivity|].
      rewrite (Hsz c' eq_refl), (Hac c' eq_refl).
      assert (Hseg : segments (set_cur (mkS rem (br + n) mx ns b ex) c') = segments s ++ [(rpos r, n)]).
      { subst c'. apply (segments_commit rem (br + n) mx ns b ex (cur s)). reflexivity. }
      rewrite Hseg.
      repeat split.
      - unfold set_cur, cur in *. subst s c'. cbn [ext b0] in *.
        destruct ex as [|c t]; cbn [b0 ext] in *.
        + constructor; [cbn [blen bcap]; lia|constructor].
        + inversion Hlen as [|? ? H1 H2]; subst. inversion H2 as [|? ? H3 H4]; subst.
          constructor; [assumption|]. constructor; [cbn [blen bcap]; lia|assumption].
      - unfold set_cur, cur in *. subst s c'. cbn [ext b0] in *.
        destruct ex as [|c t]; cbn [b0 ext app tl] in *; assumption.
      - cbn [bytesRead]. unfold set_cur. destruct ex; cbn [bytesRead]; lia.
      - lia.
      - lia.
      - rewrite Hpos. replace (size s + n) with (size s + n) by reflexivity.
        apply Chain_snoc. exact Hch.
      - unfold set_cur. destruct ex; cbn [maxSize bytesRead]; lia.
      - unfold set_cur. destruct ex; cbn [maxSize]; exact Hal. }
    destruct e.
    + (* RNil: continue *)
      assert (Hms : forall bb, maxSize (set_cur (mkS rem (br + n) mx ns b ex) bb) = mx)
        by (intros; unfold set_cur; destruct ex; reflexivity).
      assert (Hns : forall bb, nslots (set_cur (mkS rem (br + n) mx ns b ex) bb) = ns)
        by (intros; unfold set_cur; destruct ex; reflexivity).
      assert (Hex : forall bb, length (ext (set_cur (mkS rem (br + n) mx ns b ex) bb)) = length ex)
        by (intros; unfold set_cur; destruct ex; reflexivity).
      split; [apply Hlinv'; lia|]. rewrite Hms, Hns, Hex.
      repeat split; auto.
      destruct Hsc as [Hsc|(E1 & E2 & _ & Hsc)]; [left; exact Hsc|right].
      split; [exact E1|]. split; [exact E2|].
      assert (HL : 0 < bcap (cur s) - blen (cur s)) by lia.
      destruct (Hsc HL) as (_ & Hn). specialize (Hn eq_refl).
      assert (Hcur : cur (set_cur (mkS rem (br + n) mx ns b ex) c') = c')
        by (unfold set_cur, cur; destruct ex; reflexivity).
      rewrite Hcur. subst c'. cbn [blen bcap].
      destruct (N.le_gt_cases (bcap (cur s) - blen (cur s)) (rtotal r - rpos r)); [left|right]; lia.
    + (* REOF: done, everything committed *)
      split; [|discriminate]. specialize (Heof eq_refl).
      destruct Hlinv' as (G & _ & _ & _ & Hp2 & _ & Hc2 & Hm2 & Ha2); [lia|].
      unfold post. split; [exact G|].
      assert (Hms : maxSize (set_cur (mkS rem (br + n) mx ns b ex) c') = mx)
        by (unfold set_cur; destruct ex; reflexivity).
      rewrite Hms in *. cbn [maxSize]. split; [reflexivity|]. split; [exact Ha2|].
      assert (Hbr2 : bytesRead (set_cur (mkS rem (br + n) mx ns b ex) c') = br + n)
        by (unfold set_cur; destruct ex; reflexivity).
      rewrite Hbr2 in Hm2.
      assert (Hsize : size (set_cur (mkS rem (br + n) mx ns b ex) c') = rtotal r) by lia.
      rewrite <- Hsize at 1 2. split; [reflexivity|]. split; [rewrite Hsize in Hc2 |- *; exact Hc2|].
      split; [lia|].
      (* size <= allocated <= M *)
      pose proof (ginv_allocated _ G) as GA.
      assert (size (set_cur (mkS rem (br + n) mx ns b ex) c') <=
              allocated (set_cur (mkS rem (br + n) mx ns b ex) c')).
      { rewrite (Hsz c' eq_refl), (Hac c' eq_refl).
        unfold size, allocated, cur in *. subst s. cbn [b0 ext] in *.
        destruct ex as [|c t]; cbn [sum_len sum_cap fold_right] in *.
        - lia.
        - fold (sum_len t) (sum_cap t) in *. cbn [app tl] in Hfull.
          apply Forall_app in Hfull. destruct Hfull as (Ht & Hb0). inversion Hb0; subst.
          rewrite (sum_len_full _ Ht). lia. }
      lia.
    + (* RFail *)
      split; [|discriminate]. unfold post. cbn [maxSize].
      split; [exact Hg|]. split; [reflexivity|]. split; [exact Hal|]. apply Hfail. reflexivity.
Qed.
End Geometry.
