(* C20, part 2: endOfBlock / GenerateBlock / FinishBlock / Eval and the two main theorems. *)
From Coq Require Import NArith List Bool Lia ZifyN ZifyNat ZifyBool.
From Verif.model Require Import GenVal.
From Verif.proofs Require Import GenValProofs.
Import ListNotations.
Open Scope N_scope.

Lemma afind_map_parts : forall (f : N -> acct) parts p d,
  afind p (map (fun a => (a, f a)) parts) = Some d -> d = f p.
Proof.
  induction parts as [|a parts IH]; intros p d H; cbn in H; [discriminate|].
  destruct (a =? p) eqn:E; [apply N.eqb_eq in E; subst; inversion H; reflexivity|auto].
Qed.

(* ------------------------------------------------------------------ endOfBlock, generate mode *)
Record gen_fields (P : params) (L : lview) (hdr1 : header) (ev : evst) (hdr2 : header) : Prop := {
  gf_hdr : hdr2 = set_end hdr1 (payset_commit (ev_payset ev))
                          (if p_txncounter P then counter L (ev_top ev) else 0)
                          (h_fees hdr2) (h_payout hdr2) (h_load hdr2);
  gf_pay_on : p_payouts P = true ->
              h_fees hdr2 = l_fees (ev_top ev) /\
              proposer_payout P L (ev_top ev) (l_fees (ev_top ev)) (h_bonus hdr1) = Ok (h_payout hdr2);
  gf_pay_off : p_payouts P = false -> h_fees hdr2 = h_fees hdr1 /\ h_payout hdr2 = h_payout hdr1;
  gf_load_on : p_loadtracking P = true -> compute_load (ev_bytes ev) (p_maxbytes P) = Ok (h_load hdr2);
  gf_load_off : p_loadtracking P = false -> h_load hdr2 = h_load hdr1
}.

Lemma eob_gen : forall P r L hdr1 ev hdr2 top,
  h_proposer hdr1 = 0 ->
  end_of_block (Eg P r) L hdr1 ev = Ok (hdr2, top) ->
  top = ev_top ev /\ gen_fields P L hdr1 ev hdr2.
Proof.
  intros P r L hdr1 ev hdr2 top Hp0 H. unfold end_of_block in H.
  cbn [Eg e_P e_generate e_validate] in H.
  inv_bind H as h'. inv_bind Hb as [fees po]. inv_bind Hb as load. cbn [fst snd] in Hb. injection Hb as <-.
  inv_bind H as []. inv_bind H as top1.
  unfold perform_payout in Hb2. cbn [set_end h_proposer] in Hb2. rewrite Hp0 in Hb2. cbn [N.eqb] in Hb2. injection Hb2 as <-.
  injection H as <- <-.
  unfold record_proposal. cbn [set_end h_proposer]. rewrite Hp0. cbn [N.eqb].
  split; [reflexivity|]. constructor; cbn [set_end h_fees h_payout h_load h_bonus].
  - reflexivity.
  - intro E. rewrite E in Hb0. inv_bind Hb0 as po'. injection Hb0 as <- <-. auto.
  - intro E. rewrite E in Hb0. injection Hb0 as <- <-. auto.
  - intro E. rewrite E in Hb1. exact Hb1.
  - intro E. rewrite E in Hb1. injection Hb1 as <-. reflexivity.
Qed.

Lemma gen_fields_proj : forall P L hdr1 ev hdr2,
  gen_fields P L hdr1 ev hdr2 ->
  h_round hdr2 = h_round hdr1 /\ h_bonus hdr2 = h_bonus hdr1 /\ h_proposer hdr2 = h_proposer hdr1 /\
  h_genhash hdr2 = h_genhash hdr1 /\ h_rs hdr2 = h_rs hdr1 /\
  h_root hdr2 = payset_commit (ev_payset ev) /\
  h_counter hdr2 = (if p_txncounter P then counter L (ev_top ev) else 0).
Proof.
  intros P L hdr1 ev hdr2 [Hh _ _ _ _].
  repeat split;
    [apply (f_equal h_round) in Hh|apply (f_equal h_bonus) in Hh|apply (f_equal h_proposer) in Hh|
     apply (f_equal h_genhash) in Hh|apply (f_equal h_rs) in Hh|apply (f_equal h_root) in Hh|
     apply (f_equal h_counter) in Hh]; exact Hh.
Qed.

(* the finished header: FinishBlock + WithProposer applied to the generated one *)
Definition fin_hdr (P : params) (hdr2 : header) (finals : list (N * acct)) (proposer : N) (elig : bool) : header :=
  b_hdr (finish_block P (mkUB hdr2 [] layer0 finals) proposer elig).

Lemma fin_hdr_b : forall P hdr2 ps top finals proposer elig,
  b_hdr (finish_block P (mkUB hdr2 ps top finals) proposer elig) = fin_hdr P hdr2 finals proposer elig.
Proof. reflexivity. Qed.

Lemma fin_hdr_same : forall P hdr2 finals proposer elig,
  let hF := fin_hdr P hdr2 finals proposer elig in
  h_round hF = h_round hdr2 /\ h_bonus hF = h_bonus hdr2 /\ h_genhash hF = h_genhash hdr2 /\
  h_rs hF = h_rs hdr2 /\ h_root hF = h_root hdr2 /\ h_counter hF = h_counter hdr2 /\
  h_fees hF = h_fees hdr2 /\ h_load hF = h_load hdr2.
Proof.
  intros. subst hF. unfold fin_hdr, finish_block. cbn [b_hdr ub_hdr ub_final].
  destruct (p_payouts P); cbn [negb orb]; [destruct (negb _)|]; cbn; repeat split; reflexivity.
Qed.

Lemma eob_val_fin : forall P r L hdr1 ev hdr2 parts proposer elig,
  (p_payouts P = true -> proposer <> 0) ->
  h_proposer hdr1 = 0 -> h_fees hdr1 = 0 -> h_payout hdr1 = 0 ->
  gen_fields P L hdr1 ev hdr2 ->
  let hF := fin_hdr P hdr2 (map (fun a => (a, lookup L [ev_top ev] a)) parts) proposer elig in
  end_of_block (Ev P r) L hF ev =
  (do top1 <- perform_payout P L hF (ev_top ev) ; Ok (hF, record_proposal L hF top1)).
Proof.
  intros P r L hdr1 ev hdr2 parts proposer elig Hprop Hp0 Hf0 Hpo0 G hF.
  destruct (gen_fields_proj _ _ _ _ _ G) as (Gr & Gb & Gp & Gg & Gs & Groot & Gcnt).
  destruct (fin_hdr_same P hdr2 (map (fun a => (a, lookup L [ev_top ev] a)) parts) proposer elig)
    as (Fr & Fb & Fg & Fs & Froot & Fcnt & Ffees & Fload). fold hF in Fr, Fb, Fg, Fs, Froot, Fcnt, Ffees, Fload.
  unfold end_of_block. cbn [Ev e_P e_generate e_validate bind].
  rewrite Froot, Groot, root_eqb_refl. cbn [negb].
  rewrite Fcnt, Gcnt, N.eqb_refl. cbn [negb].
  assert (HV : validate_for_payouts (Ev P r) L hF (ev_top ev) = Ok tt).
  { unfold validate_for_payouts. cbn [Ev e_P e_generate negb]. rewrite Ffees, Fb, Gb.
    subst hF. unfold fin_hdr, finish_block. cbn [b_hdr ub_hdr ub_final].
    destruct (p_payouts P) eqn:Epay; cbn [negb orb].
    - destruct G as [_ Gon _ _ _]. destruct (Gon eq_refl) as [Gfee Gpo]. rewrite Gfee, N.eqb_refl. cbn [negb].
      rewrite Gpo. cbn [bind].
      destruct (afind proposer (map (fun a => (a, lookup L [ev_top ev] a)) parts)) as [d|] eqn:Ef.
      + apply afind_map_parts in Ef. subst d.
        destruct (a_algos (lookup L [ev_top ev] proposer) =? 0) eqn:Ez; cbn [negb].
        * cbn [set_payout set_proposer h_payout h_proposer]. rewrite N.ltb_irrefl || idtac.
          replace (h_payout hdr2 <? 0) with false by (symmetry; apply N.ltb_ge; lia).
          destruct (proposer =? 0) eqn:Ep; [apply N.eqb_eq in Ep; exfalso; apply (Hprop eq_refl Ep)|]. reflexivity.
        * destruct elig; cbn [negb set_payout set_proposer h_payout h_proposer].
          -- rewrite N.ltb_irrefl.
             destruct (proposer =? 0) eqn:Ep; [apply N.eqb_eq in Ep; exfalso; apply (Hprop eq_refl Ep)|].
             unfold acct_is_zero. rewrite Ez. cbn [andb]. rewrite andb_false_r. reflexivity.
          -- replace (h_payout hdr2 <? 0) with false by (symmetry; apply N.ltb_ge; lia).
             destruct (proposer =? 0) eqn:Ep; [apply N.eqb_eq in Ep; exfalso; apply (Hprop eq_refl Ep)|]. reflexivity.
      + cbn [negb set_payout set_proposer h_payout h_proposer].
        replace (h_payout hdr2 <? 0) with false by (symmetry; apply N.ltb_ge; lia).
        destruct (proposer =? 0) eqn:Ep; [apply N.eqb_eq in Ep; exfalso; apply (Hprop eq_refl Ep)|]. reflexivity.
    - destruct G as [_ _ Goff _ _]. destruct (Goff eq_refl) as [Gfee Gpo]. rewrite Gfee, Hf0.
      cbn [set_payout h_proposer h_payout N.eqb negb]. rewrite Gp, Hp0. reflexivity. }
  rewrite HV. reflexivity.
Qed.
