(* C20, part 2: endOfBlock / GenerateBlock / FinishBlock / Eval and the two main theorems. *)
From Coq Require Import NArith List Bool Lia ZifyN ZifyNat ZifyBool.
From Verif.model Require Import GenVal.
From Verif.proofs Require Import GenValProofs.
Import ListNotations.
Open Scope N_scope.

Tactic Notation "inv_bind" hyp(H) "as" simple_intropattern(p) "eq" ident(E) :=
  match type of H with
  | bind ?x _ = Ok _ => destruct x as [p|] eqn:E; [cbn [bind] in H | discriminate H]
  end.

Lemma afind_map_parts : forall (f : N -> acct) parts p d,
  afind p (map (fun a => (a, f a)) parts) = Some d -> d = f p.
Proof.
  induction parts as [|a parts IH]; intros p d H; cbn in H; [discriminate|].
  destruct (a =? p) eqn:E; [apply N.eqb_eq in E; subst; inversion H; reflexivity|auto].
Qed.

(* ------------------------------------------------------------------ endOfBlock, generate mode *)
Record gen_fields (P : params) (L : lview) (hdr1 : header) (ev : evst) (hdr2 : header) : Prop := {
  gf_hdr : hdr2 = set_end hdr1 (payset_commit (ev_payset ev))
                          (if p_txncounter P then counter L (ev_top ev) else 0)
                          (h_fees hdr2) (h_payout hdr2) (h_load hdr2);
  gf_pay_on : p_payouts P = true ->
              h_fees hdr2 = l_fees (ev_top ev) /\
              proposer_payout P L (ev_top ev) (l_fees (ev_top ev)) (h_bonus hdr1) = Ok (h_payout hdr2);
  gf_pay_off : p_payouts P = false -> h_fees hdr2 = h_fees hdr1 /\ h_payout hdr2 = h_payout hdr1;
  gf_load_on : p_loadtracking P = true -> compute_load (ev_bytes ev) (p_maxbytes P) = Ok (h_load hdr2);
  gf_load_off : p_loadtracking P = false -> h_load hdr2 = h_load hdr1
}.

Lemma eob_gen : forall P c0 r L hdr1 ev hdr2 top,
  h_proposer hdr1 = 0 ->
  end_of_block (Eg P c0 r) L hdr1 ev = Ok (hdr2, top) ->
  top = ev_top ev /\ gen_fields P L hdr1 ev hdr2.
Proof.
  intros P c0 r L hdr1 ev hdr2 top Hp0 H. unfold end_of_block in H.
  cbn [Eg e_P e_generate e_validate] in H.
  inv_bind H as h'. inv_bind Hb as [fees po]. inv_bind Hb as load. cbn [fst snd] in Hb. injection Hb as <-.
  inv_bind H as []. inv_bind H as top1.
  unfold perform_payout in Hb2. cbn [set_end h_proposer] in Hb2. rewrite Hp0 in Hb2. cbn [N.eqb] in Hb2. injection Hb2 as <-.
  injection H as <- <-.
  unfold record_proposal. cbn [set_end h_proposer]. rewrite Hp0. cbn [N.eqb].
  split; [reflexivity|]. constructor; cbn [set_end h_fees h_payout h_load h_bonus].
  - reflexivity.
  - intro E. rewrite E in Hb0. inv_bind Hb0 as po'. injection Hb0 as <- <-. auto.
  - intro E. rewrite E in Hb0. injection Hb0 as <- <-. auto.
  - intro E. rewrite E in Hb1. exact Hb1.
  - intro E. rewrite E in Hb1. injection Hb1 as <-. reflexivity.
Qed.

Lemma gen_fields_proj : forall P L hdr1 ev hdr2,
  gen_fields P L hdr1 ev hdr2 ->
  h_round hdr2 = h_round hdr1 /\ h_bonus hdr2 = h_bonus hdr1 /\ h_proposer hdr2 = h_proposer hdr1 /\
  h_genhash hdr2 = h_genhash hdr1 /\ h_rs hdr2 = h_rs hdr1 /\
  h_root hdr2 = payset_commit (ev_payset ev) /\
  h_counter hdr2 = (if p_txncounter P then counter L (ev_top ev) else 0).
Proof.
  intros P L hdr1 ev hdr2 [Hh _ _ _ _].
  repeat split;
    [apply (f_equal h_round) in Hh|apply (f_equal h_bonus) in Hh|apply (f_equal h_proposer) in Hh|
     apply (f_equal h_genhash) in Hh|apply (f_equal h_rs) in Hh|apply (f_equal h_root) in Hh|
     apply (f_equal h_counter) in Hh]; exact Hh.
Qed.

(* the finished header: FinishBlock + WithProposer applied to the generated one *)
Definition fin_hdr (P : params) (hdr2 : header) (finals : list (N * acct)) (proposer : N) (elig : bool) : header :=
  b_hdr (finish_block P (mkUB hdr2 [] layer0 finals) proposer elig).

Lemma fin_hdr_b : forall P hdr2 ps top finals proposer elig,
  b_hdr (finish_block P (mkUB hdr2 ps top finals) proposer elig) = fin_hdr P hdr2 finals proposer elig.
Proof. reflexivity. Qed.

Lemma fin_hdr_same : forall P hdr2 finals proposer elig,
  let hF := fin_hdr P hdr2 finals proposer elig in
  h_round hF = h_round hdr2 /\ h_bonus hF = h_bonus hdr2 /\ h_genhash hF = h_genhash hdr2 /\
  h_rs hF = h_rs hdr2 /\ h_root hF = h_root hdr2 /\ h_counter hF = h_counter hdr2 /\
  h_fees hF = h_fees hdr2 /\ h_load hF = h_load hdr2.
Proof.
  intros. subst hF. unfold fin_hdr, finish_block. cbn [b_hdr ub_hdr ub_final].
  destruct (p_payouts P); cbn [negb orb]; [destruct (negb _)|]; cbn; repeat split; reflexivity.
Qed.

Lemma eob_val_fin : forall P r L hdr1 ev hdr2 parts proposer elig,
  (p_payouts P = true -> proposer <> 0) ->
  h_proposer hdr1 = 0 -> h_fees hdr1 = 0 -> h_payout hdr1 = 0 ->
  gen_fields P L hdr1 ev hdr2 ->
  let hF := fin_hdr P hdr2 (map (fun a => (a, lookup L [ev_top ev] a)) parts) proposer elig in
  end_of_block (Ev P r) L hF ev =
  (do top1 <- perform_payout P L hF (ev_top ev) ; Ok (hF, record_proposal L hF top1)).
Proof.
  intros P r L hdr1 ev hdr2 parts proposer elig Hprop Hp0 Hf0 Hpo0 G hF.
  destruct (gen_fields_proj _ _ _ _ _ G) as (Gr & Gb & Gp & Gg & Gs & Groot & Gcnt).
  destruct (fin_hdr_same P hdr2 (map (fun a => (a, lookup L [ev_top ev] a)) parts) proposer elig)
    as (Fr & Fb & Fg & Fs & Froot & Fcnt & Ffees & Fload). fold hF in Fr, Fb, Fg, Fs, Froot, Fcnt, Ffees, Fload.
  unfold end_of_block. cbn [Ev e_P e_generate e_validate bind].
  rewrite Froot, Groot, root_eqb_refl. cbn [negb].
  rewrite Fcnt, Gcnt, N.eqb_refl. cbn [negb].
  assert (HV : validate_for_payouts (Ev P r) L hF (ev_top ev) = Ok tt).
  { unfold validate_for_payouts. cbn [Ev e_P e_generate negb]. rewrite Ffees, Fb, Gb.
    subst hF. unfold fin_hdr, finish_block. cbn [b_hdr ub_hdr ub_final].
    destruct (p_payouts P) eqn:Epay; cbn [negb orb].
    - destruct G as [_ Gon _ _ _]. destruct (Gon Epay) as [Gfee Gpo]. rewrite Gfee, N.eqb_refl. cbn [negb].
      rewrite Gpo. cbn [bind].
      destruct (afind proposer (map (fun a => (a, lookup L [ev_top ev] a)) parts)) as [d|] eqn:Ef.
      + apply afind_map_parts in Ef. subst d.
        destruct (a_algos (lookup L [ev_top ev] proposer) =? 0) eqn:Ez; cbn [negb].
        * cbn [set_payout set_proposer h_payout h_proposer]. rewrite N.ltb_irrefl || idtac.
          replace (h_payout hdr2 <? 0) with false by (symmetry; apply N.ltb_ge; lia).
          destruct (proposer =? 0) eqn:Ep; [apply N.eqb_eq in Ep; exfalso; apply (Hprop eq_refl Ep)|]. reflexivity.
        * destruct elig; cbn [negb set_payout set_proposer h_payout h_proposer].
          -- rewrite N.ltb_irrefl.
             destruct (proposer =? 0) eqn:Ep; [apply N.eqb_eq in Ep; exfalso; apply (Hprop eq_refl Ep)|].
             unfold acct_is_zero. rewrite Ez. cbn [andb]. rewrite andb_false_r. reflexivity.
          -- replace (h_payout hdr2 <? 0) with false by (symmetry; apply N.ltb_ge; lia).
             destruct (proposer =? 0) eqn:Ep; [apply N.eqb_eq in Ep; exfalso; apply (Hprop eq_refl Ep)|]. reflexivity.
      + cbn [negb set_payout set_proposer h_payout h_proposer].
        replace (h_payout hdr2 <? 0) with false by (symmetry; apply N.ltb_ge; lia).
        destruct (proposer =? 0) eqn:Ep; [apply N.eqb_eq in Ep; exfalso; apply (Hprop eq_refl Ep)|]. reflexivity.
    - destruct G as [_ _ Goff _ _]. destruct (Goff Epay) as [Gfee Gpo]. rewrite Gfee, Hf0.
      cbn [set_payout h_proposer h_payout N.eqb negb]. rewrite Gp, Hp0. reflexivity. }
  rewrite HV. reflexivity.
Qed.

(* ------------------------------------------------------------------ generate_validates *)
(* everything eval_generate establishes, in one place *)
Lemma generate_inv : forall P c0 L r b pool parts ub,
  eval_generate_cap P c0 L r b pool parts = Ok ub ->
  let hdr1 := set_start (hdr_template r b) (if p_genhash P then lv_genhash L else 0) (lv_nextrs L) in
  let l0 := put layer0 (lv_pool L) (base_lookup L (lv_pool L)) in
  let ev := gen_groups (Eg P c0 r) L (mkEv l0 [] 0) pool in
  start (Eg P c0 r) L (hdr_template r b) = Ok (hdr1, l0) /\
  gen_fields P L hdr1 ev (ub_hdr ub) /\
  ub_payset ub = ev_payset ev /\ ub_delta ub = ev_top ev /\
  ub_final ub = map (fun a => (a, lookup L [ev_top ev] a)) parts.
Proof.
  intros P c0 L r b pool parts ub H hdr1 l0 ev. unfold eval_generate_cap in H. fold (Eg P c0 r) in H.
  inv_bind H as [h1 l0']. destruct (start_gen _ _ _ _ _ _ _ Hb) as (Eh & El & _). subst h1 l0'.
  fold hdr1 l0 ev in H, Hb. inv_bind H as [hdr2 top].
  assert (Hp0 : h_proposer hdr1 = 0) by reflexivity.
  destruct (eob_gen _ _ _ _ _ _ _ _ Hp0 Hb0) as [Et G]. subst top.
  injection H as <-. cbn [ub_hdr ub_payset ub_delta ub_final]. auto.
Qed.

Theorem generate_validates_eq : forall P c0 L r b pool parts proposer elig ub,
  p_applydata P = true ->
  (p_payouts P = true -> proposer <> 0) ->
  eval_generate_cap P c0 L r b pool parts = Ok ub ->
  let blk := finish_block P ub proposer elig in
  eval_validate P L blk = finish_delta P L (b_hdr blk) (ub_delta ub).
Proof.
  intros P c0 L r b pool parts proposer elig ub HA Hprop H blk.
  destruct (generate_inv _ _ _ _ _ _ _ _ H) as (Hst & G & Eps & Ed & Ef).
  set (hdr1 := set_start (hdr_template r b) (if p_genhash P then lv_genhash L else 0) (lv_nextrs L)) in *.
  set (l0 := put layer0 (lv_pool L) (base_lookup L (lv_pool L))) in *.
  set (ev := gen_groups (Eg P c0 r) L (mkEv l0 [] 0) pool) in *.
  destruct ub as [hdr2 ps top finals]. cbn [ub_hdr ub_payset ub_delta ub_final] in *. subst ps top finals.
  destruct (gen_fields_proj _ _ _ _ _ G) as (Gr & Gb & Gp & Gg & Gs & Groot & Gcnt).
  subst blk. unfold eval_validate, eval_block. rewrite fin_hdr_b.
  set (hF := fin_hdr P hdr2 (map (fun a => (a, lookup L [ev_top ev] a)) parts) proposer elig).
  destruct (fin_hdr_same P hdr2 (map (fun a => (a, lookup L [ev_top ev] a)) parts) proposer elig)
    as (Fr & Fb & Fg & Fs & Froot & Fcnt & Ffees & Fload). fold hF in Fr, Fb, Fg, Fs, Froot, Fcnt, Ffees, Fload.
  assert (Hr : h_round hF = r) by (rewrite Fr, Gr; reflexivity).
  rewrite Hr. fold (Ev P r).
  destruct (start_gen _ _ _ _ _ _ _ Hst) as (_ & _ & Hsv).
  rewrite (Hsv hF); cbn [bind].
  2: exact Hr.
  2: rewrite Fb, Gb; reflexivity.
  2: rewrite Fg, Gg; reflexivity.
  2: rewrite Fs, Gs; reflexivity.
  2:{ intro El. rewrite Fload. destruct G as [_ _ _ _ Goff]. rewrite (Goff El). reflexivity. }
  cbn [finish_block b_payset ub_payset].
  destruct (gen_run P c0 r L pool (mkEv l0 [] 0) HA) as (gs & Hps & Hrun). cbn [ev_payset app] in Hps.
  fold ev in Hps, Hrun. rewrite Hps, Hrun. cbn [bind].
  assert (Hp0 : h_proposer hdr1 = 0) by reflexivity.
  assert (Hf0 : h_fees hdr1 = 0) by reflexivity.
  assert (Hpo0 : h_payout hdr1 = 0) by reflexivity.
  pose proof (eob_val_fin P r L hdr1 ev hdr2 parts proposer elig Hprop Hp0 Hf0 Hpo0 G) as HE.
  cbv zeta in HE. fold hF in HE. rewrite HE.
  unfold finish_delta.
  destruct (perform_payout P L hF (ev_top ev)) as [top1|e]; cbn [bind]; [|reflexivity].
  replace (if true && p_loadtracking P then _ else _) with (@Ok unit tt); [reflexivity|].
  cbn [andb]. destruct (p_loadtracking P) eqn:El; [|reflexivity].
  destruct G as [_ _ _ Gon _]. rewrite (Gon El). cbn [bind]. rewrite Fload, N.eqb_refl. reflexivity.
Qed.

(* ------------------------------------------------------------------ validate_unique *)
Lemma eob_val_inv : forall P r L h ev h2 top,
  end_of_block (Ev P r) L h ev = Ok (h2, top) ->
  h2 = h /\ h_root h = payset_commit (ev_payset ev) /\
  h_counter h = (if p_txncounter P then counter L (ev_top ev) else 0) /\
  validate_for_payouts (Ev P r) L h (ev_top ev) = Ok tt.
Proof.
  intros P r L h ev h2 top H. unfold end_of_block in H. cbn [Ev e_P e_generate e_validate bind] in H.
  inv_bind H as []. inv_bind H as top1. injection H as <- _.
  destruct (root_eqb (payset_commit (ev_payset ev)) (h_root h)) eqn:E1; [|discriminate]. apply root_eqb_eq in E1.
  cbn [negb] in Hb.
  destruct (h_counter h =? (if p_txncounter P then counter L (ev_top ev) else 0)) eqn:E2; [|discriminate]. apply N.eqb_eq in E2.
  cbn [negb] in Hb. auto.
Qed.

Lemma vfp_inv : forall P r L h top,
  validate_for_payouts (Ev P r) L h top = Ok tt ->
  (p_payouts P = false -> h_fees h = 0 /\ h_payout h = 0) /\
  (p_payouts P = true -> h_fees h = l_fees top /\
     exists expected, proposer_payout P L top (h_fees h) (h_bonus h) = Ok expected /\ h_payout h <= expected).
Proof.
  intros P r L h top H. unfold validate_for_payouts in H. cbn [Ev e_P e_generate] in H.
  destruct (p_payouts P); cbn [negb] in H; split; intro E; try discriminate E.
  - destruct (h_fees h =? l_fees top) eqn:E1; [|discriminate]. apply N.eqb_eq in E1. cbn [negb] in H.
    inv_bind H as expected. split; [assumption|]. exists expected. split; [reflexivity|].
    destruct (expected <? h_payout h) eqn:E2; [discriminate|]. apply N.ltb_ge in E2. exact E2.
  - destruct (h_fees h =? 0) eqn:E1; [|discriminate]. apply N.eqb_eq in E1. cbn [negb] in H.
    destruct (negb (h_proposer h =? 0)); [discriminate|].
    destruct (h_payout h =? 0) eqn:E2; [|discriminate]. apply N.eqb_eq in E2. auto.
Qed.

Theorem validate_unique : forall P c0 L r b pool parts ub blk' d',
  p_applydata P = true ->
  eval_generate_cap P c0 L r b pool parts = Ok ub ->
  Forall2 same_txns (ub_payset ub) (b_payset blk') ->
  eval_validate P L blk' = Ok d' ->
  b_payset blk' = ub_payset ub /\
  h_round (b_hdr blk') = r /\ h_bonus (b_hdr blk') = b /\
  h_genhash (b_hdr blk') = h_genhash (ub_hdr ub) /\ h_rs (b_hdr blk') = h_rs (ub_hdr ub) /\
  h_root (b_hdr blk') = h_root (ub_hdr ub) /\ h_counter (b_hdr blk') = h_counter (ub_hdr ub) /\
  h_fees (b_hdr blk') = h_fees (ub_hdr ub) /\ h_load (b_hdr blk') = h_load (ub_hdr ub) /\
  h_payout (b_hdr blk') <= h_payout (ub_hdr ub).
Proof.
  intros P c0 L r b pool parts ub [h' ps'] d' HA H HF HV. cbn [b_hdr b_payset] in *.
  destruct (generate_inv _ _ _ _ _ _ _ _ H) as (Hst & G & Eps & Ed & Ef).
  set (hdr1 := set_start (hdr_template r b) (if p_genhash P then lv_genhash L else 0) (lv_nextrs L)) in *.
  set (l0 := put layer0 (lv_pool L) (base_lookup L (lv_pool L))) in *.
  set (ev := gen_groups (Eg P c0 r) L (mkEv l0 [] 0) pool) in *.
  destruct (gen_fields_proj _ _ _ _ _ G) as (Gr & Gb & Gp & Gg & Gs & Groot & Gcnt).
  (* what the generator's own StartEvaluator established about r and b *)
  destruct (start_gen _ _ _ _ _ _ _ Hst) as (_ & _ & Hsv).
  assert (Hs1 : start (Ev P r) L hdr1 = Ok (hdr1, l0)).
  { apply Hsv; try reflexivity. }
  destruct (start_val _ _ _ _ _ _ Hs1) as (_ & _ & Hr1 & Hb1 & _ & Hg1 & Hrs1).
  cbn in Hr1, Hb1.
  (* the validator's run *)
  unfold eval_validate, eval_block in HV. cbn [b_hdr b_payset] in HV.
  inv_bind HV as [h1' l0'] eq Hst'. destruct (start_val _ _ _ _ _ _ Hst') as (-> & -> & Hr' & Hb' & Hl' & Hg' & Hrs').
  assert (Er : h_round h' = r) by (rewrite Hr', Hr1; reflexivity).
  rewrite Er in HV. fold (Ev P r) in HV. fold l0 in HV.
  inv_bind HV as ev' eq Hrun'. inv_bind HV as [h2 top] eq Heob. inv_bind HV as [] eq Hld.
  destruct (gen_run P c0 r L pool (mkEv l0 [] 0) HA) as (gs & Hps & Hrun). cbn [ev_payset app] in Hps. fold ev in Hps, Hrun.
  rewrite Eps, Hps in HF.
  assert (Egs : gs = ps') by (eapply run_val_unique; eauto). subst ps'.
  rewrite Hrun in Hrun'. injection Hrun' as <-.
  destruct (eob_val_inv _ _ _ _ _ _ _ Heob) as (-> & Hroot & Hcnt & Hvfp).
  destruct (vfp_inv _ _ _ _ _ Hvfp) as [Voff Von].
  split; [rewrite Eps, Hps; reflexivity|].
  split; [exact Er|]. split; [rewrite Hb', Hb1; reflexivity|].
  split; [rewrite Gg, Hg'; reflexivity|]. split; [rewrite Gs, Hrs'; reflexivity|].
  split; [rewrite Groot; exact Hroot|]. split; [rewrite Gcnt; exact Hcnt|].
  assert (Hload : h_load h' = h_load (ub_hdr ub)).
  { cbn [andb] in Hld. destruct (p_loadtracking P) eqn:El.
    - inv_bind Hld as load eq Hcl. apply guard_ok in Hld. apply N.eqb_eq in Hld.
      destruct G as [_ _ _ Gon _]. rewrite (Gon El) in Hcl. injection Hcl as <-. exact Hld.
    - destruct G as [_ _ _ _ Goff]. rewrite (Goff El), (Hl' eq_refl). reflexivity. }
  destruct (p_payouts P) eqn:Epay.
  - destruct (Von eq_refl) as (Hfee & expected & Hexp & Hle).
    destruct G as [_ Gon _ _ _]. destruct (Gon Epay) as [Gfee Gpo].
    rewrite Hfee, Hb', <- Hb1 in Hexp. change (h_bonus hdr1) with b in Gpo. rewrite Gpo in Hexp. injection Hexp as <-.
    split; [rewrite Gfee; exact Hfee|]. split; [exact Hload|exact Hle].
  - destruct (Voff eq_refl) as [Hfee Hpo].
    destruct G as [_ _ Goff _ _]. destruct (Goff Epay) as [Gfee Gpo].
    split; [rewrite Gfee, Hfee; reflexivity|]. split; [exact Hload|]. rewrite Hpo. lia.
Qed.

(* the contrapositive, as the brief words it: a block over the same transactions in which a
   generate-computed field deviates is rejected *)
Corollary validate_rejects_deviation : forall P c0 L r b pool parts ub blk',
  p_applydata P = true ->
  eval_generate_cap P c0 L r b pool parts = Ok ub ->
  Forall2 same_txns (ub_payset ub) (b_payset blk') ->
  (b_payset blk' <> ub_payset ub \/                         (* some ApplyData differs *)
   h_genhash (b_hdr blk') <> h_genhash (ub_hdr ub) \/ h_rs (b_hdr blk') <> h_rs (ub_hdr ub) \/
   h_root (b_hdr blk') <> h_root (ub_hdr ub) \/ h_counter (b_hdr blk') <> h_counter (ub_hdr ub) \/
   h_fees (b_hdr blk') <> h_fees (ub_hdr ub) \/ h_load (b_hdr blk') <> h_load (ub_hdr ub) \/
   h_payout (ub_hdr ub) < h_payout (b_hdr blk')) ->
  exists e, eval_validate P L blk' = Err e.
Proof.
  intros P c0 L r b pool parts ub blk' HA H HF Hdev.
  destruct (eval_validate P L blk') as [d'|e] eqn:HV; [|exists e; reflexivity]. exfalso.
  destruct (validate_unique _ _ _ _ _ _ _ _ _ _ HA H HF HV) as (U1 & _ & _ & U2 & U3 & U4 & U5 & U6 & U7 & U8).
  destruct Hdev as [D|[D|[D|[D|[D|[D|[D|D]]]]]]]; try (apply D; assumption). lia.
Qed.
