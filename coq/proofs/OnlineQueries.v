(* C13 lemmas, part C4: every schedule keeps the invariant; onlineCirculation under it. *)
From Coq Require Import Arith PeanoNat NArith List Bool Lia ZifyN ZifyNat ZifyBool.
From Verif.model Require Import Overflow OnlineAccts OnlineAcctsSpec.
From Verif.proofs Require Import OverflowProofs OnlineEntries OnlineTables OnlineSpecLemmas OnlineInv OnlineCommit.
Import ListNotations.
Open Scope N_scope.

(* ---------- schedules ---------- *)
Lemma oblocks_of_app a b : oblocks_of (a ++ b) = oblocks_of a ++ oblocks_of b.
Proof.
  induction a as [|o a IH]; [reflexivity|]. destruct o; cbn [app oblocks_of]; rewrite IH; reflexivity.
Qed.

Lemma orun_inv p G supply0 : op_unit p <> 0 -> 1 <= op_maxbal p ->
  forall ops bs s s', Inv G supply0 bs s -> blocks_ok (bs ++ oblocks_of ops) ->
  orun p s ops = Some s' -> Inv G supply0 (bs ++ oblocks_of ops) s'.
Proof.
  intros Hu Hmb. induction ops as [|o ops IH]; intros bs s s' Hinv Hok Hr; cbn [orun] in Hr.
  - inversion Hr; subst. cbn [oblocks_of]. rewrite app_nil_r. exact Hinv.
  - destruct (ostep p s o) as [s1|] eqn:Es; [|discriminate].
    assert (Hokbs : blocks_ok bs).
    { unfold blocks_ok in *. apply Forall_app in Hok. exact (proj1 Hok). }
    destruct o as [b|off lowest| |rnd k]; cbn [ostep oblocks_of] in *.
    + inversion Es; subst s1.
      replace (bs ++ b :: oblocks_of ops) with ((bs ++ [b]) ++ oblocks_of ops) in * by (rewrite <- app_assoc; reflexivity).
      apply (IH _ _ _ (inv_new_block G supply0 bs s b Hinv
               ltac:(unfold blocks_ok in Hok; apply Forall_app in Hok; destruct Hok as [Hok _];
                     apply Forall_app in Hok; destruct Hok as [_ Hok]; inversion Hok; assumption)) Hok Hr).
    + exact (IH _ _ _ (inv_commit p G supply0 bs s off lowest s1 Hinv Hmb Es) Hok Hr).
    + exact (IH _ _ _ (inv_reload p G supply0 bs s s1 Hinv Hokbs Es) Hok Hr).
    + inversion Es; subst s1.
      destruct (lookup_online p s rnd k) as [s2 r2] eqn:El.
      destruct (lookup_spec p G supply0 bs s rnd k s2 r2 Hinv Hu Hokbs El) as [Hi _].
      exact (IH _ _ _ Hi Hok Hr).
Qed.

Theorem orun_init_inv p G supply0 ops s :
  genesis_ok G -> op_unit p <> 0 -> 1 <= op_maxbal p -> blocks_ok (oblocks_of ops) ->
  orun p (ostate_init p G supply0) ops = Some s -> Inv G supply0 (oblocks_of ops) s.
Proof.
  intros Hg Hu Hmb Hok Hr.
  exact (orun_inv p G supply0 Hu Hmb ops [] _ s (inv_init p G supply0 Hg) Hok Hr).
Qed.

(* ---------- sums ---------- *)
Definition total (g : N -> N) (l : list N) : N := fold_right (fun k s => g k + s) 0 l.

Lemma total_app g a b : total g (a ++ b) = total g a + total g b.
Proof. induction a as [|x a IH]; [reflexivity|]. cbn [app total fold_right] in *. unfold total in *. rewrite IH. lia. Qed.

(* a sum over a duplicate-free list only depends on where the summand is non-zero *)
Lemma total_subset g : forall l1 l2, NoDup l1 -> NoDup l2 ->
  (forall x, In x l1 -> In x l2) -> (forall x, In x l2 -> ~ In x l1 -> g x = 0) ->
  total g l1 = total g l2.
Proof.
  induction l1 as [|x l1 IH]; intros l2 H1 H2 Hsub Hz.
  - induction l2 as [|y l2 IH2]; [reflexivity|]. cbn [total fold_right]. fold (total g l2).
    inversion H2; subst. rewrite (Hz y (or_introl eq_refl) (fun f => f)).
    rewrite <- IH2; [reflexivity|assumption|intros ? []|]. intros z Hzin _. apply Hz; [right; exact Hzin|intros []].
  - inversion H1 as [|? ? Hx H1']; subst.
    destruct (in_split x l2 (Hsub x (or_introl eq_refl))) as (a & b & ->).
    rewrite total_app. cbn [total fold_right]. fold (total g b). fold (total g l1).
    pose proof (NoDup_remove_1 _ _ _ H2) as H2'. pose proof (NoDup_remove_2 _ _ _ H2) as Hxab.
    rewrite (IH (a ++ b) H1' H2').
    + rewrite total_app. lia.
    + intros z Hzin. specialize (Hsub z (or_intror Hzin)). apply in_app_or in Hsub as [Hs|[->|Hs]].
      * apply in_or_app. left; exact Hs.
      * contradiction.
      * apply in_or_app. right; exact Hs.
    + intros z Hzin Hnz. apply Hz.
      * apply in_app_or in Hzin as [Hs|Hs]; apply in_or_app; [left; exact Hs|right; right; exact Hs].
      * intros [->|Hs]; [exact (Hxab Hzin)|exact (Hnz Hs)].
Qed.

Lemma sum_opt_total (f : N -> option N) (g : N -> N) l :
  (forall k, In k l -> f k = Some (g k)) -> sum_opt f l = Some (total g l).
Proof.
  induction l as [|k l IH]; intros H; [reflexivity|]. cbn [sum_opt total fold_right].
  rewrite (H k (or_introl eq_refl)), IH by (intros k' Hk'; apply H; right; exact Hk'). reflexivity.
Qed.

Lemma sum_opt_some (f : N -> option N) l x : sum_opt f l = Some x ->
  exists g, (forall k, In k l -> f k = Some (g k)) /\ x = total g l.
Proof.
  revert x. induction l as [|k l IH]; intros x H.
  - inversion H; subst. exists (fun _ => 0). split; [intros ? []|reflexivity].
  - cbn [sum_opt] in H. destruct (f k) as [y|] eqn:Ek; [|discriminate].
    destruct (sum_opt f l) as [z|] eqn:El; [|discriminate]. inversion H; subst x.
    destruct (IH z eq_refl) as (g & Hg & ->).
    exists (fun k' => match f k' with Some v => v | None => 0 end). split.
    + intros k' [<-|Hk']; [rewrite Ek; reflexivity|]. rewrite (Hg k' Hk'). reflexivity.
    + cbn [total fold_right]. rewrite Ek. f_equal.
      clear -Hg. induction l as [|a l IHl]; [reflexivity|]. cbn [total fold_right].
      rewrite (Hg a (or_introl eq_refl)). f_equal. apply IHl. intros k' Hk'. apply Hg. right; exact Hk'.
Qed.

(* summing MicroAlgosWithRewards with the OverflowTracker: exact, or an error *)
Lemma sum_money_exact : forall (m : list (N * option oad)) acc (g : N -> N),
  (forall k o, In (k, o) m -> exists d, o = Some d /\ d_money d = g k /\ g k < W) -> acc < W ->
  sum_money m acc = if acc + total g (keys m) <? W then ROk (acc + total g (keys m)) else RErr.
Proof.
  induction m as [|[k o] m IH]; intros acc g Hm Hacc; cbn [sum_money keys map fst total fold_right].
  - rewrite N.add_0_r. apply N.ltb_lt in Hacc. rewrite Hacc. reflexivity.
  - destruct (Hm k o (or_introl eq_refl)) as (d & -> & Hd & Hlt). fold (keys m). fold (total g (keys m)).
    pose proof (oadd_exact 64 acc (d_money d) Hacc ltac:(rewrite Hd; exact Hlt)) as [Ha1 Ha2].
    destruct (oadd 64 acc (d_money d)) as [x ov] eqn:Eo. cbn [fst snd] in *. destruct ov.
    + destruct Ha1 as [Ha1 _]. specialize (Ha1 eq_refl). change (M 64) with W in Ha1.
      destruct (N.ltb_spec (acc + (g k + total g (keys m))) W); [lia|reflexivity].
    + rewrite (Ha2 eq_refl) in *.
      assert (Hx : acc + d_money d < W).
      { destruct (N.lt_ge_cases (acc + d_money d) W) as [|Hc]; [assumption|]. change W with (M 64) in Hc. apply Ha1 in Hc. discriminate. }
      rewrite (IH (acc + d_money d) g) by (try exact Hx; intros k' o' Hin; apply Hm; right; exact Hin).
      rewrite Hd. replace (acc + g k + total g (keys m)) with (acc + (g k + total g (keys m))) by lia. reflexivity.
Qed.

(* ---------- the expired accounts of a round ---------- *)
Lemma db_expired_keys rnd vr (rows : table) x : In x (keys (db_expired rnd vr rows)) -> In x (keys rows).
Proof.
  induction rows as [|[k0 es] rows IH]; [intros []|]. cbn [db_expired fold_right fst snd keys map].
  fold (db_expired rnd vr rows). destruct (latest_le rnd es) as [e|].
  - destruct ((b_vlast (snd e) <? vr) && (0 <? b_vlast (snd e))); cbn [keys map fst In].
    + intros [E|H]; [left; exact E|right; exact (IH H)].
    + intros H. right; exact (IH H).
  - intros H. right; exact (IH H).
Qed.

Lemma db_expired_get rnd vr (rows : table) k : NoDup (keys rows) ->
  NoDup (keys (db_expired rnd vr rows)) /\
  aget k (db_expired rnd vr rows) =
    (let b := view (tget k rows) rnd in
     if (b_vlast b <? vr) && (0 <? b_vlast b) then Some b else None).
Proof.
  induction rows as [|[k0 es] rows IH]; intros Hnd.
  - split; [apply NoDup_nil|]. cbn. rewrite andb_false_r. reflexivity.
  - inversion Hnd as [|? ? Hnin Hnd']; subst. destruct (IH Hnd') as [IH1 IH2].
    cbn [db_expired fold_right fst snd tget]. fold (db_expired rnd vr rows).
    assert (Hk0 : aget k0 (db_expired rnd vr rows) = None).
    { apply aget_notin. intros Hc. exact (Hnin (db_expired_keys _ _ _ _ Hc)). }
    unfold view in *. cbn zeta in *.
    destruct (latest_le rnd es) as [e|] eqn:El.
    + destruct ((b_vlast (snd e) <? vr) && (0 <? b_vlast (snd e))) eqn:Ec.
      * split.
        -- cbn [keys map fst]. constructor; [|exact IH1]. intros Hc. exact (Hnin (db_expired_keys _ _ _ _ Hc)).
        -- cbn [aget]. destruct (N.eqb_spec k0 k) as [->|Hne]; [rewrite El, Ec; reflexivity|exact IH2].
      * split; [exact IH1|]. destruct (N.eqb_spec k0 k) as [->|Hne]; [rewrite El, Ec; exact Hk0|exact IH2].
    + split; [exact IH1|]. destruct (N.eqb_spec k0 k) as [->|Hne]; [rewrite El; cbn; rewrite andb_false_r; exact Hk0|exact IH2].
Qed.

Lemma aget_map_val {A B} (f : A -> B) (l : list (N * A)) k :
  aget k (map (fun kb => (fst kb, f (snd kb))) l) = option_map f (aget k l).
Proof.
  induction l as [|[k0 a] l IH]; [reflexivity|]. cbn [map aget fst snd].
  destruct (k0 =? k); [reflexivity|exact IH].
Qed.

Lemma keys_map_val {A B} (f : A -> B) (l : list (N * A)) : keys (map (fun kb => (fst kb, f (snd kb))) l) = keys l.
Proof. unfold keys. rewrite map_map. reflexivity. Qed.

Lemma is_expired_cond vr a :
  (is_online a && negb (a_vlast a =? 0) && (a_vlast a <? vr)) = is_expired vr a.
Proof.
  unfold is_expired. destruct (is_online a); [|reflexivity]. cbn [andb].
  destruct (N.eqb_spec (a_vlast a) 0) as [E|E]; destruct (N.ltb_spec 0 (a_vlast a)); try lia; reflexivity.
Qed.

(* the map of expired accounts after replaying one delta *)
Lemma expired_step_spec unit L vr (mods : list (N * oacct)) : forall (m : list (N * option oad)),
  NoDup (keys mods) -> NoDup (keys m) ->
  NoDup (keys (expired_step unit L vr m mods)) /\
  forall k, aget k (expired_step unit L vr m mods) =
            match aget k mods with
            | Some a => if is_expired vr a then Some (oad_of_acct unit L a) else None
            | None => aget k m
            end.
Proof.
  unfold expired_step. induction mods as [|[k0 a0] mods IH]; intros m Hmn Hn; cbn [fold_left fst snd].
  - split; [exact Hn|reflexivity].
  - inversion Hmn as [|? ? Hnin Hmn']; subst. rewrite is_expired_cond.
    set (m1 := if is_expired vr a0 then aset k0 (oad_of_acct unit L a0) m else adel k0 m).
    assert (Hn1 : NoDup (keys m1)) by (unfold m1; destruct (is_expired vr a0); [apply NoDup_aset|apply NoDup_adel]; exact Hn).
    destruct (IH m1 Hmn' Hn1) as [G1 G2]. split; [exact G1|].
    intros k. rewrite G2. cbn [aget]. destruct (N.eqb_spec k0 k) as [->|Hne].
    + rewrite (aget_notin k mods Hnin). unfold m1. destruct (is_expired vr a0).
      * apply aget_aset_same.
      * apply aget_adel_same. exact Hn.
    + destruct (aget k mods); [reflexivity|]. unfold m1. destruct (is_expired vr a0).
      * apply aget_aset_other. congruence.
      * apply aget_adel_other. congruence.
Qed.

Section Circ.
Variables (p : oparams) (G : list (N * oacct)) (supply0 : N).

Definition hist_u64 (bs : list oblock) : Prop :=
  forall r k, a_malgos (acct_at G bs r k) < W /\ a_rbase (acct_at G bs r k) < W.

(* the state of the expired-accounts map after DB + deltas: exactly the accounts that are online
   at rnd with keys that end before voteRnd, with their agreement data *)
Lemma expired_map bs s rnd vr (dn off : nat) L :
  Inv G supply0 bs s -> blocks_ok bs -> op_unit p <> 0 -> L < W ->
  o_db s = N.of_nat dn -> (off <= length (o_deltas s))%nat ->
  let r0 := N.min rnd (o_db s) in
  (rnd <= o_db s -> off = O) -> (o_db s <= rnd -> N.to_nat rnd = (dn + off)%nat) ->
  (exists H : nat, N.of_nat H <= r0 /\ forall k, rows_acc G bs k (tget k (o_rows s)) (N.of_nat H) (o_db s)) ->
  let m0 := map (fun kb => (fst kb, oad_of_bdata (op_unit p) L (snd kb))) (db_expired rnd vr (o_rows s)) in
  let m := fold_left (expired_step (op_unit p) L vr) (firstn off (o_deltas s)) m0 in
  NoDup (keys m) /\
  forall k, aget k m = let a := acct_at G bs (N.to_nat rnd) k in
                       if is_expired vr a then Some (oad_of_acct (op_unit p) L a) else None.
Proof.
  intros Hinv Hok Hu HL Hdb Hoff r0 Hhist Hmem (H & HH & Hracc) m0 m.
  destruct Hinv as [dn2 hm H2 Hdb2 Hdn Hdl Hand Hacc [HH2 Hhm] Hpar Hdbp Hrnd Hrows Hcnd Hcache].
  assert (dn2 = dn) by lia. subst dn2.
  (* the DB part: the accounts at r0 *)
  assert (Hm0 : NoDup (keys m0) /\ forall k, aget k m0 =
            let a := acct_at G bs (N.to_nat r0) k in
            if is_expired vr a then Some (oad_of_acct (op_unit p) L a) else None).
  { unfold m0. rewrite keys_map_val. split; [exact (proj1 (db_expired_get rnd vr _ 0 Hrnd))|].
    intros k. rewrite aget_map_val, (proj2 (db_expired_get rnd vr _ k Hrnd)). cbn zeta.
    destruct (Hrows k) as (_ & _ & Hupd & _).
    assert (Hv : view (tget k (o_rows s)) rnd = tgt (acct_at G bs (N.to_nat r0) k)).
    { unfold r0. destruct (N.le_ge_cases rnd (o_db s)) as [Hc|Hc].
      - rewrite N.min_l by exact Hc. apply (Hracc k); [unfold r0 in HH; lia|exact Hc].
      - rewrite N.min_r by exact Hc. rewrite (view_beyond _ _ rnd Hupd Hc).
        apply (Hracc k); [unfold r0 in HH; lia|lia]. }
    rewrite Hv. set (a := acct_at G bs (N.to_nat r0) k). unfold tgt, is_expired.
    destruct (is_online a) eqn:Eon.
    - cbn [bdata_of b_vlast andb option_map].
      rewrite (andb_comm (a_vlast a <? vr) (0 <? a_vlast a)).
      destruct ((0 <? a_vlast a) && (a_vlast a <? vr)); [|reflexivity]. cbn [option_map]. f_equal.
      unfold oad_of_acct. rewrite Eon. reflexivity.
    - cbn [bdata0 b_vlast andb]. rewrite andb_false_r. reflexivity. }
  (* replaying the deltas *)
  assert (Gen : forall (j : nat) , (j <= off)%nat ->
            let mj := fold_left (expired_step (op_unit p) L vr) (firstn j (o_deltas s)) m0 in
            NoDup (keys mj) /\ forall k, aget k mj =
              let a := acct_at G bs (N.to_nat r0 + j) k in
              if is_expired vr a then Some (oad_of_acct (op_unit p) L a) else None).
  { induction j as [|j IHj]; intros Hj.
    - cbn [firstn fold_left]. rewrite Nat.add_0_r. exact Hm0.
    - destruct (IHj ltac:(lia)) as [I1 I2]. cbn zeta in *.
      assert (Hjlt : (j < length (o_deltas s))%nat) by lia.
      destruct (nth_error (o_deltas s) j) as [dj|] eqn:Ej; [|apply nth_error_None in Ej; lia].
      assert (Hf : firstn (Datatypes.S j) (o_deltas s) = firstn j (o_deltas s) ++ [dj]).
      { clear -Ej. revert j Ej. induction (o_deltas s) as [|x l IHl]; intros j Ej; [destruct j; discriminate|].
        destruct j as [|j]; [cbn in Ej; inversion Ej; reflexivity|]. cbn [firstn app]. f_equal. apply IHl. exact Ej. }
      rewrite Hf, fold_left_app. cbn [fold_left].
      (* the delta is the mods of block dn + j, each address once *)
      assert (Hb : exists b, nth_error bs (dn + j) = Some b /\ dj = ob_mods b).
      { rewrite Hdl in Ej. rewrite nth_error_map in Ej. destruct (nth_error (skipn dn bs) j) as [b|] eqn:Eb; [|discriminate].
        cbn in Ej. inversion Ej; subst dj. exists b. split; [|reflexivity].
        rewrite <- Eb. clear. revert bs. induction dn as [|d IHd]; intros bs; [reflexivity|].
        destruct bs as [|x bs]; [destruct j; reflexivity|]. cbn [Nat.add nth_error skipn]. apply IHd. }
      destruct Hb as (b & Hnb & ->).
      assert (Hdj : NoDup (keys (ob_mods b))).
      { apply nth_error_In in Hnb. unfold blocks_ok in Hok. rewrite Forall_forall in Hok. apply (Hok b Hnb). }
      destruct (expired_step_spec (op_unit p) L vr (ob_mods b) _ Hdj I1) as [S1 S2]. split; [exact S1|].
      intros k. rewrite S2, I2.
      (* off > 0 here, so the round is in memory and r0 = dn *)
      assert (Hr0 : N.to_nat r0 = dn).
      { unfold r0. destruct (N.le_ge_cases rnd (o_db s)) as [Hc|Hc]; [specialize (Hhist Hc); lia|lia]. }
      rewrite Hr0. replace (dn + Datatypes.S j)%nat with (Datatypes.S (dn + j)) by lia.
      assert (HS : acct_at G bs (Datatypes.S (dn + j)) k =
                   match aget k (ob_mods b) with Some x => x | None => acct_at G bs (dn + j) k end).
      { unfold acct_at.
        assert (Hfs : firstn (Datatypes.S (dn + j)) bs = firstn (dn + j) bs ++ [b]).
        { clear -Hnb. revert Hnb. generalize (dn + j)%nat as n. intros n. revert bs.
          induction n as [|n IHn]; intros bs Hnb; destruct bs as [|x bs]; try discriminate.
          - cbn in Hnb. inversion Hnb; reflexivity.
          - cbn [firstn app]. f_equal. apply IHn. exact Hnb. }
        rewrite Hfs, fold_left_app. reflexivity. }
      rewrite HS. destruct (aget k (ob_mods b)); reflexivity. }
  destruct (Gen off (le_n _)) as [F1 F2]. split; [exact F1|]. intros k. rewrite F2.
  assert (Er : (N.to_nat r0 + off)%nat = N.to_nat rnd).
  { unfold r0. destruct (N.le_ge_cases rnd (o_db s)) as [Hc|Hc].
    - rewrite N.min_l by exact Hc. rewrite (Hhist Hc). lia.
    - rewrite N.min_r by exact Hc. rewrite (Hmem Hc). lia. }
  rewrite Er. reflexivity.
Qed.

End Circ.

(* ---------- the universe of addresses ---------- *)
Lemma universe_touched G bs : universe G bs = touched (G :: map ob_mods bs).
Proof.
  unfold universe, touched. cbn [fold_left].
  generalize (fold_left (fun acc (m : N * oacct) => add_new (fst m) acc) G []) as acc.
  induction bs as [|b bs IH]; intros acc; [reflexivity|]. cbn [map fold_left]. apply IH.
Qed.

Lemma universe_spec G bs : NoDup (universe G bs) /\
  forall k, ~ In k (universe G bs) -> aget k G = None /\ forall b, In b bs -> aget k (ob_mods b) = None.
Proof.
  rewrite universe_touched. destruct (touched_spec (G :: map ob_mods bs)) as [H1 H2]. split; [exact H1|].
  intros k Hk. split.
  - destruct (aget k G) eqn:E; [|reflexivity]. exfalso. apply Hk. apply H2. exists G. split; [left; reflexivity|].
    exact (aget_some_in _ _ _ E).
  - intros b Hb. destruct (aget k (ob_mods b)) eqn:E; [|reflexivity]. exfalso. apply Hk. apply H2.
    exists (ob_mods b). split; [right; apply in_map; exact Hb|exact (aget_some_in _ _ _ E)].
Qed.

Lemma acct_at_outside G bs r k : ~ In k (universe G bs) -> acct_at G bs r k = oacct0.
Proof.
  intros Hk. destruct (proj2 (universe_spec G bs) k Hk) as [Hg Hb]. unfold acct_at, gen_get. rewrite Hg.
  assert (Hf : forall b, In b (firstn r bs) -> aget k (ob_mods b) = None) by (intros b Hin; apply Hb; exact (In_firstn _ _ _ Hin)).
  induction (firstn r bs) as [|b l IH]; [reflexivity|]. cbn [fold_left]. rewrite (Hf b (or_introl eq_refl)).
  apply IH. intros b' Hb'. apply Hf. right; exact Hb'.
Qed.

Lemma aget_in_keys {V} k (l : list (N * V)) : In k (keys l) -> exists v, aget k l = Some v.
Proof.
  induction l as [|[k2 v2] l IH]; [intros []|]. cbn [keys map fst aget]. intros [E|H].
  - subst. rewrite N.eqb_refl. eexists; reflexivity.
  - destruct (k2 =? k); [eexists; reflexivity|exact (IH H)].
Qed.

Lemma in_aget_nodup {V} k (v : V) l : NoDup (keys l) -> In (k, v) l -> aget k l = Some v.
Proof. exact (aget_in_nodup k v l). Qed.

Section CircThm.
Variables (p : oparams) (G : list (N * oacct)) (supply0 : N).

Theorem circulation_spec bs s rnd vr :
  Inv G supply0 bs s -> blocks_ok bs -> op_unit p <> 0 -> hist_u64 G bs -> supply0 < W ->
  circulation p s rnd vr =
  match params_at s rnd with
  | None => RErr
  | Some rp =>
      if op_exclude p && negb (rnd =? 0) then
        match spec_expired p G supply0 bs (N.to_nat rnd) vr with
        | Some ex => if ex <? W then (if rp_supply rp <? ex then RErr else ROk (rp_supply rp - ex)) else RErr
        | None => circulation p s rnd vr
        end
      else ROk (rp_supply rp)
  end.
Proof.
  intros Hinv Hok Hu H64 Hs0. unfold circulation at 1.
  destruct (params_at s rnd) as [rp|] eqn:Erp; [|reflexivity].
  destruct (op_exclude p) eqn:Eex; cbn [andb]; [|reflexivity].
  destruct (N.eqb_spec rnd 0) as [|Hr0]; cbn [negb]; [reflexivity|].
  destruct (spec_expired p G supply0 bs (N.to_nat rnd) vr) as [ex|] eqn:Esp.
  2:{ unfold circulation. rewrite Erp, Eex. destruct (N.eqb_spec rnd 0); [contradiction|]. reflexivity. }
  pose proof (inv_latest _ _ _ _ Hinv) as Hlat.
  pose proof Hinv as Hinv0.
  destruct Hinv as [dn hm H Hdb Hdn Hdl Hand Hacc [HH Hhm] Hpar Hdbp Hrnd Hrows Hcnd Hcache].
  assert (Hdlen : length (o_deltas s) = (length bs - dn)%nat) by (rewrite Hdl, map_length, skipn_length; reflexivity).
  (* servability *)
  assert (Hserv : N.of_nat hm <= rnd /\ rnd <= N.of_nat (length bs) /\ rp = params_spec supply0 bs (N.to_nat rnd)).
  { assert (Hplen : length (o_params s) = (Datatypes.S (length bs) - hm)%nat) by (rewrite Hpar, map_length, seq_length; reflexivity).
    assert (Hst : params_start s = N.of_nat hm) by (unfold params_start; rewrite Hlat, Hplen; lia).
    unfold params_at, params_offset in Erp. rewrite Hst, Hplen in Erp.
    destruct (N.ltb_spec rnd (N.of_nat hm)); [discriminate|].
    destruct (Nat.leb_spec (Datatypes.S (length bs) - hm) (N.to_nat (rnd - N.of_nat hm))); [discriminate|].
    split; [assumption|]. split; [lia|].
    rewrite Hpar, nth_error_map, nth_error_nth' with (d := O) in Erp by (rewrite seq_length; lia).
    rewrite seq_nth in Erp by lia. cbn [option_map] in Erp. inversion Erp. f_equal. lia. }
  destruct Hserv as (Hlo & Hhi & ->).
  set (L := rp_level (params_spec supply0 bs (N.to_nat rnd))) in *.
  set (supply := rp_supply (params_spec supply0 bs (N.to_nat rnd))) in *.
  assert (HL : L < W) by (apply level_lt_W; exact Hok).
  assert (HS : supply < W) by (apply supply_lt_W; assumption).
  (* the offset *)
  assert (Hro : exists off, (off <= length (o_deltas s))%nat /\
                            (rnd <= o_db s -> off = O) /\ (o_db s <= rnd -> N.to_nat rnd = (dn + off)%nat) /\
                            expired_circulation p s rnd vr (params_spec supply0 bs (N.to_nat rnd)) =
                            sum_money (fold_left (expired_step (op_unit p) L vr) (firstn off (o_deltas s))
                                         (map (fun kb => (fst kb, oad_of_bdata (op_unit p) L (snd kb))) (db_expired rnd vr (o_rows s)))) 0).
  { unfold expired_circulation, round_offset. fold L. destruct (N.ltb_spec rnd (o_db s)).
    - exists O. repeat split; try lia.
    - destruct (Nat.ltb_spec (length (o_deltas s)) (N.to_nat (rnd - o_db s))); [lia|].
      exists (N.to_nat (rnd - o_db s)). repeat split; try lia. }
  destruct Hro as (off & Hoffl & Hh1 & Hh2 & ->).
  destruct (expired_map p G supply0 bs s rnd vr dn off L Hinv0 Hok Hu HL Hdb Hoffl Hh1 Hh2) as [Mnd Mget].
  { exists H. split; [lia|]. intros k. exact (proj2 (proj2 (proj2 (Hrows k)))). }
  set (m := fold_left (expired_step (op_unit p) L vr) (firstn off (o_deltas s))
              (map (fun kb => (fst kb, oad_of_bdata (op_unit p) L (snd kb))) (db_expired rnd vr (o_rows s)))) in *.
  (* the exact summands *)
  unfold spec_expired in Esp. fold L in Esp.
  destruct (sum_opt_some _ _ _ Esp) as (g & Hg & ->).
  destruct (universe_spec G bs) as [Und Uout].
  (* entries of m: expired accounts with their exact money *)
  assert (Hent : forall k o, In (k, o) m -> exists d, o = Some d /\ d_money d = g k /\ g k < W).
  { intros k o Hin. pose proof (in_aget_nodup _ _ _ Mnd Hin) as Ha. rewrite Mget in Ha. cbn zeta in Ha.
    destruct (is_expired vr (acct_at G bs (N.to_nat rnd) k)) eqn:Ee; [|discriminate]. inversion Ha; subst o. clear Ha.
    destruct (H64 (N.to_nat rnd) k) as [Hm Hr].
    rewrite (oad_of_acct_exact _ _ _ Hm Hr HL).
    assert (Hin_u : In k (universe G bs)).
    { destruct (in_dec N.eq_dec k (universe G bs)) as [|Hn]; [assumption|]. exfalso.
      rewrite (acct_at_outside G bs _ k Hn) in Ee. discriminate. }
    specialize (Hg k Hin_u). cbn zeta in Hg. rewrite Ee in Hg.
    unfold spec_oad. unfold is_expired in Ee. apply andb_true_iff in Ee as [Ee _]. apply andb_true_iff in Ee as [Eon _].
    rewrite Eon. cbn [negb]. rewrite Hg. eexists. split; [reflexivity|]. cbn [d_money]. split; [reflexivity|].
    unfold exact_money in Hg. destruct (op_unit p =? 0); [discriminate|].
    destruct (_ <? _); [discriminate|].
    match type of Hg with (if ?c then _ else _) = _ => destruct c eqn:Ec; [|discriminate] end.
    apply N.ltb_lt in Ec. inversion Hg; subst. exact Ec. }
  rewrite (sum_money_exact m 0 g Hent) by reflexivity. rewrite N.add_0_l.
  (* the two sums agree *)
  assert (Htot : total g (keys m) = total g (universe G bs)).
  { apply total_subset; [exact Mnd|exact Und| |].
    - intros k Hk. destruct (aget_in_keys _ _ Hk) as (o & Ho). rewrite Mget in Ho. cbn zeta in Ho.
      destruct (is_expired vr (acct_at G bs (N.to_nat rnd) k)) eqn:Ee; [|discriminate].
      destruct (in_dec N.eq_dec k (universe G bs)) as [|Hn]; [assumption|]. exfalso.
      rewrite (acct_at_outside G bs _ k Hn) in Ee. discriminate.
    - intros k Hk Hnk. specialize (Hg k Hk). cbn zeta in Hg.
      destruct (is_expired vr (acct_at G bs (N.to_nat rnd) k)) eqn:Ee.
      + exfalso. apply Hnk. assert (Ha : aget k m <> None) by (rewrite Mget; cbn zeta; rewrite Ee; discriminate).
        destruct (aget k m) eqn:Ea; [exact (aget_some_in _ _ _ Ea)|contradiction].
      + inversion Hg. reflexivity. }
  rewrite Htot.
  destruct (total g (universe G bs) <? W) eqn:Et; [|reflexivity].
  apply N.ltb_lt in Et.
  rewrite (osub_spec 64 supply (total g (universe G bs)) HS Et).
  destruct (N.ltb_spec supply (total g (universe G bs))) as [Hlt|Hge]; [reflexivity|].
  f_equal. change (M 64) with W. rewrite mod_once by lia. lia.
Qed.

End CircThm.

(* ---------- the statements of the property, for every schedule ---------- *)
Section Final.
Variables (p : oparams) (G : list (N * oacct)) (supply0 : N).

Lemma hist_u64_of bs :
  (forall k a, In (k, a) G -> a_malgos a < W /\ a_rbase a < W) ->
  (forall b k a, In b bs -> In (k, a) (ob_mods b) -> a_malgos a < W /\ a_rbase a < W) ->
  hist_u64 G bs.
Proof.
  intros Hg Hb r k. unfold acct_at.
  assert (H0 : a_malgos (gen_get k G) < W /\ a_rbase (gen_get k G) < W).
  { unfold gen_get. destruct (aget k G) as [a|] eqn:E; [|split; reflexivity].
    assert (Hin : In (k, a) G).
    { clear -E. induction G as [|[k2 a2] l IH]; [discriminate|]. cbn [aget] in E.
      destruct (N.eqb_spec k2 k) as [->|]; [inversion E; left; reflexivity|right; exact (IH E)]. }
    exact (Hg k a Hin). }
  assert (Hf : forall b, In b (firstn r bs) -> In b bs) by (intros b; apply In_firstn).
  revert H0. generalize (gen_get k G) as a0. induction (firstn r bs) as [|b l IH]; intros a0 H0; [exact H0|].
  cbn [fold_left]. apply IH.
  - intros b' Hb'. apply Hf. right; exact Hb'.
  - destruct (aget k (ob_mods b)) as [x|] eqn:E; [|exact H0].
    assert (Hin : In (k, x) (ob_mods b)).
    { clear -E. induction (ob_mods b) as [|[k2 a2] l' IH']; [discriminate|]. cbn [aget] in E.
      destruct (N.eqb_spec k2 k) as [->|]; [inversion E; left; reflexivity|right; exact (IH' E)]. }
    exact (Hb b k x (Hf b (or_introl eq_refl)) Hin).
Qed.

(* LookupAgreement after ANY schedule: an error outside the retained rounds, otherwise exactly the
   agreement data of the account the block history implies at that round (rewards applied at
   that round's level); every round from the DB round to the latest is served *)
Theorem lookup_any_schedule ops s rnd k s' res :
  genesis_ok G -> op_unit p <> 0 -> 1 <= op_maxbal p ->
  blocks_ok (oblocks_of ops) -> hist_u64 G (oblocks_of ops) ->
  orun p (ostate_init p G supply0) ops = Some s ->
  lookup_online p s rnd k = (s', res) ->
  (res = RErr \/ res = lift (spec_lookup p G supply0 (oblocks_of ops) (N.to_nat rnd) k)) /\
  (o_db s <= rnd -> rnd <= o_latest s -> res = lift (spec_lookup p G supply0 (oblocks_of ops) (N.to_nat rnd) k)) /\
  (res <> RErr -> rnd <= o_latest s).
Proof.
  intros Hg Hu Hmb Hok H64 Hrun Hl.
  pose proof (orun_init_inv p G supply0 ops s Hg Hu Hmb Hok Hrun) as Hinv.
  destruct (lookup_spec p G supply0 _ s rnd k s' res Hinv Hu Hok Hl) as [_ Hres].
  pose proof (inv_latest _ _ _ _ Hinv) as Hlat.
  assert (Hconv : forall rp, params_at s rnd = Some rp ->
            lift (oad_of_acct (op_unit p) (rp_level rp) (acct_at G (oblocks_of ops) (N.to_nat rnd) k)) =
            lift (spec_lookup p G supply0 (oblocks_of ops) (N.to_nat rnd) k) /\ rnd <= o_latest s).
  { intros rp Hrp. destruct (inv_params_at G supply0 _ s Hinv rnd) as (hm & _ & Hpa). rewrite Hpa in Hrp.
    destruct (N.leb_spec (N.of_nat hm) rnd); [|discriminate]. destruct (N.leb_spec rnd (N.of_nat (length (oblocks_of ops)))); [|discriminate].
    cbn [andb] in Hrp. inversion Hrp; subst rp. split; [|lia].
    unfold spec_lookup. destruct (H64 (N.to_nat rnd) k) as [Hm Hr].
    rewrite (oad_of_acct_exact _ _ _ Hm Hr (level_lt_W supply0 _ _ Hok)). reflexivity. }
  destruct (params_at s rnd) as [rp|] eqn:Erp.
  - destruct (Hconv rp eq_refl) as [Hc Hle]. rewrite Hc in Hres. repeat split; auto.
  - split; [left; exact Hres|]. split; [|intros Hn; contradiction].
    intros Hlo Hhi. exfalso.
    destruct Hinv as [dn hm H Hdb Hdn Hdl Hand Hacc [HH Hhm] Hpar Hdbp Hrnd Hrows Hcnd Hcache].
    assert (Hplen : length (o_params s) = (Datatypes.S (length (oblocks_of ops)) - hm)%nat) by (rewrite Hpar, map_length, seq_length; reflexivity).
    assert (Hst : params_start s = N.of_nat hm) by (unfold params_start; rewrite Hlat, Hplen; lia).
    unfold params_at, params_offset in Erp. rewrite Hst, Hplen in Erp.
    destruct (N.ltb_spec rnd (N.of_nat hm)); [lia|].
    destruct (Nat.leb_spec (Datatypes.S (length (oblocks_of ops)) - hm) (N.to_nat (rnd - N.of_nat hm))); [lia|].
    rewrite Hpar, nth_error_map, nth_error_nth' with (d := O) in Erp by (rewrite seq_length; lia). discriminate.
Qed.

(* the answer does not depend on the flush / reload / query schedule *)
Corollary lookup_schedule_independent ops1 ops2 s1 s2 rnd k s1' s2' r1 r2 :
  genesis_ok G -> op_unit p <> 0 -> 1 <= op_maxbal p ->
  oblocks_of ops1 = oblocks_of ops2 ->
  blocks_ok (oblocks_of ops1) -> hist_u64 G (oblocks_of ops1) ->
  orun p (ostate_init p G supply0) ops1 = Some s1 -> orun p (ostate_init p G supply0) ops2 = Some s2 ->
  lookup_online p s1 rnd k = (s1', r1) -> lookup_online p s2 rnd k = (s2', r2) ->
  r1 <> RErr -> r2 <> RErr -> r1 = r2.
Proof.
  intros Hg Hu Hmb Hb Hok H64 Hr1 Hr2 Hl1 Hl2 Hn1 Hn2.
  destruct (lookup_any_schedule ops1 s1 rnd k s1' r1 Hg Hu Hmb Hok H64 Hr1 Hl1) as [[E1|E1] _]; [contradiction|].
  rewrite Hb in Hok, H64.
  destruct (lookup_any_schedule ops2 s2 rnd k s2' r2 Hg Hu Hmb Hok H64 Hr2 Hl2) as [[E2|E2] _]; [contradiction|].
  rewrite E1, E2, Hb. reflexivity.
Qed.

(* OnlineCirculation after ANY schedule *)
Theorem circulation_any_schedule ops s rnd vr :
  genesis_ok G -> op_unit p <> 0 -> 1 <= op_maxbal p -> supply0 < W ->
  blocks_ok (oblocks_of ops) -> hist_u64 G (oblocks_of ops) ->
  orun p (ostate_init p G supply0) ops = Some s ->
  forall ex, spec_expired p G supply0 (oblocks_of ops) (N.to_nat rnd) vr = Some ex ->
  circulation p s rnd vr =
  match params_at s rnd with
  | None => RErr
  | Some _ =>
      let supply := rp_supply (params_spec supply0 (oblocks_of ops) (N.to_nat rnd)) in
      if op_exclude p && negb (rnd =? 0) then
        if ex <? W then (if supply <? ex then RErr else ROk (supply - ex)) else RErr
      else ROk supply
  end.
Proof.
  intros Hg Hu Hmb Hs0 Hok H64 Hrun ex Hex.
  pose proof (orun_init_inv p G supply0 ops s Hg Hu Hmb Hok Hrun) as Hinv.
  rewrite (circulation_spec p G supply0 _ s rnd vr Hinv Hok Hu H64 Hs0).
  destruct (inv_params_at G supply0 _ s Hinv rnd) as (hm & _ & Hpa). rewrite Hpa.
  destruct ((N.of_nat hm <=? rnd) && (rnd <=? N.of_nat (length (oblocks_of ops)))); [|reflexivity].
  cbn zeta. rewrite Hex. reflexivity.
Qed.

End Final.
