(* C20, part 3: the payout that validate mode performs on top of the generator's delta cannot
   fail when the ledger's money supply fits in 64 bits (every finite set of accounts sums to
   at most S < 2^64; conserved by Move, C18), so the generated block always validates. *)
From Coq Require Import NArith List Bool Lia ZifyN ZifyNat ZifyBool.
From Verif.model Require Import GenVal.
From Verif.proofs Require Import GenValProofs GenValTheorems.
Import ListNotations.
Open Scope N_scope.

Fixpoint sumf (f : N -> N) (V : list N) : N :=
  match V with [] => 0 | a :: r => f a + sumf f r end.

Definition bounded (S : N) (f : N -> N) : Prop := forall V, NoDup V -> sumf f V <= S.

Definition upd (f : N -> N) (k v : N) : N -> N := fun a => if a =? k then v else f a.

Lemma sumf_ext : forall f g V, (forall a, f a = g a) -> sumf f V = sumf g V.
Proof. intros f g V H. induction V as [|a V IH]; cbn; [reflexivity|]. rewrite H, IH. reflexivity. Qed.

Lemma bounded_ext : forall S f g, (forall a, g a = f a) -> bounded S f -> bounded S g.
Proof. intros S f g H B V HV. rewrite (sumf_ext g f V H). apply B, HV. Qed.

Lemma sumf_upd_notin : forall f k v V, ~ In k V -> sumf (upd f k v) V = sumf f V.
Proof.
  intros f k v V. induction V as [|a V IH]; intro H; cbn; [reflexivity|].
  unfold upd at 1. destruct (a =? k) eqn:E; [apply N.eqb_eq in E; subst; exfalso; apply H; left; reflexivity|].
  rewrite IH; [reflexivity|]. intro I. apply H. right. exact I.
Qed.

Lemma sumf_upd_in : forall f k v V, NoDup V -> In k V -> sumf (upd f k v) V + f k = sumf f V + v.
Proof.
  intros f k v V ND. induction ND as [|a V Hn ND IH]; intro I; [destruct I|]. cbn.
  unfold upd at 1. destruct (a =? k) eqn:E.
  - apply N.eqb_eq in E. subst a. rewrite sumf_upd_notin by assumption. lia.
  - destruct I as [I|I]; [subst; rewrite N.eqb_refl in E; discriminate|]. specialize (IH I). lia.
Qed.

Lemma bounded_point : forall S f a, bounded S f -> f a <= S.
Proof.
  intros S f a B. specialize (B [a]). cbn in B. rewrite N.add_0_r in B. apply B.
  constructor; [intros []|constructor].
Qed.

(* a transfer of [amt] from [from] to [to] (in this order, as Move writes) keeps every finite
   sum below S *)
Lemma bounded_transfer : forall S f from to amt,
  bounded S f -> amt <= f from ->
  let f1 := upd f from (f from - amt) in
  bounded S (upd f1 to (f1 to + amt)).
Proof.
  intros S f from to amt B Hle f1 V ND.
  assert (H1 : forall W, NoDup W -> In from W -> sumf f1 W + amt = sumf f W).
  { intros W NW IW. pose proof (sumf_upd_in f from (f from - amt) W NW IW). subst f1. lia. }
  assert (H1' : forall W, ~ In from W -> sumf f1 W = sumf f W).
  { intros W NW. apply sumf_upd_notin. exact NW. }
  destruct (in_dec N.eq_dec to V) as [It|It].
  - pose proof (sumf_upd_in f1 to (f1 to + amt) V ND It) as H2.
    destruct (in_dec N.eq_dec from V) as [If|If].
    + specialize (H1 V ND If). specialize (B V ND). lia.
    + rewrite (H1' V If) in H2.
      assert (NDf : NoDup (from :: V)) by (constructor; assumption).
      specialize (B (from :: V) NDf). cbn in B. lia.
  - rewrite sumf_upd_notin by assumption.
    destruct (in_dec N.eq_dec from V) as [If|If].
    + specialize (H1 V ND If). specialize (B V ND). lia.
    + rewrite (H1' V If). apply B, ND.
Qed.

(* ------------------------------------------------------------------ lookups *)
Definition bal (L : lview) (ls : list layer) : N -> N := fun a => a_algos (lookup L ls a).

Lemma afind_aupsert : forall (V : Type) k (v : V) l a,
  afind a (aupsert k v l) = if a =? k then Some v else afind a l.
Proof.
  intros V k v l a. induction l as [|[k' v'] l IH]; cbn.
  - rewrite (N.eqb_sym k a). reflexivity.
  - destruct (k' =? k) eqn:E; cbn.
    + apply N.eqb_eq in E. subst k'. rewrite (N.eqb_sym k a). destruct (a =? k); reflexivity.
    + rewrite IH. destruct (k' =? a) eqn:E2; [|reflexivity].
      apply N.eqb_eq in E2. subst k'. rewrite E. reflexivity.
Qed.

Lemma lookup_put : forall L l below k x a,
  lookup L (put l k x :: below) a = if a =? k then x else lookup L (l :: below) a.
Proof.
  intros. cbn [lookup put l_accts]. rewrite afind_aupsert. destruct (a =? k); reflexivity.
Qed.

Lemma bal_put : forall L l below k x a,
  bal L (put l k x :: below) a = upd (bal L (l :: below)) k (a_algos x) a.
Proof. intros. unfold bal, upd. rewrite lookup_put. destruct (a =? k); reflexivity. Qed.

Lemma bal_put_algos : forall L l below k x v a,
  bal L (put l k (set_algos x v) :: below) a = upd (bal L (l :: below)) k v a.
Proof. intros. rewrite bal_put. reflexivity. Qed.

Lemma upd_ext : forall g h k v a, (forall a, g a = h a) -> upd g k (g k + v) a = upd h k (h k + v) a.
Proof. intros g h k v a H. unfold upd. rewrite !H. reflexivity. Qed.

Lemma keys_aupsert_nodup : forall (V : Type) k (v : V) l,
  NoDup (map fst l) -> NoDup (map fst (aupsert k v l)).
Proof.
  intros V k v l. induction l as [|[k' v'] l IH]; intro ND; cbn.
  - constructor; [intros []|constructor].
  - inversion ND as [|? ? Hn ND']; subst. destruct (k' =? k) eqn:E; cbn.
    + constructor; assumption.
    + constructor; [|apply IH; assumption].
      intro I. apply in_map_iff in I as ((k2 & v2) & Ek & I). cbn in Ek. subst k2.
      assert (afind k' (aupsert k v l) <> None).
      { clear - I. induction (aupsert k v l) as [|[a b] r IHr]; [destruct I|]. cbn.
        destruct (a =? k') eqn:E; [discriminate|]. destruct I as [I|I]; [inversion I; subst; rewrite N.eqb_refl in E; discriminate|auto]. }
      rewrite afind_aupsert, E in H.
      apply H. clear - Hn. induction l as [|[a b] r IHr]; [reflexivity|]. cbn in *.
      destruct (a =? k') eqn:E; [apply N.eqb_eq in E; subst; exfalso; apply Hn; left; reflexivity|].
      apply IHr. intro I. apply Hn. right. exact I.
Qed.

Lemma afind_notin : forall (V : Type) k (l : list (N * V)), ~ In k (map fst l) -> afind k l = None.
Proof.
  intros V k l. induction l as [|[a b] r IH]; intro H; [reflexivity|]. cbn in *.
  destruct (a =? k) eqn:E; [apply N.eqb_eq in E; subst; exfalso; apply H; left; reflexivity|].
  apply IH. intro I. apply H. right. exact I.
Qed.

Lemma afind_merge : forall from into a,
  NoDup (map fst from) ->
  afind a (merge_accts into from) = match afind a from with Some x => Some x | None => afind a into end.
Proof.
  induction from as [|[k x] r IH]; intros into a ND; [reflexivity|].
  cbn [merge_accts afind]. inversion ND as [|? ? Hn ND']; subst.
  rewrite IH by assumption. rewrite afind_aupsert.
  destruct (k =? a) eqn:E.
  - apply N.eqb_eq in E. subst a. rewrite (afind_notin _ k r Hn), N.eqb_refl. reflexivity.
  - rewrite N.eqb_sym, E. reflexivity.
Qed.

Lemma lookup_merge : forall L p c a,
  NoDup (map fst (l_accts c)) -> lookup L [merge p c] a = lookup L [c; p] a.
Proof.
  intros L p c a ND. cbn [lookup merge l_accts]. rewrite afind_merge by assumption.
  destruct (afind a (l_accts c)); reflexivity.
Qed.

Definition keys_ok (l : layer) : Prop := NoDup (map fst (l_accts l)).

Lemma keys_ok_put : forall l k x, keys_ok l -> keys_ok (put l k x).
Proof. intros. unfold keys_ok, put. cbn. apply keys_aupsert_nodup. assumption. Qed.

(* ------------------------------------------------------------------ Move and what is built on it *)
Lemma move_bounded : forall S P L below l from to amt l',
  move P L below l from to amt = Ok l' ->
  bounded S (bal L (l :: below)) -> keys_ok l ->
  bounded S (bal L (l' :: below)) /\ keys_ok l'.
Proof.
  intros S P L below l from to amt l' H B K. unfold move in H.
  destruct (p_unit P =? 0); [discriminate|].
  set (f := bal L (l :: below)) in *.
  destruct (writes P amt (lookup L (l :: below) from)) eqn:W1.
  - destruct (a_algos (lookup L (l :: below) from) <? amt) eqn:E1; [discriminate|]. apply N.ltb_ge in E1.
    cbn [bind] in H.
    remember (put l from (set_algos (lookup L (l :: below) from) (a_algos (lookup L (l :: below) from) - amt))) as l1 eqn:El1.
    assert (F1 : forall a, bal L (l1 :: below) a = upd f from (f from - amt) a).
    { intro a. rewrite El1, bal_put. reflexivity. }
    assert (K1 : keys_ok l1) by (rewrite El1; apply keys_ok_put; assumption).
    clear El1.
    destruct (writes P amt (lookup L (l1 :: below) to)) eqn:W2.
    + destruct (W64 <=? _); [discriminate|]. injection H as <-. split; [|apply keys_ok_put; assumption].
      eapply bounded_ext; [|apply (bounded_transfer S f from to amt B E1)].
      intro a. rewrite bal_put_algos.
      change (a_algos (lookup L (l1 :: below) to)) with (bal L (l1 :: below) to).
      apply upd_ext. exact F1.
    + injection H as <-. split; [|assumption].
      (* nothing written for the receiver: amt = 0 *)
      assert (amt = 0). { unfold writes in W2. destruct (amt =? 0) eqn:E; [apply N.eqb_eq in E; assumption|discriminate]. }
      subst amt. eapply bounded_ext; [|exact B]. intro a. rewrite F1. unfold upd. rewrite N.sub_0_r.
      destruct (a =? from) eqn:E; [apply N.eqb_eq in E; subst; reflexivity|reflexivity].
  - cbn [bind] in H.
    assert (amt = 0). { unfold writes in W1. destruct (amt =? 0) eqn:E; [apply N.eqb_eq in E; assumption|discriminate]. }
    subst amt.
    destruct (writes P 0 (lookup L (l :: below) to)) eqn:W2.
    + destruct (W64 <=? _); [discriminate|]. injection H as <-. split; [|apply keys_ok_put; assumption].
      eapply bounded_ext; [|exact B]. intro a. rewrite bal_put_algos. unfold upd.
      rewrite N.add_0_r. destruct (a =? to) eqn:E; [apply N.eqb_eq in E; subst; reflexivity|reflexivity].
    + injection H as <-. auto.
Qed.

Lemma bal_same_accts : forall L l l' below a,
  l_accts l' = l_accts l -> bal L (l' :: below) a = bal L (l :: below) a.
Proof. intros. unfold bal. cbn [lookup]. rewrite H. reflexivity. Qed.

Lemma apply_bounded : forall S P L below l tx l' a',
  apply_transaction P L below l tx = Ok (l', a') ->
  bounded S (bal L (l :: below)) -> keys_ok l ->
  bounded S (bal L (l' :: below)) /\ keys_ok l'.
Proof.
  intros S P L below l tx l' a' H B K. unfold apply_transaction in H.
  inv_bind H as l1 eq Hfee. unfold take_fee in Hfee. inv_bind Hfee as l0 eq Hm.
  destruct (move_bounded S _ _ _ _ _ _ _ _ Hm B K) as [B0 K0].
  assert (B1 : bounded S (bal L (l1 :: below)) /\ keys_ok l1).
  { destruct (t_snd tx =? lv_sink L); injection Hfee as <-; [auto|].
    split; [|exact K0]. eapply bounded_ext; [|exact B0]. intro a. apply bal_same_accts. reflexivity. }
  destruct B1 as [B1 K1]. unfold payment in H.
  inv_bind H as l2 eq Hpay.
  assert (B2 : bounded S (bal L (l2 :: below)) /\ keys_ok l2).
  { destruct (negb (t_amt tx =? 0) || negb (t_rcv tx =? 0)); [eapply move_bounded; eauto|injection Hpay as <-; auto]. }
  destruct B2 as [B2 K2].
  destruct (t_close tx =? 0); [injection H as <- _; auto|].
  inv_bind H as l3 eq Hcl. destruct (move_bounded S _ _ _ _ _ _ _ _ Hcl B2 K2) as [B3 K3].
  destruct (a_algos (lookup L (l3 :: below) (t_snd tx)) =? 0) eqn:Ez; [|discriminate]. apply N.eqb_eq in Ez.
  cbn [negb] in H. injection H as <- _. split; [|apply keys_ok_put; assumption].
  eapply bounded_ext; [|exact B3]. intro a. rewrite bal_put. unfold upd. cbn [acct0 a_algos].
  destruct (a =? t_snd tx) eqn:E; [apply N.eqb_eq in E; subst a; unfold bal; rewrite Ez; reflexivity|reflexivity].
Qed.

Lemma transaction_bounded : forall S E L parent c s c' s',
  transaction E L parent c s = Ok (c', s') ->
  bounded S (bal L [c; parent]) -> keys_ok c ->
  bounded S (bal L [c'; parent]) /\ keys_ok c'.
Proof.
  intros S E L parent c s c' s' H B K. unfold transaction in H.
  inv_bind H as [] eq H1. inv_bind H as [c1 a1] eq H2. inv_bind H as [] eq H3. inv_bind H as [] eq H4.
  injection H as <- _. destruct (apply_bounded S _ _ _ _ _ _ _ H2 B K) as [B1 K1].
  split; [|exact K1]. eapply bounded_ext; [|exact B1]. intro a. apply bal_same_accts. reflexivity.
Qed.

Lemma loop_bounded : forall S E L parent bb txs c gb c' ss gb',
  group_loop E L parent c bb gb txs = Ok (c', ss, gb') ->
  bounded S (bal L [c; parent]) -> keys_ok c ->
  bounded S (bal L [c'; parent]) /\ keys_ok c'.
Proof.
  intros S E L parent bb txs. induction txs as [|s txs IH]; intros c gb c' ss gb' H B K.
  - cbn in H. injection H as <- _ _. auto.
  - cbn [group_loop] in H. inv_bind H as [c1 s1] eq H1.
    destruct (transaction_bounded S _ _ _ _ _ _ _ H1 B K) as [B1 K1].
    destruct (e_validate E && _); [discriminate|].
    destruct (negb (t_gidok (fst s))); [discriminate|].
    inv_bind H as [[c2 ss2] gb2] eq H2. injection H as <- _ _. eapply IH; eauto.
Qed.

Lemma group_bounded : forall S E L ev g ev',
  transaction_group E L ev g = Ok ev' ->
  bounded S (bal L [ev_top ev]) -> bounded S (bal L [ev_top ev']).
Proof.
  intros S E L ev g ev' H B. unfold transaction_group in H.
  destruct (g_txns g) eqn:Htx; [injection H as <-; exact B|]. rewrite <- Htx in H.
  destruct (p_maxgroup _ <? _); [discriminate|]. destruct (e_validate E && _); [discriminate|].
  inv_bind H as [[c ss] gb] eq Hl.
  destruct (negb (g_gid g)); [discriminate|]. destruct (negb (g_feeok g)); [discriminate|].
  injection H as <-. cbn [ev_top].
  assert (B0 : bounded S (bal L [layer0; ev_top ev])) by (eapply bounded_ext; [|exact B]; reflexivity).
  assert (K0 : keys_ok layer0) by constructor.
  destruct (loop_bounded S _ _ _ _ _ _ _ _ _ _ Hl B0 K0) as [B1 K1].
  eapply bounded_ext; [|exact B1]. intro a. unfold bal. rewrite lookup_merge by exact K1. reflexivity.
Qed.

Lemma gen_bounded : forall S E L pool ev,
  bounded S (bal L [ev_top ev]) -> bounded S (bal L [ev_top (gen_groups E L ev pool)]).
Proof.
  intros S E L pool. induction pool as [|g pool IH]; intros ev B; [exact B|].
  cbn [gen_groups]. destruct (transaction_group E L ev g) eqn:Hg; [|auto].
  apply IH. eapply group_bounded; eauto.
Qed.

(* ------------------------------------------------------------------ the payout cannot fail *)
Lemma start_bounded : forall S L,
  bounded S (bal L []) -> bounded S (bal L [put layer0 (lv_pool L) (base_lookup L (lv_pool L))]).
Proof.
  intros S L B. eapply bounded_ext; [|exact B]. intro a. unfold bal. rewrite lookup_put.
  destruct (a =? lv_pool L) eqn:E; [apply N.eqb_eq in E; subst; reflexivity|reflexivity].
Qed.

Lemma payout_le_sink : forall P L top fees bonus po,
  proposer_payout P L top fees bonus = Ok po -> po <= a_algos (lookup L [top] (lv_sink L)).
Proof.
  intros P L top fees bonus po H. unfold proposer_payout in H.
  destruct (100 <? p_percent P); [discriminate|]. destruct (W64 <=? _); [discriminate|].
  injection H as <-.
  etransitivity; [apply N.le_min_r|]. apply N.le_sub_l.
Qed.

Theorem payout_never_fails : forall S P c0 L r b pool parts proposer elig ub,
  p_unit P <> 0 ->
  bounded S (bal L []) -> S < W64 ->
  eval_generate_cap P c0 L r b pool parts = Ok ub ->
  exists d, finish_delta P L (b_hdr (finish_block P ub proposer elig)) (ub_delta ub) = Ok d.
Proof.
  intros S P c0 L r b pool parts proposer elig ub HU B HS H.
  destruct (generate_inv _ _ _ _ _ _ _ _ H) as (Hst & G & Eps & Ed & Ef).
  set (hdr1 := set_start (hdr_template r b) (if p_genhash P then lv_genhash L else 0) (lv_nextrs L)) in *.
  set (l0 := put layer0 (lv_pool L) (base_lookup L (lv_pool L))) in *.
  set (ev := gen_groups (Eg P c0 r) L (mkEv l0 [] 0) pool) in *.
  destruct ub as [hdr2 ps top finals]. cbn [ub_hdr ub_payset ub_delta ub_final] in *. subst ps top finals.
  rewrite fin_hdr_b.
  set (hF := fin_hdr P hdr2 (map (fun a => (a, lookup L [ev_top ev] a)) parts) proposer elig).
  assert (BT : bounded S (bal L [ev_top ev])).
  { subst ev. apply gen_bounded. cbn [ev_top]. apply start_bounded. exact B. }
  unfold finish_delta, perform_payout.
  destruct (h_proposer hF =? 0); [eexists; reflexivity|].
  destruct (h_payout hF =? 0) eqn:Epo; [eexists; reflexivity|]. apply N.eqb_neq in Epo.
  (* a non-zero payout is the one proposerPayout computed, hence at most the sink's balance *)
  assert (Hle : h_payout hF <= a_algos (lookup L [ev_top ev] (lv_sink L))).
  { subst hF. unfold fin_hdr, finish_block in *. cbn [b_hdr ub_hdr ub_final] in *.
    destruct (p_payouts P) eqn:Epay; cbn [negb orb] in *; [|cbn in Epo; congruence].
    destruct G as [_ Gon _ _ _]. destruct (Gon Epay) as [_ Gpo]. apply payout_le_sink in Gpo.
    destruct (negb _); cbn in *; [congruence|exact Gpo]. }
  unfold move. destruct (p_unit P =? 0) eqn:EU; [apply N.eqb_eq in EU; contradiction|].
  set (amt := h_payout hF) in *. set (to := h_proposer hF). set (from := lv_sink L) in *.
  assert (W : forall x, writes P amt x = true).
  { intro x. unfold writes. destruct (amt =? 0) eqn:E; [apply N.eqb_eq in E; contradiction|reflexivity]. }
  rewrite W. replace (a_algos (lookup L [ev_top ev] from) <? amt) with false by (symmetry; apply N.ltb_ge; exact Hle).
  cbn [bind]. rewrite W.
  set (l1 := put (ev_top ev) from (set_algos (lookup L [ev_top ev] from) (a_algos (lookup L [ev_top ev] from) - amt))).
  pose proof (bounded_transfer S (bal L [ev_top ev]) from to amt BT Hle) as BT2. cbv zeta in BT2.
  pose proof (bounded_point _ _ to BT2) as Hp. unfold upd at 1 in Hp. rewrite N.eqb_refl in Hp.
  assert (F1 : a_algos (lookup L [l1] to) = upd (bal L [ev_top ev]) from (bal L [ev_top ev] from - amt) to).
  { subst l1. change (a_algos (lookup L [?x] to)) with (bal L [x] to). rewrite bal_put_algos. reflexivity. }
  rewrite F1. replace (W64 <=? _) with false by (symmetry; apply N.leb_gt; lia).
  eexists; reflexivity.
Qed.

Theorem generate_validates : forall S P c0 L r b pool parts proposer elig ub,
  p_applydata P = true -> p_unit P <> 0 ->
  (p_payouts P = true -> proposer <> 0) ->
  bounded S (bal L []) -> S < W64 ->
  eval_generate_cap P c0 L r b pool parts = Ok ub ->
  let blk := finish_block P ub proposer elig in
  exists d, eval_validate P L blk = Ok d /\ finish_delta P L (b_hdr blk) (ub_delta ub) = Ok d.
Proof.
  intros S P c0 L r b pool parts proposer elig ub HA HU Hprop B HS H blk.
  destruct (payout_never_fails S P c0 L r b pool parts proposer elig ub HU B HS H) as [d Hd].
  exists d. split; [|exact Hd]. subst blk. rewrite (generate_validates_eq _ _ _ _ _ _ _ _ _ _ HA Hprop H). exact Hd.
Qed.

(* without payouts the validator's delta IS the generator's delta *)
Corollary generate_validates_same_delta : forall P c0 L r b pool parts proposer elig ub,
  p_applydata P = true -> p_payouts P = false ->
  eval_generate_cap P c0 L r b pool parts = Ok ub ->
  eval_validate P L (finish_block P ub proposer elig) = Ok (ub_delta ub).
Proof.
  intros P c0 L r b pool parts proposer elig ub HA Hoff H.
  rewrite (generate_validates_eq _ _ _ _ _ _ _ _ _ _ HA (fun E => ltac:(congruence)) H).
  destruct (generate_inv _ _ _ _ _ _ _ _ H) as (_ & G & _ & _ & _).
  destruct (gen_fields_proj _ _ _ _ _ G) as (_ & _ & Gp & _).
  unfold finish_delta, perform_payout, record_proposal, finish_block. rewrite Hoff. cbn [negb orb b_hdr set_payout h_proposer].
  rewrite Gp. reflexivity.
Qed.

(* a supply bound for concrete ledgers: the sum of all listed balances *)
Fixpoint total (l : list (N * acct)) : N :=
  match l with [] => 0 | (_, x) :: r => a_algos x + total r end.

Lemma sumf_base_le : forall l V, NoDup V ->
  sumf (fun a => a_algos (match afind a l with Some x => x | None => acct0 end)) V <= total l.
Proof.
  induction l as [|[k x] l IH]; intros V ND.
  - cbn. induction V as [|a V IHV]; cbn; [lia|]. inversion ND; subst. specialize (IHV H2). lia.
  - cbn [total]. specialize (IH V ND).
    set (g := fun a => a_algos (match afind a l with Some x => x | None => acct0 end)) in *.
    assert (E : forall a, a_algos (match afind a ((k, x) :: l) with Some y => y | None => acct0 end) = upd g k (a_algos x) a).
    { intro a. cbn [afind]. unfold upd. rewrite (N.eqb_sym k a). destruct (a =? k); reflexivity. }
    rewrite (sumf_ext _ _ V E).
    destruct (in_dec N.eq_dec k V) as [I|I].
    + pose proof (sumf_upd_in g k (a_algos x) V ND I). lia.
    + rewrite sumf_upd_notin by assumption. lia.
Qed.

Lemma bounded_total : forall L, bounded (total (lv_accts L)) (bal L []).
Proof. intros L V ND. unfold bal, lookup, base_lookup. apply sumf_base_le. exact ND. Qed.
