(* C06: the tracker model (model/VoteTracker.v) refines the declarative specification
   (model/VoteTrackerSpec.v) for every vote list. *)
From Coq Require Import NArith List Bool String Lia ZifyN ZifyNat ZifyBool Permutation.
From Verif.model Require Import VoteTracker VoteTrackerSpec.
From Verif.proofs Require Import VoteTrackerLists VoteTrackerSpecProofs.
Import ListNotations.
Open Scope N_scope.

Lemma wadd_small a b : a + b < 2 ^ 64 -> wadd a b = a + b.
Proof. intros H. unfold wadd, w64. apply N.mod_small. exact H. Qed.


Lemma Inv_init : Inv [] init.
Proof.
  constructor; cbn; intros; try reflexivity; try constructor; try tauto.
Qed.

Lemma Inv_ext h h' st :
  (forall s, status_of h' s = status_of h s) -> (forall p, spec_cnt h' p = spec_cnt h p) ->
  spec_eqw h' = spec_eqw h -> Inv h st -> Inv h' st.
Proof.
  intros Hs Hc He I. destruct I as [inv_voters0 inv_equivs0 inv_cnt0 inv_votes0 inv_entry0 inv_eqc0 inv_nd_voters0 inv_nd_counts0 inv_nd_equivs0 inv_nd_votes0]. constructor; intros; auto.
  - unfold spec_voter. rewrite Hs. apply inv_voters0.
  - unfold spec_equiv. rewrite Hs. apply inv_equivs0.
  - rewrite Hc. apply inv_cnt0.
  - unfold spec_voter_for. rewrite Hs. apply inv_votes0.
  - rewrite Hc. apply inv_entry0.
  - rewrite He. exact inv_eqc0.
Qed.

(* a vote that changes no sender's status changes nothing in the specification *)
Lemma status_snoc' h x s' :
  status_of (h ++ [x]) s' =
  if v_sender x =? s' then status_step (status_of h (v_sender x)) x else status_of h s'.
Proof. rewrite status_snoc. destruct (v_sender x =? s') eqn:E; [apply N.eqb_eq in E; subst|]; reflexivity. Qed.

Lemma spec_unchanged h x : status_step (status_of h (v_sender x)) x = status_of h (v_sender x) ->
  (forall s, status_of (h ++ [x]) s = status_of h s) /\
  (forall p, spec_cnt (h ++ [x]) p = spec_cnt h p) /\ spec_eqw (h ++ [x]) = spec_eqw h.
Proof.
  intros E. split; [|split].
  - intros s. rewrite status_snoc'. rewrite E. destruct (v_sender x =? s) eqn:E2; [apply N.eqb_eq in E2; subst|]; reflexivity.
  - intros p. pose proof (spec_cnt_snoc h x p) as H. rewrite E in H. lia.
  - pose proof (spec_eqw_snoc h x) as H. rewrite E in H. lia.
Qed.

Lemma counter_of_ainsert st p k c v e n :
  counter_of (mkState v (ainsert k c (counts st)) e n) p = if p =? k then c else counter_of st p.
Proof. unfold counter_of. cbn [counts]. rewrite alookup_ainsert. destruct (p =? k); reflexivity. Qed.

Lemma counter_of_adelete st p k v e n :
  counter_of (mkState v (adelete k (counts st)) e n) p = if p =? k then mkCounter 0 [] else counter_of st p.
Proof.
  unfold counter_of. cbn [counts]. destruct (p =? k) eqn:E.
  - apply N.eqb_eq in E. subst. rewrite alookup_adelete_eq. reflexivity.
  - apply N.eqb_neq in E. rewrite alookup_adelete_ne; auto.
Qed.

Lemma spec_cnt_le_tally h p : spec_cnt h p <= spec_tally h p.
Proof. unfold spec_tally. lia. Qed.
Lemma spec_eqw_le_tally h p : spec_eqw h <= spec_tally h p.
Proof. unfold spec_tally. lia. Qed.

(* ---------- U1: first vote of a sender ---------- *)
Lemma Inv_new_voter h st x : Inv h st -> wf_votes (h ++ [x]) -> status_of h (v_sender x) = SNone ->
  let c := counter_of st (v_value x) in
  let c' := mkCounter (wadd (c_count c) (v_weight x)) (ainsert (v_sender x) x (c_votes c)) in
  Inv (h ++ [x]) (mkState (ainsert (v_sender x) x (voters st)) (ainsert (v_value x) c' (counts st))
                          (equivocators st) (eqcount st)).
Proof.
  intros I W S0 c c'. set (s := v_sender x) in *. set (h' := h ++ [x]).
  assert (St : forall s', status_of h' s' = if s =? s' then SVoted x else status_of h s').
  { intros s'. unfold h'. rewrite status_snoc'. fold s. rewrite S0. reflexivity. }
  assert (Cn : forall p, spec_cnt h' p = spec_cnt h p + (if v_value x =? p then v_weight x else 0)).
  { intros p. pose proof (spec_cnt_snoc h x p) as H. fold s in H. rewrite S0 in H. cbn [status_step cnt_contrib] in H. unfold h'. lia. }
  assert (Eq : spec_eqw h' = spec_eqw h).
  { pose proof (spec_eqw_snoc h x) as H. fold s in H. rewrite S0 in H. cbn [status_step eq_contrib] in H. unfold h'. lia. }
  assert (Bound : forall p, spec_cnt h' p < 2 ^ 64).
  { intros p. pose proof (tally_le_total h' p W). pose proof (spec_cnt_le_tally h' p). destruct W as [_ [_ T]]. unfold h' in *. lia. }
  assert (Pos : 0 < v_weight x).
  { destruct W as [P _]. apply P. apply in_or_app. right. left. reflexivity. }
  destruct I as [inv_voters0 inv_equivs0 inv_cnt0 inv_votes0 inv_entry0 inv_eqc0 inv_nd_voters0 inv_nd_counts0 inv_nd_equivs0 inv_nd_votes0]. constructor; cbn [voters counts equivocators eqcount].
  - intros s'. rewrite alookup_ainsert. unfold spec_voter. rewrite St. rewrite (N.eqb_sym s' s).
    destruct (s =? s'); [reflexivity|apply inv_voters0].
  - intros s'. unfold spec_equiv. rewrite St. destruct (s =? s') eqn:E; [|apply inv_equivs0].
    apply N.eqb_eq in E. subst s'. rewrite inv_equivs0. unfold spec_equiv. rewrite S0. reflexivity.
  - intros p. rewrite counter_of_ainsert. rewrite Cn. rewrite (N.eqb_sym p (v_value x)).
    destruct (v_value x =? p) eqn:E.
    + apply N.eqb_eq in E. subst p. unfold c', c. cbn [c_count]. rewrite inv_cnt0.
      apply wadd_small. specialize (Bound (v_value x)). rewrite Cn, N.eqb_refl in Bound. exact Bound.
    + rewrite inv_cnt0. lia.
  - intros p s'. rewrite counter_of_ainsert. unfold spec_voter_for. rewrite St. rewrite (N.eqb_sym p (v_value x)).
    destruct (v_value x =? p) eqn:E.
    + apply N.eqb_eq in E. subst p. unfold c', c. cbn [c_votes]. rewrite alookup_ainsert. rewrite (N.eqb_sym s' s).
      destruct (s =? s'); [rewrite N.eqb_refl; reflexivity|]. rewrite inv_votes0. reflexivity.
    + destruct (s =? s') eqn:E2.
      * apply N.eqb_eq in E2. subst s'. rewrite E. rewrite inv_votes0. unfold spec_voter_for. rewrite S0. reflexivity.
      * rewrite inv_votes0. reflexivity.
  - intros p. rewrite alookup_ainsert. rewrite Cn. rewrite (N.eqb_sym p (v_value x)).
    destruct (v_value x =? p); [split; [discriminate|lia]|]. rewrite inv_entry0. split; lia.
  - rewrite Eq. exact inv_eqc0.
  - apply nodup_keys_ainsert. exact inv_nd_voters0.
  - apply nodup_keys_ainsert. exact inv_nd_counts0.
  - exact inv_nd_equivs0.
  - intros p. rewrite counter_of_ainsert. destruct (p =? v_value x); [|apply inv_nd_votes0].
    unfold c', c. cbn [c_votes]. apply nodup_keys_ainsert. apply inv_nd_votes0.
Qed.

(* ---------- U2: second, different value from a sender ---------- *)
Lemma Inv_equivocate h st x old : Inv h st -> wf_votes (h ++ [x]) ->
  status_of h (v_sender x) = SVoted old -> v_value old <> v_value x ->
  let s := v_sender x in
  let oc := counter_of st (v_value old) in
  let counts' :=
    if c_count oc <=? v_weight old then adelete (v_value old) (counts st)
    else ainsert (v_value old) (mkCounter (c_count oc - v_weight old) (adelete s (c_votes oc))) (counts st) in
  Inv (h ++ [x]) (mkState (adelete s (voters st)) counts'
                    (ainsert s (mkEq (v_sender old) (v_weight old) (v_value old) (v_value x)) (equivocators st))
                    (wadd (eqcount st) (v_weight x))).
Proof.
  intros I W S0 Hne s oc counts'. set (h' := h ++ [x]). change (v_sender x) with s in S0.
  assert (Hstep : status_step (SVoted old) x = SEquiv old x).
  { cbn [status_step]. destruct (v_value old =? v_value x) eqn:E; [apply N.eqb_eq in E; contradiction|reflexivity]. }
  assert (St : forall s', status_of h' s' = if s =? s' then SEquiv old x else status_of h s').
  { intros s'. unfold h'. rewrite status_snoc'. fold s. rewrite S0, Hstep. reflexivity. }
  assert (Cn : forall p, spec_cnt h' p + (if v_value old =? p then v_weight old else 0) = spec_cnt h p).
  { intros p. pose proof (spec_cnt_snoc h x p) as H. fold s in H. rewrite S0, Hstep in H. cbn [cnt_contrib] in H. unfold h'. lia. }
  assert (Eq : spec_eqw h' = spec_eqw h + v_weight x).
  { pose proof (spec_eqw_snoc h x) as H. fold s in H. rewrite S0, Hstep in H. cbn [eq_contrib] in H. unfold h'. lia. }
  assert (Bound : spec_eqw h' < 2 ^ 64).
  { pose proof (tally_le_total h' 0 W). pose proof (spec_eqw_le_tally h' 0). destruct W as [_ [_ T]]. unfold h' in *. lia. }
  destruct I as [inv_voters0 inv_equivs0 inv_cnt0 inv_votes0 inv_entry0 inv_eqc0 inv_nd_voters0 inv_nd_counts0 inv_nd_equivs0 inv_nd_votes0].
  assert (Hoc : c_count oc = spec_cnt h (v_value old)) by apply inv_cnt0.
  assert (Cold := Cn (v_value old)). rewrite N.eqb_refl in Cold.
  assert (CO : forall p, counter_of (mkState (adelete s (voters st)) counts'
                    (ainsert s (mkEq (v_sender old) (v_weight old) (v_value old) (v_value x)) (equivocators st))
                    (wadd (eqcount st) (v_weight x))) p =
             if p =? v_value old then
               (if c_count oc <=? v_weight old then mkCounter 0 []
                else mkCounter (c_count oc - v_weight old) (adelete s (c_votes oc)))
             else counter_of st p).
  { intros p. unfold counts'. destruct (c_count oc <=? v_weight old).
    - apply counter_of_adelete.
    - apply counter_of_ainsert. }
  constructor; cbn [voters equivocators eqcount].
  - intros s'. unfold spec_voter. rewrite St. destruct (s =? s') eqn:E.
    + apply N.eqb_eq in E. subst s'. apply alookup_adelete_eq.
    + apply N.eqb_neq in E. rewrite alookup_adelete_ne; [apply inv_voters0|congruence].
  - intros s'. rewrite alookup_ainsert. unfold spec_equiv. rewrite St. rewrite (N.eqb_sym s' s).
    destruct (s =? s'); [reflexivity|apply inv_equivs0].
  - intros p. rewrite CO. specialize (Cn p). rewrite (N.eqb_sym p (v_value old)).
    destruct (v_value old =? p) eqn:E.
    + apply N.eqb_eq in E. subst p. destruct (c_count oc <=? v_weight old) eqn:L; cbn [c_count].
      * apply N.leb_le in L. lia.
      * apply N.leb_gt in L. lia.
    + rewrite inv_cnt0. lia.
  - intros p s'. rewrite CO. unfold spec_voter_for. rewrite St. rewrite (N.eqb_sym p (v_value old)).
    destruct (v_value old =? p) eqn:E.
    + apply N.eqb_eq in E. subst p. destruct (c_count oc <=? v_weight old) eqn:L; cbn [c_votes].
      * (* entry deleted: nobody else voted for this value *)
        apply N.leb_le in L. assert (Z : spec_cnt h' (v_value old) = 0) by lia.
        destruct (s =? s') eqn:E3; [reflexivity|]. cbn [alookup].
        destruct (status_of h s') as [|v|v1 v2] eqn:Hs'; try reflexivity.
        destruct (v_value v =? v_value old) eqn:E2; [|reflexivity]. exfalso.
        assert (PosAll : forall y, In y h' -> 0 < v_weight y) by (destruct W as [P _]; exact P).
        pose proof (proj1 (spec_cnt_zero_iff h' (v_value old) PosAll) Z s' v) as K.
        apply N.eqb_eq in E2. apply K; [|exact E2]. rewrite St, E3. exact Hs'.
      * destruct (s =? s') eqn:E3.
        { apply N.eqb_eq in E3. subst s'. apply alookup_adelete_eq. }
        { apply N.eqb_neq in E3. rewrite alookup_adelete_ne; [|congruence]. unfold oc. rewrite inv_votes0. reflexivity. }
    + destruct (s =? s') eqn:E3; [|rewrite inv_votes0; reflexivity].
      apply N.eqb_eq in E3. subst s'. rewrite inv_votes0. unfold spec_voter_for. rewrite S0, E. reflexivity.
  - intros p. specialize (Cn p). unfold counts'. cbn [counts].
    destruct (N.eq_dec p (v_value old)) as [E|E].
    + subst p. rewrite N.eqb_refl in Cn. destruct (c_count oc <=? v_weight old) eqn:L.
      * apply N.leb_le in L. rewrite alookup_adelete_eq. split; [lia|reflexivity].
      * apply N.leb_gt in L. rewrite alookup_ainsert, N.eqb_refl. split; [discriminate|lia].
    + assert (E' : (v_value old =? p) = false) by (apply N.eqb_neq; congruence). rewrite E' in Cn.
      destruct (c_count oc <=? v_weight old).
      * rewrite alookup_adelete_ne; [|exact E]. rewrite inv_entry0. split; lia.
      * rewrite alookup_ainsert. assert ((p =? v_value old) = false) as -> by (apply N.eqb_neq; exact E).
        rewrite inv_entry0. split; lia.
  - rewrite inv_eqc0, Eq. apply wadd_small. lia.
  - apply nodup_keys_adelete. exact inv_nd_voters0.
  - unfold counts'. cbn [counts]. destruct (c_count oc <=? v_weight old);
      [apply nodup_keys_adelete|apply nodup_keys_ainsert]; exact inv_nd_counts0.
  - apply nodup_keys_ainsert. exact inv_nd_equivs0.
  - intros p. rewrite CO. destruct (p =? v_value old); [|apply inv_nd_votes0].
    destruct (c_count oc <=? v_weight old); cbn [c_votes keys map]; [constructor|].
    apply nodup_keys_adelete. apply inv_nd_votes0.
Qed.

(* ---------- overThreshold ---------- *)
Lemma wf_total h : wf_votes h -> total_weight h < 2 ^ 64.
Proof. intros [_ [_ T]]. exact T. Qed.

Lemma count_entry h st p c : Inv h st -> wf_votes h -> In (p, c) (counts st) ->
  wadd (c_count c) (eqcount st) = spec_tally h p.
Proof.
  intros I W Hin. pose proof (in_alookup_nodup p c (counts st) (inv_nd_counts _ _ I) Hin) as L.
  pose proof (inv_cnt _ _ I p) as C. unfold counter_of in C. rewrite L in C.
  rewrite C, (inv_eqc _ _ I). unfold spec_tally. apply wadd_small.
  pose proof (tally_le_total h p W). pose proof (wf_total h W). unfold spec_tally in *. lia.
Qed.

Lemma tally_reached_has_entry q h p : reaches q (spec_eqw h) = false ->
  reaches q (spec_tally h p) = true -> spec_cnt h p <> 0.
Proof. intros HE R Z. unfold spec_tally in R. rewrite Z in R. cbn in R. congruence. Qed.

Lemma over_list_in q h st p : Inv h st -> wf_votes h -> reaches q (spec_eqw h) = false ->
  (In p (over_list q st) <-> reaches q (spec_tally h p) = true).
Proof.
  intros I W HE. unfold over_list. rewrite in_map_iff. split.
  - intros [[p' c] [E Hin]]. cbn [fst] in E. subst p'. apply filter_In in Hin. destruct Hin as [Hin R].
    cbn [snd] in R. rewrite (count_entry h st p c I W Hin) in R. exact R.
  - intros R. pose proof (tally_reached_has_entry q h p HE R) as NZ.
    destruct (alookup p (counts st)) as [c|] eqn:L.
    + apply alookup_some_in in L. exists (p, c). split; [reflexivity|]. apply filter_In. split; [exact L|].
      cbn [snd]. rewrite (count_entry h st p c I W L). exact R.
    + apply (inv_entry _ _ I) in L. contradiction.
Qed.

Lemma over_list_nodup q h st : Inv h st -> NoDup (over_list q st).
Proof. intros I. unfold over_list. apply nodup_map_fst_filter. apply (inv_nd_counts _ _ I). Qed.

Lemma over_threshold_spec q h st : Inv h st -> wf_votes h -> reaches q (spec_eqw h) = false ->
  match over_threshold q st with
  | OTNone => forall p, reaches q (spec_tally h p) = false
  | OTSome p => reaches q (spec_tally h p) = true /\ no_two q h
  | OTPanic => exists p p', p <> p' /\ reaches q (spec_tally h p) = true /\ reaches q (spec_tally h p') = true
  end.
Proof.
  intros I W HE. unfold over_threshold.
  pose proof (over_list_nodup q h st I) as ND.
  pose proof (fun p => over_list_in q h st p I W HE) as M.
  destruct (over_list q st) as [|a [|b t]].
  - intros p. destruct (reaches q (spec_tally h p)) eqn:R; [|reflexivity]. apply M in R. destruct R.
  - split; [apply M; left; reflexivity|]. intros p p' R R'. apply M in R, R'.
    destruct R as [R|[]], R' as [R'|[]]. congruence.
  - exists a, b. split; [|split; apply M; cbn; tauto].
    inversion ND as [|? ? Hn _]; subst. intro; subst. apply Hn. left; reflexivity.
Qed.

(* ---------- insertion sort ---------- *)
Lemma insert_by_perm {A} (less : A -> A -> bool) x l : Permutation (insert_by less x l) (x :: l).
Proof.
  induction l as [|y t IH]; cbn [insert_by]; [apply Permutation_refl|].
  destruct (less y x); [|apply Permutation_refl].
  eapply Permutation_trans; [apply perm_skip; exact IH|apply perm_swap].
Qed.
Lemma sort_by_perm {A} (less : A -> A -> bool) l : Permutation (sort_by less l) l.
Proof.
  induction l as [|x t IH]; cbn [sort_by]; [apply Permutation_refl|].
  eapply Permutation_trans; [apply insert_by_perm|apply perm_skip; exact IH].
Qed.
Lemma sumN_perm a b : Permutation a b -> sumN a = sumN b.
Proof. unfold sumN. induction 1; cbn [fold_right]; lia. Qed.

(* ---------- the packing loop ---------- *)
Lemma pack_spec q ws : forall w0 n w', pack q ws w0 = (n, w') -> w0 + sumN ws < 2 ^ 64 ->
  w' = w0 + sumN (firstn n ws) /\ (reaches q w' = true \/ n = List.length ws) /\
  (reaches q w0 = false -> ws <> [] -> n <> O).
Proof.
  induction ws as [|w ws IH]; intros w0 n w' P B; cbn [pack] in P.
  - inversion P; subst. cbn. split; [lia|]. split; [right; reflexivity|]. intros _ H; congruence.
  - destruct (reaches q w0) eqn:R.
    + inversion P; subst. cbn [firstn]. unfold sumN at 1. cbn [fold_right]. split; [lia|]. split; [left; exact R|]. intros H; discriminate.
    + destruct (pack q ws (wadd w0 w)) as [n1 wt] eqn:P1. inversion P; subst.
      change (sumN (w :: ws)) with (w + sumN ws) in B.
      rewrite wadd_small in P1 by lia. specialize (IH _ _ _ P1). destruct IH as [E [D _]]; [lia|].
      cbn [firstn List.length]. change (sumN (w :: firstn n1 ws)) with (w + sumN (firstn n1 ws)).
      split; [lia|]. split; [destruct D; [left; auto|right; congruence]|]. intros _ _. discriminate.
Qed.

Lemma pack_firstn q ws : forall w0 n w', pack q ws w0 = (n, w') -> pack q (firstn n ws) w0 = (n, w').
Proof.
  induction ws as [|w ws IH]; intros w0 n w' P; cbn [pack] in P.
  - inversion P; subst. reflexivity.
  - destruct (reaches q w0) eqn:R.
    + inversion P; subst. reflexivity.
    + destruct (pack q ws (wadd w0 w)) as [n1 wt] eqn:P1. inversion P; subst.
      cbn [firstn pack]. rewrite R. rewrite (IH _ _ _ P1). reflexivity.
Qed.

Lemma pack_reached q ws w0 : reaches q w0 = true -> pack q ws w0 = (O, w0).
Proof. intros R. destruct ws; cbn [pack]; [reflexivity|]. rewrite R. reflexivity. Qed.

Lemma sumN_firstn_le n l : sumN (firstn n l) <= sumN l.
Proof.
  revert n. induction l as [|a l IH]; intros [|n]; cbn [firstn]; unfold sumN in *; cbn [fold_right]; try lia.
  specialize (IH n). lia.
Qed.

(* ---------- bundles ---------- *)

Definition votes_good (h : list vote) (p : N) (votes : list vote) : Prop :=
  forall v, In v votes -> status_of h (v_sender v) = SVoted v /\ v_value v = p.
Definition eqs_good (h : list vote) (eqs : list eqvote) : Prop :=
  forall e, In e eqs -> exists v1 v2, status_of h (e_sender e) = SEquiv v1 v2 /\
     e_weight e = v_weight v1 /\ e_p0 e = v_value v1 /\ e_p1 e = v_value v2.

Lemma make_bundle_valid q h p votes eqs b :
  reaches q 0 = false -> votes_good h p votes -> eqs_good h eqs ->
  NoDup (map v_sender votes ++ map e_sender eqs) ->
  sumN (map v_weight votes) + sumN (map e_weight eqs) < 2 ^ 64 ->
  make_bundle q p votes eqs = inr b -> bundle_valid q h p b.
Proof.
  intros R0 VG EG ND B MB. unfold make_bundle in MB.
  destruct (isnil votes) eqn:NV; [discriminate|].
  destruct (negb (forallb (fun v => v_value v =? p) votes)); [discriminate|].
  destruct (pack q (map v_weight votes) 0) as [n1 packed1] eqn:P1.
  destruct (pack q (map e_weight eqs) packed1) as [n2 packed2] eqn:P2.
  destruct (negb (reaches q packed2)) eqn:RP; [discriminate|]. apply negb_false_iff in RP.
  inversion MB; subst b; clear MB.
  destruct (pack_spec q _ _ _ _ P1) as [E1 [_ NZ]]; [lia|].
  destruct (pack_spec q _ _ _ _ P2) as [E2' _].
  { pose proof (sumN_firstn_le n1 (map v_weight votes)). lia. }
  assert (E2 : packed2 = packed1 + sumN (firstn n2 (map e_weight eqs))) by exact E2'. clear E2'.
  unfold bundle_valid, bundle_weight, bundle_members. cbn [b_value b_votes b_eqs].
  assert (Hmapeq : map (fun e : N * N * N => fst (fst e)) (map (fun e => (e_sender e, e_p0 e, e_p1 e)) (firstn n2 eqs))
                   = map e_sender (firstn n2 eqs)).
  { rewrite map_map. reflexivity. }
  rewrite Hmapeq.
  split; [reflexivity|]. split; [|split; [|split; [|split]]].
  - destruct votes as [|v0 vt]; [discriminate|]. specialize (NZ R0). 
    destruct n1; [exfalso; apply NZ; [discriminate|reflexivity]|]. cbn. discriminate.
  - (* distinct members *)
    apply nodup_app_elim in ND. destruct ND as [NDv [NDe Dj]].
    apply nodup_app_intro.
    + rewrite <- firstn_map. apply nodup_firstn. exact NDv.
    + rewrite <- firstn_map. apply nodup_firstn. exact NDe.
    + intros s Hs He. rewrite <- firstn_map in Hs, He. apply in_firstn in Hs. apply in_firstn in He. exact (Dj s Hs He).
  - intros s Hs. apply in_map_iff in Hs. destruct Hs as [v [E Hv]]. apply in_firstn in Hv.
    destruct (VG v Hv) as [S V]. subst s. exists v. tauto.
  - intros s p0 p1 Hs. apply in_map_iff in Hs. destruct Hs as [e [E He]]. apply in_firstn in He.
    inversion E; subst. destruct (EG e He) as [v1 [v2 [S [_ [P0 P1']]]]].
    exists v1, v2. pose proof (status_equiv_in _ _ _ _ S) as F. rewrite P0, P1'. tauto.
  - (* weight *)
    rewrite map_app, sumN_app.
    assert (sumN (map (member_weight h) (map v_sender (firstn n1 votes))) = sumN (firstn n1 (map v_weight votes))) as ->.
    { rewrite firstn_map, map_map. f_equal. apply map_ext_in. intros v Hv. apply in_firstn in Hv.
      destruct (VG v Hv) as [S _]. unfold member_weight. rewrite S. reflexivity. }
    assert (sumN (map (member_weight h) (map e_sender (firstn n2 eqs))) = sumN (firstn n2 (map e_weight eqs))) as ->.
    { rewrite firstn_map, map_map. f_equal. apply map_ext_in. intros e He. apply in_firstn in He.
      destruct (EG e He) as [v1 [v2 [S [Wt _]]]]. unfold member_weight. rewrite S. auto. }
    match goal with |- reaches q ?a = true => replace a with packed2 by lia end. exact RP.
Qed.

(* the votes / equivocation pairs stored in a state that satisfies the invariant *)
Lemma stored_votes_good h st p : Inv h st -> votes_good h p (map snd (c_votes (counter_of st p))).
Proof.
  intros I v Hv. apply in_map_iff in Hv. destruct Hv as [[s v'] [E Hin]]. cbn [snd] in E. subst v'.
  apply (in_alookup_nodup s v _ (inv_nd_votes _ _ I p)) in Hin. rewrite (inv_votes _ _ I) in Hin.
  unfold spec_voter_for in Hin. destruct (status_of h s) as [|v0|v1 v2] eqn:S; try discriminate.
  destruct (v_value v0 =? p) eqn:E; [|discriminate]. inversion Hin; subst v0.
  apply N.eqb_eq in E. destruct (status_voted_in _ _ _ S) as [_ Sv]. rewrite Sv. tauto.
Qed.

Lemma stored_votes_senders h st p : Inv h st ->
  map v_sender (map snd (c_votes (counter_of st p))) = keys (c_votes (counter_of st p)).
Proof.
  intros I. rewrite map_map. unfold keys. apply map_ext_in. intros [s v] Hin. cbn [snd fst].
  apply (in_alookup_nodup s v _ (inv_nd_votes _ _ I p)) in Hin. rewrite (inv_votes _ _ I) in Hin.
  unfold spec_voter_for in Hin. destruct (status_of h s) as [|v0|v1 v2] eqn:S; try discriminate.
  destruct (v_value v0 =? p); [|discriminate]. inversion Hin; subst v0.
  apply (status_voted_in _ _ _ S).
Qed.

Lemma stored_eqs_good h st : Inv h st -> eqs_good h (map snd (equivocators st)).
Proof.
  intros I e He. apply in_map_iff in He. destruct He as [[s e'] [E Hin]]. cbn [snd] in E. subst e'.
  apply (in_alookup_nodup s e _ (inv_nd_equivs _ _ I)) in Hin. rewrite (inv_equivs _ _ I) in Hin.
  unfold spec_equiv in Hin. destruct (status_of h s) as [|v0|v1 v2] eqn:S; try discriminate.
  inversion Hin; subst e. cbn [e_sender e_weight e_p0 e_p1].
  destruct (status_equiv_in _ _ _ _ S) as [_ [_ [S1 _]]]. rewrite S1. exists v1, v2. tauto.
Qed.

Lemma stored_eqs_senders h st : Inv h st ->
  map e_sender (map snd (equivocators st)) = keys (equivocators st).
Proof.
  intros I. rewrite map_map. unfold keys. apply map_ext_in. intros [s e] Hin. cbn [snd fst].
  apply (in_alookup_nodup s e _ (inv_nd_equivs _ _ I)) in Hin. rewrite (inv_equivs _ _ I) in Hin.
  unfold spec_equiv in Hin. destruct (status_of h s) as [|v0|v1 v2] eqn:S; try discriminate.
  inversion Hin; subst e. cbn [e_sender]. apply (status_equiv_in _ _ _ _ S).
Qed.

Lemma stored_votes_sum h st p : Inv h st ->
  sumN (map v_weight (map snd (c_votes (counter_of st p)))) = spec_cnt h p.
Proof.
  intros I. rewrite map_map.
  rewrite (sumN_assoc_universe v_weight (c_votes (counter_of st p)) (senders h));
    [|apply (inv_nd_votes _ _ I)|apply senders_nodup|].
  - unfold spec_cnt. apply sumN_map_ext_in. intros s _. rewrite (inv_votes _ _ I). unfold spec_voter_for.
    destruct (status_of h s) as [|v|v1 v2]; cbn [cnt_contrib]; try reflexivity. destruct (v_value v =? p); reflexivity.
  - intros s Hs. apply status_seen. intro Z. apply alookup_none_iff in Hs; [exact Hs|].
    rewrite (inv_votes _ _ I). unfold spec_voter_for. rewrite Z. reflexivity.
Qed.

Lemma stored_eqs_sum h st : Inv h st -> wf_votes h ->
  sumN (map e_weight (map snd (equivocators st))) = spec_eqw h.
Proof.
  intros I [_ [C _]]. rewrite map_map.
  rewrite (sumN_assoc_universe e_weight (equivocators st) (senders h));
    [|apply (inv_nd_equivs _ _ I)|apply senders_nodup|].
  - unfold spec_eqw. apply sumN_map_ext_in. intros s _. rewrite (inv_equivs _ _ I). unfold spec_equiv.
    destruct (status_of h s) as [|v|v1 v2] eqn:S; cbn [eq_contrib e_weight]; try reflexivity.
    destruct (status_equiv_in _ _ _ _ S) as [I1 [I2 [S1 [S2 _]]]]. apply C; auto. congruence.
  - intros s Hs. apply status_seen. intro Z. apply alookup_none_iff in Hs; [exact Hs|].
    rewrite (inv_equivs _ _ I). unfold spec_equiv. rewrite Z. reflexivity.
Qed.

Lemma stored_members_nodup h st p : Inv h st ->
  NoDup (keys (c_votes (counter_of st p)) ++ keys (equivocators st)).
Proof.
  intros I. apply nodup_app_intro; [apply (inv_nd_votes _ _ I)|apply (inv_nd_equivs _ _ I)|].
  intros s Hv He.
  destruct (alookup s (c_votes (counter_of st p))) eqn:L1; [|apply alookup_none_iff in L1; contradiction].
  destruct (alookup s (equivocators st)) eqn:L2; [|apply alookup_none_iff in L2; contradiction].
  rewrite (inv_votes _ _ I) in L1. rewrite (inv_equivs _ _ I) in L2.
  unfold spec_voter_for in L1. unfold spec_equiv in L2. destruct (status_of h s); discriminate.
Qed.

Lemma votes_good_perm h p a b : Permutation a b -> votes_good h p b -> votes_good h p a.
Proof. intros P G v Hv. apply G. eapply Permutation_in; eauto. Qed.
Lemma eqs_good_perm h a b : Permutation a b -> eqs_good h b -> eqs_good h a.
Proof. intros P G v Hv. apply G. eapply Permutation_in; eauto. Qed.
Lemma votes_good_firstn h p n a : votes_good h p a -> votes_good h p (firstn n a).
Proof. intros G v Hv. apply G. eapply in_firstn; eauto. Qed.
Lemma eqs_good_firstn h n a : eqs_good h a -> eqs_good h (firstn n a).
Proof. intros G v Hv. apply G. eapply in_firstn; eauto. Qed.

(* genBundle cannot panic once a value with a stored vote has reached the quorum, and the
   bundle it returns is a valid quorum proof *)
Lemma gen_bundle_ok q h st p : Inv h st -> wf_votes h -> reaches q 0 = false ->
  reaches q (spec_tally h p) = true -> spec_cnt h p <> 0 ->
  exists b, gen_bundle q st (counter_of st p) = inr b /\ bundle_valid q h p b.
Proof.
  intros I W R0 RT NZ. unfold gen_bundle.
  set (VL := map snd (c_votes (counter_of st p))). set (EL := map snd (equivocators st)).
  set (votes := sort_by vote_before VL). set (eqs := sort_by eq_before EL).
  pose proof (sort_by_perm vote_before VL : Permutation votes VL) as PV.
  pose proof (sort_by_perm eq_before EL : Permutation eqs EL) as PE.
  assert (GV : votes_good h p votes) by (eapply votes_good_perm; [exact PV|apply stored_votes_good; exact I]).
  assert (GE : eqs_good h eqs) by (eapply eqs_good_perm; [exact PE|apply stored_eqs_good; exact I]).
  assert (SV : sumN (map v_weight votes) = spec_cnt h p).
  { rewrite (sumN_perm _ _ (Permutation_map v_weight PV)). apply stored_votes_sum. exact I. }
  assert (SE : sumN (map e_weight eqs) = spec_eqw h).
  { rewrite (sumN_perm _ _ (Permutation_map e_weight PE)). apply stored_eqs_sum; assumption. }
  assert (TB : spec_cnt h p + spec_eqw h < 2 ^ 64).
  { pose proof (tally_le_total h p W). pose proof (wf_total h W). unfold spec_tally in *. lia. }
  assert (NDM : NoDup (map v_sender votes ++ map e_sender eqs)).
  { eapply Permutation_NoDup; [|apply (stored_members_nodup h st p I)].
    rewrite <- (stored_votes_senders h st p I), <- (stored_eqs_senders h st I). fold VL EL.
    apply Permutation_app; apply Permutation_map; apply Permutation_sym; assumption. }
  destruct votes as [|v0 vt] eqn:Ev.
  { exfalso. apply NZ. rewrite <- SV. reflexivity. }
  rewrite <- Ev in *. 
  destruct (pack q (map v_weight votes) 0) as [cut weight] eqn:P1.
  destruct (pack_spec q _ _ _ _ P1) as [E1 [D1 NZ1]]; [lia|].
  destruct (firstn cut votes) as [|v0' vt'] eqn:F1.
  { exfalso. destruct cut; [apply NZ1; [exact R0|rewrite Ev; discriminate|reflexivity]|]. rewrite Ev in F1. discriminate. }
  rewrite <- F1 in *.
  destruct (pack q (map e_weight eqs) weight) as [cut2 w2] eqn:P2.
  assert (B2 : weight + sumN (map e_weight eqs) < 2 ^ 64).
  { pose proof (sumN_firstn_le cut (map v_weight votes)). lia. }
  destruct (pack_spec q _ _ _ _ P2 B2) as [E2 [D2 _]].
  (* the quorum is reached by what has been packed *)
  assert (RW : reaches q w2 = true).
  { destruct D2 as [D2|D2]; [exact D2|]. destruct D1 as [D1|D1].
    - rewrite (pack_reached q _ _ D1) in P2. inversion P2 as [[Hc Hw]]. rewrite <- Hw. exact D1.
    - subst cut cut2. rewrite !firstn_all in *. subst w2 weight. rewrite SV, SE. exact RT. }
  assert (V0 : v_value v0' = p).
  { apply (GV v0'). apply (in_firstn cut). rewrite F1. left; reflexivity. }
  rewrite V0.
  (* makeBundle repacks exactly the same prefix *)
  assert (MB : make_bundle q p (firstn cut votes) (firstn cut2 eqs) =
               inr (mkBundle p (map v_sender (firstn cut (firstn cut votes)))
                      (map (fun e => (e_sender e, e_p0 e, e_p1 e)) (firstn cut2 (firstn cut2 eqs))))).
  { unfold make_bundle. rewrite F1 at 1. cbn [isnil].
    assert (forallb (fun v => v_value v =? p) (firstn cut votes) = true) as ->.
    { apply forallb_forall. intros v Hv. apply N.eqb_eq. apply (GV v). eapply in_firstn; eauto. }
    cbn [negb].
    assert (A1 : map v_weight (firstn cut votes) = firstn cut (map v_weight votes)) by (symmetry; apply firstn_map).
    assert (A2 : map e_weight (firstn cut2 eqs) = firstn cut2 (map e_weight eqs)) by (symmetry; apply firstn_map).
    rewrite A1, A2. rewrite (pack_firstn q _ _ _ _ P1). rewrite (pack_firstn q _ _ _ _ P2).
    rewrite RW. reflexivity. }
  eexists. split; [exact MB|].
  eapply make_bundle_valid; [exact R0| | | | |exact MB].
  - apply votes_good_firstn. exact GV.
  - apply eqs_good_firstn. exact GE.
  - apply nodup_app_elim in NDM. destruct NDM as [NDv [NDe Dj]]. apply nodup_app_intro.
    + rewrite <- firstn_map. apply nodup_firstn. exact NDv.
    + rewrite <- firstn_map. apply nodup_firstn. exact NDe.
    + intros s Hs He. rewrite <- firstn_map in Hs, He. apply in_firstn in Hs. apply in_firstn in He. exact (Dj s Hs He).
  - rewrite <- !firstn_map. pose proof (sumN_firstn_le cut (map v_weight votes)).
    pose proof (sumN_firstn_le cut2 (map e_weight eqs)). lia.
Qed.

(* ---------- one step of the tracker against the specification ---------- *)
Definition Good (q : option N) (h : list vote) (st : state) : Prop :=
  Inv h st /\ reaches q (spec_eqw h) = false /\ no_two q h.

Definition step_post (q : option N) (h : list vote) (x : vote) (st' : state) (o : out) : Prop :=
  let h' := h ++ [x] in
  match o with
  | OPanic t =>
      (t = "eq"%string /\ reaches q (spec_eqw h') = true) \/
      (t = "two"%string /\ reaches q (spec_eqw h') = false /\
       exists p p', p <> p' /\ reaches q (spec_tally h' p) = true /\ reaches q (spec_tally h' p') = true)
  | ONone =>
      Good q h' st' /\
      ((forall p, reaches q (spec_tally h' p) = false) \/ (exists p, reaches q (spec_tally h p) = true))
  | OThreshold p b =>
      Good q h' st' /\ reaches q (spec_tally h' p) = true /\
      (forall p', reaches q (spec_tally h p') = false) /\ bundle_valid q h' p b
  end.

Lemma no_two_of_none q h : (forall p, reaches q (spec_tally h p) = false) -> no_two q h.
Proof. intros H p p' R. rewrite H in R. discriminate. Qed.

Lemma finish_spec q h x st1 overBefore :
  reaches q 0 = false -> Inv (h ++ [x]) st1 -> wf_votes (h ++ [x]) ->
  reaches q (spec_eqw (h ++ [x])) = false ->
  ((overBefore = false /\ forall p, reaches q (spec_tally h p) = false) \/
   (overBefore = true /\ exists p, reaches q (spec_tally h p) = true)) ->
  step_post q h x (fst (finish q overBefore st1)) (snd (finish q overBefore st1)).
Proof.
  intros R0 I W HE B. unfold finish.
  pose proof (over_threshold_spec q _ _ I W HE) as OT.
  destruct (over_threshold q st1) as [| |prop]; cbn [fst snd step_post].
  - right. split; [reflexivity|]. split; [exact HE|exact OT].
  - split; [split; [exact I|split; [exact HE|apply no_two_of_none; exact OT]]|]. left. exact OT.
  - destruct OT as [RT NT]. destruct B as [[-> B]|[-> B]].
    + pose proof (tally_reached_has_entry q _ _ HE RT) as NZ.
      destruct (gen_bundle_ok q _ _ prop I W R0 RT NZ) as [b [GB BV]]. rewrite GB. cbn [fst snd step_post].
      split; [split; [exact I|split; [exact HE|exact NT]]|]. split; [exact RT|]. split; [exact B|exact BV].
    + cbn [fst snd step_post]. split; [split; [exact I|split; [exact HE|exact NT]]|]. right. exact B.
Qed.

Lemma unchanged_post q h x st :
  Good q h st -> wf_votes h -> status_step (status_of h (v_sender x)) x = status_of h (v_sender x) ->
  step_post q h x st ONone.
Proof.
  intros [I [HE NT]] W U. destruct (spec_unchanged h x U) as [Hs [Hc He]].
  assert (HT : forall p, spec_tally (h ++ [x]) p = spec_tally h p) by (intros p; unfold spec_tally; rewrite Hc, He; reflexivity).
  cbn [step_post]. split.
  - split; [eapply Inv_ext; eauto|]. split; [rewrite He; exact HE|].
    intros p p'. rewrite !HT. apply NT.
  - pose proof (over_threshold_spec q _ _ I W HE) as OT. destruct (over_threshold q st) as [| |p0].
    + exfalso. destruct OT as [p [p' [Hne [R R']]]]. apply Hne. apply NT; assumption.
    + left. intros p. rewrite HT. apply OT.
    + right. exists p0. apply OT.
Qed.

Lemma handle_step q h st x : reaches q 0 = false -> Good q h st -> wf_votes (h ++ [x]) ->
  step_post q h x (fst (handle q st x)) (snd (handle q st x)).
Proof.
  intros R0 G W. pose proof (wf_votes_prefix _ _ W) as W0.
  pose proof G as [I [HE NT]]. unfold handle.
  rewrite (inv_equivs _ _ I). unfold spec_equiv.
  destruct (status_of h (v_sender x)) as [|old|v1 v2] eqn:S.
  3: { cbn [fst snd]. apply unchanged_post; auto. rewrite S. reflexivity. }
  - (* first vote of this sender *)
    pose proof (over_threshold_spec q _ _ I W0 HE) as OT.
    destruct (over_threshold q st) as [| |p0] eqn:EOT.
    { exfalso. destruct OT as [p [p' [Hne [R R']]]]. apply Hne. apply NT; assumption. }
    + rewrite (inv_voters _ _ I). unfold spec_voter. rewrite S.
      apply (finish_spec q h x _ false); auto.
      * apply Inv_new_voter; auto.
      * pose proof (spec_eqw_snoc h x) as H. rewrite S in H. cbn [status_step eq_contrib] in H.
        replace (spec_eqw (h ++ [x])) with (spec_eqw h) by lia. exact HE.
    + rewrite (inv_voters _ _ I). unfold spec_voter. rewrite S.
      apply (finish_spec q h x _ true); auto.
      * apply Inv_new_voter; auto.
      * pose proof (spec_eqw_snoc h x) as H. rewrite S in H. cbn [status_step eq_contrib] in H.
        replace (spec_eqw (h ++ [x])) with (spec_eqw h) by lia. exact HE.
      * right. split; [reflexivity|]. exists p0. apply OT.
  - (* the sender has voted before *)
    pose proof (over_threshold_spec q _ _ I W0 HE) as OT.
    assert (BF : exists ob, (ob = false /\ forall p, reaches q (spec_tally h p) = false) \/
                            (ob = true /\ exists p, reaches q (spec_tally h p) = true)).
    { destruct (over_threshold q st) as [| |p0].
      - exfalso. destruct OT as [p [p' [Hne [R R']]]]. apply Hne. apply NT; assumption.
      - exists false. left. split; [reflexivity|exact OT].
      - exists true. right. split; [reflexivity|]. exists p0. apply OT. }
    destruct (over_threshold q st) as [| |p0] eqn:EOT.
    { exfalso. destruct OT as [p [p' [Hne [R R']]]]. apply Hne. apply NT; assumption. }
    all: rewrite (inv_voters _ _ I); unfold spec_voter; rewrite S.
    all: destruct (v_value old =? v_value x) eqn:EV;
      [cbn [fst snd]; apply unchanged_post; auto; rewrite S; cbn [status_step]; rewrite EV; reflexivity|].
    all: apply N.eqb_neq in EV.
    all: pose proof (Inv_equivocate h st x old I W S EV) as I'; cbn zeta in I'.
    all: pose proof (inv_eqc _ _ I') as EC; cbn [eqcount] in EC.
    all: destruct (reaches q (wadd (eqcount st) (v_weight x))) eqn:RE;
      [cbn [fst snd step_post]; left; split; [reflexivity|rewrite <- EC; exact RE]|].
    all: rewrite EC in RE.
    all: match goal with |- context [isnil ?l] => destruct (isnil l) eqn:NV end.
    1, 3: (* no regular voter left *)
      cbn [fst snd step_post];
      assert (Z : forall p, spec_cnt (h ++ [x]) p = 0);
      [ intros p; apply (spec_cnt_zero_iff _ p (proj1 W)); intros s v Sv _;
        pose proof (inv_voters _ _ I' s) as L; unfold spec_voter in L; rewrite Sv in L;
        cbn [voters] in L, NV; destruct (adelete (v_sender x) (voters st)); [discriminate L|discriminate NV]
      | assert (AF : forall p, reaches q (spec_tally (h ++ [x]) p) = false)
          by (intros p; unfold spec_tally; rewrite Z; exact RE);
        split; [split; [exact I'|split; [exact RE|apply no_two_of_none; exact AF]]|left; exact AF] ].
    + apply (finish_spec q h x _ false); auto.
    + apply (finish_spec q h x _ true); auto. right. split; [reflexivity|]. exists p0. apply OT.
Qed.

(* ---------- whole runs: observation traces ---------- *)



Lemma trace_ok_nil q h0 : trace_ok q h0 [] [].
Proof.
  split; [|split].
  - intros [|i] o snap H; discriminate.
  - intros [|i] o snap H; discriminate.
  - reflexivity.
Qed.

(* consing one good step in front of a good trace *)
Lemma trace_ok_cons q h0 x l o snap obs :
  step_obs q h0 x o -> snap_rel (h0 ++ [x]) o snap ->
  (if is_panic o then obs = [] else trace_ok q (h0 ++ [x]) l obs) ->
  trace_ok q h0 (x :: l) ((o, snap) :: obs).
Proof.
  intros SO SR T. split; [|split].
  - intros [|i] o' snap' H; cbn [nth_error] in H.
    + inversion H; subst. exists x. cbn [nth_error firstn app]. rewrite app_nil_r. auto.
    + destruct (is_panic o); [subst obs; destruct i; discriminate|].
      destruct T as [T _]. destruct (T i o' snap' H) as [y [Hy [A B]]]. exists y.
      cbn [nth_error firstn]. split; [exact Hy|].
      replace (h0 ++ x :: firstn i l) with ((h0 ++ [x]) ++ firstn i l) by (rewrite <- app_assoc; reflexivity).
      split; [exact A|]. replace (h0 ++ (x :: firstn i l) ++ [y]) with ((h0 ++ [x]) ++ firstn i l ++ [y]); [exact B|].
      rewrite <- app_assoc. reflexivity.
  - intros [|i] o' snap' H P; cbn [nth_error] in H.
    + inversion H; subst. rewrite P in T. subst obs. reflexivity.
    + destruct (is_panic o); [subst obs; destruct i; discriminate|].
      destruct T as [_ [T _]]. cbn [List.length]. f_equal. eapply T; eauto.
  - intros NP. cbn [List.length]. f_equal.
    assert (is_panic o = false) as E by (apply NP; left; reflexivity). rewrite E in T.
    destruct T as [_ [_ T]]. apply T. intros o' Ho'. apply NP. right. exact Ho'.
Qed.

Lemma step_post_obs q h x st' o : step_post q h x st' o ->
  step_obs q h x o /\ snap_rel (h ++ [x]) o (if is_panic o then None else Some st') /\
  (is_panic o = false -> Good q (h ++ [x]) st').
Proof.
  destruct o as [|p b|t]; cbn [step_post step_obs snap_rel is_panic].
  - intros [G D]. pose proof G as [I [HE NT]].
    split; [split; [exact HE|split; [exact NT|exact D]]|]. split; [split; [reflexivity|exact I]|]. intros _. exact G.
  - intros [G [RT [B BV]]]. pose proof G as [I [HE NT]].
    split; [split; [exact HE|split; [exact NT|split; [exact RT|split; [exact B|exact BV]]]]|].
    split; [split; [reflexivity|exact I]|]. intros _. exact G.
  - intros H. split; [exact H|]. split; [reflexivity|discriminate].
Qed.

Lemma run_trace_ok q : reaches q 0 = false -> forall l h st, Good q h st -> wf_votes (h ++ l) ->
  trace_ok q h l (run q st l).
Proof.
  intros R0. induction l as [|x l IH]; intros h st G W; cbn [run]; [apply trace_ok_nil|].
  assert (W1 : wf_votes (h ++ [x])) by (apply (wf_votes_prefix _ l); rewrite <- app_assoc; exact W).
  pose proof (handle_step q h st x R0 G W1) as SP. destruct (handle q st x) as [st1 o1]. cbn [fst snd] in SP.
  destruct (step_post_obs _ _ _ _ _ SP) as [SO [SR GG]].
  destruct o1 as [|p b|t]; cbn [is_panic] in SR, GG.
  - apply trace_ok_cons; auto. cbn [is_panic]. apply IH; [apply GG; reflexivity|rewrite <- app_assoc; exact W].
  - apply trace_ok_cons; auto. cbn [is_panic]. apply IH; [apply GG; reflexivity|rewrite <- app_assoc; exact W].
  - apply trace_ok_cons; auto. cbn [is_panic]. reflexivity.
Qed.

Lemma Good_init q : reaches q 0 = false -> Good q [] init.
Proof.
  intros R0. split; [apply Inv_init|]. split; [exact R0|]. intros p p' R. cbn in R. congruence.
Qed.

(* ---------- outputs of the model = specified outputs ---------- *)
Lemma step_post_expected q h x st st' o : Good q h st -> step_post q h x st' o -> out_kind o = expected q h x.
Proof.
  intros [_ [HE NT]]. destruct o as [|p b|t]; cbn [step_post out_kind].
  - intros [[_ [HE' NT']] [D|[p0 D]]]; symmetry.
    + apply expected_none_below; auto.
    + eapply expected_none_already; eauto.
  - intros [[_ [HE' NT']] [RT [B _]]]. symmetry. apply expected_thr; auto.
  - intros [[-> RE]|[-> [HE' [p [p' [Hne [R R']]]]]]]; symmetry.
    + apply expected_eq; auto.
    + eapply expected_two; eauto.
Qed.

Lemma run_kinds q : reaches q 0 = false -> forall l h st, Good q h st -> wf_votes (h ++ l) ->
  map (fun e => out_kind (fst e)) (run q st l) = spec_outs q h l.
Proof.
  intros R0. induction l as [|x l IH]; intros h st G W; cbn [run spec_outs]; [reflexivity|].
  assert (W1 : wf_votes (h ++ [x])) by (apply (wf_votes_prefix _ l); rewrite <- app_assoc; exact W).
  pose proof (handle_step q h st x R0 G W1) as SP. destruct (handle q st x) as [st1 o1]. cbn [fst snd] in SP.
  rewrite <- (step_post_expected q h x st st1 o1 G SP).
  destruct (step_post_obs _ _ _ _ _ SP) as [_ [_ GG]].
  destruct o1 as [|p b|t]; cbn [map fst out_kind is_panic] in *; try reflexivity.
  - f_equal. apply IH; [apply GG; reflexivity|rewrite <- app_assoc; exact W].
  - f_equal. apply IH; [apply GG; reflexivity|rewrite <- app_assoc; exact W].
Qed.

(* ---------- consequences of trace_ok (for the model's trace and for observed traces) ---------- *)
Lemma firstn_snoc_nth {A} (l : list A) i x : nth_error l i = Some x -> firstn (S i) l = firstn i l ++ [x].
Proof.
  revert i. induction l as [|a l IH]; intros [|i] H; cbn [nth_error] in H; try discriminate.
  - inversion H; subst. reflexivity.
  - cbn [firstn app]. f_equal. apply IH. exact H.
Qed.

Lemma count_spec h st p : Inv h st -> wf_votes h -> count st p = spec_tally h p.
Proof.
  intros I W. unfold count. rewrite (inv_cnt _ _ I), (inv_eqc _ _ I). apply wadd_small.
  pose proof (tally_le_total h p W). pose proof (wf_total h W). unfold spec_tally in *. lia.
Qed.

(* tallies are never lowered by later votes *)
Lemma spec_tally_mono_app h l p : wf_votes (h ++ l) -> spec_tally h p <= spec_tally (h ++ l) p.
Proof.
  induction l as [|x l IH] using rev_ind; intros W; [rewrite app_nil_r; lia|].
  rewrite app_assoc in W |- *. pose proof (spec_tally_mono (h ++ l) x p W).
  specialize (IH (wf_votes_prefix _ _ W)). lia.
Qed.

Lemma firstn_le_split {A} (l : list A) : forall i j, (i <= j)%nat -> exists r, firstn j l = firstn i l ++ r.
Proof.
  induction l as [|a l IH]; intros i j L.
  - exists []. rewrite !firstn_nil. reflexivity.
  - destruct i as [|i]; [exists (firstn j (a :: l)); reflexivity|].
    destruct j as [|j]; [lia|]. destruct (IH i j) as [r E]; [lia|]. exists r. cbn [firstn app]. rewrite E. reflexivity.
Qed.

Lemma trace_ok_threshold_once q l obs : wf_votes l -> trace_ok q [] l obs ->
  forall i j p b s p' b' s', nth_error obs i = Some (OThreshold p b, s) ->
    nth_error obs j = Some (OThreshold p' b', s') -> i = j.
Proof.
  intros W [T _] i j p b s p' b' s' Hi Hj.
  destruct (T _ _ _ Hi) as [x [Hx [Si _]]]. destruct (T _ _ _ Hj) as [y [Hy [Sj _]]].
  cbn [app step_obs] in Si, Sj. rewrite <- (firstn_snoc_nth _ _ _ Hx) in Si. rewrite <- (firstn_snoc_nth _ _ _ Hy) in Sj.
  destruct Si as [_ [_ [Ri [Bi _]]]]. destruct Sj as [_ [_ [Rj [Bj _]]]].
  assert (M : forall a c pp, (S a <= c)%nat -> reaches q (spec_tally (firstn (S a) l) pp) = true ->
              reaches q (spec_tally (firstn c l) pp) = true).
  { intros a c pp L R. destruct (firstn_le_split l (S a) c L) as [r E]. rewrite E.
    eapply reaches_mono; [exact R|]. apply spec_tally_mono_app. rewrite <- E.
    apply (wf_votes_prefix _ (skipn c l)). rewrite firstn_skipn. exact W. }
  assert (TR : (i < j)%nat \/ i = j \/ (j < i)%nat) by lia.
  destruct TR as [L|[E|L]]; [|exact E|].
  - exfalso. pose proof (M i j p L Ri) as C. rewrite Bj in C. discriminate.
  - exfalso. pose proof (M j i p' L Rj) as C. rewrite Bi in C. discriminate.
Qed.

(* ---------- exactly when the tracker panics ---------- *)

Lemma run_no_panic_iff q : reaches q 0 = false -> forall l h st, Good q h st -> wf_votes (h ++ l) ->
  ((forall o, In o (map fst (run q st l)) -> is_panic o = false) <->
   (forall l1 l2, l = l1 ++ l2 -> quorums_intersect q (h ++ l1))).
Proof.
  intros R0. induction l as [|x l IH]; intros h st G W; cbn [run].
  - split; [|intros _ o []]. intros _ l1 l2 E. symmetry in E. apply app_eq_nil in E. destruct E; subst.
    rewrite app_nil_r. destruct G as [_ G]. exact G.
  - assert (W1 : wf_votes (h ++ [x])) by (apply (wf_votes_prefix _ l); rewrite <- app_assoc; exact W).
    pose proof (handle_step q h st x R0 G W1) as SP. destruct (handle q st x) as [st1 o1]. cbn [fst snd] in SP.
    destruct (step_post_obs _ _ _ _ _ SP) as [SO [_ GG]].
    assert (HP : is_panic o1 = true -> ~ quorums_intersect q (h ++ [x])).
    { destruct o1 as [|p b|t]; try discriminate. intros _ [HE NT]. cbn [step_obs] in SO.
      destruct SO as [[_ RE]|[_ [_ [p [p' [Hne [R R']]]]]]]; [congruence|]. apply Hne. apply NT; assumption. }
    destruct (is_panic o1) eqn:P.
    + split.
      * intros NP. exfalso. assert (is_panic o1 = false); [|congruence]. apply NP.
        destruct o1; try discriminate. left. reflexivity.
      * intros Q. exfalso. apply (HP eq_refl). apply (Q [x] l). reflexivity.
    + specialize (GG eq_refl).
      assert (W2 : wf_votes ((h ++ [x]) ++ l)) by (rewrite <- app_assoc; exact W).
      specialize (IH (h ++ [x]) st1 GG W2).
      assert (RUN : map fst (match o1 with OPanic _ => [(o1, None)] | _ => (o1, Some st1) :: run q st1 l end)
                    = o1 :: map fst (run q st1 l)) by (destruct o1; try discriminate; reflexivity).
      rewrite RUN. split.
      * intros NP [|y l1] l2 E.
        { rewrite app_nil_r. destruct G as [_ G]. exact G. }
        { cbn [app] in E. inversion E; subst y.
          replace (h ++ x :: l1) with ((h ++ [x]) ++ l1) by (rewrite <- app_assoc; reflexivity).
          apply (proj1 IH) with (l2 := l2); [|assumption]. intros o Ho. apply NP. right. exact Ho. }
      * intros Q o [E|Ho]; [subst; exact P|]. apply (proj2 IH); [|exact Ho].
        intros l1 l2 E. replace ((h ++ [x]) ++ l1) with (h ++ (x :: l1)) by (rewrite <- app_assoc; reflexivity).
        apply (Q (x :: l1) l2). cbn [app]. f_equal. exact E.
Qed.

(* a simple sufficient condition: the stake that voted, counting equivocators twice, stays
   below two quorums *)
Lemma two_tallies_le h p p' : wf_votes h -> p <> p' ->
  spec_tally h p + spec_tally h p' <= total_weight h + spec_eqw h.
Proof.
  intros [_ [C _]] Hne. unfold spec_tally, spec_cnt, spec_eqw, total_weight.
  rewrite <- !sumN_map_add. apply sumN_map_le. intros s _. rewrite member_weight_mw.
  pose proof (status_facts h s) as F. destruct (status_of h s) as [|v|v1 v2]; cbn [cnt_contrib eq_contrib mw]; [lia| |].
  - destruct (v_value v =? p) eqn:E1; destruct (v_value v =? p') eqn:E2; lia.
  - destruct F as [I1 [I2 [S1 [S2 _]]]]. rewrite (C v1 v2 I1 I2); [lia|congruence].
Qed.

Lemma eqw_le_total h : wf_votes h -> spec_eqw h <= total_weight h.
Proof. intros W. pose proof (tally_le_total h 0 W). unfold spec_tally in *. lia. Qed.

Lemma spec_eqw_mono_app h l : spec_eqw h <= spec_eqw (h ++ l).
Proof.
  induction l as [|x l IH] using rev_ind; [rewrite app_nil_r; lia|].
  rewrite app_assoc. pose proof (spec_eqw_snoc (h ++ l) x) as H.
  destruct (status_of (h ++ l) (v_sender x)) as [|v|v1 v2]; cbn [status_step eq_contrib] in H; lia.
Qed.

Lemma quorums_intersect_suff t h l : wf_votes (h ++ l) ->
  total_weight (h ++ l) + spec_eqw (h ++ l) < 2 * t -> quorums_intersect (Some t) h.
Proof.
  intros W B. pose proof (wf_votes_prefix _ _ W) as W0.
  pose proof (total_weight_mono h l). pose proof (spec_eqw_mono_app h l).
  pose proof (eqw_le_total h W0). split.
  - cbn [reaches]. apply N.leb_gt. lia.
  - intros p p' R R'. cbn [reaches] in R, R'. apply N.leb_le in R, R'.
    destruct (N.eq_dec p p') as [E|E]; [exact E|]. pose proof (two_tallies_le h p p' W0 E). lia.
Qed.

(* ---------- the state-only structural invariant ---------- *)

Lemma Inv_tracker_wf h st : Inv h st -> wf_votes h -> tracker_wf st.
Proof.
  intros I W. pose proof W as [Pos _].
  assert (CO : forall p c, alookup p (counts st) = Some c -> counter_of st p = c).
  { intros p c L. unfold counter_of. rewrite L. reflexivity. }
  constructor.
  - split; [apply (inv_nd_voters _ _ I)|split; [apply (inv_nd_counts _ _ I)|apply (inv_nd_equivs _ _ I)]].
  - intros s. rewrite (inv_voters _ _ I), (inv_equivs _ _ I). unfold spec_voter, spec_equiv.
    destruct (status_of h s); congruence.
  - intros p c L. pose proof (CO p c L) as E. split; [|split].
    + intros Z. assert (NZ : spec_cnt h p <> 0).
      { intro Z0. apply (inv_entry _ _ I) in Z0. congruence. }
      apply NZ. rewrite <- (stored_votes_sum h st p I). rewrite E, Z. reflexivity.
    + rewrite <- E. apply (inv_nd_votes _ _ I).
    + intros s v. rewrite <- E. rewrite (inv_votes _ _ I), (inv_voters _ _ I). unfold spec_voter_for, spec_voter.
      destruct (status_of h s) as [|v0|v1 v2]; try (split; [discriminate|intros [? _]; discriminate]).
      destruct (v_value v0 =? p) eqn:EV.
      * apply N.eqb_eq in EV. split; [intros H; inversion H; subst; auto|tauto].
      * apply N.eqb_neq in EV. split; [discriminate|]. intros [H1 H2]. inversion H1; subst. contradiction.
  - intros s v L. rewrite (inv_voters _ _ I) in L. unfold spec_voter in L.
    destruct (status_of h s) as [|v0|v1 v2] eqn:S; try discriminate. inversion L; subst v0.
    intro Z. apply (inv_entry _ _ I) in Z.
    pose proof (proj1 (spec_cnt_zero_iff h (v_value v) Pos) Z s v S). congruence.
  - intros p c L. pose proof (CO p c L) as E. rewrite <- E. rewrite (inv_cnt _ _ I).
    rewrite <- (stored_votes_sum h st p I). rewrite map_map. reflexivity.
  - rewrite (inv_eqc _ _ I). rewrite <- (stored_eqs_sum h st I W). rewrite map_map. reflexivity.
  - split.
    + intros s v L. rewrite (inv_voters _ _ I) in L. unfold spec_voter in L.
      destruct (status_of h s) as [|v0|v1 v2] eqn:S; try discriminate. inversion L; subst v0.
      apply (status_voted_in _ _ _ S).
    + intros s e L. rewrite (inv_equivs _ _ I) in L. unfold spec_equiv in L.
      destruct (status_of h s) as [|v0|v1 v2] eqn:S; try discriminate. inversion L; subst e.
      cbn [e_sender e_p0 e_p1]. pose proof (status_equiv_in _ _ _ _ S). tauto.
Qed.

(* ---------- duplicates add nothing; equivocators count for every value ---------- *)
Lemma status_of_member h x : In x h ->
  match status_of h (v_sender x) with
  | SNone => False
  | SVoted v => v_value v = v_value x
  | SEquiv _ _ => True
  end.
Proof.
  induction h as [|y h IH] using rev_ind; [intros []|].
  rewrite in_app_iff. cbn [In]. intros Hin. rewrite status_snoc.
  destruct (v_sender y =? v_sender x) eqn:E.
  - destruct Hin as [Hin|[Hin|[]]].
    + specialize (IH Hin). destruct (status_of h (v_sender x)) as [|v|v1 v2]; [destruct IH| |exact I].
      cbn [status_step]. destruct (v_value v =? v_value y); [exact IH|exact I].
    + subst y. destruct (status_of h (v_sender x)) as [|v|v1 v2]; cbn [status_step]; [reflexivity| |exact I].
      destruct (v_value v =? v_value x) eqn:E2; [apply N.eqb_eq in E2; exact E2|exact I].
  - destruct Hin as [Hin|[Hin|[]]]; [exact (IH Hin)|]. subst y. rewrite N.eqb_refl in E. discriminate.
Qed.

Lemma duplicate_adds_nothing h x p : In x h -> spec_tally (h ++ [x]) p = spec_tally h p.
Proof.
  intros Hin. pose proof (status_of_member h x Hin) as M.
  assert (U : status_step (status_of h (v_sender x)) x = status_of h (v_sender x)).
  { destruct (status_of h (v_sender x)) as [|v|v1 v2]; [destruct M| |reflexivity].
    cbn [status_step]. rewrite M, N.eqb_refl. reflexivity. }
  destruct (spec_unchanged h x U) as [_ [Hc He]]. unfold spec_tally. rewrite Hc, He. reflexivity.
Qed.

(* a repeat by the same sender for the same value adds nothing either, whatever it looks like *)
Lemma repeat_adds_nothing h x y p : In y h -> v_sender y = v_sender x -> v_value y = v_value x ->
  spec_tally (h ++ [x]) p = spec_tally h p.
Proof.
  intros Hin Es Ev. pose proof (status_of_member h y Hin) as M. rewrite Es in M.
  assert (U : status_step (status_of h (v_sender x)) x = status_of h (v_sender x)).
  { destruct (status_of h (v_sender x)) as [|v|v1 v2]; [destruct M| |reflexivity].
    cbn [status_step]. rewrite M, Ev, N.eqb_refl. reflexivity. }
  destruct (spec_unchanged h x U) as [_ [Hc He]]. unfold spec_tally. rewrite Hc, He. reflexivity.
Qed.

(* an equivocator's weight is part of the tally of EVERY value *)
Lemma equivocator_counts_everywhere h s v1 v2 p :
  status_of h s = SEquiv v1 v2 -> v_weight v2 <= spec_tally h p.
Proof.
  intros S. unfold spec_tally, spec_eqw.
  pose proof (sumN_in_le (fun s0 => eq_contrib (status_of h s0)) (senders h) s) as L. cbn beta in L.
  rewrite S in L. cbn [eq_contrib] in L. specialize (L (status_seen h s ltac:(congruence))). lia.
Qed.
