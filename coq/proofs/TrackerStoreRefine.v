(* C47 lemmas, part 3: the refinement relation between the abstract store and the byte-string
   store, point lookups and range scans under it. *)
From Coq Require Import NArith List Bool Lia Sorted.
From Verif.model Require Import TrackerStore.
From Verif.proofs Require Import TrackerStoreKeys TrackerStoreMap.
Import ListNotations.
Open Scope N_scope.

(* what the key-value backend stores for a row of the abstract store: the row itself, except for
   an online-account row (a, r) |-> [normbal; votelast; algos], which is stored as
   (a, r) |-> [votelast; algos] plus the balance-index entry (r, normbal, a) |-> [votelast; algos] *)
Definition vval (e : skey * value) : value := match fst e with KOnl _ _ => tl (snd e) | _ => snd e end.
Definition encV (e : skey * value) : bytes * value := (enc (fst e), vval e).
Definition view_entry (e : skey * value) : list (skey * value) :=
  match fst e with
  | KOnl a r => [(KOnl a r, tl (snd e)); (KBal r (nth 0 (snd e) 0) a, tl (snd e))]
  | _ => [e]
  end.
Definition sview (s : spec) : list (skey * value) := flat_map view_entry s.

Definition entry_ok (e : skey * value) : Prop :=
  valid_key (fst e) = true /\
  match fst e with
  | KBal _ _ _ => False
  | KOnl _ _ => u64 (nth 0 (snd e) 0) = true
  | _ => True
  end.
Definition spec_wf (s : spec) : Prop := NoDup (map fst s) /\ Forall entry_ok s.

(* the refinement relation: the byte-string store holds exactly the encoded view of the abstract store *)
Definition R (s : spec) (kv : kvs) : Prop :=
  spec_wf s /\ ksorted kv /\ forall kb v, In (kb, v) kv <-> exists k, In (k, v) (sview s) /\ kb = enc k.

Definition plain (k : skey) : Prop := match k with KOnl _ _ | KBal _ _ _ => False | _ => True end.

(* ---------- association lists ---------- *)
Lemma alookup_In_1 s k v : alookup s k = Some v -> In (k, v) s.
Proof.
  induction s as [|[k' v'] s IH]; cbn; [discriminate|].
  destruct (skey_eqb k k') eqn:E.
  - apply skey_eqb_eq in E. subst. intros [= ->]. left. reflexivity.
  - intros H. right. apply IH, H.
Qed.
Lemma alookup_In s k v : NoDup (map fst s) -> (alookup s k = Some v <-> In (k, v) s).
Proof.
  intros ND. split; [apply alookup_In_1|].
  induction s as [|[k' v'] s IH]; cbn; [intros []|].
  inversion ND as [|? ? NI ND']; subst. intros [[= -> ->]|I].
  - rewrite skey_eqb_refl. reflexivity.
  - destruct (skey_eqb k k') eqn:E; [|apply IH; assumption].
    apply skey_eqb_eq in E. subst. exfalso. apply NI. apply (in_map fst) in I. exact I.
Qed.
Lemma alookup_None s k : alookup s k = None <-> forall v, ~ In (k, v) s.
Proof.
  induction s as [|[k' v'] s IH]; cbn.
  - split; [intros _ v []|reflexivity].
  - destruct (skey_eqb k k') eqn:E.
    + apply skey_eqb_eq in E. subst. split; [discriminate|]. intros H. elim (H v'). left. reflexivity.
    + apply skey_eqb_neq in E. rewrite IH. split.
      * intros H v [[= -> ->]|I]; [congruence|exact (H v I)].
      * intros H v I. apply (H v). right. exact I.
Qed.

Lemma sremove_In s k e : In e (sremove s k) <-> In e s /\ fst e <> k.
Proof.
  unfold sremove. rewrite filter_In, negb_true_iff, skey_eqb_neq. intuition congruence.
Qed.
Lemma map_fst_filter {A B} (f : A * B -> bool) (l : list (A * B)) : NoDup (map fst l) -> NoDup (map fst (filter f l)).
Proof.
  induction l as [|e l IH]; cbn; intros ND; [constructor|]. inversion ND as [|? ? NI ND']; subst.
  destruct (f e); cbn; [|apply IH, ND']. constructor; [|apply IH, ND'].
  intros I. apply NI. apply in_map_iff in I as (x & E & I). apply filter_In in I as [I _].
  apply in_map_iff. exists x. auto.
Qed.

(* ---------- the view ---------- *)
Lemma sview_In_plain s k v : plain k -> (In (k, v) (sview s) <-> In (k, v) s).
Proof.
  intros P. unfold sview. rewrite in_flat_map. split.
  - intros ([k' v'] & I & J). unfold view_entry in J. cbn [fst snd] in J.
    destruct k'; cbn in J; try (destruct J as [[= <- <-]|[]]; exact I);
      destruct J as [[= <- <-]|[[= <- <-]|[]]]; elim P.
  - intros I. exists (k, v). split; [exact I|]. unfold view_entry. destruct k; cbn; auto; elim P.
Qed.
Lemma sview_In_onl s a r v : In (KOnl a r, v) (sview s) <-> exists v0, In (KOnl a r, v0) s /\ v = tl v0.
Proof.
  unfold sview. rewrite in_flat_map. split.
  - intros ([k' v'] & I & J). unfold view_entry in J. cbn [fst snd] in J.
    destruct k'; cbn in J; try (destruct J as [[= ]|[]]; fail).
    destruct J as [[= <- <- <-]|[[= ]|[]]]. exists v'. auto.
  - intros (v0 & I & ->). exists (KOnl a r, v0). split; [exact I|]. left. reflexivity.
Qed.
Lemma sview_In_bal s r b a v :
  In (KBal r b a, v) (sview s) <-> exists v0, In (KOnl a r, v0) s /\ v = tl v0 /\ b = nth 0 v0 0.
Proof.
  unfold sview. rewrite in_flat_map. split.
  - intros ([k' v'] & I & J). unfold view_entry in J. cbn [fst snd] in J.
    destruct k'; cbn in J; try (destruct J as [[= ]|[]]; fail).
    + destruct J as [[= ]|[[= <- <- <- <-]|[]]]. exists v'. auto.
    + destruct J as [[= -> -> ->]|[]].
      destruct (in_split _ _ I) as (? & ? & _). exfalso. revert I. clear. intros I.
      (* a KBal key inside the abstract store: excluded by spec_wf, but the statement does not assume it *)
      admit.
  - intros (v0 & I & -> & ->). exists (KOnl a r, v0). split; [exact I|]. right. left. reflexivity.
Abort.
