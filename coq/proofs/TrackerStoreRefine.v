(* C47 lemmas, part 3: the refinement relation between the abstract store and the byte-string
   store, point lookups and range scans under it. *)
From Coq Require Import NArith List Bool Lia Sorted.
From Verif.model Require Import TrackerStore.
From Verif.proofs Require Import TrackerStoreKeys TrackerStoreMap.
Import ListNotations.
Open Scope N_scope.

(* what the key-value backend stores for a row of the abstract store: the row itself, except for
   an online-account row (a, r) |-> [normbal; votelast; algos], which is stored as
   (a, r) |-> [votelast; algos] plus the balance-index entry (r, normbal, a) |-> [votelast; algos] *)
Definition vval (e : skey * value) : value := match fst e with KOnl _ _ => tl (snd e) | _ => snd e end.
Definition encV (e : skey * value) : bytes * value := (enc (fst e), vval e).
Definition view_entry (e : skey * value) : list (skey * value) :=
  match fst e with
  | KOnl a r => [(KOnl a r, tl (snd e)); (KBal r (nth 0 (snd e) 0) a, tl (snd e))]
  | _ => [e]
  end.
Definition sview (s : spec) : list (skey * value) := flat_map view_entry s.

Definition entry_ok (e : skey * value) : Prop :=
  valid_key (fst e) = true /\
  match fst e with
  | KBal _ _ _ => False
  | KOnl _ _ => u64 (nth 0 (snd e) 0) = true
  | _ => True
  end.
Definition spec_wf (s : spec) : Prop := NoDup (map fst s) /\ Forall entry_ok s.

(* the refinement relation: the byte-string store holds exactly the encoded view of the abstract store *)
Definition R (s : spec) (kv : kvs) : Prop :=
  spec_wf s /\ ksorted kv /\ forall kb v, In (kb, v) kv <-> exists k, In (k, v) (sview s) /\ kb = enc k.

Definition plain (k : skey) : Prop := match k with KOnl _ _ | KBal _ _ _ => False | _ => True end.

(* ---------- association lists ---------- *)
Lemma alookup_In_1 s k v : alookup s k = Some v -> In (k, v) s.
Proof.
  induction s as [|[k' v'] s IH]; cbn; [discriminate|].
  destruct (skey_eqb k k') eqn:E.
  - apply skey_eqb_eq in E. subst. intros [= ->]. left. reflexivity.
  - intros H. right. apply IH, H.
Qed.
Lemma alookup_In s k v : NoDup (map fst s) -> (alookup s k = Some v <-> In (k, v) s).
Proof.
  intros ND. split; [apply alookup_In_1|].
  induction s as [|[k' v'] s IH]; cbn; [intros []|].
  inversion ND as [|? ? NI ND']; subst. intros [[= -> ->]|I].
  - rewrite skey_eqb_refl. reflexivity.
  - destruct (skey_eqb k k') eqn:E; [|apply IH; assumption].
    apply skey_eqb_eq in E. subst. exfalso. apply NI. apply (in_map fst) in I. exact I.
Qed.
Lemma alookup_None s k : alookup s k = None <-> forall v, ~ In (k, v) s.
Proof.
  induction s as [|[k' v'] s IH]; cbn.
  - split; [intros _ v []|reflexivity].
  - destruct (skey_eqb k k') eqn:E.
    + apply skey_eqb_eq in E. subst. split; [discriminate|]. intros H. elim (H v'). left. reflexivity.
    + apply skey_eqb_neq in E. rewrite IH. split.
      * intros H v [[= -> ->]|I]; [congruence|exact (H v I)].
      * intros H v I. apply (H v). right. exact I.
Qed.

Lemma sremove_In s k e : In e (sremove s k) <-> In e s /\ fst e <> k.
Proof.
  unfold sremove. rewrite filter_In, negb_true_iff, skey_eqb_neq. intuition congruence.
Qed.
Lemma map_fst_filter {A B} (f : A * B -> bool) (l : list (A * B)) : NoDup (map fst l) -> NoDup (map fst (filter f l)).
Proof.
  induction l as [|e l IH]; cbn; intros ND; [constructor|]. inversion ND as [|? ? NI ND']; subst.
  destruct (f e); cbn; [|apply IH, ND']. constructor; [|apply IH, ND'].
  intros I. apply NI. apply in_map_iff in I as (x & E & I). apply filter_In in I as [I _].
  apply in_map_iff. exists x. auto.
Qed.

(* ---------- the view ---------- *)
Lemma sview_In_plain s k v : plain k -> (In (k, v) (sview s) <-> In (k, v) s).
Proof.
  intros P. unfold sview. rewrite in_flat_map. split.
  - intros ([k' v'] & I & J). unfold view_entry in J. cbn [fst snd] in J.
    destruct k'; cbn in J; try (destruct J as [[= <- <-]|[]]; exact I);
      destruct J as [[= <- <-]|[[= <- <-]|[]]]; elim P.
  - intros I. exists (k, v). split; [exact I|]. unfold view_entry. destruct k; cbn; auto; elim P.
Qed.
Lemma sview_In_onl s a r v : In (KOnl a r, v) (sview s) <-> exists v0, In (KOnl a r, v0) s /\ v = tl v0.
Proof.
  unfold sview. rewrite in_flat_map. split.
  - intros ([k' v'] & I & J). unfold view_entry in J. cbn [fst snd] in J.
    destruct k'; cbn in J; try (destruct J as [[= ]|[]]; fail).
    destruct J as [[= <- <- <-]|[[= ]|[]]]. exists v'. auto.
  - intros (v0 & I & ->). exists (KOnl a r, v0). split; [exact I|]. left. reflexivity.
Qed.
Lemma sview_In_bal s r b a v : Forall entry_ok s ->
  (In (KBal r b a, v) (sview s) <-> exists v0, In (KOnl a r, v0) s /\ v = tl v0 /\ b = nth 0 v0 0).
Proof.
  intros W. unfold sview. rewrite in_flat_map. split.
  - intros ([k' v'] & I & J). unfold view_entry in J. cbn [fst snd] in J.
    destruct k'; cbn in J; try (destruct J as [[= ]|[]]; fail).
    + destruct J as [[= ]|[[= <- <- <- <-]|[]]]. exists v'. auto.
    + rewrite Forall_forall in W. destruct (W _ I) as [_ F]. elim F.
  - intros (v0 & I & -> & ->). exists (KOnl a r, v0). split; [exact I|]. right. left. reflexivity.
Qed.

Lemma sview_valid s k v : Forall entry_ok s -> In (k, v) (sview s) -> valid_key k = true.
Proof.
  intros W I. rewrite Forall_forall in W. unfold sview in I. apply in_flat_map in I as ([k' v'] & I & J).
  destruct (W _ I) as [V X]. cbn [fst snd] in *. unfold view_entry in J. cbn [fst snd] in J.
  destruct k'; cbn in J; try (destruct J as [[= <- <-]|[]]; exact V).
  destruct J as [[= <- <-]|[[= <- <-]|[]]]; [exact V|].
  cbn [valid_key] in *. apply andb_true_iff in V as [V1 V2]. rewrite V1, V2, X. reflexivity.
Qed.

(* ---------- point lookups ---------- *)
Lemma get_refines s kv k : R s kv -> valid_key k = true -> plain k -> kv_get kv (enc k) = alookup s k.
Proof.
  intros ((ND & W) & S & M) V P.
  destruct (alookup s k) as [v|] eqn:E.
  - apply (kv_get_In kv _ _ S), M. exists k. split; [|reflexivity].
    apply sview_In_plain; [exact P|]. apply alookup_In_1, E.
  - apply (kv_get_None kv _ S). intros v I. apply M in I as (k' & I & Ek).
    apply enc_inj in Ek; [|exact V|eapply sview_valid; eassumption]. subst k'.
    apply (proj1 (sview_In_plain _ _ _ P)) in I. rewrite alookup_None in E. exact (E v I).
Qed.

Lemma get_refines_onl s kv a r : R s kv -> valid_key (KOnl a r) = true ->
  kv_get kv (enc (KOnl a r)) = option_map (@tl N) (alookup s (KOnl a r)).
Proof.
  intros ((ND & W) & S & M) V.
  destruct (alookup s (KOnl a r)) as [v0|] eqn:E; cbn [option_map].
  - apply (kv_get_In kv _ _ S), M. exists (KOnl a r). split; [|reflexivity].
    apply sview_In_onl. exists v0. split; [apply alookup_In_1, E|reflexivity].
  - apply (kv_get_None kv _ S). intros v I. apply M in I as (k' & I & Ek).
    apply enc_inj in Ek; [|exact V|eapply sview_valid; eassumption]. subst k'.
    apply sview_In_onl in I as (v0 & I & _). rewrite alookup_None in E. exact (E v0 I).
Qed.

(* ---------- ORDER BY ---------- *)
Lemma In_sins x e l : In x (sins e l) <-> x = e \/ In x l.
Proof.
  induction l as [|y l IH]; cbn; [intuition|].
  destruct (skey_ltb (fst e) (fst y)); cbn; rewrite ?IH; intuition.
Qed.
Lemma In_ssort x l : In x (ssort l) <-> In x l.
Proof.
  induction l as [|y l IH]; cbn; [reflexivity|]. rewrite In_sins, IH. intuition.
Qed.
Lemma sselect_In s P e : In e (sselect s P) <-> In e s /\ P (fst e) = true.
Proof. unfold sselect. rewrite In_ssort, filter_In. reflexivity. Qed.

Lemma ksorted_sins e l : valid_key (fst e) = true -> Forall (fun x => valid_key (fst x) = true) l ->
  (forall x, In x l -> fst x <> fst e) -> ksorted (map encV l) -> ksorted (map encV (sins e l)).
Proof.
  intros Ve. induction l as [|y l IH]; intros Vl NE S; cbn [sins map].
  - constructor; constructor.
  - inversion Vl as [|? ? Vy Vl']; subst. cbn [map] in S. pose proof S as S0. apply ksorted_inv in S as [S F].
    destruct (skey_ltb (fst e) (fst y)) eqn:L; cbn [map].
    + rewrite skey_ltb_enc in L by assumption. apply bltb_lt in L. change (klt (encV e) (encV y)) in L.
      constructor; [exact S0|]. constructor; [exact L|].
      rewrite Forall_forall in F |- *. intros z Iz. exact (klt_trans _ _ _ L (F _ Iz)).
    + constructor.
      * apply IH; [exact Vl'| |exact S]. intros x Ix. apply NE. right. exact Ix.
      * assert (klt (encV y) (encV e)) as Lye.
        { unfold klt, encV. cbn [fst]. rewrite enc_order by assumption.
          unfold skey_ltb in L. destruct (skey_cmp (fst e) (fst y)) eqn:C; try discriminate.
          - apply skey_cmp_eq in C. exfalso. apply (NE y); [left; reflexivity|]. symmetry. exact C.
          - rewrite <- enc_order in C |- * by assumption. apply bcmp_gt_lt. exact C. }
        rewrite Forall_forall in F |- *. intros z Iz. apply in_map_iff in Iz as (x & <- & Ix).
        apply In_sins in Ix as [->|Ix]; [exact Lye|]. apply F. apply in_map. exact Ix.
Qed.

Lemma ksorted_ssort l : Forall (fun x => valid_key (fst x) = true) l -> NoDup (map fst l) ->
  ksorted (map encV (ssort l)).
Proof.
  induction l as [|e l IH]; intros V ND.
  - constructor.
  - change (ssort (e :: l)) with (sins e (ssort l)).
    inversion V as [|? ? Ve Vl]; subst. inversion ND as [|? ? NI ND']; subst.
    apply ksorted_sins; [exact Ve| | |apply IH; assumption].
    + rewrite Forall_forall in Vl |- *. intros x Ix. apply (proj1 (In_ssort _ _)) in Ix. exact (Vl _ Ix).
    + intros x Ix E. apply (proj1 (In_ssort _ _)) in Ix. apply NI. rewrite <- E. apply in_map. exact Ix.
Qed.

Lemma wf_valid s : spec_wf s -> Forall (fun x => valid_key (fst x) = true) s.
Proof. intros [_ W]. rewrite Forall_forall in *. intros x I. exact (proj1 (W _ I)). Qed.

Lemma ksorted_sselect s P : spec_wf s -> ksorted (map encV (sselect s P)).
Proof.
  intros W. unfold sselect. apply ksorted_ssort.
  - pose proof (wf_valid s W) as V. rewrite Forall_forall in *. intros x I. apply filter_In in I as [I _]. exact (V _ I).
  - apply map_fst_filter. exact (proj1 W).
Qed.

(* a spec row is stored under its encoded key *)
Lemma row_stored s kv e : R s kv -> In e s -> In (encV e) kv.
Proof.
  intros ((ND & W) & S & M) I. destruct e as [k v]. unfold encV, vval. cbn [fst snd]. apply M. exists k.
  split; [|reflexivity]. destruct k; try (apply sview_In_plain; [exact Logic.I|exact I]).
  - apply sview_In_onl. exists v. auto.
  - rewrite Forall_forall in W. destruct (W _ I) as [_ F]. elim F.
Qed.

(* range scans: the rows of the byte-string store inside [lo, hi) are the encoded rows the
   abstract store SELECTs with P, in ORDER BY key order, when [lo, hi) is exactly P on encoded keys *)
Lemma scan_refines s kv lo hi P : R s kv ->
  (forall k, valid_key k = true -> in_range lo hi (enc k) = P k) ->
  (forall r b a, P (KBal r b a) = false) ->
  kv_range kv lo hi = map encV (sselect s P).
Proof.
  intros HR HP HB. pose proof HR as ((ND & W) & S & M).
  apply ksorted_unique.
  - apply kv_range_sorted, S.
  - apply ksorted_sselect. split; assumption.
  - intros [kb v]. rewrite kv_range_In. cbn [fst]. split.
    + intros [I Rg]. apply M in I as (k & I & ->).
      pose proof (sview_valid s k v W I) as V. rewrite HP in Rg by exact V.
      apply in_map_iff.
      destruct k; try (match type of I with In (?k0, _) _ => exists (k0, v); split; [reflexivity|];
        apply sselect_In; split; [exact (proj1 (sview_In_plain s k0 v Logic.I) I)|exact Rg] end; fail).
      * apply sview_In_onl in I as (v0 & I & ->). exists (KOnl a r, v0). split; [reflexivity|].
        apply sselect_In. split; [exact I|exact Rg].
      * rewrite HB in Rg. discriminate.
    + intros I. apply in_map_iff in I as (e & E & I). apply sselect_In in I as [I Pe].
      pose proof (row_stored s kv e HR I) as J. rewrite E in J. split; [exact J|].
      unfold encV in E. injection E as <- _. rewrite HP; [exact Pe|].
      pose proof (wf_valid s (conj ND W)) as V. rewrite Forall_forall in V. exact (V _ I).
Qed.
