(* C11: list / range / association-list lemmas used by the txTail proofs. *)
From Coq Require Import NArith List Bool Lia ZifyN ZifyNat ZifyBool.
From Verif.model Require Import TxTail.
Import ListNotations.
Open Scope N_scope.

(* ---------- lookup ---------- *)
Lemma lookup_cons : forall V (k k' : N) (v : V) m,
  lookup k ((k', v) :: m) = if k =? k' then Some v else lookup k m.
Proof. reflexivity. Qed.

Lemma lookup_filter_key : forall V (f : N -> bool) (m : list (N * V)) k,
  lookup k (filter (fun e => f (fst e)) m) = if f k then lookup k m else None.
Proof.
  induction m as [|[k' v] m IH]; intros k.
  - cbn. destruct (f k); reflexivity.
  - cbn [filter fst]. destruct (f k') eqn:Hk'.
    + cbn [lookup]. destruct (k =? k') eqn:E.
      * apply N.eqb_eq in E. subst. rewrite Hk'. reflexivity.
      * apply IH.
    + rewrite IH. cbn [lookup]. destruct (k =? k') eqn:E; [|reflexivity].
      apply N.eqb_eq in E. subst. rewrite Hk'. reflexivity.
Qed.

Lemma lookup_In : forall V (m : list (N * V)) k v, lookup k m = Some v -> In (k, v) m.
Proof.
  induction m as [|[k' v'] m IH]; intros k v H; [discriminate|].
  cbn [lookup] in H. destruct (k =? k') eqn:E.
  - apply N.eqb_eq in E. inversion H. subst. left. reflexivity.
  - right. apply IH. exact H.
Qed.

Lemma lookup_None_notin : forall V (m : list (N * V)) k, lookup k m = None -> ~ In k (map fst m).
Proof.
  induction m as [|[k' v'] m IH]; intros k H; [intros []|].
  cbn [lookup] in H. destruct (k =? k') eqn:E; [discriminate|].
  apply N.eqb_neq in E. cbn. intros [A|A]; [congruence|]. exact (IH _ H A).
Qed.

(* ---------- lease keys ---------- *)
Lemma lkey_eqb_eq : forall a b : lkey, lkey_eqb a b = true <-> a = b.
Proof.
  intros [a1 a2] [b1 b2]. unfold lkey_eqb. cbn [fst snd]. rewrite andb_true_iff, !N.eqb_eq.
  split; [intros [-> ->]; reflexivity|intros H; inversion H; auto].
Qed.
Lemma lkey_eqb_refl : forall a, lkey_eqb a a = true.
Proof. intros. apply lkey_eqb_eq. reflexivity. Qed.
Lemma lkey_eqb_neq : forall a b : lkey, lkey_eqb a b = false <-> a <> b.
Proof.
  intros. split.
  - intros H E. apply lkey_eqb_eq in E. congruence.
  - intros H. destruct (lkey_eqb a b) eqn:E; [|reflexivity]. apply lkey_eqb_eq in E. contradiction.
Qed.

Lemma klookup_In : forall V (m : list (lkey * V)) k v, klookup k m = Some v -> In (k, v) m.
Proof.
  induction m as [|[k' v'] m IH]; intros k v H; [discriminate|].
  cbn [klookup] in H. destruct (lkey_eqb k k') eqn:E.
  - apply lkey_eqb_eq in E. inversion H. subst. left. reflexivity.
  - right. apply IH. exact H.
Qed.

Lemma klookup_app : forall V (a b : list (lkey * V)) k,
  klookup k (a ++ b) = match klookup k a with Some v => Some v | None => klookup k b end.
Proof.
  induction a as [|[k' v'] a IH]; intros; [reflexivity|].
  cbn [app klookup]. destruct (lkey_eqb k k'); [reflexivity|apply IH].
Qed.

Lemma klookup_None_notin : forall V (m : list (lkey * V)) k, klookup k m = None -> ~ In k (map fst m).
Proof.
  induction m as [|[k' v'] m IH]; intros k H; [intros []|].
  cbn [klookup] in H. destruct (lkey_eqb k k') eqn:E; [discriminate|].
  apply lkey_eqb_neq in E. cbn. intros [A|A]; [congruence|]. exact (IH _ H A).
Qed.

Lemma klookup_nodup_In : forall V (m : list (lkey * V)) k v,
  NoDup (map fst m) -> In (k, v) m -> klookup k m = Some v.
Proof.
  induction m as [|[k' v'] m IH]; intros k v ND HI; [destruct HI|].
  cbn [map fst] in ND. inversion ND as [|? ? Hn ND']. subst.
  cbn [klookup]. destruct HI as [E|HI].
  - inversion E. subst. rewrite lkey_eqb_refl. reflexivity.
  - destruct (lkey_eqb k k') eqn:E.
    + apply lkey_eqb_eq in E. subst. exfalso. apply Hn. apply in_map_iff. exists (k', v). auto.
    + apply IH; assumption.
Qed.

Lemma nodup_keys_NoDup : forall l, nodup_keys l = true <-> NoDup l.
Proof.
  induction l as [|k l IH]; cbn [nodup_keys].
  - split; [constructor|reflexivity].
  - rewrite andb_true_iff, negb_true_iff, IH. split.
    + intros [H1 H2]. constructor; [|exact H2]. intros HI.
      assert (existsb (lkey_eqb k) l = true); [|congruence].
      apply existsb_exists. exists k. split; [exact HI|apply lkey_eqb_refl].
    + intros H. inversion H as [|? ? Hn ND]. subst. split; [|exact ND].
      destruct (existsb (lkey_eqb k) l) eqn:E; [|reflexivity].
      apply existsb_exists in E. destruct E as [y [Hy E]]. apply lkey_eqb_eq in E. subst. contradiction.
Qed.

(* ---------- ranges ---------- *)
Lemma nseq_length : forall n a, length (nseq a n) = n.
Proof. induction n; intros; cbn; [reflexivity|rewrite IHn; reflexivity]. Qed.

Lemma in_nseq : forall n a r, In r (nseq a n) <-> a <= r < a + N.of_nat n.
Proof.
  induction n as [|n IH]; intros a r; cbn [nseq In].
  - split; [intros []|lia].
  - rewrite IH. lia.
Qed.

Lemma in_nrange : forall a b r, In r (nrange a b) <-> a <= r <= b.
Proof. intros. unfold nrange. rewrite in_nseq. lia. Qed.

Lemma nseq_app : forall n m a, nseq a (n + m) = nseq a n ++ nseq (a + N.of_nat n) m.
Proof.
  induction n as [|n IH]; intros m a.
  - cbn [Nat.add nseq app]. f_equal. lia.
  - cbn [Nat.add nseq app]. f_equal. rewrite IH. f_equal. f_equal. lia.
Qed.

Lemma nrange_split : forall a m b, a <= m + 1 -> m <= b -> nrange a b = nrange a m ++ nrange (m + 1) b.
Proof.
  intros a m b H1 H2. unfold nrange.
  replace (N.to_nat (b + 1 - a)) with (N.to_nat (m + 1 - a) + N.to_nat (b + 1 - (m + 1)))%nat by lia.
  rewrite nseq_app. f_equal. f_equal. lia.
Qed.

Lemma nrange_empty : forall a b, b < a -> nrange a b = [].
Proof. intros. unfold nrange. replace (N.to_nat (b + 1 - a)) with 0%nat by lia. reflexivity. Qed.

Lemma nrange_single : forall a, nrange a a = [a].
Proof. intros. unfold nrange. replace (N.to_nat (a + 1 - a)) with 1%nat by lia. reflexivity. Qed.

Lemma nrange_snoc : forall a b, a <= b + 1 -> nrange a (b + 1) = nrange a b ++ [b + 1].
Proof. intros. rewrite (nrange_split a b (b + 1)) by lia. rewrite nrange_single. reflexivity. Qed.

Lemma nrange_cons : forall a b, a <= b -> nrange a b = a :: nrange (a + 1) b.
Proof.
  intros. unfold nrange. replace (N.to_nat (b + 1 - a)) with (S (N.to_nat (b + 1 - (a + 1)))) by lia.
  cbn [nseq]. f_equal. f_equal. lia.
Qed.

Lemma nrange_length : forall a b, length (nrange a b) = N.to_nat (b + 1 - a).
Proof. intros. unfold nrange. apply nseq_length. Qed.

Lemma ex_range_true : forall f n s, ex_range f s n = true <-> exists r, s <= r < s + N.of_nat n /\ f r = true.
Proof.
  induction n as [|n IH]; intros s; cbn [ex_range].
  - split; [discriminate|intros [r [H _]]; lia].
  - rewrite orb_true_iff, IH. split.
    + intros [H|[r [H1 H2]]]; [exists s; split; [lia|exact H]|exists r; split; [lia|exact H2]].
    + intros [r [H1 H2]]. destruct (N.eq_dec r s) as [->|Hn]; [left; exact H2|].
      right. exists r. split; [lia|exact H2].
Qed.

(* lookup in a table built over a range *)
Lemma lookup_map_nseq : forall V (g : N -> V) n a r,
  lookup r (map (fun x => (x, g x)) (nseq a n)) = if (a <=? r) && (r <? a + N.of_nat n) then Some (g r) else None.
Proof.
  induction n as [|n IH]; intros a r; cbn [nseq map lookup].
  - destruct (a <=? r) eqn:E1; cbn [andb]; [|reflexivity].
    destruct (r <? a + N.of_nat 0) eqn:E2; [lia|reflexivity].
  - destruct (r =? a) eqn:E.
    + apply N.eqb_eq in E. subst.
      replace (a <=? a) with true by lia. replace (a <? a + N.of_nat (S n)) with true by lia. reflexivity.
    + rewrite IH. apply N.eqb_neq in E.
      destruct (a <=? r) eqn:E1, (N.succ a <=? r) eqn:E2, (r <? N.succ a + N.of_nat n) eqn:E3,
               (r <? a + N.of_nat (S n)) eqn:E4; cbn [andb]; try reflexivity; lia.
Qed.

Lemma lookup_map_nrange : forall V (g : N -> V) a b r,
  lookup r (map (fun x => (x, g x)) (nrange a b)) = if (a <=? r) && (r <=? b) then Some (g r) else None.
Proof.
  intros. unfold nrange. rewrite lookup_map_nseq.
  destruct (a <=? r) eqn:E1, (r <=? b) eqn:E2, (r <? a + N.of_nat (N.to_nat (b + 1 - a))) eqn:E3;
    cbn [andb]; try reflexivity; lia.
Qed.

Lemma filter_map_nrange : forall V (g : N -> V) c a b, c <= b + 1 ->
  filter (fun e => negb (fst e <? c)) (map (fun x => (x, g x)) (nrange a b)) =
  map (fun x => (x, g x)) (nrange (N.max a c) b).
Proof.
  intros V g c a b Hc.
  assert (Hall : forall l, (forall x, In x l -> c <= x) ->
            filter (fun e => negb (fst e <? c)) (map (fun x => (x, g x)) l) = map (fun x => (x, g x)) l).
  { induction l as [|x l IH]; intros H; [reflexivity|]. cbn [map filter fst].
    assert (c <= x) by (apply H; left; reflexivity).
    replace (x <? c) with false by lia. cbn [negb]. f_equal. apply IH. intros. apply H. right. assumption. }
  assert (Hnone : forall l, (forall x, In x l -> x < c) ->
            filter (fun e => negb (fst e <? c)) (map (fun x => (x, g x)) l) = []).
  { induction l as [|x l IH]; intros H; [reflexivity|]. cbn [map filter fst].
    assert (x < c) by (apply H; left; reflexivity).
    replace (x <? c) with true by lia. cbn [negb]. apply IH. intros. apply H. right. assumption. }
  destruct (N.le_gt_cases c a) as [Hle|Hgt].
  - replace (N.max a c) with a by lia. apply Hall. intros x Hx. apply in_nrange in Hx. lia.
  - replace (N.max a c) with c by lia.
    rewrite (nrange_split a (c - 1) b) by lia. rewrite map_app, filter_app.
    rewrite Hnone by (intros x Hx; apply in_nrange in Hx; lia).
    replace (c - 1 + 1) with c by lia. cbn [app]. apply Hall. intros x Hx. apply in_nrange in Hx. lia.
Qed.

(* ---------- folds of newBlock / leases_of ---------- *)
Definition kv (x : tx) : lkey * N := (t_key x, t_lv x).

Lemma fold_cons_filter : forall A B (c : A -> bool) (g : A -> B) l acc,
  fold_left (fun m x => if c x then m else g x :: m) l acc =
  rev (map g (filter (fun x => negb (c x)) l)) ++ acc.
Proof.
  induction l as [|x l IH]; intros acc; [reflexivity|].
  cbn [fold_left filter]. rewrite IH. destruct (c x); cbn [negb]; [reflexivity|].
  cbn [map rev]. rewrite <- app_assoc. reflexivity.
Qed.

Lemma leases_of_eq : forall txs, leases_of txs = rev (map kv (leased txs)).
Proof.
  intros. unfold leases_of, leased. rewrite (fold_cons_filter tx (lkey * N) (fun x => t_lease x =? 0) kv).
  rewrite app_nil_r. reflexivity.
Qed.

Lemma leases_of_app : forall a b, leases_of (a ++ b) = leases_of b ++ leases_of a.
Proof.
  intros. rewrite !leases_of_eq. unfold leased. rewrite filter_app, map_app, rev_app_distr. reflexivity.
Qed.

Lemma in_leased : forall x txs, In x (leased txs) <-> In x txs /\ t_lease x <> 0.
Proof.
  intros. unfold leased. rewrite filter_In, negb_true_iff, N.eqb_neq. reflexivity.
Qed.

Lemma klookup_leases_sound : forall txs k e,
  klookup k (leases_of txs) = Some e -> exists x, In x txs /\ t_lease x <> 0 /\ t_key x = k /\ t_lv x = e.
Proof.
  intros txs k e H. apply klookup_In in H. rewrite leases_of_eq in H.
  apply in_rev in H. apply in_map_iff in H. destruct H as [x [E HI]].
  apply in_leased in HI. destruct HI. unfold kv in E. inversion E. subst. exists x. auto.
Qed.

Lemma klookup_leases_complete : forall txs x,
  NoDup (map t_key (leased txs)) -> In x txs -> t_lease x <> 0 ->
  klookup (t_key x) (leases_of txs) = Some (t_lv x).
Proof.
  intros txs x ND HI Hl. apply klookup_nodup_In.
  - rewrite leases_of_eq, map_rev. apply NoDup_rev. rewrite map_map. cbn [kv fst]. exact ND.
  - rewrite leases_of_eq. apply -> in_rev. apply in_map_iff. exists x. split; [reflexivity|].
    apply in_leased. auto.
Qed.

Lemma fold_lastValid_In : forall txs acc a b,
  In (a, b) (fold_left (fun m x => (t_lv x, t_id x) :: m) txs acc) <->
  In (a, b) acc \/ exists x, In x txs /\ t_lv x = a /\ t_id x = b.
Proof.
  induction txs as [|x txs IH]; intros acc a b; cbn [fold_left].
  - split; [auto|intros [H|[x [[] _]]]; exact H].
  - rewrite IH. cbn [In]. split.
    + intros [[E|H]|[y [Hy E]]].
      * inversion E. right. exists x. auto.
      * auto.
      * right. exists y. auto.
    + intros [H|[y [[E|Hy] [E1 E2]]]].
      * auto.
      * subst. left. left. reflexivity.
      * right. exists y. auto.
Qed.

Lemma existsb_pair : forall (l : list (N * N)) a b,
  existsb (fun e => (fst e =? a) && (snd e =? b)) l = true <-> In (a, b) l.
Proof.
  intros. rewrite existsb_exists. split.
  - intros [[x y] [HI E]]. cbn [fst snd] in E. apply andb_true_iff in E. destruct E as [E1 E2].
    apply N.eqb_eq in E1. apply N.eqb_eq in E2. subst. exact HI.
  - intros H. exists (a, b). cbn [fst snd]. rewrite !N.eqb_refl. auto.
Qed.

Lemma firstn_map_nrange : forall V (g : N -> V) a b k, 1 <= k -> a + k <= b + 1 ->
  firstn (N.to_nat k) (map g (nrange a b)) = map g (nrange a (a + k - 1)).
Proof.
  intros V g a b k Hk H.
  - rewrite (nrange_split a (a + k - 1) b) by lia. rewrite map_app.
    rewrite firstn_app. rewrite map_length, nrange_length.
    replace (N.to_nat k - N.to_nat (a + k - 1 + 1 - a))%nat with 0%nat by lia.
    cbn [firstn]. rewrite app_nil_r. apply firstn_all2. rewrite map_length, nrange_length. lia.
Qed.

Lemma skipn_map_nrange : forall V (g : N -> V) a b k, a + k <= b + 1 ->
  skipn (N.to_nat k) (map g (nrange a b)) = map g (nrange (a + k) b).
Proof.
  intros V g a b k H. destruct (N.eq_dec k 0) as [->|Hk].
  - cbn [N.to_nat skipn]. f_equal. f_equal. lia.
  - rewrite (nrange_split a (a + k - 1) b) by lia. rewrite map_app.
    rewrite skipn_app. rewrite map_length, nrange_length.
    replace (N.to_nat k - N.to_nat (a + k - 1 + 1 - a))%nat with 0%nat by lia.
    rewrite skipn_all2 by (rewrite map_length, nrange_length; lia).
    cbn [skipn app]. f_equal. f_equal. lia.
Qed.
