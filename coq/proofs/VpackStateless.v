(* C42: the stateless layer on canonical votes: DecompressVote rebuilds exactly the canonical
   msgpack encoding from the frame, and the stateful encoder never refuses such a frame. *)
From Coq Require Import NArith List Bool String Ascii Lia ZifyN ZifyNat ZifyBool Arith.
From Verif.lib Require Import Term.
From Verif.model Require Import Vpack VpackSpec.
From Verif.proofs Require Import VpackBase VpackStateful VpackParse.
Import ListNotations.
Open Scope N_scope.

Definition hb (d : bytes) : bool := negb (is_nil d).

Lemma has_hb : forall d, has d = b2n (hb d).
Proof. intro d. unfold has, hb, b2n. destruct (is_nil d); reflexivity. Qed.

Lemma mask_bits : forall a b c d e f,
  let m := b2n a + 2 * b2n b + 4 * b2n c + 8 * b2n d + 16 * b2n e + 32 * b2n f in
  bit m 0 = a /\ bit m 1 = b /\ bit m 2 = c /\ bit m 3 = d /\ bit m 4 = e /\ bit m 5 = f /\
  (N.land m 30 =? 0) = negb (b || c || d || e) /\
  raw_vote_map_size m = 2 + b2n a + b2n f + (if b2n b + b2n c + b2n d + b2n e =? 0 then 0 else 1) /\
  proposal_value_map_size m = b2n b + b2n c + b2n d + b2n e.
Proof. intros [|] [|] [|] [|] [|] [|]; vm_compute; repeat split; reflexivity. Qed.

Lemma d_varuint_app : forall d key rest, opt is_varuint d = true ->
  d_varuint (hb d) key (d ++ rest) = Some (when_present d (key ++ d), rest).
Proof.
  intros d key rest H. unfold d_varuint, hb, when_present, opt in *.
  destruct (is_nil d) eqn:E; simpl in *.
  - apply is_nil_true in E. subst. reflexivity.
  - rewrite read_varuint_bytes_app by assumption. reflexivity.
Qed.

Lemma d_bin_app : forall d key n rest, opt (is_bin n) d = true ->
  d_bin (hb d) key n (d ++ rest) = Some (when_present d (key ++ [196; N.of_nat (List.length d)] ++ d), rest).
Proof.
  intros d key n rest H. unfold d_bin, hb, when_present, opt, is_bin in *.
  destruct (is_nil d) eqn:E; simpl in *.
  - apply is_nil_true in E. subst. reflexivity.
  - apply Nat.eqb_eq in H. rewrite (take_n_app' n d rest H). subst n. reflexivity.
Qed.

Lemma d_bin_req : forall d key n rest, is_bin n d = true ->
  d_bin true key n (d ++ rest) = Some (key ++ [196; N.of_nat (List.length d)] ++ d, rest).
Proof.
  intros d key n rest H. unfold d_bin, is_bin in *. apply Nat.eqb_eq in H.
  rewrite (take_n_app' n d rest H). subst n. reflexivity.
Qed.

Lemma d_varuint_req : forall d key rest, is_varuint d = true ->
  d_varuint true key (d ++ rest) = Some (key ++ d, rest).
Proof. intros d key rest H. unfold d_varuint. rewrite read_varuint_bytes_app by assumption. reflexivity. Qed.

Lemma wf_vote_fields : forall v, wf_vote v = true ->
  is_bin 80 (v_pf v) = true /\ opt is_varuint (v_per v) = true /\
  opt (is_bin 32) (v_dig v) = true /\ opt (is_bin 32) (v_encdig v) = true /\ opt is_varuint (v_oper v) = true /\
  opt (is_bin 32) (v_oprop v) = true /\
  is_varuint (v_rnd v) = true /\ is_bin 32 (v_snd v) = true /\ opt is_varuint (v_step v) = true /\
  is_bin 32 (v_p v) = true /\ is_bin 64 (v_p1s v) = true /\ is_bin 32 (v_p2 v) = true /\
  is_bin 64 (v_p2s v) = true /\ is_bin 64 (v_s v) = true.
Proof.
  unfold wf_vote. intros v H. repeat (apply andb_true_iff in H as [H ?]). repeat split; assumption.
Qed.

Theorem decompress_frame : forall v, wf_vote v = true ->
  decompress_vote (frame v) = Some (encode_msgp v).
Proof.
  intros v W.
  destruct (wf_vote_fields v W) as (Wpf & Wper & Wdig & Wenc & Woper & Woprop & Wrnd & Wsnd & Wstep &
                                    Wp & Wp1s & Wp2 & Wp2s & Ws).
  unfold frame, vote_body, decompress_vote.
  unfold vote_mask. rewrite !has_hb.
  destruct (mask_bits (hb (v_per v)) (hb (v_dig v)) (hb (v_encdig v)) (hb (v_oper v)) (hb (v_oprop v)) (hb (v_step v)))
    as (B0 & B1 & B2 & B3 & B4 & B5 & B30 & Brc & Bpc).
  cbv zeta in B0, B1, B2, B3, B4, B5, B30, Brc, Bpc.
  rewrite B0, B1, B2, B3, B4, B5, B30, Brc, Bpc. clear B0 B1 B2 B3 B4 B5 B30 Brc Bpc.
  rewrite negb_involutive.
  replace ((hb (v_dig v) || hb (v_encdig v) || hb (v_oper v) || hb (v_oprop v)) && hb (v_dig v)) with (hb (v_dig v))
    by (destruct (hb (v_dig v)), (hb (v_encdig v)), (hb (v_oper v)), (hb (v_oprop v)); reflexivity).
  replace ((hb (v_dig v) || hb (v_encdig v) || hb (v_oper v) || hb (v_oprop v)) && hb (v_encdig v)) with (hb (v_encdig v))
    by (destruct (hb (v_dig v)), (hb (v_encdig v)), (hb (v_oper v)), (hb (v_oprop v)); reflexivity).
  replace ((hb (v_dig v) || hb (v_encdig v) || hb (v_oper v) || hb (v_oprop v)) && hb (v_oper v)) with (hb (v_oper v))
    by (destruct (hb (v_dig v)), (hb (v_encdig v)), (hb (v_oper v)), (hb (v_oprop v)); reflexivity).
  replace ((hb (v_dig v) || hb (v_encdig v) || hb (v_oper v) || hb (v_oprop v)) && hb (v_oprop v)) with (hb (v_oprop v))
    by (destruct (hb (v_dig v)), (hb (v_encdig v)), (hb (v_oper v)), (hb (v_oprop v)); reflexivity).
  rewrite d_bin_req by assumption. cbn [bind].
  rewrite d_varuint_app by assumption. cbn [bind].
  rewrite d_bin_app by assumption. cbn [bind].
  rewrite d_bin_app by assumption. cbn [bind].
  rewrite d_varuint_app by assumption. cbn [bind].
  rewrite d_bin_app by assumption. cbn [bind].
  rewrite d_varuint_req by assumption. cbn [bind].
  rewrite d_bin_req by assumption. cbn [bind].
  rewrite d_varuint_app by assumption. cbn [bind].
  rewrite d_bin_req by assumption. cbn [bind].
  rewrite d_bin_req by assumption. cbn [bind].
  rewrite d_bin_req by assumption. cbn [bind].
  rewrite d_bin_req by assumption. cbn [bind].
  rewrite <- (app_nil_r (v_s v)) at 1. rewrite d_bin_req by assumption. cbn [bind is_nil negb].
  f_equal. unfold encode_msgp, raw_count, prop_count, enc_bin, enc_u. rewrite !has_hb.
  replace (b2n (hb (v_dig v)) + b2n (hb (v_encdig v)) + b2n (hb (v_oper v)) + b2n (hb (v_oprop v)) =? 0)
    with (negb (hb (v_dig v) || hb (v_encdig v) || hb (v_oper v) || hb (v_oprop v)))
    by (destruct (hb (v_dig v)), (hb (v_encdig v)), (hb (v_oper v)), (hb (v_oprop v)); reflexivity).
  unfold zeros at 2. rewrite repeat_length.
  destruct (hb (v_dig v) || hb (v_encdig v) || hb (v_oper v) || hb (v_oprop v));
    cbn [negb app]; rewrite <- ?app_assoc; cbn [app]; reflexivity.
Qed.

(* every frame of a canonical vote is accepted by the stateful encoder, in every state *)
Lemma varuint_value_some : forall d, is_varuint d = true -> exists v, varuint_value d = Some v.
Proof.
  intros d H. apply is_varuint_cons in H as (b & r & k & -> & Hk & Hlen).
  apply varuint_more_cases in Hk.
  destruct Hk as [[-> ->] | [[-> ->] | [[-> ->] | [[-> ->] | [_ ->]]]]].
  1-4: destruct r as [|x r]; [simpl in Hlen; discriminate|];
       unfold varuint_value; rewrite Hlen; eexists; reflexivity.
  destruct r; [|simpl in Hlen; discriminate]. eexists; reflexivity.
Qed.

Lemma fld_of_opt : forall ok d, opt ok d = true -> fld (hb d) ok d.
Proof.
  unfold opt, fld, hb. intros ok d H. destruct (is_nil d) eqn:E; simpl in *; [apply is_nil_true; assumption | assumption].
Qed.

Theorem compress_accepts_frame : forall st v, wf_vote v = true ->
  exists f st', compress true st (frame v) = Some (f, st').
Proof.
  intros st v W.
  destruct (wf_vote_fields v W) as (Wpf & Wper & Wdig & Wenc & Woper & Woprop & Wrnd & Wsnd & Wstep &
                                    Wp & Wp1s & Wp2 & Wp2s & Ws).
  unfold frame, vote_body, compress.
  change (vote_mask v :: 0 :: ?r) with ([vote_mask v; 0] ++ r).
  rewrite (take_n_app' 2) by reflexivity. cbn [bind nth].
  unfold vote_mask. rewrite !has_hb.
  destruct (mask_bits (hb (v_per v)) (hb (v_dig v)) (hb (v_encdig v)) (hb (v_oper v)) (hb (v_oprop v)) (hb (v_step v)))
    as (B0 & B1 & B2 & B3 & B4 & B5 & _).
  cbv zeta in B0, B1, B2, B3, B4, B5.
  set (m := b2n (hb (v_per v)) + 2 * b2n (hb (v_dig v)) + 4 * b2n (hb (v_encdig v)) + 8 * b2n (hb (v_oper v)) +
            16 * b2n (hb (v_oprop v)) + 32 * b2n (hb (v_step v))) in *.
  unfold is_bin in Wpf, Wsnd, Wp, Wp1s, Wp2, Wp2s, Ws.
  apply Nat.eqb_eq in Wpf, Wsnd, Wp, Wp1s, Wp2, Wp2s, Ws.
  rewrite (take_n_app' 80 (v_pf v)) by assumption. cbn [bind].
  rewrite B0. rewrite opt_read_varuint_app by (apply fld_of_opt; assumption). cbn [bind].
  rewrite read_prop_app by (rewrite ?B1, ?B2, ?B3, ?B4; apply fld_of_opt; assumption). cbn [bind].
  rewrite read_varuint_bytes_app by assumption. cbn [bind].
  destruct (varuint_value_some _ Wrnd) as (rnd & ->). cbn [bind].
  destruct (enc_rnd true (last_rnd st) (v_rnd v) rnd) as [rc rndout].
  rewrite (take_n_app' 32 (v_snd v)) by assumption. cbn [bind].
  destruct (enc_ref snd_hash (snd_t st) (v_snd v)) as [[sref sout] st1].
  rewrite B5. rewrite opt_read_varuint_app by (apply fld_of_opt; assumption). cbn [bind].
  replace (v_p v ++ v_p1s v ++ v_p2 v ++ v_p2s v ++ v_s v)
    with ((v_p v ++ v_p1s v) ++ (v_p2 v ++ v_p2s v) ++ v_s v ++ []) by (rewrite app_nil_r, <- !app_assoc; reflexivity).
  rewrite (take_n_app' 96 (v_p v ++ v_p1s v)) by (rewrite app_length, Wp, Wp1s; reflexivity). cbn [bind].
  destruct (enc_ref pk_hash (pk_t st) (v_p v ++ v_p1s v)) as [[pref pout] pt1].
  rewrite (take_n_app' 96 (v_p2 v ++ v_p2s v)) by (rewrite app_length, Wp2, Wp2s; reflexivity). cbn [bind].
  destruct (enc_ref pk_hash (pk2_t st) (v_p2 v ++ v_p2s v)) as [[p2ref p2out] p2t1].
  rewrite (take_n_app' 64 (v_s v)) by assumption. cbn [bind is_nil negb].
  eexists _, _. reflexivity.
Qed.
