(* C39: the vector-commitment conditions [vc_complete] / [vc_sound] that the state-proof theorems
   take as premises are met by the merklearray model of C37 (model/MerkleArray.v) for every
   hash satisfying C37's explicit hash assumptions. *)
From Coq Require Import NArith List Bool Lia ZifyN ZifyNat ZifyBool.
From Verif.model Require Import MerkleArray MerkleArraySpec StateProof StateProofSpec.
From Verif.proofs Require Import MerkleArrayVC MerkleArrayFinal StateProofProofs.
Import ListNotations.

Section Inst.
  Variable E : Type.
  Variable s : nat.
  Variable hleaf : E -> digest.
  Variable hbottom : digest.
  Variable hnode : list N -> digest.

  Local Notation mroot := (StateProofSpec.mroot E s hleaf hbottom hnode).
  Local Notation mprove := (StateProofSpec.mprove E s hleaf hbottom hnode).
  Local Notation mverify := (StateProofSpec.mverify E s hleaf hnode).
  Local Notation mtreedepth := (StateProofSpec.mtreedepth E s hleaf hbottom hnode).
  Local Notation mposmap := (StateProofSpec.mposmap E s hleaf hbottom hnode).

  Lemma prove_depth : forall t idxs pf, prove t idxs = inl pf -> p_depth pf = depthOf t.
  Proof.
    intros t idxs pf H. unfold prove in H. destruct idxs as [|i0 r]; [inversion H; reflexivity|].
    destruct (t_n t =? 0)%N; [discriminate|].
    destruct (existsb _ _); [discriminate|].
    destruct (if t_vc t then _ else _) as [idxs'|]; [|discriminate].
    destruct (proveLoop _ _) as [plf hints].
    destruct (Nat.eqb (length plf) 1); [inversion H; reflexivity | discriminate].
  Qed.

  Lemma depth_small : hash_sizes E s hleaf hbottom hnode ->
    forall arr, (length arr <= 1024)%nat -> (mtreedepth arr <= MaxTreeDepth)%N.
  Proof.
    intros (H1 & H2 & H3) arr Hn. unfold StateProofSpec.mtreedepth.
    rewrite (depthOf_vc E s hleaf hbottom hnode H1 H2 H3). unfold expOf, nOf, pathOf, vcShape, MaxTreeDepth.
    destruct (N.leb_spec (N.of_nat (length arr)) 1) as [|Hgt]; [cbn; lia|].
    cbn [fst]. rewrite N2Nat.id.
    assert (Hs : (N.size (N.of_nat (length arr) - 1) <= 10)%N).
    { destruct (N.le_gt_cases (N.size (N.of_nat (length arr) - 1)) 10) as [|Hc]; [assumption|exfalso].
      pose proof (N.size_le (N.of_nat (length arr) - 1)) as Hle. rewrite N.succ_double_spec in Hle.
      assert (2 ^ 11 <= 2 ^ N.size (N.of_nat (length arr) - 1))%N by (apply N.pow_le_mono_r; lia).
      change (2 ^ 11)%N with 2048%N in *. lia. }
    unfold nOf. destruct (N.leb_spec (N.of_nat (length arr)) 1); cbn [fst]; lia.
  Qed.

  Lemma merkle_vc_complete : hash_sizes E s hleaf hbottom hnode ->
    vc_complete mroot mprove mverify p_depth.
  Proof.
    intros Hs arr idxs elems Hne Hr Hn ND Hc.
    destruct (complete_vc_final E s hleaf hbottom hnode arr idxs elems Hs) as (pf & EP & EV).
    - repeat split; [exact Hne | exact Hr |]. change (2 ^ 63)%N with 9223372036854775808%N. lia.
    - split; assumption.
    - exists pf. unfold StateProofSpec.mprove, mverify, mroot. rewrite EP, EV. repeat split.
      rewrite (prove_depth _ _ _ EP). apply (depth_small Hs arr Hn).
  Qed.

  Lemma merkle_vc_sound : hash_sizes E s hleaf hbottom hnode -> hash_ideal E s hleaf hbottom hnode ->
    vc_sound mroot mverify p_depth mtreedepth mposmap.
  Proof.
    intros Hs Hi. split.
    - intros arr elems pf HV i e HI. unfold StateProofSpec.mverify, mroot in HV.
      destruct (verifyVC E s hleaf hnode _ elems pf) eqn:EV; try discriminate.
      unfold StateProofSpec.mposmap. destruct (N.eqb_spec (p_depth pf) (mtreedepth arr)) as [Ed|Nd].
      + eapply (sound_vc_final E s hleaf hbottom hnode arr elems pf Hs Hi EV Ed); exact HI.
      + destruct (sound_vc_leaf_final E s hleaf hbottom hnode arr elems pf Hs Hi EV i e HI)
          as (p & lsb & A & B & C). rewrite A, B. exact C.
    - intros arr pf i Hd. unfold StateProofSpec.mposmap. rewrite Hd, N.eqb_refl. reflexivity.
  Qed.
End Inst.
