(* C47 lemmas, part 2: the ordered byte-string store (get / set / delete / range / delete-range on
   strictly sorted association lists) and uniqueness of sorted lists. *)
From Coq Require Import NArith List Bool Lia Sorted.
From Verif.model Require Import TrackerStore.
From Verif.proofs Require Import TrackerStoreKeys.
Import ListNotations.
Open Scope N_scope.

Definition klt {V} (e1 e2 : bytes * V) : Prop := bcmp (fst e1) (fst e2) = Lt.
Definition ksorted {V} (s : list (bytes * V)) : Prop := StronglySorted klt s.

Lemma ksorted_nil {V} : @ksorted V [].
Proof. constructor. Qed.

Lemma ksorted_inv {V} (e : bytes * V) s : ksorted (e :: s) -> ksorted s /\ Forall (klt e) s.
Proof. intros H. inversion H; subst. split; assumption. Qed.

Lemma klt_irrefl {V} (e : bytes * V) : ~ klt e e.
Proof. unfold klt. rewrite bcmp_refl. discriminate. Qed.
Lemma klt_asym {V} (e1 e2 : bytes * V) : klt e1 e2 -> ~ klt e2 e1.
Proof. unfold klt. intros H1 H2. rewrite (bcmp_antisym (fst e1) (fst e2)), H1 in H2. discriminate. Qed.
Lemma klt_trans {V} (e1 e2 e3 : bytes * V) : klt e1 e2 -> klt e2 e3 -> klt e1 e3.
Proof. unfold klt. apply bcmp_trans_lt. Qed.

Lemma ksorted_filter {V} (f : bytes * V -> bool) s : ksorted s -> ksorted (filter f s).
Proof.
  induction s as [|e s IH]; intros H; cbn; [constructor|].
  apply ksorted_inv in H as [Hs Hf]. destruct (f e); [|apply IH, Hs].
  constructor; [apply IH, Hs|]. rewrite Forall_forall in *. intros x Hx. apply filter_In in Hx as [Hx _]. auto.
Qed.

(* two strictly sorted lists with the same elements are equal *)
Lemma ksorted_unique {V} (l1 : list (bytes * V)) : forall l2, ksorted l1 -> ksorted l2 ->
  (forall e, In e l1 <-> In e l2) -> l1 = l2.
Proof.
  induction l1 as [|e1 l1 IH]; intros [|e2 l2] S1 S2 H.
  - reflexivity.
  - exfalso. apply (H e2). left. reflexivity.
  - exfalso. apply (H e1). left. reflexivity.
  - apply ksorted_inv in S1 as [S1 F1]. apply ksorted_inv in S2 as [S2 F2].
    rewrite Forall_forall in F1, F2.
    assert (e1 = e2) as ->.
    { destruct (proj1 (H e1) (or_introl eq_refl)) as [E|I1]; [auto|].
      destruct (proj2 (H e2) (or_introl eq_refl)) as [E|I2]; [auto|].
      exfalso. exact (klt_asym _ _ (F2 _ I1) (F1 _ I2)). }
    f_equal. apply IH; try assumption. intros e. split; intros I.
    + destruct (proj1 (H e) (or_intror I)) as [E|I']; [|exact I'].
      subst. exfalso. exact (klt_irrefl _ (F1 _ I)).
    + destruct (proj2 (H e) (or_intror I)) as [E|I']; [|exact I'].
      subst. exfalso. exact (klt_irrefl _ (F2 _ I)).
Qed.

Lemma kv_get_In (s : kvs) k v : ksorted s -> (kv_get s k = Some v <-> In (k, v) s).
Proof.
  induction s as [|[k' v'] s IH]; intros S; cbn [kv_get].
  - split; [discriminate|intros []].
  - apply ksorted_inv in S as [S F]. rewrite Forall_forall in F.
    destruct (bcmp k k') eqn:E.
    + apply bcmp_eq in E. subst k'. split.
      * intros [= ->]. left. reflexivity.
      * intros [[= ->]|I]; [reflexivity|]. exfalso. exact (klt_irrefl _ (F _ I)).
    + split; [discriminate|]. intros [[= -> ->]|I].
      * rewrite bcmp_refl in E. discriminate.
      * exfalso. specialize (F _ I). unfold klt in F. cbn in F. rewrite (bcmp_antisym k k'), E in F. discriminate.
    + rewrite (IH S). split; [intros I; right; exact I|]. intros [[= -> ->]|I]; [|exact I].
      rewrite bcmp_refl in E. discriminate.
Qed.

Lemma kv_get_None (s : kvs) k : ksorted s -> (kv_get s k = None <-> forall v, ~ In (k, v) s).
Proof.
  intros S. split.
  - intros H v I. apply (kv_get_In s k v S) in I. congruence.
  - intros H. destruct (kv_get s k) as [v|] eqn:E; [|reflexivity]. apply (kv_get_In s k v S) in E. elim (H v E).
Qed.

Lemma kv_set_In (s : kvs) k v : ksorted s -> forall k' v',
  In (k', v') (kv_set s k v) <-> (k' = k /\ v' = v) \/ (k' <> k /\ In (k', v') s).
Proof.
  induction s as [|[k0 v0] s IH]; intros S k' v'; cbn [kv_set].
  - cbn. split.
    + intros [[= <- <-]|[]]. left. auto.
    + intros [[-> ->]|[_ []]]. left. reflexivity.
  - apply ksorted_inv in S as [S F]. rewrite Forall_forall in F.
    destruct (bcmp k k0) eqn:E.
    + apply bcmp_eq in E. subst k0. cbn [In]. split.
      * intros [[= <- <-]|I]; [left; auto|]. right. split; [|right; exact I].
        intros ->. exact (klt_irrefl _ (F _ I)).
      * intros [[-> ->]|[N [[= -> ->]|I]]]; [left; reflexivity|congruence|right; exact I].
    + cbn [In]. split.
      * intros [[= <- <-]|[[= <- <-]|I]]; [left; auto| |].
        -- right. split; [|left; reflexivity]. intros ->. rewrite bcmp_refl in E. discriminate.
        -- right. split; [|right; exact I]. intros ->. specialize (F _ I). unfold klt in F. cbn in F.
           rewrite (bcmp_antisym k k0), E in F. discriminate.
      * intros [[-> ->]|[N I]]; [left; reflexivity|right; exact I].
    + cbn [In]. rewrite (IH S). split.
      * intros [[= <- <-]|[[-> ->]|[N I]]]; [|left; auto|right; auto].
        right. split; [|left; reflexivity]. intros ->. rewrite bcmp_refl in E. discriminate.
      * intros [[-> ->]|[N [[= -> ->]|I]]]; [right; left; auto|left; reflexivity|right; right; auto].
Qed.

Lemma kv_set_sorted (s : kvs) k v : ksorted s -> ksorted (kv_set s k v).
Proof.
  induction s as [|[k0 v0] s IH]; intros S; cbn [kv_set].
  - constructor; constructor.
  - pose proof S as S0. apply ksorted_inv in S as [S F]. rewrite Forall_forall in F.
    destruct (bcmp k k0) eqn:E.
    + apply bcmp_eq in E. subst k0. constructor; [exact S|]. rewrite Forall_forall. intros x I. exact (F _ I).
    + constructor; [exact S0|]. rewrite Forall_forall. intros x [<-|I]; [exact E|].
      eapply klt_trans; [|exact (F _ I)]. exact E.
    + constructor; [apply IH, S|]. rewrite Forall_forall. intros [k' v'] I.
      apply (kv_set_In s k v S) in I as [[-> ->]|[_ I]]; [|exact (F _ I)].
      unfold klt. cbn. apply bcmp_gt_lt. exact E.
Qed.

Lemma kv_del_In (s : kvs) k : ksorted s -> forall k' v', In (k', v') (kv_del s k) <-> k' <> k /\ In (k', v') s.
Proof.
  induction s as [|[k0 v0] s IH]; intros S k' v'; cbn [kv_del].
  - cbn. tauto.
  - apply ksorted_inv in S as [S F]. rewrite Forall_forall in F.
    destruct (bcmp k k0) eqn:E.
    + apply bcmp_eq in E. subst k0. cbn [In]. split.
      * intros I. split; [|right; exact I]. intros ->. exact (klt_irrefl _ (F _ I)).
      * intros [N [[= -> ->]|I]]; [congruence|exact I].
    + cbn [In]. split.
      * intros [[= <- <-]|I].
        -- split; [|left; reflexivity]. intros ->. rewrite bcmp_refl in E. discriminate.
        -- split; [|right; exact I]. intros ->. specialize (F _ I). unfold klt in F. cbn in F.
           rewrite (bcmp_antisym k k0), E in F. discriminate.
      * intros [_ I]. exact I.
    + cbn [In]. rewrite (IH S). split.
      * intros [[= <- <-]|[N I]].
        -- split; [|left; reflexivity]. intros ->. rewrite bcmp_refl in E. discriminate.
        -- split; [exact N|right; exact I].
      * intros [N [[= -> ->]|I]]; [left; reflexivity|right; auto].
Qed.

Lemma kv_del_sorted (s : kvs) k : ksorted s -> ksorted (kv_del s k).
Proof.
  induction s as [|[k0 v0] s IH]; intros S; cbn [kv_del]; [constructor|].
  pose proof S as S0. apply ksorted_inv in S as [S F]. rewrite Forall_forall in F.
  destruct (bcmp k k0) eqn:E; [exact S|exact S0|].
  constructor; [apply IH, S|]. rewrite Forall_forall. intros [k' v'] I.
  apply (kv_del_In s k S) in I as [_ I]. exact (F _ I).
Qed.

Lemma kv_range_In (s : kvs) lo hi e : In e (kv_range s lo hi) <-> In e s /\ in_range lo hi (fst e) = true.
Proof. unfold kv_range. apply filter_In. Qed.
Lemma kv_range_sorted (s : kvs) lo hi : ksorted s -> ksorted (kv_range s lo hi).
Proof. apply ksorted_filter. Qed.
Lemma kv_delrange_In (s : kvs) lo hi e : In e (kv_delrange s lo hi) <-> In e s /\ in_range lo (Some hi) (fst e) = false.
Proof. unfold kv_delrange. rewrite filter_In, negb_true_iff. reflexivity. Qed.
Lemma kv_delrange_sorted (s : kvs) lo hi : ksorted s -> ksorted (kv_delrange s lo hi).
Proof. apply ksorted_filter. Qed.

(* the last element of a sorted list is the one with the largest key *)
Lemma ksorted_app_inv {V} (l1 l2 : list (bytes * V)) : ksorted (l1 ++ l2) ->
  ksorted l1 /\ ksorted l2 /\ forall x y, In x l1 -> In y l2 -> klt x y.
Proof.
  induction l1 as [|e l1 IH]; cbn; intros S.
  - split; [constructor|]. split; [exact S|]. intros x y [].
  - apply ksorted_inv in S as [S F]. destruct (IH S) as (S1 & S2 & C). rewrite Forall_forall in F.
    split; [|split; [exact S2|]].
    + constructor; [exact S1|]. rewrite Forall_forall. intros x I. apply F, in_or_app. left. exact I.
    + intros x y [<-|I] J; [apply F, in_or_app; right; exact J|exact (C _ _ I J)].
Qed.
