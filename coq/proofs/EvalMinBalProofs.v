(* C21: the minimum-balance formula against its closed form, and the post-condition that
   checkMinBalance establishes for every account a group has modified. *)
From Coq Require Import NArith List Bool Lia ZifyN ZifyBool.
From Verif.model Require Import Overflow EvalCow EvalApply EvalGroup EvalSpec.
From Verif.proofs Require Import OverflowProofs EvalCowProofs EvalGroupProofs EvalConserveProofs.
Import ListNotations.
Open Scope N_scope.

(* ------------------------------------------------------------------ the formula *)
Lemma cap_lt a : cap a < 2 ^ 64.
Proof. unfold cap. lia. Qed.

Lemma addsat_cap a b : a < 2 ^ 64 -> b < 2 ^ 64 -> addsat 64 a b = cap (a + b).
Proof. intros Ha Hb. rewrite addsat_spec by (rewrite M64; assumption). reflexivity. Qed.

Lemma mulsat_cap a b : a < 2 ^ 64 -> b < 2 ^ 64 -> mulsat 64 a b = cap (a * b).
Proof. intros Ha Hb. rewrite mulsat_spec by (rewrite M64; assumption). reflexivity. Qed.

(* all protocol constants and account counters are uint64 *)
Definition params_w64 (P : params) : Prop :=
  p_minbal P < 2 ^ 64 /\ p_appflatparams P < 2 ^ 64 /\ p_appflatoptin P < 2 ^ 64 /\
  p_boxflat P < 2 ^ 64 /\ p_boxbyte P < 2 ^ 64 /\ p_schemaentry P < 2 ^ 64 /\
  p_schemauint P < 2 ^ 64 /\ p_schemabytes P < 2 ^ 64.

Definition counts_w64 (x : acct) : Prop :=
  a_assets x < 2 ^ 64 /\ a_appparams x < 2 ^ 64 /\ a_applocals x < 2 ^ 64 /\
  a_schema_u x < 2 ^ 64 /\ a_schema_b x < 2 ^ 64 /\ a_extrapages x < 2 ^ 64 /\
  a_boxes x < 2 ^ 64 /\ a_boxbytes x < 2 ^ 64.

Lemma cap_add_l a b : cap (cap a + b) = cap (a + b).
Proof. unfold cap. lia. Qed.
Lemma cap_add_r a b : cap (a + cap b) = cap (a + b).
Proof. unfold cap. lia. Qed.
Lemma cap_add_2 a b : cap (cap a + cap b) = cap (a + b).
Proof. now rewrite cap_add_l, cap_add_r. Qed.

Lemma schema_minbal_is_spec P nu nb :
  params_w64 P -> nu < 2 ^ 64 -> nb < 2 ^ 64 -> schema_minbal P nu nb = spec_schema_cost P nu nb.
Proof.
  intros (_ & _ & _ & _ & _ & H1 & H2 & H3) Hu Hb. unfold schema_minbal, spec_schema_cost.
  rewrite (addsat_cap nu nb) by assumption.
  rewrite (mulsat_cap (p_schemaentry P)) by (auto using cap_lt).
  rewrite (mulsat_cap (p_schemauint P)), (mulsat_cap (p_schemabytes P)) by assumption.
  rewrite (addsat_cap (cap _) (cap _)) by apply cap_lt.
  rewrite (addsat_cap (cap _) (cap _)) by apply cap_lt.
  generalize (cap (p_schemaentry P * cap (nu + nb))) (p_schemauint P * nu) (p_schemabytes P * nb).
  intros a b c. rewrite (cap_add_r a b), (cap_add_2 (a + b) c). reflexivity.
Qed.

(* minbal_formula: the transcribed saturating computation is the capped sum *)
Lemma min_balance_is_spec P x :
  params_w64 P -> counts_w64 x -> min_balance P x = spec_min_balance P x.
Proof.
  intros HP (C1 & C2 & C3 & C4 & C5 & C6 & C7 & C8). pose proof HP as (P1 & P2 & P3 & P4 & P5 & P6 & P7 & P8).
  unfold min_balance, spec_min_balance.
  rewrite schema_minbal_is_spec by assumption.
  rewrite !mulsat_cap by assumption.
  assert (Hs : spec_schema_cost P (a_schema_u x) (a_schema_b x) < 2 ^ 64) by apply cap_lt.
  rewrite (addsat_cap (p_minbal P) (cap _)) by (first [assumption | apply cap_lt]).
  repeat (rewrite (addsat_cap (cap _) _) by (first [assumption | apply cap_lt])).
  generalize (spec_schema_cost P (a_schema_u x) (a_schema_b x)) (p_minbal P * a_assets x)
    (p_appflatparams P * a_appparams x) (p_appflatoptin P * a_applocals x)
    (p_appflatparams P * a_extrapages x) (p_boxflat P * a_boxes x) (p_boxbyte P * a_boxbytes x).
  intros s t1 t2 t3 t4 t5 t6. set (m := p_minbal P).
  rewrite (cap_add_r m t1), (cap_add_2 (m + t1) t2), (cap_add_2 (m + t1 + t2) t3), (cap_add_l (m + t1 + t2 + t3) s),
    (cap_add_2 (m + t1 + t2 + t3 + s) t4), (cap_add_2 (m + t1 + t2 + t3 + s + t4) t5),
    (cap_add_2 (m + t1 + t2 + t3 + s + t4 + t5) t6).
  reflexivity.
Qed.

(* no term was dropped: the requirement is at least the base amount, and (below the cap)
   one more asset holding / created app / opt-in / box raises it by exactly its price *)
Lemma spec_min_balance_base P x : p_minbal P < 2 ^ 64 -> p_minbal P <= spec_min_balance P x.
Proof.
  intros H. unfold spec_min_balance.
  generalize (spec_schema_cost P (a_schema_u x) (a_schema_b x)) (p_minbal P * a_assets x)
    (p_appflatparams P * a_appparams x) (p_appflatoptin P * a_applocals x)
    (p_appflatparams P * a_extrapages x) (p_boxflat P * a_boxes x) (p_boxbyte P * a_boxbytes x).
  intros. unfold cap. lia.
Qed.

Lemma spec_min_balance_asset_step P x :
  spec_min_balance P (set_asset_counts x (a_assetparams x) (a_assets x + 1)) < 2 ^ 64 - 1 ->
  spec_min_balance P (set_asset_counts x (a_assetparams x) (a_assets x + 1)) = spec_min_balance P x + p_minbal P.
Proof.
  unfold spec_min_balance. cbn [set_asset_counts a_assets a_appparams a_applocals a_schema_u a_schema_b a_extrapages a_boxes a_boxbytes].
  generalize (spec_schema_cost P (a_schema_u x) (a_schema_b x))
    (p_appflatparams P * a_appparams x) (p_appflatoptin P * a_applocals x)
    (p_appflatparams P * a_extrapages x) (p_boxflat P * a_boxes x) (p_boxbyte P * a_boxbytes x).
  intros. rewrite N.mul_add_distr_l, N.mul_1_r in *. unfold cap in *. lia.
Qed.

(* ------------------------------------------------------------------ checkMinBalance *)
Definition special (E : env) (a : N) : Prop := a = e_feesink E \/ a = e_pool E \/ a = e_spsender E.

(* what a passed check says about one account of the current cow *)
Definition minbal_ok_acct (E : env) (x : acct) : Prop :=
  acct_is_zero x = true \/
  exists dn, with_rewards (e_P E) (e_lvl E) x = Ok dn /\ min_balance (e_P E) dn <= a_algos dn.

Definition minbal_ok (E : env) (c : cow) : Prop :=
  forall a, In a (modified c) -> special E a \/ minbal_ok_acct E (lookup c a).

Lemma check_min_balance_list_ok E c addrs :
  check_min_balance_list E c addrs = Ok tt ->
  forall a, In a addrs -> special E a \/ minbal_ok_acct E (lookup c a).
Proof.
  induction addrs as [|b r IH]; cbn [check_min_balance_list In]; intros H a Ha; [contradiction|].
  destruct ((b =? e_feesink E) || (b =? e_pool E) || (b =? e_spsender E)) eqn:Hsp.
  - destruct Ha as [<-|Ha]; [|auto]. left. unfold special.
    apply orb_true_iff in Hsp. destruct Hsp as [Hsp|Hsp]; [apply orb_true_iff in Hsp; destruct Hsp as [Hsp|Hsp]|];
      apply N.eqb_eq in Hsp; auto.
  - destruct (acct_is_zero (lookup c b)) eqn:Hz.
    + destruct Ha as [<-|Ha]; [|auto]. right. now left.
    + destruct (with_rewards (e_P E) (e_lvl E) (lookup c b)) as [dn|e] eqn:Hw; [|discriminate].
      destruct (a_algos dn <? min_balance (e_P E) dn) eqn:Hlt; [discriminate|].
      destruct (negb (p_maxminbal (e_P E) =? 0) && (p_maxminbal (e_P E) <? min_balance (e_P E) dn)); [discriminate|].
      destruct Ha as [<-|Ha]; [|auto]. right. right. exists dn. split; [assumption|]. now apply N.ltb_ge.
Qed.

Lemma transaction_minbal E tx c c' u :
  e_validate E || e_generate E = true ->
  transaction E tx c = (c', Ok u) -> minbal_ok E c'.
Proof.
  intros Hflag H. unfold transaction in H.
  apply bind_ok in H. destruct H as (c1 & u1 & H1 & H).
  apply bind_ok in H. destruct H as (c1' & ctr & Hctr & H).
  apply bind_ok in H. destruct H as (c2 & ad & H2 & H).
  apply bind_ok in H. destruct H as (c3 & u3 & H3 & H).
  unfold m_addtx in H. inversion H. subst c'. clear H.
  rewrite Hflag in H3. cbn [when] in H3. unfold check_min_balance in H3.
  destruct (mods_consistent c2); [|inversion H3].
  destruct (check_min_balance_list E c2 (modified c2)) as [[]|e] eqn:Hc; inversion H3. subst c3.
  intros a Ha. change (modified (addtx c2 (t_txid tx) (t_lv tx) (t_sender tx) (t_lease tx))) with (modified c2) in Ha.
  rewrite lookup_addtx. eapply check_min_balance_list_ok; eauto.
Qed.

Lemma group_loop_minbal E g0 multi txs c c' u :
  e_validate E || e_generate E = true -> txs <> [] ->
  group_loop E g0 multi txs c = (c', Ok u) -> minbal_ok E c'.
Proof.
  intros Hflag. revert c. induction txs as [|tx r IH]; intros c Hne H; [contradiction|].
  cbn [group_loop] in H.
  apply bind_ok in H. destruct H as (c1 & u1 & H1 & H).
  apply bind_ok in H. destruct H as (c2 & u2 & G2 & H).
  apply bind_ok in H. destruct H as (c3 & u3 & G3 & H).
  apply guard_ok in G2. destruct G2 as [_ ->]. apply guard_ok in G3. destruct G3 as [_ ->].
  destruct r as [|tx2 r2].
  - cbn [group_loop] in H. unfold ret in H. inversion H. subst c'. eapply transaction_minbal; eauto.
  - eapply IH; [discriminate|exact H].
Qed.

(* minbal_after_group: after an accepted group every account the group has written --
   other than the fee sink, the rewards pool and the state proof sender -- is either
   completely empty or holds, with its pending rewards, at least its requirement *)
Theorem minbal_after_group E ev g lf ev' :
  e_validate E || e_generate E = true -> g <> [] ->
  transaction_group E ev g lf = (ev', Ok tt) ->
  exists c1, group_body E g lf (child (ev_cow ev)) = (c1, Ok tt) /\
    forall a, In a (modified c1) -> special E a \/ minbal_ok_acct E (lookup (ev_cow ev') a).
Proof.
  intros Hflag Hne Hg.
  destruct (group_all E ev g lf ev' Hne Hg) as (c1 & Hb & _ & Hl & _).
  exists c1. split; [exact Hb|]. intros a Ha. rewrite Hl.
  unfold group_body in Hb.
  apply bind_ok in Hb. destruct Hb as (k1 & u1 & B1 & Hb).
  apply bind_ok in Hb. destruct Hb as (k2 & u2 & B2 & Hb).
  apply bind_ok in Hb. destruct Hb as (k3 & u3 & B3 & Hb).
  destruct (summarize_fees g lf). unfold lift in Hb. inversion Hb. subst k3.
  apply guard_ok in B3. destruct B3 as [_ ->].
  eapply group_loop_minbal in B2; eauto.
Qed.

(* the same statement in the closed form the oracle uses *)
Lemma minbal_ok_acct_spec E x :
  0 < p_unit (e_P E) -> e_lvl E < 2 ^ 64 -> a_algos x < 2 ^ 64 -> a_rbase x <= e_lvl E ->
  params_w64 (e_P E) -> counts_w64 x ->
  minbal_ok_acct E x ->
  acct_is_zero x = true \/ spec_min_balance (e_P E) x <= bwp (e_P E) (e_lvl E) x.
Proof.
  intros Hu Hl Ha Hb HP HC [Hz|(dn & Hw & Hle)]; [now left|right].
  destruct (with_rewards_ok _ _ _ _ Hu Ha Hb Hl Hw) as (N1 & _).
  rewrite <- N1. rewrite <- min_balance_is_spec by assumption.
  assert (Hmb : min_balance (e_P E) dn = min_balance (e_P E) x).
  { unfold with_rewards in Hw. destruct (a_status x); try (inversion Hw; reflexivity);
      (destruct (p_unit (e_P E) =? 0); [discriminate|]);
      cbn zeta in Hw;
      destruct (osub 64 (e_lvl E) (a_rbase x)) as [d o1];
      destruct (omul 64 (reward_units (e_P E) (a_algos x)) d) as [rw o2];
      destruct (oadd 64 (a_algos x) rw) as [out o3];
      destruct (o1 || o2 || o3); inversion Hw; reflexivity. }
  now rewrite <- Hmb.
Qed.

(* one more box of [bytes] bytes (name + contents) raises the requirement by the flat box price
   plus the per-byte price *)
Lemma spec_min_balance_box_step P x bytes :
  spec_min_balance P (set_box_counts x (a_boxes x + 1) (a_boxbytes x + bytes)) < 2 ^ 64 - 1 ->
  spec_min_balance P (set_box_counts x (a_boxes x + 1) (a_boxbytes x + bytes)) =
  spec_min_balance P x + p_boxflat P + p_boxbyte P * bytes.
Proof.
  unfold spec_min_balance. cbn [set_box_counts a_assets a_appparams a_applocals a_schema_u a_schema_b a_extrapages a_boxes a_boxbytes].
  generalize (spec_schema_cost P (a_schema_u x) (a_schema_b x)) (p_minbal P * a_assets x)
    (p_appflatparams P * a_appparams x) (p_appflatoptin P * a_applocals x)
    (p_appflatparams P * a_extrapages x).
  intros. rewrite !N.mul_add_distr_l, N.mul_1_r in *. unfold cap in *. lia.
Qed.
