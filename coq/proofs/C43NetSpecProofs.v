(* C43: the executable net-level predicate [spec_net] that [check] evaluates on what the real
   readLoops were observed to do holds of the model's observations for EVERY filter geometry,
   number of peers and schedule: deliveries are whole, of known tags and within limits; a
   connection is torn down only for an over-long message or a reader error; a known tag's
   message is dropped only as a duplicate of something seen before; no duplicate is delivered
   within the retention window. *)
From Coq Require Import NArith ZArith List Bool Lia ZifyN ZifyNat ZifyBool.
From Verif.lib Require Import Term.
From Verif.model Require Import Slurper MsgFilter PeerRead C43Check.
From Verif.gen Require Import TagLimits.
From Verif.proofs Require Import SlurperProofs MsgFilterProofs PeerProofs C43SpecProofs.
Import ListNotations.
Open Scope N_scope.

Notation B := (N.min averageMessageLength maxMessageLength).
Notation M := maxMessageLength.

Lemma dedup_deliver t : dedup_safe t = true -> in_tags t deliver_tags = true.
Proof.
  unfold dedup_safe, tag_eqb. intros H. apply orb_true_iff in H.
  destruct H as [H|H]; destruct (list_eqb_N_spec t tAV), (list_eqb_N_spec t tTX);
    try discriminate; subst; reflexivity.
Qed.

Lemma key_of_inj t1 i1 l1 t2 i2 l2 : key_of t1 i1 l1 = key_of t2 i2 l2 -> t1 = t2 /\ i1 = i2 /\ l1 = l2.
Proof.
  unfold key_of. intros H.
  change (t1 ++ [i1; l1]) with (t1 ++ [i1] ++ [l1]) in H.
  change (t2 ++ [i2; l2]) with (t2 ++ [i2] ++ [l2]) in H.
  rewrite !app_assoc in H. apply app_inj_tail in H. destruct H as (H & ->).
  apply app_inj_tail in H. destruct H as (-> & ->). auto.
Qed.

(* ------------------------------------------------------------------ one frame, all cases *)
Definition cd_of (flt : filt (D:=list N)) (fr : frame) :=
  check_digest keqb flt (key_of (ftag fr) (fid fr) (ftotal fr)) true true.
Definition is_dd (fr : frame) : bool := dedup_safe (ftag fr) && (0 <? ftotal fr).

Lemma peer_step_cases flt p fr :
  pinv p -> popen p = true ->
  let '(p', flt', res) := peer_step flt p fr in
  let limit := tag_limit (ftag fr) in
  pinv p' /\
  ((exists o, res = PClosed o) /\ popen p' = false /\ flt' = flt /\
     (too_long limit M (ftotal fr) = true \/ has_err (fscript fr) = true)
   \/
   popen p' = true /\ too_long limit M (ftotal fr) = false /\
   (in_tags (ftag fr) deliver_tags = false /\ res = PDropped /\ flt' = flt
    \/ in_tags (ftag fr) deliver_tags = true /\ is_dd fr = false /\
       res = PDelivered (ftotal fr) /\ flt' = flt
    \/ in_tags (ftag fr) deliver_tags = true /\ is_dd fr = true /\ flt' = fst (cd_of flt fr) /\
       res = (if snd (cd_of flt fr) then PDropped else PDelivered (ftotal fr)))).
Proof.
  intros Hinv Hopen. unfold peer_step. rewrite Hopen. cbn [negb].
  destruct geometry_ok as (HBM & Hnw).
  pose proof (slurp_spec B M HBM Hnw (pslurp p) (tag_limit (ftag fr)) (ftotal fr) (fscript fr) Hinv) as Hs.
  destruct (slurp (pslurp p) (tag_limit (ftag fr)) (ftotal fr) (fscript fr)) as [[o s'] r'].
  destruct Hs as (((Hg' & Hmx & Hal & Hpost) & _) & Hfuel).
  cbn [reset maxSize rtotal rscript] in Hmx, Hal, Hpost. cbn zeta.
  destruct o.
  - (* read completely *)
    destruct Hpost as (Hsize & _ & Hlim & HleM). rewrite Hsize.
    assert (Htl : too_long (tag_limit (ftag fr)) M (ftotal fr) = false)
      by (unfold too_long; destruct Hlim; lia).
    destruct (in_tags (ftag fr) deliver_tags) eqn:Hdel.
    + destruct ((0 <? ftotal fr) && dedup_safe (ftag fr)) eqn:Hdd.
      * unfold cd_of.
        destruct (check_digest keqb flt (key_of (ftag fr) (fid fr) (ftotal fr)) true true) as [f2 has] eqn:Ecd.
        assert (Hisdd : is_dd fr = true) by (unfold is_dd; rewrite andb_comm; exact Hdd).
        destruct has; cbn [fst snd]; (split; [exact Hg'|]); right; (split; [reflexivity|]);
          (split; [exact Htl|]); right; right; auto.
      * assert (Hisdd : is_dd fr = false) by (unfold is_dd; rewrite andb_comm; exact Hdd).
        split; [exact Hg'|]. right. split; [reflexivity|]. split; [exact Htl|]. right. left. auto.
    + split; [exact Hg'|]. right. split; [reflexivity|]. split; [exact Htl|]. left. auto.
  - split; [exact Hg'|]. left. split; [eexists; reflexivity|]. split; [reflexivity|]. split; [reflexivity|].
    left. unfold too_long. lia.
  - split; [exact Hg'|]. left. split; [eexists; reflexivity|]. split; [reflexivity|]. split; [reflexivity|].
    right. apply has_err_iff. exact Hpost.
  - contradiction.
  - congruence.
Qed.

(* ------------------------------------------------------------------ the walk *)
Definition obs_step (ifr : nat * frame) (r : pres) : nstep :=
  let '(d, c, l) := pres_obs r (ftotal (snd ifr)) in mkNstep (fst ifr) (snd ifr) d c l true.
Definition obs_steps (sched : list (nat * frame)) (res : list pres) : list nstep :=
  map (fun x => obs_step (fst x) (snd x)) (combine sched res).

Lemma hist_last_cons k k' i h :
  hist_last k ((k', i) :: h) = if keqb k k' then Some i else hist_last k h.
Proof. reflexivity. Qed.

Definition ninv (n : nat) (mx : Z) (k : nat) (peers : list peer) (flt : filt (D:=list N))
           (idx : N) (hist : list (list N * N)) (closedp : list nat) : Prop :=
  Forall pinv peers /\ length peers = k /\
  (forall i p, nth_error peers i = Some p -> popen p = negb (existsb (Nat.eqb i) closedp)) /\
  (forall key, hist_last key hist = None -> absent keqb flt key) /\
  ((1 <= mx)%Z ->
   wf flt /\ nb flt = n /\ maxsz flt = mx /\
   forall tg id total i, hist_last (key_of tg id total) hist = Some i ->
     dedup_safe tg = true -> 0 < total ->
     i < idx /\ life_ge keqb flt (key_of tg id total) (window (N.of_nat n) mx - Z.of_N (idx - i - 1))).

Lemma length_upd_peer i p l : length (upd_peer i p l) = length l.
Proof. revert i; induction l; intros [|i]; cbn [upd_peer length]; auto. Qed.

Lemma nth_error_upd_peer i p l j :
  nth_error (upd_peer i p l) j =
  if Nat.eqb j i then (match nth_error l i with Some _ => Some p | None => None end) else nth_error l j.
Proof.
  revert i j; induction l as [|x l IH]; intros i j.
  - cbn [upd_peer]. destruct (Nat.eqb j i); destruct i, j; reflexivity.
  - destruct i as [|i], j as [|j]; cbn [upd_peer nth_error Nat.eqb]; try reflexivity. apply IH.
Qed.

Lemma spec_net_walk_model n mx k sched : forall peers flt idx hist closedp,
  ninv n mx k peers flt idx hist closedp ->
  spec_net_walk (N.of_nat n) mx k (obs_steps sched (net_run peers flt sched)) idx hist closedp = true.
Proof.
  induction sched as [|[i fr] sched IH]; intros peers flt idx hist closedp Hinv;
    cbn [net_run obs_steps combine map spec_net_walk]; [reflexivity|].
  destruct Hinv as (Hp & Hlen & Hcl & Habs & Hlife).
  set (tg := ftag fr). set (limit := tag_limit tg).
  set (key := key_of tg (fid fr) (ftotal fr)).
  (* weakening of the life table by one step when the filter is untouched *)
  assert (Hlife_same : forall hist', (forall key', hist_last key' hist' = hist_last key' hist) ->
            (1 <= mx)%Z ->
            wf flt /\ nb flt = n /\ maxsz flt = mx /\
            forall tg id total i0, hist_last (key_of tg id total) hist' = Some i0 ->
              dedup_safe tg = true -> 0 < total ->
              i0 < idx + 1 /\ life_ge keqb flt (key_of tg id total)
                                 (window (N.of_nat n) mx - Z.of_N (idx + 1 - i0 - 1))).
  { intros hist' Hsame Hm. destruct (Hlife Hm) as (Hwf & Hnb & Hmx & Hl).
    split; [exact Hwf|]. split; [exact Hnb|]. split; [exact Hmx|].
    intros tg0 id0 total0 i0 Hh Hd Hpos. rewrite Hsame in Hh.
    destruct (Hl tg0 id0 total0 i0 Hh Hd Hpos) as (Hlt & Hlg). split; [lia|].
    eapply (life_ge_weaken keqb keqb_spec); [|exact Hlg]. lia. }
  destruct (nth_error peers i) as [p|] eqn:Ei.
  2:{ (* no such connection *)
      cbn [combine map obs_step pres_obs fst snd ns_peer ns_frame ns_delivered ns_closed ns_len ns_cok
           spec_net_walk].
      assert (Hge : (k <= i)%nat) by (rewrite <- Hlen; apply nth_error_None; exact Ei).
      assert (Hg : ((k <=? i)%nat || existsb (Nat.eqb i) closedp) = true)
        by (destruct (Nat.leb_spec k i); [reflexivity|lia]).
      rewrite Hg. cbn [negb andb N.eqb].
      apply IH. split; [exact Hp|]. split; [exact Hlen|]. split.
      { intros j q Ej. rewrite (Hcl j q Ej). cbn [existsb].
        destruct (Nat.eqb_spec j i) as [->|_]; [congruence|reflexivity]. }
      split; [exact Habs|]. apply Hlife_same. reflexivity. }
  pose proof (Forall_nth_error _ _ _ _ Hp Ei) as Hpi.
  assert (Hlt : (i < k)%nat) by (rewrite <- Hlen; apply nth_error_Some; congruence).
  destruct (popen p) eqn:Hopen.
  2:{ (* connection already closed *)
      unfold peer_step. rewrite Hopen. cbn [negb].
      cbn [combine map obs_step pres_obs fst snd ns_peer ns_frame ns_delivered ns_closed ns_len ns_cok
           spec_net_walk].
      pose proof (Hcl i p Ei) as Hc. rewrite Hopen in Hc.
      assert (He : existsb (Nat.eqb i) closedp = true) by (destruct (existsb (Nat.eqb i) closedp); [reflexivity|discriminate]).
      rewrite He, orb_true_r. cbn [negb andb N.eqb].
      apply IH. split.
      { apply Forall_upd_peer; assumption. }
      split; [rewrite length_upd_peer; exact Hlen|]. split.
      { intros j q Ej. rewrite nth_error_upd_peer in Ej. cbn [existsb].
        destruct (Nat.eqb_spec j i) as [->|Hne].
        - rewrite Ei in Ej. inversion Ej; subst q. rewrite Hopen, He, orb_true_r. reflexivity.
        - rewrite (Hcl j q Ej). reflexivity. }
      split; [exact Habs|]. apply Hlife_same. reflexivity. }
  (* open connection *)
  pose proof (peer_step_cases flt p fr Hpi Hopen) as Hc.
  destruct (peer_step flt p fr) as [[p' flt'] res]. cbn zeta in Hc. destruct Hc as (Hp' & Hc).
  fold tg limit in Hc.
  assert (Hng : ((k <=? i)%nat || existsb (Nat.eqb i) closedp) = false).
  { pose proof (Hcl i p Ei) as Hc2. rewrite Hopen in Hc2.
    destruct (Nat.leb_spec k i); [lia|]. destruct (existsb (Nat.eqb i) closedp); [discriminate|reflexivity]. }
  assert (Hpeers' : Forall pinv (upd_peer i p' peers)) by (apply Forall_upd_peer; assumption).
  assert (Hcl_keep : popen p' = true ->
            forall j q, nth_error (upd_peer i p' peers) j = Some q ->
                        popen q = negb (existsb (Nat.eqb j) closedp)).
  { intros Ho j q Ej. rewrite nth_error_upd_peer in Ej.
    destruct (Nat.eqb_spec j i) as [->|Hne].
    - rewrite Ei in Ej. inversion Ej; subst q. rewrite Ho.
      rewrite orb_false_iff in Hng. destruct Hng as (_ & ->). reflexivity.
    - exact (Hcl j q Ej). }
  destruct Hc as [((o & ->) & Hclosed & -> & Hwhy)|(Hstill & Htl & Hc)].
  - (* torn down *)
    cbn [combine map obs_step pres_obs fst snd ns_peer ns_frame ns_delivered ns_closed ns_len ns_cok
         spec_net_walk].
    rewrite Hng. fold tg limit. cbn [negb andb N.eqb].
    assert (Hw : (too_long limit M (ftotal fr) || has_err (fscript fr)) = true)
      by (destruct Hwhy as [-> | ->]; [reflexivity|apply orb_true_r]).
    rewrite Hw. cbn [andb].
    apply IH. split; [exact Hpeers'|]. split; [rewrite length_upd_peer; exact Hlen|]. split.
    { intros j q Ej. rewrite nth_error_upd_peer in Ej. cbn [existsb].
      destruct (Nat.eqb_spec j i) as [->|Hne].
      - rewrite Ei in Ej. inversion Ej; subst q. rewrite Hclosed. reflexivity.
      - rewrite (Hcl j q Ej). reflexivity. }
    split; [exact Habs|]. apply Hlife_same. reflexivity.
  - (* read completely; the history gains this key *)
    assert (Hhist' : forall key', hist_last key' ((key, idx) :: hist) =
                                  if keqb key' key then Some idx else hist_last key' hist)
      by (intros; reflexivity).
    destruct Hc as [(Hnd & -> & ->)|[(Hdel & Hndd & -> & ->)|(Hdel & Hdd & -> & ->)]].
    + (* unknown / internal tag: dropped *)
      cbn [combine map obs_step pres_obs fst snd ns_peer ns_frame ns_delivered ns_closed ns_len ns_cok
           spec_net_walk].
      rewrite Hng. fold tg limit. cbn [negb andb N.eqb]. rewrite Htl. unfold known_deliverable.
      fold tg in Hnd. rewrite Hnd. cbn [negb andb orb].
      apply IH. split; [exact Hpeers'|]. split; [rewrite length_upd_peer; exact Hlen|].
      split; [exact (Hcl_keep Hstill)|]. split.
      { intros key' Hk. rewrite Hhist' in Hk. destruct (keqb key' key); [discriminate|]. exact (Habs key' Hk). }
      intros Hm. destruct (Hlife Hm) as (Hwf & Hnb & Hmx & Hl).
      split; [exact Hwf|]. split; [exact Hnb|]. split; [exact Hmx|].
      intros tg0 id0 total0 i0 Hh Hd Hpos. rewrite Hhist' in Hh.
      destruct (keqb_spec (key_of tg0 id0 total0) key) as [Ek|Ek].
      * exfalso. apply key_of_inj in Ek. destruct Ek as (-> & _ & _).
        apply dedup_deliver in Hd. congruence.
      * destruct (Hl tg0 id0 total0 i0 Hh Hd Hpos) as (Hlt0 & Hlg). split; [lia|].
        eapply (life_ge_weaken keqb keqb_spec); [|exact Hlg]. lia.
    + (* delivered without the filter (not dedup-safe, or empty) *)
      destruct (deliver_tag_limit _ Hdel) as (Hpos & _). fold tg limit in Hpos.
      assert (Hle : ftotal fr <= limit) by (unfold too_long in Htl; lia).
      cbn [combine map obs_step pres_obs fst snd ns_peer ns_frame ns_delivered ns_closed ns_len ns_cok
           spec_net_walk].
      rewrite Hng. fold tg limit. cbn [negb andb N.eqb]. rewrite Htl. unfold known_deliverable.
      fold tg in Hdel. rewrite Hdel. unfold is_dd in Hndd. fold tg in Hndd. rewrite Hndd.
      assert (E1 : (0 <? limit) = true) by lia. assert (E2 : (ftotal fr <=? limit) = true) by lia.
      rewrite E1, E2, N.eqb_refl. cbn [negb andb].
      apply IH. split; [exact Hpeers'|]. split; [rewrite length_upd_peer; exact Hlen|].
      split; [exact (Hcl_keep Hstill)|]. split.
      { intros key' Hk. rewrite Hhist' in Hk. destruct (keqb key' key); [discriminate|]. exact (Habs key' Hk). }
      intros Hm. destruct (Hlife Hm) as (Hwf & Hnb & Hmx & Hl).
      split; [exact Hwf|]. split; [exact Hnb|]. split; [exact Hmx|].
      intros tg0 id0 total0 i0 Hh Hd Hp0. rewrite Hhist' in Hh.
      destruct (keqb_spec (key_of tg0 id0 total0) key) as [Ek|Ek].
      * exfalso. apply key_of_inj in Ek. destruct Ek as (-> & _ & ->).
        fold tg in Hd. rewrite Hd in Hndd. cbn [andb] in Hndd. lia.
      * destruct (Hl tg0 id0 total0 i0 Hh Hd Hp0) as (Hlt0 & Hlg). split; [lia|].
        eapply (life_ge_weaken keqb keqb_spec); [|exact Hlg]. lia.
    + (* through the filter *)
      destruct (deliver_tag_limit _ Hdel) as (Hpos & _). fold tg limit in Hpos.
      assert (Hle : ftotal fr <= limit) by (unfold too_long in Htl; lia).
      unfold is_dd in Hdd. fold tg in Hdd.
      assert (Hds : dedup_safe tg = true /\ 0 < ftotal fr) by (destruct (dedup_safe tg); cbn [andb] in Hdd; [split; [reflexivity|lia]|discriminate]).
      unfold cd_of. fold tg key.
      pose proof (has_is_present keqb flt key true true) as Hh.
      (* invariant after the add-call, shared by both answers *)
      assert (Hnext : ninv n mx k (upd_peer i p' peers) (fst (check_digest keqb flt key true true))
                           (idx + 1) ((key, idx) :: hist) closedp).
      { split; [exact Hpeers'|]. split; [rewrite length_upd_peer; exact Hlen|].
        split; [exact (Hcl_keep Hstill)|]. split.
        { intros key' Hk. rewrite Hhist' in Hk. destruct (keqb_spec key' key) as [Ek|Ek]; [discriminate|].
          apply step_absent; [exact keqb_spec|exact (Habs key' Hk)|left; congruence]. }
        intros Hm. destruct (Hlife Hm) as (Hwf & Hnb & Hmx & Hl).
        assert (H0 : life_ge keqb flt key 0) by (left; lia).
        destruct (step_life keqb keqb_spec flt key key true true 0 Hwf H0) as (Hwf1 & _ & Hnb1 & Hmx1).
        cbn zeta in Hwf1, Hnb1, Hmx1.
        split; [exact Hwf1|]. split; [congruence|]. split; [congruence|].
        intros tg0 id0 total0 i0 Hh0 Hd Hp0. rewrite Hhist' in Hh0.
        destruct (keqb_spec (key_of tg0 id0 total0) key) as [Ek|Ek].
        - inversion Hh0; subst i0. split; [lia|]. rewrite Ek.
          pose proof (step_fresh keqb keqb_spec flt key true Hwf (or_intror eq_refl)) as Hfr.
          eapply (life_ge_weaken keqb keqb_spec); [|exact Hfr]. unfold window. rewrite Hnb, Hmx. lia.
        - destruct (Hl tg0 id0 total0 i0 Hh0 Hd Hp0) as (Hlt0 & Hlg). split; [lia|].
          pose proof (step_life keqb keqb_spec flt (key_of tg0 id0 total0) key true true _ Hwf Hlg) as (_ & Hl1 & _).
          cbn zeta in Hl1. eapply (life_ge_weaken keqb keqb_spec); [|exact Hl1]. lia. }
      destruct (snd (check_digest keqb flt key true true)) eqn:Ehas.
      * (* duplicate: dropped; it must have been seen before *)
        cbn [combine map obs_step pres_obs fst snd ns_peer ns_frame ns_delivered ns_closed ns_len ns_cok
             spec_net_walk].
        rewrite Hng. fold tg limit key. cbn [negb andb N.eqb]. rewrite Htl. rewrite Hdd. cbn [negb andb].
        assert (Hseen : hist_last key hist <> None).
        { intros Hnone. pose proof (absent_not_present keqb keqb_spec flt key (Habs key Hnone)). congruence. }
        destruct (hist_last key hist) eqn:Ehl; [|contradiction]. rewrite orb_true_r. cbn [andb].
        apply IH. exact Hnext.
      * (* new: delivered; not a duplicate within the window *)
        cbn [combine map obs_step pres_obs fst snd ns_peer ns_frame ns_delivered ns_closed ns_len ns_cok
             spec_net_walk].
        rewrite Hng. fold tg limit key. cbn [negb andb N.eqb]. rewrite Htl. unfold known_deliverable.
        fold tg in Hdel. rewrite Hdel, Hdd.
        assert (E1 : (0 <? limit) = true) by lia. assert (E2 : (ftotal fr <=? limit) = true) by lia.
        rewrite E1, E2, N.eqb_refl. cbn [negb andb].
        assert (Hwin : match hist_last key hist with
                       | Some i0 => negb ((1 <=? mx) && (Z.of_N (idx - i0 - 1) <? window (N.of_nat n) mx))%Z
                       | None => true end = true).
        { destruct (hist_last key hist) as [i0|] eqn:Ehl; [|reflexivity].
          destruct ((1 <=? mx)%Z) eqn:Em; cbn [andb negb]; [|reflexivity].
          destruct (Z.ltb_spec (Z.of_N (idx - i0 - 1)) (window (N.of_nat n) mx)) as [Hin|Hout]; [|reflexivity].
          exfalso. assert (Hm : (1 <= mx)%Z) by lia.
          destruct (Hlife Hm) as (Hwf & _ & _ & Hl).
          destruct Hds as (Hd & Hp0).
          destruct (Hl tg (fid fr) (ftotal fr) i0 Ehl Hd Hp0) as (_ & Hlg). fold key in Hlg.
          pose proof (life_present keqb keqb_spec flt key _ Hwf Hlg) as Hpr.
          rewrite Hpr in Hh; [discriminate|lia]. }
        rewrite Hwin. cbn [andb].
        apply IH. exact Hnext.
Qed.

(* every schedule over k fresh connections and a fresh filter of any geometry *)
Lemma spec_net_model n mx k flt0 sched :
  make_filter (D:=list N) n mx = Some flt0 ->
  spec_net (N.of_nat n) mx k (obs_steps sched (net_run (repeat new_peer k) flt0 sched)) = true.
Proof.
  intros Hmk. unfold spec_net. apply spec_net_walk_model.
  split; [apply Forall_repeat; exact new_peer_inv|]. split; [apply repeat_length|]. split.
  { intros i p Ei. apply nth_error_In in Ei. apply repeat_spec in Ei. subst p. reflexivity. }
  split.
  { intros key _. eapply (make_filter_absent keqb). exact Hmk. }
  intros Hm. destruct (make_filter_wf n mx flt0 Hmk Hm) as (Hwf & Hnb & Hmx).
  split; [exact Hwf|]. split; [exact Hnb|]. split; [exact Hmx|]. intros tg id total i Hh. discriminate.
Qed.
