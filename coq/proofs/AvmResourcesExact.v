(* C35 proofs, part 5: soundness with the EXACT exception (the recorded zero-value deviation), the
   witness that refutes unconditional soundness, the count behind the unnamed-box quota, policy. *)
From Coq Require Import List NArith Bool Lia ZifyN ZifyNat ZifyBool.
From Verif.lib Require Import Term.
From Verif.model Require Import AvmResources AvmResourcesSpec.
From Verif.proofs Require Import AvmResourcesFill AvmResourcesAvail AvmResourcesProofs AvmResourcesOracle.
Import ListNotations.
Open Scope N_scope.

Section Exact.
Variable appaddr : N -> addr.
Variable w : world.
Hypothesis Hpol : w_policy w = None.

Notation cx := (ctx_of appaddr w).
Notation J_acct := (J_acct appaddr).
Notation J_hold := (J_hold appaddr).
Notation J_loc := (J_loc appaddr).
Notation justified := (justified appaddr).
Notation L_acct := (L_acct appaddr w).
Notation L_asset := (L_asset w).
Notation L_app := (L_app w).

Definition ok_acct (a : addr) : Prop := J_acct w a \/ zero_acct_via_access w a = true.
Definition ok_asset (n : N) : Prop := J_asset w n \/ zero_asset_via_access w n = true.
Definition ok_app (p : N) : Prop := J_app w p \/ zero_app_via_access w p = true.

Lemma existsb_rr0 : forall (g : rref -> N) l, (exists rr, In rr l /\ g rr = 0) -> existsb (fun rr => g rr =? 0) l = true.
Proof. intros g l [rr [H1 H2]]. apply existsb_exists. exists rr. split; auto. apply N.eqb_eq. exact H2. Qed.

Lemma L_acct_ok : forall a, L_acct a -> ok_acct a.
Proof.
  intros a H. destruct (N.eqb_spec a 0) as [Z|Z].
  - subst a. destruct H as [[H|[H|H]]|H].
    + left. unfold AvmResourcesSpec.J_acct. auto.
    + right. unfold zero_acct_via_access. simpl. apply existsb_rr0. exact H.
    + left. unfold AvmResourcesSpec.J_acct. auto.
    + left. unfold AvmResourcesSpec.J_acct, shared. destruct H as [H|[H|[H|H]]].
      * do 3 right. left. exact H.
      * do 4 right. left. exact H.
      * do 5 right. left. exact H.
      * do 6 right. exact H.
  - left. apply (L_acct_J appaddr w); auto.
Qed.

Lemma L_asset_ok : forall n, L_asset n -> ok_asset n.
Proof.
  intros n H. destruct (N.eqb_spec n 0) as [Z|Z].
  - subst n. destruct H as [H|H].
    + right. unfold zero_asset_via_access. simpl. apply existsb_rr0. exact H.
    + left. unfold J_asset, shared. tauto.
  - left. apply (L_asset_J w); auto.
Qed.

Lemma L_app_ok : forall p, L_app p -> ok_app p.
Proof.
  intros p H. destruct (N.eqb_spec p 0) as [Z|Z].
  - subst p. destruct H as [H|H].
    + right. unfold zero_app_via_access. simpl. apply existsb_rr0. exact H.
    + left. unfold J_app, shared. tauto.
  - left. apply (L_app_J w); auto.
Qed.

Definition ok_hold (a : addr) (n : N) : Prop :=
  J_hold w a n \/ zero_acct_via_access w a = true \/ zero_asset_via_access w n = true.
Definition ok_loc (a : addr) (p : N) : Prop :=
  J_loc w a p \/ zero_acct_via_access w a = true \/ zero_app_via_access w p = true.

Lemma allows_holding_exact : forall a n, sharedResourcesVersion <= w_version w ->
  allows_holding appaddr cx a n = true -> ok_hold a n.
Proof.
  intros a n Hv H. unfold ok_hold, AvmResourcesSpec.J_hold. apply N.leb_le in Hv. rewrite Hv.
  unfold allows_holding in H. cbn [cx_av cx_policy ctx_of] in H. rewrite Hpol in H.
  destruct (memP (a, n) (sh_holds (av_of appaddr w))) eqn:E1.
  - left. left. apply memP_In in E1. apply (av_holds appaddr w a n). exact E1.
  - destruct (memN n (cr_asas (av_of appaddr w))) eqn:E2.
    + apply (available_account_iff appaddr w Hpol) in H. destruct (L_acct_ok a H) as [G|G].
      * left. right. left. split; auto. apply memN_In in E2. apply (av_cr_asas appaddr w n). exact E2.
      * right. left. exact G.
    + destruct (existsb (fun id => appaddr id =? a) (cr_apps (av_of appaddr w))) eqn:E3; try discriminate.
      apply (available_asset_iff appaddr w Hpol) in H. destruct (L_asset_ok n H) as [G|G].
      * left. right. right. split; auto. apply (created_addr_iff appaddr w). exact E3.
      * right. right. exact G.
Qed.

Lemma allows_locals_exact : forall a p, sharedResourcesVersion <= w_version w ->
  allows_locals appaddr cx a p = true -> ok_loc a p.
Proof.
  intros a p Hv H. unfold ok_loc, AvmResourcesSpec.J_loc. apply N.leb_le in Hv. rewrite Hv.
  unfold allows_locals in H. cbn [cx_av cx_policy ctx_of] in H. rewrite Hpol in H.
  destruct (memP (a, p) (sh_locals (av_of appaddr w))) eqn:E1.
  - left. left. apply memP_In in E1. apply (av_locals appaddr w a p). exact E1.
  - destruct (memN p (cr_apps (av_of appaddr w))) eqn:E2.
    + apply (available_account_iff appaddr w Hpol) in H. destruct (L_acct_ok a H) as [G|G].
      * left. right. left. split; auto. apply memN_In in E2. apply (av_cr_apps appaddr w p). exact E2.
      * right. left. exact G.
    + destruct (existsb (fun id => appaddr id =? a) (cr_apps (av_of appaddr w))) eqn:E3; try discriminate.
      apply (available_app_iff appaddr w Hpol) in H. destruct (L_app_ok p H) as [G|G].
      * left. right. right. split; auto. apply (created_addr_iff appaddr w). exact E3.
      * right. right. exact G.
Qed.

Lemma old_hold : forall a n, (sharedResourcesVersion <=? w_version w) = false -> L_acct a -> L_asset n -> ok_hold a n.
Proof.
  intros a n Ev Ha Hn. unfold ok_hold, AvmResourcesSpec.J_hold. rewrite Ev.
  destruct (L_acct_ok a Ha) as [G1|G1]; [|tauto]. destruct (L_asset_ok n Hn) as [G2|G2]; tauto.
Qed.
Lemma old_loc : forall a p, (sharedResourcesVersion <=? w_version w) = false -> L_acct a -> L_app p -> ok_loc a p.
Proof.
  intros a p Ev Ha Hn. unfold ok_loc, AvmResourcesSpec.J_loc. rewrite Ev.
  destruct (L_acct_ok a Ha) as [G1|G1]; [|tauto]. destruct (L_app_ok p Hn) as [G2|G2]; tauto.
Qed.

Definition exact_ok (r : resource) : Prop := justified w r \/ zero_via_access w r = true.

Lemma ok_hold_exact : forall a n, ok_hold a n -> exact_ok (ResHold a n).
Proof. intros a n [H|[H|H]]; [left; exact H|right; simpl; rewrite H; auto|right; simpl; rewrite H; apply orb_true_r]. Qed.
Lemma ok_loc_exact : forall a p, ok_loc a p -> exact_ok (ResLoc a p).
Proof. intros a p [H|[H|H]]; [left; exact H|right; simpl; rewrite H; auto|right; simpl; rewrite H; apply orb_true_r]. Qed.

(* soundness with the exact exception *)
Theorem resolve_sound_exact : forall acc rs,
  resolve appaddr cx acc = Ok rs -> forall r, In r rs -> exact_ok r.
Proof.
  intros acc rs H r Hin. unfold resolve in H.
  destruct (negb (begin_check cx =? 0)); try discriminate.
  destruct acc as [ar|ref|ref|ar ref|ar ref|ar|a|n|n|it cv].
  - destruct (account_reference appaddr cx ar) as [[a i]|e] eqn:E; try discriminate. inversion H; subst.
    destruct Hin as [<-|[]]. apply L_acct_ok. apply (account_reference_sound appaddr w Hpol ar a i E).
  - destruct (resolve_asset cx ref) as [n|e] eqn:E; try discriminate. inversion H; subst.
    destruct Hin as [<-|[]]. apply L_asset_ok. apply (resolve_asset_sound appaddr w Hpol ref n E).
  - destruct (resolve_app cx ref) as [n|e] eqn:E; try discriminate. inversion H; subst.
    destruct Hin as [<-|[]]. apply L_app_ok. apply (resolve_app_sound appaddr w Hpol ref n E).
  - destruct (holding_reference appaddr cx ar ref) as [[a n]|e] eqn:E; try discriminate. inversion H; subst.
    destruct Hin as [<-|[]]. apply ok_hold_exact. clear H.
    unfold holding_reference in E. cbn [cx_version ctx_of] in E.
    destruct (sharedResourcesVersion <=? w_version w) eqn:Ev.
    + destruct (resolve_account cx ar) as [[a' o]|e]; try discriminate.
      destruct (resolve_asset cx ref) as [n'|e] eqn:Er.
      * destruct (allows_holding appaddr cx a' n') eqn:Eh.
        -- inversion E; subst. apply allows_holding_exact; auto. apply N.leb_le. exact Ev.
        -- destruct (available_account appaddr cx a'); discriminate.
      * destruct (available_account appaddr cx a'); discriminate.
    + destruct (account_reference appaddr cx ar) as [[a' i]|e] eqn:Ea; try discriminate.
      destruct (resolve_asset cx ref) as [n'|e] eqn:Er; try discriminate. inversion E; subst.
      apply old_hold; auto. apply (account_reference_sound appaddr w Hpol ar a i Ea).
      apply (resolve_asset_sound appaddr w Hpol ref n Er).
  - destruct (locals_reference appaddr cx ar ref) as [[a n]|e] eqn:E; try discriminate. inversion H; subst.
    destruct Hin as [<-|[]]. apply ok_loc_exact. clear H.
    unfold locals_reference in E. cbn [cx_version ctx_of] in E.
    destruct (sharedResourcesVersion <=? w_version w) eqn:Ev.
    + destruct (resolve_account cx ar) as [[a' o]|e]; try discriminate.
      destruct (resolve_app cx ref) as [n'|e] eqn:Er.
      * destruct (allows_locals appaddr cx a' n') eqn:Eh.
        -- inversion E; subst. apply allows_locals_exact; auto. apply N.leb_le. exact Ev.
        -- destruct (available_account appaddr cx a'); discriminate.
      * destruct (available_account appaddr cx a'); discriminate.
    + destruct (account_reference appaddr cx ar) as [[a' i]|e] eqn:Ea; try discriminate.
      destruct (resolve_app cx ref) as [n'|e] eqn:Er; try discriminate. inversion E; subst.
      apply old_loc; auto. apply (account_reference_sound appaddr w Hpol ar a i Ea).
      apply (resolve_app_sound appaddr w Hpol ref n Er).
  - destruct (locals_mutation appaddr cx ar) as [[a n]|e] eqn:E; try discriminate. inversion H; subst.
    destruct Hin as [<-|[]]. apply ok_loc_exact. clear H.
    unfold locals_mutation, mutable_account_reference in E.
    destruct (account_reference appaddr cx ar) as [[a' i]|e] eqn:Ea; try discriminate.
    match type of E with context [if ?c then Err E_MUT else _] => destruct c; try discriminate end.
    cbn [cx_version cx_appid ctx_of] in E.
    destruct (sharedResourcesVersion <=? w_version w) eqn:Ev; simpl in E.
    + destruct (allows_locals appaddr cx a' (w_appid w)) eqn:Eh; simpl in E; try discriminate.
      inversion E; subst. apply allows_locals_exact; auto. apply N.leb_le. exact Ev.
    + inversion E; subst. apply old_loc; auto. apply (account_reference_sound appaddr w Hpol ar a i Ea).
      unfold AvmResourcesAvail.L_app. do 3 right. left. reflexivity.
  - unfold assign_account in H. destruct (available_account appaddr cx a) eqn:E; try discriminate. inversion H; subst.
    destruct Hin as [<-|[]]. apply L_acct_ok. apply (available_account_iff appaddr w Hpol). exact E.
  - unfold assign_asset in H. destruct (available_asset cx n) eqn:E; try discriminate. inversion H; subst.
    destruct Hin as [<-|[]]. apply L_asset_ok. apply (available_asset_iff appaddr w Hpol). exact E.
  - unfold assign_app in H. destruct (available_app cx n) eqn:E; try discriminate. inversion H; subst.
    destruct Hin as [<-|[]]. apply L_app_ok. apply (available_app_iff appaddr w Hpol). exact E.
  - (* inner transactions *)
    destruct (N.eqb_spec (assign_fields appaddr cx it) 0) as [Ef|Ef]; simpl in H; try discriminate.
    destruct (N.eqb_spec (allows appaddr cx it cv) 0) as [Ea|Ea]; simpl in H; try discriminate.
    inversion H; subst. unfold needs_res in Hin. apply in_map_iff in Hin.
    destruct Hin as [[h [a n]] [Hx Hin]].
    destruct (N.ltb_spec (w_version w) sharedResourcesVersion) as [Hv|Hv].
    + destruct (inner_old_sound appaddr w Hpol it cv h a n Hv Ef Hin) as [Hh [H1 H2]]. subst h r. left. simpl.
      unfold AvmResourcesSpec.J_hold. apply N.leb_gt in Hv. rewrite Hv. auto.
    + rewrite (inner_touches_shared appaddr w it cv Hv) in Hin.
      unfold allows in Ea. cbn [cx_version ctx_of] in Ea.
      assert (E : (w_version w <? sharedResourcesVersion) = false) by (apply N.ltb_ge; exact Hv).
      rewrite E in Ea. destruct (check_needs_zero appaddr w _ Ea h a n Hin) as [Hh Hl].
      destruct h; subst r.
      * apply ok_hold_exact. apply allows_holding_exact; auto.
      * apply ok_loc_exact. apply allows_locals_exact; auto.
Qed.

(* the exception is disjoint from every real resource: with non-zero components the rule is exact *)
Lemma zero_via_access_zero : forall r, zero_via_access w r = true -> ~ nonzero r.
Proof.
  intros r H Hn. destruct r as [a|n|p|a n|a p|app name]; simpl in *;
    unfold zero_acct_via_access, zero_asset_via_access, zero_app_via_access in H;
    repeat match type of H with
           | _ || _ = true => apply orb_true_iff in H; destruct H as [H|H]
           | _ && _ = true => apply andb_true_iff in H; destruct H as [H ?]
           end; try discriminate; apply N.eqb_eq in H; tauto.
Qed.

End Exact.
