(* C25 lemmas: NextRewardsState (model/Rewards.v) against the declarative accounting of
   model/RewardsSpec.v. *)
From Coq Require Import NArith ZArith List Bool Lia ZifyN ZifyBool.
From Verif.lib Require Import Term.
From Verif.model Require Import Overflow Rewards RewardsSpec.
From Verif.proofs Require Import OverflowProofs.
Import ListNotations.
Open Scope N_scope.

Local Lemma M64 : M 64 = 2 ^ 64. Proof. reflexivity. Qed.
Local Lemma W_pos : 0 < 2 ^ 64. Proof. reflexivity. Qed.

(* ---------- the refresh branch in closed form ---------- *)
Lemma new_rate_closed s p pool :
  p_minbal p < 2 ^ 64 -> r_residue s < 2 ^ 64 -> pool < 2 ^ 64 ->
  (let maxSpentOver :=
     if p_pending p then
       let '(m, overflowed) := oadd 64 (p_minbal p) (r_residue s) in
       if overflowed then pool else m
     else p_minbal p in
   let '(nr, overflowed) := osub 64 pool maxSpentOver in
   if overflowed then 0 else nr) = affordable p s pool.
Proof.
  intros Hm Hr Hp. unfold affordable. cbv zeta.
  remember (2 ^ 64) as W eqn:HW.
  assert (HWp : 0 < W) by (subst W; reflexivity).
  destruct (p_pending p).
  - rewrite oadd_spec by (rewrite M64, <- HW; assumption). rewrite M64, <- HW.
    destruct (N.leb_spec W (p_minbal p + r_residue s)) as [Ho|Ho].
    + rewrite osub_spec by (rewrite M64, <- HW; assumption). rewrite M64, <- HW.
      rewrite N.ltb_irrefl. replace (pool + W - pool) with W by lia.
      rewrite N.mod_same by lia. lia.
    + rewrite N.mod_small by lia.
      rewrite osub_spec by (rewrite M64, <- HW; lia). rewrite M64, <- HW.
      destruct (N.ltb_spec pool (p_minbal p + r_residue s)) as [Hlt|Hge]; [lia|].
      rewrite mod_once by lia. lia.
  - rewrite osub_spec by (rewrite M64, <- HW; assumption). rewrite M64, <- HW.
    rewrite N.add_0_r.
    destruct (N.ltb_spec pool (p_minbal p)) as [Hlt|Hge]; [lia|].
    rewrite mod_once by lia. lia.
Qed.

Lemma refresh_closed s r p pool :
  p_minbal p < 2 ^ 64 -> r_residue s < 2 ^ 64 -> pool < 2 ^ 64 ->
  refresh s r p pool =
    if r =? r_recalc s then
      if p_interval p =? 0 then None
      else Some (mkR (r_level s) (affordable p s pool / p_interval p) (r_residue s)
                     ((r + p_interval p) mod 2 ^ 64))
    else Some s.
Proof.
  intros Hm Hr Hp. unfold refresh.
  destruct (r =? r_recalc s); [|reflexivity].
  pose proof (new_rate_closed s p pool Hm Hr Hp) as H. cbv zeta in H.
  destruct (p_pending p).
  - destruct (oadd 64 (p_minbal p) (r_residue s)) as [m o].
    destruct (osub 64 pool (if o then pool else m)) as [nr o'].
    rewrite H. reflexivity.
  - destruct (osub 64 pool (p_minbal p)) as [nr o'].
    rewrite H. reflexivity.
Qed.

(* ---------- the distribution branch in closed form ---------- *)
Lemma distribute_closed res rate units :
  rate < 2 ^ 64 -> r_residue res < 2 ^ 64 -> r_level res < 2 ^ 64 -> units <> 0 ->
  (let '(rwr, o1) := oadd 64 rate (r_residue res) in
   let '(nl, o2) := oadd 64 (r_level res) (rwr / units) in
   if o1 || o2 then Some res
   else Some (mkR nl (r_rate res) (rwr mod units) (r_recalc res))) =
  if distributes res rate units
  then Some (mkR (r_level res + (rate + r_residue res) / units) (r_rate res)
                 ((rate + r_residue res) mod units) (r_recalc res))
  else Some res.
Proof.
  intros Hrate Hres Hlev Hu. unfold distributes.
  remember (2 ^ 64) as W eqn:HW.
  assert (HWp : 0 < W) by (subst W; reflexivity).
  rewrite oadd_spec by (rewrite M64, <- HW; assumption). rewrite M64, <- HW.
  assert (Hq : forall x, x < W -> x / units < W).
  { intros x Hx. eapply N.le_lt_trans; [|exact Hx]. apply N.div_le_upper_bound; [exact Hu|].
    destruct units; [congruence|]. nia. }
  assert (Hmodlt : (rate + r_residue res) mod W < W) by (apply N.mod_lt; lia).
  rewrite oadd_spec by (rewrite M64, <- HW; auto). rewrite M64, <- HW.
  replace (negb (units =? 0)) with true by (symmetry; apply negb_true_iff, N.eqb_neq; exact Hu).
  cbn [andb].
  destruct (N.leb_spec W (rate + r_residue res)) as [Ho1|Ho1].
  - cbn [orb]. replace (rate + r_residue res <? W) with false by (symmetry; apply N.ltb_ge; lia).
    reflexivity.
  - replace (rate + r_residue res <? W) with true by (symmetry; apply N.ltb_lt; lia).
    rewrite (N.mod_small (rate + r_residue res) W) by lia. cbn [orb andb].
    destruct (N.leb_spec W (r_level res + (rate + r_residue res) / units)) as [Ho2|Ho2].
    + replace (r_level res + (rate + r_residue res) / units <? W) with false
        by (symmetry; apply N.ltb_ge; lia). reflexivity.
    + replace (r_level res + (rate + r_residue res) / units <? W) with true
        by (symmetry; apply N.ltb_lt; lia).
      rewrite N.mod_small by lia. reflexivity.
Qed.

(* the whole function in closed form *)
Definition nrs_closed (s : rstate) (r : N) (p : rparams) (pool units : N) : option rstate :=
  match (if r =? r_recalc s then
           if p_interval p =? 0 then None
           else Some (mkR (r_level s) (affordable p s pool / p_interval p) (r_residue s)
                          ((r + p_interval p) mod 2 ^ 64))
         else Some s) with
  | None => None
  | Some res =>
      let rate := if p_fix p then r_rate res else r_rate s in
      if distributes res rate units
      then Some (mkR (r_level res + (rate + r_residue res) / units) (r_rate res)
                     ((rate + r_residue res) mod units) (r_recalc res))
      else Some res
  end.

Lemma affordable_lt p s pool : pool < 2 ^ 64 -> affordable p s pool < 2 ^ 64.
Proof. unfold affordable. lia. Qed.

Lemma div_lt_W x d : x < 2 ^ 64 -> d <> 0 -> x / d < 2 ^ 64.
Proof.
  intros Hx Hd. eapply N.le_lt_trans; [|exact Hx].
  apply N.div_le_upper_bound; [exact Hd|]. destruct d; [congruence|]. nia.
Qed.

Lemma nrs_is_closed s r p pool units :
  rstate_bounded s -> p_minbal p < 2 ^ 64 -> pool < 2 ^ 64 ->
  next_rewards_state s r p pool units = nrs_closed s r p pool units.
Proof.
  intros (Hl & Hr & Hf & Hc) Hm Hp. unfold next_rewards_state, nrs_closed.
  rewrite refresh_closed by assumption.
  set (res := if r =? r_recalc s then _ else _).
  assert (Hres : forall x, res = Some x ->
            r_level x = r_level s /\ r_residue x = r_residue s /\ r_rate x < 2 ^ 64).
  { intros x Hx. subst res. destruct (r =? r_recalc s).
    - destruct (p_interval p =? 0) eqn:Hi; [discriminate|]. inversion Hx; subst; cbn.
      repeat split. apply div_lt_W; [apply affordable_lt; exact Hp|]. apply N.eqb_neq; exact Hi.
    - inversion Hx; subst. auto. }
  destruct res as [x|]; [|reflexivity].
  destruct (Hres x eq_refl) as (Hxl & Hxf & Hxr).
  destruct (N.eqb_spec units 0) as [Hu|Hu].
  - subst units. unfold distributes. cbn [N.eqb negb andb]. reflexivity.
  - apply distribute_closed; try lia; try assumption.
    destruct (p_fix p); assumption.
Qed.

(* ---------- outputs stay in the uint64 range ---------- *)
Lemma nrs_bounded s r p pool units s' :
  rstate_bounded s -> p_minbal p < 2 ^ 64 -> pool < 2 ^ 64 ->
  next_rewards_state s r p pool units = Some s' -> rstate_bounded s'.
Proof.
  intros Hs Hm Hp. rewrite nrs_is_closed by assumption.
  destruct Hs as (Hl & Hr & Hf & Hc). unfold nrs_closed.
  assert (HW : 0 < 2 ^ 64) by reflexivity.
  set (res := if r =? r_recalc s then _ else _).
  assert (Hres : forall x, res = Some x -> rstate_bounded x).
  { intros x Hx. subst res. destruct (r =? r_recalc s).
    - destruct (p_interval p =? 0) eqn:Hi; [discriminate|]. inversion Hx; subst.
      unfold rstate_bounded; cbn. repeat split; try assumption.
      + apply div_lt_W; [apply affordable_lt; exact Hp|]. apply N.eqb_neq; exact Hi.
      + apply N.mod_lt. lia.
    - inversion Hx; subst. repeat split; assumption. }
  destruct res as [x|]; [|discriminate].
  destruct (Hres x eq_refl) as (Hxl & Hxr & Hxf & Hxc).
  destruct (distributes x _ units) eqn:Hd; intros H; inversion H; subst.
  - unfold distributes in Hd. rewrite !andb_true_iff, negb_true_iff in Hd.
    destruct Hd as ((Hu & H1) & H2). apply N.eqb_neq in Hu. apply N.ltb_lt in H1, H2.
    unfold rstate_bounded; cbn. repeat split; try assumption.
    eapply N.le_lt_trans; [apply N.mod_le; exact Hu | exact H1].
  - repeat split; assumption.
Qed.

(* ---------- what a successful call returns, field by field ---------- *)
Lemma nrs_inv s r p pool units s' :
  rstate_bounded s -> p_minbal p < 2 ^ 64 -> pool < 2 ^ 64 ->
  next_rewards_state s r p pool units = Some s' ->
  (if r =? r_recalc s
   then p_interval p <> 0 /\ r_rate s' = affordable p s pool / p_interval p /\
        r_recalc s' = (r + p_interval p) mod 2 ^ 64
   else r_rate s' = r_rate s /\ r_recalc s' = r_recalc s) /\
  (let rate := rate_in_effect p s s' in
   if distributes s rate units
   then r_level s' = r_level s + (rate + r_residue s) / units /\
        r_residue s' = (rate + r_residue s) mod units
   else r_level s' = r_level s /\ r_residue s' = r_residue s).
Proof.
  intros Hs Hm Hp. rewrite nrs_is_closed by assumption. unfold nrs_closed, rate_in_effect.
  destruct (r =? r_recalc s).
  - destruct (p_interval p =? 0) eqn:Hi; [discriminate|]. apply N.eqb_neq in Hi.
    set (res := mkR _ _ _ _).
    assert (Hd : forall rate, distributes res rate units = distributes s rate units) by reflexivity.
    rewrite Hd.
    destruct (distributes s (if p_fix p then r_rate res else r_rate s) units) eqn:E;
      intros H; inversion H; subst s'; cbn [r_level r_rate r_residue r_recalc res];
      cbn [r_rate res] in E; rewrite E; auto.
  - destruct (distributes s (if p_fix p then r_rate s else r_rate s) units) eqn:E;
      intros H; inversion H; subst s'; cbn [r_level r_rate r_residue r_recalc];
      rewrite E; auto.
Qed.

Lemma nrs_none_iff s r p pool units :
  rstate_bounded s -> p_minbal p < 2 ^ 64 -> pool < 2 ^ 64 ->
  (next_rewards_state s r p pool units = None <-> r = r_recalc s /\ p_interval p = 0).
Proof.
  intros Hs Hm Hp. rewrite nrs_is_closed by assumption. unfold nrs_closed.
  destruct (N.eqb_spec r (r_recalc s)) as [Hr|Hr].
  - destruct (N.eqb_spec (p_interval p) 0) as [Hi|Hi].
    + tauto.
    + split; [|tauto]. destruct (distributes _ _ _); discriminate.
  - split; [|tauto]. destruct (distributes _ _ _); discriminate.
Qed.

(* Euclidean accounting, isolated from the model *)
Lemma euclid_acc l x u : u <> 0 ->
  l <= l + x / u /\ (l + x / u - l) * u + x mod u = x /\ x mod u < u.
Proof.
  intros Hu. split; [apply N.le_add_r|]. split; [|apply N.mod_lt; exact Hu].
  rewrite (N.add_comm l), N.add_sub, N.mul_comm. symmetry. apply N.div_mod. exact Hu.
Qed.

Lemma euclid_unique l l' f' x u : u <> 0 ->
  l <= l' -> (l' - l) * u + f' = x -> f' < u -> l' = l + x / u /\ f' = x mod u.
Proof.
  intros Hu Hle Heq Hlt.
  assert (Hq : l' - l = x / u)
    by (apply (N.div_unique x u _ f'); [exact Hlt|rewrite N.mul_comm; symmetry; exact Heq]).
  assert (Hm : f' = x mod u)
    by (apply (N.mod_unique x u (l' - l)); [exact Hlt|rewrite N.mul_comm; symmetry; exact Heq]).
  split; [|exact Hm]. rewrite <- Hq. rewrite N.add_comm, N.sub_add; [reflexivity|exact Hle].
Qed.

(* ---------- the property, per round ---------- *)
Lemma rewards_exact s r p pool units s' :
  rstate_bounded s -> p_minbal p < 2 ^ 64 -> pool < 2 ^ 64 ->
  next_rewards_state s r p pool units = Some s' ->
  units <> 0 ->
  rate_in_effect p s s' + r_residue s < 2 ^ 64 ->
  r_level s + (rate_in_effect p s s' + r_residue s) / units < 2 ^ 64 ->
  r_level s <= r_level s' /\
  (r_level s' - r_level s) * units + r_residue s' = rate_in_effect p s s' + r_residue s /\
  r_residue s' < units.
Proof.
  intros Hs Hm Hp H Hu H1 H2. destruct (nrs_inv _ _ _ _ _ _ Hs Hm Hp H) as [_ Hd].
  cbv zeta in Hd. unfold distributes in Hd.
  replace (negb (units =? 0)) with true in Hd by (symmetry; apply negb_true_iff, N.eqb_neq; exact Hu).
  apply N.ltb_lt in H1, H2. rewrite H1, H2 in Hd. cbn [andb] in Hd. destruct Hd as [Hl Hf].
  rewrite Hl, Hf. apply euclid_acc. exact Hu.
Qed.

Lemma rewards_kept s r p pool units s' :
  rstate_bounded s -> p_minbal p < 2 ^ 64 -> pool < 2 ^ 64 ->
  next_rewards_state s r p pool units = Some s' ->
  (units = 0 \/ 2 ^ 64 <= rate_in_effect p s s' + r_residue s \/
   2 ^ 64 <= r_level s + (rate_in_effect p s s' + r_residue s) / units) ->
  r_level s' = r_level s /\ r_residue s' = r_residue s.
Proof.
  intros Hs Hm Hp H Hc. destruct (nrs_inv _ _ _ _ _ _ Hs Hm Hp H) as [_ Hd].
  cbv zeta in Hd.
  replace (distributes s (rate_in_effect p s s') units) with false in Hd; [exact Hd|].
  symmetry. unfold distributes. destruct Hc as [Hc|[Hc|Hc]].
  - subst units. reflexivity.
  - apply N.ltb_ge in Hc. rewrite Hc, andb_false_r. reflexivity.
  - apply N.ltb_ge in Hc. rewrite Hc, andb_false_r. reflexivity.
Qed.

Lemma floor_bounds a i : i <> 0 -> (a / i) * i <= a /\ a < (a / i + 1) * i.
Proof.
  intros Hi. pose proof (N.div_mod a i Hi). pose proof (N.mod_lt a i Hi). nia.
Qed.

Lemma floor_unique a i q : i <> 0 -> q * i <= a -> a < (q + 1) * i -> q = a / i.
Proof.
  intros Hi H1 H2. apply (N.div_unique a i q (a - q * i)); nia.
Qed.

Lemma refresh_bound s r p pool units s' :
  rstate_bounded s -> p_minbal p < 2 ^ 64 -> pool < 2 ^ 64 ->
  next_rewards_state s r p pool units = Some s' ->
  r = r_recalc s ->
  p_interval p <> 0 /\
  r_rate s' * p_interval p <= affordable p s pool /\
  affordable p s pool < (r_rate s' + 1) * p_interval p /\
  r_rate s' * p_interval p <= pool - p_minbal p /\
  (p_pending p = true -> r_rate s' <> 0 ->
     r_rate s' * p_interval p + r_residue s + p_minbal p <= pool) /\
  r_recalc s' = (r + p_interval p) mod 2 ^ 64.
Proof.
  intros Hs Hm Hp H Hr. destruct (nrs_inv _ _ _ _ _ _ Hs Hm Hp H) as [Hf _].
  rewrite Hr, N.eqb_refl in Hf. destruct Hf as (Hi & Hrate & Hrc).
  destruct (floor_bounds (affordable p s pool) (p_interval p) Hi) as [Hlo Hhi].
  rewrite <- Hrate in Hlo, Hhi. rewrite <- Hr in Hrc.
  repeat split; try assumption.
  - unfold affordable in Hlo. lia.
  - intros Hpend Hnz. unfold affordable in Hlo. rewrite Hpend in Hlo.
    assert (0 < r_rate s' * p_interval p) by nia. lia.
Qed.

Lemma no_refresh_keeps_rate s r p pool units s' :
  rstate_bounded s -> p_minbal p < 2 ^ 64 -> pool < 2 ^ 64 ->
  next_rewards_state s r p pool units = Some s' ->
  r <> r_recalc s -> r_rate s' = r_rate s /\ r_recalc s' = r_recalc s.
Proof.
  intros Hs Hm Hp H Hr. destruct (nrs_inv _ _ _ _ _ _ Hs Hm Hp H) as [Hf _].
  apply N.eqb_neq in Hr. rewrite Hr in Hf. exact Hf.
Qed.

(* ---------- spec_ok characterises the function exactly ---------- *)
Lemma model_meets_spec s r p pool units :
  rstate_bounded s -> p_minbal p < 2 ^ 64 -> pool < 2 ^ 64 ->
  spec_ok s r p pool units (next_rewards_state s r p pool units) = true.
Proof.
  intros Hs Hm Hp. destruct (next_rewards_state s r p pool units) as [s'|] eqn:E.
  - destruct (nrs_inv _ _ _ _ _ _ Hs Hm Hp E) as [Hf Hd]. cbv zeta in Hd.
    unfold spec_ok, refresh_ok, distribution_ok. apply andb_true_iff. split.
    + destruct (r =? r_recalc s).
      * destruct Hf as (Hi & Hrate & Hrc).
        destruct (floor_bounds (affordable p s pool) (p_interval p) Hi) as [Hlo Hhi].
        rewrite <- Hrate in Hlo, Hhi. rewrite !andb_true_iff, negb_true_iff.
        repeat split; [apply N.eqb_neq; exact Hi|apply N.leb_le; exact Hlo|apply N.ltb_lt; exact Hhi|
                       apply N.eqb_eq; exact Hrc].
      * destruct Hf as [H1 H2]. rewrite H1, H2, !N.eqb_refl. reflexivity.
    + cbv zeta. destruct (distributes s (rate_in_effect p s s') units) eqn:Ed.
      * destruct Hd as [Hl Hfr]. unfold distributes in Ed.
        rewrite !andb_true_iff, negb_true_iff in Ed. destruct Ed as ((Hu & _) & _).
        apply N.eqb_neq in Hu.
        destruct (euclid_acc (r_level s) (rate_in_effect p s s' + r_residue s) units Hu)
          as (A1 & A2 & A3).
        rewrite Hl, Hfr, !andb_true_iff. repeat split;
          [apply N.leb_le; exact A1|apply N.eqb_eq; exact A2|apply N.ltb_lt; exact A3].
      * destruct Hd as [H1 H2]. rewrite H1, H2, !N.eqb_refl. reflexivity.
  - apply nrs_none_iff in E; try assumption. destruct E as [E1 E2].
    unfold spec_ok. rewrite E1, E2, N.eqb_refl. reflexivity.
Qed.

Lemma spec_determines_output s r p pool units obs :
  rstate_bounded s -> p_minbal p < 2 ^ 64 -> pool < 2 ^ 64 ->
  spec_ok s r p pool units obs = true ->
  obs = next_rewards_state s r p pool units.
Proof.
  intros Hs Hm Hp Hok. destruct obs as [o|].
  - unfold spec_ok in Hok. apply andb_true_iff in Hok. destruct Hok as [Hr Hd].
    destruct (next_rewards_state s r p pool units) as [s'|] eqn:E.
    + destruct (nrs_inv _ _ _ _ _ _ Hs Hm Hp E) as [Hf Hdm]. cbv zeta in Hdm.
      unfold refresh_ok in Hr. unfold distribution_ok in Hd. cbv zeta in Hd.
      assert (Hrate : r_rate o = r_rate s' /\ r_recalc o = r_recalc s').
      { destruct (r =? r_recalc s).
        - destruct Hf as (Hi & Hrate & Hrc).
          rewrite !andb_true_iff in Hr. destruct Hr as (((_ & H1) & H2) & H3).
          apply N.leb_le in H1. apply N.ltb_lt in H2. apply N.eqb_eq in H3.
          split; [|congruence]. rewrite Hrate. apply floor_unique; assumption.
        - rewrite andb_true_iff in Hr. destruct Hr as [H1 H2].
          apply N.eqb_eq in H1, H2. destruct Hf. split; congruence. }
      destruct Hrate as [Hrate Hrc].
      assert (Heff : rate_in_effect p s o = rate_in_effect p s s')
        by (unfold rate_in_effect; rewrite Hrate; reflexivity).
      rewrite Heff in Hd.
      assert (Hlf : r_level o = r_level s' /\ r_residue o = r_residue s').
      { destruct (distributes s (rate_in_effect p s s') units) eqn:Ed.
        - destruct Hdm as [Hl Hfr]. rewrite !andb_true_iff in Hd. destruct Hd as ((H1 & H2) & H3).
          apply N.leb_le in H1. apply N.eqb_eq in H2. apply N.ltb_lt in H3.
          unfold distributes in Ed. rewrite !andb_true_iff, negb_true_iff in Ed.
          destruct Ed as ((Hu & _) & _). apply N.eqb_neq in Hu.
          destruct (euclid_unique _ _ _ _ _ Hu H1 H2 H3) as [B1 B2]. split; congruence.
        - rewrite andb_true_iff in Hd. destruct Hd as [H1 H2]. apply N.eqb_eq in H1, H2.
          destruct Hdm. split; congruence. }
      destruct Hlf as [Hl Hf']. destruct o, s'; cbn in *. subst. reflexivity.
    + apply nrs_none_iff in E; try assumption. destruct E as [E1 E2].
      unfold refresh_ok in Hr. rewrite E1, N.eqb_refl, E2 in Hr. cbn in Hr. discriminate.
  - unfold spec_ok in Hok. apply andb_true_iff in Hok. destruct Hok as [H1 H2].
    apply N.eqb_eq in H1, H2. symmetry. apply nrs_none_iff; auto.
Qed.

(* ---------- whole histories: what was distributed equals what was scheduled ---------- *)
Lemma history_exact : forall ins s r sts,
  rstate_bounded s -> Forall rinput_bounded ins ->
  rewards_run s r ins = Some sts ->
  distributed s ins sts + r_residue (last sts s) = scheduled s ins sts + r_residue s /\
  rstate_bounded (last sts s).
Proof.
  induction ins as [|i ins IH]; intros s r sts Hs Hall Hrun.
  - cbn in Hrun. inversion Hrun; subst. cbn. split; [reflexivity|exact Hs].
  - cbn in Hrun. inversion Hall as [|? ? Hi Hrest]; subst.
    destruct Hi as (Hm & _ & Hp & _).
    destruct (next_rewards_state s r (i_params i) (i_pool i) (i_units i)) as [s'|] eqn:E;
      [|discriminate].
    destruct (rewards_run s' (r + 1) ins) as [l|] eqn:El; [|discriminate].
    inversion Hrun; subst sts. clear Hrun.
    pose proof (nrs_bounded _ _ _ _ _ _ Hs Hm Hp E) as Hs'.
    destruct (IH s' (r + 1) l Hs' Hrest El) as [IHeq IHb].
    assert (Hlast : last (s' :: l) s = last l s').
    { clear. destruct l as [|a l]; [reflexivity|].
      change (last (s' :: a :: l) s) with (last (a :: l) s).
      revert a. induction l as [|b l IHl]; intros a; [reflexivity|].
      change (last (a :: b :: l) s) with (last (b :: l) s).
      change (last (a :: b :: l) s') with (last (b :: l) s'). apply IHl. }
    rewrite Hlast. split; [|exact IHb].
    cbn [distributed scheduled]. cbv zeta.
    destruct (nrs_inv _ _ _ _ _ _ Hs Hm Hp E) as [_ Hd]. cbv zeta in Hd.
    destruct (distributes s (rate_in_effect (i_params i) s s') (i_units i)) eqn:Ed.
    + destruct Hd as [Hl Hf]. unfold distributes in Ed.
      rewrite !andb_true_iff, negb_true_iff in Ed. destruct Ed as ((Hu & _) & _).
      apply N.eqb_neq in Hu.
      destruct (euclid_acc (r_level s) (rate_in_effect (i_params i) s s' + r_residue s)
                  (i_units i) Hu) as (A1 & A2 & A3).
      rewrite Hl, Hf in *. clear Hl Hf.
      set (d := (r_level s + (rate_in_effect (i_params i) s s' + r_residue s) / i_units i
                 - r_level s) * i_units i) in *. clearbody d. lia.
    + destruct Hd as [Hl Hf]. rewrite Hl, N.sub_diag. lia.
Qed.
