(* Agreement proofs -- the vote machines: invariant of voteTracker, validity of the bundle of every
   emitted threshold event (genBundle / makeBundle), lifted through voteTrackerPeriod /
   voteTrackerRound and the period / round router levels. *)
From Coq Require Import NArith List Bool Lia ZifyN ZifyNat ZifyBool Permutation String.
Import ListNotations.
From Verif.model Require Import AgreementTypes AgreementVotes.
From Verif.proofs Require Import AgreementLemmas.
Open Scope N_scope.

(* ---------- more alist lemmas (NoDup keys) ---------- *)
Section AL2.
  Context {K V : Type} (eqb : K -> K -> bool).
  Hypothesis eqb_eq : forall a b, eqb a b = true <-> a = b.

  Lemma aset_In_strong : forall k (v : V) l k' v',
    NoDup (map fst l) -> In (k', v') (aset eqb k v l) -> (k' = k /\ v' = v) \/ (In (k', v') l /\ k' <> k).
  Proof.
    induction l as [|[k0 v0] t IH]; simpl; intros k' v' ND H.
    - destruct H as [H|[]]; inversion H; auto.
    - inversion ND; subst. destruct (eqb k k0) eqn:E.
      + apply eqb_eq in E; subst. destruct H as [H|H]; [inversion H; auto|].
        right; split; auto. intro; subst. apply H2. change k0 with (fst (k0, v')); apply in_map; auto.
      + destruct H as [H|H].
        * inversion H; subst. right; split; auto. intro; subst. rewrite (proj2 (eqb_eq k k)) in E; [discriminate|auto].
        * apply IH in H; auto. destruct H as [H|[H1 H2']]; auto.
  Qed.

  Lemma In_aset_other : forall k (v : V) l k' v', In (k', v') l -> k' <> k -> In (k', v') (aset eqb k v l).
  Proof.
    induction l as [|[k0 v0] t IH]; simpl; intros k' v' H NE; [contradiction|].
    destruct (eqb k k0) eqn:E.
    - apply eqb_eq in E; subst. destruct H as [H|H]; [inversion H; subst; contradiction | right; auto].
    - destruct H as [H|H]; [left; auto | right; apply IH; auto].
  Qed.

  Lemma In_adel : forall k l k' (v' : V), In (k', v') l -> k' <> k -> In (k', v') (adel eqb k l).
  Proof.
    unfold adel; intros k l k' v' H NE. apply filter_In; split; auto. simpl.
    destruct (eqb k k') eqn:E; auto. apply eqb_eq in E; subst; contradiction.
  Qed.

  Lemma In_key_unique : forall (l : list (K * V)) k a b, NoDup (map fst l) -> In (k, a) l -> In (k, b) l -> a = b.
  Proof.
    induction l as [|[k0 v0] t IH]; simpl; intros k a b ND Ha Hb; [contradiction|].
    inversion ND; subst. destruct Ha as [Ha|Ha]; destruct Hb as [Hb|Hb].
    - inversion Ha; inversion Hb; subst; auto.
    - inversion Ha; subst. exfalso; apply H1. change k with (fst (k, b)); apply in_map; auto.
    - inversion Hb; subst. exfalso; apply H1. change k with (fst (k, a)); apply in_map; auto.
    - eapply IH; eauto.
  Qed.

  Lemma In_fst : forall (l : list (K * V)) k v, In (k, v) l -> In k (map fst l).
  Proof. intros l k v H. change k with (fst (k, v)); apply in_map; auto. Qed.
End AL2.

Lemma NoDup_app_intro : forall A (l1 l2 : list A),
  NoDup l1 -> NoDup l2 -> (forall x, In x l1 -> ~ In x l2) -> NoDup (l1 ++ l2).
Proof.
  induction l1 as [|a l1 IH]; simpl; intros l2 N1 N2 D; auto.
  inversion N1; subst. constructor.
  - intro C. apply in_app_or in C. destruct C as [C|C]; [auto | apply (D a); auto].
  - apply IH; auto; intros x Hx; apply D; right; auto.
Qed.

Lemma NoDup_app_l : forall A (l1 l2 : list A), NoDup (l1 ++ l2) -> NoDup l1.
Proof.
  induction l1 as [|a l1 IH]; simpl; intros l2 H; [constructor|].
  inversion H; subst. constructor; [|eapply IH; eauto]. intro C; apply H2; apply in_or_app; auto.
Qed.
Lemma NoDup_app_r : forall A (l1 l2 : list A), NoDup (l1 ++ l2) -> NoDup l2.
Proof. induction l1 as [|a l1 IH]; simpl; intros l2 H; auto. inversion H; subst; auto. Qed.
Lemma NoDup_app_disj : forall A (l1 l2 : list A) x, NoDup (l1 ++ l2) -> In x l1 -> ~ In x l2.
Proof.
  induction l1 as [|a l1 IH]; simpl; intros l2 x H H1 H2; [contradiction|].
  inversion H; subst. destruct H1 as [H1|H1]; [subst; apply H4; apply in_or_app; auto | eapply IH; eauto].
Qed.

(* ---------- definitions ---------- *)
Definition vkey := (N * N * N)%type.
Definition key_of (x : vote) : vkey := (vt_rnd x, vt_per x, vt_step x).
Definition ekey_of (e : eqvote) : vkey := (eq_rnd e, eq_per e, eq_step e).
Definition bkey_of (b : ubundle) : vkey := (ub_rnd b, ub_per b, ub_step b).

(* an equivocation pair is backed by two delivered votes of its sender for different values *)
Definition eq_ok (D : list vote) (e : eqvote) : Prop :=
  exists x y, In x D /\ In y D /\ vt_snd x = eq_snd e /\ vt_snd y = eq_snd e /\
    key_of x = ekey_of e /\ key_of y = ekey_of e /\ vt_val x = eq_v0 e /\ vt_val y = eq_v1 e /\
    eq_v0 e <> eq_v1 e /\ vt_w x = eq_w e.

Definition bundle_weight (b : ubundle) : N := sumN (map vt_w (ub_votes b)) + sumN (map eq_w (ub_eqs b)).

Record good_bundle (pm : params) (D : list vote) (b : ubundle) : Prop := {
  gb_votes : forall x, In x (ub_votes b) -> In x D /\ key_of x = bkey_of b /\ vt_val x = ub_val b;
  gb_eqs : forall e, In e (ub_eqs b) -> eq_ok D e /\ ekey_of e = bkey_of b;
  gb_nodup : NoDup (map vt_snd (ub_votes b) ++ map eq_snd (ub_eqs b));
  gb_weight : reaches pm (ub_step b) (bundle_weight b) = true }.

Definition good_thresh (pm : params) (D : list vote) (th : thresh) : Prop :=
  good_bundle pm D (th_b th) /\ bkey_of (th_b th) = (th_rnd th, th_per th, th_step th) /\
  ub_val (th_b th) = th_val th /\ th_t th = tkind_of_step (th_step th).

Record TInv (D : list vote) (kk : vkey) (t : vtracker) : Prop := {
  ti_vnd : NoDup (map fst (vt_voters t));
  ti_v : forall k x, In (k, x) (vt_voters t) -> vt_snd x = k /\ In x D /\ key_of x = kk;
  ti_cnd : NoDup (map fst (vt_counts t));
  ti_c : forall val c, In (val, c) (vt_counts t) ->
           NoDup (map fst (c_votes c)) /\
           forall k x, In (k, x) (c_votes c) -> In (k, x) (vt_voters t) /\ vt_val x = val;
  ti_end : NoDup (map fst (vt_equiv t));
  ti_e : forall k e, In (k, e) (vt_equiv t) ->
           eq_snd e = k /\ eq_ok D e /\ ekey_of e = kk /\ ~ In k (map fst (vt_voters t)) }.

Lemma TInv_zero : forall D kk, TInv D kk vt_zero.
Proof. intros; constructor; simpl; try constructor; intros; contradiction. Qed.

Lemma eq_ok_mono : forall D D' e, (forall x, In x D -> In x D') -> eq_ok D e -> eq_ok D' e.
Proof.
  intros D D' e S (x & y & H1 & H2 & H); exists x, y; repeat split; auto; tauto.
Qed.
Lemma TInv_mono : forall D D' kk t, (forall x, In x D -> In x D') -> TInv D kk t -> TInv D' kk t.
Proof.
  intros D D' kk t S [A B C0 C E F]; constructor; auto.
  - intros k x H; destruct (B k x H) as (? & ? & ?); auto.
  - intros k e H; destruct (F k e H) as (? & ? & ? & ?); repeat split; auto. eapply eq_ok_mono; eauto.
Qed.
Lemma good_bundle_mono : forall pm D D' b, (forall x, In x D -> In x D') -> good_bundle pm D b -> good_bundle pm D' b.
Proof.
  intros pm D D' b S [A B C E]; constructor; auto.
  - intros x H; destruct (A x H) as (? & ? & ?); auto.
  - intros e H; destruct (B e H); split; auto. eapply eq_ok_mono; eauto.
Qed.
Lemma good_thresh_mono : forall pm D D' th, (forall x, In x D -> In x D') -> good_thresh pm D th -> good_thresh pm D' th.
Proof. intros pm D D' th S (A & B); split; auto. eapply good_bundle_mono; eauto. Qed.

(* ---------- genBundle ---------- *)
Lemma map_fst_snd_senders : forall (l : list (N * vote)),
  (forall k x, In (k, x) l -> vt_snd x = k) -> map vt_snd (map snd l) = map fst l.
Proof.
  induction l as [|[k x] t IH]; simpl; intro H; auto.
  rewrite (H k x); auto. f_equal. apply IH. intros; apply H; auto.
Qed.
Lemma map_fst_snd_eqs : forall (l : list (N * eqvote)),
  (forall k e, In (k, e) l -> eq_snd e = k) -> map eq_snd (map snd l) = map fst l.
Proof.
  induction l as [|[k x] t IH]; simpl; intro H; auto.
  rewrite (H k x); auto. f_equal. apply IH. intros; apply H; auto.
Qed.

Lemma In_map_snd : forall A B (l : list (A * B)) y, In y (map snd l) -> exists k, In (k, y) l.
Proof.
  intros A B l y H. apply in_map_iff in H. destruct H as [[k y'] [E H]]; simpl in E; subst; eauto.
Qed.

Lemma sumN_firstn_map : forall A (f : A -> N) n l, sumN (firstn n (map f l)) = sumN (map f (firstn n l)).
Proof. intros; rewrite firstn_map; reflexivity. Qed.

Lemma make_bundle_good : forall pm D kk target votes eqs b,
  (forall x, In x votes -> In x D /\ key_of x = kk) ->
  (forall e, In e eqs -> eq_ok D e /\ ekey_of e = kk) ->
  NoDup (map vt_snd votes ++ map eq_snd eqs) ->
  make_bundle pm target votes eqs = Ok b ->
  good_bundle pm D b /\ ub_val b = target /\ bkey_of b = kk.
Proof.
  intros pm D kk target votes eqs b HV HE ND H. unfold make_bundle in H.
  destruct votes as [|v0 vs] eqn:EV; [discriminate|]. rewrite <- EV in *.
  destruct (forallb (fun v => value_eqb (vt_val v) target) votes) eqn:FA; simpl in H; [|discriminate].
  destruct (pack pm (vt_step v0) (map vt_w votes) 0) as [n1 p1] eqn:P1.
  destruct (pack pm (vt_step v0) (map eq_w eqs) p1) as [n2 p2] eqn:P2.
  destruct (reaches pm (vt_step v0) p2) eqn:R; simpl in H; [|discriminate].
  inversion H; subst b; clear H.
  assert (K0 : key_of v0 = kk) by (apply HV; rewrite EV; left; auto).
  split; [|split; simpl; auto].
  constructor; simpl.
  - intros x Hx. apply firstn_In in Hx. destruct (HV x Hx) as [A B]. repeat split; auto.
    + rewrite B; unfold bkey_of; simpl; auto.
    + rewrite forallb_forall in FA. apply value_eqb_eq; apply FA; auto.
  - intros e He. apply firstn_In in He. destruct (HE e He) as [A B]; split; auto.
    rewrite B; unfold bkey_of; simpl; auto.
  - rewrite <- !firstn_map.
    apply NoDup_app_intro.
    + apply NoDup_firstn. eapply NoDup_app_l; eauto.
    + apply NoDup_firstn. eapply NoDup_app_r; eauto.
    + intros x H1 H2. apply firstn_In in H1; apply firstn_In in H2.
      eapply NoDup_app_disj; eauto.
  - apply pack_le in P1. apply pack_le in P2.
    rewrite sumN_firstn_map in P1, P2. unfold bundle_weight; simpl.
    eapply reaches_mono; [|exact R]. lia.
Qed.

Lemma gen_bundle_good : forall pm D kk t prop c b,
  TInv D kk t -> In (prop, c) (vt_counts t) -> gen_bundle pm t c = Ok b ->
  good_bundle pm D b /\ ub_val b = prop /\ bkey_of b = kk.
Proof.
  intros pm D kk t prop c b I HC H. unfold gen_bundle in H.
  destruct (ti_c _ _ _ I _ _ HC) as [CND CV].
  set (votes := sort_by vote_before (map snd (c_votes c))) in *.
  assert (PV : Permutation votes (map snd (c_votes c))) by apply sort_by_perm.
  assert (FV : forall x, In x votes -> exists k, In (k, x) (vt_voters t) /\ vt_snd x = k /\ In x D /\ key_of x = kk /\ vt_val x = prop).
  { intros x Hx. apply (Permutation_in _ PV) in Hx. apply In_map_snd in Hx. destruct Hx as [k Hx].
    destruct (CV k x Hx) as [A B]. destruct (ti_v _ _ _ I k x A) as (S1 & S2 & S3). exists k; auto. }
  assert (NV : NoDup (map vt_snd votes)).
  { eapply Permutation_NoDup; [apply Permutation_sym; apply Permutation_map; exact PV|].
    rewrite map_fst_snd_senders; auto. intros k x Hx. destruct (CV k x Hx) as [A _].
    apply (ti_v _ _ _ I k x A). }
  destruct votes as [|v0 vs] eqn:EV; [discriminate|]. rewrite <- EV in *.
  destruct (pack pm (vt_step v0) (map vt_w votes) 0) as [cut w] eqn:P1.
  set (eqs := sort_by eqv_before (map snd (vt_equiv t))) in *.
  assert (PE : Permutation eqs (map snd (vt_equiv t))) by apply sort_by_perm.
  assert (FE : forall e, In e eqs -> exists k, In (k, e) (vt_equiv t)).
  { intros e He. apply (Permutation_in _ PE) in He. apply In_map_snd in He; auto. }
  assert (NE : NoDup (map eq_snd eqs)).
  { eapply Permutation_NoDup; [apply Permutation_sym; apply Permutation_map; exact PE|].
    rewrite map_fst_snd_eqs; [apply (ti_end _ _ _ I)|]. intros k e He. apply (ti_e _ _ _ I k e He). }
  destruct (firstn cut votes) as [|v0' vs'] eqn:EF; [discriminate|]. rewrite <- EF in *.
  destruct (pack pm (vt_step v0') (map eq_w eqs) w) as [cut2 w2] eqn:P2.
  assert (V0 : In v0' votes) by (eapply firstn_In; rewrite EF; left; auto).
  destruct (FV v0' V0) as (k0 & _ & _ & _ & _ & VP).
  assert (P1' : forall x, In x (firstn cut votes) -> In x D /\ key_of x = kk).
  { intros x Hx. apply firstn_In in Hx. destruct (FV x Hx) as (k & _ & _ & A & B & _); auto. }
  assert (P2' : forall e, In e (firstn cut2 eqs) -> eq_ok D e /\ ekey_of e = kk).
  { intros e He. apply firstn_In in He. destruct (FE e He) as [k Hk].
    destruct (ti_e _ _ _ I k e Hk) as (_ & A & B & _); auto. }
  assert (P3' : NoDup (map vt_snd (firstn cut votes) ++ map eq_snd (firstn cut2 eqs))).
  { rewrite <- !firstn_map. apply NoDup_app_intro.
    + apply NoDup_firstn; auto.
    + apply NoDup_firstn; auto.
    + intros s H1 H2. apply firstn_In in H1; apply firstn_In in H2.
      apply in_map_iff in H1. destruct H1 as [x [E1 H1]]. apply in_map_iff in H2. destruct H2 as [e [E2 H2]].
      destruct (FV x H1) as (k & A & B & _). destruct (FE e H2) as [k' Hk'].
      destruct (ti_e _ _ _ I k' e Hk') as (S1 & _ & _ & S4). apply S4.
      replace k' with k by congruence.
      apply (In_fst (vt_voters t) k x); exact A. }
  pose proof (make_bundle_good pm D kk _ _ _ _ P1' P2' P3' H) as G.
  rewrite VP in G; exact G.
Qed.

(* ---------- voteTracker.handle ---------- *)
Lemma over_threshold_In : forall pm s t v, over_threshold pm s t = OvSome v -> exists c, In (v, c) (vt_counts t).
Proof.
  unfold over_threshold, over_list; intros pm s t v H.
  destruct (map fst (filter _ (vt_counts t))) as [|a [|b l]] eqn:E; try discriminate.
  inversion H; subst.
  assert (In v (map fst (filter (fun e => reaches pm s (w64 (c_count (snd e) + vt_eqcount t))) (vt_counts t)))) by (rewrite E; left; auto).
  apply in_map_iff in H0. destruct H0 as [[v' c] [E2 H0]]. simpl in E2; subst.
  apply filter_In in H0. destruct H0; eauto.
Qed.

Definition accept_post (pm : params) (D : list vote) (kk : vkey) (x : vote) (r : vtracker * option thresh) : Prop :=
  TInv D kk (fst r) /\ forall th, snd r = Some th -> good_thresh pm D th /\ th_rnd th = vt_rnd x.

Lemma vt_finish_spec : forall pm D kk x ob t',
  TInv D kk t' -> key_of x = kk -> wp (vt_finish pm x ob t') (accept_post pm D kk x).
Proof.
  intros pm D kk x ob t' I K. unfold vt_finish.
  destruct (over_threshold pm (vt_step x) t') as [| |prop] eqn:O; simpl; auto.
  - split; simpl; auto; intros; discriminate.
  - destruct ob; simpl; [split; simpl; auto; intros; discriminate|].
    apply wp_bind. destruct (gen_bundle pm t' (counter_of t' prop)) as [b| |] eqn:G; simpl; auto.
    split; simpl; auto. intros th E; inversion E; subst; clear E.
    unfold counter_of in G. destruct (aget value_eqb prop (vt_counts t')) as [c|] eqn:A.
    + apply (aget_In value_eqb value_eqb_eq) in A.
      destruct (gen_bundle_good _ _ _ _ _ _ _ I A G) as (G1 & G2 & G3).
      split; auto. unfold good_thresh; simpl. split; [exact G1|]. split; [rewrite G3; reflexivity|]. split; auto.
    + unfold gen_bundle in G; simpl in G; discriminate.
Qed.

Lemma counter_of_votes : forall D kk t v k y,
  TInv D kk t -> In (k, y) (c_votes (counter_of t v)) -> In (k, y) (vt_voters t) /\ vt_val y = v.
Proof.
  intros D kk t v k y I H. unfold counter_of in H.
  destruct (aget value_eqb v (vt_counts t)) as [c|] eqn:A; [|simpl in H; contradiction].
  apply (aget_In value_eqb value_eqb_eq) in A. destruct (ti_c _ _ _ I _ _ A) as [_ B]. apply B; auto.
Qed.
Lemma counter_of_nodup : forall D kk t v, TInv D kk t -> NoDup (map fst (c_votes (counter_of t v))).
Proof.
  intros D kk t v I. unfold counter_of.
  destruct (aget value_eqb v (vt_counts t)) as [c|] eqn:A; [|simpl; constructor].
  apply (aget_In value_eqb value_eqb_eq) in A. apply (ti_c _ _ _ I _ _ A).
Qed.

Lemma new_voter_inv : forall D kk t x n a b c,
  TInv D kk t -> aget N.eqb (vt_snd x) (vt_voters t) = None -> aget N.eqb (vt_snd x) (vt_equiv t) = None ->
  In x D -> key_of x = kk ->
  TInv D kk (mkVT (aset N.eqb (vt_snd x) x (vt_voters t))
                  (aset value_eqb (vt_val x) (mkCounter n (aset N.eqb (vt_snd x) x (c_votes (counter_of t (vt_val x))))) (vt_counts t))
                  (vt_equiv t) (vt_eqcount t) a b c).
Proof.
  intros D kk t x n a b c I AV AE XD K.
  pose proof (aget_None_notin N.eqb N.eqb_eq _ _ AV) as NV.
  pose proof (aget_None_notin N.eqb N.eqb_eq _ _ AE) as NE.
  constructor; simpl.
  - apply (aset_NoDup N.eqb N.eqb_eq). apply (ti_vnd _ _ _ I).
  - intros k y H. apply aset_In in H. destruct H as [[? ?]|H]; subst; auto. apply (ti_v _ _ _ I); auto.
  - apply (aset_NoDup value_eqb value_eqb_eq). apply (ti_cnd _ _ _ I).
  - intros val cc H. apply (aset_In_strong value_eqb value_eqb_eq) in H; [|apply (ti_cnd _ _ _ I)].
    destruct H as [[? ?]|[H NEQ]]; subst; simpl.
    + split; [apply (aset_NoDup N.eqb N.eqb_eq); eapply counter_of_nodup; eauto|].
      intros k y H. apply aset_In in H. destruct H as [[? ?]|H]; subst.
      * split; auto. apply aset_In_self.
      * destruct (counter_of_votes _ _ _ _ _ _ I H) as [A B]. split; auto.
        apply (In_aset_other N.eqb N.eqb_eq); auto. intro; subst. apply NV. eapply In_fst; eauto.
    + destruct (ti_c _ _ _ I _ _ H) as [A B]. split; auto. intros k y Hy. destruct (B k y Hy) as [B1 B2]; split; auto.
      apply (In_aset_other N.eqb N.eqb_eq); auto. intro; subst. apply NV. eapply In_fst; eauto.
  - apply (ti_end _ _ _ I).
  - intros k e H. destruct (ti_e _ _ _ I k e H) as (A & B & C0 & E). repeat split; auto.
    intro C. apply aset_keys in C. destruct C as [C|C]; auto. apply NE. rewrite <- C. eapply In_fst; eauto.
Qed.

Lemma equivocate_inv : forall D kk t x old counts' ec a b c,
  TInv D kk t -> In (vt_snd x, old) (vt_voters t) -> aget N.eqb (vt_snd x) (vt_equiv t) = None ->
  value_eqb (vt_val old) (vt_val x) = false -> In x D -> key_of x = kk ->
  (counts' = adel value_eqb (vt_val old) (vt_counts t) \/
   counts' = aset value_eqb (vt_val old)
                  (mkCounter (c_count (counter_of t (vt_val old)) - vt_w old)
                             (adel N.eqb (vt_snd x) (c_votes (counter_of t (vt_val old))))) (vt_counts t)) ->
  TInv D kk (mkVT (adel N.eqb (vt_snd x) (vt_voters t)) counts'
                  (aset N.eqb (vt_snd x)
                        (mkEqv (vt_snd old) (vt_rnd old) (vt_per old) (vt_step old) (vt_w old) (vt_cred old) (vt_val old) (vt_val x))
                        (vt_equiv t)) ec a b c).
Proof.
  intros D kk t x old counts' ec a b c I OV AE VE XD K HC.
  pose proof (aget_None_notin N.eqb N.eqb_eq _ _ AE) as NE.
  destruct (ti_v _ _ _ I _ _ OV) as (OS & OD & OK).
  apply value_eqb_neq in VE.
  assert (OTH : forall val cc k y, In (val, cc) (vt_counts t) -> val <> vt_val old -> In (k, y) (c_votes cc) ->
                 In (k, y) (adel N.eqb (vt_snd x) (vt_voters t)) /\ vt_val y = val).
  { intros val cc k y H NEQ Hy. destruct (ti_c _ _ _ I _ _ H) as [_ B]. destruct (B k y Hy) as [B1 B2]; split; auto.
    apply (In_adel N.eqb N.eqb_eq); auto. intro; subst k.
    assert (y = old) by (eapply (In_key_unique (vt_voters t)); eauto; apply (ti_vnd _ _ _ I)). subst. congruence. }
  constructor; simpl.
  - apply adel_NoDup. apply (ti_vnd _ _ _ I).
  - intros k y H. apply (adel_In N.eqb N.eqb_eq) in H. destruct H. apply (ti_v _ _ _ I); auto.
  - destruct HC; subst counts'; [apply adel_NoDup | apply (aset_NoDup value_eqb value_eqb_eq)]; apply (ti_cnd _ _ _ I).
  - intros val cc H. destruct HC; subst counts'.
    + apply (adel_In value_eqb value_eqb_eq) in H. destruct H as [H NEQ].
      split; [apply (ti_c _ _ _ I _ _ H)|]. intros k y Hy; eapply OTH; eauto.
    + apply (aset_In_strong value_eqb value_eqb_eq) in H; [|apply (ti_cnd _ _ _ I)].
      destruct H as [[? ?]|[H NEQ]]; subst; simpl.
      * split; [apply adel_NoDup; eapply counter_of_nodup; eauto|].
        intros k y Hy. apply (adel_In N.eqb N.eqb_eq) in Hy. destruct Hy as [Hy NEQ].
        destruct (counter_of_votes _ _ _ _ _ _ I Hy) as [A B]; split; auto.
        apply (In_adel N.eqb N.eqb_eq); auto.
      * split; [apply (ti_c _ _ _ I _ _ H)|]. intros k y Hy; eapply OTH; eauto.
  - apply (aset_NoDup N.eqb N.eqb_eq). apply (ti_end _ _ _ I).
  - intros k e H. apply aset_In in H. destruct H as [[? ?]|H]; subst.
    + simpl. repeat split; auto.
      * exists old, x. unfold ekey_of, key_of in *; simpl. repeat split; auto; try congruence.
      * intro C. apply (adel_keys N.eqb N.eqb_eq) in C. destruct C; auto.
    + destruct (ti_e _ _ _ I k e H) as (A & B & C0 & E). repeat split; auto.
      intro C. apply (adel_keys N.eqb N.eqb_eq) in C. destruct C; auto.
Qed.

Lemma none_post : forall pm D kk x t, TInv D kk t -> accept_post pm D kk x (t, None).
Proof. intros; split; simpl; auto; intros; discriminate. Qed.

Lemma vt_accept_body_spec : forall pm D kk t x ob,
  TInv D kk t -> In x D -> key_of x = kk -> aget N.eqb (vt_snd x) (vt_equiv t) = None ->
  wp (match aget N.eqb (vt_snd x) (vt_voters t) with
      | None =>
          let c := counter_of t (vt_val x) in
          let c' := mkCounter (w64 (c_count c + vt_w x)) (aset N.eqb (vt_snd x) x (c_votes c)) in
          vt_finish pm x ob
            (mkVT (aset N.eqb (vt_snd x) x (vt_voters t)) (aset value_eqb (vt_val x) c' (vt_counts t))
                  (vt_equiv t) (vt_eqcount t) (vc_step t) (vc_stepok t) (vc_emitted t))
      | Some old =>
          if value_eqb (vt_val old) (vt_val x) then Ok (t, None)
          else
            let ec := w64 (vt_eqcount t + vt_w x) in
            if reaches pm (vt_step x) ec then Panic "voteTracker_too_many_equivocators"
            else
              let oc := counter_of t (vt_val old) in
              let counts' :=
                if c_count oc <=? vt_w old then adel value_eqb (vt_val old) (vt_counts t)
                else aset value_eqb (vt_val old)
                       (mkCounter (c_count oc - vt_w old) (adel N.eqb (vt_snd x) (c_votes oc))) (vt_counts t) in
              let ev := mkEqv (vt_snd old) (vt_rnd old) (vt_per old) (vt_step old) (vt_w old)
                              (vt_cred old) (vt_val old) (vt_val x) in
              let t' := mkVT (adel N.eqb (vt_snd x) (vt_voters t)) counts'
                             (aset N.eqb (vt_snd x) ev (vt_equiv t)) ec
                             (vc_step t) (vc_stepok t) (vc_emitted t) in
              match vt_voters t' with
              | [] => Ok (t', None)
              | _ => vt_finish pm x ob t'
              end
      end) (accept_post pm D kk x).
Proof.
  intros pm D kk t x ob I XD K AE.
  destruct (aget N.eqb (vt_snd x) (vt_voters t)) as [old|] eqn:AV.
  - apply (aget_In N.eqb N.eqb_eq) in AV.
    destruct (value_eqb (vt_val old) (vt_val x)) eqn:VE; [apply none_post; auto|].
    cbv zeta.
    destruct (reaches pm (vt_step x) (w64 (vt_eqcount t + vt_w x))); [apply wp_panic|].
    match goal with |- wp (match vt_voters ?T with _ => _ end) _ => assert (I' : TInv D kk T) end.
    { eapply equivocate_inv; eauto. destruct (c_count (counter_of t (vt_val old)) <=? vt_w old); auto. }
    match goal with |- wp (match ?L with _ => _ end) _ => destruct L eqn:EV' end.
    + apply none_post; auto.
    + apply vt_finish_spec; auto.
  - cbv zeta. apply vt_finish_spec; auto. apply new_voter_inv; auto.
Qed.

Lemma vt_accept_spec : forall pm D kk t x,
  TInv D kk t -> In x D -> key_of x = kk -> wp (vt_accept pm t x) (accept_post pm D kk x).
Proof.
  intros pm D kk t x I XD K. unfold vt_accept.
  destruct (aget N.eqb (vt_snd x) (vt_equiv t)) as [e0|] eqn:AE; [apply none_post; auto|].
  destruct (over_threshold pm (vt_step x) t) eqn:OB; [apply wp_panic| |]; apply vt_accept_body_spec; auto.
Qed.

Lemma TInv_contract : forall D kk t a b c,
  TInv D kk t -> TInv D kk (mkVT (vt_voters t) (vt_counts t) (vt_equiv t) (vt_eqcount t) a b c).
Proof. intros D kk t a b c [A B C0 C E F]; constructor; auto. Qed.

Lemma vt_checked_accept_spec : forall pm D kk t x,
  TInv D kk t -> In x D -> key_of x = kk -> wp (vt_checked_accept pm t x) (accept_post pm D kk x).
Proof.
  intros pm D kk t x I XD K. unfold vt_checked_accept.
  destruct (vt_step x =? s_propose); [apply wp_panic|].
  destruct (vc_stepok t && negb (vc_step t =? vt_step x)); [apply wp_panic|].
  apply wp_bind. eapply wp_mono.
  - apply vt_accept_spec; eauto. destruct (vc_stepok t); auto. apply TInv_contract; auto.
  - intros [t2 oth] [P1 P2]; simpl in *. destruct oth as [th|]; [|apply none_post; auto].
    destruct (vc_emitted t2); [apply wp_panic|].
    destruct (_ && is_bottom (th_val th)); [apply wp_panic|].
    destruct (ub_votes (th_b th)); [apply wp_panic|].
    destruct (is_bottom (th_val th) && (th_step th <? s_next)); [apply wp_panic|].
    split; simpl; auto. apply TInv_contract; auto.
Qed.
