(* Agreement proofs -- C07 (persisted consensus state restores exactly), part 1: what the
   persistence round trip keeps, its idempotence, and the refutation witnesses. *)
From Coq Require Import NArith List Bool Lia String.
Import ListNotations.
From Verif.model Require Import AgreementTypes AgreementVotes AgreementProposals AgreementPlayer AgreementPersist.
From Verif.proofs Require Import AgreementLemmas.
Open Scope N_scope.

(* ---------- what decode(encode(st)) keeps ---------- *)
Definition pt_tracking_eq (a b : ptracker) : Prop :=
  pt_dup a = pt_dup b /\ sk_lowest (pt_freezer a) = sk_lowest (pt_freezer b) /\
  sk_filled (pt_freezer a) = sk_filled (pt_freezer b) /\ sk_frozen (pt_freezer a) = sk_frozen (pt_freezer b) /\
  pt_staging a = pt_staging b /\ pc_one a = pc_one b /\ pc_froze a = pc_froze b /\ pc_soft a = pc_soft b /\ pc_cert a = pc_cert b.
Definition pn_tracking_eq (a b : periodNode) : Prop :=
  pt_tracking_eq (pn_pt a) (pn_pt b) /\ pn_vp a = pn_vp b /\ pn_steps a = pn_steps b.

Lemma persist_pn_tracking : forall pn, pn_tracking_eq (persist_pn pn) pn.
Proof. intro pn; unfold pn_tracking_eq, pt_tracking_eq; simpl; repeat split; reflexivity. Qed.

Lemma aget_map_snd : forall (A B : Type) (f : A -> B) k (l : list (N * A)),
  aget N.eqb k (map (fun kv => (fst kv, f (snd kv))) l) = option_map f (aget N.eqb k l).
Proof.
  induction l as [|[k0 v0] t IH]; simpl; auto. destruct (k =? k0); auto.
Qed.

(* the player, and for every round >= the player's round the proposal store, the freshest bundle and
   every period's vote trackers / next-threshold cache / proposal tracker (except the unexported
   late-credential fields) are read back unchanged; older rounds are dropped *)
Theorem persist_keeps_tracking_proof : forall st,
  let st' := restore (persist st) in
  p_rnd (s_pl st') = p_rnd (s_pl st) /\ p_per (s_pl st') = p_per (s_pl st) /\ p_step (s_pl st') = p_step (s_pl st) /\
  p_last (s_pl st') = p_last (s_pl st) /\ p_dl (s_pl st') = p_dl (s_pl st) /\ p_dlt (s_pl st') = p_dlt (s_pl st) /\
  p_nap (s_pl st') = p_nap (s_pl st) /\ p_frd (s_pl st') = p_frd (s_pl st) /\ p_pnext (s_pl st') = p_pnext (s_pl st) /\
  map fst (p_pending (s_pl st')) = map fst (p_pending (s_pl st)) /\
  (forall r, r < p_rnd (s_pl st) -> aget N.eqb r (s_rt st') = None) /\
  (forall r rn, p_rnd (s_pl st) <= r -> aget N.eqb r (s_rt st) = Some rn ->
     exists rn', aget N.eqb r (s_rt st') = Some rn' /\ rn_store rn' = rn_store rn /\ rn_fresh rn' = rn_fresh rn /\
       map fst (rn_periods rn') = map fst (rn_periods rn) /\
       forall p pn, aget N.eqb p (rn_periods rn) = Some pn ->
         exists pn', aget N.eqb p (rn_periods rn') = Some pn' /\ pn_tracking_eq pn' pn).
Proof.
  intros st st'. unfold st', restore, persist; simpl.
  repeat split; auto.
  - rewrite map_map; simpl. reflexivity.
  - intros r L. unfold persist_router.
    rewrite (aget_map_snd _ _ persist_rn).
    rewrite (aget_filter_key_false' _ (fun k => p_rnd (s_pl st) <=? k)); auto. apply N.leb_gt; auto.
  - intros r rn L G. unfold persist_router. rewrite (aget_map_snd _ _ persist_rn).
    rewrite (aget_filter_key N.eqb N.eqb_eq (fun k => p_rnd (s_pl st) <=? k)); [|apply N.leb_le; auto].
    rewrite G; simpl. eexists; split; [reflexivity|]. simpl. repeat split; auto.
    + rewrite map_map; reflexivity.
    + intros p pn GP. rewrite (aget_map_snd _ _ persist_pn). rewrite GP; simpl.
      eexists; split; [reflexivity|]. apply persist_pn_tracking.
Qed.

(* ---------- refutation witnesses (DynamicFilterTimeout protocols) ---------- *)
From Verif.model Require Import AgreementCheck.

Definition actions_of (r : res (state * list action)) : option (list action) :=
  match r with Ok (_, a) => Some a | _ => None end.

Definition w_pm := mkParams 2 2 2 2 2 2 3000 4000 4000 17000 2000 300000 true 8.
Definition w_v := mkV 1 5 0 1.
Definition w_m := mkMeta false false false false 0.
Definition w_pvote (ver : bool) (s cred : N) := EvMsg (mkME ver (InVote (mkVote s 5 0 0 w_v 1 cred)) w_m None).
Definition w_vote (s st : N) := EvMsg (mkME true (InVote (mkVote s 5 0 st w_v 1 (s * 7))) w_m None).

(* (1) proposalSeeker.lowestIncludingLate is not persisted: proposal-vote of sender 1, filter timeout
   (freeze + soft vote = the persistent action), crash/restore, then a proposal-vote of sender 2 with a
   WORSE credential: the uncrashed node ignores it, the restored node relays it *)
Definition w_late_script := [w_pvote true 1 7; EvTimeout false 0 false].
Theorem restore_late_credential_refuted_proof :
  exists pm r0 es st e,
    state_after pm (init pm r0) es = Some st /\ p_pending (s_pl st) = [] /\
    actions_of (step pm st e) = Some [AIgnore] /\
    exists v, actions_of (step pm (restore (persist st)) e) = Some [ARelayVote v].
Proof.
  exists w_pm, 5, w_late_script.
  destruct (state_after w_pm (init w_pm 5) w_late_script) as [st|] eqn:E; [|vm_compute in E; discriminate].
  exists st, (w_pvote true 2 14). split; [reflexivity|].
  vm_compute in E. inversion E; subst st; clear E.
  split; [reflexivity|]. split; [vm_compute; reflexivity|]. eexists. vm_compute. reflexivity.
Qed.

(* (2) encode drops the routers of rounds below the player's round: after committing round 5 (the
   router of round 5 is kept for credentialRoundLag rounds by the running node), a duplicate of the
   round-5 proposal-vote of sender 1 is ignored by the uncrashed node but sent to verification again
   by the restored node *)
Definition w_old_script :=
  [w_vote 1 0; EvMsg (mkME true (InPayload w_v) w_m None); w_vote 1 1; w_vote 2 1; w_vote 1 2; w_vote 2 2].
Theorem restore_old_round_router_refuted_proof :
  exists pm r0 es st e,
    state_after pm (init pm r0) es = Some st /\ p_pending (s_pl st) = [] /\
    actions_of (step pm st e) = Some [AIgnore] /\
    exists v r p t, actions_of (step pm (restore (persist st)) e) = Some [AVerifyVote v r p t].
Proof.
  exists w_pm, 5, w_old_script.
  destruct (state_after w_pm (init w_pm 5) w_old_script) as [st|] eqn:E; [|vm_compute in E; discriminate].
  exists st, (w_pvote false 1 7). split; [reflexivity|].
  vm_compute in E. inversion E; subst st; clear E.
  split; [reflexivity|]. split; [vm_compute; reflexivity|]. do 4 eexists. vm_compute. reflexivity.
Qed.
