(* C05 on the abstract protocol (model/AbstractBA.v): the honest-node rules never dead-lock a node.
   - next_vote_enabled: whatever the trace, an honest node that has not yet voted in a next-type step of
     its current period is allowed SOME next-type vote by the rules (its own cert-voted value, or the value
     / bottom that justified its entry into the period, or bottom in period 0);
   - enter_enabled: once a next-type quorum of period q exists, every honest node that is still in a period
     <= q may enter q + 1.
   Neither needs the quorum-intersection hypotheses.  What is NOT proved: that the votes the nodes are allowed
   to cast coincide often enough to form the quorum (that is the probabilistic / timing part of liveness). *)
From Coq Require Import List Arith Bool Lia.
From Verif.model Require Import AbstractBA.
From Verif.proofs Require Import AbstractBAProofs.
Import ListNotations.

Section Enabled.
Variables node value : Type.
Variable node_eq_dec : forall a b : node, {a = b} + {a <> b}.
Variable value_eq_dec : forall a b : value, {a = b} + {a <> b}.
Variable honest : node -> Prop.
Variable quorum : nat -> nat -> (node -> Prop) -> Prop.

Local Notation vote := (AbstractBA.vote node value).
Local Notation event := (AbstractBA.event node value).
Local Notation trace := (AbstractBA.trace node value).
Local Notation voted := (AbstractBA.voted node value).
Local Notation has_q := (AbstractBA.has_q node value quorum).
Local Notation nextq := (AbstractBA.nextq node value quorum).
Local Notation cur := (AbstractBA.cur node value node_eq_dec).
Local Notation last_via := (AbstractBA.last_via node value node_eq_dec).
Local Notation mkVote := (AbstractBA.mkVote node value).
Local Notation ok := (AbstractBA.ok node value node_eq_dec value_eq_dec honest quorum).
Local Notation reachable := (AbstractBA.reachable node value node_eq_dec value_eq_dec honest quorum).
Local Notation suffix := (AbstractBAProofs.suffix node value).

(* the value h cert-voted in period q, if any *)
Fixpoint own_cert (h : node) (q : nat) (t : trace) : option value :=
  match t with
  | [] => None
  | Vote _ _ v :: t' =>
      if node_eq_dec (sender node value v) h then
        if Nat.eqb (per node value v) q && Nat.eqb (stp node value v) 2
        then match val node value v with Some y => Some y | None => own_cert h q t' end
        else own_cert h q t'
      else own_cert h q t'
  | Enter _ _ _ _ _ :: t' => own_cert h q t'
  end.

Lemma own_cert_some h q t y : own_cert h q t = Some y -> voted t (mkVote h q 2 (Some y)).
Proof.
  induction t as [|e t IH]; cbn; [discriminate|].
  destruct e as [v|n p w]; [|intros H; right; apply IH; exact H].
  destruct (node_eq_dec (sender node value v) h) as [Es|]; [|intros H; right; apply IH; exact H].
  destruct (Nat.eqb (per node value v) q && Nat.eqb (stp node value v) 2) eqn:E; [|intros H; right; apply IH; exact H].
  apply andb_true_iff in E. destruct E as [E1 E2]. apply Nat.eqb_eq in E1, E2.
  destruct (val node value v) as [y'|] eqn:Ev; [|intros H; right; apply IH; exact H].
  intros [= <-]. left. destruct v as [sn pe st va]. cbn in *. subst. reflexivity.
Qed.

Lemma own_cert_none h q t : own_cert h q t = None -> forall y, ~ voted t (mkVote h q 2 (Some y)).
Proof.
  induction t as [|e t IH]; cbn; [intros _ y []|].
  destruct e as [v|n p w].
  - destruct (node_eq_dec (sender node value v) h) as [Es|Hne].
    + destruct (Nat.eqb (per node value v) q && Nat.eqb (stp node value v) 2) eqn:E.
      * destruct (val node value v) as [y'|] eqn:Ev; [discriminate|].
        intros H y [Hv|Hv]; [|exact (IH H y Hv)]. injection Hv as Hv. rewrite Hv in Ev. cbn in Ev. discriminate.
      * intros H y [Hv|Hv]; [|exact (IH H y Hv)]. injection Hv as Hv. rewrite Hv in E. cbn in E.
        rewrite !Nat.eqb_refl in E. discriminate.
    + intros H y [Hv|Hv]; [|exact (IH H y Hv)]. injection Hv as Hv. rewrite Hv in Hne. cbn in Hne. contradiction.
  - intros H y [Hv|Hv]; [discriminate|exact (IH H y Hv)].
Qed.

Lemma cur_pos_via h t : 0 < cur h t -> exists w, last_via h t = Some w.
Proof.
  induction t as [|e t IH]; cbn; [lia|].
  destruct e as [v|n q w]; [exact IH|].
  destruct (node_eq_dec n h); [intros _; exists w; reflexivity|exact IH].
Qed.

Theorem next_vote_enabled : forall t h s,
  reachable t -> honest h -> 3 <= s ->
  (forall x, ~ voted t (mkVote h (cur h t) s x)) ->
  exists x, ok t (Vote node value (mkVote h (cur h t) s x)).
Proof.
  intros t h s Hr Hh Hs Hfresh.
  set (q := cur h t) in *.
  assert (Hframe : forall x, next_rule node value node_eq_dec value_eq_dec quorum t (mkVote h q s x) ->
                             ok t (Vote node value (mkVote h q s x))).
  { intros x Hnr _. cbn. split; [reflexivity|]. split.
    - intros v' Hv' Es Ep Est. exfalso. apply (Hfresh (val node value v')).
      destruct v' as [sn pe st va]. cbn in *. subst. exact Hv'.
    - unfold step_rule. cbn [stp]. destruct s as [|[|[|s']]]; try lia. exact Hnr. }
  destruct (own_cert h q t) as [y|] eqn:Ec.
  - (* cert-voted y: vote y, it has a soft quorum *)
    pose proof (own_cert_some h q t y Ec) as Hv.
    exists (Some y). apply Hframe. split.
    + intros y' Hv'. cbn.
      pose proof (honest_once node value node_eq_dec value_eq_dec honest quorum t _ _ Hr Hv Hv' Hh eq_refl eq_refl eq_refl) as E.
      cbn in E. congruence.
    + left. exists y. split; [reflexivity|]. left.
      destruct (in_split_ok node value node_eq_dec value_eq_dec honest quorum t _ Hr Hv) as [t1 [Hsf [Hr1 Hok]]].
      cbn in Hok. destruct (Hok Hh) as [_ [_ Hrule]]. cbn in Hrule.
      destruct Hrule as [x' [Hx' [Hq _]]]. cbn in Hx'. injection Hx' as <-. cbn in Hq.
      eapply (has_q_suffix node value quorum); [|exact Hq]. eapply suffix_tail. exact Hsf.
  - pose proof (own_cert_none h q t Ec) as Hnone.
    assert (Hfirst : forall x y, voted t (mkVote h q 2 (Some y)) -> val node value (mkVote h q s x) = Some y).
    { intros x y Hv. exfalso. exact (Hnone y Hv). }
    destruct (Nat.eq_dec q 0) as [E0|Hq].
    + exists None. apply Hframe. split; [apply Hfirst|]. right; right; left. split; [reflexivity|exact E0].
    + destruct (cur_pos_via h t ltac:(fold q; lia)) as [w Hw].
      destruct (last_via_ok node value node_eq_dec value_eq_dec honest quorum h t w Hr Hh Hw) as [t0 [Hsf [_ Hen]]].
      fold q in Hen. destruct w as [x0|y|y].
      * destruct Hen as [Hpos Hn]. exists x0. apply Hframe. split; [apply Hfirst|].
        right; left. split; [exact Hpos|]. cbn. eapply (nextq_suffix node value quorum); eassumption.
      * exists (Some y). apply Hframe. split; [apply Hfirst|].
        left. exists y. split; [reflexivity|]. left. eapply (has_q_suffix node value quorum); eassumption.
      * exists (Some y). apply Hframe. split; [apply Hfirst|].
        left. exists y. split; [reflexivity|]. right. eapply (has_q_suffix node value quorum); eassumption.
Qed.

Theorem enter_enabled : forall t h q x,
  nextq t q x -> cur h t <= q -> ok t (Enter node value h (S q) (ViaNext value x)).
Proof.
  intros t h q x Hn Hc _. split; [lia|]. split; [lia|]. cbn. rewrite Nat.sub_0_r. exact Hn.
Qed.

End Enabled.
