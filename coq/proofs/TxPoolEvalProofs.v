(* C44: the payments-only evaluator model satisfies the hypotheses of TxPoolProofs
   (M0-M3: only the byte budget depends on blockTxBytes; D1: duplicate detection), hence the
   pool theorems hold for it without premises, for every concrete history. *)
From Coq Require Import NArith List Bool Lia ZifyN ZifyNat ZifyBool.
Import ListNotations.
From Verif.model Require Import TxPool TxPoolEval.
From Verif.proofs Require Import TxPoolProofs.
Open Scope N_scope.

Section Eval.
  Variable P : eparams.

  (* ---------- the per-transaction loop and the byte offset ---------- *)
  Lemma loop_bytes : forall round tail blk gid0 len ts b st gb st' gbf,
      loop P round tail blk b gid0 len st gb ts = LOk st' gbf ->
      gb <= gbf /\
      (ts <> [] -> b + gbf <= ep_maxbytes P) /\
      (forall b2, b2 + gbf <= ep_maxbytes P -> loop P round tail blk b2 gid0 len st gb ts = LOk st' gbf) /\
      (forall b2, ts <> [] -> ep_maxbytes P < b2 + gbf -> loop P round tail blk b2 gid0 len st gb ts = LNoSpace).
  Proof.
    intros round tail blk gid0 len. induction ts as [|t r IH]; intros b st gb st' gbf H; cbn [loop] in *.
    - inversion H; subst. repeat split; try lia; try congruence.
    - destruct (tx_step P round tail blk st t) as [[st1 ib]|e] eqn:Es; [| discriminate].
      destruct (ep_maxbytes P <? b + (gb + ib)) eqn:Eb; [discriminate|].
      destruct (negb (t_gid t =? gid0)) eqn:Eg1; [discriminate|].
      destruct ((t_gid t =? 0) && (1 <? len)) eqn:Eg2; [discriminate|].
      destruct (IH _ _ _ _ _ H) as [H1 [H2 [H3 H4]]].
      apply N.ltb_ge in Eb.
      assert (Hlast : r = [] -> gbf = gb + ib).
      { intros ->. cbn [loop] in H. inversion H; reflexivity. }
      repeat split.
      + lia.
      + intros _. destruct r as [|t2 r2]; [rewrite (Hlast eq_refl); exact Eb | apply H2; discriminate].
      + intros b2 Hb2. assert (Hnb : (ep_maxbytes P <? b2 + (gb + ib)) = false) by (apply N.ltb_ge; lia).
        rewrite Hnb. apply H3. exact Hb2.
      + intros b2 _ Hb2. destruct (ep_maxbytes P <? b2 + (gb + ib)) eqn:Eb2; [reflexivity|].
        apply N.ltb_ge in Eb2. destruct r as [|t2 r2].
        * rewrite (Hlast eq_refl) in Hb2. lia.
        * apply H4; [discriminate | exact Hb2].
  Qed.

  Definition tg := eval_group P.

  Lemma M0_eval : forall c b, tg c b [] = EOk c b.
  Proof. reflexivity. Qed.

  (* shape of an accepting run of eval_group on a non-empty group *)
  Lemma eval_ok_inv : forall c b t0 g0 c' b',
      tg c b (t0 :: g0) = EOk c' b' ->
      exists m child sp gb,
        loop P (c_round c) (c_tail c) (c_blk c) b (t_gid t0) (N.of_nat (length (t0 :: g0)))
             (c_bal c, [], c_spnext c) 0 (t0 :: g0) = LOk (m, child, sp) gb /\
        c' = mkCst (c_round c) m (c_tail c) (c_blk c ++ child) sp /\ b' = b + gb /\
        (ep_maxgroup P <? N.of_nat (length (t0 :: g0))) = false /\
        negb (forallb (tx_wf P) (t0 :: g0)) = false /\
        (negb (t_gid t0 =? 0) && negb (t_gid t0 =? 1)) = false /\
        (fees (t0 :: g0) <? ep_minfee P * usage (t0 :: g0)) = false.
  Proof.
    intros c b t0 g0 c' b' H. unfold tg, eval_group in H.
    destruct (ep_maxgroup P <? N.of_nat (length (t0 :: g0))) eqn:E1; [discriminate|].
    destruct (negb (forallb (tx_wf P) (t0 :: g0))) eqn:E2; [discriminate|].
    destruct (loop P _ _ _ b _ _ _ 0 (t0 :: g0)) as [[[m child] sp] gb| |e] eqn:El; try discriminate.
    destruct (negb (t_gid t0 =? 0) && negb (t_gid t0 =? 1)) eqn:E3; [discriminate|].
    destruct (fees (t0 :: g0) <? ep_minfee P * usage (t0 :: g0)) eqn:E4; [discriminate|].
    inversion H; subst. exists m, child, sp, gb. repeat split; auto.
  Qed.

  Lemma eval_ok_intro : forall c b t0 g0 m child sp gb,
      loop P (c_round c) (c_tail c) (c_blk c) b (t_gid t0) (N.of_nat (length (t0 :: g0)))
           (c_bal c, [], c_spnext c) 0 (t0 :: g0) = LOk (m, child, sp) gb ->
      (ep_maxgroup P <? N.of_nat (length (t0 :: g0))) = false ->
      negb (forallb (tx_wf P) (t0 :: g0)) = false ->
      (negb (t_gid t0 =? 0) && negb (t_gid t0 =? 1)) = false ->
      (fees (t0 :: g0) <? ep_minfee P * usage (t0 :: g0)) = false ->
      tg c b (t0 :: g0) = EOk (mkCst (c_round c) m (c_tail c) (c_blk c ++ child) sp) (b + gb).
  Proof.
    intros c b t0 g0 m child sp gb Hl E1 E2 E3 E4. unfold tg, eval_group.
    rewrite E1, E2, Hl, E3, E4. reflexivity.
  Qed.

  Lemma M3_eval : forall c c' g b b', tg c b g = EOk c' b' ->
      exists s, b' = b + s /\ tg c 0 g = EOk c' s.
  Proof.
    intros c c' g b b' H. destruct g as [|t0 g0].
    - cbn in H. inversion H; subst. exists 0. split; [lia | reflexivity].
    - destruct (eval_ok_inv _ _ _ _ _ _ H) as [m [child [sp [gb [Hl [Hc [Hb [E1 [E2 [E3 E4]]]]]]]]]].
      subst. exists gb. split; [reflexivity|].
      destruct (loop_bytes _ _ _ _ _ _ _ _ _ _ _ Hl) as [_ [Hfit [Hany _]]].
      assert (Hgb : 0 + gb <= ep_maxbytes P) by (specialize (Hfit ltac:(discriminate)); lia).
      pose proof (eval_ok_intro c 0 t0 g0 m child sp gb (Hany 0 Hgb) E1 E2 E3 E4) as H0.
      rewrite N.add_0_l in H0. exact H0.
  Qed.

  Lemma M1_eval : forall c c' g s b, g <> [] -> tg c 0 g = EOk c' s -> b + s <= ep_maxbytes P ->
      tg c b g = EOk c' (b + s).
  Proof.
    intros c c' g s b Hne H Hfit. destruct g as [|t0 g0]; [congruence|].
    destruct (eval_ok_inv _ _ _ _ _ _ H) as [m [child [sp [gb [Hl [Hc [Hb [E1 [E2 [E3 E4]]]]]]]]]].
    rewrite N.add_0_l in Hb. subst.
    destruct (loop_bytes _ _ _ _ _ _ _ _ _ _ _ Hl) as [_ [_ [Hany _]]].
    exact (eval_ok_intro c b t0 g0 m child sp gb (Hany b Hfit) E1 E2 E3 E4).
  Qed.

  Lemma M2_eval : forall c c' g s b, g <> [] -> tg c 0 g = EOk c' s -> ep_maxbytes P < b + s ->
      tg c b g = ENoSpace.
  Proof.
    intros c c' g s b Hne H Hbig. destruct g as [|t0 g0]; [congruence|].
    destruct (eval_ok_inv _ _ _ _ _ _ H) as [m [child [sp [gb [Hl [Hc [Hb [E1 [E2 [E3 E4]]]]]]]]]].
    rewrite N.add_0_l in Hb. subst.
    destruct (loop_bytes _ _ _ _ _ _ _ _ _ _ _ Hl) as [_ [_ [_ Hns]]].
    unfold tg, eval_group. rewrite E1, E2. rewrite (Hns b ltac:(discriminate) Hbig). reflexivity.
  Qed.

  (* ---------- duplicate detection ---------- *)
  Lemma tx_step_ok : forall round tail blk m child sp t m' child' sp' ib,
      tx_step P round tail blk (m, child, sp) t = inl ((m', child', sp'), ib) ->
      has_id child (t_id t) = false /\ has_id blk (t_id t) = false /\ has_id tail (t_id t) = false /\
      child' = child ++ [mkRec (t_id t) (t_lv t) (t_snd t) (t_lease t)].
  Proof.
    intros round tail blk m child sp t m' child' sp' ib H. unfold tx_step in H.
    destruct (round <? t_fv t); [discriminate|].
    destruct (t_lv t <? round); [discriminate|].
    destruct (has_id child (t_id t)) eqn:E1; [discriminate|].
    destruct (negb (t_lease t =? 0) && holds_lease child round (t_snd t) (t_lease t)); [discriminate|].
    destruct (has_id blk (t_id t)) eqn:E2; [discriminate|].
    destruct (negb (t_lease t =? 0) && holds_lease blk round (t_snd t) (t_lease t)); [discriminate|].
    destruct (negb (t_lease t =? 0) && holds_lease tail round (t_snd t) (t_lease t)); [discriminate|].
    destruct (has_id tail (t_id t)) eqn:E3; [discriminate|].
    destruct (bal m (t_snd t) <? t_fee t); [discriminate|].
    destruct (t_kind t =? 0).
    - destruct (bal (move m (t_snd t) A_sink (t_fee t)) (t_snd t) <? t_amt t); [discriminate|].
      match type of H with (if ?c then _ else _) = _ => destruct c end; [| discriminate].
      inversion H; subst. auto.
    - destruct ((sp =? 0) || negb (sp =? t_amt t)); [discriminate|].
      inversion H; subst. auto.
  Qed.

  Lemma has_id_app : forall a b id, has_id (a ++ b) id = has_id a id || has_id b id.
  Proof. intros; unfold has_id. apply existsb_app. Qed.

  Lemma has_id_in : forall l id, has_id l id = true <-> In id (map r_id l).
  Proof.
    intros l id. unfold has_id. rewrite existsb_exists. split.
    - intros [r [Hin He]]. apply N.eqb_eq in He. subst. apply in_map; assumption.
    - intros Hin. apply in_map_iff in Hin as [r [He Hin]]. exists r. split; [assumption | apply N.eqb_eq; assumption].
  Qed.

  Lemma loop_child : forall round tail blk b gid0 len ts m child sp gb m' child' sp' gbf,
      loop P round tail blk b gid0 len (m, child, sp) gb ts = LOk (m', child', sp') gbf ->
      map r_id child' = map r_id child ++ map t_id ts /\
      (forall t, In t ts -> has_id blk (t_id t) = false /\ has_id tail (t_id t) = false) /\
      (NoDup (map r_id child) -> NoDup (map r_id child')).
  Proof.
    intros round tail blk b gid0 len. induction ts as [|t r IH]; intros m child sp gb m' child' sp' gbf H; cbn [loop] in H.
    - inversion H; subst. cbn. rewrite app_nil_r. repeat split; auto; try (intros ? []); try tauto.
    - destruct (tx_step P round tail blk (m, child, sp) t) as [[[[m1 child1] sp1] ib]|e] eqn:Es; [| discriminate].
      destruct (ep_maxbytes P <? b + (gb + ib)); [discriminate|].
      destruct (negb (t_gid t =? gid0)); [discriminate|].
      destruct ((t_gid t =? 0) && (1 <? len)); [discriminate|].
      destruct (tx_step_ok _ _ _ _ _ _ _ _ _ _ _ Es) as [Hc [Hb [Ht Hch]]].
      destruct (IH _ _ _ _ _ _ _ _ H) as [Hids [Hfresh Hnd]].
      subst child1. rewrite map_app in Hids. cbn [map r_id] in Hids.
      split; [| split].
      + rewrite Hids. rewrite <- app_assoc. reflexivity.
      + intros t2 [->|Hin]; [auto | apply Hfresh; assumption].
      + intros Hnd0. apply Hnd. rewrite map_app. cbn [map r_id].
        apply nodup_app_intro; [assumption | constructor; [intros [] | constructor] |].
        intros x Hx [Hx2|[]]. subst x. apply has_id_in in Hx. congruence.
  Qed.

  Lemma D1_eval : forall c b g c' b', tg c b g = EOk c' b' ->
      NoDup (map t_id g) /\
      (forall t, In t g -> cseen c (t_id t) = false) /\
      (forall id, cseen c id = true -> cseen c' id = true) /\
      (forall t, In t g -> cseen c' (t_id t) = true) /\
      c_tail c' = c_tail c /\ map r_id (c_blk c') = map r_id (c_blk c) ++ map t_id g /\
      c_round c' = c_round c.
  Proof.
    intros c b g c' b' H. destruct g as [|t0 g0].
    - cbn in H. inversion H; subst. cbn. rewrite app_nil_r.
      repeat split; auto; try (intros ? []). constructor.
    - destruct (eval_ok_inv _ _ _ _ _ _ H) as [m [child [sp [gb [Hl [Hc [Hb _]]]]]]]. subst c'.
      destruct (loop_child _ _ _ _ _ _ _ _ _ _ _ _ _ _ _ Hl) as [Hids [Hfresh Hnd]].
      change (map r_id [] ++ map t_id (t0 :: g0)) with (map t_id (t0 :: g0)) in Hids.
      remember (t0 :: g0) as g eqn:Eg. cbn [c_tail c_blk c_round].
      split; [| split; [| split; [| split; [| split; [| split]]]]].
      + rewrite <- Hids. apply Hnd. constructor.
      + intros t Hin. unfold cseen. destruct (Hfresh _ Hin) as [H1 H2]. rewrite H1, H2. reflexivity.
      + intros id Hs. unfold cseen in *. cbn [c_tail c_blk]. rewrite has_id_app.
        apply orb_true_iff in Hs as [Hs|Hs]; rewrite Hs; [reflexivity|].
        rewrite orb_true_r. reflexivity.
      + intros t Hin. unfold cseen. cbn [c_tail c_blk]. rewrite has_id_app.
        assert (Hc : has_id child (t_id t) = true).
        { apply has_id_in. rewrite Hids. apply in_map. assumption. }
        rewrite Hc. rewrite !orb_true_r. reflexivity.
      + reflexivity.
      + rewrite map_app, Hids. reflexivity.
      + reflexivity.
  Qed.

  Lemma D1_eval' : forall c b g c' b', tg c b g = EOk c' b' ->
      NoDup (map t_id g) /\
      (forall t, In t g -> cseen c (t_id t) = false) /\
      (forall id, cseen c id = true -> cseen c' id = true) /\
      (forall t, In t g -> cseen c' (t_id t) = true).
  Proof. intros c b g c' b' H. destruct (D1_eval _ _ _ _ _ H) as [H1 [H2 [H3 [H4 _]]]]. auto. Qed.

  Lemma eqbN_spec : forall a b : N, N.eqb a b = true <-> a = b.
  Proof. apply N.eqb_eq. Qed.

  (* ---------- the instantiated invariant ---------- *)
  Variables maxsize expf : N.

  Definition PInv : psys -> Prop :=
    @Inv cst cst tx N tg c_round lstart t_id t_lv t_stpf maxsize.

  Definition cled (s : psys) : Prop :=
    c_blk (p_ledger (s_pool s)) = [] /\
    forall id, In id (s_committed s) -> has_id (c_tail (p_ledger (s_pool s))) id = true.

  Definition CInv (s : psys) : Prop := PInv s /\ cled s.

  Lemma p_init_inv : forall l, c_blk l = [] -> CInv (p_init P l).
  Proof.
    intros l Hb. split.
    - apply (init_inv N.eqb tg c_round lstart t_id t_lv t_stpf t_spsnd t_fee t_enc maxsize (ep_maxbytes P) cseen
                      eqbN_spec M0_eval M1_eval M2_eval M3_eval D1_eval').
    - unfold cled, p_init.
      destruct (init_committed N.eqb tg c_round lstart t_id t_lv l (map r_id (c_tail l))) as [Hc Hl].
      unfold tg in *. rewrite Hc, Hl. split; [exact Hb|]. intros id Hin. apply has_id_in. exact Hin.
  Qed.

  Lemma apply_groups_tail : forall gs c c', apply_groups P c gs = Some c' ->
      c_tail c' = c_tail c /\ map r_id (c_blk c') = map r_id (c_blk c) ++ map t_id (concat gs).
  Proof.
    induction gs as [|g gs IH]; intros c c' H; cbn [apply_groups] in H.
    - inversion H; subst. cbn. rewrite app_nil_r. auto.
    - destruct (eval_group P c 0 g) as [c1 b1| |e] eqn:E; try discriminate.
      destruct (D1_eval _ _ _ _ _ E) as [_ [_ [_ [_ [Ht [Hb _]]]]]].
      destruct (IH _ _ H) as [Ht2 Hb2]. split; [congruence|].
      rewrite Hb2, Hb. cbn [concat]. rewrite map_app, app_assoc. reflexivity.
  Qed.

  Lemma c_step_inv : forall s o s' r, CInv s -> c_step P maxsize expf s o = Some (s', r) -> CInv s'.
  Proof.
    intros s o s' r [HI [Hblk Hled]] H.
    assert (Hstep : forall po, PInv (fst (p_step P maxsize expf s po))).
    { intros po. apply (step_inv N.eqb tg c_round lstart t_id t_lv t_stpf t_spsnd t_fee t_enc maxsize expf
                                 (ep_maxbytes P) cseen eqbN_spec M0_eval M1_eval M2_eval M3_eval D1_eval'). exact HI. }
    assert (Hfst : forall po, Some (p_step P maxsize expf s po) = Some (s', r) ->
                              s' = fst (p_step P maxsize expf s po)).
    { intros po Hq. injection Hq as Hq. rewrite Hq. reflexivity. }
    destruct o as [g | gs | rd committed]; cbn [c_step] in H.
    - rewrite (Hfst _ H). split; [apply (Hstep (ORemember g))|].
      pose proof (step_env N.eqb tg c_round lstart t_id t_lv t_stpf t_spsnd t_fee t_enc maxsize expf s (ORemember g)) as [H1 H2].
      unfold cled, p_step, psys in *. unfold tg in H1, H2. rewrite H1, H2. auto.
    - destruct (commit_block P (p_ledger (s_pool s)) gs) as [l'|] eqn:Ec; [| discriminate].
      rewrite (Hfst _ H). split; [apply (Hstep (OLedger l' _))|].
      pose proof (step_env N.eqb tg c_round lstart t_id t_lv t_stpf t_spsnd t_fee t_enc maxsize expf s
                           (OLedger l' (map t_id (concat gs)))) as [H1 H2].
      unfold cled, p_step, psys in *. unfold tg in H1, H2. rewrite H1, H2.
      unfold commit_block, lstart in Ec.
      destruct (apply_groups P _ gs) as [c|] eqn:Ea; [| discriminate].
      inversion Ec; subst l'. cbn [c_blk c_tail]. split; [reflexivity|].
      destruct (apply_groups_tail _ _ _ Ea) as [Ht Hb]. cbn [c_tail c_blk map app] in Ht, Hb.
      intros id Hin. rewrite has_id_app. apply in_app_or in Hin as [Hin|Hin].
      + rewrite Ht. rewrite (Hled _ Hin). reflexivity.
      + assert (Hc : has_id (c_blk c) id = true) by (apply has_id_in; rewrite Hb; exact Hin).
        rewrite Hc. apply orb_true_r.
    - rewrite (Hfst _ H). split; [apply (Hstep (OOnNewBlock rd committed))|].
      pose proof (step_env N.eqb tg c_round lstart t_id t_lv t_stpf t_spsnd t_fee t_enc maxsize expf s
                           (OOnNewBlock rd committed)) as [H1 H2].
      unfold cled, p_step, psys in *. unfold tg in H1, H2. rewrite H1, H2. auto.
  Qed.

  Lemma c_run_inv : forall ops s s', CInv s -> c_run P maxsize expf s ops = Some s' -> CInv s'.
  Proof.
    induction ops as [|o ops IH]; intros s s' HI H; cbn [c_run] in H.
    - inversion H; subst; exact HI.
    - destruct (c_step P maxsize expf s o) as [[s1 r]|] eqn:E; [| discriminate].
      eapply IH; [eapply c_step_inv; eauto | exact H].
  Qed.

  Lemma cled_led_ok : forall s, cled s -> @led_ok cst cst tx N lstart cseen s.
  Proof.
    intros s [Hb Hl] c id Hs Hin. unfold lstart in Hs. inversion Hs; subst.
    unfold cseen. cbn [c_tail c_blk]. rewrite (Hl _ Hin). reflexivity.
  Qed.

  (* ---------- the closed theorems: every concrete history ---------- *)
  Definition pflat (gs : list (list tx)) : list N := map t_id (concat gs).
  Definition logical_apply := capply tg.
  Definition logical_apply_all := capply_all tg.

  Theorem concrete_pool_ok : forall l0 ops s,
      c_blk l0 = [] -> c_run P maxsize expf (p_init P l0) ops = Some s ->
      let p := s_pool s in
      (* no group (no txid) twice *)
      NoDup (pflat (p_pending p)) /\ p_ids p = pflat (p_pending p) /\
      (* size: the configured maximum plus the pending singleton state proofs; at most one
         overflow between two recomputations *)
      txcount (p_pending p) <= maxsize + spcount t_stpf (p_pending p) /\
      txcount (p_pending p) <= N.max (s_basecount s) maxsize + (if p_over p then 1 else 0) /\
      (* the pending groups apply in order on top of the state the evaluator was started on *)
      (forall c b, p_eval p = Some (c, b) ->
         exists c0 br nr, lstart (s_base s) = SOk c0 /\
                          p_replay P c0 0 0 (p_pending p) = Some (c, br, nr) /\
                          logical_apply_all c0 (p_pending p) = Some c) /\
      (* nothing committed remains once the pool has processed the ledger's latest block *)
      (forall c b id, p_eval p = Some (c, b) -> s_base s = p_ledger p ->
                      In id (pflat (p_pending p)) -> ~ In id (s_committed s)).
  Proof.
    intros l0 ops s Hb Hrun p.
    destruct (c_run_inv _ _ _ (p_init_inv l0 Hb) Hrun) as [HI Hled]. subst p.
    pose proof (size_at tg c_round lstart t_id t_lv t_stpf t_spsnd t_fee t_enc maxsize (ep_maxbytes P) cseen M0_eval D1_eval' s HI) as [Hs1 Hs2].
    destruct HI as [Hnd Hids Hrep Hns Hep] eqn:EHI.
    repeat split; try assumption.
    - intros c b He. destruct (Hrep _ _ He) as [c0 [br [nr [H1 [H2 _]]]]].
      exists c0, br, nr. repeat split; auto.
      eapply (replay_capply tg c_round t_lv M3_eval); eauto.
    - intros c b id He Hsync Hin.
      eapply (no_committed_at tg c_round lstart t_id t_lv t_stpf maxsize cseen D1_eval'); eauto.
      apply cled_led_ok; assumption.
  Qed.

  Theorem concrete_admit : forall l0 ops s g p',
      c_blk l0 = [] -> c_run P maxsize expf (p_init P l0) ops = Some s ->
      p_remember P maxsize expf (s_pool s) g = (p', None) ->
      p_pending p' = p_pending (s_pool s) ++ [g] /\
      exists c0 c c', lstart (s_base s) = SOk c0 /\
                      logical_apply_all c0 (p_pending (s_pool s)) = Some c /\
                      logical_apply c g = Some c'.
  Proof.
    intros l0 ops s g p' Hb Hrun Hrem.
    destruct (c_run_inv _ _ _ (p_init_inv l0 Hb) Hrun) as [HI _].
    destruct (admit_at N.eqb tg c_round lstart t_id t_lv t_stpf t_spsnd t_fee t_enc maxsize expf M3_eval
                       s g p' HI Hrem) as [H1 [c0 [c [c' [H2 [H3 [H4 _]]]]]]].
    split; [exact H1|]. exists c0, c, c'. auto.
  Qed.
End Eval.
