(* C13 lemmas, part A: one address of the onlineaccounts history table / onlineAccountsCache.
   "latest row <= rnd" ([view]), trimming (OnlineAccountsDelete), the row-writing loop of
   onlineAccountsNewRoundImpl ([process]), pruning of the cache. *)
From Coq Require Import NArith List Bool Lia ZifyN ZifyNat ZifyBool.
From Verif.model Require Import Overflow OnlineAccts.
Import ListNotations.
Open Scope N_scope.

(* what a lookup at round r sees for the address: the data of the newest row <= r, or nothing *)
Definition view (es : list entry) (r : N) : bdata :=
  match latest_le r es with Some e => snd e | None => bdata0 end.

(* what the table must show for an account *)
Definition tgt (a : oacct) : bdata := if is_online a then bdata_of a else bdata0.

Fixpoint sorted_desc (es : list entry) : Prop :=
  match es with
  | [] => True
  | e :: r => (forall f, In f r -> fst f < fst e) /\ sorted_desc r
  end.

(* rows are either zero rows or carry voting data *)
Definition wf_data (es : list entry) : Prop :=
  forall e, In e es -> voting_empty (snd e) = true -> snd e = bdata0.

Definition upd_le (es : list entry) (d : N) : Prop := forall e, In e es -> fst e <= d.

Lemma bdata_eqb_eq x y : bdata_eqb x y = true <-> x = y.
Proof.
  unfold bdata_eqb. rewrite !andb_true_iff, !N.eqb_eq, Bool.eqb_true_iff.
  destruct x, y; cbn. split.
  - intros [[[[[[[[-> ->] ->] ->] ->] ->] ->] ->] ->]. reflexivity.
  - intros [= -> -> -> -> -> -> -> -> ->]. repeat split.
Qed.

Lemma voting_empty_bdata0 : voting_empty bdata0 = true.
Proof. reflexivity. Qed.

(* ---------- view ---------- *)
Lemma view_nil r : view [] r = bdata0.
Proof. reflexivity. Qed.

Lemma view_cons_le (e : entry) (es : list entry) r : fst e <= r -> view (e :: es) r = snd e.
Proof. intros H. unfold view. cbn [latest_le]. apply N.leb_le in H. rewrite H. reflexivity. Qed.

Lemma view_cons_gt (e : entry) (es : list entry) r : r < fst e -> view (e :: es) r = view es r.
Proof. intros H. unfold view. cbn [latest_le]. apply N.leb_gt in H. rewrite H. reflexivity. Qed.

(* all rows are at or before d: every later round sees the newest row *)
Lemma view_beyond (es : list entry) d r : upd_le es d -> d <= r -> view es r = view es d.
Proof.
  intros Hu Hr. destruct es as [|e es]; [reflexivity|].
  assert (fst e <= d) by (apply Hu; left; reflexivity).
  rewrite !view_cons_le by lia. reflexivity.
Qed.

Lemma view_app_new (new es : list entry) r : (forall e, In e new -> r < fst e) -> view (new ++ es) r = view es r.
Proof.
  induction new as [|e new IH]; intros H; [reflexivity|].
  cbn [app]. rewrite view_cons_gt by (apply H; left; reflexivity).
  apply IH. intros f Hf. apply H. right; exact Hf.
Qed.

(* rows older than what the prefix covers do not matter *)
Definition oldest_upd (es : list entry) : N := fst (last es (0, bdata0)).

Lemma view_app_old (keep old : list entry) r : keep <> [] -> oldest_upd keep <= r ->
  view (keep ++ old) r = view keep r.
Proof.
  unfold oldest_upd. induction keep as [|e keep IH]; intros Hne Hr; [contradiction|].
  destruct keep as [|f keep].
  - cbn in Hr. cbn [app]. rewrite !view_cons_le by exact Hr. reflexivity.
  - cbn [app]. unfold view in *. cbn [latest_le] in *. destruct (fst e <=? r); [reflexivity|].
    apply IH; [discriminate|exact Hr].
Qed.

(* ---------- OnlineAccountsDelete never removes what a round >= forgetBefore needs ---------- *)
Lemma trim_view fb es r : wf_data es -> fb <= r -> view (trim_entries fb es) r = view es r.
Proof.
  intros Hwf Hr. induction es as [|e es IH]; [reflexivity|].
  cbn [trim_entries]. destruct (N.ltb_spec (fst e) fb) as [Hlt|Hge].
  - rewrite (view_cons_le e es r) by lia.
    destruct (voting_empty (snd e)) eqn:Ev.
    + rewrite view_nil. symmetry. apply Hwf; [left; reflexivity|exact Ev].
    + rewrite view_cons_le by lia. reflexivity.
  - destruct (N.le_gt_cases (fst e) r) as [Hle|Hgt].
    + rewrite !view_cons_le by exact Hle. reflexivity.
    + rewrite !view_cons_gt by exact Hgt. apply IH. intros f Hf. apply Hwf. right; exact Hf.
Qed.

Lemma trim_in fb es e : In e (trim_entries fb es) -> In e es.
Proof.
  induction es as [|f es IH]; [intros []|]. cbn [trim_entries].
  destruct (fst f <? fb).
  - destruct (voting_empty (snd f)); [intros []|]. intros [<-|[]]. left; reflexivity.
  - intros [<-|H]; [left; reflexivity|right; exact (IH H)].
Qed.

Lemma trim_sorted fb es : sorted_desc es -> sorted_desc (trim_entries fb es).
Proof.
  induction es as [|f es IH]; [trivial|]. intros [H1 H2]. cbn [trim_entries].
  destruct (fst f <? fb).
  - destruct (voting_empty (snd f)); cbn; auto. split; [intros ? []|trivial].
  - cbn [sorted_desc]. split; [|exact (IH H2)]. intros g Hg. apply H1. exact (trim_in _ _ _ Hg).
Qed.

Lemma trim_wf fb es : wf_data es -> wf_data (trim_entries fb es).
Proof. intros H e He. apply H. exact (trim_in _ _ _ He). Qed.

Lemma trim_upd_le fb es d : upd_le es d -> upd_le (trim_entries fb es) d.
Proof. intros H e He. apply H. exact (trim_in _ _ _ He). Qed.

(* ---------- the row-writing loop ---------- *)
(* the account after the updates [ups] (oldest first) that happened up to round r *)
Fixpoint acct_of (ups : list (oacct * N)) (a0 : oacct) (r : N) : oacct :=
  match ups with
  | [] => a0
  | (a, ru) :: rest => if ru <=? r then acct_of rest a r else a0
  end.

Fixpoint rounds_inc (ups : list (oacct * N)) (lo : N) : Prop :=
  match ups with
  | [] => True
  | (_, r) :: rest => lo < r /\ rounds_inc rest r
  end.

Definition head_data (es : list entry) : option bdata :=
  match es with e :: _ => Some (snd e) | [] => None end.

Lemma head_view es d : upd_le es d -> view es d = match head_data es with Some b => b | None => bdata0 end.
Proof.
  intros H. destruct es as [|e es]; [reflexivity|]. cbn [head_data].
  apply view_cons_le. apply H. left; reflexivity.
Qed.


Lemma head_data_in (es : list entry) b : head_data es = Some b -> exists e, In e es /\ snd e = b.
Proof. destruct es as [|e es]; [discriminate|]. intros [= <-]. exists e. split; [left|]; reflexivity. Qed.

Lemma process_spec unit es : forall ups acc a_cur r_cur w,
  sorted_desc (acc ++ es) -> wf_data (acc ++ es) -> upd_le (acc ++ es) r_cur ->
  view (acc ++ es) r_cur = tgt a_cur ->
  rounds_inc ups r_cur ->
  process unit (head_data (acc ++ es)) ups acc = Some w ->
  exists new, w = new ++ acc /\
    sorted_desc (w ++ es) /\ wf_data (w ++ es) /\
    (forall e, In e new -> r_cur < fst e) /\
    (forall e, In e new -> exists a r, In (a, r) ups /\ fst e = r) /\
    (forall r, r_cur <= r -> view (w ++ es) r = tgt (acct_of ups a_cur r)).
Proof.
  induction ups as [|[a r1] rest IH]; intros acc a_cur r_cur w Hs Hwf Hu Hv Hinc H; cbn [process] in H.
  - inversion H; subst w. exists []. cbn [app acct_of]. split; [reflexivity|]. split; [exact Hs|].
    split; [exact Hwf|]. split; [intros ? []|]. split; [intros ? []|].
    intros r Hr. rewrite (view_beyond _ _ _ Hu Hr). exact Hv.
  - destruct Hinc as [Hlt Hinc].
    set (cur := acc ++ es) in *.
    assert (Hbey : view cur r1 = tgt a_cur) by (rewrite (view_beyond cur r_cur r1 Hu) by lia; exact Hv).
    assert (Hhead : view cur r1 = match head_data cur with Some b => b | None => bdata0 end).
    { apply head_view. intros e He. specialize (Hu e He). lia. }
    (* common continuation once the state after this update is known *)
    assert (Hcont : forall acc',
      sorted_desc (acc' ++ es) -> wf_data (acc' ++ es) -> upd_le (acc' ++ es) r1 ->
      view (acc' ++ es) r1 = tgt a ->
      (exists pre, acc' = pre ++ acc /\ (forall e, In e pre -> fst e = r1)) ->
      (forall r, r_cur <= r -> r < r1 -> view (acc' ++ es) r = view cur r) ->
      process unit (head_data (acc' ++ es)) rest acc' = Some w ->
      exists new, w = new ++ acc /\ sorted_desc (w ++ es) /\ wf_data (w ++ es) /\
        (forall e, In e new -> r_cur < fst e) /\
        (forall e, In e new -> exists a0 r, In (a0, r) ((a, r1) :: rest) /\ fst e = r) /\
        (forall r, r_cur <= r -> view (w ++ es) r = tgt (acct_of ((a, r1) :: rest) a_cur r))).
    { intros acc' Hs' Hwf' Hu' Hv' (pre & -> & Hpre) Hold H'.
      destruct (IH _ a r1 w Hs' Hwf' Hu' Hv' Hinc H') as (new & -> & Hs2 & Hwf2 & Hn1 & Hn2 & Hview).
      exists (new ++ pre). rewrite <- app_assoc. split; [reflexivity|]. split; [exact Hs2|]. split; [exact Hwf2|].
      split.
      { intros e He. apply in_app_or in He as [He|He]; [specialize (Hn1 e He); lia|rewrite (Hpre e He); exact Hlt]. }
      split.
      { intros e He. apply in_app_or in He as [He|He].
        - destruct (Hn2 e He) as (a0 & r & Hin & E). exists a0, r. split; [right; exact Hin|exact E].
        - exists a, r1. split; [left; reflexivity|exact (Hpre e He)]. }
      intros r Hr. cbn [acct_of]. destruct (N.leb_spec r1 r) as [Hle|Hgt].
      - apply Hview. exact Hle.
      - (* before this update: nothing new is visible *)
        rewrite <- (app_assoc new (pre ++ acc) es). rewrite (view_app_new new).
        + rewrite (Hold r Hr Hgt). rewrite (view_beyond cur r_cur r Hu Hr). exact Hv.
        + intros e He. specialize (Hn1 e He). lia. }
    (* inserting a row at r1 on top of cur *)
    assert (Hins : forall b, (voting_empty b = true -> b = bdata0) ->
      sorted_desc (((r1, b) :: acc) ++ es) /\ wf_data (((r1, b) :: acc) ++ es) /\
      upd_le (((r1, b) :: acc) ++ es) r1 /\ view (((r1, b) :: acc) ++ es) r1 = b /\
      (forall r, r_cur <= r -> r < r1 -> view (((r1, b) :: acc) ++ es) r = view cur r)).
    { intros b Hb. cbn [app]. fold cur. repeat split.
      - intros f Hf. specialize (Hu f Hf). cbn. lia.
      - exact Hs.
      - intros e [<-|He] Hve; [exact (Hb Hve)|exact (Hwf e He Hve)].
      - intros e [<-|He]; [cbn; lia|specialize (Hu e He); lia].
      - apply view_cons_le. cbn. lia.
      - intros r _ Hr. apply view_cons_gt. exact Hr. }
    assert (Hskip : upd_le cur r1) by (intros e He; specialize (Hu e He); lia).
    destruct (is_online a) eqn:Eon; cbn [andb negb] in H.
    + destruct (voting_empty (bdata_of a)) eqn:Eve; [discriminate|].
      assert (Hnb : voting_empty (bdata_of a) = true -> bdata_of a = bdata0) by (rewrite Eve; discriminate).
      assert (Htgt : tgt a = bdata_of a) by (unfold tgt; rewrite Eon; reflexivity).
      destruct (head_data cur) as [pd|] eqn:Ehd.
      * destruct (bdata_eqb pd (bdata_of a)) eqn:Eeq.
        -- apply bdata_eqb_eq in Eeq. subst pd.
           apply (Hcont acc Hs Hwf Hskip).
           ++ fold cur. rewrite Hhead. rewrite Htgt. reflexivity.
           ++ exists []. split; [reflexivity|intros ? []].
           ++ intros; reflexivity.
           ++ fold cur. rewrite Ehd. exact H.
        -- destruct (norm_balance unit _ _); [|discriminate].
           destruct (Hins _ Hnb) as (Hs' & Hwf' & Hu' & Hv' & Hold).
           apply (Hcont ((r1, bdata_of a) :: acc) Hs' Hwf' Hu').
           ++ rewrite Htgt. exact Hv'.
           ++ exists [(r1, bdata_of a)]. split; [reflexivity|]. intros e [<-|[]]; reflexivity.
           ++ exact Hold.
           ++ exact H.
      * destruct (norm_balance unit _ _); [|discriminate].
        destruct (Hins _ Hnb) as (Hs' & Hwf' & Hu' & Hv' & Hold).
        apply (Hcont ((r1, bdata_of a) :: acc) Hs' Hwf' Hu').
        -- rewrite Htgt. exact Hv'.
        -- exists [(r1, bdata_of a)]. split; [reflexivity|]. intros e [<-|[]]; reflexivity.
        -- exact Hold.
        -- exact H.
    + assert (Htgt : tgt a = bdata0) by (unfold tgt; rewrite Eon; reflexivity).
      destruct (head_data cur) as [pd|] eqn:Ehd.
      * destruct (voting_empty pd) eqn:Eve.
        -- assert (Hpd : pd = bdata0).
           { destruct (head_data_in _ _ Ehd) as (e0 & Hin0 & E0). rewrite <- E0. apply (Hwf e0 Hin0).
             rewrite E0. exact Eve. }
           rewrite Hpd in *. clear Hpd. apply (Hcont acc Hs Hwf Hskip).
           ++ fold cur. rewrite Hhead, Htgt. reflexivity.
           ++ exists []. split; [reflexivity|intros ? []].
           ++ intros; reflexivity.
           ++ fold cur. rewrite Ehd. exact H.
        -- destruct (Hins bdata0 (fun _ => eq_refl)) as (Hs' & Hwf' & Hu' & Hv' & Hold).
           apply (Hcont ((r1, bdata0) :: acc) Hs' Hwf' Hu').
           ++ rewrite Htgt. exact Hv'.
           ++ exists [(r1, bdata0)]. split; [reflexivity|]. intros e [<-|[]]; reflexivity.
           ++ exact Hold.
           ++ exact H.
      * apply (Hcont acc Hs Hwf Hskip).
        -- fold cur. rewrite Hhead, Htgt. reflexivity.
        -- exists []. split; [reflexivity|intros ? []].
        -- intros; reflexivity.
        -- fold cur. rewrite Ehd. exact H.
Qed.

(* ---------- the cache: pruning only drops the oldest entries; reads are views ---------- *)
Lemma prune_old_first_suffix target : forall (es : list entry),
  exists dropped, es = dropped ++ prune_old_first target es.
Proof.
  induction es as [|e es IH]; [exists []; reflexivity|].
  destruct es as [|n es']; [exists []; reflexivity|].
  cbn [prune_old_first]. destruct (fst n <? target).
  - destruct IH as (dr & E). exists (e :: dr). cbn [app]. f_equal. exact E.
  - exists []. reflexivity.
Qed.

Lemma prune_addr_prefix target (es : list entry) :
  prune_addr target es = [] \/ exists dropped, es = prune_addr target es ++ dropped.
Proof.
  unfold prune_addr. destruct (prune_old_first_suffix target (rev es)) as (dr & E).
  assert (E' : es = rev (prune_old_first target (rev es)) ++ rev dr).
  { rewrite <- rev_app_distr, <- E, rev_involutive. reflexivity. }
  destruct (rev (prune_old_first target (rev es))) as [|e [|f r]] eqn:Ek.
  - left; reflexivity.
  - destruct (voting_empty (snd e)); [left; reflexivity|]. right. exists (rev dr). exact E'.
  - right. exists (rev dr). exact E'.
Qed.

Lemma latest_le_in r (es : list entry) e : latest_le r es = Some e -> In e es /\ fst e <= r.
Proof.
  induction es as [|f es IH]; [discriminate|]. cbn [latest_le].
  destruct (N.leb_spec (fst f) r).
  - intros [= <-]. split; [left; reflexivity|assumption].
  - intros H'. destruct (IH H'). split; [right|]; assumption.
Qed.

Lemma cache_read_view k r c e : cache_read k r c = Some e ->
  tget k c <> [] /\ oldest_upd (tget k c) <= r /\ snd e = view (tget k c) r.
Proof.
  unfold cache_read. destruct (rev (tget k c)) as [|o ro] eqn:Er; [discriminate|].
  destruct (N.ltb_spec r (fst o)) as [|Hge]; [discriminate|]. intros H.
  assert (Hne : tget k c <> []).
  { intros E. rewrite E in Er. discriminate. }
  split; [exact Hne|]. split.
  - unfold oldest_upd.
    assert (El : last (tget k c) (0, bdata0) = o).
    { rewrite <- (rev_involutive (tget k c)), Er. cbn [rev]. apply last_last. }
    rewrite El. exact Hge.
  - unfold view. rewrite H. reflexivity.
Qed.

Lemma cache_read_none_or k r c : cache_read k r c = None ->
  tget k c = [] \/ r < oldest_upd (tget k c) \/ latest_le r (tget k c) = None.
Proof.
  unfold cache_read. destruct (rev (tget k c)) as [|o ro] eqn:Er.
  - intros _. left. rewrite <- (rev_involutive (tget k c)), Er. reflexivity.
  - destruct (N.ltb_spec r (fst o)) as [Hlt|Hge].
    + intros _. right; left. unfold oldest_upd.
      assert (El : last (tget k c) (0, bdata0) = o).
      { rewrite <- (rev_involutive (tget k c)), Er. cbn [rev]. apply last_last. }
      rewrite El. exact Hlt.
    + intros H. right; right. exact H.
Qed.
