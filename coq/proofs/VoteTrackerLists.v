(* C06: generic facts about association lists, sums, dedup, insertion sort, and the
   per-sender status of the specification (model/VoteTrackerSpec.v). *)
From Coq Require Import NArith List Bool String Lia ZifyN ZifyNat ZifyBool Permutation.
From Verif.model Require Import VoteTracker VoteTrackerSpec.
Import ListNotations.
Open Scope N_scope.

(* ---------- association lists ---------- *)
Section Assoc.
Context {A : Type}.
Implicit Types (l : list (N * A)) (k : N).

Lemma alookup_adelete_eq k l : alookup k (adelete k l) = None.
Proof.
  induction l as [|[k' v] t IH]; cbn [adelete filter alookup fst]; [reflexivity|].
  destruct (k' =? k) eqn:E; cbn [negb]; [exact IH|].
  cbn [alookup]. rewrite N.eqb_sym, E. exact IH.
Qed.

Lemma alookup_adelete_ne k k' l : k <> k' -> alookup k (adelete k' l) = alookup k l.
Proof.
  intros Hne. induction l as [|[k2 v] t IH]; cbn [adelete filter alookup fst]; [reflexivity|].
  destruct (k2 =? k') eqn:E; cbn [negb alookup].
  - apply N.eqb_eq in E. subst k2. destruct (k =? k') eqn:E2; [apply N.eqb_eq in E2; contradiction|]. exact IH.
  - destruct (k =? k2); [reflexivity|exact IH].
Qed.

Lemma alookup_ainsert k k' (v : A) l :
  alookup k (ainsert k' v l) = if k =? k' then Some v else alookup k l.
Proof.
  unfold ainsert. cbn [alookup]. destruct (k =? k') eqn:E; [reflexivity|].
  apply alookup_adelete_ne. intro H; subst; rewrite N.eqb_refl in E; discriminate.
Qed.

Lemma in_keys_adelete k k' l : In k (keys (adelete k' l)) <-> In k (keys l) /\ k <> k'.
Proof.
  unfold keys, adelete. induction l as [|[k2 v] t IH]; cbn [filter map In fst].
  - tauto.
  - destruct (k2 =? k') eqn:E; cbn [negb map In fst].
    + apply N.eqb_eq in E. subst k2. rewrite IH. split; [tauto|]. intros [[H|H] Hn]; [congruence|tauto].
    + apply N.eqb_neq in E. rewrite IH. split.
      * intros [H|[H Hn]]; [subst; tauto|tauto].
      * intros [[H|H] Hn]; tauto.
Qed.

Lemma nodup_keys_adelete k l : NoDup (keys l) -> NoDup (keys (adelete k l)).
Proof.
  unfold keys, adelete. induction l as [|[k2 v] t IH]; cbn [filter map fst]; intros H; [constructor|].
  inversion H as [|? ? Hn Ht]; subst.
  destruct (k2 =? k); cbn [negb map fst]; [auto|].
  constructor; [|auto]. intro Hin. apply Hn.
  pose proof (proj1 (in_keys_adelete k2 k t)) as P. unfold keys, adelete in P. apply P in Hin. tauto.
Qed.

Lemma nodup_keys_ainsert k (v : A) l : NoDup (keys l) -> NoDup (keys (ainsert k v l)).
Proof.
  intros H. unfold ainsert, keys. cbn [map fst]. constructor.
  - intro Hin. apply (in_keys_adelete k k l) in Hin. tauto.
  - apply nodup_keys_adelete; exact H.
Qed.

Lemma alookup_none_iff k l : alookup k l = None <-> ~ In k (keys l).
Proof.
  unfold keys. induction l as [|[k2 v] t IH]; cbn [alookup map In fst]; [tauto|].
  destruct (k =? k2) eqn:E.
  - apply N.eqb_eq in E. subst. split; [discriminate|tauto].
  - apply N.eqb_neq in E. rewrite IH. split; [intros H [H1|H1]; [congruence|tauto]|tauto].
Qed.

Lemma alookup_some_in k (v : A) l : alookup k l = Some v -> In (k, v) l.
Proof.
  induction l as [|[k2 v2] t IH]; cbn [alookup In]; [discriminate|].
  destruct (k =? k2) eqn:E.
  - apply N.eqb_eq in E. intros H; inversion H; subst; auto.
  - auto.
Qed.

Lemma in_alookup_nodup k (v : A) l : NoDup (keys l) -> In (k, v) l -> alookup k l = Some v.
Proof.
  unfold keys. induction l as [|[k2 v2] t IH]; cbn [alookup In map fst]; [tauto|].
  intros Hnd [H|H].
  - inversion H; subst. rewrite N.eqb_refl. reflexivity.
  - inversion Hnd as [|? ? Hn Ht]; subst. destruct (k =? k2) eqn:E.
    + apply N.eqb_eq in E. subst. exfalso. apply Hn. apply (in_map fst) in H. exact H.
    + auto.
Qed.

Lemma in_keys_ex k l : In k (keys l) -> exists v, In (k, v) l.
Proof.
  unfold keys. intros H. apply in_map_iff in H. destruct H as [[k2 v] [E H]]. cbn in E; subst. eauto.
Qed.

Lemma isnil_false_of_lookup k (v : A) l : alookup k l = Some v -> isnil l = false.
Proof. destruct l; [discriminate|reflexivity]. Qed.

Lemma nodup_map_fst_filter (f : N * A -> bool) l : NoDup (keys l) -> NoDup (map fst (filter f l)).
Proof.
  unfold keys. induction l as [|e t IH]; cbn [filter map]; intros H; [constructor|].
  inversion H as [|? ? Hn Ht]; subst. destruct (f e); cbn [map]; [|auto].
  constructor; [|auto]. intro Hin. apply Hn. apply in_map_iff in Hin. destruct Hin as [e' [E Hin]].
  apply filter_In in Hin. rewrite <- E. apply in_map. tauto.
Qed.
End Assoc.

(* ---------- sums ---------- *)
Lemma sumN_app a b : sumN (a ++ b) = sumN a + sumN b.
Proof. unfold sumN. induction a as [|x a IH]; cbn [app fold_right]; [reflexivity|]. rewrite IH. lia. Qed.

Lemma sumN_map_ext_in (f g : N -> N) S : (forall s, In s S -> f s = g s) -> sumN (map f S) = sumN (map g S).
Proof. intros H. f_equal. apply map_ext_in. exact H. Qed.

Lemma sumN_map_le (f g : N -> N) S : (forall s, In s S -> f s <= g s) -> sumN (map f S) <= sumN (map g S).
Proof.
  unfold sumN. induction S as [|a S IH]; cbn [map fold_right]; intros H; [lia|].
  pose proof (H a (or_introl eq_refl)). assert (forall s, In s S -> f s <= g s) by (intros; apply H; right; auto).
  specialize (IH H1). lia.
Qed.

Lemma sumN_map_add (f g : N -> N) S : sumN (map (fun s => f s + g s) S) = sumN (map f S) + sumN (map g S).
Proof. unfold sumN. induction S as [|a S IH]; cbn [map fold_right]; [reflexivity|]. rewrite IH. lia. Qed.

Lemma sumN_map_zero (f : N -> N) S : sumN (map f S) = 0 <-> (forall s, In s S -> f s = 0).
Proof.
  unfold sumN. induction S as [|a S IH]; cbn [map fold_right In]; [tauto|].
  split.
  - intros H s [E|Hin]; [subst; lia|]. apply IH; [lia|exact Hin].
  - intros H. pose proof (H a (or_introl eq_refl)). assert (fold_right N.add 0 (map f S) = 0) by (apply IH; intros; apply H; auto). lia.
Qed.

Lemma sumN_in_le (f : N -> N) S s : In s S -> f s <= sumN (map f S).
Proof.
  unfold sumN. induction S as [|a S IH]; cbn [map fold_right In]; [tauto|].
  intros [E|H]; [subst; lia|]. specialize (IH H). lia.
Qed.

(* changing the summand at one point of a duplicate-free index list *)
Lemma sumN_map_update (f g : N -> N) S s :
  NoDup S -> In s S -> (forall s', s' <> s -> In s' S -> f s' = g s') ->
  sumN (map g S) + f s = sumN (map f S) + g s.
Proof.
  unfold sumN. induction S as [|a S IH]; cbn [map fold_right In]; [tauto|].
  intros Hnd Hin Hext. inversion Hnd as [|? ? Hn Ht]; subst.
  destruct (N.eq_dec a s) as [E|E].
  - subst a. assert (fold_right N.add 0 (map g S) = fold_right N.add 0 (map f S)) as ->; [|lia].
    f_equal. apply map_ext_in. intros s' Hs'. symmetry. apply Hext; [intro; subst; contradiction|auto].
  - destruct Hin as [Hin|Hin]; [contradiction|].
    rewrite <- (Hext a); [|exact E|auto].
    assert (fold_right N.add 0 (map g S) + f s = fold_right N.add 0 (map f S) + g s); [|lia].
    apply IH; auto.
Qed.

(* a sum over an association list as a sum over a universe of keys *)
Lemma sumN_assoc_universe {A} (w : A -> N) (l : list (N * A)) S :
  NoDup (keys l) -> NoDup S -> (forall k, In k (keys l) -> In k S) ->
  sumN (map (fun e => w (snd e)) l) =
  sumN (map (fun s => match alookup s l with Some v => w v | None => 0 end) S).
Proof.
  unfold keys. induction l as [|[k v] t IH]; cbn [map fst snd]; intros Hnd HS Hsub.
  - cbn [alookup]. symmetry. apply sumN_map_zero. reflexivity.
  - inversion Hnd as [|? ? Hn Ht]; subst.
    assert (Hk : In k S) by (apply Hsub; left; reflexivity).
    pose proof (sumN_map_update
      (fun s => match alookup s t with Some v => w v | None => 0 end)
      (fun s => match alookup s ((k, v) :: t) with Some v => w v | None => 0 end) S k HS Hk) as U.
    cbn beta in U. rewrite (proj2 (alookup_none_iff k t) Hn) in U.
    cbn [alookup] in U. rewrite N.eqb_refl in U.
    assert (Hext : forall s', s' <> k -> In s' S ->
       match alookup s' t with Some v => w v | None => 0 end =
       match (if s' =? k then Some v else alookup s' t) with Some v => w v | None => 0 end).
    { intros s' Hne _. destruct (s' =? k) eqn:E; [apply N.eqb_eq in E; contradiction|reflexivity]. }
    specialize (U Hext). rewrite <- (IH Ht HS) in U; [|intros; apply Hsub; right; auto].
    change (sumN (w v :: map (fun e => w (snd e)) t)) with (w v + sumN (map (fun e => w (snd e)) t)).
    cbn [alookup]. lia.
Qed.

Lemma nodup_snoc {A} (l : list A) x : NoDup l -> ~ In x l -> NoDup (l ++ [x]).
Proof.
  induction l as [|y l IH]; cbn [app]; intros Hl Hx; [constructor; [tauto|constructor]|].
  inversion Hl as [|? ? Hn Ht]; subst. constructor.
  - rewrite in_app_iff. cbn [In]. intros [H|[H|[]]]; [contradiction|]. subst. apply Hx. left; reflexivity.
  - apply IH; auto. intro H. apply Hx. right; exact H.
Qed.

(* ---------- memN / dedup / nodupb ---------- *)
Lemma memN_iff k l : memN k l = true <-> In k l.
Proof.
  unfold memN. rewrite existsb_exists. split.
  - intros [x [H E]]. apply N.eqb_eq in E. subst. exact H.
  - intros H. exists k. split; [exact H|apply N.eqb_refl].
Qed.

Lemma memN_false_iff k l : memN k l = false <-> ~ In k l.
Proof.
  rewrite <- memN_iff. destruct (memN k l); split; intros H.
  - discriminate.
  - exfalso; apply H; reflexivity.
  - intro; discriminate.
  - reflexivity.
Qed.

Lemma dedup_snoc l k : dedup (l ++ [k]) = if memN k (dedup l) then dedup l else dedup l ++ [k].
Proof. unfold dedup. rewrite fold_left_app. reflexivity. Qed.

Lemma dedup_in l k : In k (dedup l) <-> In k l.
Proof.
  induction l as [|a l IH] using rev_ind; [unfold dedup; cbn; tauto|].
  rewrite dedup_snoc, in_app_iff. cbn [In]. destruct (memN a (dedup l)) eqn:E.
  - apply memN_iff in E. rewrite IH in *. split; [tauto|]. intros [H|[H|[]]]; [tauto|subst; tauto].
  - rewrite in_app_iff, IH. cbn [In]. tauto.
Qed.

Lemma dedup_nodup l : NoDup (dedup l).
Proof.
  induction l as [|a l IH] using rev_ind; [unfold dedup; cbn; constructor|].
  rewrite dedup_snoc. destruct (memN a (dedup l)) eqn:E; [exact IH|].
  apply memN_false_iff in E. apply nodup_snoc; auto.
Qed.

Lemma nodupb_iff l : nodupb l = true <-> NoDup l.
Proof.
  induction l as [|a l IH]; cbn [nodupb]; [split; [constructor|reflexivity]|].
  rewrite andb_true_iff, negb_true_iff, memN_false_iff, IH. split.
  - intros [H1 H2]; constructor; auto.
  - intros H; inversion H; auto.
Qed.

(* ---------- NoDup helpers ---------- *)
Lemma nodup_same_members_perm (l1 l2 : list N) :
  NoDup l1 -> NoDup l2 -> (forall x, In x l1 <-> In x l2) -> Permutation l1 l2.
Proof. intros. apply NoDup_Permutation; auto. Qed.

Lemma nodup_app_elim {A} (a b : list A) :
  NoDup (a ++ b) -> NoDup a /\ NoDup b /\ (forall x, In x a -> ~ In x b).
Proof.
  induction a as [|x a IH]; cbn [app]; intros H.
  - split; [constructor|]. split; [exact H|]. intros x [].
  - inversion H as [|? ? Hn Ht]; subst. destruct (IH Ht) as [Ha [Hb Hd]].
    rewrite in_app_iff in Hn. split; [constructor; tauto|]. split; [exact Hb|].
    intros y [E|Hy]; [subst; tauto|auto].
Qed.

Lemma nodup_firstn {A} n (l : list A) : NoDup l -> NoDup (firstn n l).
Proof.
  intros H. rewrite <- (firstn_skipn n l) in H. apply nodup_app_elim in H. tauto.
Qed.

Lemma in_firstn {A} n (l : list A) x : In x (firstn n l) -> In x l.
Proof. intros H. rewrite <- (firstn_skipn n l). apply in_or_app. left; exact H. Qed.

Lemma nodup_app_intro {A} (a b : list A) :
  NoDup a -> NoDup b -> (forall x, In x a -> ~ In x b) -> NoDup (a ++ b).
Proof.
  induction a as [|x a IH]; cbn [app]; intros Ha Hb Hd; [exact Hb|].
  inversion Ha as [|? ? Hn Ht]; subst. constructor.
  - rewrite in_app_iff. intros [H|H]; [contradiction|]. apply (Hd x); [left; reflexivity|exact H].
  - apply IH; auto. intros y Hy. apply Hd. right; exact Hy.
Qed.
