(* Agreement proofs -- soundness of the executable oracle spec_ok_c03 (model/AgreementCheck.v:
   [ensure_ok]) with respect to the Prop-level statement of C03: whenever an observed ensureAction
   (rendered on the wire) satisfies the property w.r.t. the delivered votes, [ensure_ok] answers true;
   hence a [false] answer means the property is violated on that observation. *)
From Coq Require Import NArith ZArith List Bool Lia ZifyN ZifyNat ZifyBool String.
Import ListNotations.
From Verif.lib Require Import Term.
From Verif.model Require Import AgreementTypes AgreementVotes AgreementProposals AgreementPlayer AgreementRender AgreementCheck.
From Verif.proofs Require Import AgreementLemmas AgreementVoteProofs.
Open Scope N_scope.

Lemma as_N_tn : forall n, as_N (tn n) = Some n.
Proof.
  intro n. unfold as_N, tn. destruct (Z.of_N n <? 0)%Z eqn:E.
  - apply Z.ltb_lt in E. lia.
  - rewrite N2Z.id. reflexivity.
Qed.
Opaque as_N tn.
Lemma p_value_r_value : forall v, p_value (r_value v) = Some v.
Proof. intros [a b c d]. unfold p_value, r_value; simpl. rewrite !as_N_tn. reflexivity. Qed.

Lemma map_opt_tn : forall (A : Type) (f : A -> N) l, map_opt as_N (map (fun x => tn (f x)) l) = Some (map f l).
Proof. induction l as [|x t IH]; simpl; auto. rewrite as_N_tn, IH. reflexivity. Qed.

Lemma nodup_n_true : forall l, NoDup l -> nodup_n l = true.
Proof.
  induction l as [|x t IH]; simpl; intro H; auto. inversion H; subst. rewrite IH; auto.
  rewrite andb_true_r. apply negb_true_iff. destruct (existsb (N.eqb x) t) eqn:E; auto.
  apply existsb_exists in E. destruct E as [y [Hy E]]. apply N.eqb_eq in E; subst. contradiction.
Qed.

Lemma find_exists : forall (A : Type) (P : A -> bool) l y, In y l -> P y = true -> exists z, find P l = Some z /\ In z l /\ P z = true.
Proof.
  induction l as [|x t IH]; simpl; intros y H HP; [contradiction|].
  destruct (P x) eqn:E; [exists x; auto|].
  destruct H as [H|H]; [subst; congruence|]. destruct (IH y H HP) as (z & A1 & B1 & C1). exists z; auto.
Qed.

Definition cred_consistent (dv : list vote) : Prop :=
  forall x y, In x dv -> In y dv -> vt_snd x = vt_snd y -> key_of x = key_of y -> vt_w x = vt_w y.

Lemma find_vote_weight : forall dv x v,
  cred_consistent dv -> In x dv -> vt_val x = v ->
  exists y, find_vote dv (vt_snd x) (vt_rnd x) (vt_per x) (vt_step x) v = Some y /\ vt_w y = vt_w x.
Proof.
  intros dv x v CC XI XV. unfold find_vote.
  destruct (find_exists _ (fun x0 => (vt_snd x0 =? vt_snd x) && (vt_rnd x0 =? vt_rnd x) && (vt_per x0 =? vt_per x) &&
                                     (vt_step x0 =? vt_step x) && value_eqb (vt_val x0) v) dv x XI) as (z & F & ZI & PZ).
  { rewrite !N.eqb_refl. simpl. apply value_eqb_eq; auto. }
  exists z; split; auto.
  repeat (apply andb_true_iff in PZ; destruct PZ as [PZ ?]).
  apply N.eqb_eq in PZ, H2, H1, H0. apply CC; auto. unfold key_of; congruence.
Qed.

Lemma opt_sum_somes : forall l, opt_sum (map Some l) = Some (sumN l).
Proof. induction l as [|x t IH]; simpl; auto. unfold opt_sum in *. simpl. rewrite IH. reflexivity. Qed.

Lemma existsb_somes : forall (A B : Type) (f : A -> B) l,
  existsb (fun o : option B => match o with None => true | Some _ => false end) (map (fun e => Some (f e)) l) = false.
Proof. induction l; simpl; auto. Qed.
Lemma flat_map_somes : forall (A B : Type) (f : A -> B) l,
  flat_map (fun o : option B => match o with Some x => [x] | None => [] end) (map (fun e => Some (f e)) l) = map f l.
Proof. induction l; simpl; auto. f_equal; auto. Qed.
Lemma sumN_app : forall a b, sumN (a ++ b) = sumN a + sumN b.
Proof. induction a; simpl; intros; auto. rewrite IHa. lia. Qed.

Theorem spec_ok_c03_sound_proof : forall pm dv premise pl c,
  cred_consistent dv ->
  good_bundle pm dv c -> ub_step c = s_cert -> ub_val c = pl -> ub_rnd c = v_rnd pl ->
  ensure_ok pm dv premise (r_action (AEnsure pl c)) = true.
Proof.
  intros pm dv premise pl c CC [GV GE GN GW] ES EV ER.
  unfold ensure_ok, r_action, r_bundle.
  rewrite !p_value_r_value, !as_N_tn.
  rewrite (map_opt_tn _ vt_snd).
  set (eqp := map (fun e => match e with TL [sn; v0; v1] => _ | _ => None end) _).
  assert (EQP : eqp = map (fun e => Some (eq_snd e, eq_v0 e, eq_v1 e)) (ub_eqs c)).
  { unfold eqp. rewrite map_map. apply map_ext. intro e. rewrite as_N_tn, !p_value_r_value. reflexivity. }
  rewrite EQP.
  assert (EX : existsb (fun o : option (N * value * value) => match o with None => true | Some _ => false end)
                 (map (fun e => Some (eq_snd e, eq_v0 e, eq_v1 e)) (ub_eqs c)) = false).
  { apply (existsb_somes _ _ (fun e => (eq_snd e, eq_v0 e, eq_v1 e))). }
  rewrite EX.
  assert (FM : flat_map (fun o : option (N * value * value) => match o with Some x => [x] | None => [] end)
                 (map (fun e => Some (eq_snd e, eq_v0 e, eq_v1 e)) (ub_eqs c)) = map (fun e => (eq_snd e, eq_v0 e, eq_v1 e)) (ub_eqs c)).
  { apply (flat_map_somes _ _ (fun e => (eq_snd e, eq_v0 e, eq_v1 e))). }
  rewrite FM. rewrite ES, N.eqb_refl. rewrite ER, N.eqb_refl, orb_true_r. rewrite EV, value_eqb_refl. simpl.
  rewrite map_map. simpl. rewrite nodup_n_true; [|exact GN]. simpl.
  (* weights *)
  assert (W1 : map (fun sn => option_map vt_w (find_vote dv sn (v_rnd pl) (ub_per c) s_cert pl)) (map vt_snd (ub_votes c)) =
               map Some (map vt_w (ub_votes c))).
  { rewrite !map_map. apply map_ext_in. intros x Hx. destruct (GV x Hx) as (XD & K & V).
    unfold key_of, bkey_of in K. injection K as K1 K2 K3.
    assert (RX : vt_rnd x = v_rnd pl) by congruence. assert (TX : vt_step x = s_cert) by congruence.
    destruct (find_vote_weight dv x pl CC XD) as (y & F & WY); [congruence|].
    rewrite RX, K2, TX in F. rewrite F. simpl. congruence. }
  assert (W2 : map (fun x : N * value * value => let '(sn, v0, v1) := x in
                      if value_eqb v0 v1 then None
                      else match find_vote dv sn (v_rnd pl) (ub_per c) s_cert v0, find_vote dv sn (v_rnd pl) (ub_per c) s_cert v1 with
                           | Some a, Some _ => Some (vt_w a)
                           | _, _ => None
                           end) (map (fun e => (eq_snd e, eq_v0 e, eq_v1 e)) (ub_eqs c)) =
               map Some (map eq_w (ub_eqs c))).
  { rewrite !map_map. apply map_ext_in. intros e He. destruct (GE e He) as ((x & y & XD & YD & SX & SY & KX & KY & VX & VY & NE & WX) & K).
    apply value_eqb_neq in NE. rewrite NE.
    unfold ekey_of, bkey_of in K. unfold key_of, ekey_of in KX, KY.
    injection K as K1 K2 K3. injection KX as X1 X2 X3. injection KY as Y1 Y2 Y3.
    assert (RX : vt_rnd x = v_rnd pl) by congruence. assert (PX : vt_per x = ub_per c) by congruence.
    assert (TX : vt_step x = s_cert) by congruence.
    assert (RY : vt_rnd y = v_rnd pl) by congruence. assert (PY : vt_per y = ub_per c) by congruence.
    assert (TY : vt_step y = s_cert) by congruence.
    destruct (find_vote_weight dv x (eq_v0 e) CC XD VX) as (a & FA & WA).
    destruct (find_vote_weight dv y (eq_v1 e) CC YD VY) as (b & FB & WB).
    rewrite SX, RX, PX, TX in FA. rewrite SY, RY, PY, TY in FB.
    rewrite FA, FB. congruence. }
  rewrite W1, W2, <- map_app, opt_sum_somes.
  unfold bundle_weight in GW. unfold reaches in GW. rewrite ES in GW. simpl in GW.
  rewrite sumN_app. exact GW.
Qed.
