(* C16 proofs: what a catchpoint file ACCEPTED by the (repaired) accessor is bound to.

   [file_inv]: invariant of the accessor ([fixed] = true) over every section list -- every staged
   account row has its OWN data hashed (or is the account the stream is in the middle of), every
   pending hash is the account hash of a completed record, the hash of a staged resource row or of
   a staged KV row, addresses are staged once.
   [accepted_binds_state]: a file accepted under the label of the producer's file stages the same
   accounts and resources, the same totals, and the same boxes up to the key‖value ambiguity of
   C15 -- "except through a hash collision" being the explicit premises.
   For the accessor as it was ([fixed] = false) the statement is false: proofs/CatchpointFileRefute.v. *)
From Coq Require Import List NArith ZArith Bool Lia ZifyN ZifyNat ZifyBool.
From Verif.model Require Import MerkleTrie MerkleTrieSpec CatchpointHash CatchpointFile CatchpointFileCheck.
Import ListNotations.
Open Scope N_scope.

Lemma beqb_eq a b : beqb a b = true <-> a = b.
Proof.
  unfold beqb. revert b. induction a as [|x a IH]; destruct b as [|y b]; try (split; [discriminate | congruence]).
  - tauto.
  - rewrite andb_true_iff, N.eqb_eq, IH. split; [intros [-> ->]; reflexivity | intros E; inversion E; auto].
Qed.

Lemma beqb_refl a : beqb a a = true.
Proof. apply beqb_eq. reflexivity. Qed.

Lemma NoDup_app_snoc {A} (l : list A) x : NoDup l -> ~ In x l -> NoDup (l ++ [x]).
Proof.
  induction l as [|y l IH]; intros Hn Hx; cbn; [constructor; [intros [] | constructor]|].
  inversion Hn; subst. constructor.
  - rewrite in_app_iff. cbn. intros [X|[X|[]]]; [tauto | subst; apply Hx; left; reflexivity].
  - apply IH; [assumption | intros X; apply Hx; right; exact X].
Qed.

Lemma NoDup_map_fst_inj {A B} (l : list (A * B)) a b1 b2 :
  NoDup (map fst l) -> In (a, b1) l -> In (a, b2) l -> b1 = b2.
Proof.
  induction l as [|[x y] l IH]; cbn; intros Hn H1 H2; [destruct H1|].
  inversion Hn; subst.
  assert (Hx : forall b, In (x, b) l -> False).
  { intros b X. apply H3. apply in_map_iff. exists (x, b). auto. }
  destruct H1 as [E1|H1], H2 as [E2|H2].
  - congruence.
  - inversion E1; subst. exfalso. eapply Hx; eauto.
  - inversion E2; subst. exfalso. eapply Hx; eauto.
  - eapply IH; eauto.
Qed.

Section Bind.
  Variable H : bytes -> bytes.
  Variable tot_of : bytes -> counts.
  Variable flags_of : bytes -> bool * bool * bool * bool.
  Variable leafA : bytes -> bytes -> bytes.
  Variable leafR : bytes -> N -> bytes -> bytes.
  Variable leafK : bytes -> bytes -> bytes.

  Notation process_section := (process_section true tot_of flags_of leafA leafR leafK).
  Notation process_all := (process_all true tot_of flags_of leafA leafR leafK).
  Notation check_records := (check_records true tot_of flags_of).
  Notation record_hashes := (record_hashes leafA leafR).
  Notation restore := (restore true H tot_of flags_of leafA leafR leafK).

  Lemma has_key_in {A} k (l : list (bytes * A)) : has_key k l = true <-> exists v, In (k, v) l.
  Proof.
    unfold has_key. rewrite existsb_exists. split.
    - intros ([k' v] & Hin & E). apply beqb_eq in E. cbn in E. subst. eauto.
    - intros (v & Hin). exists (k, v). split; [exact Hin | apply beqb_refl].
  Qed.

  (* ---------- the staging writers only append ---------- *)
  Lemma write_res_in (ad : bytes) : forall rs res res',
    (fix go (rs : list (N * bytes)) (res : list (bytes * N * bytes)) :=
       match rs with
       | [] => Some res
       | (c, e) :: rs' => if has_res ad c res then None else go rs' (res ++ [(ad, c, e)])
       end) rs res = Some res' ->
    forall x, In x res' <-> In x res \/ exists c e, In (c, e) rs /\ x = (ad, c, e).
  Proof.
    induction rs as [|[c e] rs IH]; intros res res' E x.
    - inversion E. subst. split; [tauto | intros [X|(c & e & [] & _)]; exact X].
    - destruct (has_res ad c res); [discriminate|]. rewrite (IH _ _ E x), in_app_iff. cbn [In]. split.
      + intros [[X|[X|[]]]|(c' & e' & X & ->)]; [tauto | right; exists c, e; auto | right; exists c', e'; auto].
      + intros [X|(c' & e' & [X|X] & ->)]; [tauto | inversion X; tauto | right; exists c', e'; auto].
  Qed.

  (* ---------- one chunk of records ---------- *)
  Section Chunk.
    Variable Kx : bytes -> Prop.                (* "x is the leaf of a staged KV row" *)

    Definition P (expect : option (bytes * bytes)) (accts : list (bytes * bytes)) (res : list (bytes * N * bytes))
               (hs : list bytes) (done : list brec) : Prop :=
      NoDup (map fst accts) /\
      (forall ad e, In (ad, e) accts -> In (leafA ad e) hs \/ expect = Some (ad, e)) /\
      (forall x, In x hs -> (exists r, In r done /\ b_more r = false /\ x = leafA (b_addr r) (b_enc r)) \/
                            (exists ad c e, In (ad, c, e) res /\ x = leafR ad c e) \/ Kx x) /\
      (forall r, In r done -> exists e, In (b_addr r, e) accts) /\
      (forall ad c e, In (ad, c, e) res -> In (leafR ad c e) hs).

    Lemma chunk_inv : forall bals expect cnt accts res hs done expect' cnt' accts' res',
      check_records bals expect cnt = Some (expect', cnt') ->
      write_balances bals accts res = Some (accts', res') ->
      P expect accts res hs done ->
      P expect' accts' res' (hs ++ flat_map record_hashes bals) (done ++ bals).
    Proof.
      induction bals as [|r bals IH]; intros expect cnt accts res hs done expect' cnt' accts' res' Hc Hw HP.
      - cbn in Hc, Hw. inversion Hc; inversion Hw; subst. cbn. rewrite !app_nil_r. exact HP.
      - cbn [CatchpointFile.check_records] in Hc. cbn [write_balances] in Hw.
        match type of Hc with (if ?g then _ else _) = _ => destruct g eqn:Ee; [discriminate|] end.
        assert (Hexp : expect = None \/ expect = Some (b_addr r, b_enc r)).
        { destruct expect as [[a e]|]; [|auto]. right. cbn [andb] in Ee. apply orb_false_iff in Ee. destruct Ee as [E1 E2].
          apply negb_false_iff, beqb_eq in E1. apply negb_false_iff, beqb_eq in E2. congruence. }
        set (accts1 := if has_key (b_addr r) accts then accts else accts ++ [(b_addr r, b_enc r)]) in *.
        match type of Hw with match ?g with _ => _ end = _ => destruct g as [res1|] eqn:Eres; [|discriminate] end.
        pose proof (write_res_in (b_addr r) _ _ _ Eres) as Hres.
        set (cnt1 := fold_left (fun c e => count_res flags_of c (snd e)) (b_res r) cnt) in *.
        set (expect1 := if b_more r then Some (b_addr r, b_enc r) else None).
        assert (Hc1 : check_records bals expect1 (if b_more r then cnt1 else counts_zero) = Some (expect', cnt')).
        { unfold expect1. destruct (b_more r); [exact Hc|]. destruct (counts_eqb cnt1 (tot_of (b_enc r))); [exact Hc | discriminate]. }
        replace (done ++ r :: bals) with ((done ++ [r]) ++ bals) by (rewrite <- app_assoc; reflexivity).
        cbn [flat_map]. rewrite app_assoc.
        eapply IH; [exact Hc1 | exact Hw |].
        (* the invariant after this one record *)
        unfold P in HP. destruct HP as (P1 & P2 & P3 & P3b & P4).
        assert (Hsub : forall x, In x accts -> In x accts1).
        { intros x X. unfold accts1. destruct (has_key (b_addr r) accts); [exact X | apply in_app_iff; auto]. }
        assert (Hhas : exists e, In (b_addr r, e) accts1).
        { unfold accts1. destruct (has_key (b_addr r) accts) eqn:Ek; [apply has_key_in; exact Ek|].
          exists (b_enc r). apply in_app_iff. right. left. reflexivity. }
        assert (Hrh : forall x, In x (record_hashes r) <->
                      (b_more r = false /\ x = leafA (b_addr r) (b_enc r)) \/ exists c e, In (c, e) (b_res r) /\ x = leafR (b_addr r) c e).
        { intros x. unfold CatchpointFile.record_hashes. rewrite in_app_iff, in_map_iff. split.
          - intros [X|([c e] & <- & X)]; [|right; eauto]. destruct (b_more r); [destruct X|]. destruct X as [<-|[]]. auto.
          - intros [(E & ->)|(c & e & X & ->)]; [left; rewrite E; left; reflexivity | right; exists (c, e); auto]. }
        unfold P. split; [|split; [|split; [|split]]].
        + unfold accts1. destruct (has_key (b_addr r) accts) eqn:Ek; [exact P1|].
          rewrite map_app. cbn. apply NoDup_app_snoc; [exact P1|]. intros X. apply in_map_iff in X.
          destruct X as ([a' e'] & E & X). cbn in E. subst a'.
          assert (Y : has_key (b_addr r) accts = true) by (apply has_key_in; eauto). congruence.
        + intros ad e X.
          assert (Hnew : (ad, e) = (b_addr r, b_enc r) -> In (leafA ad e) (hs ++ record_hashes r) \/ expect1 = Some (ad, e)).
          { intros E. inversion E; subst. unfold expect1. destruct (b_more r) eqn:Em; [right; reflexivity|].
            left. rewrite in_app_iff. right. apply Hrh. auto. }
          unfold accts1 in X. destruct (has_key (b_addr r) accts).
          * destruct (P2 _ _ X) as [Y|Y]; [left; rewrite in_app_iff; auto|].
            destruct Hexp as [E|E]; rewrite E in Y; [discriminate|]. apply Hnew. inversion Y. reflexivity.
          * apply in_app_iff in X. destruct X as [X|[X|[]]]; [|apply Hnew; congruence].
            destruct (P2 _ _ X) as [Y|Y]; [left; rewrite in_app_iff; auto|].
            destruct Hexp as [E|E]; rewrite E in Y; [discriminate|]. apply Hnew. inversion Y. reflexivity.
        + intros x X. rewrite in_app_iff in X. destruct X as [X|X].
          * destruct (P3 x X) as [(r0 & D & M & ->)|[(ad & c & e & A & ->)|K]].
            -- left. exists r0. rewrite in_app_iff. auto.
            -- right. left. exists ad, c, e. split; [apply Hres; auto | reflexivity].
            -- right. right. exact K.
          * apply Hrh in X. destruct X as [(M & ->)|(c & e & X & ->)].
            -- left. exists r. rewrite in_app_iff. cbn. auto.
            -- right. left. exists (b_addr r), c, e. split; [apply Hres; right; eauto | reflexivity].
        + intros r0 X. apply in_app_iff in X. destruct X as [X|[<-|[]]]; [|exact Hhas].
          destruct (P3b r0 X) as (e & Y). exists e. apply Hsub. exact Y.
        + intros ad c e X. apply Hres in X. rewrite in_app_iff. destruct X as [X|(c' & e' & X & E)].
          * left. apply P4. exact X.
          * inversion E; subst. right. apply Hrh. right. eauto.
    Qed.
  End Chunk.

  Lemma write_kvs_in : forall kvs st st', write_kvs kvs st = Some st' ->
    forall x, In x st' <-> In x st \/ In x kvs.
  Proof.
    induction kvs as [|[k v] kvs IH]; intros st st' E x; cbn in E.
    - inversion E. subst. cbn. tauto.
    - destruct (has_key k st); [discriminate|]. rewrite (IH _ _ E x), in_app_iff. cbn. tauto.
  Qed.

  (* ---------- the whole file ---------- *)
  Definition Kof (kvs : list (bytes * bytes)) (x : bytes) : Prop := exists k v, In (k, v) kvs /\ x = leafK k v.

  Definition Inv (a : astate) (done : list brec) : Prop :=
    P (Kof (a_kvs a)) (a_expect a) (a_accts a) (a_res a) (a_hashes a) done /\
    (forall k v, In (k, v) (a_kvs a) -> In (leafK k v) (a_hashes a)).

  Lemma P_weaken (K1 K2 : bytes -> Prop) expect accts res hs done :
    (forall x, K1 x -> K2 x) -> P K1 expect accts res hs done -> P K2 expect accts res hs done.
  Proof.
    intros HK HP. unfold P in *. destruct HP as (P1 & P2 & P3 & P3b & P4).
    split; [exact P1|]. split; [exact P2|]. split; [|split; [exact P3b | exact P4]].
    intros x X. destruct (P3 x X) as [A|[B|C]]; auto.
  Qed.

  Lemma section_inv s a a' done :
    process_section s a = Some a' -> Inv a done -> Inv a' (done ++ all_recs [s]).
  Proof.
    intros E HI. destruct s as [ver br kr tot|d n|bals kvs oa orp| |]; cbn [CatchpointFile.process_section] in E.
    - destruct (a_seen a); [discriminate|]. destruct ((128 <=? ver) && (ver <=? 131)); [|discriminate].
      inversion E; subst. cbn. rewrite app_nil_r. exact HI.
    - inversion E; subst. cbn. rewrite app_nil_r. exact HI.
    - destruct (negb (a_seen a)); [discriminate|]. destruct (a_version a =? 128); [discriminate|].
      assert (E' : match check_records bals (a_expect a) (a_cnt a) with
                   | None => None
                   | Some (expect', cnt') =>
                       match write_balances bals (a_accts a) (a_res a), write_kvs kvs (a_kvs a),
                             write_rows oa (a_oa a), write_rows orp (a_orp a) with
                       | Some (accts', res'), Some kvs', Some oa', Some orp' =>
                           Some (mkA true (a_version a) (a_blkround a) (a_totals a) expect' cnt' accts' res' kvs'
                                     oa' orp' (a_sp a)
                                     (a_hashes a ++ flat_map record_hashes bals ++ map (fun e => leafK (fst e) (snd e)) kvs))
                       | _, _, _, _ => None
                       end
                   end = Some a').
      { destruct bals, kvs, oa, orp; try exact E; discriminate. }
      clear E. destruct (check_records bals (a_expect a) (a_cnt a)) as [[expect' cnt']|] eqn:Ec; [|discriminate].
      destruct (write_balances bals (a_accts a) (a_res a)) as [[accts' res']|] eqn:Ew; [|discriminate].
      destruct (write_kvs kvs (a_kvs a)) as [kvs'|] eqn:Ek; [|discriminate].
      destruct (write_rows oa (a_oa a)) as [oa'|]; [|discriminate].
      destruct (write_rows orp (a_orp a)) as [orp'|]; [|discriminate].
      inversion E'; subst a'. clear E'. destruct HI as [HP HK].
      pose proof (write_kvs_in _ _ _ Ek) as Hkv.
      assert (HKw : forall x, Kof (a_kvs a) x -> Kof kvs' x).
      { intros x (k & v & A & B). exists k, v. split; [apply Hkv; auto | exact B]. }
      pose proof (chunk_inv (Kof kvs') bals _ _ _ _ _ done _ _ _ _ Ec Ew
                    (P_weaken (Kof (a_kvs a)) (Kof kvs') _ _ _ _ _ HKw HP)) as Q.
      unfold P in Q. destruct Q as (Q1 & Q2 & Q3 & Q3b & Q4).
      unfold Inv. cbn [a_kvs a_expect a_accts a_res a_hashes all_recs]. rewrite app_nil_r. split.
      + unfold P. split; [exact Q1|]. split; [|split; [|split; [exact Q3b|]]].
        * intros ad e X. destruct (Q2 ad e X) as [Y|Y]; [left; rewrite app_assoc, in_app_iff; auto | auto].
        * intros x X. rewrite app_assoc, in_app_iff in X. destruct X as [X|X]; [apply Q3; exact X|].
          apply in_map_iff in X. destruct X as ([k v] & <- & X). right. right. exists k, v. split; [apply Hkv; auto | reflexivity].
        * intros ad c e X. rewrite app_assoc, in_app_iff. left. apply Q4. exact X.
      + intros k v X. apply Hkv in X. rewrite !in_app_iff. destruct X as [X|X].
        * left. apply HK. exact X.
        * right. right. apply in_map_iff. exists (k, v). auto.
    - discriminate.
    - inversion E; subst. cbn. rewrite app_nil_r. exact HI.
  Qed.

  Lemma all_recs_app f1 f2 : all_recs (f1 ++ f2) = all_recs f1 ++ all_recs f2.
  Proof.
    induction f1 as [|s f1 IH]; [reflexivity|]. destruct s; cbn; rewrite ?IH; auto. rewrite app_assoc. reflexivity.
  Qed.

  Lemma file_inv : forall f a a' done,
    process_all f a = Some a' -> Inv a done -> Inv a' (done ++ all_recs f).
  Proof.
    induction f as [|s f IH]; intros a a' done E HI; cbn [CatchpointFile.process_all] in E.
    - inversion E; subst. cbn. rewrite app_nil_r. exact HI.
    - destruct (process_section s a) as [a1|] eqn:E1; [|discriminate].
      change (s :: f) with ([s] ++ f). rewrite all_recs_app, app_assoc.
      eapply IH; [exact E|]. eapply section_inv; [exact E1 | exact HI].
  Qed.

  Lemma Inv_init : Inv a_init [].
  Proof.
    unfold Inv, P. cbn. split; [|intros; contradiction].
    split; [constructor|]. repeat split; intros; contradiction.
  Qed.

  Lemma accessor_invariant f a :
    process_all f a_init = Some a ->
    NoDup (map fst (a_accts a)) /\
    (forall ad e, In (ad, e) (a_accts a) -> In (leafA ad e) (a_hashes a) \/ a_expect a = Some (ad, e)) /\
    (forall x, In x (a_hashes a) ->
       (exists r, In r (all_recs f) /\ b_more r = false /\ x = leafA (b_addr r) (b_enc r)) \/
       (exists ad c e, In (ad, c, e) (a_res a) /\ x = leafR ad c e) \/
       (exists k v, In (k, v) (a_kvs a) /\ x = leafK k v)) /\
    (forall r, In r (all_recs f) -> exists e, In (b_addr r, e) (a_accts a)) /\
    (forall ad c e, In (ad, c, e) (a_res a) -> In (leafR ad c e) (a_hashes a)) /\
    (forall k v, In (k, v) (a_kvs a) -> In (leafK k v) (a_hashes a)).
  Proof.
    intros E. destruct (file_inv f a_init a [] E Inv_init) as (HP & HK). unfold P in HP.
    destruct HP as (P1 & P2 & P3 & P3b & P4). cbn [app] in *. auto 10.
  Qed.

  (* ---------- what restore returns ---------- *)
  Lemma restore_accepted f label rnd digest w t :
    restore f label rnd digest = Accepted (w, t) ->
    exists a, process_all f a_init = Some a /\ a_expect a = None /\ build_trie (a_hashes a) t_empty = Some t /\
              a_blkround a = rnd /\ staged_label H a t digest = label /\ w = world_of a.
  Proof.
    unfold CatchpointFile.restore. intros E.
    destruct (process_all f a_init) as [a|]; [|discriminate].
    destruct (a_expect a) as [x|] eqn:Ex; [cbn in E; discriminate|]. cbn [andb] in E.
    destruct (build_trie (a_hashes a) t_empty) as [t'|] eqn:Et; [|discriminate].
    destruct (negb (a_blkround a =? rnd)) eqn:Er; [discriminate|].
    destruct (beqb (staged_label H a t' digest) label) eqn:El; [|discriminate].
    inversion E; subst. exists a. apply negb_false_iff, N.eqb_eq in Er. apply beqb_eq in El. auto 10.
  Qed.

  (* ---------- binding ---------- *)
  (* premises "except through a hash collision" (C15: label and leaf injectivity; Merkle hashing) *)
  Hypothesis label_binds : forall a1 t1 a2 t2 d,
    a_blkround a1 = a_blkround a2 -> staged_label H a1 t1 d = staged_label H a2 t2 d ->
    root_hash H (t_root t1) = root_hash H (t_root t2) /\ a_totals a1 = a_totals a2.
  Hypothesis root_binds : forall hs1 hs2 t1 t2,
    build_trie hs1 t_empty = Some t1 -> build_trie hs2 t_empty = Some t2 ->
    root_hash H (t_root t1) = root_hash H (t_root t2) -> forall x, In x hs1 <-> In x hs2.
  Hypothesis leafA_inj : forall a1 e1 a2 e2, leafA a1 e1 = leafA a2 e2 -> a1 = a2 /\ e1 = e2.
  Hypothesis leafR_inj : forall a1 c1 e1 a2 c2 e2, leafR a1 c1 e1 = leafR a2 c2 e2 -> a1 = a2 /\ c1 = c2 /\ e1 = e2.
  Hypothesis leafK_concat : forall k1 v1 k2 v2, leafK k1 v1 = leafK k2 v2 -> k1 ++ v1 = k2 ++ v2.
  Hypothesis leaf_AR : forall a e a' c e', leafA a e <> leafR a' c e'.
  Hypothesis leaf_AK : forall a e k v, leafA a e <> leafK k v.
  Hypothesis leaf_RK : forall a c e k v, leafR a c e <> leafK k v.

  (* the producer's file hashes the account data it stages (catchpointfilewriter.go: every record of an
     account is built from the one accountbase row) *)
  Definition producer_faithful (a0 : astate) : Prop :=
    forall ad e, In (leafA ad e) (a_hashes a0) -> In (ad, e) (a_accts a0).

  Theorem accepted_binds_state f0 f label rnd digest w0 t0 w t :
    restore f0 label rnd digest = Accepted (w0, t0) ->         (* the producer's file *)
    restore f label rnd digest = Accepted (w, t) ->            (* ANY file accepted under the same trusted label *)
    exists a0 a,
      process_all f0 a_init = Some a0 /\ process_all f a_init = Some a /\ w0 = world_of a0 /\ w = world_of a /\
      (producer_faithful a0 ->
       a_totals a = a_totals a0 /\
       (forall ad e, In (ad, e) (a_accts a) <-> In (ad, e) (a_accts a0)) /\
       (forall ad c e, In (ad, c, e) (a_res a) <-> In (ad, c, e) (a_res a0)) /\
       (forall k v, In (k, v) (a_kvs a) -> exists k' v', In (k', v') (a_kvs a0) /\ k ++ v = k' ++ v') /\
       (forall k v, In (k, v) (a_kvs a0) -> exists k' v', In (k', v') (a_kvs a) /\ k ++ v = k' ++ v')).
  Proof.
    intros E0 E.
    destruct (restore_accepted _ _ _ _ _ _ E0) as (a0 & Pr0 & X0 & B0 & R0 & L0 & W0).
    destruct (restore_accepted _ _ _ _ _ _ E) as (a & Pr & X & B & R & L & W).
    exists a0, a. repeat (split; [assumption|]). intros F0.
    destruct (label_binds a t a0 t0 digest ltac:(congruence) ltac:(congruence)) as [Hroot Htot].
    pose proof (root_binds _ _ _ _ B B0 Hroot) as Hset.
    destruct (file_inv f a_init a [] Pr Inv_init) as (HP & HK). unfold P in HP. destruct HP as (P1 & P2 & P3 & P3b & P4).
    destruct (file_inv f0 a_init a0 [] Pr0 Inv_init) as (HP0 & HK0). unfold P in HP0. destruct HP0 as (Q1 & Q2 & Q3 & Q3b & Q4).
    rewrite X in P2. rewrite X0 in Q2. cbn [app] in *.
    assert (RowHash : forall ad e, In (ad, e) (a_accts a) -> In (leafA ad e) (a_hashes a)).
    { intros ad e Y. destruct (P2 _ _ Y) as [Z|Z]; [exact Z | discriminate]. }
    assert (RowHash0 : forall ad e, In (ad, e) (a_accts a0) -> In (leafA ad e) (a_hashes a0)).
    { intros ad e Y. destruct (Q2 _ _ Y) as [Z|Z]; [exact Z | discriminate]. }
    assert (Uniq0 : forall ad e1 e2, In (ad, e1) (a_accts a0) -> In (ad, e2) (a_accts a0) -> e1 = e2).
    { intros ad e1 e2 Y1 Y2. eapply NoDup_map_fst_inj; eauto. }
    split; [exact Htot|]. split; [|split; [|split]].
    - intros ad e. split; intros Y.
      + apply F0, Hset, RowHash. exact Y.
      + (* the hash of the producer's row is among the hashes of f: a completed record of f carries (ad, e) *)
        assert (Z : In (leafA ad e) (a_hashes a)) by (apply Hset, RowHash0; exact Y).
        destruct (P3 _ Z) as [(r & D & M & Eq)|[(ad' & c & e' & A & Eq)|(k & v & A & Eq)]];
          [|exfalso; eapply leaf_AR; eauto | exfalso; eapply leaf_AK; eauto].
        apply leafA_inj in Eq. destruct Eq as [Ea Ee].
        destruct (P3b r D) as (e2 & Y2). rewrite <- Ea in Y2.
        (* the row f stages for ad is hashed too, hence is a row of the producer: the same data *)
        assert (Y3 : In (ad, e2) (a_accts a0)) by (apply F0, Hset, RowHash; exact Y2).
        rewrite (Uniq0 ad e e2 Y Y3). exact Y2.
    - intros ad c e. split; intros Y.
      + assert (Z : In (leafR ad c e) (a_hashes a0)) by (apply Hset, P4; exact Y).
        destruct (Q3 _ Z) as [(r & D & M & Eq)|[(ad' & c' & e' & A & Eq)|(k & v & A & Eq)]].
        * exfalso. symmetry in Eq. eapply leaf_AR; eauto.
        * apply leafR_inj in Eq. destruct Eq as (-> & -> & ->). exact A.
        * exfalso. eapply leaf_RK; eauto.
      + assert (Z : In (leafR ad c e) (a_hashes a)) by (apply Hset, Q4; exact Y).
        destruct (P3 _ Z) as [(r & D & M & Eq)|[(ad' & c' & e' & A & Eq)|(k & v & A & Eq)]].
        * exfalso. symmetry in Eq. eapply leaf_AR; eauto.
        * apply leafR_inj in Eq. destruct Eq as (-> & -> & ->). exact A.
        * exfalso. eapply leaf_RK; eauto.
    - intros k v Y.
      assert (Z : In (leafK k v) (a_hashes a0)) by (apply Hset, HK; exact Y).
      destruct (Q3 _ Z) as [(r & D & M & Eq)|[(ad' & c' & e' & A & Eq)|(k' & v' & A & Eq)]].
      + exfalso. symmetry in Eq. eapply leaf_AK; eauto.
      + exfalso. symmetry in Eq. eapply leaf_RK; eauto.
      + exists k', v'. split; [exact A | apply leafK_concat; exact Eq].
    - intros k v Y.
      assert (Z : In (leafK k v) (a_hashes a)) by (apply Hset, HK0; exact Y).
      destruct (P3 _ Z) as [(r & D & M & Eq)|[(ad' & c' & e' & A & Eq)|(k' & v' & A & Eq)]].
      + exfalso. symmetry in Eq. eapply leaf_AK; eauto.
      + exfalso. symmetry in Eq. eapply leaf_RK; eauto.
      + exists k', v'. split; [exact A | apply leafK_concat; exact Eq].
  Qed.
End Bind.
