(* C39: the oracle [facts_ok] that [check] evaluates on the implementation's observation
   (model/StateProofCheck.v) is the acceptance condition of the model instantiated with the
   recorded facts, hence (C39_verify_accepts_exactly) the Prop-level [accept_facts]. *)
From Coq Require Import NArith ZArith List Bool Lia ZifyN ZifyNat ZifyBool.
From Verif.model Require Import SpWeights StateProof StateProofSpec StateProofCheck.
From Verif.proofs Require Import SpWeightsProofs StateProofProofs.
Import ListNotations.
Open Scope N_scope.

Lemma nthb_map : forall (g : rfact -> bool) rf i f,
  nth_error rf i = Some f -> nthb (map g rf) (N.of_nat i) = g f.
Proof.
  intros g rf i f H. unfold nthb. rewrite Nat2N.id. revert i H.
  induction rf as [|f0 t IH]; intros [|i] H; cbn [nth_error map nth] in *; try discriminate.
  - inversion H; reflexivity.
  - apply IH. exact H.
Qed.

Lemma mk_reveals_nth : forall rf k i f, nth_error rf i = Some f ->
  In (rf_pos f, mkReveal (mkSlotC (k + N.of_nat i) (rf_L f)) (mkPart (k + N.of_nat i) (rf_w f)))
     (mk_reveals k rf).
Proof.
  induction rf as [|f0 r IH]; intros k i f H; destruct i as [|i]; cbn [nth_error] in H; try discriminate.
  - inversion H; subst. cbn [mk_reveals]. left. rewrite N.add_0_r. reflexivity.
  - cbn [mk_reveals]. right. replace (k + N.of_nat (S i)) with (k + 1 + N.of_nat i) by lia. apply IH. exact H.
Qed.

Lemma mk_reveals_In : forall rf k pos r, In (pos, r) (mk_reveals k rf) ->
  exists i f, nth_error rf i = Some f /\ pos = rf_pos f /\
    r = mkReveal (mkSlotC (k + N.of_nat i) (rf_L f)) (mkPart (k + N.of_nat i) (rf_w f)).
Proof.
  induction rf as [|f0 t IH]; intros k pos r H; cbn [mk_reveals] in H; [destruct H|].
  destruct H as [E|H].
  - inversion E; subst. exists 0%nat, f0. rewrite N.add_0_r. auto.
  - destruct (IH _ _ _ H) as (i & f & A & B & C). exists (S i), f.
    replace (k + N.of_nat (S i)) with (k + 1 + N.of_nat i) by lia. auto.
Qed.

Lemma lookup_mk : forall rf k pos,
  match lookup pos (mk_reveals k rf), find_fact pos rf with
  | Some r, Some f => sc_L (rv_slot r) = rf_L f /\ pt_weight (rv_part r) = rf_w f
  | None, None => True
  | _, _ => False
  end.
Proof.
  induction rf as [|f0 t IH]; intros k pos; cbn [mk_reveals lookup find_fact]; [exact I|].
  rewrite (N.eqb_sym (rf_pos f0) pos). destruct (pos =? rf_pos f0); [cbn; auto | apply IH].
Qed.

Section Oracle.
  Variables st lnpw sw dS dP : N.
  Variable positions : list N.
  Variable rf : list rfact.
  Variables vcs vcp : bool.
  Variable coins : list N.

  Let RV := mk_reveals 0 rf.

  Lemma coins_ok_of_slots : forall ps cs j0,
    coins_in_slots (PK := N) (Sig := N) (Msg := N) (Dig := N) (fun _ j => nthN coins j) (mkSeed 0 lnpw 0 sw 0) RV ps j0 ->
    cs = skipn j0 coins -> (length ps <= length cs)%nat ->
    coins_ok ps cs rf = true.
  Proof.
    induction ps as [|p ps IH]; intros cs j0 H Hcs Hlen; [destruct cs; reflexivity|].
    destruct cs as [|c cs']; [cbn in Hlen; lia|]. cbn [coins_ok].
    assert (Hc : nthN coins j0 = c /\ cs' = skipn (S j0) coins).
    { clear - Hcs. revert coins Hcs. induction j0 as [|j IHj]; intros l Hl.
      - cbn [skipn] in Hl. subst l. split; reflexivity.
      - destruct l as [|a l']; [cbn in Hl; discriminate|]. cbn [skipn] in Hl.
        destruct (IHj l' Hl) as [A B]. split; [exact A | exact B]. }
    destruct Hc as [Hc Hcs'].
    destruct (H 0%nat p eq_refl) as (r & EL & C1 & C2). rewrite Nat.add_0_r in C1, C2. rewrite Hc in C1, C2.
    pose proof (lookup_mk rf 0 p) as HM. fold RV in HM. rewrite EL in HM.
    destruct (find_fact p rf) as [f|]; [|contradiction]. destruct HM as [HL HW].
    pose proof (wadd_le (sc_L (rv_slot r)) (pt_weight (rv_part r))).
    replace ((rf_L f <=? c) && (c - rf_L f <? rf_w f)) with true by lia. cbn [andb].
    apply (IH cs' (S j0)); [|exact Hcs'|cbn [length] in Hlen; lia].
    intros i q Hi. destruct (H (S i) q Hi) as (r' & A & B & C). exists r'.
    replace (S j0 + i)%nat with (j0 + S i)%nat by lia. auto.
  Qed.

  Lemma slots_of_coins_ok : forall ps cs j0,
    (forall f, In f rf -> rf_L f + rf_w f < W64) ->
    coins_ok ps cs rf = true -> cs = skipn j0 coins ->
    coins_in_slots (PK := N) (Sig := N) (Msg := N) (Dig := N) (fun _ j => nthN coins j) (mkSeed 0 lnpw 0 sw 0) RV ps j0.
  Proof.
    induction ps as [|p ps IH]; intros cs j0 Hw H Hcs i q Hi; [destruct i; discriminate|].
    destruct cs as [|c cs']; [cbn in H; discriminate|]. cbn [coins_ok] in H.
    assert (Hc : nthN coins j0 = c /\ cs' = skipn (S j0) coins).
    { clear - Hcs. revert coins Hcs. induction j0 as [|j IHj]; intros l Hl.
      - cbn [skipn] in Hl. subst l. split; reflexivity.
      - destruct l as [|a l']; [cbn in Hl; discriminate|]. cbn [skipn] in Hl.
        destruct (IHj l' Hl) as [A B]. split; [exact A | exact B]. }
    destruct Hc as [Hc Hcs'].
    destruct (find_fact p rf) as [f|] eqn:EF; [|discriminate].
    apply andb_prop in H. destruct H as [H1 H2].
    destruct i as [|i]; cbn [nth_error] in Hi.
    - inversion Hi; subst q. pose proof (lookup_mk rf 0 p) as HM. fold RV in HM. rewrite EF in HM.
      destruct (lookup p RV) as [r|]; [|contradiction]. destruct HM as [HL HW].
      exists r. split; [reflexivity|]. rewrite Nat.add_0_r, Hc, HL, HW.
      assert (In f rf).
      { clear - EF. induction rf as [|f0 t IHt]; cbn [find_fact] in EF; [discriminate|].
        destruct (rf_pos f0 =? p); [inversion EF; left; reflexivity | right; auto]. }
      rewrite wadd_small by (apply Hw; assumption). lia.
    - destruct (IH cs' (S j0) Hw H2 Hcs' i q Hi) as (r' & A & B & C). exists r'.
      replace (j0 + S i)%nat with (S j0 + i)%nat by lia. auto.
  Qed.

  Theorem facts_ok_iff_model :
    sw < W64 -> (length positions <= length coins)%nat ->
    (forall f, In f rf -> rf_L f + rf_w f < W64) ->
    (facts_ok st lnpw sw dS dP positions rf vcs vcp coins = true <->
     model_verify st lnpw sw dS dP positions rf vcs vcp coins = SOk tt).
  Proof.
    intros Hsw Hlen Hw. unfold model_verify. rewrite verify_ok_iff.
    unfold accept_facts, seed_of, facts_ok, MaxTreeDepth.
    cbn [sp_sigproofs sp_partproofs sp_sw sp_positions sp_reveals sp_salt sp_sigcommit v_lnpw v_st v_partcom].
    fold RV.
    assert (HR : forallb (fun f => rf_salt f && rf_commit f && rf_sig f) rf = true <->
                 (forall pos r, In (pos, r) RV ->
                    nthb (map rf_salt rf) (sc_sig (rv_slot r)) = true /\
                    nthb (map rf_commit rf) (sc_sig (rv_slot r)) = true /\
                    nthb (map rf_sig rf) (sc_sig (rv_slot r)) = true)).
    { rewrite forallb_forall. split.
      - intros H pos r HI. destruct (mk_reveals_In _ _ _ _ HI) as (i & f & A & _ & C). subst r.
        cbn [rv_slot sc_sig N.add]. rewrite (nthb_map rf_salt _ _ _ A), (nthb_map rf_commit _ _ _ A), (nthb_map rf_sig _ _ _ A).
        specialize (H f (nth_error_In _ _ A)). lia.
      - intros H f HI. apply In_nth_error in HI. destruct HI as [i A].
        destruct (H _ _ (mk_reveals_nth rf 0 i f A)) as (X & Y & Z). cbn [rv_slot sc_sig N.add] in X, Y, Z.
        rewrite (nthb_map rf_salt _ _ _ A) in X. rewrite (nthb_map rf_commit _ _ _ A) in Y.
        rewrite (nthb_map rf_sig _ _ _ A) in Z. lia. }
    split.
    - intros H.
      apply andb_prop in H; destruct H as [H Hcoins]. apply andb_prop in H; destruct H as [H Hvcp].
      apply andb_prop in H; destruct H as [H Hvcs]. apply andb_prop in H; destruct H as [H Hrv].
      apply andb_prop in H; destruct H as [H Hspec]. apply andb_prop in H; destruct H as [Hd1 Hd2].
      assert (Hsw0 : sw <> 0).
      { unfold spec_verify in Hspec. apply andb_prop in Hspec. destruct Hspec as [Hs1 _].
        apply andb_prop in Hs1. destruct Hs1 as [_ Hs1]. lia. }
      split; [lia|]. split; [lia|]. split.
      { apply spec_verify_sound; [unfold two64; unfold W64 in Hsw; lia | assumption]. }
      split; [apply HR; assumption|]. split; [assumption|]. split; [assumption|].
      apply (slots_of_coins_ok positions coins 0 Hw); [assumption | reflexivity].
    - intros (D1 & D2 & HWt & HRv & V1 & V2 & HC).
      assert (Hsw0 : sw <> 0).
      { apply verifyWeights_ok_iff in HWt. lia. }
      apply spec_verify_sound in HWt; [|unfold two64; unfold W64 in Hsw; lia].
      apply HR in HRv. apply (coins_ok_of_slots positions coins 0) in HC; [|reflexivity|exact Hlen].
      rewrite HWt, HRv, V1, V2, HC. replace (dS <=? 20) with true by lia. replace (dP <=? 20) with true by lia.
      reflexivity.
  Qed.
End Oracle.
