(* C13 lemmas, part C1: the history side (acct_at / params_spec), exact arithmetic vs the
   wrapping uint64 computations, the accounts map. *)
From Coq Require Import Arith PeanoNat NArith List Bool Lia ZifyN ZifyNat ZifyBool.
From Verif.model Require Import Overflow OnlineAccts OnlineAcctsSpec.
From Verif.proofs Require Import OverflowProofs OnlineEntries OnlineTables.
Import ListNotations.
Open Scope N_scope.

(* ---------- acct_at ---------- *)
Lemma acct_at_fold G bs r k :
  acct_at G bs r k = fold_acct k (gen_get k G) (map ob_mods (firstn r bs)).
Proof.
  unfold acct_at, fold_acct. generalize (gen_get k G) as a0. generalize (firstn r bs) as l.
  induction l as [|b l IH]; intros a0; [reflexivity|]. cbn [map fold_left]. apply IH.
Qed.

Lemma firstn_add {A} (l : list A) (a b : nat) : firstn (a + b) l = firstn a l ++ firstn b (skipn a l).
Proof.
  revert l. induction a as [|a IH]; intros l; [reflexivity|].
  destruct l as [|x l]; [destruct b; reflexivity|]. cbn [Nat.add firstn skipn app]. f_equal. apply IH.
Qed.

Lemma acct_at_add G bs (dn j : nat) k :
  acct_at G bs (dn + j) k = fold_acct k (acct_at G bs dn k) (firstn j (map ob_mods (skipn dn bs))).
Proof.
  rewrite !acct_at_fold, firstn_add, map_app, fold_acct_app, firstn_map. reflexivity.
Qed.

Lemma acct_at_app_stable G bs b r k : (r <= length bs)%nat -> acct_at G (bs ++ [b]) r k = acct_at G bs r k.
Proof.
  intros H. unfold acct_at. rewrite firstn_app. replace (r - length bs)%nat with O by lia.
  cbn [firstn]. rewrite app_nil_r. reflexivity.
Qed.

Lemma params_spec_app_stable supply0 bs b r : (r <= length bs)%nat ->
  params_spec supply0 (bs ++ [b]) r = params_spec supply0 bs r.
Proof.
  intros H. destruct r as [|r]; [reflexivity|]. cbn [params_spec].
  rewrite nth_error_app1 by lia. reflexivity.
Qed.

Lemma params_spec_last supply0 bs b :
  params_spec supply0 (bs ++ [b]) (Datatypes.S (length bs)) = mkRP (ob_supply b) (ob_level b).
Proof.
  cbn [params_spec]. rewrite nth_error_app2 by lia. rewrite Nat.sub_diag. reflexivity.
Qed.

(* ---------- exact arithmetic = the wrapping computation ---------- *)
Lemma W_eq : M 64 = OnlineAcctsSpec.W. Proof. reflexivity. Qed.

Lemma div_lt_W m unit : m < W -> m / unit < W.
Proof.
  intros H. destruct (N.eq_dec unit 0) as [->|Hn].
  - assert (m / 0 = 0) as -> by (destruct m; reflexivity). reflexivity.
  - pose proof (N.div_le_upper_bound m unit m Hn). assert (m <= unit * m) by nia. lia.
Qed.

Lemma money_exact unit malgos rbase level : malgos < W -> rbase < W -> level < W ->
  money_with_rewards unit malgos rbase level = exact_money unit level malgos rbase.
Proof.
  intros Hm Hr HL. unfold money_with_rewards, exact_money.
  destruct (N.eqb_spec unit 0) as [|Hu]; [reflexivity|].
  pose proof (osub_exact 64 level rbase HL Hr) as [Hs1 Hs2].
  pose proof (osub_spec 64 level rbase HL Hr) as Hss.
  destruct (osub 64 level rbase) as [delta o1] eqn:E1. cbn [fst snd] in *.
  destruct (N.ltb_spec level rbase) as [Hlt|Hge].
  - assert (o1 = true) by (apply Hs1; exact Hlt). subst o1.
    destruct (omul 64 (malgos / unit) delta) as [rw o2]. destruct (oadd 64 malgos rw) as [out o3]. reflexivity.
  - assert (o1 = false).
    { destruct o1; [|reflexivity]. destruct Hs1 as [Hs1 _]. specialize (Hs1 eq_refl). lia. }
    subst o1. destruct (Hs2 eq_refl) as [-> _].
    assert (Hd : level - rbase < W) by lia.
    pose proof (omul_exact 64 (malgos / unit) (level - rbase) (div_lt_W _ unit Hm) Hd) as (Hm1 & Hm2 & Hm3).
    destruct (omul 64 (malgos / unit) (level - rbase)) as [rw o2] eqn:E2. cbn [fst snd] in *.
    destruct o2.
    + (* product overflows: the sum cannot fit *)
      destruct Hm1 as [Hm1 _]. specialize (Hm1 eq_refl). rewrite W_eq in Hm1.
      destruct (oadd 64 malgos rw) as [out o3]. cbn [orb].
      destruct (N.ltb_spec (malgos + malgos / unit * (level - rbase)) W); [lia|reflexivity].
    + rewrite (Hm2 eq_refl).
      assert (Hp : malgos / unit * (level - rbase) < W).
      { destruct (N.lt_ge_cases (malgos / unit * (level - rbase)) W) as [|Hc]; [assumption|].
        rewrite <- W_eq in Hc. apply Hm1 in Hc. discriminate. }
      pose proof (oadd_exact 64 malgos _ Hm Hp) as [Ha1 Ha2].
      destruct (oadd 64 malgos (malgos / unit * (level - rbase))) as [out o3]. cbn [fst snd orb] in *.
      destruct o3.
      * destruct Ha1 as [Ha1 _]. specialize (Ha1 eq_refl). rewrite W_eq in Ha1.
        destruct (N.ltb_spec (malgos + malgos / unit * (level - rbase)) W); [lia|reflexivity].
      * rewrite (Ha2 eq_refl).
        destruct (N.ltb_spec (malgos + malgos / unit * (level - rbase)) W) as [|Hc]; [reflexivity|].
        rewrite <- W_eq in Hc. apply Ha1 in Hc. discriminate.
Qed.

(* AccountData.OnlineAccountData = the exact value of the spec (both None exactly when the Go
   code panics) *)
Lemma oad_of_acct_exact unit level a : a_malgos a < W -> a_rbase a < W -> level < W ->
  oad_of_acct unit level a = spec_oad unit level a.
Proof.
  intros Hm Hr HL. unfold oad_of_acct, spec_oad, oad_of_bdata.
  destruct (is_online a); cbn [negb]; [|reflexivity].
  cbn [bdata_of b_malgos b_rbase b_vid b_vfirst b_vlast b_vdil b_elig b_lastprop b_lasthb].
  rewrite (money_exact unit _ _ _ Hm Hr HL). reflexivity.
Qed.

Lemma oad_of_bdata_zero unit level : unit <> 0 -> level < W -> oad_of_bdata unit level bdata0 = Some oad0.
Proof.
  intros Hu HL. unfold oad_of_bdata. cbn [bdata0 b_malgos b_rbase].
  rewrite (money_exact unit 0 0 level) by (try reflexivity; assumption).
  unfold exact_money. destruct (N.eqb_spec unit 0); [contradiction|].
  destruct (N.ltb_spec level 0); [lia|]. rewrite N.div_0_l by assumption. reflexivity.
Qed.

Lemma oad_of_bdata_tgt unit level a : unit <> 0 -> level < W ->
  oad_of_bdata unit level (tgt a) = oad_of_acct unit level a.
Proof.
  intros Hu HL. unfold tgt, oad_of_acct. destruct (is_online a); cbn [negb]; [reflexivity|].
  apply oad_of_bdata_zero; assumption.
Qed.

(* ---------- the accounts map: latest data and number of deltas per address ---------- *)
Fixpoint count_in (k : N) (ds : list (list (N * oacct))) : N :=
  match ds with
  | [] => 0
  | d :: r => (match aget k d with Some _ => 1 | None => 0 end) + count_in k r
  end.

(* what accounts[k] must be *)
Definition summ (k : N) (ds : list (list (N * oacct))) : option (oacct * N) :=
  if count_in k ds =? 0 then None else Some (fold_acct k oacct0 ds, count_in k ds).

Lemma count_in_app k d1 d2 : count_in k (d1 ++ d2) = count_in k d1 + count_in k d2.
Proof. induction d1 as [|d d1 IH]; [reflexivity|]. cbn [app count_in]. rewrite IH. lia. Qed.

Lemma count_zero_none k ds : count_in k ds = 0 <-> forall d, In d ds -> aget k d = None.
Proof.
  induction ds as [|d ds IH]; cbn [count_in]; [split; [intros _ ? []|reflexivity]|].
  split.
  - intros H d' [<-|Hd].
    + destruct (aget k d); [lia|reflexivity].
    + apply IH; [destruct (aget k d); lia|exact Hd].
  - intros H. rewrite (H d (or_introl eq_refl)). apply IH. intros d' Hd. apply H. right; exact Hd.
Qed.

Lemma fold_acct_untouched k a0 ds : count_in k ds = 0 -> fold_acct k a0 ds = a0.
Proof.
  intros H. rewrite count_zero_none in H. revert a0. induction ds as [|d ds IH]; intros a0; [reflexivity|].
  unfold fold_acct. cbn [fold_left]. rewrite (H d (or_introl eq_refl)). apply IH.
  intros d' Hd. apply H. right; exact Hd.
Qed.

(* once touched, the start value is irrelevant *)
Lemma fold_acct_touched k a0 a1 ds : count_in k ds <> 0 -> fold_acct k a0 ds = fold_acct k a1 ds.
Proof.
  revert a0 a1. induction ds as [|d ds IH]; intros a0 a1 H; [cbn in H; lia|].
  unfold fold_acct. cbn [fold_left count_in] in *. destruct (aget k d); [reflexivity|].
  apply IH. lia.
Qed.

(* generic association-list facts *)
Lemma aget_aset_same {V} k (v : V) l : aget k (aset k v l) = Some v.
Proof.
  induction l as [|[k2 v2] l IH]; cbn [aset aget]; [rewrite N.eqb_refl; reflexivity|].
  destruct (N.eqb_spec k2 k); cbn [aget]; [rewrite N.eqb_refl; reflexivity|].
  destruct (N.eqb_spec k2 k); [contradiction|exact IH].
Qed.
Lemma aget_aset_other {V} k k' (v : V) l : k <> k' -> aget k (aset k' v l) = aget k l.
Proof.
  intros Hn. induction l as [|[k2 v2] l IH]; cbn [aset aget].
  - destruct (N.eqb_spec k' k); [congruence|reflexivity].
  - destruct (N.eqb_spec k2 k'); cbn [aget].
    + subst. destruct (N.eqb_spec k' k); [congruence|reflexivity].
    + destruct (N.eqb_spec k2 k); [reflexivity|exact IH].
Qed.
Lemma keys_aset {V} k (v : V) l x : In x (keys (aset k v l)) <-> x = k \/ In x (keys l).
Proof.
  induction l as [|[k2 v2] l IH]; cbn [aset keys map fst]; [cbn; intuition|].
  destruct (N.eqb_spec k2 k); cbn [map fst In].
  - subst. intuition.
  - fold (keys (aset k v l)). rewrite IH. fold (keys l). intuition.
Qed.
Lemma NoDup_aset {V} k (v : V) l : NoDup (keys l) -> NoDup (keys (aset k v l)).
Proof.
  induction l as [|[k2 v2] l IH]; intros H; cbn [aset keys map fst].
  - constructor; [intros []|constructor].
  - inversion H as [|? ? Hnin Hnd]; subst. destruct (N.eqb_spec k2 k); cbn [map fst].
    + subst. constructor; assumption.
    + constructor; [|exact (IH Hnd)]. fold (keys (aset k v l)). rewrite keys_aset.
      intros [E|Hin]; [congruence|exact (Hnin Hin)].
Qed.
Lemma aget_notin {V} k (l : list (N * V)) : ~ In k (keys l) -> aget k l = None.
Proof.
  induction l as [|[k2 v2] l IH]; intros H; [reflexivity|]. cbn [aget].
  destruct (N.eqb_spec k2 k); [exfalso; apply H; left; exact e|]. apply IH. intros Hin. apply H. right; exact Hin.
Qed.
Lemma aget_adel_same {V} k (l : list (N * V)) : NoDup (keys l) -> aget k (adel k l) = None.
Proof.
  induction l as [|[k2 v2] l IH]; intros H; [reflexivity|]. inversion H as [|? ? Hnin Hnd]; subst.
  cbn [adel]. destruct (N.eqb_spec k2 k).
  - subst. apply aget_notin. exact Hnin.
  - cbn [aget]. destruct (N.eqb_spec k2 k); [contradiction|exact (IH Hnd)].
Qed.
Lemma aget_adel_other {V} k k' (l : list (N * V)) : k <> k' -> aget k (adel k' l) = aget k l.
Proof.
  intros Hn. induction l as [|[k2 v2] l IH]; [reflexivity|]. cbn [adel aget].
  destruct (N.eqb_spec k2 k').
  - subst. destruct (N.eqb_spec k' k); [congruence|reflexivity].
  - cbn [aget]. destruct (N.eqb_spec k2 k); [reflexivity|exact IH].
Qed.
Lemma keys_adel_incl {V} k (l : list (N * V)) x : In x (keys (adel k l)) -> In x (keys l).
Proof.
  induction l as [|[k2 v2] l IH]; [intros []|]. cbn [adel].
  destruct (k2 =? k); cbn [keys map fst In]; [right; assumption|].
  intros [E|H]; [left; exact E|right; exact (IH H)].
Qed.
Lemma NoDup_adel {V} k (l : list (N * V)) : NoDup (keys l) -> NoDup (keys (adel k l)).
Proof.
  induction l as [|[k2 v2] l IH]; intros H; [constructor|]. inversion H as [|? ? Hnin Hnd]; subst.
  cbn [adel]. destruct (k2 =? k); [exact Hnd|]. cbn [keys map fst]. constructor; [|exact (IH Hnd)].
  intros Hin. apply Hnin. exact (keys_adel_incl _ _ _ Hin).
Qed.

(* newBlockImpl's loop over one delta (each address once) *)
Lemma bump_accts_spec mods : forall accts, NoDup (keys mods) -> NoDup (keys accts) ->
  NoDup (keys (bump_accts mods accts)) /\
  forall k, aget k (bump_accts mods accts) =
            match aget k mods with
            | Some a => Some (a, (match aget k accts with Some (_, c) => c | None => 0 end) + 1)
            | None => aget k accts
            end.
Proof.
  unfold bump_accts. induction mods as [|[k0 a0] mods IH]; intros accts Hm Ha; cbn [fold_left].
  - split; [exact Ha|reflexivity].
  - inversion Hm as [|? ? Hnin Hnd]; subst. cbn [fst snd].
    set (accts1 := aset k0 (a0, match aget k0 accts with Some (_, c) => c | None => 0 end + 1) accts).
    destruct (IH accts1 Hnd (NoDup_aset _ _ _ Ha)) as [H1 H2]. split; [exact H1|].
    intros k. rewrite H2. cbn [aget]. destruct (N.eqb_spec k0 k) as [->|Hne].
    + rewrite (aget_notin k mods Hnin). unfold accts1. rewrite aget_aset_same. reflexivity.
    + destruct (aget k mods); unfold accts1; rewrite aget_aset_other by congruence; reflexivity.
Qed.

Lemma summ_snoc k ds d :
  summ k (ds ++ [d]) = match aget k d with
                       | Some a => Some (a, (match summ k ds with Some (_, c) => c | None => 0 end) + 1)
                       | None => summ k ds
                       end.
Proof.
  unfold summ. rewrite count_in_app, fold_acct_app. cbn [count_in]. unfold fold_acct at 1. cbn [fold_left].
  destruct (aget k d) as [a|].
  - destruct (N.eqb_spec (count_in k ds + (1 + 0)) 0); [lia|].
    destruct (N.eqb_spec (count_in k ds) 0) as [E|E]; [rewrite E|]; f_equal; f_equal; lia.
  - replace (count_in k ds + (0 + 0)) with (count_in k ds) by lia. reflexivity.
Qed.

(* postCommit's reference counting *)
Lemma drop_counts_spec ds rest : forall addrs accts accts',
  NoDup addrs -> NoDup (keys accts) ->
  (forall k, aget k accts = summ k (ds ++ rest) \/ (~ In k addrs /\ aget k accts = summ k rest)) ->
  (forall k, In k addrs -> aget k accts = summ k (ds ++ rest) /\ count_in k ds <> 0) ->
  (forall k, ~ In k addrs -> count_in k ds = 0 \/ aget k accts = summ k rest) ->
  drop_counts ds addrs accts = Some accts' ->
  NoDup (keys accts') /\ forall k, aget k accts' = summ k rest.
Proof.
  induction addrs as [|k0 addrs IH]; intros accts accts' Hnd Hna Hall Hin Hout H; cbn [drop_counts] in H.
  - inversion H; subst. split; [exact Hna|]. intros k.
    destruct (Hout k (fun f => f)) as [Hz|Hs]; [|exact Hs].
    destruct (Hall k) as [Hs|[_ Hs]]; [|exact Hs]. rewrite Hs. unfold summ.
    rewrite count_in_app, Hz, fold_acct_app. rewrite (fold_acct_untouched k oacct0 ds Hz). reflexivity.
  - inversion Hnd as [|? ? Hnin Hnd']; subst.
    destruct (Hin k0 (or_introl eq_refl)) as [Hk0 Hc0].
    assert (Ecnt : N.of_nat (length (filter (fun d => match aget k0 d with Some _ => true | None => false end) ds)) = count_in k0 ds).
    { clear. induction ds as [|d ds IHd]; [reflexivity|]. cbn [filter count_in].
      destruct (aget k0 d); cbn [length]; lia. }
    rewrite Ecnt, Hk0 in H. unfold summ in H. rewrite count_in_app in H.
    destruct (N.eqb_spec (count_in k0 ds + count_in k0 rest) 0) as [|Hnz]; [lia|].
    destruct (N.ltb_spec (count_in k0 ds + count_in k0 rest) (count_in k0 ds)); [lia|].
    destruct (N.eqb_spec (count_in k0 ds + count_in k0 rest) (count_in k0 ds)) as [Eq|Neq].
    + (* all occurrences flushed: evicted *)
      assert (Hr0 : count_in k0 rest = 0) by lia.
      apply (IH (adel k0 accts) accts' Hnd' (NoDup_adel _ _ Hna)); [| | |exact H].
      * intros k. destruct (N.eq_dec k k0) as [->|Hne].
        -- right. split; [exact Hnin|]. rewrite aget_adel_same by exact Hna. unfold summ. rewrite Hr0. reflexivity.
        -- rewrite aget_adel_other by exact Hne. destruct (Hall k) as [Hs|[Hn Hs]]; [left; exact Hs|].
           right. split; [intros Hc; apply Hn; right; exact Hc|exact Hs].
      * intros k Hk. assert (Hne : k <> k0) by (intros ->; exact (Hnin Hk)).
        rewrite aget_adel_other by exact Hne. apply Hin. right; exact Hk.
      * intros k Hk. destruct (N.eq_dec k k0) as [->|Hne].
        -- right. rewrite aget_adel_same by exact Hna. unfold summ. rewrite Hr0. reflexivity.
        -- rewrite aget_adel_other by exact Hne. apply Hout. intros [E|Hc]; [congruence|exact (Hk Hc)].
    + assert (Hrnz : count_in k0 rest <> 0) by lia.
      set (v := (fold_acct k0 oacct0 (ds ++ rest), count_in k0 ds + count_in k0 rest - count_in k0 ds)) in H.
      assert (Hv : Some v = summ k0 rest).
      { unfold v, summ. destruct (N.eqb_spec (count_in k0 rest) 0); [contradiction|].
        rewrite fold_acct_app. rewrite (fold_acct_touched k0 _ oacct0 rest Hrnz). f_equal. f_equal. lia. }
      apply (IH (aset k0 v accts) accts' Hnd' (NoDup_aset _ _ _ Hna)); [| | |exact H].
      * intros k. destruct (N.eq_dec k k0) as [->|Hne].
        -- right. split; [exact Hnin|]. rewrite aget_aset_same. exact Hv.
        -- rewrite aget_aset_other by exact Hne. destruct (Hall k) as [Hs|[Hn Hs]]; [left; exact Hs|].
           right. split; [intros Hc; apply Hn; right; exact Hc|exact Hs].
      * intros k Hk. assert (Hne : k <> k0) by (intros ->; exact (Hnin Hk)).
        rewrite aget_aset_other by exact Hne. apply Hin. right; exact Hk.
      * intros k Hk. destruct (N.eq_dec k k0) as [->|Hne].
        -- right. rewrite aget_aset_same. exact Hv.
        -- rewrite aget_aset_other by exact Hne. apply Hout. intros [E|Hc]; [congruence|exact (Hk Hc)].
Qed.
