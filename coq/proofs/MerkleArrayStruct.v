(* C37: structure of the tree (layers), one step of partialLayer.up on the prover and on the
   verifier side, and completeness of the loop. *)
From Coq Require Import NArith List Bool Arith Lia ZifyN ZifyNat ZifyBool Sorted Permutation.
From Verif.model Require Import MerkleArray.
From Verif.proofs Require Import MerkleArrayBasics.
Import ListNotations.

Section Struct.
  Variable s : nat.
  Variable hnode : list N -> digest.
  Hypothesis Hlen_node : forall b, length (hnode b) = s.
  #[local] Set Default Proof Using "Hlen_node".

  Notation pairbuf := (pairbuf s).
  Notation hpair := (hpair s hnode).
  Notation nextLayer := (nextLayer s hnode).
  Notation buildLevels := (buildLevels s hnode).
  Notation levelsOf := (levelsOf s hnode).
  Notation combine := (combine s hnode).
  Notation upV := (upV s hnode).
  Notation vloop := (vloop s hnode).

  Definition lenS (h : digest) : Prop := length h = s.

  Lemma pairbuf_length : forall l r, length (pairbuf l r) = (2 * s)%nat.
  Proof.
    intros. unfold MerkleArray.pairbuf. rewrite firstn_length, !app_length, zeros_length. lia.
  Qed.

  Lemma hpair_len : forall l r, lenS (hpair l r).
  Proof. intros. apply Hlen_node. Qed.

  (* ---- layers ---- *)
  Lemma list_ind2 : forall {A} (P : list A -> Prop),
    P [] -> (forall a, P [a]) -> (forall a b l, P l -> P (a :: b :: l)) -> forall l, P l.
  Proof.
    intros A P H0 H1 H2. fix IH 1. intros [|a [|b l]]; [exact H0 | apply H1 | apply H2, IH].
  Qed.

  Lemma nextLayer_length : forall l, length (nextLayer l) = Nat.div2 (length l + 1).
  Proof.
    induction l as [| a | a b l IH] using list_ind2; [reflexivity | reflexivity |].
    cbn [MerkleArray.nextLayer length]. rewrite IH.
    replace (S (S (length l)) + 1)%nat with (S (S (length l + 1))) by lia. reflexivity.
  Qed.

  Lemma nth_nextLayer : forall l q, (q < length (nextLayer l))%nat ->
    nth q (nextLayer l) [] = hpair (nth (2 * q) l []) (nth (2 * q + 1) l []).
  Proof.
    induction l as [| a | a b l IH] using list_ind2; intros q Hq.
    - cbn in Hq. lia.
    - cbn in Hq. assert (q = 0)%nat by lia. subst. reflexivity.
    - cbn [MerkleArray.nextLayer] in *. destruct q as [|q]; [reflexivity|].
      cbn [length] in Hq. cbn [nth].
      replace (2 * S q)%nat with (S (S (2 * q))) by lia.
      replace (S (S (2 * q)) + 1)%nat with (S (S (2 * q + 1))) by lia. cbn [nth].
      apply IH. lia.
  Qed.

  Lemma nextLayer_lenS : forall l, Forall lenS (nextLayer l).
  Proof.
    induction l as [| a | a b l IH] using list_ind2; cbn [MerkleArray.nextLayer].
    - constructor.
    - constructor; [apply hpair_len | constructor].
    - constructor; [apply hpair_len | assumption].
  Qed.

  Inductive chain : list (list digest) -> Prop :=
  | chain_top : forall top, length top = 1%nat -> chain [top]
  | chain_cons : forall l rest, (2 <= length l)%nat -> chain (nextLayer l :: rest) ->
                                chain (l :: nextLayer l :: rest).

  Lemma buildLevels_chain : forall fuel top, (1 <= length top)%nat -> (length top <= 2 ^ fuel)%nat ->
    chain (buildLevels fuel top) /\ hd [] (buildLevels fuel top) = top.
  Proof.
    induction fuel as [|f IH]; intros top H1 H2.
    - cbn in *. split; [constructor; lia | reflexivity].
    - cbn [MerkleArray.buildLevels]. destruct (Nat.leb_spec (length top) 1).
      + split; [constructor; lia | reflexivity].
      + assert (Hn : (1 <= length (nextLayer top) /\ length (nextLayer top) <= 2 ^ f)%nat).
        { rewrite nextLayer_length, Nat.div2_div. cbn [Nat.pow] in H2.
          generalize dependent (2 ^ f)%nat. intros m IH H2. split.
          - apply Nat.div_le_lower_bound; lia.
          - apply Nat.lt_succ_r, Nat.div_lt_upper_bound; lia. }
        destruct (IH (nextLayer top) (proj1 Hn) (proj2 Hn)) as [Hc Hh].
        split; [|reflexivity].
        destruct (buildLevels f (nextLayer top)) as [|x rest] eqn:Eb; [inversion Hc|].
        cbn in Hh. subst x. constructor; [lia | assumption].
  Qed.

  Lemma levelsOf_chain : forall leaves, leaves <> [] ->
    chain (levelsOf leaves) /\ hd [] (levelsOf leaves) = leaves.
  Proof.
    intros leaves H. unfold MerkleArray.levelsOf. destruct leaves as [|a r]; [contradiction|].
    apply buildLevels_chain; [cbn; lia|]. apply Nat.lt_le_incl, Nat.pow_gt_lin_r. lia.
  Qed.

  Lemma chain_nonempty : forall lv, chain lv -> lv <> [].
  Proof. intros lv H. inversion H; discriminate. Qed.

  Lemma chain_last_len : forall lv, chain lv -> length (last lv []) = 1%nat.
  Proof.
    induction 1 as [top Ht | l rest Hl Hc IH]; [exact Ht|].
    change (last (l :: nextLayer l :: rest) []) with (last (nextLayer l :: rest) []). exact IH.
  Qed.

  Lemma chain_lenS : forall lv, chain lv -> Forall lenS (hd [] lv) -> Forall (Forall lenS) lv.
  Proof.
    induction 1 as [top Ht | l rest Hl Hc IH]; intros H0.
    - constructor; [exact H0 | constructor].
    - constructor; [exact H0|]. apply IH. cbn. apply nextLayer_lenS.
  Qed.

  (* ---- one step of up, prover side ---- *)
  Lemma upP_eq : forall lk p p2 rest2,
    upP lk (p :: p2 :: rest2) =
    if (p2 =? N.lxor p 1)%N
    then ((p / 2)%N :: fst (upP lk rest2), snd (upP lk rest2))
    else ((p / 2)%N :: fst (upP lk (p2 :: rest2)), getSib lk (N.lxor p 1) :: snd (upP lk (p2 :: rest2))).
  Proof.
    intros.
    change (upP lk (p :: p2 :: rest2)) with
      (if (p2 =? N.lxor p 1)%N
       then let '(ps, hs) := upP lk rest2 in ((p / 2)%N :: ps, hs)
       else let '(ps, hs) := upP lk (p2 :: rest2) in ((p / 2)%N :: ps, getSib lk (N.lxor p 1) :: hs)).
    destruct (p2 =? N.lxor p 1)%N.
    - destruct (upP lk rest2); reflexivity.
    - destruct (upP lk (p2 :: rest2)); reflexivity.
  Qed.

  Lemma upP_ind : forall (lk : list digest) (Q : list N -> list N * list digest -> Prop),
    Q [] ([], []) ->
    (forall p, Q [p] ([(p / 2)%N], [getSib lk (N.lxor p 1)])) ->
    (forall p p2 rest2, p2 = N.lxor p 1 -> Q rest2 (upP lk rest2) ->
       Q (p :: p2 :: rest2) ((p / 2)%N :: fst (upP lk rest2), snd (upP lk rest2))) ->
    (forall p p2 rest2, p2 <> N.lxor p 1 -> Q (p2 :: rest2) (upP lk (p2 :: rest2)) ->
       Q (p :: p2 :: rest2) ((p / 2)%N :: fst (upP lk (p2 :: rest2)),
                             getSib lk (N.lxor p 1) :: snd (upP lk (p2 :: rest2)))) ->
    forall P, Q P (upP lk P).
  Proof.
    intros lk Q H0 H1 H2 H3.
    assert (G : forall n P, (length P <= n)%nat -> Q P (upP lk P)).
    { induction n as [|n IH]; intros P Hn.
      - destruct P; [exact H0 | cbn in Hn; lia].
      - destruct P as [|p [|p2 rest2]]; [exact H0 | apply H1 |].
        rewrite upP_eq. destruct (N.eqb_spec p2 (N.lxor p 1)) as [Heq|Hne].
        + apply H2; [assumption|]. apply IH. cbn in Hn. lia.
        + apply H3; [assumption|]. apply IH. cbn in *. lia. }
    intros P. apply (G (length P)). lia.
  Qed.

  Lemma upP_halves : forall lk P q, In q (fst (upP lk P)) -> exists p, In p P /\ q = (p / 2)%N.
  Proof.
    intros lk P. apply (upP_ind lk (fun P r => forall q, In q (fst r) -> exists p, In p P /\ q = (p / 2)%N)).
    - cbn. tauto.
    - cbn. intros p q [<-|[]]. exists p. tauto.
    - cbn [fst]. intros p p2 rest2 _ IH q [<-|Hq]; [exists p; cbn; tauto|].
      destruct (IH q Hq) as (p' & Hp' & ->). exists p'. cbn. tauto.
    - cbn [fst]. intros p p2 rest2 _ IH q [<-|Hq]; [exists p; cbn; tauto|].
      destruct (IH q Hq) as (p' & Hp' & ->). exists p'. cbn [In] in *. tauto.
  Qed.

  Lemma upP_counts : forall lk P,
    (length P + length (snd (upP lk P)) = 2 * length (fst (upP lk P)))%nat.
  Proof.
    intros lk P. apply (upP_ind lk (fun P r => (length P + length (snd r) = 2 * length (fst r))%nat)).
    - reflexivity.
    - reflexivity.
    - intros. cbn [fst snd length] in *. lia.
    - intros. cbn [fst snd length] in *. lia.
  Qed.

  Lemma upP_nonempty : forall lk P, P <> [] -> fst (upP lk P) <> [].
  Proof.
    intros lk P H. pose proof (upP_counts lk P). destruct P; [contradiction|].
    destruct (fst (upP lk (n :: P))); [cbn in *; lia | discriminate].
  Qed.

  Lemma upP_range : forall lk P, Forall (fun p => (N.to_nat p < length lk)%nat) P ->
    Forall (fun q => (N.to_nat q < length (nextLayer lk))%nat) (fst (upP lk P)).
  Proof.
    intros lk P H. apply Forall_forall. intros q Hq.
    destruct (upP_halves lk P q Hq) as (p & Hp & ->).
    rewrite Forall_forall in H. specialize (H p Hp).
    rewrite half_to_nat, nextLayer_length. apply div2_lt_half. assumption.
  Qed.

  Lemma half_mono_strict : forall p p2 : N, (p < p2)%N -> p2 <> N.lxor p 1 -> (p / 2 < p2 / 2)%N.
  Proof.
    intros p p2 Hlt Hne.
    destruct (N.even p) eqn:Ev.
    - rewrite (lxor1_even p Ev) in Hne.
      assert (p mod 2 = 0)%N by (apply N.even_spec in Ev; destruct Ev as [k ->]; rewrite N.mul_comm; apply N.mod_mul; lia).
      pose proof (N.div_mod p 2 ltac:(lia)). pose proof (N.div_mod p2 2 ltac:(lia)).
      pose proof (N.mod_lt p2 2 ltac:(lia)). lia.
    - destruct (lxor1_odd p Ev) as [_ H1].
      assert (p mod 2 = 1)%N.
      { rewrite <- N.negb_odd in Ev. apply negb_false_iff, N.odd_spec in Ev. destruct Ev as [k ->].
        rewrite N.add_comm, N.mul_comm, N.mod_add by lia. reflexivity. }
      pose proof (N.div_mod p 2 ltac:(lia)). pose proof (N.div_mod p2 2 ltac:(lia)).
      pose proof (N.mod_lt p2 2 ltac:(lia)). lia.
  Qed.

  Lemma upP_sincr : forall lk P, sincr P -> sincr (fst (upP lk P)).
  Proof.
    intros lk P. apply (upP_ind lk (fun P r => sincr P -> sincr (fst r))).
    - intros _. constructor.
    - intros p _. constructor; constructor.
    - cbn [fst]. intros p p2 rest2 Heq IH HS.
      inversion HS as [|? ? HS1 HF1]; subst. inversion HS1 as [|? ? HS2 HF2]; subst.
      constructor; [apply IH; assumption|].
      apply Forall_forall. intros q Hq. destruct (upP_halves lk rest2 q Hq) as (p3 & Hp3 & ->).
      rewrite Forall_forall in HF1, HF2.
      assert (p < N.lxor p 1)%N by (apply HF1; left; reflexivity).
      assert (N.lxor p 1 < p3)%N by (apply HF2; assumption).
      destruct (N.even p) eqn:Ev.
      + rewrite (lxor1_even p Ev) in *.
        assert (p mod 2 = 0)%N by (apply N.even_spec in Ev; destruct Ev as [k ->]; rewrite N.mul_comm; apply N.mod_mul; lia).
        pose proof (N.div_mod p 2 ltac:(lia)). pose proof (N.div_mod p3 2 ltac:(lia)).
        pose proof (N.mod_lt p3 2 ltac:(lia)). lia.
      + destruct (lxor1_odd p Ev) as [E1 H1]. rewrite E1 in *. lia.
    - cbn [fst]. intros p p2 rest2 Hne IH HS.
      inversion HS as [|? ? HS1 HF1]; subst.
      constructor; [apply IH; assumption|].
      apply Forall_forall. intros q Hq. destruct (upP_halves lk (p2 :: rest2) q Hq) as (p3 & Hp3 & ->).
      rewrite Forall_forall in HF1.
      assert (Hp2 : (p < p2)%N) by (apply HF1; left; reflexivity).
      destruct Hp3 as [<-|Hp3]; [apply half_mono_strict; assumption|].
      inversion HS1 as [|? ? _ HF2]; subst. rewrite Forall_forall in HF2.
      assert (p2 < p3)%N by (apply HF2; assumption).
      apply N.lt_le_trans with (p2 / 2)%N; [apply half_mono_strict; assumption|].
      apply N.div_le_mono; lia.
  Qed.

  Lemma upP_hints_ok : forall lk P, Forall lenS lk -> Forall (fun h => hint_len_ok s h = true) (snd (upP lk P)).
  Proof.
    intros lk P Hlk.
    assert (Hs : forall i, hint_len_ok s (getSib lk i) = true).
    { intros i. unfold getSib, hint_len_ok.
      destruct (Nat.lt_ge_cases (N.to_nat i) (length lk)).
      - rewrite Forall_forall in Hlk. rewrite (Hlk (nth (N.to_nat i) lk [])) by (apply nth_In; assumption).
        rewrite Nat.eqb_refl. apply orb_true_r.
      - rewrite nth_overflow by assumption. reflexivity. }
    apply (upP_ind lk (fun P r => Forall (fun h => hint_len_ok s h = true) (snd r))).
    - constructor.
    - intros. constructor; [apply Hs | constructor].
    - intros. assumption.
    - intros. constructor; [apply Hs | assumption].
  Qed.

  (* ---- one step of up, verifier side, on true nodes ---- *)
  Definition claimsOf (lk : list digest) (P : list N) : list (N * digest) :=
    map (fun p => (p, nth (N.to_nat p) lk [])) P.

  Lemma combine_real : forall lk p, Forall lenS lk -> (N.to_nat p < length lk)%nat ->
    combine p (nth (N.to_nat p) lk []) (nth (N.to_nat (N.lxor p 1)) lk []) =
    Some (nth (N.to_nat (p / 2)) (nextLayer lk) []).
  Proof.
    intros lk p Hlk Hp. unfold MerkleArray.combine.
    assert (Hq : (Nat.div2 (N.to_nat p) < length (nextLayer lk))%nat)
      by (rewrite nextLayer_length; apply div2_lt_half; assumption).
    rewrite half_to_nat, (nth_nextLayer lk _ Hq).
    rewrite Forall_forall in Hlk.
    destruct (N.even p) eqn:Ev.
    - assert (Hl : length (nth (N.to_nat p) lk []) = s) by (apply Hlk, nth_In; assumption).
      rewrite Hl. destruct (Nat.ltb_spec (2 * s) s); [lia|].
      rewrite (lxor1_even p Ev). rewrite even_to_nat in Ev.
      pose proof (even_double_div2 _ Ev) as E2.
      replace (N.to_nat (p + 1)) with (2 * Nat.div2 (N.to_nat p) + 1)%nat by lia.
      rewrite <- E2. reflexivity.
    - destruct (lxor1_odd p Ev) as [E1 H1]. rewrite E1. rewrite even_to_nat in Ev.
      pose proof (odd_double_div2 _ Ev) as E2.
      assert (Hi : (N.to_nat (p - 1) = 2 * Nat.div2 (N.to_nat p))%nat) by lia.
      assert (Hl : length (nth (N.to_nat (p - 1)) lk []) = s) by (apply Hlk, nth_In; lia).
      rewrite Hl. destruct (Nat.ltb_spec (2 * s) s); [lia|].
      rewrite Hi, <- E2. reflexivity.
  Qed.

  Definition notpaired (pos : N) (rest : list (N * digest)) : Prop :=
    match rest with [] => True | (pos2, _) :: _ => pos2 <> N.lxor pos 1 end.

  Definition consres (pos : N) (nh : digest) (r : (list (N * digest) * list digest) + vres) :=
    match r with
    | inl (r, hs) => inl (((pos / 2)%N, nh) :: r, hs)
    | inr e => inr e
    end.

  Lemma upV_paired : forall pos h h2 rest2 hints,
    upV ((pos, h) :: (N.lxor pos 1, h2) :: rest2) hints =
    match combine pos h h2 with
    | None => inr VPanic
    | Some nh => consres pos nh (upV rest2 hints)
    end.
  Proof.
    intros.
    change (upV ((pos, h) :: (N.lxor pos 1, h2) :: rest2) hints) with
      (if (N.lxor pos 1 =? N.lxor pos 1)%N
       then match combine pos h h2 with
            | None => inr VPanic
            | Some nh => match upV rest2 hints with
                         | inl (r, hs) => inl (((pos / 2)%N, nh) :: r, hs)
                         | inr e => inr e
                         end
            end
       else match stepHint s hnode pos h hints with
            | inr e => inr e
            | inl (nh, hints') => match upV ((N.lxor pos 1, h2) :: rest2) hints' with
                                  | inl (r, hs) => inl (((pos / 2)%N, nh) :: r, hs)
                                  | inr e => inr e
                                  end
            end).
    rewrite N.eqb_refl. reflexivity.
  Qed.

  Lemma upV_hint : forall pos h rest hints, notpaired pos rest ->
    upV ((pos, h) :: rest) hints =
    match stepHint s hnode pos h hints with
    | inr e => inr e
    | inl (nh, hints') => consres pos nh (upV rest hints')
    end.
  Proof.
    intros pos h rest hints Hn. destruct rest as [|[pos2 h2] rest2].
    - reflexivity.
    - cbn in Hn.
      change (upV ((pos, h) :: (pos2, h2) :: rest2) hints) with
        (if (pos2 =? N.lxor pos 1)%N
         then match combine pos h h2 with
              | None => inr VPanic
              | Some nh => match upV rest2 hints with
                           | inl (r, hs) => inl (((pos / 2)%N, nh) :: r, hs)
                           | inr e => inr e
                           end
              end
         else match stepHint s hnode pos h hints with
              | inr e => inr e
              | inl (nh, hints') => match upV ((pos2, h2) :: rest2) hints' with
                                    | inl (r, hs) => inl (((pos / 2)%N, nh) :: r, hs)
                                    | inr e => inr e
                                    end
              end).
      destruct (N.eqb_spec pos2 (N.lxor pos 1)); [contradiction | reflexivity].
  Qed.

  Lemma upV_cases : forall pos (rest : list (N * digest)),
    (exists h2 rest2, rest = (N.lxor pos 1, h2) :: rest2) \/ notpaired pos rest.
  Proof.
    intros pos [|[pos2 h2] rest2]; [right; exact I|].
    destruct (N.eq_dec pos2 (N.lxor pos 1)) as [->|Hne]; [left; eauto | right; exact Hne].
  Qed.

  Lemma up_complete : forall lk P more, Forall lenS lk ->
    Forall (fun p => (N.to_nat p < length lk)%nat) P ->
    upV (claimsOf lk P) (snd (upP lk P) ++ more) =
    inl (claimsOf (nextLayer lk) (fst (upP lk P)), more).
  Proof.
    intros lk P more Hlk. revert more.
    apply (upP_ind lk (fun P r => forall more, Forall (fun p => (N.to_nat p < length lk)%nat) P ->
             upV (claimsOf lk P) (snd r ++ more) = inl (claimsOf (nextLayer lk) (fst r), more))).
    - reflexivity.
    - intros p more HP. inversion HP; subst.
      cbn [claimsOf map snd fst app]. rewrite upV_hint by exact I.
      cbn [MerkleArray.stepHint]. unfold getSib. rewrite combine_real by assumption. reflexivity.
    - intros p p2 rest2 Heq IH more HP. inversion HP as [|? ? Hp HP1]; subst. inversion HP1 as [|? ? Hp2 HP2]; subst.
      cbn [claimsOf map snd fst]. rewrite upV_paired, combine_real by assumption.
      fold (claimsOf lk rest2). rewrite (IH more HP2). reflexivity.
    - intros p p2 rest2 Hne IH more HP. inversion HP as [|? ? Hp HP1]; subst.
      cbn [claimsOf map snd fst app]. rewrite upV_hint by exact Hne.
      cbn [MerkleArray.stepHint]. unfold getSib at 1. rewrite combine_real by assumption.
      change ((p2, nth (N.to_nat p2) lk []) :: map (fun p0 => (p0, nth (N.to_nat p0) lk [])) rest2)
        with (claimsOf lk (p2 :: rest2)).
      rewrite (IH more HP1). reflexivity.
  Qed.

  (* ---- the loops ---- *)
  Lemma proveLoop_cons : forall l l2 rest P,
    proveLoop (l :: l2 :: rest) P =
    (fst (proveLoop (l2 :: rest) (fst (upP l P))), snd (upP l P) ++ snd (proveLoop (l2 :: rest) (fst (upP l P)))).
  Proof.
    intros.
    change (proveLoop (l :: l2 :: rest) P) with
      (let '(pl', hs) := upP l P in
       let '(plf, hs') := proveLoop (l2 :: rest) pl' in (plf, hs ++ hs')).
    destruct (upP l P) as [P' hs]. cbn [fst snd].
    destruct (proveLoop (l2 :: rest) P'); reflexivity.
  Qed.

  Lemma vloop_step : forall fuel root pl hints pl' hints',
    (hints <> [] \/ (2 <= length pl)%nat) ->
    upV pl hints = inl (pl', hints') ->
    vloop (S fuel) root pl hints = vloop fuel root pl' hints'.
  Proof.
    intros fuel root pl hints pl' hints' Hc Hu. cbn [MerkleArray.vloop].
    destruct hints as [|h hs].
    - destruct Hc as [Hc|Hc]; [contradiction|].
      destruct (Nat.leb_spec (length pl) 1); [lia|]. rewrite Hu. reflexivity.
    - rewrite Hu. destruct (length pl <=? 1)%nat; reflexivity.
  Qed.

  Lemma loop_complete : forall lv, chain lv -> Forall lenS (hd [] lv) ->
    forall P fuel, P <> [] -> sincr P ->
      Forall (fun p => (N.to_nat p < length (hd [] lv))%nat) P ->
      (length (snd (proveLoop lv P)) + length P < fuel)%nat ->
      fst (proveLoop lv P) = [0%N] /\
      vloop fuel (hd [] (last lv [])) (claimsOf (hd [] lv) P) (snd (proveLoop lv P)) = VOk /\
      Forall (fun h => hint_len_ok s h = true) (snd (proveLoop lv P)).
  Proof.
    induction 1 as [top Ht | l rest Hl Hc IH]; intros H0 P fuel Hne HS HR Hf.
    - cbn [proveLoop hd last fst snd] in *.
      assert (HP : P = [0%N]).
      { destruct P as [|p P]; [contradiction|].
        inversion HR as [|? ? Hp HR']; subst. inversion HS as [|? ? HS' HF]; subst.
        assert (p = 0%N) by lia. subst p.
        destruct P as [|p2 P]; [reflexivity|].
        inversion HR' as [|? ? Hp2 _]; subst. inversion HF; subst. lia. }
      subst P. split; [reflexivity|]. split; [|constructor].
      destruct fuel; [cbn in Hf; lia|].
      destruct top as [|t [|? ?]]; try (cbn in Ht; lia).
      unfold claimsOf. cbn [map N.to_nat nth hd MerkleArray.vloop length Nat.leb].
      unfold inspectRoot. rewrite N.eqb_refl. cbn [andb].
      rewrite (proj2 (digest_eqb_eq t t) eq_refl). reflexivity.
    - rewrite proveLoop_cons in Hf |- *. cbn [hd fst snd] in *.
      change (last (l :: nextLayer l :: rest) []) with (last (nextLayer l :: rest) []).
      set (P' := fst (upP l P)) in *. set (hs := snd (upP l P)) in *.
      set (hs' := snd (proveLoop (nextLayer l :: rest) P')) in *.
      pose proof (upP_counts l P) as Hcnt. fold P' hs in Hcnt.
      pose proof (upP_nonempty l P Hne) as Hne'. fold P' in Hne'.
      assert (HP'len : (1 <= length P')%nat) by (destruct P'; [contradiction | cbn; lia]).
      rewrite app_length in Hf.
      destruct fuel as [|fuel]; [lia|].
      destruct (IH (nextLayer_lenS l) P' fuel Hne' (upP_sincr l P HS) (upP_range l P HR)) as (E1 & E2 & E3).
      { fold hs'. lia. }
      split; [exact E1|]. split.
      + rewrite (vloop_step fuel _ _ _ (claimsOf (nextLayer l) P') hs').
        * exact E2.
        * destruct P as [|p [|p2 P2]]; [contradiction | |].
          -- left. unfold hs. cbn. discriminate.
          -- right. unfold claimsOf. cbn. lia.
        * unfold hs, P'. apply up_complete; assumption.
      + apply Forall_app. split; [apply upP_hints_ok; assumption | exact E3].
  Qed.
  (* ---- one whole up() ---- *)
  Lemma upV_props : forall n pl hints pl' hints', (length pl <= n)%nat ->
    upV pl hints = inl (pl', hints') ->
    (forall it, In it pl' -> exists b, snd it = hnode b) /\
    (exists used, hints = used ++ hints') /\
    (pl <> [] -> pl' <> []) /\ (length pl' <= length pl)%nat.
  Proof.
    induction n as [|n IH]; intros pl hints pl' hints' Hn Hu.
    - destruct pl; [|cbn in Hn; lia]. cbn in Hu. inversion Hu; subst.
      repeat split; [intros ? [] | exists []; reflexivity | tauto | lia].
    - destruct pl as [|[pos h] rest].
      + cbn in Hu. inversion Hu; subst.
        repeat split; [intros ? [] | exists []; reflexivity | tauto | lia].
      + destruct (upV_cases pos rest) as [(h2 & rest2 & ->)|Hnp].
        * rewrite upV_paired in Hu. destruct (combine pos h h2) as [nh|] eqn:Ec; [|discriminate].
          destruct (upV rest2 hints) as [[r hs]|e] eqn:Er; [|discriminate]. cbn in Hu. inversion Hu; subst.
          destruct (IH rest2 hints r hints' ltac:(cbn in Hn; lia) Er) as (I1 & I2 & I3 & I4).
          repeat split.
          -- intros it [<-|Hit]; [|apply I1; assumption]. cbn.
             unfold MerkleArray.combine in Ec. destruct (N.even pos); destruct (_ <? _)%nat; inversion Ec; unfold MerkleArray.hpair; eauto.
          -- exact I2.
          -- discriminate.
          -- cbn [length] in *. lia.
        * rewrite upV_hint in Hu by assumption.
          destruct hints as [|sh hints1]; [discriminate|]. cbn [MerkleArray.stepHint] in Hu.
          destruct (combine pos h sh) as [nh|] eqn:Ec; [|discriminate].
          destruct (upV rest hints1) as [[r hs]|e] eqn:Er; [|discriminate]. cbn in Hu. inversion Hu; subst.
          destruct (IH rest hints1 r hints' ltac:(cbn in Hn; lia) Er) as (I1 & (used & I2) & I3 & I4).
          repeat split.
          -- intros it [<-|Hit]; [|apply I1; assumption]. cbn.
             unfold MerkleArray.combine in Ec. destruct (N.even pos); destruct (_ <? _)%nat; inversion Ec; unfold MerkleArray.hpair; eauto.
          -- exists (sh :: used). rewrite I2. reflexivity.
          -- discriminate.
          -- cbn [length] in *. lia.
  Qed.

  Lemma upV_err_not_ok : forall n pl hints e, (length pl <= n)%nat -> upV pl hints = inr e -> e <> VOk.
  Proof.
    induction n as [|n IH]; intros pl hints e Hn Hu.
    - destruct pl; [cbn in Hu; discriminate | cbn in Hn; lia].
    - destruct pl as [|[pos h] rest]; [cbn in Hu; discriminate|].
      destruct (upV_cases pos rest) as [(h2 & rest2 & ->)|Hnp].
      + rewrite upV_paired in Hu. destruct (combine pos h h2) as [nh|]; [|inversion Hu; discriminate].
        destruct (upV rest2 hints) as [[r hs]|e'] eqn:Er; [discriminate|]. cbn in Hu. inversion Hu; subst.
        apply (IH rest2 hints); [cbn in Hn; lia | assumption].
      + rewrite upV_hint in Hu by assumption.
        destruct hints as [|sh hints1]; [cbn in Hu; inversion Hu; discriminate|]. cbn [MerkleArray.stepHint] in Hu.
        destruct (combine pos h sh) as [nh|]; [|inversion Hu; discriminate].
        destruct (upV rest hints1) as [[r hs]|e'] eqn:Er; [discriminate|]. cbn in Hu. inversion Hu; subst.
        apply (IH rest hints1); [cbn in Hn; lia | assumption].
  Qed.

  (* ---- the loop ---- *)
  Lemma vloop_unfold : forall fuel root pl hints,
    vloop fuel root pl hints =
    match hints, (length pl <=? 1)%nat with
    | [], true => inspectRoot root pl
    | _, _ => match fuel with
              | O => VOutOfFuel
              | S f => match upV pl hints with
                       | inr e => e
                       | inl (pl', hints') => vloop f root pl' hints'
                       end
              end
    end.
  Proof. intros [|f] root pl hints; reflexivity. Qed.


  Lemma vloop_O : forall root pl hints, vloop 0 root pl hints = VOk ->
    hints = [] /\ (length pl <= 1)%nat /\ inspectRoot root pl = VOk.
  Proof.
    intros root pl hints H. rewrite vloop_unfold in H.
    destruct hints; [|discriminate H]. destruct (Nat.leb_spec (length pl) 1); [|discriminate H]. auto.
  Qed.

  Lemma vloop_S : forall f root pl hints, vloop (S f) root pl hints = VOk ->
    (hints = [] /\ (length pl <= 1)%nat /\ inspectRoot root pl = VOk) \/
    (exists pl' hints', upV pl hints = inl (pl', hints') /\ vloop f root pl' hints' = VOk).
  Proof.
    intros f root pl hints H. rewrite vloop_unfold in H.
    assert (G : match upV pl hints with
                | inr e => e
                | inl (pl', hints') => vloop f root pl' hints'
                end = VOk ->
                exists pl' hints', upV pl hints = inl (pl', hints') /\ vloop f root pl' hints' = VOk).
    { intros G. destruct (upV pl hints) as [[pl' hints']|e] eqn:Eu; [eauto|].
      exfalso. apply (upV_err_not_ok (length pl) pl hints e (le_n _) Eu). exact G. }
    destruct hints; [|right; apply G; exact H].
    destruct (Nat.leb_spec (length pl) 1); [left; auto | right; apply G; exact H].
  Qed.

  Lemma inspectRoot_ok : forall root pl, inspectRoot root pl = VOk ->
    exists rest, pl = (0%N, root) :: rest.
  Proof.
    intros root pl H. unfold inspectRoot in H. destruct pl as [|[p h] rest]; [discriminate H|].
    destruct (N.eqb_spec p 0); [|discriminate H]. cbn [andb] in H.
    destruct (digest_eqb h root) eqn:E1; [|discriminate H]. apply digest_eqb_eq in E1. subst. eauto.
  Qed.
End Struct.
