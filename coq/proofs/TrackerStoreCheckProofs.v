(* C47 lemmas, part 9: what a passing verdict of [check] means. *)
From Coq Require Import NArith ZArith List Bool String.
From Verif.lib Require Import Term.
From Verif.model Require Import TrackerStore TrackerStoreCheck.
Import ListNotations.

Lemma list_eqb_N_eq (x : list N) : forall y, list_eqb N.eqb x y = true -> x = y.
Proof.
  induction x as [|a x IH]; intros [|b y] H; cbn in H; try discriminate; [reflexivity|].
  apply andb_true_iff in H as [H1 H2]. apply N.eqb_eq in H1. subst. f_equal. apply IH, H2.
Qed.

Lemma term_eqb_eq : forall a b, term_eqb a b = true -> a = b.
Proof.
  fix IH 1. intros [z|x|s|l] [z'|x'|s'|l'] H; cbn in H; try discriminate.
  - apply Z.eqb_eq in H. subst. reflexivity.
  - f_equal. apply list_eqb_N_eq, H.
  - apply String.eqb_eq in H. subst. reflexivity.
  - f_equal. revert l' H. induction l as [|t l IHl]; intros [|t' l'] H; try discriminate; [reflexivity|].
    apply andb_true_iff in H as [H1 H2]. f_equal; [apply IH, H1|apply IHl, H2].
Qed.

Lemma classify_not_pass q sqlo kvo s k ko : classify q sqlo kvo s k ko <> v_ok /\ classify q sqlo kvo s k ko <> v_triv.
Proof.
  unfold classify.
  repeat match goal with
         | |- context [if ?c then _ else _] => destruct c
         | |- context [match recorded_name ?q with _ => _ end] => destruct (recorded_name q)
         | |- context [match orig_reader_name ?q with _ => _ end] => destruct (orig_reader_name q)
         end;
  try (split; discriminate).
  destruct q; repeat match goal with |- context [if ?c then _ else _] => destruct c end; split; discriminate.
Qed.

(* a passing verdict: the history respects the writers' protocol, both backends gave the same
   canonical answer, and it is the answer of the abstract store and of the transcribed (repaired)
   key-value code *)
Theorem check_sound ops tq sqlo kvo :
  check (TL [TL ops; tq; sqlo; kvo]) = v_ok \/ check (TL [TL ops; tq; sqlo; kvo]) = v_triv ->
  sqlo = kvo /\
  exists l q s k ko, map_opt dec_op ops = Some l /\ dec_query tq = Some q /\ query_ok q = true /\
    run_ops spec_init kv_init kv_init l = Some (s, k, ko) /\ sqlo = obs_spec s q /\ kvo = obs_kv false k q.
Proof.
  cbn [check]. destruct (map_opt dec_op ops) as [l|]; [|intros [H|H]; discriminate].
  destruct (dec_query tq) as [q|]; [|intros [H|H]; discriminate].
  destruct (query_ok q) eqn:QO; cbn [negb]; [|intros [H|H]; discriminate].
  destruct (run_ops spec_init kv_init kv_init l) as [[[s k] ko]|] eqn:RO; [|intros [H|H]; discriminate].
  destruct (term_eqb sqlo kvo) eqn:E.
  - unfold verdict. cbn [negb].
    destruct (term_eqb sqlo (obs_spec s q)) eqn:E1; cbn [andb negb]; [|intros [H|H]; discriminate].
    destruct (term_eqb kvo (obs_kv false k q)) eqn:E2; cbn [negb]; [|intros [H|H]; discriminate].
    intros _. apply term_eqb_eq in E, E1, E2. split; [exact E|]. exists l, q, s, k, ko. repeat split; assumption || reflexivity.
  - intros H. destruct (classify_not_pass q sqlo kvo s k ko) as [N1 N2]. destruct H; contradiction.
Qed.
