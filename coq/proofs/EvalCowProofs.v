(* Lemmas about the copy-on-write overlay (model/EvalCow.v) and the state+error monad of
   model/EvalApply.v: association lists, lookup/put, what commit does to the view, and the
   generic "this projection of the state is not touched" reasoning used for child
   isolation (C19). *)
From Coq Require Import NArith List Bool Lia ZifyN ZifyBool.
From Verif.model Require Import Overflow EvalCow EvalApply.
Import ListNotations.
Open Scope N_scope.

(* ------------------------------------------------------------------ association lists *)
Lemma afind_aupsert_same {V} k (v : V) l : afind k (aupsert k v l) = Some v.
Proof.
  induction l as [|[k' v'] r IH]; cbn [aupsert afind].
  - now rewrite N.eqb_refl.
  - destruct (k' =? k) eqn:E; cbn [afind]; rewrite E; auto.
Qed.

Lemma afind_aupsert_other {V} k k' (v : V) l : k <> k' -> afind k' (aupsert k v l) = afind k' l.
Proof.
  intros Hne. induction l as [|[k2 v2] r IH]; cbn [aupsert afind].
  - destruct (k =? k') eqn:E; [apply N.eqb_eq in E; contradiction | reflexivity].
  - destruct (k2 =? k) eqn:E; cbn [afind].
    + apply N.eqb_eq in E. subst k2.
      destruct (k =? k') eqn:E2; [apply N.eqb_eq in E2; contradiction | reflexivity].
    + destruct (k2 =? k'); auto.
Qed.

Lemma map_fst_aupsert_in {V} k (v : V) l : In k (map fst (aupsert k v l)).
Proof.
  induction l as [|[k' v'] r IH]; cbn [aupsert map fst].
  - now left.
  - destruct (k' =? k) eqn:E; cbn [map fst].
    + left. now apply N.eqb_eq.
    + right. exact IH.
Qed.

(* ------------------------------------------------------------------ projections of the writers *)
Lemma parents_put c a x : c_parents (put c a x) = c_parents c. Proof. reflexivity. Qed.
Lemma base_put c a x : c_base (put c a x) = c_base c. Proof. reflexivity. Qed.
Lemma parents_addfee c f : c_parents (addfee c f) = c_parents c. Proof. reflexivity. Qed.
Lemma base_addfee c f : c_base (addfee c f) = c_base c. Proof. reflexivity. Qed.
Lemma parents_addtx c t l s le : c_parents (addtx c t l s le) = c_parents c. Proof. reflexivity. Qed.
Lemma base_addtx c t l s le : c_base (addtx c t l s le) = c_base c. Proof. reflexivity. Qed.

Lemma txids_put c a x : l_txids (c_top (put c a x)) = l_txids (c_top c). Proof. reflexivity. Qed.
Lemma leases_put c a x : l_leases (c_top (put c a x)) = l_leases (c_top c). Proof. reflexivity. Qed.
Lemma txncount_put c a x : l_txncount (c_top (put c a x)) = l_txncount (c_top c). Proof. reflexivity. Qed.
Lemma fees_put c a x : l_fees (c_top (put c a x)) = l_fees (c_top c). Proof. reflexivity. Qed.
Lemma txids_addfee c f : l_txids (c_top (addfee c f)) = l_txids (c_top c). Proof. reflexivity. Qed.
Lemma leases_addfee c f : l_leases (c_top (addfee c f)) = l_leases (c_top c). Proof. reflexivity. Qed.
Lemma txncount_addfee c f : l_txncount (c_top (addfee c f)) = l_txncount (c_top c). Proof. reflexivity. Qed.
Lemma accts_addfee c f : l_accts (c_top (addfee c f)) = l_accts (c_top c). Proof. reflexivity. Qed.
Lemma accts_addtx c t l s le : l_accts (c_top (addtx c t l s le)) = l_accts (c_top c). Proof. reflexivity. Qed.
Lemma fees_addtx c t l s le : l_fees (c_top (addtx c t l s le)) = l_fees (c_top c). Proof. reflexivity. Qed.

Lemma parents_put_holding c a i d : c_parents (put_holding_delta c a i d) = c_parents c. Proof. reflexivity. Qed.
Lemma parents_put_params c a i d : c_parents (put_params_delta c a i d) = c_parents c. Proof. reflexivity. Qed.
Lemma parents_set_creatable c i v : c_parents (set_creatable c i v) = c_parents c. Proof. reflexivity. Qed.
Lemma lookup_put_holding c a i d b : lookup (put_holding_delta c a i d) b = lookup c b. Proof. reflexivity. Qed.
Lemma lookup_put_params c a i d b : lookup (put_params_delta c a i d) b = lookup c b. Proof. reflexivity. Qed.
Lemma lookup_set_creatable c i v b : lookup (set_creatable c i v) b = lookup c b. Proof. reflexivity. Qed.

(* ------------------------------------------------------------------ lookup / put *)
Lemma lookup_put_same c a x : lookup (put c a x) a = x.
Proof. unfold lookup, put. cbn. now rewrite afind_aupsert_same. Qed.

Lemma lookup_put_other c a b x : a <> b -> lookup (put c a x) b = lookup c b.
Proof. intros H. unfold lookup, put. cbn. now rewrite afind_aupsert_other. Qed.

Lemma lookup_addfee c f a : lookup (addfee c f) a = lookup c a.
Proof. reflexivity. Qed.

Lemma lookup_addtx c t l s le a : lookup (addtx c t l s le) a = lookup c a.
Proof. reflexivity. Qed.

Lemma lookup_child c a : lookup (child c) a = lookup c a.
Proof. reflexivity. Qed.

Lemma modified_put c a x : In a (modified (put c a x)).
Proof. unfold modified, put. cbn. apply map_fst_aupsert_in. Qed.

(* the account view of a merged layer: child entries win (keys of a layer are unique) *)
Definition ukeys {V} (l : list (N * V)) : Prop := NoDup (map fst l).

Lemma afind_none_notin {V} a (l : list (N * V)) : ~ In a (map fst l) -> afind a l = None.
Proof.
  induction l as [|[k v] r IH]; cbn [map fst afind In]; intros H; [reflexivity|].
  destruct (k =? a) eqn:E.
  - apply N.eqb_eq in E. exfalso. apply H. now left.
  - apply IH. intro. apply H. now right.
Qed.

Lemma afind_merge_accts into from a : ukeys from ->
  afind a (merge_accts into from) = match afind a from with Some x => Some x | None => afind a into end.
Proof.
  revert into. induction from as [|[k v] r IH]; intros into Hu; cbn [merge_accts afind]; [reflexivity|].
  unfold ukeys in Hu. cbn [map fst] in Hu. apply NoDup_cons_iff in Hu. destruct Hu as [Hk Hr].
  rewrite IH by exact Hr. destruct (k =? a) eqn:E.
  - apply N.eqb_eq in E. subst k. rewrite (afind_none_notin a r Hk). apply afind_aupsert_same.
  - destruct (afind a r); [reflexivity|]. apply afind_aupsert_other. intro H. subst. now rewrite N.eqb_refl in E.
Qed.

Lemma in_map_fst_aupsert {V} k k' (v : V) l : In k' (map fst (aupsert k v l)) -> k' = k \/ In k' (map fst l).
Proof.
  induction l as [|[k2 v2] r IH]; cbn [aupsert map fst In].
  - intros [H|[]]. now left.
  - destruct (k2 =? k) eqn:E; cbn [map fst In]; intros [H|H]; auto.
    destruct (IH H); auto.
Qed.

Lemma ukeys_aupsert {V} k (v : V) l : ukeys l -> ukeys (aupsert k v l).
Proof.
  unfold ukeys. induction l as [|[k2 v2] r IH]; cbn [aupsert map fst]; intros H.
  - constructor; [intros []|constructor].
  - apply NoDup_cons_iff in H. destruct H as [Hk Hr].
    destruct (k2 =? k) eqn:E; cbn [map fst]; constructor; auto.
    intro Hin. apply in_map_fst_aupsert in Hin. destruct Hin as [->|Hin]; [now rewrite N.eqb_refl in E | contradiction].
Qed.

(* well-formed overlay: the current cow's account list has unique keys (AccountDeltas keeps
   an index map next to the slice) *)
Definition okc (c : cow) : Prop := ukeys (l_accts (c_top c)).

Lemma okc_put c a x : okc c -> okc (put c a x).
Proof. unfold okc, put. cbn. apply ukeys_aupsert. Qed.
Lemma okc_addfee c f : okc c -> okc (addfee c f). Proof. exact (fun H => H). Qed.
Lemma okc_addtx c t l s le : okc c -> okc (addtx c t l s le). Proof. exact (fun H => H). Qed.
Lemma okc_child c : okc (child c). Proof. constructor. Qed.

(* commitToParent does not change what lookup returns *)
Lemma lookup_commit c a : okc c -> lookup (commit c) a = lookup c a.
Proof.
  destruct c as [t ps b]. unfold okc. cbn [c_top]. intros Hok.
  unfold commit, lookup. cbn [c_parents]. destruct ps as [|p ps]; [reflexivity|].
  cbn [c_top c_parents c_base layers_lookup merge_layer l_accts].
  rewrite afind_merge_accts by exact Hok. destruct (afind a (l_accts t)); reflexivity.
Qed.

Lemma recycle_child c : recycle (child c) = c.
Proof. destruct c; reflexivity. Qed.

(* parents and base untouched *)
Definition same_below (c c' : cow) : Prop :=
  c_parents c' = c_parents c /\ c_base c' = c_base c.
Lemma same_below_refl c : same_below c c. Proof. split; reflexivity. Qed.
Lemma same_below_trans a b c : same_below a b -> same_below b c -> same_below a c.
Proof. intros [H1 H2] [H3 H4]. split; congruence. Qed.

Lemma recycle_of_child c c1 : same_below (child c) c1 -> recycle c1 = c.
Proof.
  intros [Hp Hb]. cbn [child c_parents c_base] in Hp, Hb. unfold recycle. rewrite Hp, Hb. destruct c; reflexivity.
Qed.

(* a change of the current cow that leaves accounts, txids, leases and the fee counter alone *)
Definition aux_eq (l l' : layer) : Prop :=
  l_accts l' = l_accts l /\ l_txids l' = l_txids l /\ l_leases l' = l_leases l /\ l_fees l' = l_fees l.

(* ------------------------------------------------------------------ frame reasoning *)
(* [R c c'] is any reflexive, transitive relation between the state before and after that
   the account / fee writers respect: "projection f unchanged" (child isolation) or
   "invariant I preserved" *)
Section Frame.
  Variable R : cow -> cow -> Prop.
  Hypothesis Hrefl : forall c, R c c.
  Hypothesis Htrans : forall a b c, R a b -> R b c -> R a c.
  Hypothesis Hput : forall c a x, R c (put c a x).
  Hypothesis Hfee : forall c fee, R c (addfee c fee).
  Hypothesis Hph : forall c a i d, R c (put_holding_delta c a i d).
  Hypothesis Hpp : forall c a i d, R c (put_params_delta c a i d).
  Hypothesis Hcr : forall c i v, R c (set_creatable c i v).
  Hypothesis Haux : forall c l', aux_eq (c_top c) l' -> R c (set_top c l').

  Definition keeps {A} (m : M A) : Prop := forall c, R c (fst (m c)).

  Ltac aux := intro c; apply Haux; repeat split.
  Lemma keeps_get_appparams a i : keeps (m_get_appparams a i). Proof. intro c. apply Hrefl. Qed.
  Lemma keeps_get_applocal a i : keeps (m_get_applocal a i). Proof. intro c. apply Hrefl. Qed.
  Lemma keeps_get_app_creator i : keeps (m_get_app_creator i). Proof. intro c. apply Hrefl. Qed.
  Lemma keeps_allocated a i g : keeps (m_allocated a i g). Proof. intro c. apply Hrefl. Qed.
  Lemma keeps_getkey a i g k : keeps (m_getkey a i g k). Proof. intro c. apply Hrefl. Qed.
  Lemma keeps_ensure_sd a i g act : keeps (m_ensure_sd a i g act). Proof. intro c. apply Hrefl. Qed.
  Lemma keeps_get_box app name : keeps (m_get_box app name). Proof. intro c. apply Hrefl. Qed.
  Lemma keeps_put_appparams a i p : keeps (m_put_appparams a i p). Proof. aux. Qed.
  Lemma keeps_put_applocal a i p : keeps (m_put_applocal a i p). Proof. aux. Qed.
  Lemma keeps_del_appparams a i : keeps (m_del_appparams a i).
  Proof. intro c. unfold m_del_appparams. destruct (in_mods c a); [apply Haux; repeat split | apply Hrefl]. Qed.
  Lemma keeps_del_applocal a i : keeps (m_del_applocal a i).
  Proof. intro c. unfold m_del_applocal. destruct (in_mods c a); [apply Haux; repeat split | apply Hrefl]. Qed.
  Lemma keeps_set_app_creatable i v : keeps (m_set_app_creatable i v). Proof. aux. Qed.
  Lemma keeps_put_sd a i g sd : keeps (m_put_sd a i g sd). Proof. aux. Qed.
  Lemma keeps_put_box app name v : keeps (m_put_box app name v). Proof. aux. Qed.
  Lemma keeps_inctxn : keeps m_inctxn. Proof. aux. Qed.

  Lemma keeps_ret {A} (a : A) : keeps (ret a). Proof. intro c. apply Hrefl. Qed.
  Lemma keeps_fail {A} e : keeps (@fail A e). Proof. intro c. apply Hrefl. Qed.
  Lemma keeps_lift {A} (r : res A) : keeps (lift r). Proof. intro c. apply Hrefl. Qed.
  Lemma keeps_lookup a : keeps (m_lookup a). Proof. intro c. apply Hrefl. Qed.
  Lemma keeps_modified : keeps m_modified. Proof. intro c. apply Hrefl. Qed.
  Lemma keeps_put a x : keeps (m_put a x). Proof. intro c. apply Hput. Qed.
  Lemma keeps_addfee fee : keeps (m_addfee fee). Proof. intro c. apply Hfee. Qed.
  Lemma keeps_get_params a i : keeps (m_get_params a i). Proof. intro c. apply Hrefl. Qed.
  Lemma keeps_get_holding a i : keeps (m_get_holding a i). Proof. intro c. apply Hrefl. Qed.
  Lemma keeps_get_creator i : keeps (m_get_creator i). Proof. intro c. apply Hrefl. Qed.
  Lemma keeps_counter : keeps m_counter. Proof. intro c. apply Hrefl. Qed.
  Lemma keeps_put_params a i p : keeps (m_put_params a i p). Proof. intro c. apply Hpp. Qed.
  Lemma keeps_put_holding a i h : keeps (m_put_holding a i h). Proof. intro c. apply Hph. Qed.
  Lemma keeps_del_params a i : keeps (m_del_params a i).
  Proof. intro c. unfold m_del_params. destruct (in_mods c a); [apply Hpp | apply Hrefl]. Qed.
  Lemma keeps_del_holding a i : keeps (m_del_holding a i).
  Proof. intro c. unfold m_del_holding. destruct (in_mods c a); [apply Hph | apply Hrefl]. Qed.
  Lemma keeps_set_creatable i v : keeps (m_set_creatable i v). Proof. intro c. apply Hcr. Qed.
  Lemma keeps_checkdup P rnd t s l : keeps (m_checkdup P rnd t s l).
  Proof. intro c. unfold m_checkdup. destruct (checkdup P rnd c t s l); apply Hrefl. Qed.

  Lemma keeps_bind {A B} (m : M A) (k : A -> M B) :
    keeps m -> (forall a, keeps (k a)) -> keeps (bind m k).
  Proof.
    intros Hm Hk c. unfold bind. specialize (Hm c).
    destruct (m c) as [c1 [a|e]]; cbn [fst] in *.
    - eapply Htrans; [exact Hm | apply Hk].
    - exact Hm.
  Qed.

  Lemma keeps_when b (m : M unit) : keeps m -> keeps (when b m).
  Proof. intros H. destruct b; [exact H | apply keeps_ret]. Qed.
  Lemma keeps_guard b e : keeps (guard b e).
  Proof. destruct b; [apply keeps_ret | apply keeps_fail]. Qed.

  Ltac kp :=
    repeat lazymatch goal with
      | |- keeps (bind _ _) => apply keeps_bind; [|intro]
      | |- keeps (ret _) => apply keeps_ret
      | |- keeps (fail _) => apply keeps_fail
      | |- keeps (lift _) => apply keeps_lift
      | |- keeps (m_lookup _) => apply keeps_lookup
      | |- keeps (m_put _ _) => apply keeps_put
      | |- keeps (m_addfee _) => apply keeps_addfee
      | |- keeps (guard _ _) => apply keeps_guard
      | |- keeps m_modified => apply keeps_modified
      | |- keeps (m_checkdup _ _ _ _ _) => apply keeps_checkdup
      | |- keeps (when _ _) => apply keeps_when
      | |- keeps (m_get_params _ _) => apply keeps_get_params
      | |- keeps (m_get_holding _ _) => apply keeps_get_holding
      | |- keeps (m_get_creator _) => apply keeps_get_creator
      | |- keeps m_counter => apply keeps_counter
      | |- keeps (m_put_params _ _ _) => apply keeps_put_params
      | |- keeps (m_put_holding _ _ _) => apply keeps_put_holding
      | |- keeps (m_del_params _ _) => apply keeps_del_params
      | |- keeps (m_del_holding _ _) => apply keeps_del_holding
      | |- keeps (m_set_creatable _ _) => apply keeps_set_creatable
      | |- keeps (m_get_appparams _ _) => apply keeps_get_appparams
      | |- keeps (m_get_applocal _ _) => apply keeps_get_applocal
      | |- keeps (m_get_app_creator _) => apply keeps_get_app_creator
      | |- keeps (m_allocated _ _ _) => apply keeps_allocated
      | |- keeps (m_getkey _ _ _ _) => apply keeps_getkey
      | |- keeps (m_ensure_sd _ _ _ _) => apply keeps_ensure_sd
      | |- keeps (m_get_box _ _) => apply keeps_get_box
      | |- keeps (m_put_appparams _ _ _) => apply keeps_put_appparams
      | |- keeps (m_put_applocal _ _ _) => apply keeps_put_applocal
      | |- keeps (m_del_appparams _ _) => apply keeps_del_appparams
      | |- keeps (m_del_applocal _ _) => apply keeps_del_applocal
      | |- keeps (m_set_app_creatable _ _) => apply keeps_set_app_creatable
      | |- keeps (m_put_sd _ _ _ _) => apply keeps_put_sd
      | |- keeps (m_put_box _ _ _) => apply keeps_put_box
      | |- keeps m_inctxn => apply keeps_inctxn
      end.

  Lemma keeps_move_side E d a amt r : keeps (move_side E d a amt r).
  Proof.
    unfold move_side. kp.
    destruct (if d then osub 64 _ amt else oadd 64 _ amt) as [v o]. destruct o; kp.
  Qed.

  Lemma keeps_move E from to amt fr tr : keeps (move E from to amt fr tr).
  Proof. unfold move. kp; apply keeps_move_side. Qed.

  Lemma keeps_get_rewarded E a : keeps (get_rewarded E a).
  Proof. unfold get_rewarded. kp. Qed.

  Lemma keeps_take_fee E tx ad : keeps (take_fee E tx ad).
  Proof. unfold take_fee. kp. apply keeps_move. Qed.

  Lemma keeps_rekey tx : keeps (rekey tx).
  Proof. unfold rekey. kp. Qed.

  Lemma keeps_payment E s rcv amt cl ad : keeps (payment E s rcv amt cl ad).
  Proof.
    unfold payment. apply keeps_bind.
    - destruct (negb (amt =? 0) || negb (rcv =? 0)); kp. apply keeps_move.
    - intro ad1. destruct (cl =? 0); kp; try apply keeps_get_rewarded. apply keeps_move.
  Qed.

  Lemma keeps_keyreg E s fee vpk spk sppk vf vl vkd np : keeps (keyreg E s fee vpk spk sppk vf vl vkd np).
  Proof.
    unfold keyreg. kp. destruct ((vpk =? 0) || (spk =? 0)); kp.
    destruct np; [destruct (p_nonpart (e_P E))|]; kp.
  Qed.

  Lemma keeps_some_or_fail {A} (o : option A) : keeps (some_or_fail o).
  Proof. destruct o; cbn [some_or_fail]; kp. Qed.

  Lemma keeps_asset_params i : keeps (asset_params i).
  Proof. unfold asset_params. kp; apply keeps_some_or_fail. Qed.

  Lemma keeps_asset_config E s asset cp ctr : keeps (asset_config E s asset cp ctr).
  Proof.
    unfold asset_config. destruct (asset =? 0); kp; [apply keeps_asset_params|].
    destruct a as [params creator]. kp. destruct (ap_is_zero cp); kp.
  Qed.

  Lemma keeps_take_out a asset amount bp : keeps (take_out a asset amount bp).
  Proof.
    unfold take_out. destruct (amount =? 0); kp; [apply keeps_some_or_fail|].
    destruct (osub 64 _ amount) as [v o]. destruct o; kp.
  Qed.

  Lemma keeps_put_in a asset amount bp : keeps (put_in a asset amount bp).
  Proof.
    unfold put_in. destruct (amount =? 0); kp; [apply keeps_some_or_fail|].
    destruct (oadd 64 _ amount) as [v o]. destruct o; kp.
  Qed.

  Lemma keeps_asset_transfer E s asset amt asender rcv closeto : keeps (asset_transfer E s asset amt asender rcv closeto).
  Proof.
    unfold asset_transfer. apply keeps_bind.
    - destruct (asender =? 0); kp. apply keeps_asset_params.
    - intros [source clawback]. kp.
      + destruct a; kp. apply keeps_asset_params.
      + apply keeps_take_out.
      + apply keeps_put_in.
      + destruct (closeto =? 0); kp; first [apply keeps_some_or_fail | apply keeps_take_out | apply keeps_put_in].
  Qed.

  Lemma keeps_asset_freeze s asset acct fr : keeps (asset_freeze s asset acct fr).
  Proof. unfold asset_freeze. kp; first [apply keeps_asset_params | apply keeps_some_or_fail]. Qed.

  Lemma keeps_allocate_app a i g sp : keeps (allocate_app a i g sp).
  Proof. unfold allocate_app. kp. Qed.
  Lemma keeps_deallocate_app a i g : keeps (deallocate_app a i g).
  Proof. unfold deallocate_app. kp. Qed.
  Lemma keeps_set_key a i g k b : keeps (set_key a i g k b).
  Proof. unfold set_key. kp. apply keeps_some_or_fail. Qed.
  Lemma keeps_del_key a i g k : keeps (del_key a i g k).
  Proof. unfold del_key. kp. apply keeps_some_or_fail. Qed.
  Lemma keeps_new_box E app n nl sz : keeps (new_box E app n nl sz).
  Proof. unfold new_box. kp. Qed.
  Lemma keeps_del_box app n nl : keeps (del_box app n nl).
  Proof. unfold del_box. kp. destruct a; kp. Qed.
  Lemma keeps_length_checks E nl sz : keeps (length_checks E nl sz).
  Proof. unfold length_checks. kp. Qed.

  Lemma keeps_apply_sbody E s b ad ctr : keeps (apply_sbody E s b ad ctr).
  Proof.
    unfold apply_sbody. destruct b; kp;
      first [apply keeps_payment | apply keeps_asset_config | apply keeps_asset_transfer | apply keeps_asset_freeze].
  Qed.

  Lemma keeps_perform E app fee b : keeps (perform E app fee b).
  Proof. unfold perform. kp; [apply keeps_take_fee | apply keeps_apply_sbody]. Qed.

  Lemma keeps_perform_group E app g : keeps (perform_group E app g).
  Proof. induction g as [|[fee b] r IH]; cbn [perform_group]; kp; [apply keeps_perform | exact IH]. Qed.

  Lemma keeps_run_op E app clear op : keeps (run_op E app clear op).
  Proof.
    unfold run_op. destruct op.
    - kp; [apply keeps_length_checks|]. match goal with |- keeps (match ?x with _ => _ end) => destruct x end; kp. apply keeps_new_box.
    - kp; [apply keeps_length_checks | apply keeps_del_box].
    - kp; [apply keeps_length_checks | apply keeps_del_box | apply keeps_new_box].
    - kp; [apply keeps_some_or_fail | apply keeps_set_key].
    - kp; [apply keeps_some_or_fail | apply keeps_del_key].
    - apply keeps_set_key.
    - apply keeps_del_key.
    - kp. apply keeps_perform_group.
    - kp; apply keeps_some_or_fail.
    - kp.
  Qed.

  Lemma keeps_run_script E app clear script : keeps (run_script E app clear script).
  Proof. induction script as [|op r IH]; cbn [run_script]; kp; [apply keeps_run_op | exact IH]. Qed.

  (* StatefulEval: the calf is a child of the current cow; what it did reaches the current cow
     only through commitToParent *)
  Hypothesis Hsb : forall E app clear script c, same_below c (fst (run_script E app clear script c)).
  Hypothesis Hcommit : forall c c1, same_below (child c) c1 -> R (child c) c1 -> R c (commit c1).

  Lemma keeps_stateful_eval E app clear script acc : keeps (stateful_eval E app clear script acc).
  Proof.
    intro c. unfold stateful_eval.
    pose proof (Hsb E app clear script (child c)) as Hs.
    pose proof (keeps_run_script E app clear script (child c)) as Hr.
    destruct (run_script E app clear script (child c)) as [c1 [u|e]]; cbn [fst] in *.
    - destruct acc; cbn [fst].
      + apply Hcommit; assumption.
      + rewrite (recycle_of_child _ _ Hs). apply Hrefl.
    - rewrite (recycle_of_child _ _ Hs). apply Hrefl.
  Qed.

  Lemma keeps_create_application E cr call ctr : keeps (create_application E cr call ctr).
  Proof. unfold create_application. kp. apply keeps_allocate_app. Qed.
  Lemma keeps_optin_application E s app p : keeps (optin_application E s app p).
  Proof. unfold optin_application. kp. apply keeps_allocate_app. Qed.
  Lemma keeps_closeout_application s app : keeps (closeout_application s app).
  Proof. unfold closeout_application. kp; [apply keeps_some_or_fail | apply keeps_deallocate_app]. Qed.
  Lemma keeps_delete_application E cr app : keeps (delete_application E cr app).
  Proof. unfold delete_application. kp. apply keeps_deallocate_app. Qed.

  Lemma keeps_application_call E s call ctr : keeps (application_call E s call ctr).
  Proof.
    unfold application_call. apply keeps_bind.
    { destruct (ac_app call =? 0); [apply keeps_create_application | kp]. }
    intro app. kp.
    { destruct a; kp. apply keeps_some_or_fail. }
    destruct (ac_oc call =? 3).
    - kp; [|apply keeps_closeout_application].
      destruct a0; [|kp]. intro c.
      pose proof (keeps_stateful_eval E app true (ac_script call) (ac_accept call) c) as K.
      destruct (stateful_eval E app true (ac_script call) (ac_accept call) c) as [c1 r]. exact K.
    - destruct a0 as [[params creator]|]; kp.
      + apply keeps_optin_application.
      + apply keeps_stateful_eval.
      + destruct ((ac_oc call =? 0) || (ac_oc call =? 1)); kp.
        destruct (ac_oc call =? 2); [apply keeps_closeout_application|].
        destruct (ac_oc call =? 5); [apply keeps_delete_application | kp].
  Qed.

  Lemma keeps_apply_transaction E tx ctr : keeps (apply_transaction E tx ctr).
  Proof.
    unfold apply_transaction. kp; [apply keeps_take_fee | apply keeps_rekey |].
    destruct (t_body tx); kp;
      first [apply keeps_application_call | apply keeps_payment | apply keeps_keyreg | apply keeps_asset_config
            | apply keeps_asset_transfer | apply keeps_asset_freeze].
  Qed.
End Frame.
