(* Generic key-space lemmas for the tracker model (model/Tracker.v, Section Space):
   association lists, the modified map with its reference counts, compaction, the commit to
   the table, the LRU cache with its pending-write channel, and the correctness of a lookup. *)
From Coq Require Import NArith List Bool Arith Lia.
From Verif.model Require Import LedgerSpec Tracker.
From Verif.proofs Require Import LedgerSpecProofs.
Import ListNotations.

Section Space.
  Variables K V D : Type.
  Variable keqb : K -> K -> bool.
  Variable interp : D -> V.
  Variable merge : V -> D -> V.
  Variable vempty : V.
  Variable is_empty : V -> bool.
  Variable skip : D -> V -> bool.
  Variable nf_mode : bool.
  Variable strict : bool.

  Hypothesis keqb_spec : forall x y, keqb x y = true <-> x = y.
  Hypothesis is_empty_spec : forall v, is_empty v = true <-> v = vempty.

  (* what the evaluator guarantees about a record, given the value before the round *)
  Variable wfrec : V -> D -> Prop.
  Hypothesis merge_first : forall d, merge vempty d = interp d.
  Hypothesis merge_ok : forall prev d, wfrec prev d -> merge prev d = interp d.
  Hypothesis skip_ok : forall prev d v, wfrec prev d -> skip d v = true -> v = prev.

  Notation kref := (keqb_refl K keqb keqb_spec).
  Notation kneq := (keqb_neq K keqb keqb_spec).
  Notation ksym := (keqb_sym K keqb keqb_spec).
  Notation Aget := (aget K keqb).
  Notation Adel := (adel K keqb).
  Notation Rfind := (rfind keqb).
  Notation Walk := (walk K D keqb).
  Notation rounds := (list (list (K * D))).

  Lemma keqb_dec : forall x y : K, {x = y} + {x <> y}.
  Proof.
    intros x y. destruct (keqb x y) eqn:E.
    - left. now apply keqb_spec.
    - right. intro H. subst. rewrite kref in E. discriminate.
  Qed.

  (* ------------------------------------------------------------------ association lists *)
  Lemma aget_adel : forall (A : Type) (l : list (K * A)) k k',
    Aget k (Adel k' l) = if keqb k k' then None else Aget k l.
  Proof.
    induction l as [|[k0 a] l IH]; intros k k'; simpl.
    - now destruct (keqb k k').
    - destruct (keqb k' k0) eqn:E1; simpl.
      + apply keqb_spec in E1. subst k0. rewrite IH. now destruct (keqb k k').
      + destruct (keqb k k0) eqn:E2.
        * apply keqb_spec in E2. subst k0. rewrite (ksym k k'), E1. reflexivity.
        * apply IH.
  Qed.

  Lemma aget_app : forall (A : Type) (l1 l2 : list (K * A)) k,
    Aget k (l1 ++ l2) = match Aget k l1 with Some a => Some a | None => Aget k l2 end.
  Proof.
    induction l1 as [|[k0 a] l1 IH]; intros l2 k; simpl; [reflexivity|].
    destruct (keqb k k0); [reflexivity|apply IH].
  Qed.

  Lemma aget_in : forall (A : Type) (l : list (K * A)) k a, Aget k l = Some a -> In (k, a) l.
  Proof.
    induction l as [|[k0 a0] l IH]; intros k a H; simpl in *; [discriminate|].
    destruct (keqb k k0) eqn:E.
    - apply keqb_spec in E. inversion H; subst. now left.
    - right. now apply IH.
  Qed.

  Lemma aget_none_notin : forall (A : Type) (l : list (K * A)) k,
    Aget k l = None -> ~ In k (map fst l).
  Proof.
    induction l as [|[k0 a0] l IH]; intros k H; simpl in *; [tauto|].
    destruct (keqb k k0) eqn:E; [discriminate|].
    intros [H1|H1]; [subst; rewrite kref in E; discriminate | now apply (IH k)].
  Qed.

  Lemma notin_aget_none : forall (A : Type) (l : list (K * A)) k,
    ~ In k (map fst l) -> Aget k l = None.
  Proof.
    induction l as [|[k0 a0] l IH]; intros k H; simpl in *; [reflexivity|].
    destruct (keqb k k0) eqn:E.
    - apply keqb_spec in E. subst. tauto.
    - apply IH. tauto.
  Qed.

  (* rfind and aget are the same function *)
  Lemma rfind_aget : forall (l : list (K * D)) k, Rfind k l = Aget k l.
  Proof. induction l as [|[k0 d] l IH]; intros k; simpl; [reflexivity|]. now rewrite IH. Qed.

  Lemma walk_lastrec : forall ds k, Walk ds k = lastrec K D keqb ds k.
  Proof. induction ds as [|r ds IH]; intros k; simpl; [reflexivity|]. now rewrite IH. Qed.

  Lemma walk_app : forall ds1 ds2 k,
    Walk (ds1 ++ ds2) k = match Walk ds2 k with Some d => Some d | None => Walk ds1 k end.
  Proof. intros. rewrite !walk_lastrec. apply lastrec_app. Qed.

  (* ------------------------------------------------------------------ table *)
  Notation Dbget := (db_get K V keqb vempty).
  Notation Dbset := (db_set K V keqb is_empty).

  Lemma db_get_set : forall t k v k',
    Dbget (Dbset t k v) k' = if keqb k' k then v else Dbget t k'.
  Proof.
    intros t k v k'. unfold db_get, db_set. destruct (is_empty v) eqn:E.
    - rewrite aget_adel. destruct (keqb k' k); [|reflexivity].
      apply is_empty_spec in E. now subst.
    - simpl. destruct (keqb k' k) eqn:E2; [reflexivity|]. now rewrite aget_adel, E2.
  Qed.

  (* ------------------------------------------------------------------ counting records *)
  Definition has (recs : list (K * D)) (k : K) : bool :=
    match Rfind k recs with Some _ => true | None => false end.
  Fixpoint cnt (ds : rounds) (k : K) : nat :=
    match ds with
    | [] => 0
    | recs :: tl => (if has recs k then 1 else 0) + cnt tl k
    end.
  Fixpoint firstrec (ds : rounds) (k : K) : option D :=
    match ds with
    | [] => None
    | recs :: tl => match Rfind k recs with Some d => Some d | None => firstrec tl k end
    end.

  Lemma cnt_app : forall ds1 ds2 k, cnt (ds1 ++ ds2) k = cnt ds1 k + cnt ds2 k.
  Proof. induction ds1 as [|r ds1 IH]; intros; simpl; [reflexivity|]. rewrite IH. lia. Qed.

  Lemma cnt_zero_walk : forall ds k, cnt ds k = 0 <-> Walk ds k = None.
  Proof.
    induction ds as [|r ds IH]; intros k; simpl; [tauto|].
    unfold has. destruct (Rfind k r) eqn:E.
    - split; [lia|]. destruct (Walk ds k); discriminate.
    - simpl. rewrite IH. destruct (Walk ds k); split; intro H; try discriminate; reflexivity.
  Qed.

  Lemma firstrec_none_walk : forall ds k, firstrec ds k = None <-> Walk ds k = None.
  Proof.
    induction ds as [|r ds IH]; intros k; simpl; [tauto|].
    destruct (Rfind k r) eqn:E.
    - split; [discriminate|]. destruct (Walk ds k); discriminate.
    - rewrite IH. destruct (Walk ds k); split; intro H; try discriminate; reflexivity.
  Qed.

  Lemma firstrec_app : forall ds1 ds2 k,
    firstrec (ds1 ++ ds2) k = match firstrec ds1 k with Some d => Some d | None => firstrec ds2 k end.
  Proof.
    induction ds1 as [|r ds1 IH]; intros; simpl; [reflexivity|].
    destruct (Rfind k r); [reflexivity|apply IH].
  Qed.

  Definition all_nodup (ds : rounds) : Prop := Forall (fun recs => nodup_keys keqb recs = true) ds.

  (* ------------------------------------------------------------------ modified map *)
  Notation Bump := (mods_bump K V keqb).
  Notation NewB := (mods_newblock K V D keqb interp).

  Lemma bump_get : forall m k v k',
    Aget k' (Bump m k v) =
    if keqb k' k then Some (v, match Aget k m with Some (_, n) => S n | None => 1 end)
    else Aget k' m.
  Proof.
    intros m k v k'. unfold mods_bump. destruct (Aget k m) as [[v0 n]|] eqn:E; simpl.
    - destruct (keqb k' k) eqn:E2; [reflexivity|]. now rewrite aget_adel, E2.
    - destruct (keqb k' k) eqn:E2; reflexivity.
  Qed.

  Lemma newblock_get : forall recs m k,
    nodup_keys keqb recs = true ->
    Aget k (NewB m recs) =
    match Rfind k recs with
    | Some d => Some (interp d, match Aget k m with Some (_, n) => S n | None => 1 end)
    | None => Aget k m
    end.
  Proof.
    induction recs as [|[k0 d0] recs IH]; intros m k Hnd; simpl in *; [reflexivity|].
    destruct (Rfind k0 recs) eqn:E0; [discriminate|].
    unfold mods_newblock in *. simpl. rewrite (IH _ _ Hnd).
    destruct (keqb k k0) eqn:E.
    - apply keqb_spec in E. subst k0. rewrite E0. rewrite bump_get, kref. reflexivity.
    - destruct (Rfind k recs); rewrite bump_get, E; reflexivity.
  Qed.

  (* the modified map summarises the in-memory rounds *)
  Definition mods_ok (m : mods K V) (mem : rounds) : Prop :=
    forall k, Aget k m = match Walk mem k with
                         | Some d => Some (interp d, cnt mem k)
                         | None => None
                         end.

  Lemma mods_ok_nil : mods_ok [] [].
  Proof. intro k. reflexivity. Qed.

  Lemma mods_ok_newblock : forall m mem recs,
    mods_ok m mem -> nodup_keys keqb recs = true -> mods_ok (NewB m recs) (mem ++ [recs]).
  Proof.
    intros m mem recs Hm Hnd k. rewrite (newblock_get _ _ _ Hnd), walk_app, cnt_app. simpl.
    unfold has. destruct (Rfind k recs) eqn:E.
    - rewrite (Hm k). destruct (Walk mem k) eqn:E2.
      + f_equal. f_equal. lia.
      + apply cnt_zero_walk in E2. rewrite E2. reflexivity.
    - rewrite (Hm k). destruct (Walk mem k); [|reflexivity]. f_equal. f_equal. lia.
  Qed.

  (* ------------------------------------------------------------------ compaction *)
  Notation Cadd := (compact_add K V D keqb merge vempty).
  Notation Compact := (compact K V D keqb merge vempty).

  Definition mstep (k : K) (v : V) (recs : list (K * D)) : V :=
    match Rfind k recs with Some d => merge v d | None => v end.
  Definition mergeall (ds : rounds) (k : K) : V := fold_left (mstep k) ds vempty.

  Lemma aget_replace_other : forall (A : Type) (c : list (K * A)) k x k',
    keqb k' k = false ->
    Aget k' (map (fun q => if keqb k (fst q) then (k, x) else q) c) = Aget k' c.
  Proof.
    induction c as [|[k0 a] c IH]; intros k x k' H; simpl; [reflexivity|].
    destruct (keqb k k0) eqn:E1; simpl.
    - apply keqb_spec in E1. subst k0. rewrite H. now apply IH.
    - destruct (keqb k' k0); [reflexivity|now apply IH].
  Qed.

  Lemma aget_replace_same : forall (A : Type) (c : list (K * A)) k x y,
    Aget k c = Some y ->
    Aget k (map (fun q => if keqb k (fst q) then (k, x) else q) c) = Some x.
  Proof.
    induction c as [|[k0 a] c IH]; intros k x y H; simpl in *; [discriminate|].
    destruct (keqb k k0) eqn:E1; simpl.
    - now rewrite kref.
    - rewrite E1. now apply (IH k x y).
  Qed.

  Lemma cadd_get : forall c k d k',
    Aget k' (Cadd c (k, d)) =
    if keqb k' k then
      match Aget k c with
      | Some (v, n, f) => Some (merge v d, S n, f)
      | None => Some (merge vempty d, 1, d)
      end
    else Aget k' c.
  Proof.
    intros c k d k'. unfold compact_add. simpl. destruct (Aget k c) as [[[v n] f]|] eqn:E.
    - destruct (keqb k' k) eqn:E2.
      + apply keqb_spec in E2. subst k'. now apply (aget_replace_same _ c k _ _ E).
      + now apply aget_replace_other.
    - rewrite aget_app. simpl. destruct (keqb k' k) eqn:E2.
      + apply keqb_spec in E2. subst k'. now rewrite E.
      + now destruct (Aget k' c).
  Qed.
  Lemma cadd_fold_get : forall recs c k,
    nodup_keys keqb recs = true ->
    Aget k (fold_left Cadd recs c) =
    match Rfind k recs with
    | Some d => match Aget k c with
                | Some (v, n, f) => Some (merge v d, S n, f)
                | None => Some (merge vempty d, 1, d)
                end
    | None => Aget k c
    end.
  Proof.
    induction recs as [|[k0 d0] recs IH]; intros c k Hnd; simpl in *; [reflexivity|].
    destruct (Rfind k0 recs) eqn:E0; [discriminate|].
    rewrite (IH _ _ Hnd). destruct (keqb k k0) eqn:E.
    - apply keqb_spec in E. subst k0. rewrite E0, cadd_get, kref. reflexivity.
    - destruct (Rfind k recs); rewrite cadd_get, E; reflexivity.
  Qed.

  Lemma compact_snoc : forall ds recs, Compact (ds ++ [recs]) = fold_left Cadd recs (Compact ds).
  Proof. intros. unfold compact. now rewrite fold_left_app. Qed.

  Lemma mergeall_snoc : forall ds recs k, mergeall (ds ++ [recs]) k = mstep k (mergeall ds k) recs.
  Proof. intros. unfold mergeall. now rewrite fold_left_app. Qed.

  Lemma mergeall_none : forall ds k, Walk ds k = None -> mergeall ds k = vempty.
  Proof.
    induction ds as [|recs ds IH] using rev_ind; intros k H; [reflexivity|].
    rewrite walk_app in H. simpl in H. rewrite mergeall_snoc. unfold mstep.
    destruct (Rfind k recs); [discriminate|]. destruct (Walk ds k) eqn:E; [discriminate|].
    now apply IH.
  Qed.

  Lemma all_nodup_app : forall ds1 ds2, all_nodup (ds1 ++ ds2) <-> all_nodup ds1 /\ all_nodup ds2.
  Proof. intros. unfold all_nodup. apply Forall_app. Qed.

  Lemma compact_get : forall ds k,
    all_nodup ds ->
    Aget k (Compact ds) =
    match firstrec ds k with
    | Some f => Some (mergeall ds k, cnt ds k, f)
    | None => None
    end.
  Proof.
    induction ds as [|recs ds IH] using rev_ind; intros k Hnd; [reflexivity|].
    apply all_nodup_app in Hnd. destruct Hnd as [Hnd1 Hnd2]. inversion Hnd2; subst.
    rewrite compact_snoc, (cadd_fold_get _ _ _ H1), (IH k Hnd1), firstrec_app, mergeall_snoc, cnt_app.
    simpl. unfold mstep, has. destruct (Rfind k recs) eqn:E.
    - destruct (firstrec ds k) eqn:E2.
      + f_equal. f_equal. f_equal. lia.
      + apply firstrec_none_walk in E2. rewrite (mergeall_none _ _ E2).
        apply cnt_zero_walk in E2. rewrite E2. reflexivity.
    - destruct (firstrec ds k); [|reflexivity]. f_equal. f_equal. f_equal. lia.
  Qed.

  Lemma NoDup_snoc : forall (A : Type) (l : list A) (x : A), NoDup l -> ~ In x l -> NoDup (l ++ [x]).
  Proof.
    induction l as [|y l IH]; intros x H Hx; simpl.
    - constructor; [tauto|constructor].
    - inversion H; subst. constructor.
      + rewrite in_app_iff. simpl in *. intros [H1|[H1|[]]]; [tauto|subst; tauto].
      + apply IH; [assumption|]. simpl in Hx. tauto.
  Qed.

  Lemma cadd_keys : forall c p, NoDup (map fst c) -> NoDup (map fst (Cadd c p)).
  Proof.
    intros c [k d] H. unfold compact_add. simpl. destruct (Aget k c) as [[[v n] f]|] eqn:E.
    - replace (map fst (map (fun q : K * (V * nat * D) => if keqb k (fst q) then (k, (merge v d, S n, f)) else q) c))
        with (map fst c); [exact H|].
      clear -keqb_spec. induction c as [|[k0 x] c IH]; simpl; [reflexivity|].
      destruct (keqb k k0) eqn:E1; simpl; [apply keqb_spec in E1; subst|]; now rewrite IH.
    - rewrite map_app. simpl. apply NoDup_snoc; [exact H|]. now apply (aget_none_notin _ _ _ E).
  Qed.
  Lemma compact_nodup : forall ds, NoDup (map fst (Compact ds)).
  Proof.
    intros ds. unfold compact.
    assert (G : forall ds c, NoDup (map fst c) ->
                NoDup (map fst (fold_left (fun c recs => fold_left Cadd recs c) ds c))).
    { clear ds. induction ds as [|recs ds IH]; intros c H; simpl; [exact H|].
      apply IH. clear IH. revert c H. induction recs as [|p recs IH2]; intros c H; simpl; [exact H|].
      apply IH2. now apply cadd_keys. }
    apply G. constructor.
  Qed.

  (* ------------------------------------------------------------------ well-formed ranges *)
  Notation app1 := (fun (f : K -> V) (recs : list (K * D)) => apply_recs keqb interp recs f).
  Definition stf (f0 : K -> V) (ds : rounds) (i : nat) : K -> V := fold_left app1 (firstn i ds) f0.

  Definition wf_range (f0 : K -> V) (ds : rounds) : Prop :=
    forall i k d, i < length ds -> Rfind k (nth i ds []) = Some d -> wfrec (stf f0 ds i k) d.

  Lemma stf_walk : forall f0 ds i k,
    stf f0 ds i k = match Walk (firstn i ds) k with Some d => interp d | None => f0 k end.
  Proof. intros. unfold stf. rewrite walk_lastrec. apply fold_lastrec. Qed.

  Lemma wf_range_prefix : forall f0 ds recs, wf_range f0 (ds ++ [recs]) -> wf_range f0 ds.
  Proof.
    intros f0 ds recs H i k d Hi Hr.
    specialize (H i k d). rewrite app_length in H. simpl in H.
    rewrite app_nth1 in H by lia. unfold stf in *. rewrite firstn_app in H.
    replace (i - length ds) with 0 in H by lia. simpl in H. rewrite app_nil_r in H.
    apply H; [lia|exact Hr].
  Qed.

  Lemma mergeall_interp : forall f0 ds k dl,
    wf_range f0 ds -> Walk ds k = Some dl -> mergeall ds k = interp dl.
  Proof.
    intros f0. induction ds as [|recs ds IH] using rev_ind; intros k dl Hwf Hw; [discriminate|].
    rewrite walk_app in Hw. simpl in Hw. rewrite mergeall_snoc. unfold mstep.
    destruct (Rfind k recs) as [d|] eqn:E.
    - inversion Hw; subst dl. destruct (Walk ds k) as [dp|] eqn:E2.
      + rewrite (IH k dp (wf_range_prefix _ _ _ Hwf) E2).
        apply merge_ok. specialize (Hwf (length ds) k d).
        rewrite app_length in Hwf. simpl in Hwf. rewrite nth_middle in Hwf.
        rewrite stf_walk in Hwf. rewrite firstn_app in Hwf.
        replace (length ds - length ds) with 0 in Hwf by lia. simpl in Hwf.
        rewrite app_nil_r, firstn_all, E2 in Hwf. apply Hwf; [lia|exact E].
      + rewrite (mergeall_none _ _ E2). apply merge_first.
    - destruct (Walk ds k) as [dp|] eqn:E2; [|discriminate]. inversion Hw; subst dp.
      apply (IH k dl (wf_range_prefix _ _ _ Hwf) E2).
  Qed.

  Lemma firstrec_wf : forall f0 ds k f, wf_range f0 ds -> firstrec ds k = Some f -> wfrec (f0 k) f.
  Proof.
    intros f0. induction ds as [|recs ds IH] using rev_ind; intros k f Hwf Hf; [discriminate|].
    rewrite firstrec_app in Hf. destruct (firstrec ds k) as [f'|] eqn:E.
    - inversion Hf; subst f'. apply (IH k f (wf_range_prefix _ _ _ Hwf) E).
    - simpl in Hf. destruct (Rfind k recs) as [d|] eqn:E2; [|discriminate]. inversion Hf; subst d.
      specialize (Hwf (length ds) k f). rewrite app_length in Hwf. simpl in Hwf.
      rewrite nth_middle, stf_walk, firstn_app in Hwf.
      replace (length ds - length ds) with 0 in Hwf by lia. simpl in Hwf.
      rewrite app_nil_r, firstn_all in Hwf. apply firstrec_none_walk in E. rewrite E in Hwf.
      apply Hwf; [lia|exact E2].
  Qed.

  (* ------------------------------------------------------------------ commit to the table *)
  Notation Commit1 := (commit_one K V D keqb is_empty skip strict).

  Lemma commit_fold_none : forall c, fold_left Commit1 c None = None.
  Proof. induction c as [|e c IH]; simpl; [reflexivity|exact IH]. Qed.

  Lemma commit_fold_get : forall c t t',
    NoDup (map fst c) -> fold_left Commit1 c (Some t) = Some t' ->
    forall k, Dbget t' k = match Aget k c with
                           | Some (v, _, f) => if skip f v then Dbget t k else v
                           | None => Dbget t k
                           end.
  Proof.
    induction c as [|[k0 [[v n] f]] c IH]; intros t t' Hnd H k; simpl in *.
    - now inversion H.
    - inversion Hnd; subst.
      destruct (skip f v) eqn:Es.
      + rewrite (IH _ _ H3 H k). destruct (keqb k k0) eqn:E.
        * apply keqb_spec in E. subst k0. now rewrite (notin_aget_none _ _ _ H2).
        * reflexivity.
      + destruct (strict && negb (is_empty v) && match Aget k0 t with Some _ => true | None => false end).
        * rewrite commit_fold_none in H. discriminate.
        * rewrite (IH _ _ H3 H k). destruct (keqb k k0) eqn:E.
          -- apply keqb_spec in E. subst k0. rewrite (notin_aget_none _ _ _ H2).
             now rewrite db_get_set, kref.
          -- destruct (Aget k c) as [[[v1 n1] f1]|]; rewrite ?db_get_set, ?E; try reflexivity.
             destruct (skip f1 v1); [now rewrite db_get_set, E|reflexivity].
  Qed.

  Lemma commit_fold_total : forall c t, strict = false -> exists t', fold_left Commit1 c (Some t) = Some t'.
  Proof.
    induction c as [|[k0 [[v n] f]] c IH]; intros t Hs; simpl; [eauto|].
    rewrite Hs. simpl. destruct (skip f v); apply IH; exact Hs.
  Qed.

  (* the table after the commit holds the state after the committed rounds *)
  Lemma commit_table_ok : forall f0 ds t t',
    all_nodup ds -> wf_range f0 ds ->
    (forall k, Dbget t k = f0 k) ->
    fold_left Commit1 (Compact ds) (Some t) = Some t' ->
    forall k, Dbget t' k = stf f0 ds (length ds) k.
  Proof.
    intros f0 ds t t' Hnd Hwf Ht H k.
    rewrite (commit_fold_get _ _ _ (compact_nodup ds) H k), (compact_get _ _ Hnd), stf_walk, firstn_all.
    destruct (firstrec ds k) as [f|] eqn:E.
    - destruct (Walk ds k) as [dl|] eqn:E2.
      + rewrite (mergeall_interp _ _ _ _ Hwf E2). destruct (skip f (interp dl)) eqn:Es; [|reflexivity].
        rewrite Ht. symmetry. apply (skip_ok _ _ _ (firstrec_wf _ _ _ _ Hwf E) Es).
      + apply firstrec_none_walk in E2. rewrite E2 in E. discriminate.
    - apply firstrec_none_walk in E. rewrite E. apply Ht.
  Qed.
End Space.
